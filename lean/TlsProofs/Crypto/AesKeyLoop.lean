import TlsProofs.Crypto.AesKey
/-
  C09 (growth) — the whole key-schedule loop of `Rijndael.__init__` = KeyExpansion, Nk = 4, 6, 8.
-/
set_option linter.unusedSimpArgs false
namespace Tls.Crypto.Aes
open Tls Tls.Crypto

attribute [local irreducible] Spec.sboxN Spec.gmulN Spec.ginvN

/-- the window of Nk words after one more pass -/
def nextWin : Nat → List (List UInt8) → UInt8 → List (List UInt8)
  | 4, [A, B, C, D], rc =>
    let A' := kg0 A D rc; let B' := kgx B A'; let C' := kgx C B'; let D' := kgx D C'
    [A', B', C', D']
  | 6, [A, B, C, D, E, F], rc =>
    let A' := kg0 A F rc; let B' := kgx B A'; let C' := kgx C B'; let D' := kgx D C'
    let E' := kgx E D'; let F' := kgx F E'
    [A', B', C', D', E', F']
  | 8, [A, B, C, D, E, F, G, H], rc =>
    let A' := kg0 A H rc; let B' := kgx B A'; let C' := kgx C B'; let D' := kgx D C'
    let E' := kgs E D'; let F' := kgx F E'; let G' := kgx G F'; let H' := kgx H G'
    [A', B', C', D', E', F', G', H']
  | _, _, _ => []

/-- a window: Nk words of four bytes -/
def IsWin (nk : Nat) (win : List (List UInt8)) : Prop := win.length = nk ∧ ∀ x ∈ win, x.length = 4

theorem exists4 (x : List UInt8) (h : x.length = 4) : ∃ a b c d, x = [a, b, c, d] := by
  rcases x with _ | ⟨a, _ | ⟨b, _ | ⟨c, _ | ⟨d, _ | ⟨e, r⟩⟩⟩⟩⟩ <;> simp at h
  exact ⟨a, b, c, d, rfl⟩

theorem kgx_len (a b : List UInt8) (ha : a.length = 4) (hb : b.length = 4) : (kgx a b).length = 4 := by
  simp [kgx, xorBytes, ha, hb]
theorem kgs_len (a b : List UInt8) (ha : a.length = 4) (hb : b.length = 4) : (kgs a b).length = 4 := by
  simp [kgs, xorBytes, ha, hb]
theorem kg0_len (a b : List UInt8) (rc : UInt8) (ha : a.length = 4) (hb : b.length = 4) : (kg0 a b rc).length = 4 := by
  obtain ⟨b0, b1, b2, b3, rfl⟩ := exists4 b hb
  simp [kg0, xorBytes, ha]

theorem nextWin_isWin (nk : Nat) (hnk : nk = 4 ∨ nk = 6 ∨ nk = 8) (win : List (List UInt8)) (rc : UInt8)
    (h : IsWin nk win) : IsWin nk (nextWin nk win rc) := by
  obtain ⟨hl, hw⟩ := h
  rcases hnk with rfl | rfl | rfl
  · rcases win with _ | ⟨A, _ | ⟨B, _ | ⟨C, _ | ⟨D, _ | ⟨E, r⟩⟩⟩⟩⟩ <;> simp at hl
    have hA := hw A (by simp); have hB := hw B (by simp); have hC := hw C (by simp); have hD := hw D (by simp)
    refine ⟨rfl, ?_⟩
    intro x hx
    simp only [nextWin, List.mem_cons, List.not_mem_nil, or_false] at hx
    have a' := kg0_len A D rc hA hD
    have b' := kgx_len B _ hB a'
    have c' := kgx_len C _ hC b'
    have d' := kgx_len D _ hD c'
    rcases hx with rfl | rfl | rfl | rfl <;> assumption
  · rcases win with _ | ⟨A, _ | ⟨B, _ | ⟨C, _ | ⟨D, _ | ⟨E, _ | ⟨F, _ | ⟨G, r⟩⟩⟩⟩⟩⟩⟩ <;> simp at hl
    have hA := hw A (by simp); have hB := hw B (by simp); have hC := hw C (by simp); have hD := hw D (by simp)
    have hE := hw E (by simp); have hF := hw F (by simp)
    refine ⟨rfl, ?_⟩
    intro x hx
    simp only [nextWin, List.mem_cons, List.not_mem_nil, or_false] at hx
    have a' := kg0_len A F rc hA hF
    have b' := kgx_len B _ hB a'
    have c' := kgx_len C _ hC b'
    have d' := kgx_len D _ hD c'
    have e' := kgx_len E _ hE d'
    have f' := kgx_len F _ hF e'
    rcases hx with rfl | rfl | rfl | rfl | rfl | rfl <;> assumption
  · rcases win with _ | ⟨A, _ | ⟨B, _ | ⟨C, _ | ⟨D, _ | ⟨E, _ | ⟨F, _ | ⟨G, _ | ⟨H, _ | ⟨I, r⟩⟩⟩⟩⟩⟩⟩⟩⟩ <;> simp at hl
    have hA := hw A (by simp); have hB := hw B (by simp); have hC := hw C (by simp); have hD := hw D (by simp)
    have hE := hw E (by simp); have hF := hw F (by simp); have hG := hw G (by simp); have hH := hw H (by simp)
    refine ⟨rfl, ?_⟩
    intro x hx
    simp only [nextWin, List.mem_cons, List.not_mem_nil, or_false] at hx
    have a' := kg0_len A H rc hA hH
    have b' := kgx_len B _ hB a'
    have c' := kgx_len C _ hC b'
    have d' := kgx_len D _ hD c'
    have e' := kgs_len E _ hE d'
    have f' := kgx_len F _ hF e'
    have g' := kgx_len G _ hG f'
    have h' := kgx_len H _ hH g'
    rcases hx with rfl | rfl | rfl | rfl | rfl | rfl | rfl | rfl <;> assumption

/-- one model pass on any window -/
theorem expandStep_win (nk : Nat) (hnk : nk = 4 ∨ nk = 6 ∨ nk = 8) (win : List (List UInt8)) (h : IsWin nk win)
    (rc : UInt8) (W : List Nat) (rp RKC : Nat) (hrc : aidx Gen.rcon rp = .ok rc.toNat) :
    Model.expandStep nk RKC (win.map wd, W, rp) =
      .ok ((nextWin nk win rc).map wd, (W ++ (nextWin nk win rc).map wd).take RKC, rp + 1) := by
  obtain ⟨hl, hw⟩ := h
  rcases hnk with rfl | rfl | rfl
  · rcases win with _ | ⟨A, _ | ⟨B, _ | ⟨C, _ | ⟨D, _ | ⟨E, r⟩⟩⟩⟩⟩ <;> simp at hl
    obtain ⟨a0, a1, a2, a3, rfl⟩ := exists4 A (hw A (by simp))
    obtain ⟨b0, b1, b2, b3, rfl⟩ := exists4 B (hw B (by simp))
    obtain ⟨c0, c1, c2, c3, rfl⟩ := exists4 C (hw C (by simp))
    obtain ⟨d0, d1, d2, d3, rfl⟩ := exists4 D (hw D (by simp))
    exact expandStep4 a0 a1 a2 a3 b0 b1 b2 b3 c0 c1 c2 c3 d0 d1 d2 d3 rc W rp RKC hrc
  · rcases win with _ | ⟨A, _ | ⟨B, _ | ⟨C, _ | ⟨D, _ | ⟨E, _ | ⟨F, _ | ⟨G, r⟩⟩⟩⟩⟩⟩⟩ <;> simp at hl
    obtain ⟨a0, a1, a2, a3, rfl⟩ := exists4 A (hw A (by simp))
    obtain ⟨b0, b1, b2, b3, rfl⟩ := exists4 B (hw B (by simp))
    obtain ⟨c0, c1, c2, c3, rfl⟩ := exists4 C (hw C (by simp))
    obtain ⟨d0, d1, d2, d3, rfl⟩ := exists4 D (hw D (by simp))
    obtain ⟨e0, e1, e2, e3, rfl⟩ := exists4 E (hw E (by simp))
    obtain ⟨f0, f1, f2, f3, rfl⟩ := exists4 F (hw F (by simp))
    exact expandStep6 a0 a1 a2 a3 b0 b1 b2 b3 c0 c1 c2 c3 d0 d1 d2 d3 e0 e1 e2 e3 f0 f1 f2 f3 rc W rp RKC hrc
  · rcases win with _ | ⟨A, _ | ⟨B, _ | ⟨C, _ | ⟨D, _ | ⟨E, _ | ⟨F, _ | ⟨G, _ | ⟨H, _ | ⟨I, r⟩⟩⟩⟩⟩⟩⟩⟩⟩ <;> simp at hl
    obtain ⟨a0, a1, a2, a3, rfl⟩ := exists4 A (hw A (by simp))
    obtain ⟨b0, b1, b2, b3, rfl⟩ := exists4 B (hw B (by simp))
    obtain ⟨c0, c1, c2, c3, rfl⟩ := exists4 C (hw C (by simp))
    obtain ⟨d0, d1, d2, d3, rfl⟩ := exists4 D (hw D (by simp))
    obtain ⟨e0, e1, e2, e3, rfl⟩ := exists4 E (hw E (by simp))
    obtain ⟨f0, f1, f2, f3, rfl⟩ := exists4 F (hw F (by simp))
    obtain ⟨g0, g1, g2, g3, rfl⟩ := exists4 G (hw G (by simp))
    obtain ⟨h0, h1, h2, h3, rfl⟩ := exists4 H (hw H (by simp))
    exact expandStep8 a0 a1 a2 a3 b0 b1 b2 b3 c0 c1 c2 c3 d0 d1 d2 d3 e0 e1 e2 e3 f0 f1 f2 f3 g0 g1 g2 g3 h0 h1 h2 h3
      rc W rp RKC hrc

/-- the same pass in the specification: Nk iterations of the loop append the next window -/
theorem spec_group (nk : Nat) (hnk : nk = 4 ∨ nk = 6 ∨ nk = 8) (pre win : List (List UInt8)) (h : IsWin nk win)
    (rc : UInt8) (hp : pre.length % nk = 0) :
    (List.range' (pre.length + nk) nk).foldl (Spec.kstep nk) (pre ++ win, rc) =
      (pre ++ win ++ nextWin nk win rc, Spec.xtime rc) := by
  obtain ⟨hl, _⟩ := h
  rcases hnk with rfl | rfl | rfl
  · rcases win with _ | ⟨A, _ | ⟨B, _ | ⟨C, _ | ⟨D, _ | ⟨E, r⟩⟩⟩⟩⟩ <;> simp at hl
    exact spec_group4 pre A B C D rc hp
  · rcases win with _ | ⟨A, _ | ⟨B, _ | ⟨C, _ | ⟨D, _ | ⟨E, _ | ⟨F, _ | ⟨G, r⟩⟩⟩⟩⟩⟩⟩ <;> simp at hl
    exact spec_group6 pre A B C D E F rc hp
  · rcases win with _ | ⟨A, _ | ⟨B, _ | ⟨C, _ | ⟨D, _ | ⟨E, _ | ⟨F, _ | ⟨G, _ | ⟨H, _ | ⟨I, r⟩⟩⟩⟩⟩⟩⟩⟩⟩ <;> simp at hl
    exact spec_group8 pre A B C D E F G H rc hp

/-! ### iterating the passes -/

/-- window and Rcon value after `j` passes -/
def winAt (nk : Nat) (w0 : List (List UInt8)) : Nat → List (List UInt8) × UInt8
  | 0 => (w0, 1)
  | j+1 => (nextWin nk (winAt nk w0 j).1 (winAt nk w0 j).2, Spec.xtime (winAt nk w0 j).2)

/-- all words produced after `j` passes -/
def fullAt (nk : Nat) (w0 : List (List UInt8)) : Nat → List (List UInt8)
  | 0 => w0
  | j+1 => fullAt nk w0 j ++ (winAt nk w0 (j+1)).1

theorem winAt_isWin (nk : Nat) (hnk : nk = 4 ∨ nk = 6 ∨ nk = 8) (w0 : List (List UInt8)) (h0 : IsWin nk w0) :
    ∀ j, IsWin nk (winAt nk w0 j).1 := by
  intro j; induction j with
  | zero => exact h0
  | succ j ih => exact nextWin_isWin nk hnk _ _ ih

theorem fullAt_length (nk : Nat) (hnk : nk = 4 ∨ nk = 6 ∨ nk = 8) (w0 : List (List UInt8)) (h0 : IsWin nk w0) :
    ∀ j, (fullAt nk w0 j).length = nk * (j + 1) := by
  intro j; induction j with
  | zero => simp [fullAt, h0.1]
  | succ j ih => rw [fullAt, List.length_append, ih, (winAt_isWin nk hnk w0 h0 (j+1)).1, Nat.mul_succ nk (j+1)]

theorem fullAt_words (nk : Nat) (hnk : nk = 4 ∨ nk = 6 ∨ nk = 8) (w0 : List (List UInt8)) (h0 : IsWin nk w0) :
    ∀ j, ∀ x ∈ fullAt nk w0 j, x.length = 4 := by
  intro j; induction j with
  | zero => exact h0.2
  | succ j ih =>
    intro x hx
    rw [fullAt, List.mem_append] at hx
    rcases hx with hx | hx
    · exact ih x hx
    · exact (winAt_isWin nk hnk w0 h0 (j+1)).2 x hx

/-- `fullAt j` ends with window `j` -/
theorem fullAt_split (nk : Nat) (hnk : nk = 4 ∨ nk = 6 ∨ nk = 8) (w0 : List (List UInt8)) (h0 : IsWin nk w0) (j : Nat) :
    ∃ pre, fullAt nk w0 j = pre ++ (winAt nk w0 j).1 ∧ pre.length = nk * j := by
  cases j with
  | zero => exact ⟨[], by simp [fullAt, winAt], by simp⟩
  | succ j => exact ⟨fullAt nk w0 j, rfl, fullAt_length nk hnk w0 h0 j⟩

/-- the specification loop after `nk·j` iterations -/
theorem spec_fold (nk : Nat) (hnk : nk = 4 ∨ nk = 6 ∨ nk = 8) (w0 : List (List UInt8)) (h0 : IsWin nk w0) :
    ∀ j, (List.range' nk (nk * j)).foldl (Spec.kstep nk) (w0, 1) = (fullAt nk w0 j, (winAt nk w0 j).2) := by
  intro j; induction j with
  | zero => simp [fullAt, winAt]
  | succ j ih =>
    obtain ⟨pre, hpre, hlen⟩ := fullAt_split nk hnk w0 h0 j
    have hr : List.range' nk (nk * (j + 1)) = List.range' nk (nk * j) ++ List.range' (nk + nk * j) nk := by
      rw [Nat.mul_succ, List.range'_append_1]
    have hnk0 : nk ≠ 0 := by rcases hnk with rfl | rfl | rfl <;> decide
    rw [hr, List.foldl_append, ih, hpre]
    have hidx : nk + nk * j = pre.length + nk := by rw [hlen]; omega
    rw [hidx, spec_group nk hnk pre _ (winAt_isWin nk hnk w0 h0 j) _ (by rw [hlen]; exact Nat.mul_mod_right nk j)]
    simp only [fullAt, winAt, hpre]

/-- Rcon as a number -/
def rcN (t : Nat) : Nat := (List.range t).foldl (fun r _ => Spec.xtimeN r) 1

theorem rcN_succ (t : Nat) : rcN (t + 1) = Spec.xtimeN (rcN t) := by
  simp [rcN, List.range_succ, List.foldl_append]

theorem xtimeN_lt : ∀ b, b < 256 → Spec.xtimeN b < 256 := by decide +kernel

theorem rcN_lt (t : Nat) : rcN t < 256 := by
  induction t with
  | zero => decide
  | succ t ih => rw [rcN_succ]; exact xtimeN_lt _ ih

theorem winAt_rc (nk : Nat) (w0 : List (List UInt8)) (j : Nat) : (winAt nk w0 j).2.toNat = rcN j := by
  induction j with
  | zero => rfl
  | succ j ih =>
    rw [winAt, rcN_succ, ← ih]
    simp only [Spec.xtime, UInt8.toNat_ofNat']
    exact Nat.mod_eq_of_lt (xtimeN_lt _ (UInt8.toNat_lt _))

theorem rcon_lookup (t : Nat) (ht : t < 14) : aidx Gen.rcon t = .ok (rcN t) := by
  apply aidx_of_toList
  have h := rcon_table
  have : (Gen.rcon.toList.take 14)[t]? = some (rcN t) := by
    rw [h, List.getElem?_map, List.getElem?_range ht]; rfl
  rw [List.getElem?_take] at this
  simpa [ht] using this

theorem take_take_append {α : Type} (n : Nat) (l m : List α) : ((l.take n) ++ m).take n = (l ++ m).take n := by
  by_cases h : n ≤ l.length
  · rw [List.take_append_of_le_length (by simp [List.length_take]; omega), List.take_take, Nat.min_self,
      List.take_append_of_le_length h]
  · have hl : l.take n = l := List.take_of_length_le (by omega)
    rw [hl]

/-- the model's state after `j` passes -/
def modelSt (nk RKC : Nat) (w0 : List (List UInt8)) (j : Nat) : List Nat × List Nat × Nat :=
  ((winAt nk w0 j).1.map wd, ((fullAt nk w0 j).map wd).take RKC, j)

theorem model_step (nk : Nat) (hnk : nk = 4 ∨ nk = 6 ∨ nk = 8) (RKC : Nat) (w0 : List (List UInt8)) (h0 : IsWin nk w0)
    (j : Nat) (hj : j < 14) :
    Model.expandStep nk RKC (modelSt nk RKC w0 j) = .ok (modelSt nk RKC w0 (j + 1)) := by
  have hrc : aidx Gen.rcon j = .ok (winAt nk w0 j).2.toNat := by rw [winAt_rc]; exact rcon_lookup j hj
  rw [modelSt, expandStep_win nk hnk _ (winAt_isWin nk hnk w0 h0 j) _ _ _ _ hrc]
  simp only [modelSt, winAt, fullAt, take_take_append, List.map_append]

end Tls.Crypto.Aes
