import TlsProofs.Crypto.Poly1305
/-
  C09 — ChaCha20-Poly1305 AEAD: model = RFC 8439 §2.8, open ∘ seal, exact acceptance condition.
-/
set_option linter.unusedSimpArgs false
namespace Tls.Crypto.ChaChaPoly
open Tls Tls.Crypto

theorem chacha_encrypt_spec (key nonce pt : Bytes) (counter : Nat) (hk : key.length = 32)
    (hn : nonce.length = 12) (hc : counter + divceil pt.length 64 ≤ 2^32) :
    (ChaCha.Model.init key nonce counter 20 >>= fun s => ChaCha.Model.encrypt s pt) =
      .ok (ChaCha.Spec.encrypt key counter nonce pt) := by
  rw [ChaCha.Model.init, if_neg (by simp [hk]), if_neg (by simp [hn])]
  simp only [bind, Except.bind, ChaCha.Model.encrypt]
  have := ChaCha.encryptBlocks_spec key nonce counter hk hn pt.length pt 0 rfl (by omega)
  simpa using this

theorem xorBytes_zeros (n : Nat) (l : Bytes) : xorBytes (zeros n) l = l.take n := by
  induction n generalizing l with
  | zero => simp [zeros, xorBytes]
  | succ n ih =>
    cases l with
    | nil => simp [zeros, xorBytes]
    | cons x xs =>
      simp only [zeros, xorBytes] at ih
      simp [zeros, xorBytes, List.replicate_succ, ih]

theorem length_xorBytes (a b : Bytes) : (xorBytes a b).length = min a.length b.length := by
  simp [xorBytes]

theorem xorBytes_xorBytes (a k : Bytes) (h : a.length ≤ k.length) : xorBytes (xorBytes a k) k = a := by
  induction a generalizing k with
  | nil => simp [xorBytes]
  | cons x xs ih =>
    cases k with
    | nil => simp at h
    | cons y ys =>
      simp only [xorBytes] at ih
      simp only [List.length_cons] at h
      simp [xorBytes, ih ys (by omega), UInt8.xor_assoc]

theorem keyStream_length (key nonce : Bytes) (c n : Nat) :
    (ChaCha.Spec.keyStream key c nonce n).length = 64 * n := by
  induction n generalizing c with
  | zero => simp [ChaCha.Spec.keyStream]
  | succ n ih => rw [ChaCha.keyStream_succ, List.length_append, ChaCha.block_length, ih]; omega

theorem le_divceil (n : Nat) : n ≤ 64 * divceil n 64 := by
  unfold divceil; split <;> omega

theorem encrypt_length (key nonce pt : Bytes) (c : Nat) :
    (ChaCha.Spec.encrypt key c nonce pt).length = pt.length := by
  rw [ChaCha.Spec.encrypt, length_xorBytes, keyStream_length]
  have := le_divceil pt.length; omega

/-- ChaCha20 decryption is encryption (§2.4): applying it twice is the identity -/
theorem encrypt_encrypt (key nonce pt : Bytes) (c : Nat) :
    ChaCha.Spec.encrypt key c nonce (ChaCha.Spec.encrypt key c nonce pt) = pt := by
  have hl := encrypt_length key nonce pt c
  rw [ChaCha.Spec.encrypt, hl]
  rw [ChaCha.Spec.encrypt, xorBytes_xorBytes]
  rw [keyStream_length]; exact le_divceil _

theorem polyKeyGen_spec (key nonce : Bytes) (hk : key.length = 32) (hn : nonce.length = 12) :
    Model.poly1305KeyGen key nonce = .ok (Spec.polyKeyGen key nonce) := by
  have h := chacha_encrypt_spec key nonce (zeros 32) 0 hk hn (by simp [zeros, divceil])
  rw [Model.poly1305KeyGen]
  simp only [bind, Except.bind] at h ⊢
  rw [h, ChaCha.Spec.encrypt, Spec.polyKeyGen]
  have : divceil (zeros 32).length 64 = 1 := by simp [zeros, divceil]
  rw [this, ChaCha.keyStream_succ]
  simp [ChaCha.Spec.keyStream, xorBytes_zeros]

theorem polyKeyGen_length (key nonce : Bytes) : (Spec.polyKeyGen key nonce).length = 32 := by
  simp [Spec.polyKeyGen, ChaCha.block_length]

theorem pad16_spec (x : Bytes) : Model.pad16 x = Spec.pad16 x := by
  unfold Model.pad16 Spec.pad16
  split
  · rename_i h; simp [h, zeros]
  · rename_i h
    have : (16 - x.length % 16) % 16 = 16 - x.length % 16 := by omega
    rw [this]

theorem tagOf_spec (key nonce aad ct : Bytes) (ha : aad.length < 2^64) (hc : ct.length < 2^64) :
    Model.tagOf (Spec.polyKeyGen key nonce) aad ct = .ok (Spec.tag key nonce aad ct) := by
  obtain ⟨st, hst, htag⟩ := Poly1305.createTag_spec (Spec.polyKeyGen key nonce)
    (Spec.macData aad ct) (polyKeyGen_length key nonce)
  simp only [Model.tagOf, Model.packQ, ha, hc, if_true, bind, Except.bind, hst, pure, Except.pure,
    pad16_spec, Spec.tag]
  rw [← htag, Spec.macData]
  simp only [List.append_assoc]


theorem aseal_spec (key nonce pt aad : Bytes) (hk : key.length = 32) (hn : nonce.length = 12)
    (ha : aad.length < 2^64) (hc : 1 + divceil pt.length 64 ≤ 2^32) :
    Model.aseal key nonce pt aad = .ok (Spec.aseal key nonce pt aad) := by
  have henc := chacha_encrypt_spec key nonce pt 1 hk hn hc
  have hlen : (ChaCha.Spec.encrypt key 1 nonce pt).length < 2^64 := by
    rw [encrypt_length]
    have : pt.length ≤ 64 * divceil pt.length 64 := le_divceil _
    omega
  rw [Model.aseal, if_neg (by simp [hn])]
  simp only [bind, Except.bind, polyKeyGen_spec key nonce hk hn] at henc ⊢
  cases hi : ChaCha.Model.init key nonce 1 with
  | error e => rw [hi] at henc; simp at henc
  | ok c =>
    rw [hi] at henc
    simp only at henc ⊢
    rw [henc]
    simp only [tagOf_spec key nonce aad _ ha hlen, pure, Except.pure, Spec.aseal]

theorem aopen_spec (key nonce c aad : Bytes) (hk : key.length = 32) (hn : nonce.length = 12)
    (ha : aad.length < 2^64) (hc : 1 + divceil (c.length - 16) 64 ≤ 2^32) :
    Model.aopen key nonce c aad = .ok (Spec.aopen key nonce c aad) := by
  rw [Model.aopen, if_neg (by simp [hn]), Spec.aopen]
  by_cases hshort : c.length < 16
  · simp [hshort]
  · have hl : (c.take (c.length - 16)).length = c.length - 16 := by simp
    have henc := chacha_encrypt_spec key nonce (c.take (c.length - 16)) 1 hk hn (by rw [hl]; exact hc)
    have hlen : (c.take (c.length - 16)).length < 2^64 := by
      rw [hl]
      have : c.length - 16 ≤ 64 * divceil (c.length - 16) 64 := le_divceil _
      omega
    simp only [hshort, if_false, bind, Except.bind, polyKeyGen_spec key nonce hk hn,
      tagOf_spec key nonce aad _ ha hlen, ChaCha.Model.decrypt] at henc ⊢
    by_cases ht : Spec.tag key nonce aad (c.take (c.length - 16)) = c.drop (c.length - 16)
    · cases hi : ChaCha.Model.init key nonce 1 with
      | error e => rw [hi] at henc; simp at henc
      | ok st =>
        rw [hi] at henc
        simp only at henc
        simp [ht, henc, pure, Except.pure]
    · have ht' : ¬ c.drop (c.length - 16) = Spec.tag key nonce aad (c.take (c.length - 16)) :=
        fun e => ht e.symm
      simp [ht, ht', pure, Except.pure]

/-- spec level: opening a sealed message returns the plaintext -/
theorem spec_aopen_aseal (key nonce pt aad : Bytes) :
    Spec.aopen key nonce (Spec.aseal key nonce pt aad) aad = some pt := by
  have htl : (Spec.tag key nonce aad (ChaCha.Spec.encrypt key 1 nonce pt)).length = 16 := by
    simp [Spec.tag, Poly1305.Spec.mac, length_leBytes]
  simp only [Spec.aopen, Spec.aseal, List.length_append, htl]
  have h1 : ¬ (ChaCha.Spec.encrypt key 1 nonce pt).length + 16 < 16 := by omega
  simp only [h1, if_false, Nat.add_sub_cancel]
  rw [List.take_left' rfl, List.drop_left' rfl]
  simp [encrypt_encrypt]
where
  length_leBytes : ∀ (n x : Nat), (leBytes n x).length = n := by
    intro n; induction n with
    | zero => intro x; rfl
    | succ n ih => intro x; simp [leBytes, ih]

end Tls.Crypto.ChaChaPoly
