import TlsModel.Basic
/-
  C09 — big-endian encode / decode lemmas (bytesToNumber / numberToByteArray).
-/
namespace Tls
open Tls

theorem length_beEncode (n x : Nat) : (beEncode n x).length = n := by
  induction n with
  | zero => rfl
  | succ n ih => simp [beEncode, ih]

theorem beDecode_foldl (l : Bytes) (a : Nat) :
    l.foldl (fun acc x => acc * 256 + x.toNat) a = a * 256 ^ l.length + beDecode l := by
  induction l generalizing a with
  | nil => simp [beDecode]
  | cons x xs ih =>
    rw [List.foldl_cons, ih]
    show _ = _ + List.foldl (fun acc x => acc * 256 + x.toNat) 0 (x :: xs)
    rw [List.foldl_cons, ih (0 * 256 + x.toNat), List.length_cons, Nat.pow_succ]
    simp only [Nat.zero_mul, Nat.zero_add, Nat.add_mul]
    rw [Nat.mul_assoc, Nat.mul_comm 256, Nat.add_assoc]

theorem beDecode_cons (x : UInt8) (xs : Bytes) :
    beDecode (x :: xs) = x.toNat * 256 ^ xs.length + beDecode xs := by
  rw [beDecode, List.foldl_cons, beDecode_foldl]; simp

theorem beDecode_lt (l : Bytes) : beDecode l < 256 ^ l.length := by
  induction l with
  | nil => simp [beDecode]
  | cons x xs ih =>
    rw [beDecode_cons, List.length_cons, Nat.pow_succ]
    have := x.toNat_lt
    have h256 : x.toNat ≤ 255 := by omega
    have := Nat.mul_le_mul_right (256 ^ xs.length) h256
    omega

theorem beDecode_beEncode (n x : Nat) : beDecode (beEncode n x) = x % 256 ^ n := by
  induction n with
  | zero => simp [beEncode, beDecode, Nat.mod_one]
  | succ n ih =>
    rw [beEncode, beDecode_cons, ih, length_beEncode, Nat.mod_pow_succ]
    have : (UInt8.ofNat (x / 256 ^ n % 256)).toNat = x / 256 ^ n % 256 := by
      simp [UInt8.toNat_ofNat']
    rw [this, Nat.mul_comm, Nat.add_comm]

theorem beEncode_mod (n x : Nat) : beEncode n (x % 256 ^ n) = beEncode n x := by
  have key : ∀ (k n x : Nat), n ≤ k → beEncode n (x % 256 ^ k) = beEncode n x := by
    intro k n
    induction n with
    | zero => intro _ _; rfl
    | succ n ih =>
      intro x hk
      rw [beEncode, beEncode, ih x (by omega)]
      congr 2
      have hd : 256 ^ k = 256 ^ n * 256 ^ (k - n) := by rw [← Nat.pow_add]; congr 1; omega
      rw [hd, Nat.mod_mul_right_div_self]
      have : 256 ^ (k - n) = 256 * 256 ^ (k - n - 1) := by
        rw [← Nat.pow_succ']; congr 1; omega
      rw [this, Nat.mod_mul_right_mod]
  exact key n n x (Nat.le_refl _)

theorem beEncode_drop (a b x : Nat) : (beEncode (a + b) x).drop a = beEncode b x := by
  induction a with
  | zero => simp
  | succ a ih =>
    have : a + 1 + b = (a + b) + 1 := by omega
    rw [this, beEncode, List.drop_succ_cons, ih]

theorem beDecode_replicate_ff (n : Nat) : beDecode (List.replicate n (0xff : UInt8)) = 256 ^ n - 1 := by
  induction n with
  | zero => simp [beDecode]
  | succ n ih =>
    rw [List.replicate_succ, beDecode_cons, ih, List.length_replicate, Nat.pow_succ]
    have : 0 < 256 ^ n := Nat.pow_pos (by decide)
    have h : (0xff : UInt8).toNat = 255 := by decide
    rw [h]; omega

theorem beEncode_beDecode (l : Bytes) : beEncode l.length (beDecode l) = l := by
  induction l with
  | nil => rfl
  | cons x xs ih =>
    rw [List.length_cons, beEncode, beDecode_cons]
    have hlt := beDecode_lt xs
    have hpos : 0 < 256 ^ xs.length := Nat.pow_pos (by decide)
    have h1 : (x.toNat * 256 ^ xs.length + beDecode xs) / 256 ^ xs.length = x.toNat := by
      rw [Nat.mul_comm, Nat.mul_add_div hpos, Nat.div_eq_of_lt hlt]; simp
    have h2 : beEncode xs.length (x.toNat * 256 ^ xs.length + beDecode xs) = xs := by
      rw [← beEncode_mod, Nat.mul_comm, Nat.mul_add_mod, Nat.mod_eq_of_lt hlt, ih]
    rw [h1, h2]
    have := x.toNat_lt
    congr 1
    rw [Nat.mod_eq_of_lt (by omega)]
    simp

end Tls
