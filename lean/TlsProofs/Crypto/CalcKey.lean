import TlsProofs.Crypto.Kdf
/-
  C09 — calc_key dispatch: which PRF, label and seed for every version × label × PRF hash;
  TLS 1.3 traffic keys.
-/
set_option linter.unusedSimpArgs false
namespace Tls.Crypto.Kdf
open Tls Tls.Crypto

theorem label_bytes_inj : ∀ a b : Spec.Label, a.bytes = b.bytes → a = b := by
  intro a b
  cases a <;> cases b <;> first | (intro _; rfl) | (intro h; exact absurd h (by decide))

/-- result of the specification as the code's outcome: undefined combination = AssertionError -/
def specOutcome : Option Bytes → Except Err Bytes
  | some r => .ok r
  | none => .error .assertion

structure HashesWF (hs : Model.Hashes) : Prop where
  md5 : hs.md5.WF
  sha1 : hs.sha1.WF
  sha256 : hs.sha256.WF
  sha384 : hs.sha384.WF
  md5len : hs.md5.digestSize = 16

theorem digestSSL_spec (hs : Model.Hashes) (buffer ms sender : Bytes) :
    Model.digestSSL hs buffer ms sender = Spec.sslFinished hs buffer ms sender := by
  simp only [Model.digestSSL, Spec.sslFinished, List.append_assoc]

theorem calcKey_spec (hs : Model.Hashes) (wf : HashesWF hs) (v : Spec.Version) (sha384Prf : Bool)
    (l : Spec.Label) (secret transcript cr sr : Bytes) (length : Nat)
    (hlen : v = .ssl3 → length ≤ 416) :
    Model.calcKey hs v.pair secret sha384Prf l.bytes (some transcript) (some cr) (some sr) (some length) =
      specOutcome (Spec.calcKey hs v sha384Prf l secret transcript cr sr length) := by
  have hm : ∀ x, (hs.md5.H x).length = 16 := fun x => by rw [wf.md5.len, wf.md5len]
  have p10 := prf_spec hs.md5 hs.sha1 wf.md5 wf.sha1 secret
  have p256 := prf12_spec hs.sha256 wf.sha256 secret
  have p384 := prf12_spec hs.sha384 wf.sha384 secret
  have hne : ∀ a b : Spec.Label, a ≠ b → ¬ (a.bytes = b.bytes) := fun a b h e => h (label_bytes_inj a b e)
  cases v <;> cases l <;> cases sha384Prf <;>
    simp (config := { decide := true }) [Model.calcKey, Spec.calcKey, Spec.Version.pair, Spec.Label.bytes, specOutcome,
      digestSSL_spec, bind, Except.bind, pure, Except.pure, Except.map, p10, p256, p384,
      lblMasterSecret, lblKeyExpansion, lblClientFinished, lblServerFinished, lblExtendedMasterSecret] <;>
    (try (first | rfl | rw [prfSsl_spec hs.md5 hs.sha1 hm _ _ _ (hlen rfl)]))


theorem spec_prf12_length (h : Hash) (wf : h.WF) (secret label seed : Bytes) (length : Nat) :
    (Spec.prf12 h secret label seed length).length = length :=
  spec_pHash_length (Spec.hmac h) h.digestSize wf.pos (hmac_length h wf) _ _ _

theorem spec_prf10_length (md5 sha1 : Hash) (w5 : md5.WF) (w1 : sha1.WF) (secret label seed : Bytes) (length : Nat) :
    (Spec.prf10 md5 sha1 secret label seed length).length = length := by
  simp only [Spec.prf10, xorBytes_length,
    spec_pHash_length (Spec.hmac md5) md5.digestSize w5.pos (hmac_length md5 w5),
    spec_pHash_length (Spec.hmac sha1) sha1.digestSize w1.pos (hmac_length sha1 w1), Nat.min_self]

theorem spec_prfSsl_length (md5 sha1 : Hash) (hm : ∀ x, (md5.H x).length = 16) (secret seed : Bytes)
    (length : Nat) (hlen : length ≤ 416) : (Spec.prfSsl md5 sha1 secret seed length).length = length := by
  have hl : ∀ n, ((List.range n).flatMap fun x =>
      md5.H (secret ++ sha1.H (List.replicate (x+1) (UInt8.ofNat (65 + x)) ++ secret ++ seed))).length = n * 16 := by
    intro n; induction n with
    | zero => simp
    | succ n ih => rw [List.range_succ, List.flatMap_append, List.length_append, ih]; simp [hm, Nat.succ_mul]
  rw [Spec.prfSsl, List.length_take, hl]; omega

/-- every defined output of the calc_key specification for the PRF-based labels has the requested length -/
theorem spec_calcKey_length (hs : Model.Hashes) (wf : HashesWF hs) (v : Spec.Version) (sha384Prf : Bool)
    (l : Spec.Label) (secret transcript cr sr : Bytes) (length : Nat) (hlen : v = .ssl3 → length ≤ 416)
    (hl : l = .masterSecret ∨ l = .keyExpansion ∨ v ≠ .ssl3) (r : Bytes)
    (h : Spec.calcKey hs v sha384Prf l secret transcript cr sr length = some r) : r.length = length := by
  have hm : ∀ x, (hs.md5.H x).length = 16 := fun x => by rw [wf.md5.len, wf.md5len]
  cases v <;> cases l <;> simp [Spec.calcKey] at h hl <;> subst h <;>
    first
    | exact spec_prfSsl_length _ _ hm _ _ _ (hlen rfl)
    | exact spec_prf10_length _ _ wf.md5 wf.sha1 _ _ _ _
    | (cases sha384Prf
       · exact spec_prf12_length _ wf.sha256 _ _ _ _
       · exact spec_prf12_length _ wf.sha384 _ _ _ _)

/-- `calcPendingStates`: the key block is the "key expansion" output of the negotiated version's
    PRF of length 2·(mac+key+iv), cut in the order of RFC 5246 §6.3, and the client's write keys
    are the server's read keys -/
theorem calcPendingStates_spec (hs : Model.Hashes) (wf : HashesWF hs) (v : Spec.Version) (sha384Prf client : Bool)
    (ms cr sr : Bytes) (m k i : Nat) (hlen : v = .ssl3 → 2*m + 2*k + 2*i ≤ 416) :
    ∃ kb, Spec.calcKey hs v sha384Prf .keyExpansion ms [] cr sr (2*m + 2*k + 2*i) = some kb ∧
      kb.length = 2*m + 2*k + 2*i ∧
      Model.calcPendingStates hs v.pair sha384Prf client ms cr sr m k i =
        let c : Model.KeyMaterial := ⟨kb.take m, (kb.drop (2*m)).take k, (kb.drop (2*m + 2*k)).take i⟩
        let s : Model.KeyMaterial := ⟨(kb.drop m).take m, (kb.drop (2*m + k)).take k, (kb.drop (2*m + 2*k + i)).take i⟩
        .ok (if client then (c, s) else (s, c)) := by
  have hsome : ∃ kb, Spec.calcKey hs v sha384Prf .keyExpansion ms [] cr sr (2*m + 2*k + 2*i) = some kb := by
    cases v <;> simp [Spec.calcKey]
  obtain ⟨kb, hkb⟩ := hsome
  have hl := spec_calcKey_length hs wf v sha384Prf .keyExpansion ms [] cr sr _ hlen (Or.inr (Or.inl rfl)) kb hkb
  refine ⟨kb, hkb, hl, ?_⟩
  -- the transcript argument is irrelevant for this label: the model is called with None
  have hmodel : Model.calcKey hs v.pair ms sha384Prf lblKeyExpansion none (some cr) (some sr)
      (some (m*2 + k*2 + i*2)) = .ok kb := by
    have h2 := calcKey_spec hs wf v sha384Prf .keyExpansion ms [] cr sr (2*m + 2*k + 2*i) hlen
    rw [hkb] at h2
    have e : m*2 + k*2 + i*2 = 2*m + 2*k + 2*i := by omega
    rw [e]
    show _ = specOutcome (some kb)
    rw [← h2]
    cases v <;> cases sha384Prf <;>
      simp (config := { decide := true }) [Model.calcKey, Spec.Version.pair, Spec.Label.bytes,
        lblMasterSecret, lblKeyExpansion, lblClientFinished, lblServerFinished, lblExtendedMasterSecret]
  simp only [Model.calcPendingStates, hmodel, bind, Except.bind, sliceKeyBlock_spec kb m k i hl, pure, Except.pure]

/-- TLS 1.3 `calcTLS1_3PendingState` / `_calcTLS1_3KeyUpdate` = RFC 8446 §7.3 / §7.2 -/
theorem tls13_traffic_keys_spec (mac : Bytes → Bytes → Bytes) (dl : Nat) (client : Bool) (cl sr : Bytes)
    (keyLength : Nat) (hk : keyLength < 65536) (hkd : divceil keyLength dl ≤ 255) (hid : divceil 12 dl ≤ 255) :
    Model.calcTls13PendingState mac dl client cl sr keyLength =
      let ck := (Spec.hkdfExpandLabel mac dl cl lblKey [] keyLength, Spec.hkdfExpandLabel mac dl cl lblIv [] 12)
      let sk := (Spec.hkdfExpandLabel mac dl sr lblKey [] keyLength, Spec.hkdfExpandLabel mac dl sr lblIv [] 12)
      .ok (if client then (ck, sk) else (sk, ck)) := by
  simp only [Model.calcTls13PendingState, bind, Except.bind, pure, Except.pure,
    hkdfExpandLabel_spec mac dl _ lblKey [] keyLength hk (by decide) (by decide) hkd,
    hkdfExpandLabel_spec mac dl _ lblIv [] 12 (by decide) (by decide) (by decide) hid]

theorem tls13_key_update_spec (mac : Bytes → Bytes → Bytes) (dl : Nat) (appSecret : Bytes)
    (keyLength : Nat) (hk : keyLength < 65536) (hkd : divceil keyLength dl ≤ 255) (hid : divceil 12 dl ≤ 255)
    (hd : dl < 65536) (hdd : divceil dl dl ≤ 255) :
    Model.calcTls13KeyUpdate mac dl appSecret keyLength =
      let next := Spec.hkdfExpandLabel mac dl appSecret lblTrafficUpd [] dl
      .ok (next, Spec.hkdfExpandLabel mac dl next lblKey [] keyLength, Spec.hkdfExpandLabel mac dl next lblIv [] 12) := by
  simp only [Model.calcTls13KeyUpdate, bind, Except.bind, pure, Except.pure,
    hkdfExpandLabel_spec mac dl _ lblTrafficUpd [] dl hd (by decide) (by decide) hdd,
    hkdfExpandLabel_spec mac dl _ lblKey [] keyLength hk (by decide) (by decide) hkd,
    hkdfExpandLabel_spec mac dl _ lblIv [] 12 (by decide) (by decide) (by decide) hid]

theorem deriveSecret_spec (mac : Bytes → Bytes → Bytes) (h : Hash) (wf : h.WF) (secret label : Bytes)
    (hh : Option Bytes) (h2 : 6 + label.length < 256) (hd : h.digestSize < 256) :
    Model.deriveSecret mac h secret label hh =
      .ok (Spec.deriveSecret mac h secret label (hh.getD [])) := by
  have hdc : divceil h.digestSize h.digestSize ≤ 255 := by
    unfold divceil
    have := wf.pos
    rw [Nat.div_self this, Nat.mod_self]; simp
  cases hh <;> simp only [Model.deriveSecret, Spec.deriveSecret, Option.getD] <;>
    exact hkdfExpandLabel_spec mac h.digestSize secret label _ h.digestSize (by omega) h2 (by rw [wf.len]; exact hd) hdc

/-- `keyingMaterialExporter` = RFC 5705 for TLS 1.0–1.2 and RFC 8446 §7.5 for TLS 1.3 -/
theorem exporter_spec (hs : Model.Hashes) (wf : HashesWF hs) (mac256 mac384 : Bytes → Bytes → Bytes)
    (sha384Prf : Bool) (ms cr sr ems label : Bytes) (length : Nat)
    (hlab : ¬ (label = lblServerFinished ∨ label = lblClientFinished ∨ label = lblMasterSecret ∨ label = lblKeyExpansion))
    (h1 : length < 65536) (h2 : 6 + label.length < 256)
    (hL : divceil length (if sha384Prf then hs.sha384 else hs.sha256).digestSize ≤ 255)
    (hd : (if sha384Prf then hs.sha384 else hs.sha256).digestSize < 256) :
    (∀ v : Spec.Version, v ≠ .ssl3 →
      Model.keyingMaterialExporter hs mac256 mac384 v.pair sha384Prf ms cr sr ems label length =
        .ok (Spec.exporter hs mac256 mac384 false v sha384Prf ms cr sr ems label length)) ∧
    Model.keyingMaterialExporter hs mac256 mac384 (3, 4) sha384Prf ms cr sr ems label length =
      .ok (Spec.exporter hs mac256 mac384 true .tls12 sha384Prf ms cr sr ems label length) := by
  constructor
  · intro v hv
    cases v <;> first | exact absurd rfl hv | skip
    all_goals
      cases sha384Prf <;>
      simp (config := { decide := true }) [Model.keyingMaterialExporter, hlab, Model.verLt, Spec.Version.pair, Spec.exporter,
        prf_spec hs.md5 hs.sha1 wf.md5 wf.sha1, prf12_spec hs.sha256 wf.sha256, prf12_spec hs.sha384 wf.sha384]
  · have hwf : (if sha384Prf then hs.sha384 else hs.sha256).WF := by cases sha384Prf <;> simp [wf.sha256, wf.sha384]
    have hds := deriveSecret_spec (if sha384Prf then mac384 else mac256) _ hwf ems label none h2 hd
    simp only [Option.getD] at hds
    have hel := hkdfExpandLabel_spec (if sha384Prf then mac384 else mac256)
      (if sha384Prf then hs.sha384 else hs.sha256).digestSize
      (Spec.deriveSecret (if sha384Prf then mac384 else mac256) (if sha384Prf then hs.sha384 else hs.sha256) ems label [])
      lblExporter ((if sha384Prf then hs.sha384 else hs.sha256).H []) length h1 (by decide)
      (by rw [hwf.len]; exact hd) hL
    simp (config := { decide := true }) only [Model.keyingMaterialExporter, hlab, Model.verLt, if_false, if_true, hds, bind, Except.bind, hel,
      Spec.exporter]

/-- the HkdfLabel encoding is injective: different (length, label, context) never give the same info string -/
theorem hkdfLabel_injective (l1 l2 : Nat) (a1 a2 c1 c2 : Bytes) (h1 : l1 < 65536) (h2 : l2 < 65536)
    (ha1 : 6 + a1.length < 256) (ha2 : 6 + a2.length < 256) (_hc1 : c1.length < 256) (_hc2 : c2.length < 256)
    (h : Spec.hkdfLabel l1 a1 c1 = Spec.hkdfLabel l2 a2 c2) : l1 = l2 ∧ a1 = a2 ∧ c1 = c2 := by
  simp only [Spec.hkdfLabel, List.append_assoc] at h
  have hl := List.append_inj h (by simp [length_beEncode])
  have e1 : l1 = l2 := by
    have := congrArg beDecode hl.1
    rw [beDecode_beEncode, beDecode_beEncode, Nat.mod_eq_of_lt (by simpa using h1),
      Nat.mod_eq_of_lt (by simpa using h2)] at this
    exact this
  have h' := hl.2
  have hl2 := List.append_inj h' (by simp [length_beEncode])
  have e2 : a1.length = a2.length := by
    have := congrArg beDecode hl2.1
    rw [beDecode_beEncode, beDecode_beEncode, Nat.mod_eq_of_lt (by simpa using ha1),
      Nat.mod_eq_of_lt (by simpa using ha2)] at this
    omega
  have hl3 := List.append_inj hl2.2 rfl
  have hl4 := List.append_inj hl3.2 e2
  have hl5 := List.append_inj hl4.2 (by simp [length_beEncode])
  exact ⟨e1, hl4.1, hl5.2⟩

end Tls.Crypto.Kdf
