import TlsProofs.Crypto.AesDec
/-
  C09 (growth) — InvCipher = EqInvCipher (FIPS-197 §5.3.5): InvMixColumns is linear, InvSubBytes and
  InvShiftRows commute.
-/
set_option linter.unusedSimpArgs false
namespace Tls.Crypto.Aes
open Tls Tls.Crypto

def gstep (b : Nat) (acc : Nat × Nat) (i : Nat) : Nat × Nat :=
  (if b.testBit i then acc.1 ^^^ acc.2 else acc.1, Spec.xtimeN acc.2)

theorem gmulN_eq (a b : Nat) : Spec.gmulN a b = ((List.range 8).foldl (gstep b) (0, a)).1 := rfl

theorem gfold_xor (x y : Nat) : ∀ (l : List Nat) (ax ay p : Nat),
    (l.foldl (gstep (x ^^^ y)) (ax ^^^ ay, p)).1 = (l.foldl (gstep x) (ax, p)).1 ^^^ (l.foldl (gstep y) (ay, p)).1 ∧
    (l.foldl (gstep (x ^^^ y)) (ax ^^^ ay, p)).2 = (l.foldl (gstep x) (ax, p)).2 ∧
    (l.foldl (gstep y) (ay, p)).2 = (l.foldl (gstep x) (ax, p)).2 := by
  intro l
  induction l with
  | nil => intro ax ay p; exact ⟨rfl, rfl, rfl⟩
  | cons i is ih =>
    intro ax ay p
    simp only [List.foldl_cons, gstep, Nat.testBit_xor]
    cases hx : x.testBit i <;> cases hy : y.testBit i <;> simp only [Bool.xor_false, Bool.xor_true, Bool.not_false,
      Bool.not_true, if_true, if_false, Bool.false_eq_true]
    · exact ih ax ay _
    · have e : ax ^^^ ay ^^^ p = ax ^^^ (ay ^^^ p) := Nat.xor_assoc _ _ _
      rw [e]; exact ih ax (ay ^^^ p) _
    · have e : ax ^^^ ay ^^^ p = (ax ^^^ p) ^^^ ay := by
        rw [Nat.xor_assoc, Nat.xor_comm ay p, ← Nat.xor_assoc]
      rw [e]; exact ih (ax ^^^ p) ay _
    · have e : ax ^^^ ay = (ax ^^^ p) ^^^ (ay ^^^ p) := by
        rw [Nat.xor_assoc, Nat.xor_comm p (ay ^^^ p), Nat.xor_assoc ay, Nat.xor_self, Nat.xor_zero]
      rw [e]; exact ih (ax ^^^ p) (ay ^^^ p) _

/-- multiplication by a constant in GF(2^8) is linear over xor -/
theorem gmulN_xor (c x y : Nat) : Spec.gmulN c (x ^^^ y) = Spec.gmulN c x ^^^ Spec.gmulN c y := by
  rw [gmulN_eq, gmulN_eq, gmulN_eq]
  have := (gfold_xor x y (List.range 8) 0 0 c).1
  rw [Nat.xor_self] at this
  exact this

theorem gmul_xor (c x y : UInt8) : Spec.gmul c (x ^^^ y) = Spec.gmul c x ^^^ Spec.gmul c y := by
  simp only [Spec.gmul, UInt8.toNat_xor, gmulN_xor, ofNat_xor8]

theorem xor4_shuffle (a b c d e f g h : UInt8) :
    (a ^^^ e) ^^^ (b ^^^ f) ^^^ (c ^^^ g) ^^^ (d ^^^ h) = (a ^^^ b ^^^ c ^^^ d) ^^^ (e ^^^ f ^^^ g ^^^ h) := by
  ac_rfl

/-- InvMixColumns(s ⊕ k) = InvMixColumns(s) ⊕ InvMixColumns(k) on 16-byte states -/
theorem invMix_xor (s k : Spec.State) (hs : s.length = 16) (hk : k.length = 16) :
    Spec.invMixColumns (xorBytes s k) = xorBytes (Spec.invMixColumns s) (Spec.invMixColumns k) := by
  obtain ⟨s0, s1, s2, s3, s4, s5, s6, s7, s8, s9, s10, s11, s12, s13, s14, s15, rfl⟩ := exists16 s hs
  obtain ⟨k0, k1, k2, k3, k4, k5, k6, k7, k8, k9, k10, k11, k12, k13, k14, k15, rfl⟩ := exists16 k hk
  simp [Spec.invMixColumns, Spec.at_, xorBytes, List.range_succ, gmul_xor, xor4_shuffle]

theorem invSub_invShift (s : Spec.State) (hs : s.length = 16) :
    Spec.invSubBytes (Spec.invShiftRows s) = Spec.invShiftRows (Spec.invSubBytes s) := by
  obtain ⟨s0, s1, s2, s3, s4, s5, s6, s7, s8, s9, s10, s11, s12, s13, s14, s15, rfl⟩ := exists16 s hs
  simp [Spec.invSubBytes, Spec.invShiftRows, Spec.at_, List.range_succ]

theorem invMix_length (s : Spec.State) : (Spec.invMixColumns s).length = 16 := by
  simp [Spec.invMixColumns, List.range_succ]
theorem invShift_length (s : Spec.State) : (Spec.invShiftRows s).length = 16 := by simp [Spec.invShiftRows]
theorem invSub_length (s : Spec.State) : (Spec.invSubBytes s).length = s.length := by simp [Spec.invSubBytes]
theorem addRK_length (s k : Spec.State) (hs : s.length = 16) (hk : k.length = 16) : (Spec.addRoundKey s k).length = 16 := by
  simp [Spec.addRoundKey, xorBytes, hs, hk]

/-- one middle round: InvCipher's order equals EqInvCipher's order with the transformed key -/
theorem inv_round_eq (s k : Spec.State) (hs : s.length = 16) (hk : k.length = 16) :
    Spec.invMixColumns (Spec.addRoundKey (Spec.invSubBytes (Spec.invShiftRows s)) k) =
      Spec.addRoundKey (Spec.invMixColumns (Spec.invShiftRows (Spec.invSubBytes s))) (Spec.invMixColumns k) := by
  rw [invSub_invShift s hs]
  exact invMix_xor _ k (invShift_length _) hk

/-- FIPS-197 §5.3.5: InvCipher with round keys `rk` = EqInvCipher with the modified schedule -/
theorem invCipher_eq_eqInv (rk : Nat → Spec.State) (nr : Nat) (hrk : ∀ r, r ≤ nr → (rk r).length = 16) (inp : Bytes)
    (hi : inp.length = 16) :
    Spec.invCipherRK rk nr inp = Spec.eqInvCipherRK (Spec.dkOf rk nr) nr inp := by
  unfold Spec.invCipherRK Spec.eqInvCipherRK
  have d0 : Spec.dkOf rk nr 0 = rk nr := by simp [Spec.dkOf]
  have dn : Spec.dkOf rk nr nr = rk 0 := by simp [Spec.dkOf]
  have key : ∀ (l : List Nat) (s : Spec.State), s.length = 16 → (∀ r ∈ l, 1 ≤ r ∧ r < nr) →
      l.foldl (fun s k => Spec.invMixColumns (Spec.addRoundKey (Spec.invSubBytes (Spec.invShiftRows s)) (rk (nr - k)))) s =
      l.foldl (fun s r => Spec.addRoundKey (Spec.invMixColumns (Spec.invShiftRows (Spec.invSubBytes s)))
        (Spec.dkOf rk nr r)) s ∧
      (l.foldl (fun s k => Spec.invMixColumns (Spec.addRoundKey (Spec.invSubBytes (Spec.invShiftRows s)) (rk (nr - k)))) s).length = 16 := by
    intro l
    induction l with
    | nil => intro s hs _; exact ⟨rfl, hs⟩
    | cons r rs ih =>
      intro s hs hl
      have hr := hl r List.mem_cons_self
      have hd : Spec.dkOf rk nr r = Spec.invMixColumns (rk (nr - r)) := by simp [Spec.dkOf, hr]
      rw [List.foldl_cons, List.foldl_cons, hd, ← inv_round_eq s _ hs (hrk _ (by omega))]
      exact ih _ (invMix_length _) (fun x hx => hl x (List.mem_cons_of_mem _ hx))
  have hs0 : (Spec.addRoundKey inp (rk nr)).length = 16 := addRK_length _ _ hi (hrk _ (Nat.le_refl _))
  obtain ⟨h1, h2⟩ := key (List.range' 1 (nr - 1)) _ hs0
    (by intro r hr; have := List.mem_range'_1.mp hr; omega)
  simp only [d0, dn]
  rw [← h1, invSub_invShift _ h2]

end Tls.Crypto.Aes
