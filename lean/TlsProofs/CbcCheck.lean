import TlsProofs.CT
/- Helper lemmas for the characterisation of `cbcCheck` (property C12). -/
namespace Tls.CT

theorem xor_eq_zero_iff' {a b : Nat} : a ^^^ b = 0 ↔ a = b := by
  constructor
  · intro h
    apply Nat.eq_of_testBit_eq
    intro i
    have h2 := congrArg (fun n => Nat.testBit n i) h
    simp only [Nat.testBit_xor, Nat.zero_testBit] at h2
    cases ha : a.testBit i <;> cases hb : b.testBit i <;> simp [ha, hb] at h2 ⊢
  · intro h; subst h; simp

theorem xor_and_255 {a b : Nat} (ha : a < 256) (hb : b < 256) :
    (a ^^^ b) &&& 255 = 0 ↔ a = b := by
  have h1 : (a ^^^ b) < 2^8 := Nat.xor_lt_two_pow (n := 8) ha hb
  have h2 : (a ^^^ b) &&& 255 = (a ^^^ b) % 2^8 := Nat.and_two_pow_sub_one_eq_mod _ 8
  rw [h2, Nat.mod_eq_of_lt h1, xor_eq_zero_iff']

theorem foldl_or_eq_zero (l : List Nat) (f : Nat → Nat) (a : Nat) :
    l.foldl (fun r i => r ||| f i) a = 0 ↔ a = 0 ∧ ∀ i ∈ l, f i = 0 := by
  induction l generalizing a with
  | nil => simp
  | cons x xs ih =>
    simp only [List.foldl_cons, ih, Nat.or_eq_zero_iff, List.mem_cons, forall_eq_or_imp]
    constructor
    · rintro ⟨⟨h1, h2⟩, h3⟩; exact ⟨h1, h2, h3⟩
    · rintro ⟨h1, h2, h3⟩; exact ⟨⟨h1, h2⟩, h3⟩

theorem orFold_eq_zero (l : List Nat) (f : Nat → Nat) :
    orFold l f = 0 ↔ ∀ i ∈ l, f i = 0 := by
  unfold orFold
  rw [foldl_or_eq_zero]
  simp

theorem byteAt_lt (d : Bytes) (i : Nat) : byteAt d i < 256 := by
  unfold byteAt
  exact (d.getD i 0).toNat_lt

theorem byteAt_eq_getElem (d : Bytes) (i : Nat) (h : i < d.length) : byteAt d i = d[i].toNat := by
  unfold byteAt
  simp [List.getD_eq_getElem?_getD, h]

/-- masked byte comparison: zero iff the mask is off or the bytes agree -/
theorem masked_cmp (a b : Nat) (c : Prop) [Decidable c] (ha : a < 256) (hb : b < 256) :
    (a ^^^ b) &&& (if c then 255 else 0) = 0 ↔ (c → a = b) := by
  by_cases h : c
  · simp only [h, if_true, true_imp_iff]; exact xor_and_255 ha hb
  · simp [h]

theorem all_drop_iff (d : Bytes) (k p : Nat) :
    ((d.drop k).all fun b => b.toNat == p) = true ↔
      ∀ i, k ≤ i → i < d.length → byteAt d i = p := by
  rw [List.all_eq_true]
  constructor
  · intro h i hk hi
    rw [byteAt_eq_getElem d i hi]
    have hm : d[i] ∈ d.drop k := by
      have : i = k + (i - k) := by omega
      have hlt : i - k < (d.drop k).length := by simp; omega
      have e : (d.drop k)[i - k] = d[i] := by
        rw [List.getElem_drop]; congr 1; omega
      rw [← e]; exact List.getElem_mem hlt
    have := h _ hm
    simpa using this
  · intro h x hx
    obtain ⟨j, hj, rfl⟩ := List.getElem_of_mem hx
    rw [List.getElem_drop]
    have hlen : k + j < d.length := by simp at hj; omega
    have := h (k + j) (by omega) hlen
    rw [byteAt_eq_getElem d _ hlen] at this
    simpa using this

theorem take_split (d : Bytes) (sp i : Nat) (h : sp ≤ i) :
    d.take sp ++ (d.drop sp).take (i - sp) = d.take i := by
  have : i = sp + (i - sp) := by omega
  conv => rhs; rw [this, List.take_add]

theorem window_eq_iff (d mc : Bytes) (s n : Nat) (hmc : mc.length = n) (hs : s + n ≤ d.length) :
    (∀ j, j < n → byteAt d (s + j) = byteAt mc j) ↔ (d.drop s).take n = mc := by
  constructor
  · intro h
    apply List.ext_getElem
    · simp [hmc]; omega
    · intro j h1 h2
      rw [List.getElem_take, List.getElem_drop]
      have hj : j < n := by omega
      have := h j hj
      rw [byteAt_eq_getElem d _ (by omega), byteAt_eq_getElem mc _ h2] at this
      exact UInt8.toNat_inj.mp this
  · intro h j hj
    have hj2 : j < mc.length := by omega
    rw [byteAt_eq_getElem d _ (by omega), byteAt_eq_getElem mc _ hj2]
    congr 1
    subst h
    rw [List.getElem_take, List.getElem_drop]

end Tls.CT
