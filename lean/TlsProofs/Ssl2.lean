import TlsModel.Ssl2
import TlsProofs.FmtBasic
/- Round-trip and framing lemmas for the SSLv2-framed structures (TlsModel/Ssl2.lean). -/
set_option linter.unusedSimpArgs false
set_option linter.unusedVariables false
namespace Tls.Ssl2
open Tls Tls.Fmt

/-! ## RecordHeader2 -/

theorem byte_facts_short : ∀ h, h < 128 →
    (((0x80 ||| 0 ||| h) % 256 &&& 0x80 ≠ 0) ∧ ((0x80 ||| 0 ||| h) % 256 &&& 0x7f) = h) := by decide

theorem byte_facts_long : ∀ h, h < 64 →
    (((0 ||| 0 ||| h) % 256 &&& 0x80 = 0) ∧ ((0 ||| 0 ||| h) % 256 &&& 0x3f) = h ∧
      ((0 ||| 0 ||| h) % 256 &&& 0x40 = 0)) ∧
    (((0 ||| 0x40 ||| h) % 256 &&& 0x80 = 0) ∧ ((0 ||| 0x40 ||| h) % 256 &&& 0x3f) = h ∧
      ((0 ||| 0x40 ||| h) % 256 &&& 0x40 ≠ 0)) := by decide

theorem join_len (l : Nat) : ((l >>> 8) <<< 8) ||| ((l &&& 0xff) % 256) = l := by
  have h1 : l &&& 0xff = l % 256 := Nat.and_two_pow_sub_one_eq_mod l 8
  rw [h1, Nat.shiftRight_eq_div_pow, Nat.mod_mod]
  rw [← Nat.shiftLeft_add_eq_or_of_lt (by omega : l % 256 < 2 ^ 8), Nat.shiftLeft_eq]
  omega

/-- what `write()` produces, `parse()` reads back exactly, whatever follows -/
theorem rh2_decode_encode (l p : Nat) (e : Bool) (b r : Bytes) (h : rh2Encode l p e = some b) :
    rh2Decode (b ++ r) = .ok ((l, p, e), r) := by
  unfold rh2Encode at h
  by_cases hs : (p == 0 && !e) = true
  · -- short header
    simp only [hs, Bool.true_and, Bool.not_true, Bool.false_and, Bool.or_false] at h
    by_cases hl : l ≥ 0x8000
    · simp [hl] at h
    · have hp0 : p = 0 := by simp at hs; exact hs.1
      have he : e = false := by simp at hs; exact hs.2
      subst hp0; subst he
      simp only [hl, decide_false, Bool.false_eq_true, if_false, if_true, Nat.zero_le,
        ge_iff_le, Nat.not_le, Nat.lt_irrefl, show ¬ (0 ≥ 256) by omega, List.append_nil,
        Option.some.injEq] at h
      subst h
      have hh : l >>> 8 < 128 := by rw [Nat.shiftRight_eq_div_pow]; omega
      obtain ⟨f1, f2⟩ := byte_facts_short _ hh
      simp only [rh2Decode, List.cons_append, List.nil_append, UInt8.toNat_ofNat']
      simp only [f1, ne_eq, not_false_eq_true, if_true, f2]
      rw [join_len]
  · -- long header
    have hs' : (p == 0 && !e) = false := by simpa using hs
    simp only [hs', Bool.false_and, Bool.not_false, Bool.true_and, Bool.false_or] at h
    by_cases hl : l ≥ 0x4000
    · simp [hl] at h
    · by_cases hp : p ≥ 256
      · simp [hl, hp] at h
      · simp only [hl, hp, decide_false, Bool.false_eq_true, if_false, Option.some.injEq] at h
        subst h
        have hh : l >>> 8 < 64 := by rw [Nat.shiftRight_eq_div_pow]; omega
        obtain ⟨⟨a1, a2, a3⟩, ⟨b1, b2, b3⟩⟩ := byte_facts_long _ hh
        have hpm : p % 256 = p := Nat.mod_eq_of_lt (by omega)
        cases e with
        | false =>
          simp only [rh2Decode, List.cons_append, List.nil_append, UInt8.toNat_ofNat', Bool.false_eq_true,
            if_false]
          simp only [a1, ne_eq, not_true_eq_false, if_false, a2, a3, decide_false, hpm]
          rw [join_len]
        | true =>
          simp only [rh2Decode, List.cons_append, List.nil_append, UInt8.toNat_ofNat', if_true]
          simp only [b1, ne_eq, not_true_eq_false, if_false, b2, hpm]
          rw [join_len]
          have : decide ((0 ||| 0x40 ||| l >>> 8) % 256 &&& 0x40 ≠ 0) = true := by simpa using b3
          simp only [this]

/-- `write()` refuses exactly the lengths that do not fit 15 bits (2-byte header) / 14 bits
    (3-byte header) and paddings that do not fit a byte: it never truncates -/
theorem rh2_encode_none_iff (l p : Nat) (e : Bool) :
    rh2Encode l p e = none ↔
      ((p = 0 ∧ e = false) ∧ 0x8000 ≤ l) ∨ (¬ (p = 0 ∧ e = false) ∧ (0x4000 ≤ l ∨ 256 ≤ p)) := by
  unfold rh2Encode
  by_cases hs : (p == 0 && !e) = true
  · have hp0 : p = 0 := by simp at hs; exact hs.1
    have he : e = false := by simp at hs; exact hs.2
    subst hp0; subst he
    by_cases hl : l ≥ 0x8000
    · simp [hl]
    · simp [hl]
  · have hs' : (p == 0 && !e) = false := by simpa using hs
    have hne : ¬ (p = 0 ∧ e = false) := by
      intro ⟨a, b⟩; subst a; subst b; simp at hs
    by_cases hl : l ≥ 0x4000
    · simp [hs', hl, hne]
    · by_cases hp : p ≥ 256
      · simp [hs', hl, hp, hne]
      · simp [hs', hl, hp, hne]

/-! ## lengths first, data after -/

theorem dec3_enc3 (d1 d2 d3 b r : Bytes) (h : enc3 d1 d2 d3 = some b) :
    dec3 (b ++ r) = .ok ((d1, d2, d3), r) := by
  unfold enc3 at h
  by_cases hl : d1.length < 65536 ∧ d2.length < 65536 ∧ d3.length < 65536
  · simp only [hl, and_self, if_true, Option.some.injEq] at h
    subst h
    obtain ⟨h1, h2, h3⟩ := hl
    have e1 := beEncode_length 2 d1.length
    have e2 := beEncode_length 2 d2.length
    have e3 := beEncode_length 2 d3.length
    have hd1 := beDecode_beEncode 2 d1.length (by omega)
    have hd2 := beDecode_beEncode 2 d2.length (by omega)
    have hd3 := beDecode_beEncode 2 d3.length (by omega)
    simp only [dec3, shorter_eq, decide_eq_true_eq, List.append_assoc]
    have t1 : (beEncode 2 d1.length ++ (beEncode 2 d2.length ++ (beEncode 2 d3.length ++ (d1 ++ (d2 ++ (d3 ++ r)))))).take 2
        = beEncode 2 d1.length := take_append_len _ _ _ e1
    have dr1 : (beEncode 2 d1.length ++ (beEncode 2 d2.length ++ (beEncode 2 d3.length ++ (d1 ++ (d2 ++ (d3 ++ r)))))).drop 2
        = beEncode 2 d2.length ++ (beEncode 2 d3.length ++ (d1 ++ (d2 ++ (d3 ++ r)))) := drop_append_len _ _ _ e1
    have dr2 : (beEncode 2 d1.length ++ (beEncode 2 d2.length ++ (beEncode 2 d3.length ++ (d1 ++ (d2 ++ (d3 ++ r)))))).drop 4
        = beEncode 2 d3.length ++ (d1 ++ (d2 ++ (d3 ++ r))) := by
      rw [show (4 : Nat) = 2 + 2 from rfl, ← List.drop_drop, dr1, drop_append_len _ _ _ e2]
    have dr3 : (beEncode 2 d1.length ++ (beEncode 2 d2.length ++ (beEncode 2 d3.length ++ (d1 ++ (d2 ++ (d3 ++ r)))))).drop 6
        = d1 ++ (d2 ++ (d3 ++ r)) := by
      rw [show (6 : Nat) = 4 + 2 from rfl, ← List.drop_drop, dr2, drop_append_len _ _ _ e3]
    rw [t1, dr1, take_append_len _ _ _ e2, dr2, take_append_len _ _ _ e3, dr3, hd1, hd2, hd3]
    have n1 : ¬ (beEncode 2 d1.length ++ (beEncode 2 d2.length ++ (beEncode 2 d3.length ++ (d1 ++ (d2 ++ (d3 ++ r)))))).length < 6 := by
      simp [e1, e2, e3]; omega
    have n2 : ¬ (d1 ++ (d2 ++ (d3 ++ r))).length < d1.length + d2.length + d3.length := by
      simp; omega
    simp only [n1, n2, if_false]
    have a1 : (d1 ++ (d2 ++ (d3 ++ r))).take d1.length = d1 := take_append_len _ _ _ rfl
    have a2 : (d1 ++ (d2 ++ (d3 ++ r))).drop d1.length = d2 ++ (d3 ++ r) := drop_append_len _ _ _ rfl
    have a3 : (d1 ++ (d2 ++ (d3 ++ r))).drop (d1.length + d2.length) = d3 ++ r := by
      rw [← List.drop_drop, a2, drop_append_len _ _ _ rfl]
    have a4 : (d1 ++ (d2 ++ (d3 ++ r))).drop (d1.length + d2.length + d3.length) = r := by
      rw [← List.drop_drop, a3, drop_append_len _ _ _ rfl]
    rw [a1, a2, a3, a4, take_append_len _ _ _ rfl, take_append_len _ _ _ rfl]
  · simp [hl] at h

/-- accepted input = its three length fields, exactly that many bytes, and the untouched rest -/
theorem enc3_dec3 (b : Bytes) (d1 d2 d3 r : Bytes) (h : dec3 b = .ok ((d1, d2, d3), r)) :
    ∃ e, enc3 d1 d2 d3 = some e ∧ e ++ r = b := by
  simp only [dec3, shorter_eq, decide_eq_true_eq] at h
  by_cases h6 : b.length < 6
  · simp [h6] at h
  · simp only [h6, if_false] at h
    generalize hl1 : beDecode (b.take 2) = l1 at h
    generalize hl2 : beDecode ((b.drop 2).take 2) = l2 at h
    generalize hl3 : beDecode ((b.drop 4).take 2) = l3 at h
    by_cases hb : (b.drop 6).length < l1 + l2 + l3
    · simp only [hb, if_true] at h; cases h
    · simp only [hb, if_false, Except.ok.injEq, Prod.mk.injEq] at h
      obtain ⟨⟨rfl, rfl, rfl⟩, rfl⟩ := h
      rw [List.length_drop] at hb
      have k1 : (b.take 2).length = 2 := by rw [List.length_take]; omega
      have k2 : ((b.drop 2).take 2).length = 2 := by rw [List.length_take, List.length_drop]; omega
      have k3 : ((b.drop 4).take 2).length = 2 := by rw [List.length_take, List.length_drop]; omega
      have b1 := beDecode_lt (b.take 2); rw [k1, hl1] at b1
      have b2 := beDecode_lt ((b.drop 2).take 2); rw [k2, hl2] at b2
      have b3 := beDecode_lt ((b.drop 4).take 2); rw [k3, hl3] at b3
      have q1 : ((b.drop 6).take l1).length = l1 := by rw [List.length_take, List.length_drop]; omega
      have q2 : (((b.drop 6).drop l1).take l2).length = l2 := by
        rw [List.length_take, List.length_drop, List.length_drop]; omega
      have q3 : (((b.drop 6).drop (l1 + l2)).take l3).length = l3 := by
        rw [List.length_take, List.length_drop, List.length_drop]; omega
      refine ⟨beEncode 2 l1 ++ beEncode 2 l2 ++ beEncode 2 l3 ++ (b.drop 6).take l1 ++
        ((b.drop 6).drop l1).take l2 ++ ((b.drop 6).drop (l1 + l2)).take l3, ?_, ?_⟩
      · unfold enc3
        rw [q1, q2, q3]
        have : l1 < 65536 ∧ l2 < 65536 ∧ l3 < 65536 := ⟨by omega, by omega, by omega⟩
        simp only [this, and_self, if_true]
      · have r1 := beEncode_beDecode (b.take 2); rw [k1, hl1] at r1
        have r2 := beEncode_beDecode ((b.drop 2).take 2); rw [k2, hl2] at r2
        have r3 := beEncode_beDecode ((b.drop 4).take 2); rw [k3, hl3] at r3
        rw [r1, r2, r3]
        have s1 : b = b.take 2 ++ b.drop 2 := (List.take_append_drop 2 b).symm
        have s2 : b.drop 2 = (b.drop 2).take 2 ++ b.drop 4 := by
          rw [show b.drop 4 = (b.drop 2).drop 2 by rw [List.drop_drop]]
          exact (List.take_append_drop 2 _).symm
        have s3 : b.drop 4 = (b.drop 4).take 2 ++ b.drop 6 := by
          rw [show b.drop 6 = (b.drop 4).drop 2 by rw [List.drop_drop]]
          exact (List.take_append_drop 2 _).symm
        have s4 : b.drop 6 = (b.drop 6).take l1 ++ (b.drop 6).drop l1 := (List.take_append_drop l1 _).symm
        have s5 : (b.drop 6).drop l1 = ((b.drop 6).drop l1).take l2 ++ (b.drop 6).drop (l1 + l2) := by
          rw [show (b.drop 6).drop (l1 + l2) = ((b.drop 6).drop l1).drop l2 by simp only [List.drop_drop, Nat.add_assoc]]
          exact (List.take_append_drop l2 _).symm
        have s6 : (b.drop 6).drop (l1 + l2) = ((b.drop 6).drop (l1 + l2)).take l3 ++ (b.drop 6).drop (l1 + l2 + l3) := by
          rw [show (b.drop 6).drop (l1 + l2 + l3) = ((b.drop 6).drop (l1 + l2)).drop l3 by simp only [List.drop_drop, Nat.add_assoc]]
          exact (List.take_append_drop l3 _).symm
        conv => rhs; rw [s1, s2, s3, s4, s5, s6]
        simp only [List.append_assoc]

/-- a declared total that runs past the buffer is refused -/
theorem dec3_truncated (b : Bytes) (h : b.length < 6 ∨
    (b.drop 6).length < beDecode (b.take 2) + beDecode ((b.drop 2).take 2) + beDecode ((b.drop 4).take 2)) :
    dec3 b = .error .truncated := by
  simp only [dec3, shorter_eq, decide_eq_true_eq]
  by_cases h6 : b.length < 6
  · simp [h6]
  · rcases h with h | h
    · exact absurd h h6
    · rw [List.length_drop] at h; simp [h6, h]

/-! ## cipher kinds -/

theorem decCiphers_encCiphers : ∀ (v : Val) (b : Bytes) (fuel : Nat),
    encCiphers v = some b → b.length ≤ fuel → decCiphers fuel b = .ok v := by
  intro v
  induction v with
  | nil =>
    intro b fuel h _
    simp [encCiphers] at h; subst h
    cases fuel <;> simp [decCiphers]
  | cons hd tl _ iht =>
    intro b fuel h hf
    cases hd with
    | nat x =>
      simp only [encCiphers] at h
      by_cases hx : x < 256 ^ 3
      · simp only [hx, if_true, Option.map_eq_some_iff] at h
        obtain ⟨t, ht, rfl⟩ := h
        have e3 := beEncode_length 3 x
        have hne : ∃ y ys, beEncode 3 x ++ t = y :: ys := by
          cases hh : beEncode 3 x ++ t with
          | nil => have := congrArg List.length hh; simp [e3] at this
          | cons y ys => exact ⟨y, ys, rfl⟩
        obtain ⟨y, ys, hy⟩ := hne
        cases fuel with
        | zero => simp [e3] at hf
        | succ fuel =>
          rw [hy]
          simp only [decCiphers, shorter_eq, decide_eq_true_eq]
          rw [← hy]
          have n3 : ¬ (beEncode 3 x ++ t).length < 3 := by simp [e3]
          simp only [n3, if_false, drop_append_len _ _ _ e3, take_append_len _ _ _ e3,
            beDecode_beEncode 3 x hx]
          rw [iht t fuel ht (by simp [e3] at hf; omega)]
      · simp [hx] at h
    | _ => simp [encCiphers] at h
  | _ => intro b fuel h _; simp [encCiphers] at h

end Tls.Ssl2

namespace Tls.Ssl2
open Tls Tls.Fmt

theorem u8_some {x : Nat} {b : Bytes} (h : u8 x = some b) : x < 256 ∧ b = [UInt8.ofNat x] := by
  unfold u8 at h
  by_cases hx : x < 256
  · simp [hx] at h; exact ⟨hx, h.symm⟩
  · simp [hx] at h

theorem toNat_ofNat_lt {x : Nat} (h : x < 256) : (UInt8.ofNat x).toNat = x := by
  simp [UInt8.toNat_ofNat', Nat.mod_eq_of_lt h]

/-- SSLv2 ClientHello: parsing what `write()` produced returns the value (challenge left-padded
    to 32 bytes, as the parser stores it) and exactly the bytes that followed -/
theorem ch_decode_encode (a m : Nat) (cs : Val) (sid ch b r : Bytes)
    (h : chEncode (.pair (.nat a) (.pair (.nat m) (.pair cs (.pair (.bytes sid) (.bytes ch))))) = some b) :
    chDecode (b ++ r) =
      .ok (.pair (.nat a) (.pair (.nat m) (.pair cs (.pair (.bytes sid) (.bytes (pad32 ch))))), r) := by
  simp only [chEncode, bind, Option.bind_eq_some_iff, pure, Option.some.injEq] at h
  obtain ⟨ba, ha, bm, hm, c, hc, r3, hr3, rfl⟩ := h
  obtain ⟨ha1, rfl⟩ := u8_some ha
  obtain ⟨hm1, rfl⟩ := u8_some hm
  simp only [List.append_assoc, List.cons_append, List.nil_append, chDecode]
  rw [dec3_enc3 c sid ch r3 r hr3]
  simp only [decCiphers_encCiphers cs c c.length hc (Nat.le_refl _), toNat_ofNat_lt ha1, toNat_ofNat_lt hm1]

/-- … and whatever the SSLv2 ClientHello parser accepts with a 32-byte challenge re-serialises to
    exactly the bytes consumed -/
theorem cmk_decode_encode (cipher : Nat) (ck ek ka b r : Bytes)
    (h : cmkEncode (.pair (.nat cipher) (.pair (.bytes ck) (.pair (.bytes ek) (.bytes ka)))) = some b) :
    cmkDecode (b ++ r) = .ok (.pair (.nat cipher) (.pair (.bytes ck) (.pair (.bytes ek) (.bytes ka))), r) := by
  simp only [cmkEncode] at h
  by_cases hc : cipher < 256 ^ 3
  · simp only [hc, if_true, Option.map_eq_some_iff] at h
    obtain ⟨r3, hr3, rfl⟩ := h
    have e3 := beEncode_length 3 cipher
    simp only [cmkDecode, shorter_eq, decide_eq_true_eq, List.append_assoc]
    have n3 : ¬ (beEncode 3 cipher ++ (r3 ++ r)).length < 3 := by simp [e3]
    simp only [n3, if_false, drop_append_len _ _ _ e3, take_append_len _ _ _ e3,
      beDecode_beEncode 3 cipher hc, dec3_enc3 ck ek ka r3 r hr3]
  · simp [hc] at h

theorem sh_decode_encode (hit ct a m : Nat) (cert : Bytes) (cs : Val) (sid b r : Bytes)
    (h : shEncode (.pair (.nat hit) (.pair (.nat ct) (.pair (.nat a) (.pair (.nat m)
          (.pair (.bytes cert) (.pair cs (.bytes sid))))))) = some b) :
    shDecode (b ++ r) =
      .ok (.pair (.nat hit) (.pair (.nat ct) (.pair (.nat a) (.pair (.nat m)
          (.pair (.bytes cert) (.pair cs (.bytes sid)))))), r) := by
  simp only [shEncode, bind, Option.bind_eq_some_iff, pure, Option.some.injEq] at h
  obtain ⟨b1, h1, b2, h2, b3, h3, b4, h4, c, hc, r3, hr3, rfl⟩ := h
  obtain ⟨k1, rfl⟩ := u8_some h1
  obtain ⟨k2, rfl⟩ := u8_some h2
  obtain ⟨k3, rfl⟩ := u8_some h3
  obtain ⟨k4, rfl⟩ := u8_some h4
  simp only [List.append_assoc, List.cons_append, List.nil_append, shDecode]
  rw [dec3_enc3 cert c sid r3 r hr3]
  simp only [decCiphers_encCiphers cs c c.length hc (Nat.le_refl _), toNat_ofNat_lt k1, toNat_ofNat_lt k2,
    toNat_ofNat_lt k3, toNat_ofNat_lt k4]

end Tls.Ssl2
