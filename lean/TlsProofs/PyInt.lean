import TlsModel.PyInt
import TlsProofs.CbcCheck
/-
  Facts about the Python-runtime model `Tls.Py` (TlsModel/PyInt.lean): Python's bit operations on
  non-negative ints are the `Nat` ones, `x & (2^32-1)` is `x mod 2^32` for every integer `x`
  (negative ones included), and how the operations act on values that are `BitVec 32` contents.
  Nothing here mentions the generated module; the equalities `Gen.f = model` are in Props/C12.lean.
-/
namespace Tls.Py
open Tls Tls.CT

/-! ### non-negative operands
  (stated through `Eq.trans` on purpose: a lemma proved by a bare `rfl` is used by `simp` as a
  definitional step without proof term, and the kernel then has to rediscover it on a very large goal) -/
theorem band_nat (a b : Nat) : band (a : Int) (b : Int) = ((a &&& b : Nat) : Int) := Eq.trans rfl rfl
theorem bor_nat (a b : Nat) : bor (a : Int) (b : Int) = ((a ||| b : Nat) : Int) := Eq.trans rfl rfl
theorem bxor_nat (a b : Nat) : bxor (a : Int) (b : Int) = ((a ^^^ b : Nat) : Int) := Eq.trans rfl rfl
theorem band_nat_one (a : Nat) : band (a : Int) 1 = ((a &&& 1 : Nat) : Int) := Eq.trans rfl rfl
theorem band_nat_255 (a : Nat) : band (a : Int) 255 = ((a &&& 255 : Nat) : Int) := Eq.trans rfl rfl
theorem bxor_one_nat (b : Nat) : bxor 1 (b : Int) = ((1 ^^^ b : Nat) : Int) := Eq.trans rfl rfl
theorem bor_zero_nat (b : Nat) : bor 0 (b : Int) = (b : Int) := by
  show ((0 ||| b : Nat) : Int) = b
  simp

theorem shl_nat (a k : Nat) : shl (a : Int) k = ((a <<< k : Nat) : Int) := by
  unfold shl
  rw [Nat.shiftLeft_eq]
  simp

theorem shr_nat (a k : Nat) : shr (a : Int) k = ((a >>> k : Nat) : Int) := by
  unfold shr
  rw [Nat.shiftRight_eq_div_pow, Int.natCast_ediv]
  simp

/-! ### masking with 2^32 - 1 -/
theorem xor_mask32 (r : Nat) (h : r < 4294967296) : 4294967295 ^^^ r = 4294967295 - r := by
  have h1 : (~~~ (BitVec.ofNat 32 r)).toNat = 2^32 - 1 - (BitVec.ofNat 32 r).toNat := BitVec.toNat_not
  rw [BitVec.not_def, BitVec.toNat_xor, BitVec.toNat_allOnes, BitVec.toNat_ofNat,
    Nat.mod_eq_of_lt (by omega)] at h1
  exact h1

/-- Python's `x & 0xffffffff` is `x mod 2^32` for every integer `x` -/
theorem band_mask32 (x : Int) : band x 4294967295 = x % 4294967296 := by
  cases x with
  | ofNat a =>
    show ((a &&& 4294967295 : Nat) : Int) = (a : Int) % 4294967296
    have := Nat.and_two_pow_sub_one_eq_mod a 32
    simp only [show (2:Nat)^32 - 1 = 4294967295 from rfl, show (2:Nat)^32 = 4294967296 from rfl] at this
    rw [this]; omega
  | negSucc m =>
    show ((4294967295 ^^^ (4294967295 &&& m) : Nat) : Int) = Int.negSucc m % 4294967296
    have h1 := Nat.and_two_pow_sub_one_eq_mod m 32
    simp only [show (2:Nat)^32 - 1 = 4294967295 from rfl, show (2:Nat)^32 = 4294967296 from rfl] at h1
    rw [Nat.and_comm, h1, xor_mask32 _ (Nat.mod_lt _ (by decide)), Int.negSucc_eq]
    omega

/-! ### values held in a `BitVec 32` -/
theorem band_mask32_nat (a : Nat) : band (a : Int) 4294967295 = ((BitVec.ofNat 32 a).toNat : Int) := by
  rw [band_mask32, BitVec.toNat_ofNat]; omega

theorem band_mask32_int (a : Int) : band a 4294967295 = ((BitVec.ofInt 32 a).toNat : Int) := by
  rw [band_mask32, BitVec.toNat_ofInt]; omega

theorem band_sub_bv (u v : BitVec 32) :
    band ((u.toNat : Int) - (v.toNat : Int)) 4294967295 = ((u - v).toNat : Int) := by
  rw [band_mask32, BitVec.toNat_sub]
  have := u.isLt; have := v.isLt
  omega

theorem band_neg_bv (u : BitVec 32) :
    band (-(u.toNat : Int)) 4294967295 = ((0 - u).toNat : Int) := by
  rw [band_mask32, BitVec.toNat_sub]
  have := u.isLt
  have h0 : (0 : BitVec 32).toNat = 0 := rfl
  rw [h0]
  omega

theorem bxor_bv (u v : BitVec 32) : bxor (u.toNat : Int) (v.toNat : Int) = ((u ^^^ v).toNat : Int) := by
  rw [bxor_nat, BitVec.toNat_xor]

theorem bor_bv (u v : BitVec 32) : bor (u.toNat : Int) (v.toNat : Int) = ((u ||| v).toNat : Int) := by
  rw [bor_nat, BitVec.toNat_or]

theorem shr_bv (u : BitVec 32) (k : Nat) : shr (u.toNat : Int) k = ((u >>> k).toNat : Int) := by
  rw [shr_nat, BitVec.toNat_ushiftRight]

end Tls.Py

namespace Tls.Py
open Tls Tls.CT

/-! ### bytes, control flow -/
theorem bind_some' {α β : Type} (a : α) (f : α → Option β) : (some a).bind f = f a :=
  (Option.bind_some a f).trans (Eq.refl _)

theorem macCopy_eq (m : MacObj) : macCopy m = m := Eq.trans rfl rfl
theorem macUpdate_mk (a : MacAlg) (x b : Bytes) : macUpdate ⟨a, x⟩ b = ⟨a, x ++ b⟩ := Eq.trans rfl rfl
theorem macDigest_mk (a : MacAlg) (x : Bytes) : macDigest ⟨a, x⟩ = a.digest x := Eq.trans rfl rfl
theorem macDigestSize_mk (a : MacAlg) (x : Bytes) : macDigestSize ⟨a, x⟩ = (a.dlen : Int) := Eq.trans rfl rfl
theorem macBlockSize_mk (a : MacAlg) (x : Bytes) : macBlockSize ⟨a, x⟩ = (a.blockSize : Int) := Eq.trans rfl rfl
theorem len_eq (d : Bytes) : len d = (d.length : Int) := Eq.trans rfl rfl

theorem getItem_nat (d : Bytes) (i : Nat) (h : i < d.length) :
    getItem d (i : Int) = some (byteAt d i : Int) := by
  unfold getItem
  have h1 : ¬ ((i : Int) < 0) := by omega
  simp only [h1, if_false, Int.toNat_natCast]
  rw [byteAt_eq_getElem d i h, List.getElem?_eq_getElem h]
  rfl

theorem max2_zero (x : Int) : max2 0 x = (x.toNat : Int) := by
  unfold max2
  by_cases h : (0 : Int) < x
  · simp only [h, if_true]; omega
  · simp only [h, if_false]; omega

theorem floordiv_nat (a b : Nat) (hb : 0 < b) :
    floordiv (a : Int) (b : Int) = some ((a / b : Nat) : Int) := by
  unfold floordiv
  have h1 : ¬ ((b : Int) = 0) := by omega
  simp only [h1, if_false]
  rw [Int.fdiv_eq_ediv_of_nonneg _ (by omega), Int.natCast_ediv]

theorem bytearrayOfInts_one (n : Nat) (h : n < 256) :
    bytearrayOfInts [(n : Int)] = some [UInt8.ofNat n] := by
  have h1 : (0 : Int) ≤ (n : Int) ∧ (n : Int) < 256 := by omega
  simp [bytearrayOfInts, h1]

theorem sliceBound_nat (n k : Nat) : sliceBound n (k : Int) = if k < n then k else n := by
  unfold sliceBound
  have h1 : ¬ ((k : Int) < 0) := by omega
  simp only [h1, if_false, Int.toNat_natCast]

theorem slice_to (d : Bytes) (k : Nat) : slice d none (some (k : Int)) = d.take k := by
  unfold slice
  simp only [sliceBound_nat, List.drop_zero, Nat.sub_zero]
  by_cases h : k < d.length
  · simp only [h, if_true]
  · simp only [h, if_false]
    rw [List.take_of_length_le (Nat.le_refl _), List.take_of_length_le (by omega)]

theorem slice_from_to (d : Bytes) (a b : Nat) (ha : a ≤ d.length) (hb : b ≤ d.length) :
    slice d (some (a : Int)) (some (b : Int)) = (d.drop a).take (b - a) := by
  unfold slice
  simp only [sliceBound_nat]
  have e : ∀ k, k ≤ d.length → (if k < d.length then k else d.length) = k := by
    intro k hk; split <;> omega
  rw [e a ha, e b hb]

theorem foldlM_map_range' {σ : Type} (a : Nat) (body : Int → σ → Option σ) (g : Nat → σ → σ) :
    ∀ (n s : Nat) (init : σ),
      (∀ k st, s ≤ k → k < s + n → body ((a : Int) + (k : Int)) st = some (g (a + k) st)) →
      List.foldlM (fun st i => body i st) init ((List.range' s n).map fun (k : Nat) => (a : Int) + (k : Int))
        = some ((List.range' (a + s) n).foldl (fun st k => g k st) init) := by
  intro n
  induction n with
  | zero => intro s init _; rfl
  | succ n ih =>
    intro s init h
    rw [List.range'_succ, List.range'_succ, List.map_cons, List.foldlM_cons, List.foldl_cons,
      h s init (Nat.le_refl _) (by omega)]
    simp only [bind, Option.bind_some]
    have := ih (s + 1) (g (a + s) init) (fun k st h1 h2 => h k st (by omega) (by omega))
    rw [this, Nat.add_assoc]

/-- a `for i in range(a, b)` loop whose body cannot raise on the indices it meets is a left fold -/
theorem forIn_range {σ : Type} (a b : Nat) (init : σ) (body : Int → σ → Option σ) (g : Nat → σ → σ)
    (h : ∀ k st, a ≤ k → k < b → body (k : Int) st = some (g k st)) :
    forIn (range (a : Int) (b : Int)) init body =
      some ((List.range' a (b - a)).foldl (fun st k => g k st) init) := by
  unfold forIn range
  have e : ((b : Int) - (a : Int)).toNat = b - a := by omega
  rw [e]
  have := foldlM_map_range' a body g (b - a) 0 init (fun k st _ h2 => by
    have := h (a + k) st (by omega) (by omega)
    rw [← this, Int.natCast_add])
  simpa using this

theorem foldl_or_init (l : List Nat) (f : Nat → Nat) (a : Nat) :
    l.foldl (fun r i => r ||| f i) a = a ||| orFold l f := by
  unfold orFold
  induction l generalizing a with
  | nil => simp
  | cons x xs ih =>
    simp only [List.foldl_cons]
    rw [ih (a ||| f x), ih (0 ||| f x), Nat.zero_or, Nat.or_assoc]

/-- `result |= f(i)` over Python ints that are non-negative, second component of a (mask, result) state -/
theorem foldl_pair_bor (l : List Nat) (mk : Nat → Int) (f : Nat → Nat) (m0 : Int) (r0 : Nat) :
    (l.foldl (fun (s : Int × Int) k => (mk k, bor s.2 (f k : Int))) (m0, (r0 : Int))).2
      = ((r0 ||| orFold l f : Nat) : Int) := by
  induction l generalizing m0 r0 with
  | nil => simp [orFold]
  | cons x xs ih =>
    simp only [List.foldl_cons, bor_nat]
    rw [ih, ← foldl_or_init, ← foldl_or_init]
    rfl

theorem foldl_bor (l : List Nat) (f : Nat → Nat) (r0 : Nat) :
    l.foldl (fun (r : Int) k => bor r (f k : Int)) (r0 : Int) = ((r0 ||| orFold l f : Nat) : Int) := by
  induction l generalizing r0 with
  | nil => simp [orFold]
  | cons x xs ih =>
    simp only [List.foldl_cons, bor_nat]
    rw [ih, ← foldl_or_init, ← foldl_or_init]
    rfl

end Tls.Py

namespace Tls.Py
open Tls Tls.CT

theorem forIn_range0 {σ : Type} (b : Nat) (init : σ) (body : Int → σ → Option σ) (g : Nat → σ → σ)
    (h : ∀ k st, k < b → body (k : Int) st = some (g k st)) :
    forIn (range 0 (b : Int)) init body = some ((List.range b).foldl (fun st k => g k st) init) := by
  have := forIn_range 0 b init body g (fun k st _ hk => h k st hk)
  rw [List.range_eq_range']
  simpa using this

theorem orFold_cons (x : Nat) (xs : List Nat) (f : Nat → Nat) :
    orFold (x :: xs) f = f x ||| orFold xs f := by
  have := foldl_or_init xs f (0 ||| f x)
  rw [Nat.zero_or] at this
  rw [← this]
  simp only [orFold, List.foldl_cons, Nat.zero_or]

/-- outer loop with a (mask, result) state whose body runs an inner `result |= …` loop -/
theorem foldl_pair_fold_bor (l l2 : List Nat) (mk : Nat → Int) (f : Nat → Nat → Nat) (m0 : Int) (r0 : Nat) :
    (l.foldl (fun (s : Int × Int) k => (mk k, l2.foldl (fun (r : Int) j => bor r (f k j : Int)) s.2))
        (m0, (r0 : Int))).2
      = ((r0 ||| orFold l fun k => orFold l2 (f k) : Nat) : Int) := by
  induction l generalizing m0 r0 with
  | nil => simp [orFold]
  | cons x xs ih =>
    simp only [List.foldl_cons]
    rw [foldl_bor, ih, orFold_cons, Nat.or_assoc]

theorem bytearrayOfInts_shr8 (n : Nat) (h : n < 65536) :
    bytearrayOfInts [shr (n : Int) 8] = some [UInt8.ofNat (n >>> 8)] := by
  rw [shr_nat, bytearrayOfInts_one]
  rw [Nat.shiftRight_eq_div_pow]; omega

theorem bytearrayOfInts_and255 (n : Nat) :
    bytearrayOfInts [band (n : Int) 255] = some [UInt8.ofNat (n &&& 255)] := by
  rw [band_nat_255, bytearrayOfInts_one]
  have := @Nat.and_le_right n 255
  omega

end Tls.Py
