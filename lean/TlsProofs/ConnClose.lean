import TlsProofs.ConnDecide
/-
  Decision lemmas about closure, truncation, alerts and transport faults (C17).
-/
namespace Tls.Conn

/-- what `_getMsg` does with an alert it was not asked for -/
theorem getMsgStep_alert (e s : List Nat) (l : Local) (lvl d : Nat) (rest : List Rec)
    (hin : l.inc.recs = ⟨l.me.readGen, .alert lvl d⟩ :: rest) (he : e.contains 21 = false) :
    getMsgStep e s l = (.err (.remoteAlert d),
      if lvl == 1 || d == 0 then
        shutdown (d == 0) ((sendRaw (.alert 1 0) (popped l rest)).getD (popped l rest))
      else shutdown false (popped l rest)) := by
  unfold getMsgStep
  rw [nextRecord_head l _ rest hin (by simp) (by simp)]
  simp only [Msg.ct, he, Bool.not_false, if_true]
  by_cases h1 : (lvl == 1 || d == 0) = true
  · simp only [h1, if_true]
    by_cases h0 : (d == 0) = true
    · simp [h0]
    · simp [h0]
  · simp [h1]

/-- nothing in flight: `_getMsg` reports what the transport reports -/
theorem getMsgStep_empty (e s : List Nat) (l : Local) (hin : l.inc.recs = []) :
    getMsgStep e s l =
      (if l.inc.eof || l.me.rxDead == 1 then (.err .abruptClose, l)
       else if l.me.rxDead == 2 then (.err .socketError, l) else (.stall, l)) := by
  have hn : nextRecord l =
      (if l.inc.eof || l.me.rxDead == 1 then (.err .abruptClose, l)
       else if l.me.rxDead == 2 then (.err .socketError, l) else (.stall, l)) := by
    unfold nextRecord; rw [hin]
  unfold getMsgStep
  rw [hn]
  by_cases h1 : (l.inc.eof || l.me.rxDead == 1) = true
  · simp only [h1, if_true]
  · simp only [h1]
    by_cases h2 : (l.me.rxDead == 2) = true
    · simp only [h2, if_true]; rfl
    · simp only [h2]; rfl

/-- the read loop stops at once on a closed connection -/
theorem readLoop_closed (is13 : Bool) (allowed : List Nat) (mn f : Nat) (t : Bool) (l : Local)
    (hc : l.me.closed = true) : readLoop is13 allowed mn (f+1) t l = (.ok (), l) := by
  rw [readLoop]; simp [hc]

/-- `readAsync` on a closed connection: the buffered bytes, never an exception -/
theorem read_closed (mx : Option Nat) (mn : Nat) (l : Local) (hc : l.me.closed = true) :
    read mx mn l = (.ok (l.me.readBuf.take (mx.getD l.me.readBuf.length)),
      { l with me := { l.me with readBuf := l.me.readBuf.drop (mx.getD l.me.readBuf.length),
                                  got := l.me.got ++ l.me.readBuf.take (mx.getD l.me.readBuf.length) } }) := by
  have hf : fuelOf l = l.inc.recs.length + 1 + 1 := rfl
  unfold read
  rw [hf, readLoop_closed _ _ _ _ _ _ hc]

/-- first round of `readAsync` ends with the peer's close_notify: the read returns what is buffered -/
theorem read_of_iter_closenotify (l l1 : Local) (mx : Option Nat) (mn : Nat)
    (hopen : l.me.closed = false) (hneed : l.me.readBuf.length < mn ∨ l.me.readBuf = [])
    (hi : readIter (l.me.ver13 && !l.me.closed) (allowedHs l.me) l = (.err (.remoteAlert 0), l1))
    (hc1 : l1.me.closed = true) :
    read mx mn l = (.ok (l1.me.readBuf.take (mx.getD l1.me.readBuf.length)),
      { l1 with me := { l1.me with readBuf := l1.me.readBuf.drop (mx.getD l1.me.readBuf.length),
                                    got := l1.me.got ++ l1.me.readBuf.take (mx.getD l1.me.readBuf.length) } }) := by
  have hf : fuelOf l = l.inc.recs.length + 1 + 1 := rfl
  have hcond : ((decide (l.me.readBuf.length < mn) || (l.me.readBuf.isEmpty && true)) && !l.me.closed) = true := by
    rcases hneed with h | h <;> simp [h, hopen]
  unfold read
  rw [hf, readLoop]
  simp only [hcond, if_true, hi]
  rw [readLoop_closed _ _ _ _ _ _ hc1]

/-- first round of `readAsync` hits EOF without close_notify -/
theorem read_of_iter_eof (l l1 : Local) (mx : Option Nat) (mn : Nat)
    (hopen : l.me.closed = false) (hneed : l.me.readBuf.length < mn ∨ l.me.readBuf = [])
    (hi : readIter (l.me.ver13 && !l.me.closed) (allowedHs l.me) l = (.err .abruptClose, l1)) :
    read mx mn l =
      if l1.me.ignoreAbruptClose then
        (.ok (l1.me.readBuf.take (mx.getD l1.me.readBuf.length)),
          { shutdown true l1 with me := { (shutdown true l1).me with
              readBuf := l1.me.readBuf.drop (mx.getD l1.me.readBuf.length),
              got := l1.me.got ++ l1.me.readBuf.take (mx.getD l1.me.readBuf.length) } })
      else (.err .abruptClose, shutdown false l1) := by
  have hf : fuelOf l = l.inc.recs.length + 1 + 1 := rfl
  have hcond : ((decide (l.me.readBuf.length < mn) || (l.me.readBuf.isEmpty && true)) && !l.me.closed) = true := by
    rcases hneed with h | h <;> simp [h, hopen]
  unfold read
  rw [hf, readLoop]
  simp only [hcond, if_true, hi]
  by_cases hig : l1.me.ignoreAbruptClose = true
  · simp only [hig, if_true]
    rw [readLoop_closed _ _ _ _ _ _ (by simp [shutdown])]
    rfl
  · simp [hig]

/-- general form of `read_of_iter_err` for a buffer that is merely too short -/
theorem read_of_iter_err' (l l1 : Local) (mx : Option Nat) (mn : Nat) (e : Exc)
    (hopen : l.me.closed = false) (hneed : l.me.readBuf.length < mn ∨ l.me.readBuf = [])
    (hi : readIter (l.me.ver13 && !l.me.closed) (allowedHs l.me) l = (.err e, l1))
    (h1 : e ≠ .remoteAlert 0) (h2 : e ≠ .abruptClose) :
    read mx mn l = (.err e, shutdown false l1) := by
  have hf : fuelOf l = l.inc.recs.length + 1 + 1 := rfl
  have hcond : ((decide (l.me.readBuf.length < mn) || (l.me.readBuf.isEmpty && true)) && !l.me.closed) = true := by
    rcases hneed with h | h <;> simp [h, hopen]
  unfold read
  rw [hf, readLoop]
  simp only [hcond, if_true, hi]

/-- `readIter` when the first `_getMsg` round raises -/
theorem readIter_step_err (l l1 : Local) (e : Exc)
    (hs : ∀ ex sx, getMsgStep ex sx l = (.err e, l1)) :
    readIter (l.me.ver13 && !l.me.closed) (allowedHs l.me) l = (.err e, l1) := by
  have hf : fuelOf l = l.inc.recs.length + 1 + 1 := rfl
  exact readIter_of_step_err _ _ l l1 e _ hf (hs _ _)


/-- what an operation on a closed connection must answer -/
def closedAnswer (l : Local) : Op → Out → Prop
  | .read mx _, o => o = .bytes (l.me.readBuf.take (mx.getD l.me.readBuf.length))
  | .write _, o => o = .err .closedConn
  | .keyUpdate _, o => o = .err .closedConn
  | .heartbeat _ _, o => o = .err .closedConn
  | .requestClientAuth _, o => o = .err .valueError
  | .close, o => o = .done
  | _, _ => True

/-- closed is absorbing: every operation leaves the connection closed, the session's resumable
    flag and the outgoing channel untouched, reads hand out what is buffered and never raise,
    writes (and the control operations) raise the closed-connection error -/
theorem runLocal_closed (op : Op) (l : Local) (hc : l.me.closed = true) :
    (runLocal op l).2.me.closed = true ∧ (runLocal op l).2.me.resumable = l.me.resumable ∧
    (runLocal op l).2.out.recs = l.out.recs ∧ closedAnswer l op (runLocal op l).1 := by
  cases op with
  | write d => simp [runLocal, write, hc, liftU, closedAnswer]
  | read mx mn => simp [runLocal, read_closed mx mn l hc, hc, closedAnswer]
  | keyUpdate r => simp [runLocal, sendKeyUpdate, hc, liftU, closedAnswer]
  | requestClientAuth sa => simp [runLocal, requestClientAuth, hc, liftU, closedAnswer]
  | heartbeat p n => simp [runLocal, heartbeat, hc, liftU, closedAnswer]
  | close => simp [runLocal, close, hc, liftU, closedAnswer]
  | makefile => simp [runLocal, makefile, hc, closedAnswer]
  | inject m => simp [runLocal, sendRaw, hc, closedAnswer]
  | kill k => simp [runLocal, hc, closedAnswer]
  | abort => simp [runLocal, hc, closedAnswer]

/-- an operation of one endpoint does not touch the other endpoint's state -/
theorem step_other (w : World) (who : Side) (op : Op) :
    (step w who op).2.endOf who.other = w.endOf who.other := by
  cases who <;> simp [step, World.put, World.endOf, Side.other]

theorem step_self (w : World) (who : Side) (op : Op) :
    (step w who op).2.endOf who = (runLocal op (w.view who)).2.me := by
  cases who <;> simp [step, World.put, World.endOf]

theorem view_me (w : World) (who : Side) : (w.view who).me = w.endOf who := by
  cases who <;> rfl

/-- over every history: once closed, closed; resumable never changes afterwards -/
theorem closed_forever (w : World) (who : Side) (h : List (Side × Op))
    (hc : (w.endOf who).closed = true) :
    ((run w h).endOf who).closed = true ∧ ((run w h).endOf who).resumable = (w.endOf who).resumable := by
  induction h generalizing w with
  | nil => exact ⟨hc, rfl⟩
  | cons o rest ih =>
    obtain ⟨who', op⟩ := o
    simp only [run]
    by_cases hw : who' = who
    · subst hw
      have hv : (w.view who').me.closed = true := by rw [view_me]; exact hc
      have hr := runLocal_closed op (w.view who') hv
      have h1 : ((step w who' op).2.endOf who').closed = true := by rw [step_self]; exact hr.1
      have h2 : ((step w who' op).2.endOf who').resumable = (w.endOf who').resumable := by
        rw [step_self, hr.2.1, view_me]
      have := ih (step w who' op).2 h1
      exact ⟨this.1, this.2.trans h2⟩
    · have hwo : who = who'.other := by
        cases who <;> cases who' <;> simp_all [Side.other]
      have h0 : (step w who' op).2.endOf who = w.endOf who := by rw [hwo]; exact step_other w who' op
      have := ih (step w who' op).2 (by rw [h0]; exact hc)
      rw [h0] at this
      exact this

end Tls.Conn
