import TlsProofs.Order
/-
  C06 proof support: explicit enumeration of the valid configurations, by role and version family,
  and its completeness.
-/
namespace Tls.Order

def bools : List Bool := [false, true]

/-- TLS 1.3 configurations (tickets/NPN do not exist there) -/
def raw13 (role : Role) : List Cfg :=
  [Kx.dhe, Kx.ecdhe, Kx.psk].flatMap fun kx =>
  bools.flatMap fun reqCert => bools.flatMap fun clientCert => bools.flatMap fun hrr =>
  [Resume.none, Resume.ticket].flatMap fun resume =>
  bools.flatMap fun compCert => bools.flatMap fun hb => bools.flatMap fun compat =>
  bools.map fun keypair =>
  { role, ver := .tls13, kx, reqCert, clientCert, tickets := false, npn := false, hrr, resume,
    compCert, hb, compat, keypair }

/-- SSLv3 / TLS 1.0–1.2 configurations (no HRR, no compressed certificates, no compat mode) -/
def raw12 (role : Role) (ver : Ver) : List Cfg :=
  [Kx.rsa, Kx.dhe, Kx.ecdhe, Kx.srp, Kx.srpCert, Kx.anon].flatMap fun kx =>
  bools.flatMap fun reqCert => bools.flatMap fun clientCert => bools.flatMap fun tickets =>
  bools.flatMap fun npn =>
  [Resume.none, Resume.sessionId, Resume.ticket].flatMap fun resume =>
  bools.map fun hb =>
  { role, ver, kx, reqCert, clientCert, tickets, npn, hrr := false, resume, compCert := false, hb,
    compat := false, keypair := false }

def cfgsOf (role : Role) (ver : Ver) : List Cfg :=
  (match ver with
   | .tls13 => raw13 role
   | v => raw12 role v).filter Cfg.valid

theorem mem_bools (b : Bool) : b ∈ bools := by cases b <;> simp [bools]

theorem mem_cfgsOf (c : Cfg) (h : c.valid = true) : c ∈ cfgsOf c.role c.ver := by
  obtain ⟨role, ver, kx, reqCert, clientCert, tickets, npn, hrr, resume, compCert, hb, compat, keypair⟩ := c
  simp only [cfgsOf]
  cases ver
  case tls13 =>
    simp only [List.mem_filter]
    refine ⟨?_, h⟩
    have ht : tickets = false := by cases tickets; rfl; simp [Cfg.valid, Cfg.isTls13] at h
    have hn : npn = false := by cases npn; rfl; simp [Cfg.valid, Cfg.isTls13] at h
    have hk : kx = .dhe ∨ kx = .ecdhe ∨ kx = .psk := by cases kx <;> simp [Cfg.valid, Cfg.isTls13] at h ⊢
    have hr : resume = .none ∨ resume = .ticket := by cases resume <;> simp [Cfg.valid, Cfg.isTls13] at h ⊢
    subst ht; subst hn
    simp only [raw13, List.mem_flatMap, List.mem_map]
    refine ⟨kx, ?_, reqCert, mem_bools _, clientCert, mem_bools _, hrr, mem_bools _, resume, ?_,
            compCert, mem_bools _, hb, mem_bools _, compat, mem_bools _, keypair, mem_bools _, rfl⟩
    · rcases hk with h1 | h1 | h1 <;> simp [h1]
    · rcases hr with h1 | h1 <;> simp [h1]
  case ssl3 =>
    simp only [List.mem_filter]
    refine ⟨?_, h⟩
    have hh : hrr = false := by cases hrr; rfl; simp [Cfg.valid, Cfg.isTls13] at h
    have hc : compCert = false := by cases compCert; rfl; simp [Cfg.valid, Cfg.isTls13] at h
    have hm : compat = false := by cases compat; rfl; simp [Cfg.valid, Cfg.isTls13] at h
    have hp : keypair = false := by cases keypair; rfl; simp [Cfg.valid, Cfg.isTls13] at h
    have hk : kx ≠ .psk := by cases kx <;> simp [Cfg.valid, Cfg.isTls13] at h ⊢
    subst hh; subst hc; subst hm; subst hp
    simp only [raw12, List.mem_flatMap, List.mem_map]
    refine ⟨kx, ?_, reqCert, mem_bools _, clientCert, mem_bools _, tickets, mem_bools _, npn, mem_bools _,
            resume, ?_, hb, mem_bools _, rfl⟩
    · cases kx <;> simp_all
    · cases resume <;> simp
  case tls =>
    simp only [List.mem_filter]
    refine ⟨?_, h⟩
    have hh : hrr = false := by cases hrr; rfl; simp [Cfg.valid, Cfg.isTls13] at h
    have hc : compCert = false := by cases compCert; rfl; simp [Cfg.valid, Cfg.isTls13] at h
    have hm : compat = false := by cases compat; rfl; simp [Cfg.valid, Cfg.isTls13] at h
    have hp : keypair = false := by cases keypair; rfl; simp [Cfg.valid, Cfg.isTls13] at h
    have hk : kx ≠ .psk := by cases kx <;> simp [Cfg.valid, Cfg.isTls13] at h ⊢
    subst hh; subst hc; subst hm; subst hp
    simp only [raw12, List.mem_flatMap, List.mem_map]
    refine ⟨kx, ?_, reqCert, mem_bools _, clientCert, mem_bools _, tickets, mem_bools _, npn, mem_bools _,
            resume, ?_, hb, mem_bools _, rfl⟩
    · cases kx <;> simp_all
    · cases resume <;> simp

end Tls.Order
