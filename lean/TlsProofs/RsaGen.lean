import TlsProofs.RsaDecrypt
import TlsProofs.PyInt
import TlsModel.PyExc
/-
  Link between the Python-runtime model `Tls.PyE` (TlsModel/PyExc.lean) and the hand-written model
  of RSAKey.decrypt (TlsModel/RsaDecrypt.lean).  Nothing here mentions the generated module; the
  equalities `Gen.f = model` are in Props/C11.lean.
-/
namespace Tls.RsaDec
open Tls Tls.CT Tls.Py

/-- the RSAKey object the hand model's `Key`/`Prims` describe; `cache` is the `_key_hash` attribute -/
def selfOf (K : Key) (P : Prims) (cache : Option Bytes) : PyE.RsaSelf :=
  { n := (K.n : Int), d := (K.d : Int), keyType := "rsa", hasPrivateKey := true, keyHash := cache,
    sha256 := P.sha256, hmac := P.hmac, privOp := fun x => (P.privInt x.toNat : Int) }

/-- Python exception the hand model's error stands for -/
def PyErr.toE : PyErr → PyE.Err
  | .stopIteration => .stopIteration
  | .valueError => .valueError
  | .spin => .fuel

def liftR {α : Type} : Except PyErr α → PyE.M α
  | .ok a => .ok a
  | .error e => .error e.toE

end Tls.RsaDec

namespace Tls.RsaDec
open Tls Tls.CT Tls.Py

/-! ### the runtime primitives on the values the hand model uses -/
theorem selfOf_n (K : Key) (P : Prims) (c : Option Bytes) : (selfOf K P c).n = (K.n : Int) := Eq.trans rfl rfl
theorem selfOf_d (K : Key) (P : Prims) (c : Option Bytes) : (selfOf K P c).d = (K.d : Int) := Eq.trans rfl rfl
theorem selfOf_hmac (K : Key) (P : Prims) (c : Option Bytes) : (selfOf K P c).hmac = P.hmac := Eq.trans rfl rfl
theorem selfOf_sha (K : Key) (P : Prims) (c : Option Bytes) : (selfOf K P c).sha256 = P.sha256 := Eq.trans rfl rfl
theorem selfOf_priv (K : Key) (P : Prims) (c : Option Bytes) (x : Nat) :
    (selfOf K P c).privOp (x : Int) = (P.privInt x : Int) := by
  show ((P.privInt (x : Int).toNat : Nat) : Int) = _
  rw [Int.toNat_natCast]
theorem selfOf_hasPriv (K : Key) (P : Prims) (c : Option Bytes) : (selfOf K P c).hasPrivateKey = true := Eq.trans rfl rfl
theorem selfOf_keyType (K : Key) (P : Prims) (c : Option Bytes) : (selfOf K P c).keyType = "rsa" := Eq.trans rfl rfl
theorem selfOf_keyHash (K : Key) (P : Prims) (c : Option Bytes) : (selfOf K P c).keyHash = c := Eq.trans rfl rfl

theorem numBytes_nat (n : Nat) : PyE.numBytes (n : Int) = (numBytes n : Int) := by
  unfold PyE.numBytes; rw [Int.natAbs_natCast]
theorem numBits_nat (n : Nat) : PyE.numBits (n : Int) = (numBits n : Int) := by
  unfold PyE.numBits; rw [Int.natAbs_natCast]
theorem bytesToNumber_eq (b : Bytes) : PyE.bytesToNumber b = (beDecode b : Int) := Eq.trans rfl rfl
theorem numberToByteArray_nat (x k : Nat) : PyE.numberToByteArray (x : Int) (k : Int) = .ok (beEncode k x) := by
  unfold PyE.numberToByteArray
  have : ¬ ((x : Int) < 0 ∨ (k : Int) < 0) := by omega
  simp only [this, if_false, Int.toNat_natCast]
theorem numberToByteArray_nat2 (x : Nat) : PyE.numberToByteArray (x : Int) 2 = .ok (beEncode 2 x) :=
  numberToByteArray_nat x 2

/-- `>>=` on a value (stated through `Eq.trans`, see TlsProofs/PyInt.lean on `rfl` lemmas) -/
theorem ok_bind' {α β : Type} (a : α) (f : α → PyE.M β) : (Except.ok a : PyE.M α).bind f = f a := Eq.trans rfl rfl
theorem lift_some' {α : Type} (a : α) : (liftM (some a : Option α) : PyE.M α) = .ok a := Eq.trans rfl rfl
theorem monadLift_some' {α : Type} (a : α) : (monadLift (some a : Option α) : PyE.M α) = .ok a := Eq.trans rfl rfl
theorem liftR_ok {α : Type} (a : α) : liftR (.ok a : Except PyErr α) = .ok a := Eq.trans rfl rfl
theorem liftR_err {α : Type} (e : PyErr) : liftR (.error e : Except PyErr α) = .error e.toE := Eq.trans rfl rfl

end Tls.RsaDec

namespace Tls.RsaDec
open Tls Tls.CT Tls.Py

/-! ### the `while` loop of `_dec_prf` -/
theorem prfLoop_succ (hmac : Bytes → Bytes → Bytes) (key label : Bytes) (outLen need : Nat) :
    ∀ (f it : Nat) (out o : Bytes), prfLoop hmac key label outLen need f it out = some o →
      prfLoop hmac key label outLen need (f + 1) it out = some o := by
  intro f
  induction f with
  | zero =>
    intro it out o h
    unfold prfLoop at h ⊢
    by_cases hl : out.length < need
    · simp [hl] at h
    · simp only [hl, if_false] at h ⊢; exact h
  | succ f ih =>
    intro it out o h
    unfold prfLoop at h
    rw [prfLoop]
    by_cases hl : out.length < need
    · simp only [hl, if_true] at h ⊢; exact ih _ _ _ h
    · simp only [hl, if_false] at h ⊢; exact h

theorem prfLoop_mono (hmac : Bytes → Bytes → Bytes) (key label : Bytes) (outLen need : Nat)
    (f g it : Nat) (out o : Bytes) (hfg : f ≤ g)
    (h : prfLoop hmac key label outLen need f it out = some o) :
    prfLoop hmac key label outLen need g it out = some o := by
  induction hfg with
  | refl => exact h
  | step _ ih => exact prfLoop_succ _ _ _ _ _ _ _ _ _ ih

/-- a `while` loop whose condition and body are those of `_dec_prf` runs `prfLoop` -/
theorem whileLoop_prf (hmac : Bytes → Bytes → Bytes) (key label : Bytes) (outLen need : Nat)
    (cond : Bytes × Int → Bool) (body : Bytes × Int → PyE.M (Bytes × Int))
    (hc : ∀ (out : Bytes) (it : Nat), cond (out, (it : Int)) = decide (out.length < need))
    (hb : ∀ (out : Bytes) (it : Nat), body (out, (it : Int)) =
      .ok (out ++ hmac key (beEncode 2 it ++ label ++ beEncode 2 outLen), ((it + 1 : Nat) : Int))) :
    ∀ (fuel it : Nat) (out : Bytes),
      Except.map Prod.fst (PyE.whileLoop cond body fuel (out, (it : Int))) =
        match prfLoop hmac key label outLen need fuel it out with
        | none => .error .fuel
        | some o => .ok o := by
  intro fuel
  induction fuel with
  | zero =>
    intro it out
    unfold PyE.whileLoop prfLoop
    rw [hc]
    by_cases hl : out.length < need <;> simp [hl, Except.map]
  | succ f ih =>
    intro it out
    unfold PyE.whileLoop
    rw [prfLoop, hc]
    by_cases hl : out.length < need
    · simp only [hl, decide_true, if_true, hb, ok_bind']
      exact ih (it + 1) _
    · simp [hl, Except.map]

theorem bind_fst {α β γ : Type} (x : PyE.M (α × β)) (g : α → PyE.M γ) :
    x.bind (fun s => g s.1) = (Except.map Prod.fst x).bind g := by
  cases x <;> rfl

/-- the result of `_dec_prf` in the hand model, for any loop bound that is large enough -/
theorem decPrf_fuel (hmac : Bytes → Bytes → Bytes) (key label : Bytes) (outLen fuel : Nat)
    (h32 : ∀ k m, (hmac k m).length = 32) (hf : outLen / 8 ≤ fuel) (h8 : outLen % 8 = 0) :
    ∃ o, prfLoop hmac key label outLen (outLen / 8) fuel 0 [] = some o ∧
      decPrf hmac key label outLen = .ok (o.take (outLen / 8)) := by
  obtain ⟨o, ho, _⟩ := prfLoop_some hmac key label outLen (outLen / 8) h32 (outLen / 8) 0 [] (by simp)
  refine ⟨o, prfLoop_mono _ _ _ _ _ _ _ _ _ _ hf ho, ?_⟩
  unfold decPrf
  simp [h8, ho]

end Tls.RsaDec

namespace Tls.RsaDec
theorem fdivLit_nat (x m : Nat) : PyE.fdivLit (x : Int) m = ((x / m : Nat) : Int) := by
  unfold PyE.fdivLit; rw [Int.natCast_ediv]
theorem modLit_nat (x m : Nat) : PyE.modLit (x : Int) m = ((x % m : Nat) : Int) := by
  unfold PyE.modLit; rw [Int.natCast_emod]
end Tls.RsaDec
