import TlsProofs.RsaDecrypt
import TlsProofs.PyInt
import TlsModel.PyExc
set_option linter.unusedSimpArgs false
/-
  Link between the Python-runtime model `Tls.PyE` (TlsModel/PyExc.lean) and the hand-written model
  of RSAKey.decrypt (TlsModel/RsaDecrypt.lean).  Nothing here mentions the generated module; the
  equalities `Gen.f = model` are in Props/C11.lean.
-/
namespace Tls.RsaDec
open Tls Tls.CT Tls.Py

/-- the RSAKey object the hand model's `Key`/`Prims` describe; `cache` is the `_key_hash` attribute -/
def selfOf (K : Key) (P : Prims) (cache : Option Bytes) : PyE.RsaSelf :=
  { n := (K.n : Int), d := (K.d : Int), keyType := "rsa", hasPrivateKey := true, keyHash := cache,
    sha256 := P.sha256, hmac := P.hmac, privOp := fun x => (P.privInt x.toNat : Int) }

/-- Python exception the hand model's error stands for -/
def PyErr.toE : PyErr → PyE.Err
  | .stopIteration => .stopIteration
  | .valueError => .valueError
  | .spin => .fuel

def liftR {α : Type} : Except PyErr α → PyE.M α
  | .ok a => .ok a
  | .error e => .error e.toE

end Tls.RsaDec

namespace Tls.RsaDec
open Tls Tls.CT Tls.Py

/-! ### the runtime primitives on the values the hand model uses -/
theorem selfOf_n (K : Key) (P : Prims) (c : Option Bytes) : (selfOf K P c).n = (K.n : Int) := Eq.trans rfl rfl
theorem selfOf_d (K : Key) (P : Prims) (c : Option Bytes) : (selfOf K P c).d = (K.d : Int) := Eq.trans rfl rfl
theorem selfOf_hmac (K : Key) (P : Prims) (c : Option Bytes) : (selfOf K P c).hmac = P.hmac := Eq.trans rfl rfl
theorem selfOf_sha (K : Key) (P : Prims) (c : Option Bytes) : (selfOf K P c).sha256 = P.sha256 := Eq.trans rfl rfl
theorem selfOf_priv (K : Key) (P : Prims) (c : Option Bytes) (x : Nat) :
    (selfOf K P c).privOp (x : Int) = (P.privInt x : Int) := by
  show ((P.privInt (x : Int).toNat : Nat) : Int) = _
  rw [Int.toNat_natCast]
theorem selfOf_hasPriv (K : Key) (P : Prims) (c : Option Bytes) : (selfOf K P c).hasPrivateKey = true := Eq.trans rfl rfl
theorem selfOf_keyType (K : Key) (P : Prims) (c : Option Bytes) : (selfOf K P c).keyType = "rsa" := Eq.trans rfl rfl
theorem selfOf_keyHash (K : Key) (P : Prims) (c : Option Bytes) : (selfOf K P c).keyHash = c := Eq.trans rfl rfl

theorem numBytes_nat (n : Nat) : PyE.numBytes (n : Int) = (numBytes n : Int) := by
  unfold PyE.numBytes; rw [Int.natAbs_natCast]
theorem numBits_nat (n : Nat) : PyE.numBits (n : Int) = (numBits n : Int) := by
  unfold PyE.numBits; rw [Int.natAbs_natCast]
theorem bytesToNumber_eq (b : Bytes) : PyE.bytesToNumber b = (beDecode b : Int) := Eq.trans rfl rfl
theorem numberToByteArray_nat (x k : Nat) : PyE.numberToByteArray (x : Int) (k : Int) = .ok (beEncode k x) := by
  unfold PyE.numberToByteArray
  have : ¬ ((x : Int) < 0) := by omega
  simp only [this, if_false, Int.toNat_natCast]
theorem numberToByteArray_nat2 (x : Nat) : PyE.numberToByteArray (x : Int) 2 = .ok (beEncode 2 x) :=
  numberToByteArray_nat x 2

/-- `>>=` on a value (stated through `Eq.trans`, see TlsProofs/PyInt.lean on `rfl` lemmas) -/
theorem ok_bind' {α β : Type} (a : α) (f : α → PyE.M β) : (Except.ok a : PyE.M α).bind f = f a := Eq.trans rfl rfl
theorem lift_some' {α : Type} (a : α) : (liftM (some a : Option α) : PyE.M α) = .ok a := Eq.trans rfl rfl
theorem monadLift_some' {α : Type} (a : α) : (monadLift (some a : Option α) : PyE.M α) = .ok a := Eq.trans rfl rfl
theorem liftR_ok {α : Type} (a : α) : liftR (.ok a : Except PyErr α) = .ok a := Eq.trans rfl rfl
theorem liftR_err {α : Type} (e : PyErr) : liftR (.error e : Except PyErr α) = .error e.toE := Eq.trans rfl rfl

end Tls.RsaDec

namespace Tls.RsaDec
open Tls Tls.CT Tls.Py

/-! ### the `while` loop of `_dec_prf` -/
theorem prfLoop_succ (hmac : Bytes → Bytes → Bytes) (key label : Bytes) (outLen need : Nat) :
    ∀ (f it : Nat) (out o : Bytes), prfLoop hmac key label outLen need f it out = some o →
      prfLoop hmac key label outLen need (f + 1) it out = some o := by
  intro f
  induction f with
  | zero =>
    intro it out o h
    unfold prfLoop at h ⊢
    by_cases hl : out.length < need
    · simp [hl] at h
    · simp only [hl, if_false] at h ⊢; exact h
  | succ f ih =>
    intro it out o h
    unfold prfLoop at h
    rw [prfLoop]
    by_cases hl : out.length < need
    · simp only [hl, if_true] at h ⊢; exact ih _ _ _ h
    · simp only [hl, if_false] at h ⊢; exact h

theorem prfLoop_mono (hmac : Bytes → Bytes → Bytes) (key label : Bytes) (outLen need : Nat)
    (f g it : Nat) (out o : Bytes) (hfg : f ≤ g)
    (h : prfLoop hmac key label outLen need f it out = some o) :
    prfLoop hmac key label outLen need g it out = some o := by
  induction hfg with
  | refl => exact h
  | step _ ih => exact prfLoop_succ _ _ _ _ _ _ _ _ _ ih

/-- a `while` loop whose condition and body are those of `_dec_prf` runs `prfLoop` -/
theorem whileLoop_prf (hmac : Bytes → Bytes → Bytes) (key label : Bytes) (outLen need : Nat)
    (cond : Bytes × Int → Bool) (body : Bytes × Int → PyE.M (Bytes × Int))
    (hc : ∀ (out : Bytes) (it : Nat), cond (out, (it : Int)) = decide (out.length < need))
    (hb : ∀ (out : Bytes) (it : Nat), body (out, (it : Int)) =
      .ok (out ++ hmac key (beEncode 2 it ++ label ++ beEncode 2 outLen), ((it + 1 : Nat) : Int))) :
    ∀ (fuel it : Nat) (out : Bytes),
      Except.map Prod.fst (PyE.whileLoop cond body fuel (out, (it : Int))) =
        match prfLoop hmac key label outLen need fuel it out with
        | none => .error .fuel
        | some o => .ok o := by
  intro fuel
  induction fuel with
  | zero =>
    intro it out
    unfold PyE.whileLoop prfLoop
    rw [hc]
    by_cases hl : out.length < need <;> simp [hl, Except.map]
  | succ f ih =>
    intro it out
    unfold PyE.whileLoop
    rw [prfLoop, hc]
    by_cases hl : out.length < need
    · simp only [hl, decide_true, if_true, hb, ok_bind']
      exact ih (it + 1) _
    · simp [hl, Except.map]

theorem bind_fst {α β γ : Type} (x : PyE.M (α × β)) (g : α → PyE.M γ) :
    x.bind (fun s => g s.1) = (Except.map Prod.fst x).bind g := by
  cases x <;> rfl

/-- the result of `_dec_prf` in the hand model, for any loop bound that is large enough -/
theorem decPrf_fuel (hmac : Bytes → Bytes → Bytes) (key label : Bytes) (outLen fuel : Nat)
    (h32 : ∀ k m, (hmac k m).length = 32) (hf : outLen / 8 ≤ fuel) (h8 : outLen % 8 = 0) :
    ∃ o, prfLoop hmac key label outLen (outLen / 8) fuel 0 [] = some o ∧
      decPrf hmac key label outLen = .ok (o.take (outLen / 8)) := by
  obtain ⟨o, ho, _⟩ := prfLoop_some hmac key label outLen (outLen / 8) h32 (outLen / 8) 0 [] (by simp)
  refine ⟨o, prfLoop_mono _ _ _ _ _ _ _ _ _ _ hf ho, ?_⟩
  unfold decPrf
  simp [h8, ho]

end Tls.RsaDec

namespace Tls.RsaDec
theorem fdivLit_nat (x m : Nat) : PyE.fdivLit (x : Int) m = ((x / m : Nat) : Int) := by
  unfold PyE.fdivLit; rw [Int.natCast_ediv]
theorem modLit_nat (x m : Nat) : PyE.modLit (x : Int) m = ((x % m : Nat) : Int) := by
  unfold PyE.modLit; rw [Int.natCast_emod]
end Tls.RsaDec

namespace Tls.RsaDec
open Tls Tls.CT Tls.Py

/-! ### `for` loops, iterators, the final selection -/
theorem bxor_65535_nat (m : Nat) : Py.bxor 65535 (m : Int) = ((65535 ^^^ m : Nat) : Int) := Eq.trans rfl rfl
theorem bxor_255_nat (m : Nat) : Py.bxor 255 (m : Int) = ((255 ^^^ m : Nat) : Int) := Eq.trans rfl rfl
theorem bor_zero_left (m : Nat) : Py.bor 0 (m : Int) = (m : Int) := bor_zero_nat m

theorem lshift_one_nat (b : Nat) : Py.lshift 1 (b : Int) = some ((1 <<< b : Nat) : Int) := by
  unfold Py.lshift
  have : ¬ ((b : Int) < 0) := by omega
  simp only [this, if_false, Int.toNat_natCast]
  have := shl_nat 1 b
  rw [show ((1 : Nat) : Int) = 1 from rfl] at this
  rw [this]

/-- a `for` loop over mapped items whose body, on embedded states, is a pure step -/
theorem forInL_ok {β γ σ τ : Type} (φ : β → γ) (emb : τ → σ) (body : γ → σ → PyE.M σ) (g : τ → β → τ)
    (h : ∀ x t, body (φ x) (emb t) = .ok (emb (g t x))) :
    ∀ (l : List β) (t0 : τ), PyE.forInL (l.map φ) (emb t0) body = .ok (emb (l.foldl g t0)) := by
  intro l
  induction l with
  | nil => intro t0; rfl
  | cons x xs ih =>
    intro t0
    unfold PyE.forInL at ih ⊢
    rw [List.map_cons, List.foldlM_cons, h]
    exact ih (g t0 x)

theorem zipSelf_iterBytes : ∀ (lr : Bytes),
    PyE.zipSelf (PyE.iterBytes lr) = (pairs lr).map fun hl => ((hl.1.toNat : Int), (hl.2.toNat : Int))
  | [] => rfl
  | [_] => rfl
  | a :: b :: rest => by
    show ((a.toNat : Int), (b.toNat : Int)) :: PyE.zipSelf (PyE.iterBytes rest) = _
    rw [zipSelf_iterBytes rest]
    rfl

/-- one iteration of the separator scan (the body of `scan`) -/
def scanStep (pos : Nat) (v : UInt8) (s : Nat × Nat) : Nat × Nat :=
  let err := s.1 ||| (ctLtU32 pos 10 &&& (1 ^^^ ctIsNonZeroU32 v.toNat))
  let mask := (1 ^^^ ctLtU32 pos 10) &&& (1 ^^^ ctIsNonZeroU32 v.toNat) &&& (1 ^^^ ctIsNonZeroU32 s.2)
  let mask := ctLsbPropU16 mask
  (err, (s.2 &&& (0xffff ^^^ mask)) ||| ((pos + 1) &&& mask))

theorem scan_cons (pos err ms : Nat) (v : UInt8) (rest : Bytes) :
    scan pos err ms (v :: rest) =
      scan (pos + 1) (scanStep pos v (err, ms)).1 (scanStep pos v (err, ms)).2 rest := rfl

/-- the `for pos, val in em_bytes` loop over the rest of an `enumerate` iterator -/
theorem forInL_enumFrom (body : Int × Int → Int × Int → PyE.M (Int × Int))
    (h : ∀ (pos : Nat) (v : UInt8) (e ms : Nat),
      body ((pos : Int), (v.toNat : Int)) ((e : Int), (ms : Int)) =
        .ok (((scanStep pos v (e, ms)).1 : Int), ((scanStep pos v (e, ms)).2 : Int))) :
    ∀ (rest : Bytes) (pos e ms : Nat),
      PyE.forInL (PyE.enumFrom pos rest) ((e : Int), (ms : Int)) body =
        .ok (((scan pos e ms rest).1 : Int), ((scan pos e ms rest).2 : Int)) := by
  intro rest
  induction rest with
  | nil => intro pos e ms; rfl
  | cons v rest ih =>
    intro pos e ms
    unfold PyE.forInL at ih ⊢
    rw [PyE.enumFrom, List.foldlM_cons, h, scan_cons]
    exact ih (pos + 1) _ _

theorem slice_from (d : Bytes) (r : Nat) : Py.slice d (some (r : Int)) none = d.drop r := by
  unfold Py.slice
  simp only [sliceBound_nat]
  by_cases h : r < d.length
  · simp only [h, if_true]
    rw [List.take_of_length_le (by simp)]
  · simp only [h, if_false]
    rw [List.drop_of_length_le (Nat.le_refl _), List.drop_of_length_le (by omega)]
    simp

/-- the final `bytearray(x & not_mask | y & mask for x, y in zip(xs, ys))` -/
theorem select_eq (mask : Nat) : ∀ (xs ys : Bytes),
    Py.bytearrayOfInts ((PyE.zipBytes xs ys).map fun xy =>
        Py.bor (Py.band xy.1 ((255 ^^^ mask : Nat) : Int)) (Py.band xy.2 (mask : Int)))
      = some (selectBytes mask xs ys)
  | [], _ => rfl
  | _ :: _, [] => rfl
  | x :: xs, y :: ys => by
    have ih := select_eq mask xs ys
    unfold Py.bytearrayOfInts at ih ⊢
    unfold selectBytes PyE.zipBytes at *
    simp only [List.zipWith_cons_cons, List.map_cons, List.mapM_cons, band_nat, bor_nat]
    have hx := x.toNat_lt
    have hy := y.toNat_lt
    have h1 : x.toNat &&& (255 ^^^ mask) < 2^8 := Nat.lt_of_le_of_lt Nat.and_le_left hx
    have h2 : y.toNat &&& mask < 2^8 := Nat.lt_of_le_of_lt Nat.and_le_left hy
    have h3 : (x.toNat &&& (255 ^^^ mask)) ||| (y.toNat &&& mask) < 2^8 := Nat.or_lt_two_pow h1 h2
    have hb : (0 : Int) ≤ (((x.toNat &&& (255 ^^^ mask)) ||| (y.toNat &&& mask) : Nat) : Int) ∧
        (((x.toNat &&& (255 ^^^ mask)) ||| (y.toNat &&& mask) : Nat) : Int) < 256 := by omega
    simp only [hb, and_self, if_true, Int.toNat_natCast]
    simp only [band_nat, bor_nat] at ih
    rw [ih]
    rfl

end Tls.RsaDec

namespace Tls.RsaDec
open Tls Tls.CT Tls.Py

theorem forInL_nat {β γ : Type} (φ : β → γ) (body : γ → Int → PyE.M Int) (g : Nat → β → Nat)
    (h : ∀ x (t : Nat), body (φ x) (t : Int) = .ok ((g t x : Nat) : Int)) (l : List β) (t0 : Nat) :
    PyE.forInL (l.map φ) (t0 : Int) body = .ok ((l.foldl g t0 : Nat) : Int) :=
  forInL_ok φ (fun (t : Nat) => (t : Int)) body g h l t0

theorem next_enumerate2 (b0 b1 : UInt8) (rest : Bytes) :
    PyE.next (PyE.enumerate (b0 :: b1 :: rest)) =
      .ok ((((0 : Nat) : Int), (b0.toNat : Int)), PyE.enumFrom 1 (b1 :: rest)) := Eq.trans rfl rfl
theorem next_enumFrom1 (b1 : UInt8) (rest : Bytes) :
    PyE.next (PyE.enumFrom 1 (b1 :: rest)) =
      .ok ((((1 : Nat) : Int), (b1.toNat : Int)), PyE.enumFrom 2 rest) := Eq.trans rfl rfl
theorem fst_mk' {α β : Type} (a : α) (b : β) : (a, b).1 = a := Eq.trans rfl rfl
theorem snd_mk' {α β : Type} (a : α) (b : β) : (a, b).2 = b := Eq.trans rfl rfl
theorem shiftLeft_one_sub (b : Nat) : (((1 <<< b : Nat) : Int) - (1 : Int)) = (((1 <<< b) - 1 : Nat) : Int) := by
  have : 0 < 1 <<< b := by rw [Nat.one_shiftLeft]; exact Nat.pow_pos (by decide)
  omega
theorem lit2 : (2 : Int) = ((2 : Nat) : Int) := rfl
theorem lit10 : (10 : Int) = ((10 : Nat) : Int) := rfl
theorem lit0 : (0 : Int) = ((0 : Nat) : Int) := rfl

end Tls.RsaDec

namespace Tls.RsaDec
/-- the RSAKeyExchange object on the server side: the key, the two versions the premaster's version
    bytes are compared with, and the value `getRandomBytes(48)` returns in this call -/
def kexOf (K : Key) (P : Prims) (cache : Option Bytes) (rand : Bytes) (cv sv : Nat × Nat) : PyE.KexSelf :=
  { privateKey := selfOf K P cache, clientVersion := ((cv.1 : Int), (cv.2 : Int)),
    serverVersion := ((sv.1 : Int), (sv.2 : Int)), random48 := rand }
end Tls.RsaDec
