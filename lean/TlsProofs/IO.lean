import TlsModel.IO
/-
  C14 helper lemmas: devices as byte streams (LawfulDev / LiveDev / LawfulSend / LiveSend and their
  instances for the raw event-list socket and for BufferedSocket), _sockRecvAll / _sockSendAll
  under every schedule, BufferedSocket transparency, record reads as a pure parser of the stream.
  Core Lean only.
-/
namespace Tls.IO

/-- a device whose receive side is a byte stream (`upstream`) delivered in order -/
class LawfulDev (σ : Type) [Dev σ] where
  upstream : σ → Bytes
  recv_data : ∀ (n : Nat) (s s' : σ) (b : Bytes), Dev.recv n s = (.data b, s') →
    b.length ≤ n ∧ upstream s = b ++ upstream s' ∧ Dev.budgetR s' ≤ Dev.budgetR s
  recv_wb : ∀ (n : Nat) (s s' : σ), Dev.recv n s = (.wouldBlock, s') →
    upstream s' = upstream s ∧ Dev.budgetR s' < Dev.budgetR s
  recv_err : ∀ (n : Nat) (s s' : σ), Dev.recv n s = (.error, s') → upstream s' = upstream s
  recv_exh : ∀ (n : Nat) (s s' : σ), Dev.recv n s = (.exhausted, s') → upstream s' = upstream s

open LawfulDev

theorem recvAllLoop_spec {σ : Type} [Dev σ] [LawfulDev σ] (length : Nat) :
    ∀ (fuel : Nat) (buf : Bytes) (s : σ), buf.length < length →
      let o := recvAllLoop length fuel buf s
      (∀ y ∈ o.yields, y = 0) ∧
      (∃ t, upstream s = t ++ upstream o.dev ∧
        ∀ r, o.res = .ok r → r = buf ++ t ∧ r.length = length) ∧
      (Dev.budgetR s + (length - buf.length) < fuel → o.res ≠ .fuelOut) := by
  intro fuel
  induction fuel with
  | zero =>
    intro buf s hb
    simp [recvAllLoop]
  | succ fuel ih =>
    intro buf s hb
    simp only [recvAllLoop]
    generalize hr : Dev.recv (length - buf.length) s = r
    obtain ⟨res, s'⟩ := r
    cases res with
    | wouldBlock =>
      have ⟨hu, hbud⟩ := recv_wb _ _ _ hr
      have ⟨h1, ⟨t, ht, h2⟩, h3⟩ := ih buf s' hb
      simp only
      refine ⟨?_, ⟨t, ?_, h2⟩, ?_⟩
      · intro y hy
        simp at hy
        rcases hy with rfl | hy
        · rfl
        · exact h1 y hy
      · rw [← hu]; exact ht
      · intro hf; apply h3; omega
    | error =>
      have hu := recv_err _ _ _ hr
      simp
      exact ⟨[], by simp [hu]⟩
    | exhausted =>
      have hu := recv_exh _ _ _ hr
      simp
      exact ⟨[], by simp [hu]⟩
    | data b =>
      have ⟨hlen, hu, hbud⟩ := recv_data _ _ _ _ hr
      simp only
      by_cases h0 : b.length = 0
      · simp [h0]
        exact ⟨b, hu⟩
      · simp only [h0, beq_iff_eq, if_false]
        by_cases hfull : (buf ++ b).length = length
        · simp only [hfull, if_true]
          refine ⟨by simp, ⟨b, hu, ?_⟩, by simp⟩
          intro r hr'
          simp at hr'
          subst hr'
          exact ⟨rfl, by simpa using hfull⟩
        · simp only [hfull, if_false]
          have hb' : (buf ++ b).length < length := by
            simp at hfull ⊢; omega
          have ⟨h1, ⟨t, ht, h2⟩, h3⟩ := ih (buf ++ b) s' hb'
          refine ⟨h1, ⟨b ++ t, ?_, ?_⟩, ?_⟩
          · rw [hu, ht]; simp
          · intro r hr'
            have := h2 r hr'
            exact ⟨by simp [this.1], this.2⟩
          · intro hf; apply h3
            simp at hb' ⊢; omega

theorem Sock.recv_cases (n : Nat) (s : Sock) :
    (s.rsched = [] ∧ s.recv n = (.exhausted, s)) ∨
    (∃ rest, s.rsched = .wb :: rest ∧ s.recv n = (.wouldBlock, { s with rsched := rest })) ∨
    (∃ rest, s.rsched = .err :: rest ∧ s.recv n = (.error, { s with rsched := rest })) ∨
    (∃ rest, s.rsched = .eof :: rest ∧ s.recv n = (.data [], { s with rsched := rest })) ∨
    (∃ k rest, s.rsched = .chunk k :: rest ∧ s.stream = [] ∧
        s.recv n = (.wouldBlock, { s with rsched := rest })) ∨
    (∃ k rest, s.rsched = .chunk k :: rest ∧ s.stream ≠ [] ∧
        s.recv n = (.data (s.stream.take (min k n)),
          { s with stream := s.stream.drop (min k n), rsched := rest })) := by
  unfold Sock.recv
  cases h : s.rsched with
  | nil => simp
  | cons e rest =>
    cases e with
    | wb => simp
    | err => simp
    | eof => simp
    | chunk k =>
      by_cases hs : s.stream = []
      · simp [hs]
      · simp [hs]

instance : LawfulDev Sock where
  upstream s := s.stream
  recv_data := by
    intro n s s' b h
    change s.recv n = _ at h
    rcases Sock.recv_cases n s with ⟨_, h'⟩ | ⟨_, _, h'⟩ | ⟨_, _, h'⟩ | ⟨rest, hr, h'⟩ | ⟨_, _, _, _, h'⟩ | ⟨k, rest, hr, _, h'⟩
      <;> rw [h'] at h <;> simp at h
    · obtain ⟨rfl, rfl⟩ := h
      simp [Dev.budgetR, hr]
    · obtain ⟨rfl, rfl⟩ := h
      simp [Dev.budgetR, hr]
      omega
  recv_wb := by
    intro n s s' h
    change s.recv n = _ at h
    rcases Sock.recv_cases n s with ⟨_, h'⟩ | ⟨rest, hr, h'⟩ | ⟨_, _, h'⟩ | ⟨rest, hr, h'⟩ | ⟨_, rest, hr, _, h'⟩ | ⟨k, rest, hr, _, h'⟩
      <;> rw [h'] at h <;> simp at h
    · subst h; simp [Dev.budgetR, hr]
    · subst h; simp [Dev.budgetR, hr]
  recv_err := by
    intro n s s' h
    change s.recv n = _ at h
    rcases Sock.recv_cases n s with ⟨_, h'⟩ | ⟨rest, hr, h'⟩ | ⟨_, _, h'⟩ | ⟨rest, hr, h'⟩ | ⟨_, rest, hr, _, h'⟩ | ⟨k, rest, hr, _, h'⟩
      <;> rw [h'] at h <;> simp at h
    · subst h; rfl
  recv_exh := by
    intro n s s' h
    change s.recv n = _ at h
    rcases Sock.recv_cases n s with ⟨_, h'⟩ | ⟨rest, hr, h'⟩ | ⟨_, _, h'⟩ | ⟨rest, hr, h'⟩ | ⟨_, rest, hr, _, h'⟩ | ⟨k, rest, hr, _, h'⟩
      <;> rw [h'] at h <;> simp at h
    · subst h; rfl

theorem BSock.recv_cases (n : Nat) (b : BSock) :
    (b.readBuf ≠ [] ∧ b.recv n = (.data (b.readBuf.take n), { b with readBuf := b.readBuf.drop n })) ∨
    (b.readBuf = [] ∧ ∃ d i, b.inner.recv (max 4096 n) = (.data d, i) ∧
        b.recv n = (.data (d.take n), { b with inner := i, readBuf := d.drop n })) ∨
    (b.readBuf = [] ∧ ∃ r i, b.inner.recv (max 4096 n) = (r, i) ∧ (∀ d, r ≠ .data d) ∧
        b.recv n = (r, { b with inner := i })) := by
  unfold BSock.recv
  by_cases hb : b.readBuf = []
  · simp only [hb, List.isEmpty_nil, if_true]
    generalize hr : b.inner.recv (max 4096 n) = r
    obtain ⟨res, i⟩ := r
    cases res with
    | data d => right; left; exact ⟨trivial, d, i, rfl, by simp⟩
    | wouldBlock => right; right; exact ⟨trivial, _, i, rfl, by simp, rfl⟩
    | error => right; right; exact ⟨trivial, _, i, rfl, by simp, rfl⟩
    | exhausted => right; right; exact ⟨trivial, _, i, rfl, by simp, rfl⟩
  · left
    simp [hb]

def BSock.upstream (b : BSock) : Bytes := b.readBuf ++ b.inner.stream

instance : LawfulDev BSock where
  upstream := BSock.upstream
  recv_data := by
    intro n b b' r h
    change b.recv n = _ at h
    rcases BSock.recv_cases n b with ⟨hne, h'⟩ | ⟨he, d, i, hi, h'⟩ | ⟨he, r', i, hi, hnd, h'⟩
    · rw [h'] at h; simp at h
      obtain ⟨rfl, rfl⟩ := h
      refine ⟨by simp; omega, ?_, by simp [Dev.budgetR]⟩
      simp [BSock.upstream, ← List.append_assoc]
    · rw [h'] at h; simp at h
      obtain ⟨rfl, rfl⟩ := h
      have ⟨_, hu, hbud⟩ := LawfulDev.recv_data (σ := Sock) _ _ _ _ hi
      refine ⟨by simp; omega, ?_, hbud⟩
      simp only [BSock.upstream, he, List.nil_append]
      change b.inner.stream = _ ++ (_ ++ i.stream)
      change b.inner.stream = d ++ i.stream at hu
      rw [hu, ← List.append_assoc, List.take_append_drop]
    · rw [h'] at h; simp at h
      exact absurd h.1 (hnd r)
  recv_wb := by
    intro n b b' h
    change b.recv n = _ at h
    rcases BSock.recv_cases n b with ⟨hne, h'⟩ | ⟨he, d, i, hi, h'⟩ | ⟨he, r', i, hi, hnd, h'⟩
      <;> rw [h'] at h <;> simp at h
    obtain ⟨rfl, rfl⟩ := h
    have ⟨hu, hbud⟩ := LawfulDev.recv_wb (σ := Sock) _ _ _ hi
    refine ⟨?_, hbud⟩
    change b.readBuf ++ i.stream = b.readBuf ++ b.inner.stream
    change i.stream = b.inner.stream at hu
    rw [hu]
  recv_err := by
    intro n b b' h
    change b.recv n = _ at h
    rcases BSock.recv_cases n b with ⟨hne, h'⟩ | ⟨he, d, i, hi, h'⟩ | ⟨he, r', i, hi, hnd, h'⟩
      <;> rw [h'] at h <;> simp at h
    obtain ⟨rfl, rfl⟩ := h
    have hu := LawfulDev.recv_err (σ := Sock) _ _ _ hi
    change b.readBuf ++ i.stream = b.readBuf ++ b.inner.stream
    change i.stream = b.inner.stream at hu
    rw [hu]
  recv_exh := by
    intro n b b' h
    change b.recv n = _ at h
    rcases BSock.recv_cases n b with ⟨hne, h'⟩ | ⟨he, d, i, hi, h'⟩ | ⟨he, r', i, hi, hnd, h'⟩
      <;> rw [h'] at h <;> simp at h
    obtain ⟨rfl, rfl⟩ := h
    have hu := LawfulDev.recv_exh (σ := Sock) _ _ _ hi
    change b.readBuf ++ i.stream = b.readBuf ++ b.inner.stream
    change i.stream = b.inner.stream at hu
    rw [hu]

/-- all values yielded are `v` -/
def AllYield {σ α : Type} (o : Out σ α) (v : Nat) : Prop := ∀ y ∈ o.yields, y = v

theorem sockRecvAll_spec {σ : Type} [Dev σ] [LawfulDev σ] (n : Nat) (s : σ) :
    let o := sockRecvAll n s
    AllYield o 0 ∧ o.res ≠ .fuelOut ∧
    (∃ t, upstream s = t ++ upstream o.dev ∧ ∀ r, o.res = .ok r → r = t ∧ r.length = n) := by
  unfold sockRecvAll
  by_cases hn : n = 0
  · subst hn
    simp [AllYield]
  · have hn' : (n == 0) = false := by simp [hn]
    simp only [hn', Bool.false_eq_true, if_false]
    have ⟨h1, ⟨t, ht, h2⟩, h3⟩ := recvAllLoop_spec n (Dev.budgetR s + n + 1) [] s (by simp; omega)
    refine ⟨h1, h3 (by simp), t, ht, ?_⟩
    intro r hr
    have := h2 r hr
    simpa using this

/-- the result, when there is one, is the next n bytes of the stream; the rest stays -/
theorem sockRecvAll_ok {σ : Type} [Dev σ] [LawfulDev σ] (n : Nat) (s : σ) (r : Bytes)
    (h : (sockRecvAll n s).res = .ok r) :
    n ≤ (upstream s).length ∧ r = (upstream s).take n ∧
      upstream (sockRecvAll n s).dev = (upstream s).drop n := by
  have ⟨_, _, t, ht, h2⟩ := sockRecvAll_spec n s
  have ⟨h3, h4⟩ := h2 r h
  subst h3
  rw [ht]
  refine ⟨by simp; omega, ?_, ?_⟩
  · rw [← h4]; simp
  · rw [← h4]; simp

/-- progress law: `credit s` bytes are guaranteed to arrive without a fault -/
class LiveDev (σ : Type) [Dev σ] [LawfulDev σ] where
  credit : σ → Nat
  recv_live : ∀ (n : Nat) (s : σ), 1 ≤ n → 1 ≤ credit s →
    (∃ s', Dev.recv n s = (.wouldBlock, s') ∧ credit s ≤ credit s') ∨
    (∃ b s', Dev.recv n s = (.data b, s') ∧ b ≠ [] ∧ credit s ≤ credit s' + b.length)

theorem recvAllLoop_live {σ : Type} [Dev σ] [LawfulDev σ] [LiveDev σ] (length : Nat) :
    ∀ (fuel : Nat) (buf : Bytes) (s : σ), buf.length < length →
      length - buf.length ≤ LiveDev.credit s →
      Dev.budgetR s + (length - buf.length) < fuel →
      let o := recvAllLoop length fuel buf s
      (∃ r, o.res = .ok r) ∧ LiveDev.credit s ≤ LiveDev.credit o.dev + (length - buf.length) := by
  intro fuel
  induction fuel with
  | zero => intro buf s hb hc hf; omega
  | succ fuel ih =>
    intro buf s hb hc hf
    simp only [recvAllLoop]
    rcases LiveDev.recv_live (length - buf.length) s (by omega) (by omega) with
      ⟨s', hr, hcr⟩ | ⟨b, s', hr, hne, hcr⟩
    · rw [hr]
      have ⟨_, hbud⟩ := recv_wb _ _ _ hr
      have := ih buf s' hb (by omega) (by omega)
      simp only
      exact ⟨this.1, by omega⟩
    · rw [hr]
      have ⟨hlen, hu, hbud⟩ := recv_data _ _ _ _ hr
      have h0 : b.length ≠ 0 := by
        intro h; exact hne (List.length_eq_zero_iff.mp h)
      simp only [h0, beq_iff_eq, if_false]
      by_cases hfull : (buf ++ b).length = length
      · simp only [hfull, if_true]
        refine ⟨⟨_, rfl⟩, ?_⟩
        simp at hfull
        omega
      · simp only [hfull, if_false]
        have hb' : (buf ++ b).length < length := by simp at hfull ⊢; omega
        have := ih (buf ++ b) s' hb' (by simp at hb' ⊢; omega) (by simp at hb' ⊢; omega)
        refine ⟨this.1, ?_⟩
        have h2 := this.2
        simp at h2 hb' ⊢
        omega

/-- liveness: if `n` bytes are guaranteed to arrive, `_sockRecvAll(n)` completes -/
theorem sockRecvAll_live {σ : Type} [Dev σ] [LawfulDev σ] [LiveDev σ] (n : Nat) (s : σ)
    (h : n ≤ LiveDev.credit s) :
    (sockRecvAll n s).res = .ok ((upstream s).take n) ∧
      LiveDev.credit s ≤ LiveDev.credit (sockRecvAll n s).dev + n := by
  have key : (∃ r, (sockRecvAll n s).res = .ok r) ∧
      LiveDev.credit s ≤ LiveDev.credit (sockRecvAll n s).dev + n := by
    unfold sockRecvAll
    by_cases hn : n = 0
    · subst hn; simp
    · have hn' : (n == 0) = false := by simp [hn]
      simp only [hn', Bool.false_eq_true, if_false]
      have := recvAllLoop_live n (Dev.budgetR s + n + 1) [] s (by simp; omega) (by simpa using h) (by simp)
      simpa using this
  obtain ⟨⟨r, hr⟩, hc⟩ := key
  refine ⟨?_, hc⟩
  rw [hr, (sockRecvAll_ok n s r hr).2.1]

/-- fault-free schedule: only deliveries of k ≥ 1 bytes and would-blocks -/
def REv.clean : REv → Bool
  | .chunk k => decide (1 ≤ k)
  | .wb => true
  | _ => false

def cleanSched (l : List REv) : Bool := l.all REv.clean

def REv.isChunk : REv → Bool
  | .chunk _ => true
  | _ => false

/-- number of delivery events -/
def chunks (l : List REv) : Nat := l.countP REv.isChunk

def Sock.credit (s : Sock) : Nat :=
  if cleanSched s.rsched then min (chunks s.rsched) s.stream.length else 0

@[simp] theorem cleanSched_cons (e : REv) (l : List REv) :
    cleanSched (e :: l) = (e.clean && cleanSched l) := by simp [cleanSched]

@[simp] theorem chunks_cons (e : REv) (l : List REv) :
    chunks (e :: l) = chunks l + (if e.isChunk then 1 else 0) := by
  simp [chunks, List.countP_cons]

@[simp] theorem chunks_nil : chunks [] = 0 := rfl

instance : LiveDev Sock where
  credit := Sock.credit
  recv_live := by
    intro n s hn hc
    change (∃ s', s.recv n = _ ∧ _) ∨ ∃ b s', s.recv n = _ ∧ _
    unfold Sock.credit at hc
    by_cases hcl : cleanSched s.rsched = true
    · simp only [hcl, if_true] at hc
      rcases Sock.recv_cases n s with ⟨hr, h'⟩ | ⟨rest, hr, h'⟩ | ⟨rest, hr, h'⟩ | ⟨rest, hr, h'⟩ | ⟨k, rest, hr, hs, h'⟩ | ⟨k, rest, hr, hs, h'⟩
      · rw [hr] at hc; simp at hc
      · left
        refine ⟨_, h', ?_⟩
        rw [hr] at hcl
        simp [REv.clean] at hcl
        simp [Sock.credit, hr, hcl, REv.clean, REv.isChunk]
      · rw [hr] at hcl; simp [REv.clean] at hcl
      · rw [hr] at hcl; simp [REv.clean] at hcl
      · simp [hs] at hc
      · right
        rw [hr] at hcl hc
        simp [REv.clean, REv.isChunk] at hcl hc
        have hne : s.stream.length ≠ 0 := by
          intro h; exact hs (List.length_eq_zero_iff.mp h)
        refine ⟨_, _, h', ?_, ?_⟩
        · intro h
          have := congrArg List.length h
          rw [List.length_take, List.length_nil] at this
          omega
        · simp [Sock.credit, hr, hcl, REv.clean, REv.isChunk]
          omega
    · simp [hcl] at hc

def BSock.credit (b : BSock) : Nat := b.readBuf.length + b.inner.credit

instance : LiveDev BSock where
  credit := BSock.credit
  recv_live := by
    intro n b hn hc
    change (∃ s', b.recv n = _ ∧ _) ∨ ∃ r s', b.recv n = _ ∧ _
    rcases BSock.recv_cases n b with ⟨hne, h'⟩ | ⟨he, d, i, hi, h'⟩ | ⟨he, r', i, hi, hnd, h'⟩
    · right
      refine ⟨_, _, h', ?_, ?_⟩
      · intro h
        have := congrArg List.length h
        rw [List.length_take, List.length_nil] at this
        have : b.readBuf.length ≠ 0 := fun h => hne (List.length_eq_zero_iff.mp h)
        omega
      · simp [BSock.credit]; omega
    · have hci : 1 ≤ b.inner.credit := by simpa [BSock.credit, he] using hc
      rcases LiveDev.recv_live (σ := Sock) (max 4096 n) b.inner (by omega) hci with
        ⟨s', hr, hcr⟩ | ⟨d', s', hr, hne, hcr⟩
      · change b.inner.recv _ = _ at hr
        rw [hr] at hi; simp at hi
      · change b.inner.recv _ = _ at hr
        rw [hr] at hi; simp at hi
        obtain ⟨rfl, rfl⟩ := hi
        right
        refine ⟨_, _, h', ?_, ?_⟩
        · intro h
          have := congrArg List.length h
          rw [List.length_take, List.length_nil] at this
          have : d'.length ≠ 0 := fun h => hne (List.length_eq_zero_iff.mp h)
          omega
        · change b.inner.credit ≤ s'.credit + d'.length at hcr
          simp [BSock.credit, he]; omega
    · have hci : 1 ≤ b.inner.credit := by simpa [BSock.credit, he] using hc
      rcases LiveDev.recv_live (σ := Sock) (max 4096 n) b.inner (by omega) hci with
        ⟨s', hr, hcr⟩ | ⟨d', s', hr, hne, hcr⟩
      · change b.inner.recv _ = _ at hr
        rw [hr] at hi; simp at hi
        obtain ⟨rfl, rfl⟩ := hi
        left
        refine ⟨_, h', ?_⟩
        change b.inner.credit ≤ s'.credit at hcr
        simp [BSock.credit]; omega
      · change b.inner.recv _ = _ at hr
        rw [hr] at hi; simp at hi
        exact absurd hi.1.symm (hnd d')

/-! ## send side -/

/-- a device whose send side records, in order, exactly the bytes it accepted.
    `inv` is the discipline under which that holds (BufferedSocket: unbuffered sends only
    with an empty write queue, which `_sendMsgs` / `_sendError` maintain by flushing first). -/
class LawfulSend (σ : Type) [Dev σ] where
  written : σ → Bytes
  inv : σ → Prop
  send_inv : ∀ (data : Bytes) (s s' : σ) (r : SendRes), inv s → Dev.send data s = (r, s') → inv s'
  send_sent : ∀ (data : Bytes) (s s' : σ) (k : Nat), inv s → Dev.send data s = (.sent k, s') →
    k ≤ data.length ∧ written s' = written s ++ data.take k ∧
      (k = data.length ∧ Dev.budgetS s' ≤ Dev.budgetS s ∨ Dev.budgetS s' < Dev.budgetS s)
  send_wb : ∀ (data : Bytes) (s s' : σ), inv s → Dev.send data s = (.wouldBlock, s') →
    written s' = written s ∧ Dev.budgetS s' < Dev.budgetS s
  send_err : ∀ (data : Bytes) (s s' : σ), inv s → Dev.send data s = (.error, s') → written s' = written s
  send_exh : ∀ (data : Bytes) (s s' : σ), inv s → Dev.send data s = (.exhausted, s') → written s' = written s

open LawfulSend

theorem sendAllLoop_spec {σ : Type} [Dev σ] [LawfulSend σ] :
    ∀ (fuel : Nat) (data : Bytes) (s : σ), inv s →
      let o := sendAllLoop fuel data s
      AllYield o 1 ∧ inv o.dev ∧
      (∃ k, k ≤ data.length ∧ written o.dev = written s ++ data.take k ∧
        (o.res = .ok () → k = data.length)) ∧
      (Dev.budgetS s < fuel → o.res ≠ .fuelOut) := by
  intro fuel
  induction fuel with
  | zero =>
    intro data s hi
    simp [sendAllLoop, AllYield]
    exact ⟨hi, 0, by simp⟩
  | succ fuel ih =>
    intro data s hi
    simp only [sendAllLoop]
    generalize hr : Dev.send data s = r
    obtain ⟨res, s'⟩ := r
    have hi' := send_inv _ _ _ _ hi hr
    cases res with
    | wouldBlock =>
      have ⟨hw, hbud⟩ := send_wb _ _ _ hi hr
      have ⟨h1, hi2, ⟨k, hk, hw2, hok⟩, h3⟩ := ih data s' hi'
      simp only
      refine ⟨?_, hi2, ⟨k, hk, by rw [← hw]; exact hw2, hok⟩, fun hf => h3 (by omega)⟩
      intro y hy
      simp at hy
      rcases hy with rfl | hy
      · rfl
      · exact h1 y hy
    | error =>
      have hw := send_err _ _ _ hi hr
      simp [AllYield]
      exact ⟨hi', 0, by simp [hw]⟩
    | exhausted =>
      have hw := send_exh _ _ _ hi hr
      simp [AllYield]
      exact ⟨hi', 0, by simp [hw]⟩
    | sent k =>
      have ⟨hk, hw, hbud⟩ := send_sent _ _ _ _ hi hr
      simp only
      by_cases hfull : k = data.length
      · simp only [hfull, beq_self_eq_true, if_true]
        refine ⟨by simp [AllYield], hi', ⟨data.length, Nat.le_refl _, by rw [hw, hfull], fun _ => rfl⟩, by simp⟩
      · have hne : (k == data.length) = false := by simp [hfull]
        simp only [hne, Bool.false_eq_true, if_false]
        have ⟨h1, hi2, ⟨j, hj, hw2, hok⟩, h3⟩ := ih (data.drop k) s' hi'
        refine ⟨?_, hi2, ⟨k + j, ?_, ?_, ?_⟩, ?_⟩
        · intro y hy
          simp at hy
          rcases hy with rfl | hy
          · rfl
          · exact h1 y hy
        · simp at hj; omega
        · rw [hw2, hw, List.append_assoc, List.take_add]
        · intro h
          have := hok h
          simp at this
          omega
        · intro hf
          apply h3
          rcases hbud with ⟨h, _⟩ | h
          · exact absurd h hfull
          · omega

theorem Sock.send_cases (data : Bytes) (s : Sock) :
    (s.ssched = [] ∧ s.send data = (.exhausted, s)) ∨
    (∃ rest, s.ssched = .wb :: rest ∧ s.send data = (.wouldBlock, { s with ssched := rest })) ∨
    (∃ rest, s.ssched = .err :: rest ∧ s.send data = (.error, { s with ssched := rest })) ∨
    (∃ k rest, s.ssched = .accept k :: rest ∧
        s.send data = (.sent (min k data.length),
          { s with sent := s.sent ++ data.take (min k data.length), ssched := rest })) := by
  unfold Sock.send
  cases h : s.ssched with
  | nil => simp
  | cons e rest =>
    cases e with
    | wb => simp
    | err => simp
    | accept k => right; right; right; exact ⟨k, rest, rfl, by simp⟩

instance : LawfulSend Sock where
  written s := s.sent
  inv _ := True
  send_inv := by intros; trivial
  send_sent := by
    intro data s s' k _ h
    change s.send data = _ at h
    rcases Sock.send_cases data s with ⟨_, h'⟩ | ⟨_, _, h'⟩ | ⟨_, _, h'⟩ | ⟨j, rest, hr, h'⟩
      <;> rw [h'] at h <;> simp at h
    obtain ⟨rfl, rfl⟩ := h
    refine ⟨by omega, rfl, Or.inr ?_⟩
    simp [Dev.budgetS, hr]
  send_wb := by
    intro data s s' _ h
    change s.send data = _ at h
    rcases Sock.send_cases data s with ⟨_, h'⟩ | ⟨rest, hr, h'⟩ | ⟨_, _, h'⟩ | ⟨j, rest, hr, h'⟩
      <;> rw [h'] at h <;> simp at h
    subst h
    simp [Dev.budgetS, hr]
  send_err := by
    intro data s s' _ h
    change s.send data = _ at h
    rcases Sock.send_cases data s with ⟨_, h'⟩ | ⟨rest, hr, h'⟩ | ⟨_, _, h'⟩ | ⟨j, rest, hr, h'⟩
      <;> rw [h'] at h <;> simp at h
    subst h; rfl
  send_exh := by
    intro data s s' _ h
    change s.send data = _ at h
    rcases Sock.send_cases data s with ⟨_, h'⟩ | ⟨rest, hr, h'⟩ | ⟨_, _, h'⟩ | ⟨j, rest, hr, h'⟩
      <;> rw [h'] at h <;> simp at h
    subst h; rfl

/-- everything accepted from above, in order: what reached the raw socket, then the write queue -/
def BSock.written (b : BSock) : Bytes := b.inner.sent ++ b.writeQueue.flatten

/-- the discipline of `_sendMsgs` / `_sendError`: unbuffered sends only with an empty queue -/
def BSock.WInv (b : BSock) : Prop := b.bufferWrites = false → b.writeQueue = []

instance : LawfulSend BSock where
  written := BSock.written
  inv := BSock.WInv
  send_inv := by
    intro data b b' r hi h
    change b.send data = _ at h
    unfold BSock.send at h
    by_cases hb : b.bufferWrites = true
    · simp [hb] at h
      obtain ⟨_, rfl⟩ := h
      intro hf; simp at hf
    · simp [hb] at h
      obtain ⟨_, rfl⟩ := h
      intro _
      exact hi (by simpa using hb)
  send_sent := by
    intro data b b' k hi h
    change b.send data = _ at h
    unfold BSock.send at h
    by_cases hb : b.bufferWrites = true
    · simp [hb] at h
      obtain ⟨rfl, rfl⟩ := h
      refine ⟨Nat.le_refl _, ?_, Or.inl ⟨rfl, Nat.le_refl _⟩⟩
      simp [BSock.written]
    · simp [hb] at h
      obtain ⟨h1, rfl⟩ := h
      have hq := hi (by simpa using hb)
      have ⟨hk, hw, hbud⟩ := LawfulSend.send_sent (σ := Sock) data b.inner (b.inner.send data).2 k trivial
        (by rw [← h1]; rfl)
      refine ⟨hk, ?_, hbud⟩
      change (b.inner.send data).2.sent = b.inner.sent ++ _ at hw
      simp [BSock.written, hq, hw]
  send_wb := by
    intro data b b' hi h
    change b.send data = _ at h
    unfold BSock.send at h
    by_cases hb : b.bufferWrites = true
    · simp [hb] at h
    · simp [hb] at h
      obtain ⟨h1, rfl⟩ := h
      have ⟨hw, hbud⟩ := LawfulSend.send_wb (σ := Sock) data b.inner (b.inner.send data).2 trivial
        (by rw [← h1]; rfl)
      refine ⟨?_, hbud⟩
      change (b.inner.send data).2.sent = b.inner.sent at hw
      simp [BSock.written, hw]
  send_err := by
    intro data b b' hi h
    change b.send data = _ at h
    unfold BSock.send at h
    by_cases hb : b.bufferWrites = true
    · simp [hb] at h
    · simp [hb] at h
      obtain ⟨h1, rfl⟩ := h
      have hw := LawfulSend.send_err (σ := Sock) data b.inner (b.inner.send data).2 trivial
        (by rw [← h1]; rfl)
      change (b.inner.send data).2.sent = b.inner.sent at hw
      simp [BSock.written, hw]
  send_exh := by
    intro data b b' hi h
    change b.send data = _ at h
    unfold BSock.send at h
    by_cases hb : b.bufferWrites = true
    · simp [hb] at h
    · simp [hb] at h
      obtain ⟨h1, rfl⟩ := h
      have hw := LawfulSend.send_exh (σ := Sock) data b.inner (b.inner.send data).2 trivial
        (by rw [← h1]; rfl)
      change (b.inner.send data).2.sent = b.inner.sent at hw
      simp [BSock.written, hw]

/-- progress law for the send side: `scredit s` accepts of at least one byte are guaranteed -/
class LiveSend (σ : Type) [Dev σ] [LawfulSend σ] where
  scredit : σ → Nat
  send_live : ∀ (data : Bytes) (s : σ), inv s → 1 ≤ scredit s →
    (∃ s', Dev.send data s = (.wouldBlock, s') ∧ scredit s ≤ scredit s') ∨
    (∃ k s', Dev.send data s = (.sent k, s') ∧
      (k = data.length ∨ (1 ≤ k ∧ scredit s ≤ scredit s' + 1)))

theorem sendAllLoop_live {σ : Type} [Dev σ] [LawfulSend σ] [LiveSend σ] :
    ∀ (fuel : Nat) (data : Bytes) (s : σ), inv s →
      1 ≤ LiveSend.scredit s → data.length ≤ LiveSend.scredit s → Dev.budgetS s < fuel →
      (sendAllLoop fuel data s).res = .ok () := by
  intro fuel
  induction fuel with
  | zero => intro data s hi h1 hc hf; omega
  | succ fuel ih =>
    intro data s hi h1 hc hf
    simp only [sendAllLoop]
    rcases LiveSend.send_live data s hi h1 with ⟨s', hr, hcr⟩ | ⟨k, s', hr, hk⟩
    · rw [hr]
      have ⟨_, hbud⟩ := send_wb _ _ _ hi hr
      exact ih data s' (send_inv _ _ _ _ hi hr) (by omega) (by omega) (by omega)
    · rw [hr]
      have ⟨hkl, _, hbud⟩ := send_sent _ _ _ _ hi hr
      simp only
      by_cases hfull : k = data.length
      · simp [hfull]
      · have hne : (k == data.length) = false := by simp [hfull]
        simp only [hne, Bool.false_eq_true, if_false]
        rcases hk with hk | ⟨hk1, hcr⟩
        · exact absurd hk hfull
        · rcases hbud with ⟨h, _⟩ | hbud
          · exact absurd h hfull
          · exact ih (data.drop k) s' (send_inv _ _ _ _ hi hr) (by omega) (by simp; omega) (by omega)

def SEv.clean : SEv → Bool
  | .accept k => decide (1 ≤ k)
  | .wb => true
  | .err => false

def SEv.isAccept : SEv → Bool
  | .accept _ => true
  | _ => false

def cleanSSched (l : List SEv) : Bool := l.all SEv.clean
def accepts (l : List SEv) : Nat := l.countP SEv.isAccept

@[simp] theorem cleanSSched_cons (e : SEv) (l : List SEv) :
    cleanSSched (e :: l) = (e.clean && cleanSSched l) := by simp [cleanSSched]

@[simp] theorem accepts_cons (e : SEv) (l : List SEv) :
    accepts (e :: l) = accepts l + (if e.isAccept then 1 else 0) := by
  simp [accepts, List.countP_cons]

@[simp] theorem accepts_nil : accepts [] = 0 := rfl

def Sock.scredit (s : Sock) : Nat := if cleanSSched s.ssched then accepts s.ssched else 0

instance : LiveSend Sock where
  scredit := Sock.scredit
  send_live := by
    intro data s _ hc
    change (∃ s', s.send data = _ ∧ _) ∨ ∃ k s', s.send data = _ ∧ _
    unfold Sock.scredit at hc
    by_cases hcl : cleanSSched s.ssched = true
    · simp only [hcl, if_true] at hc
      rcases Sock.send_cases data s with ⟨hr, h'⟩ | ⟨rest, hr, h'⟩ | ⟨rest, hr, h'⟩ | ⟨k, rest, hr, h'⟩
      · rw [hr] at hc; simp at hc
      · left
        refine ⟨_, h', ?_⟩
        rw [hr] at hcl
        simp [SEv.clean] at hcl
        simp [Sock.scredit, hr, hcl, SEv.clean, SEv.isAccept]
      · rw [hr] at hcl; simp [SEv.clean] at hcl
      · right
        rw [hr] at hcl
        simp [SEv.clean] at hcl
        refine ⟨_, _, h', ?_⟩
        by_cases hd : min k data.length = data.length
        · left; exact hd
        · right
          refine ⟨by omega, ?_⟩
          simp [Sock.scredit, hr, hcl, SEv.clean, SEv.isAccept]
    · simp [hcl] at hc

instance : LiveSend BSock where
  scredit b := b.inner.scredit
  send_live := by
    intro data b _ hc
    change (∃ s', b.send data = _ ∧ _) ∨ ∃ k s', b.send data = _ ∧ _
    unfold BSock.send
    by_cases hb : b.bufferWrites = true
    · right
      simp only [hb, if_true]
      exact ⟨_, _, rfl, Or.inl rfl⟩
    · simp only [hb, Bool.false_eq_true, if_false]
      rcases LiveSend.send_live (σ := Sock) data b.inner trivial hc with ⟨s', hr, hcr⟩ | ⟨k, s', hr, hk⟩
      · change b.inner.send data = _ at hr
        left
        rw [hr]
        exact ⟨_, rfl, hcr⟩
      · change b.inner.send data = _ at hr
        right
        rw [hr]
        exact ⟨_, _, rfl, hk⟩

/-! ## BufferedSocket transparency -/

/-- a sequence of `recv(n)` calls; returns the concatenation of what they returned -/
def recvMany {σ : Type} [Dev σ] : List Nat → σ → Bytes × σ
  | [], s => ([], s)
  | n :: ns, s =>
    match Dev.recv n s with
    | (.data b, s') => let (rest, s'') := recvMany ns s'; (b ++ rest, s'')
    | (_, s') => recvMany ns s'

theorem recvMany_stream {σ : Type} [Dev σ] [LawfulDev σ] :
    ∀ (ns : List Nat) (s : σ), (recvMany ns s).1 ++ upstream (recvMany ns s).2 = upstream s := by
  intro ns
  induction ns with
  | nil => intro s; simp [recvMany]
  | cons n ns ih =>
    intro s
    simp only [recvMany]
    generalize hr : Dev.recv n s = r
    obtain ⟨res, s'⟩ := r
    cases res with
    | data b =>
      have ⟨_, hu, _⟩ := recv_data _ _ _ _ hr
      simp only
      rw [hu, List.append_assoc, ih s']
    | wouldBlock => have ⟨hu, _⟩ := recv_wb _ _ _ hr; simp only; rw [ih s', hu]
    | error => have hu := recv_err _ _ _ hr; simp only; rw [ih s', hu]
    | exhausted => have hu := recv_exh _ _ _ hr; simp only; rw [ih s', hu]

theorem foldl_append_flatten (q : List Bytes) (acc : Bytes) :
    q.foldl (fun acc i => acc ++ i) acc = acc ++ q.flatten := by
  induction q generalizing acc with
  | nil => simp
  | cons x q ih => simp [ih]

/-- after flush() everything accepted so far is on the wire, in order, and the queue is empty -/
theorem BSock.flush_spec (b : BSock) :
    b.flush.writeQueue = [] ∧ b.flush.inner.sent = b.written ∧ b.flush.written = b.written ∧
      b.flush.bufferWrites = b.bufferWrites ∧ b.flush.readBuf = b.readBuf := by
  unfold BSock.flush
  simp only [foldl_append_flatten, List.nil_append]
  by_cases h : b.writeQueue.flatten = []
  · simp [h, BSock.written]
  · simp [h, BSock.written, Sock.sendall]

/-- operations on the write side of a BufferedSocket -/
inductive WOp where
  | send (d : Bytes)
  | sendall (d : Bytes)
  | flush
  | setBuffer (v : Bool)

/-- one operation: new state and the bytes this call accepted from its caller -/
def BSock.wstep (b : BSock) : WOp → BSock × Bytes
  | .send d =>
    match b.send d with
    | (.sent k, b') => (b', d.take k)
    | (_, b') => (b', [])
  | .sendall d => (b.sendall d, d)
  | .flush => (b.flush, [])
  | .setBuffer v => ({ b with bufferWrites := v }, [])

def BSock.wrun (b : BSock) : List WOp → BSock × Bytes
  | [] => (b, [])
  | op :: ops =>
    let (b', a) := b.wstep op
    let (b'', a') := b'.wrun ops
    (b'', a ++ a')

/-- the callers' discipline: buffering is switched off only right after a flush (empty queue) -/
def Disciplined (b : BSock) : List WOp → Prop
  | [] => True
  | op :: ops =>
    (match op with
     | .setBuffer false => b.writeQueue = []
     | _ => True) ∧ Disciplined (b.wstep op).1 ops

theorem BSock.wstep_spec (b : BSock) (op : WOp) (hi : b.WInv)
    (hd : match op with | .setBuffer false => b.writeQueue = [] | _ => True) :
    (b.wstep op).1.WInv ∧ (b.wstep op).1.written = b.written ++ (b.wstep op).2 := by
  cases op with
  | send d =>
    simp only [BSock.wstep]
    generalize hr : b.send d = r
    obtain ⟨res, b'⟩ := r
    have hi' := LawfulSend.send_inv (σ := BSock) d b b' res hi hr
    cases res with
    | sent k =>
      have ⟨_, hw, _⟩ := LawfulSend.send_sent (σ := BSock) d b b' k hi hr
      exact ⟨hi', hw⟩
    | wouldBlock =>
      have ⟨hw, _⟩ := LawfulSend.send_wb (σ := BSock) d b b' hi hr
      exact ⟨hi', by simp only [List.append_nil]; exact hw⟩
    | error =>
      have hw := LawfulSend.send_err (σ := BSock) d b b' hi hr
      exact ⟨hi', by simp only [List.append_nil]; exact hw⟩
    | exhausted =>
      have hw := LawfulSend.send_exh (σ := BSock) d b b' hi hr
      exact ⟨hi', by simp only [List.append_nil]; exact hw⟩
  | sendall d =>
    simp only [BSock.wstep, BSock.sendall]
    by_cases hb : b.bufferWrites = true
    · simp only [hb, if_true]
      refine ⟨fun hf => by simp at hf, by simp [BSock.written]⟩
    · simp only [hb, Bool.false_eq_true, if_false]
      have hq := hi (by simpa using hb)
      refine ⟨fun _ => hq, by simp [BSock.written, hq, Sock.sendall]⟩
  | flush =>
    simp only [BSock.wstep]
    have ⟨h1, _, h3, _, _⟩ := b.flush_spec
    exact ⟨fun _ => h1, by simpa using h3⟩
  | setBuffer v =>
    simp only [BSock.wstep]
    cases v with
    | true => exact ⟨fun hf => by simp at hf, by simp [BSock.written]⟩
    | false => exact ⟨fun _ => hd, by simp [BSock.written]⟩

theorem BSock.wrun_spec : ∀ (ops : List WOp) (b : BSock), b.WInv → Disciplined b ops →
    (b.wrun ops).1.WInv ∧ (b.wrun ops).1.written = b.written ++ (b.wrun ops).2 := by
  intro ops
  induction ops with
  | nil => intro b hi _; simp [BSock.wrun, hi]
  | cons op ops ih =>
    intro b hi hd
    have ⟨h1, h2⟩ := b.wstep_spec op hi hd.1
    have ⟨h3, h4⟩ := ih (b.wstep op).1 h1 hd.2
    simp only [BSock.wrun]
    exact ⟨h3, by rw [h4, h2, List.append_assoc]⟩

/-! ## record reads = a pure parser of the byte stream -/

/-- result of a pure parser over the whole byte stream ("the socket delivers everything at once") -/
inductive PRes (α : Type) where
  | ok (a : α) (rest : Bytes)
  | more                        -- the stream is too short to decide
  | fail (e : Exc)

def PRes.bind {α β : Type} (p : PRes α) (f : α → Bytes → PRes β) : PRes β :=
  match p with
  | .ok a rest => f a rest
  | .more => .more
  | .fail e => .fail e

def takeN (n : Nat) (S : Bytes) : PRes Bytes :=
  if S.length < n then .more else .ok (S.take n) (S.drop n)

def resP {α : Type} (r : Res α) (rest : Bytes) : PRes α :=
  match r with
  | .ok a => .ok a rest
  | .exc e => .fail e
  | _ => .more

/-- the record header as a function of the stream -/
def headerP (S : Bytes) : PRes Header :=
  (takeN 1 S).bind fun buf S1 =>
    match buf with
    | [] => .fail .indexError
    | b0 :: _ => (takeN (headerRest b0) S1).bind fun r2 S2 => resP (parseHeader (buf ++ r2)) S2

/-- one record as a function of the stream -/
def recordP (cfg : RSCfg) (S : Bytes) : PRes (Header × Bytes) :=
  (headerP S).bind fun h S1 =>
    if h.length > cfg.recvRecordLimit + 1024 + 1024 then .fail .recordOverflow
    else if cfg.tls13record && h.length > cfg.recvRecordLimit + 256 then .fail .recordOverflow
    else (takeN h.length S1).bind fun b S2 => .ok (h, b) S2

/-- `o` (run from device state `s`) computes what the pure parser result `p` says about the
    upstream of `s`, up to transport faults (EOF / socket error) and unfinished schedules -/
def Implements {σ α : Type} [Dev σ] [LawfulDev σ] (o : Out σ α) (s : σ) (p : PRes α) : Prop :=
  AllYield o 0 ∧ o.res ≠ .fuelOut ∧
  (∃ t, upstream s = t ++ upstream o.dev) ∧
  (∀ a, o.res = .ok a → p = .ok a (upstream o.dev)) ∧
  (∀ e, o.res = .exc e → e = .abruptClose ∨ e = .socketError ∨ p = .fail e)

theorem recvAllLoop_exc {σ : Type} [Dev σ] (length : Nat) :
    ∀ (fuel : Nat) (buf : Bytes) (s : σ) (e : Exc),
      (recvAllLoop length fuel buf s).res = .exc e → e = .abruptClose ∨ e = .socketError := by
  intro fuel
  induction fuel with
  | zero => intro buf s e h; simp [recvAllLoop] at h
  | succ fuel ih =>
    intro buf s e h
    simp only [recvAllLoop] at h
    generalize hr : Dev.recv (length - buf.length) s = r at h
    obtain ⟨res, s'⟩ := r
    cases res with
    | wouldBlock => exact ih _ _ _ h
    | error => simp at h; exact Or.inr h.symm
    | exhausted => simp at h
    | data b =>
      simp only at h
      by_cases h0 : b.length = 0
      · simp [h0] at h; exact Or.inl h.symm
      · simp only [h0, beq_iff_eq, if_false] at h
        by_cases hfull : (buf ++ b).length = length
        · simp [hfull] at h
        · simp only [hfull, if_false] at h
          exact ih _ _ _ h

theorem sockRecvAll_implements {σ : Type} [Dev σ] [LawfulDev σ] (n : Nat) (s : σ) :
    Implements (sockRecvAll n s) s (takeN n (upstream s)) := by
  have ⟨h1, h2, t, ht, h3⟩ := sockRecvAll_spec n s
  refine ⟨h1, h2, ⟨t, ht⟩, ?_, ?_⟩
  · intro r hr
    have ⟨hl, hr1, hr2⟩ := sockRecvAll_ok n s r hr
    simp [takeN, hr1, hr2]
    omega
  · intro e he
    unfold sockRecvAll at he
    by_cases hn : n = 0
    · simp [hn] at he
    · have hn' : (n == 0) = false := by simp [hn]
      simp only [hn', Bool.false_eq_true, if_false] at he
      rcases recvAllLoop_exc _ _ _ _ _ he with h | h
      · exact Or.inl h
      · exact Or.inr (Or.inl h)

theorem Implements.bind {σ α β : Type} [Dev σ] [LawfulDev σ] {o : Out σ α} {s : σ} {p : PRes α}
    {f : α → σ → Out σ β} {g : α → Bytes → PRes β}
    (h : Implements o s p)
    (hf : ∀ a, o.res = .ok a → Implements (f a o.dev) o.dev (g a (upstream o.dev))) :
    Implements (o.bind f) s (p.bind g) := by
  obtain ⟨h1, h2, ⟨t, ht⟩, h4, h5⟩ := h
  unfold Out.bind
  cases hres : o.res with
  | ok a =>
    obtain ⟨g1, g2, ⟨t', ht'⟩, g4, g5⟩ := hf a hres
    have hp := h4 a hres
    simp only
    refine ⟨?_, g2, ⟨t ++ t', by rw [ht, ht', List.append_assoc]⟩, ?_, ?_⟩
    · intro y hy
      simp at hy
      rcases hy with hy | hy
      · exact h1 y hy
      · exact g1 y hy
    · intro b hb; rw [hp]; exact g4 b hb
    · intro e he; rw [hp]; exact g5 e he
  | exc e =>
    simp only
    refine ⟨h1, by simp, ⟨t, ht⟩, by simp, ?_⟩
    intro e' he'
    simp at he'
    subst he'
    rcases h5 e hres with h | h | h
    · exact Or.inl h
    · exact Or.inr (Or.inl h)
    · exact Or.inr (Or.inr (by rw [h]; rfl))
  | pending => exact ⟨h1, by simp, ⟨t, ht⟩, by simp, by simp⟩
  | fuelOut => exact absurd hres h2

theorem implements_pure {σ α : Type} [Dev σ] [LawfulDev σ] (s : σ) (r : Res α)
    (hr : (∃ a, r = .ok a) ∨ ∃ e, r = .exc e) :
    Implements (⟨[], r, s⟩ : Out σ α) s (resP r (upstream s)) := by
  refine ⟨by simp [AllYield], ?_, ⟨[], by simp⟩, ?_, ?_⟩
  · rcases hr with ⟨a, rfl⟩ | ⟨e, rfl⟩ <;> simp
  · intro a ha; simp at ha; subst ha; rfl
  · intro e he; simp at he; subst he; exact Or.inr (Or.inr rfl)

theorem parseHeader_total (buf : Bytes) :
    (∃ a, parseHeader buf = .ok a) ∨ ∃ e, parseHeader buf = .exc e := by
  unfold parseHeader
  split
  · exact Or.inr ⟨_, rfl⟩
  · split
    · split
      · exact Or.inr ⟨_, rfl⟩
      · exact Or.inl ⟨_, rfl⟩
    · split
      · exact Or.inr ⟨_, rfl⟩
      · split
        · exact Or.inr ⟨_, rfl⟩
        · exact Or.inl ⟨_, rfl⟩

theorem recvHeader_implements {σ : Type} [Dev σ] [LawfulDev σ] (s : σ) :
    Implements (recvHeader s) s (headerP (upstream s)) := by
  unfold recvHeader headerP
  apply Implements.bind (sockRecvAll_implements 1 s)
  intro buf _
  cases buf with
  | nil => exact implements_pure _ (.exc .indexError) (Or.inr ⟨_, rfl⟩)
  | cons b0 tl =>
    apply Implements.bind (sockRecvAll_implements _ _)
    intro r2 _
    exact implements_pure _ _ (parseHeader_total _)

theorem recordRecv_implements {σ : Type} [Dev σ] [LawfulDev σ] (cfg : RSCfg) (s : σ) :
    Implements (recordRecv cfg s) s (recordP cfg (upstream s)) := by
  unfold recordRecv recordP
  apply Implements.bind (recvHeader_implements s)
  intro h _
  split
  · exact implements_pure _ (.exc .recordOverflow) (Or.inr ⟨_, rfl⟩)
  · split
    · exact implements_pure _ (.exc .recordOverflow) (Or.inr ⟨_, rfl⟩)
    · apply Implements.bind (sockRecvAll_implements _ _)
      intro b _
      exact implements_pure _ (.ok (h, b)) (Or.inl ⟨_, rfl⟩)

/-! ### liveness of composed readers -/

/-- a pure parser only consumes a prefix -/
def PSuffix {α : Type} (p : PRes α) (S : Bytes) : Prop :=
  ∀ a rest, p = .ok a rest → ∃ t, S = t ++ rest

theorem takeN_suffix (n : Nat) (S : Bytes) : PSuffix (takeN n S) S := by
  intro a rest h
  unfold takeN at h
  split at h
  · simp at h
  · simp at h
    exact ⟨S.take n, by rw [← h.2]; simp⟩

theorem PSuffix.bind {α β : Type} {p : PRes α} {S : Bytes} {g : α → Bytes → PRes β}
    (h : PSuffix p S) (hg : ∀ a rest, p = .ok a rest → PSuffix (g a rest) rest) :
    PSuffix (p.bind g) S := by
  intro b rest2 hb
  cases hp : p with
  | ok a rest1 =>
    rw [hp] at hb
    obtain ⟨t1, ht1⟩ := h a rest1 hp
    obtain ⟨t2, ht2⟩ := hg a rest1 hp b rest2 hb
    exact ⟨t1 ++ t2, by rw [ht1, ht2, List.append_assoc]⟩
  | more => rw [hp] at hb; simp [PRes.bind] at hb
  | fail e => rw [hp] at hb; simp [PRes.bind] at hb

theorem resP_suffix {α : Type} (r : Res α) (S : Bytes) : PSuffix (resP r S) S := by
  intro a rest h
  cases r <;> simp [resP] at h
  exact ⟨[], by simp [h.2]⟩

theorem headerP_suffix (S : Bytes) : PSuffix (headerP S) S := by
  unfold headerP
  apply PSuffix.bind (takeN_suffix 1 S)
  intro buf S1 _
  cases buf with
  | nil => intro a rest h; simp at h
  | cons b0 tl =>
    apply PSuffix.bind (takeN_suffix _ _)
    intro r2 S2 _
    exact resP_suffix _ _

def Live {σ α : Type} [Dev σ] [LawfulDev σ] [LiveDev σ] (o : Out σ α) (s : σ) (p : PRes α) : Prop :=
  ∀ a rest, p = .ok a rest → (upstream s).length - rest.length ≤ LiveDev.credit s →
    o.res = .ok a ∧ LiveDev.credit s ≤ LiveDev.credit o.dev + ((upstream s).length - rest.length)

theorem sockRecvAll_liveP {σ : Type} [Dev σ] [LawfulDev σ] [LiveDev σ] (n : Nat) (s : σ) :
    Live (sockRecvAll n s) s (takeN n (upstream s)) := by
  intro a rest hp hc
  unfold takeN at hp
  split at hp
  · simp at hp
  · rename_i hlen
    simp at hp
    obtain ⟨rfl, rfl⟩ := hp
    have hcons : (upstream s).length - ((upstream s).drop n).length = n := by
      simp; omega
    rw [hcons] at hc ⊢
    exact sockRecvAll_live n s hc

theorem Live.bind {σ α β : Type} [Dev σ] [LawfulDev σ] [LiveDev σ] {o : Out σ α} {s : σ}
    {p : PRes α} {f : α → σ → Out σ β} {g : α → Bytes → PRes β}
    (hi : Implements o s p) (hl : Live o s p) (hs : PSuffix p (upstream s))
    (hgs : ∀ a rest, p = .ok a rest → PSuffix (g a rest) rest)
    (hf : ∀ a, o.res = .ok a → Live (f a o.dev) o.dev (g a (upstream o.dev))) :
    Live (o.bind f) s (p.bind g) := by
  intro b rest2 hb hc
  cases hp : p with
  | more => rw [hp] at hb; simp [PRes.bind] at hb
  | fail e => rw [hp] at hb; simp [PRes.bind] at hb
  | ok a rest1 =>
    rw [hp] at hb
    change g a rest1 = .ok b rest2 at hb
    obtain ⟨t1, ht1⟩ := hs a rest1 hp
    obtain ⟨t2, ht2⟩ := hgs a rest1 hp b rest2 hb
    have hlen1 : (upstream s).length = t1.length + rest1.length := by rw [ht1]; simp
    have hlen2 : rest1.length = t2.length + rest2.length := by rw [ht2]; simp
    have ⟨hres, hcr⟩ := hl a rest1 hp (by omega)
    have hup : upstream o.dev = rest1 := by
      have := hi.2.2.2.1 a hres
      rw [hp] at this
      simp at this
      exact this.symm
    have h2 := hf a hres b rest2 (by rw [hup]; exact hb) (by rw [hup]; omega)
    unfold Out.bind
    rw [hres]
    simp only
    refine ⟨h2.1, ?_⟩
    have := h2.2
    rw [hup] at this
    omega

theorem recvHeader_live {σ : Type} [Dev σ] [LawfulDev σ] [LiveDev σ] (s : σ) :
    Live (recvHeader s) s (headerP (upstream s)) := by
  unfold recvHeader headerP
  apply Live.bind (sockRecvAll_implements 1 s) (sockRecvAll_liveP 1 s) (takeN_suffix _ _)
  · intro buf S1 _
    cases buf with
    | nil => intro a rest h; simp at h
    | cons b0 tl =>
      apply PSuffix.bind (takeN_suffix _ _)
      intro r2 S2 _
      exact resP_suffix _ _
  · intro buf _
    cases buf with
    | nil => intro a rest h; simp at h
    | cons b0 tl =>
      apply Live.bind (sockRecvAll_implements _ _) (sockRecvAll_liveP _ _) (takeN_suffix _ _)
      · intro r2 S2 _; exact resP_suffix _ _
      · intro r2 _ a rest hp hc
        cases hph : parseHeader (b0 :: tl ++ r2) with
        | ok h =>
          rw [hph] at hp
          simp [resP] at hp
          obtain ⟨rfl, rfl⟩ := hp
          simp
        | exc e => rw [hph] at hp; simp [resP] at hp
        | pending => rw [hph] at hp; simp [resP] at hp
        | fuelOut => rw [hph] at hp; simp [resP] at hp

theorem recordRecv_live {σ : Type} [Dev σ] [LawfulDev σ] [LiveDev σ] (cfg : RSCfg) (s : σ) :
    Live (recordRecv cfg s) s (recordP cfg (upstream s)) := by
  unfold recordRecv recordP
  apply Live.bind (recvHeader_implements s) (recvHeader_live s) (headerP_suffix _)
  · intro h S1 _
    split
    · intro a rest hp; simp at hp
    · split
      · intro a rest hp; simp at hp
      · apply PSuffix.bind (takeN_suffix _ _)
        intro b S2 _ a rest hp
        simp at hp
        exact ⟨[], by simp [hp.2]⟩
  · intro h _
    split
    · intro a rest hp; simp at hp
    · split
      · intro a rest hp; simp at hp
      · apply Live.bind (sockRecvAll_implements _ _) (sockRecvAll_liveP _ _) (takeN_suffix _ _)
        · intro b S2 _ a rest hp
          simp at hp
          exact ⟨[], by simp [hp.2]⟩
        · intro b _ a rest hp hc
          simp at hp
          obtain ⟨rfl, rfl⟩ := hp
          simp


/-! ## _getNextRecord over a device / the alert peek of `_sendMsgThroughSocket` -/

def recvRecordNullP (cfg : RSCfg) (S : Bytes) : PRes Rec :=
  (recordP cfg S).bind fun hb S' =>
    resP (if hb.2.length > cfg.recvRecordLimit then .exc .recordOverflow
          else .ok { type := hb.1.type, ssl2 := hb.1.ssl2, data := hb.2 }) S'

/-- what `_getNextRecord` delivers first, as a function of the defragmenter and the byte stream -/
def nextMsgP (cfg : RSCfg) (tls13 : Bool) : Nat → Defrag → Bytes → PRes (GOut × Defrag)
  | 0, _, _ => .more
  | fuel + 1, d, S =>
    match d.getMessage with
    | .error e => .fail e
    | .ok (some (t, m), d') => .ok (.msg t m, d') S
    | .ok (none, d') =>
      (recvRecordNullP cfg S).bind fun r S' =>
        match fromSocketCheck r with
        | .error e => .fail e
        | .ok r =>
          if r.type == 23 || (tls13 && r.type == 20) || r.type == 24 || r.ssl2 then
            .ok (.record r, d') S'
          else
            match d'.addData r.type r.data with
            | .error e => .fail e
            | .ok d'' => nextMsgP cfg tls13 fuel d'' S'

def alertPeekP (cfg : RSCfg) (tls13 : Bool) (fuel : Nat) (d : Defrag) (S : Bytes) : PRes PeekRes :=
  (nextMsgP cfg tls13 fuel d S).bind fun gd S' => resP (peekResult gd.1) S'

theorem recvRecordNull_implements {σ : Type} [Dev σ] [LawfulDev σ] (cfg : RSCfg) (s : σ) :
    Implements (recvRecordNull cfg s) s (recvRecordNullP cfg (upstream s)) := by
  unfold recvRecordNull recvRecordNullP
  apply Implements.bind (recordRecv_implements cfg s)
  intro hb _
  split
  · exact implements_pure _ (.exc .recordOverflow) (Or.inr ⟨_, rfl⟩)
  · exact implements_pure _ (.ok _) (Or.inl ⟨_, rfl⟩)

theorem implements_exc {σ α : Type} [Dev σ] [LawfulDev σ] (s : σ) (e : Exc) :
    Implements (⟨[], .exc e, s⟩ : Out σ α) s (.fail e) :=
  implements_pure s (.exc e) (Or.inr ⟨_, rfl⟩)

theorem implements_ok {σ α : Type} [Dev σ] [LawfulDev σ] (s : σ) (a : α) :
    Implements (⟨[], .ok a, s⟩ : Out σ α) s (.ok a (upstream s)) :=
  implements_pure s (.ok a) (Or.inl ⟨_, rfl⟩)

theorem nextMsgDev_implements {σ : Type} [Dev σ] [LawfulDev σ] (cfg : RSCfg) (tls13 : Bool) :
    ∀ (fuel : Nat) (d : Defrag) (s : σ),
      Implements (nextMsgDev cfg tls13 fuel d s) s (nextMsgP cfg tls13 fuel d (upstream s)) := by
  intro fuel
  induction fuel with
  | zero =>
    intro d s
    exact ⟨by simp [nextMsgDev, AllYield], by simp [nextMsgDev], ⟨[], by simp [nextMsgDev]⟩,
      by simp [nextMsgDev], by simp [nextMsgDev]⟩
  | succ fuel ih =>
    intro d s
    simp only [nextMsgDev, nextMsgP]
    cases hg : d.getMessage with
    | error e => exact implements_exc s e
    | ok v =>
      obtain ⟨o, d'⟩ := v
      cases o with
      | some tm => obtain ⟨t, m⟩ := tm; exact implements_ok s _
      | none =>
        simp only
        apply Implements.bind (recvRecordNull_implements cfg s)
        intro r _
        cases hc : fromSocketCheck r with
        | error e => exact implements_exc _ e
        | ok r' =>
          simp only
          split
          · exact implements_ok _ _
          · cases ha : d'.addData r'.type r'.data with
            | error e => exact implements_exc _ e
            | ok d'' => exact ih d'' _

theorem peekResult_total (g : GOut) :
    (∃ a, peekResult g = .ok a) ∨ ∃ e, peekResult g = .exc e := by
  unfold peekResult
  split
  · exact Or.inl ⟨_, rfl⟩
  · exact Or.inr ⟨_, rfl⟩
  · exact Or.inl ⟨_, rfl⟩

theorem alertPeek_implements {σ : Type} [Dev σ] [LawfulDev σ] (cfg : RSCfg) (tls13 : Bool)
    (fuel : Nat) (d : Defrag) (s : σ) :
    Implements (alertPeek cfg tls13 fuel d s) s (alertPeekP cfg tls13 fuel d (upstream s)) := by
  unfold alertPeek alertPeekP
  apply Implements.bind (nextMsgDev_implements cfg tls13 fuel d s)
  intro gd _
  exact implements_pure _ _ (peekResult_total _)

/-! ## top-level statements for `_sockSendAll` -/

theorem sockSendAll_spec {σ : Type} [Dev σ] [LawfulSend σ] (data : Bytes) (s : σ)
    (hi : LawfulSend.inv s) :
    let o := sockSendAll data s
    AllYield o 1 ∧ LawfulSend.inv o.dev ∧ o.res ≠ .fuelOut ∧
    (∃ k, k ≤ data.length ∧ LawfulSend.written o.dev = LawfulSend.written s ++ data.take k ∧
      (o.res = .ok () → k = data.length)) := by
  have ⟨h1, h2, h3, h4⟩ := sendAllLoop_spec (Dev.budgetS s + 1) data s hi
  exact ⟨h1, h2, h4 (by omega), h3⟩

theorem sendAllLoop_exc {σ : Type} [Dev σ] :
    ∀ (fuel : Nat) (data : Bytes) (s : σ) (e : Exc),
      (sendAllLoop fuel data s).res = .exc e → e = .socketError := by
  intro fuel
  induction fuel with
  | zero => intro data s e h; simp [sendAllLoop] at h
  | succ fuel ih =>
    intro data s e h
    simp only [sendAllLoop] at h
    generalize hr : Dev.send data s = r at h
    obtain ⟨res, s'⟩ := r
    cases res with
    | wouldBlock => exact ih _ _ _ h
    | error => simp at h; exact h.symm
    | exhausted => simp at h
    | sent k =>
      simp only at h
      by_cases hfull : k = data.length
      · simp [hfull] at h
      · have hne : (k == data.length) = false := by simp [hfull]
        simp only [hne, Bool.false_eq_true, if_false] at h
        exact ih _ _ _ h

theorem sockSendAll_live {σ : Type} [Dev σ] [LawfulSend σ] [LiveSend σ] (data : Bytes) (s : σ)
    (hi : LawfulSend.inv s) (h1 : 1 ≤ LiveSend.scredit s) (hc : data.length ≤ LiveSend.scredit s) :
    (sockSendAll data s).res = .ok () :=
  sendAllLoop_live (Dev.budgetS s + 1) data s hi h1 hc (by omega)

end Tls.IO
