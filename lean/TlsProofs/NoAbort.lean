import TlsProofs.Compat
/-
  "… otherwise the handshake fails with an alert": in the model no exception escapes (`Outcome.abort` is
  never the result) for a server that was given credentials.  Core Lean only.
-/
set_option linter.unusedSimpArgs false
namespace Tls.Neg
open Tls.Gen.Neg

/-- the outcome is not an escaped exception -/
def NoAbort {α} (x : Outcome α) : Prop := ∀ s d, x ≠ .abort s d

theorem noAbort_ok {α} (a : α) : NoAbort (Outcome.ok a) := fun _ _ h => by cases h
theorem noAbort_pure {α} (a : α) : NoAbort (pure a : Outcome α) := fun _ _ h => by cases h
theorem noAbort_alert {α} (s : Side) (d : String) : NoAbort (Outcome.alert s d : Outcome α) := fun _ _ h => by cases h
theorem noAbort_failIf (c : Bool) (s : Side) (d : String) : NoAbort (failIf c s d) := by
  unfold failIf; split
  · exact noAbort_alert _ _
  · exact noAbort_ok _

theorem noAbort_bind {α β} {x : Outcome α} {f : α → Outcome β} (hx : NoAbort x)
    (hf : ∀ a, x = .ok a → NoAbort (f a)) : NoAbort (x >>= f) := by
  cases x with
  | ok a => exact hf a rfl
  | alert s d => exact noAbort_alert s d
  | abort s d => exact absurd rfl (hx s d)

/-- the handshake function itself demands credentials (ValueError before any message otherwise) -/
def serverHasCredentials (ss : Settings) (sc : ServerCfg) : Bool :=
  sc.hasDB || sc.cred.isSome || sc.anon || !ss.pskConfigs.isEmpty

theorem noAbort_serverSanity13 (o : Offer) : NoAbort (serverSanity13 o) := by
  unfold serverSanity13
  split
  · split
    · simp only []
      split
      · split
        · exact noAbort_alert _ _
        · exact noAbort_bind (noAbort_failIf _ _ _) fun _ _ =>
            noAbort_bind (noAbort_failIf _ _ _) fun _ _ =>
            noAbort_bind (noAbort_failIf _ _ _) fun _ _ => noAbort_failIf _ _ _
      · exact noAbort_pure _
    · exact noAbort_pure _
  · exact noAbort_pure _

theorem noAbort_pickVersion (ss : Settings) (o : Offer) : NoAbort (pickVersion ss o) := by
  unfold pickVersion
  split
  · split
    · exact noAbort_pure _
    · exact noAbort_alert _ _
  · split <;> exact noAbort_pure _

theorem noAbort_serverVersion (ss : Settings) (o : Offer) : NoAbort (serverVersion ss o) := by
  unfold serverVersion
  exact noAbort_bind (noAbort_failIf _ _ _) fun _ _ =>
    noAbort_bind (noAbort_serverSanity13 o) fun _ _ => noAbort_pickVersion ss o

theorem noAbort_serverSuites {ss : Settings} {sc : ServerCfg} (o : Offer) (v : Nat)
    (h : serverHasCredentials ss sc = true) : NoAbort (serverSuites ss sc o v) := by
  unfold serverHasCredentials at h
  unfold serverSuites
  cases hgi : groupIntersect ss o v with
  | mk ec ff =>
    simp only []
    by_cases h1 : sc.hasDB = true
    · simp only [h1, if_true]; exact noAbort_ok _
    · by_cases h2 : sc.cred.isSome = true
      · simp only [h1, h2, if_true, if_false]; exact noAbort_ok _
      · by_cases h3 : sc.anon = true
        · simp only [h1, h2, h3, if_true, if_false]; exact noAbort_ok _
        · have h4 : (!ss.pskConfigs.isEmpty) = true := by
            simp only [Bool.or_eq_true] at h
            rcases h with ((h | h) | h) | h
            · exact absurd h h1
            · exact absurd h h2
            · exact absurd h h3
            · exact h
          simp only [h1, h2, h3, h4, if_true, if_false]; exact noAbort_ok _

theorem noAbort_checkServerCurve (sc : ServerCfg) (o : Offer) (v : Nat) : NoAbort (checkServerCurve sc o v) := by
  unfold checkServerCurve
  split
  · split
    · exact noAbort_bind (noAbort_failIf _ _ _) fun _ _ => noAbort_failIf _ _ _
    · exact noAbort_pure _
  · exact noAbort_pure _

theorem noAbort_selectCertificate (ss : Settings) (sc : ServerCfg) (o : Offer) (l : List Nat) (v : Nat) :
    NoAbort (selectCertificate ss sc o l v) := by
  unfold selectCertificate
  split
  · split <;> exact noAbort_alert _ _
  · split
    · exact noAbort_alert _ _
    · exact noAbort_bind (noAbort_checkServerCurve _ _ _) fun _ _ => noAbort_pure _

theorem noAbort_tls13Group (ss : Settings) (o : Offer) : NoAbort (tls13Group ss o) := by
  unfold tls13Group
  split
  · exact noAbort_alert _ _
  · split
    · exact noAbort_pure _
    · exact noAbort_alert _ _

theorem noAbort_serverSelect13 (ss : Settings) (sc : ServerCfg) (o : Offer) (v s sig : Nat) :
    NoAbort (serverSelect13 ss sc o v s sig) := by
  simp only [serverSelect13]
  refine noAbort_bind (noAbort_tls13Group ss o) fun _ _ => noAbort_bind (noAbort_failIf _ _ _) fun _ _ => ?_
  split
  · exact noAbort_alert _ _
  · exact noAbort_pure _

theorem noAbort_dhSelect (ss : Settings) (sc : ServerCfg) (o : Offer) (s : Nat) : NoAbort (dhSelect ss sc o s) := by
  unfold dhSelect
  simp only []
  split
  · split
    · split
      · split
        · exact noAbort_ok _
        · split
          · exact noAbort_alert _ _
          · exact noAbort_ok _
      · exact noAbort_ok _
    · exact noAbort_ok _
  · split
    · split
      · exact noAbort_alert _ _
      · exact noAbort_ok _
    · exact noAbort_ok _

theorem noAbort_ecSelect (ss : Settings) (o : Offer) (v s : Nat) : NoAbort (ecSelect ss o v s) := by
  unfold ecSelect
  split
  · simp only []
    split
    · exact noAbort_ok _
    · exact noAbort_alert _ _
  · exact noAbort_ok _

theorem noAbort_serverSelect12 {ss : Settings} {sc : ServerCfg} {o : Offer} {v s sig : Nat}
    (hEd : (decide (v < 3) && ((sc.cred.map (·.certAlg)).getD "" == "Ed25519" || (sc.cred.map (·.certAlg)).getD "" == "Ed448")) = false)
    (hclass : (srpAllSuites.contains s || isCertKxSuite s || isAnonSuite s) = true) :
    NoAbort (serverSelect12 ss sc o v s sig) := by
  simp only [serverSelect12]
  refine noAbort_bind (noAbort_failIf _ _ _) fun _ _ => noAbort_bind (noAbort_failIf _ _ _) fun _ _ =>
    noAbort_bind (noAbort_dhSelect _ _ _ _) fun _ _ => noAbort_bind (noAbort_ecSelect _ _ _ _) fun _ _ => ?_
  split
  · rename_i hc
    exfalso
    simp only [Bool.and_eq_true] at hc
    have : (decide (v < 3) && ((sc.cred.map (·.certAlg)).getD "" == "Ed25519" || (sc.cred.map (·.certAlg)).getD "" == "Ed448")) = true := by
      simp only [Bool.and_eq_true]; exact ⟨hc.1.2, hc.2⟩
    rw [hEd] at this; cases this
  · split
    · exact noAbort_alert _ _
    · split
      · rename_i hc
        exfalso
        rw [hclass] at hc; cases hc
      · exact noAbort_pure _

/-- an EdDSA key below TLS 1.2 serves no suite: the selection fails before anything is signed -/
theorem selectCertificate_notEd {ss : Settings} {sc : ServerCfg} {o : Offer} {l : List Nat} {v : Nat} {r : Nat × Nat}
    (h : selectCertificate ss sc o l v = .ok r) :
    (decide (v < 3) && ((sc.cred.map (·.certAlg)).getD "" == "Ed25519" || (sc.cred.map (·.certAlg)).getD "" == "Ed448")) = false := by
  cases hcond : (decide (v < 3) && ((sc.cred.map (·.certAlg)).getD "" == "Ed25519" || (sc.cred.map (·.certAlg)).getD "" == "Ed448")) with
  | false => rfl
  | true =>
    exfalso
    simp only [Bool.and_eq_true] at hcond
    have hu : certUsable l sc.cred v = [] := by
      unfold certUsable
      cases hc : sc.cred with
      | none => rw [hc] at hcond; simp at hcond
      | some c =>
        rw [hc] at hcond
        simp only [Option.map_some, Option.getD_some] at hcond
        simp only [Option.any_some, hcond.1, hcond.2, Bool.and_self, if_true]
    unfold selectCertificate at h
    rw [hu] at h
    have hp : prfFiltered ss o v sc.cred [] = [] := by
      have hf : ∀ prfs, filterForPrfs [] prfs = [] := fun prfs => by unfold filterForPrfs; rfl
      unfold prfFiltered
      rw [hf]
      split
      · rfl
      · split <;> rfl
    rw [hp] at h
    simp only [List.find?_nil] at h
    split at h <;> cases h

def classTablesOk : Bool :=
  (srpCertSuites ++ srpSuites).all srpAllSuites.contains

theorem classTablesOk_holds : classTablesOk = true := by decide

/-- below TLS 1.3 every suite of the server's list belongs to a key-exchange family the code handles -/
theorem serverSuites_class {ss : Settings} {sc : ServerCfg} {o : Offer} {v : Nat} {l : List Nat}
    (h : serverSuites ss sc o v = .ok l) (hv : v ≤ 3) :
    ∀ s ∈ l, (srpAllSuites.contains s || isCertKxSuite s || isAnonSuite s) = true := by
  intro s hs
  have ht := familyTablesOk_holds
  unfold familyTablesOk at ht
  simp only [Bool.and_eq_true, List.all_eq_true] at ht
  obtain ⟨⟨⟨⟨_, _⟩, _⟩, _⟩, t5⟩ := ht
  have hc := classTablesOk_holds
  unfold classTablesOk at hc
  simp only [List.all_eq_true] at hc
  -- not a TLS 1.3 suite
  have hnot13 : ∀ l0, s ∈ filterForVersion l0 v → tls13Suites.contains s = false := by
    intro l0 hm
    have hver := (mem_filterForVersion_iff.mp hm).2
    have hin : s ∈ ssl3Suites ++ tls12Suites := by
      simp only [hv, if_true, List.mem_append] at hver
      rcases hver with (h | h) | h
      · exact List.mem_append_left _ h
      · split at h
        · exact List.mem_append_right _ h
        · cases h
      · have : ¬ v > 3 := by omega
        simp only [this, if_false] at h; cases h
    simpa using t5 s hin
  have not13 : ∀ {st : Settings}, s ∈ filterSuites tls13Suites st v → tls13Suites.contains s = false → False := by
    intro st hm hn
    have := List.contains_iff_mem.mpr (mem_filterSuites_sub hm)
    rw [hn] at this; cases this
  unfold serverSuites at h
  cases hgi : groupIntersect ss o v with
  | mk ec ff =>
    simp only [hgi] at h
    by_cases h1 : sc.hasDB = true
    · simp only [h1, if_true] at h
      injection h with h; subst h
      have hn := hnot13 _ hs
      have hm := (mem_filterForVersion_iff.mp hs).1
      simp only [List.mem_append] at hm
      have : srpAllSuites.contains s = true := by
        rcases hm with hm | hm
        · split at hm
          · exact hc s (List.mem_append_left _ (mem_filterSuites_sub hm))
          · cases hm
        · exact hc s (List.mem_append_right _ (mem_filterSuites_sub hm))
      rw [this]; rfl
    · by_cases h2 : sc.cred.isSome = true
      · simp only [h1, h2, if_true, if_false] at h
        injection h with h; subst h
        have hn := hnot13 _ hs
        have hm := (mem_filterForVersion_iff.mp hs).1
        simp only [List.mem_append] at hm
        have : isCertKxSuite s = true := by
          unfold isCertKxSuite
          simp only [Bool.or_eq_true, List.contains_iff_mem]
          rcases hm with ((hm | hm) | hm) | hm
          · split at hm
            · exact absurd hn (fun hn => not13 hm hn)
            · cases hm
          · split at hm
            · simp only [List.mem_append] at hm
              rcases hm with hm | hm
              · exact Or.inr (mem_filterSuites_sub hm)
              · exact Or.inl (Or.inr (mem_filterSuites_sub hm))
            · cases hm
          · split at hm
            · simp only [List.mem_append] at hm
              rcases hm with hm | hm
              · exact Or.inl (Or.inl (Or.inl (Or.inr (mem_filterSuites_sub hm))))
              · exact Or.inl (Or.inl (Or.inr (mem_filterSuites_sub hm)))
            · cases hm
          · exact Or.inl (Or.inl (Or.inl (Or.inl (mem_filterSuites_sub hm))))
        rw [this]; simp
      · by_cases h3 : sc.anon = true
        · simp only [h1, h2, h3, if_true, if_false] at h
          injection h with h; subst h
          have hm := (mem_filterForVersion_iff.mp hs).1
          simp only [List.mem_append] at hm
          have : isAnonSuite s = true := by
            unfold isAnonSuite
            simp only [Bool.or_eq_true, List.contains_iff_mem]
            rcases hm with hm | hm
            · exact Or.inl (mem_filterSuites_sub hm)
            · exact Or.inr (mem_filterSuites_sub hm)
          rw [this]; simp
        · simp only [h1, h2, h3, if_false] at h
          by_cases h4 : (!ss.pskConfigs.isEmpty) = true
          · simp only [h4, if_true] at h
            injection h with h; subst h
            have hn := hnot13 _ hs
            exact absurd hn (fun hn => not13 (mem_filterForVersion_iff.mp hs).1 hn)
          · simp only [h4, if_false] at h
            cases h

theorem noAbort_serverSelect {ss : Settings} {sc : ServerCfg} (o : Offer)
    (h : serverHasCredentials ss sc = true) : NoAbort (serverSelect ss sc o) := by
  unfold serverSelect
  refine noAbort_bind (noAbort_serverVersion ss o) fun v _ => noAbort_bind (noAbort_failIf _ _ _) fun _ _ =>
    noAbort_bind (noAbort_failIf _ _ _) fun _ _ => noAbort_bind (noAbort_serverSuites o v h) fun l hl =>
    noAbort_bind (noAbort_selectCertificate ss sc o l v) fun r hr => ?_
  split
  · exact noAbort_serverSelect13 _ _ _ _ _ _
  · rename_i hv
    exact noAbort_serverSelect12 (selectCertificate_notEd hr)
      (serverSuites_class hl (by omega) r.1 (selectCertificate_ok hr).1)

theorem noAbort_checkCertChain (st : Settings) (side : Side) (c : Cred) (v : Nat) : NoAbort (checkCertChain st side c v) := by
  unfold checkCertChain
  split
  · exact noAbort_bind (noAbort_failIf _ _ _) fun _ _ => noAbort_bind (noAbort_failIf _ _ _) fun _ _ => noAbort_failIf _ _ _
  · split
    · exact noAbort_bind (noAbort_failIf _ _ _) fun _ _ => noAbort_failIf _ _ _
    · exact noAbort_bind (noAbort_failIf _ _ _) fun _ _ => noAbort_failIf _ _ _

theorem noAbort_clientCheckHello (cs : Settings) (o : Offer) (sel : Selection) : NoAbort (clientCheckHello cs o sel) := by
  simp only [clientCheckHello]
  exact noAbort_bind (noAbort_failIf _ _ _) fun _ _ => noAbort_bind (noAbort_failIf _ _ _) fun _ _ => noAbort_failIf _ _ _

theorem noAbort_clientCheckServerCert (cs : Settings) (sc : ServerCfg) (o : Offer) (sel : Selection) :
    NoAbort (clientCheckServerCert cs sc o sel) := by
  unfold clientCheckServerCert
  split
  · exact noAbort_bind (noAbort_checkCertChain _ _ _ _) fun _ _ =>
      noAbort_bind (noAbort_failIf _ _ _) fun _ _ => noAbort_failIf _ _ _
  · exact noAbort_pure _

theorem noAbort_clientSig13 (cs : Settings) (u : Option Cred) (sel : Selection) : NoAbort (clientSig13 cs u sel) := by
  unfold clientSig13
  split
  · split
    · exact noAbort_alert _ _
    · split
      · exact noAbort_ok _
      · exact noAbort_alert _ _
  · exact noAbort_ok _

theorem noAbort_clientAccept13 (cs : Settings) (cc : ClientCfg) (sc : ServerCfg) (o : Offer) (sel : Selection) :
    NoAbort (clientAccept13 cs cc sc o sel) := by
  simp only [clientAccept13]
  exact noAbort_bind (noAbort_failIf _ _ _) fun _ _ => noAbort_bind (noAbort_failIf _ _ _) fun _ _ =>
    noAbort_bind (noAbort_failIf _ _ _) fun _ _ => noAbort_bind (noAbort_clientCheckServerCert _ _ _ _) fun _ _ =>
    noAbort_bind (noAbort_clientSig13 _ _ _) fun _ _ => noAbort_bind (noAbort_failIf _ _ _) fun _ _ =>
    noAbort_bind (noAbort_failIf _ _ _) fun _ _ => noAbort_pure _

theorem noAbort_clientCheckDhSize (cs : Settings) (sel : Selection) : NoAbort (clientCheckDhSize cs sel) := by
  unfold clientCheckDhSize
  split
  · exact noAbort_bind (noAbort_failIf _ _ _) fun _ _ => noAbort_failIf _ _ _
  · exact noAbort_pure _

theorem noAbort_clientCheckCertReq (sel : Selection) : NoAbort (clientCheckCertReq sel) := by
  unfold clientCheckCertReq
  split
  · exact noAbort_failIf _ _ _
  · exact noAbort_pure _

theorem noAbort_clientCheckKex (cs : Settings) (sel : Selection) : NoAbort (clientCheckKex cs sel) := by
  unfold clientCheckKex
  split
  · exact noAbort_failIf _ _ _
  · split
    · exact noAbort_failIf _ _ _
    · split
      · exact noAbort_bind (noAbort_failIf _ _ _) fun _ _ => noAbort_bind (noAbort_failIf _ _ _) fun _ _ => noAbort_failIf _ _ _
      · exact noAbort_pure _

theorem noAbort_clientCheckOwnCert (cs : Settings) (u : Option Cred) (sel : Selection) :
    NoAbort (clientCheckOwnCert cs u sel) := by
  unfold clientCheckOwnCert
  split
  · exact noAbort_bind (noAbort_failIf _ _ _) fun _ _ => noAbort_failIf _ _ _
  · exact noAbort_pure _

/-- once the client has checked that its key can sign, making the CertificateVerify cannot fail -/
theorem noAbort_clientSig12 {cs : Settings} {u : Option Cred} {sel : Selection}
    (hown : clientCheckOwnCert cs u sel = .ok ()) (hv : sel.version ≤ 3) : NoAbort (clientSig12 cs u sel) := by
  unfold clientSig12
  cases u with
  | none => exact noAbort_ok _
  | some c =>
    cases hcr : sel.certReq with
    | none => exact noAbort_ok _
    | some algs =>
      simp only []
      unfold clientCheckOwnCert at hown
      simp only [failIf_bind_ok, failIf_eq_ok] at hown
      obtain ⟨h1, h2⟩ := hown
      rw [if_neg (by rw [h1]; simp)]
      unfold clientCertVerifySig
      have hge : ¬ sel.version ≥ 4 := by omega
      rw [if_neg hge]
      by_cases h3 : (sel.version == 3) = true
      · rw [if_pos h3]
        simp only [h3, Bool.true_and] at h2
        simp only []
        cases hfm : firstMatching (sigHashesToList cs (some c.keyBits) (some c) 3) algs with
        | some s => exact noAbort_ok _
        | none =>
          simp only []
          cases hl : sigHashesToList cs (some c.keyBits) (some c) 3 with
          | nil => rw [hl] at h2; simp at h2
          | cons a t => exact noAbort_ok _
      · rw [if_neg h3]; exact noAbort_ok _

theorem noAbort_clientAccept12 (cs : Settings) (cc : ClientCfg) (sc : ServerCfg) (o : Offer) (sel : Selection)
    (hv : sel.version ≤ 3) : NoAbort (clientAccept12 cs cc sc o sel) := by
  simp only [clientAccept12]
  exact noAbort_bind (noAbort_failIf _ _ _) fun _ _ => noAbort_bind (noAbort_failIf _ _ _) fun _ _ =>
    noAbort_bind (noAbort_failIf _ _ _) fun _ _ => noAbort_bind (noAbort_failIf _ _ _) fun _ _ =>
    noAbort_bind (noAbort_failIf _ _ _) fun _ _ => noAbort_bind (noAbort_failIf _ _ _) fun _ _ =>
    noAbort_bind (noAbort_clientCheckServerCert _ _ _ _) fun _ _ =>
    noAbort_bind (noAbort_clientCheckDhSize _ _) fun _ _ => noAbort_bind (noAbort_clientCheckCertReq _) fun _ _ =>
    noAbort_bind (noAbort_clientCheckOwnCert _ _ _) fun _ hown => noAbort_bind (noAbort_clientCheckKex _ _) fun _ _ =>
    noAbort_bind (noAbort_clientSig12 (by cases ‹Unit›; exact hown) hv) fun _ _ => noAbort_pure _

theorem noAbort_clientAccept (cs : Settings) (cc : ClientCfg) (sc : ServerCfg) (o : Offer) (sel : Selection) :
    NoAbort (clientAccept cs cc sc o sel) := by
  unfold clientAccept
  refine noAbort_bind (noAbort_clientCheckHello _ _ _) fun _ _ => ?_
  split
  · exact noAbort_clientAccept13 _ _ _ _ _
  · rename_i hv
    exact noAbort_clientAccept12 _ _ _ _ _ (by omega)

theorem noAbort_serverFinish (ss : Settings) (sel : Selection) (p : Params) : NoAbort (serverFinish ss sel p) := by
  unfold serverFinish
  split
  · exact noAbort_pure _
  · split
    · exact noAbort_bind (noAbort_failIf _ _ _) fun _ _ => noAbort_bind (noAbort_checkCertChain _ _ _ _) fun _ _ => noAbort_pure _
    · exact noAbort_bind (noAbort_failIf _ _ _) fun _ _ => noAbort_bind (noAbort_checkCertChain _ _ _ _) fun _ _ => noAbort_pure _

/-- no exception escapes: the result of the negotiation is a completed handshake or an alert -/
theorem negotiate_noAbort (cs ss : Settings) (cc : ClientCfg) (sc : ServerCfg)
    (h : serverHasCredentials ss sc = true) : NoAbort (negotiate cs ss cc sc) := by
  unfold negotiate
  exact noAbort_bind (noAbort_serverSelect _ h) fun sel _ =>
    noAbort_bind (noAbort_clientAccept _ _ _ _ _) fun p _ => noAbort_serverFinish _ _ _

end Tls.Neg
