import TlsProofs.AuthSites2
/-
  C05 helper lemmas, part 4: ServerKeyExchange signature (client side, TLS ≤ 1.2).
-/
namespace Tls.Auth
open Gen

theorem liftKV_ok (r : Except Reject Bool) (b : Bool) (h : liftKV r = .ok b) : r = .ok b := by
  unfold liftKV at h
  split at h
  · simp only [Except.ok.injEq] at h; subst h; rfl
  · cases h
  · cases h

theorem liftH_ok (r : Except Reject Bytes) (b : Bytes) (h : liftH r = .ok b) : r = .ok b := by
  unfold liftH at h
  split at h
  · simp only [Except.ok.injEq] at h; subst h; rfl
  · cases h
  · cases h

/-- hash, then key operation: the common tail of every branch -/
theorem ske_tail (C : Crypto) (ver : Nat) (fam : SuiteSig) (ske : SKE) (pk : Cert) (cr sr : Bytes)
    (m : Method) (a : VArgs) (g : Bytes → Bytes) (hg : EncFn C g)
    (h : (do
      let hb ← liftH (skeHash C ver fam ske cr sr)
      let ok ← liftKV (keyVerify C pk m ske.signature (g hb) a)
      if ok then pure () else throw SkeExc.decryptionFailed : Except SkeExc Unit) = .ok ()) :
    Proved C pk.key (cr ++ sr ++ ske.params) ske.signature := by
  simp only [bind, Except.bind, pure, Except.pure] at h
  cases hh : liftH (skeHash C ver fam ske cr sr) with
  | error e => simp [hh] at h
  | ok hb =>
    simp only [hh] at h
    cases hk : liftKV (keyVerify C pk m ske.signature (g hb) a) with
    | error e => simp [hk] at h
    | ok b =>
      simp only [hk] at h
      cases b with
      | false => simp [throw, throwThe, MonadExceptOf.throw] at h
      | true =>
        obtain ⟨f, hf, hbf⟩ := skeHash_enc C ver fam ske cr sr hb (liftH_ok _ _ hh)
        have hp := keyVerify_true C pk m ske.signature (g hb) a (liftKV_ok _ _ hk)
        rw [hbf] at hp
        exact Proved.of_enc hf (Proved.of_enc hg hp)


theorem tls12VerifySKE_ok (C : Crypto) (fam : SuiteSig) (ske : SKE) (pk : Cert) (cr sr : Bytes)
    (valid : List SchemeId) (h : tls12VerifySKE C fam ske pk cr sr valid = .ok ()) :
    (ske.hashAlg, ske.signAlg) ∈ valid ∧ Proved C pk.key (cr ++ sr ++ ske.params) ske.signature := by
  unfold tls12VerifySKE at h
  simp only [bind, Except.bind, pure, Except.pure] at h
  by_cases hmem : (ske.hashAlg, ske.signAlg) ∈ valid
  · refine ⟨hmem, ?_⟩
    simp only [hmem, not_true_eq_false, if_false] at h
    by_cases hed : isEddsaId (ske.hashAlg, ske.signAlg) = true
    · simp only [hed, if_true] at h
      by_cases hsig : ske.signature = []
      · simp [hsig, throw, throwThe, MonadExceptOf.throw] at h
      · simp only [hsig, if_false] at h
        exact ske_tail C 3 fam ske pk cr sr _ _ (fun m => m) EncFn.id h
    · simp only [hed, Bool.false_eq_true, if_false] at h
      by_cases hec : ske.signAlg = sigEcdsa
      · simp only [hec, if_true] at h
        cases hhr : hashRepr ske.hashAlg with
        | none => simp [hhr, throw, throwThe, MonadExceptOf.throw] at h
        | some hn =>
          simp only [hhr] at h
          cases hh : liftH (skeHash C 3 fam ske cr sr) with
          | error e => simp [hh] at h
          | ok hb =>
            simp only [hh] at h
            by_cases hpa : pk.alg = CertAlg.ecdsa
            · simp only [hpa, ne_eq, not_true_eq_false, if_false] at h
              cases hk : liftKV (keyVerify C pk Method.verify ske.signature (List.take pk.baselen hb) { hash := some hn }) with
              | error e => simp [hk] at h
              | ok b =>
                simp only [hk] at h
                cases b with
                | false => simp [throw, throwThe, MonadExceptOf.throw] at h
                | true =>
                  obtain ⟨f, hf, hbf⟩ := skeHash_enc C 3 fam ske cr sr hb (liftH_ok _ _ hh)
                  have hp := keyVerify_true C pk _ ske.signature _ _ (liftKV_ok _ _ hk)
                  rw [hbf] at hp
                  exact Proved.of_enc hf (Proved.of_enc (EncFn.take _ EncFn.id) hp)
            · simp [hpa, throw, throwThe, MonadExceptOf.throw] at h
      · simp only [hec, if_false] at h
        by_cases hds : ske.signAlg = sigDsa
        · simp only [hds, if_true] at h
          exact ske_tail C 3 fam ske pk cr sr _ _ (fun m => m) EncFn.id h
        · simp only [hds, if_false] at h
          split at h
          · cases h
          · rename_i a ha
            try simp only at h
            cases hh : liftH (skeHash C 3 fam ske cr sr) with
            | error e => simp [hh] at h
            | ok hb =>
              simp only [hh] at h
              by_cases hsig : ske.signature = []
              · simp [hsig, throw, throwThe, MonadExceptOf.throw] at h
              · simp only [hsig, if_false] at h
                cases hk : liftKV (keyVerify C pk Method.verify ske.signature hb a) with
                | error e => simp [hk] at h
                | ok b =>
                  simp only [hk] at h
                  cases b with
                  | false => simp [throw, throwThe, MonadExceptOf.throw] at h
                  | true =>
                    obtain ⟨f, hf, hbf⟩ := skeHash_enc C 3 fam ske cr sr hb (liftH_ok _ _ hh)
                    have hp := keyVerify_true C pk _ ske.signature _ _ (liftKV_ok _ _ hk)
                    rw [hbf] at hp
                    exact Proved.of_enc hf hp
  · simp [hmem, throw, throwThe, MonadExceptOf.throw] at h

theorem verifyServerKeyExchange_ok (C : Crypto) (ver : Nat) (fam : SuiteSig) (ske : SKE) (pk : Cert)
    (cr sr : Bytes) (valid : List SchemeId)
    (h : verifyServerKeyExchange C ver fam ske pk cr sr valid = .ok ()) :
    Proved C pk.key (cr ++ sr ++ ske.params) ske.signature ∧ (¬ ver < 3 → (ske.hashAlg, ske.signAlg) ∈ valid) := by
  unfold verifyServerKeyExchange at h
  by_cases hv : ver < 3
  · simp only [hv, if_true, bind, Except.bind, pure, Except.pure] at h
    refine ⟨?_, fun x => absurd hv x⟩
    cases hh : liftH (skeHash C ver fam ske cr sr) with
    | error e => simp [hh] at h
    | ok hb =>
      simp only [hh] at h
      by_cases hsig : ske.signature = []
      · simp [hsig, throw, throwThe, MonadExceptOf.throw] at h
      · simp only [hsig, if_false] at h
        split at h
        · cases h
        · rename_i b hk
          cases b with
          | false => simp [throw, throwThe, MonadExceptOf.throw] at h
          | true =>
            obtain ⟨f, hf, hbf⟩ := skeHash_enc C ver fam ske cr sr hb (liftH_ok _ _ hh)
            have hp := keyVerify_true C pk _ ske.signature _ _ (liftKV_ok _ _ hk)
            rw [hbf] at hp
            exact Proved.of_enc hf hp
  · simp only [hv, if_false] at h
    obtain ⟨h1, h2⟩ := tls12VerifySKE_ok C fam ske pk cr sr valid h
    exact ⟨h2, fun _ => h1⟩

/-- The client's Certificate / ServerKeyExchange processing returned a chain: it is the presented
    chain, and a ServerKeyExchange was signed by its end-entity key over
    client_random ‖ server_random ‖ params; from TLS 1.2 on with a scheme that fits the key type
    and belongs to the list the client offers. -/
theorem verifySKE_ok (C : Crypto) (s : Settings) (ver : Nat) (fam : SuiteSig) (chain : Chain)
    (ske : Option SKE) (cr sr : Bytes) (ch : Chain)
    (h : verifySKE C s ver fam chain ske cr sr = .ok ch) :
    ch = chain ∧ ∃ c rest, chain = c :: rest ∧ ∀ k, ske = some k →
      Proved C c.key (cr ++ sr ++ k.params) k.signature ∧
      (¬ ver < 3 → compatible c 3 (k.hashAlg, k.signAlg) = true ∧
        ∀ l0, sigHashesToList s false [] 3 = .ok l0 → (k.hashAlg, k.signAlg) ∈ l0) := by
  unfold verifySKE at h
  simp only [bind, Except.bind, pure, Except.pure] at h
  cases hpk : clientGetKeyFromChain s ver chain with
  | error e => simp [hpk] at h
  | ok pk =>
    simp only [hpk] at h
    obtain ⟨rest, hchain⟩ := clientGetKeyFromChain_ok s ver chain pk hpk
    cases ske with
    | none =>
      simp at h
      exact ⟨h.symm, pk, rest, hchain, fun k hk => by cases hk⟩
    | some k =>
      simp only at h
      cases hv : sigHashesToList s false chain 3 with
      | error e => simp [hv] at h
      | ok valid =>
        simp only [hv] at h
        cases hvs : verifyServerKeyExchange C ver fam k pk cr sr valid with
        | error e =>
          rw [hvs] at h
          cases e <;> simp [throw, throwThe, MonadExceptOf.throw] at h
        | ok u =>
          rw [hvs] at h
          simp at h
          obtain ⟨p1, p2⟩ := verifyServerKeyExchange_ok C ver fam k pk cr sr valid hvs
          refine ⟨h.symm, pk, rest, hchain, ?_⟩
          intro k' hk'
          simp only [Option.some.injEq] at hk'
          subst hk'
          refine ⟨p1, fun hnv => ?_⟩
          rw [hchain] at hv
          exact ⟨sigHashes_cert_compatible s false pk rest 3 valid hv _ (p2 hnv),
                 fun l0 hl0 => sigHashes_cert_subset_v3 s false pk rest valid l0 hv hl0 _ (p2 hnv)⟩

end Tls.Auth
