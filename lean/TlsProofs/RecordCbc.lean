import TlsProofs.Record
import TlsModel.RecordToy
/- CBC over an arbitrary block permutation satisfies `BlockLaw`: proved from `D (E b) = b` by
   induction on the blocks (the chaining block is the cipher state `S` of the record-layer model). -/
namespace Tls.Rec
open Tls.Rec.Toy (cbcEnc cbcDec)

theorem xorBytes_length (a f : Bytes) : (xorBytes a f).length = min a.length f.length := by
  unfold xorBytes; simp

theorem xorBytes_cancel : ∀ (a f : Bytes), a.length ≤ f.length → xorBytes (xorBytes a f) f = a
  | [], _, _ => by simp [xorBytes]
  | _ :: _, [], h => by simp at h
  | x :: xs, y :: ys, h => by
    have ih := xorBytes_cancel xs ys (by simpa using h)
    unfold xorBytes at ih ⊢
    simp only [List.zipWith_cons_cons, List.cons.injEq]
    refine ⟨?_, ih⟩
    rw [UInt8.xor_assoc, UInt8.xor_self, UInt8.xor_zero]

/-- a length-preserving block function with a left inverse on blocks -/
structure BlockPerm where
  bs : Nat
  E : Bytes → Bytes
  D : Bytes → Bytes
  bs_pos : 0 < bs
  bs_le : bs ≤ 256
  len : ∀ b, b.length = bs → (E b).length = bs
  inv : ∀ b, b.length = bs → D (E b) = b

theorem cbcEnc_length (B : BlockPerm) : ∀ (n : Nat) (iv data : Bytes), iv.length = B.bs → data.length = n * B.bs →
    (cbcEnc B.E B.bs n iv data).2.length = data.length ∧ (cbcEnc B.E B.bs n iv data).1.length = B.bs
  | 0, iv, data, hiv, hd => by
    have : data = [] := List.length_eq_zero_iff.mp (by simpa using hd)
    simp [cbcEnc, hiv, this]
  | n + 1, iv, data, hiv, hd => by
    have htake : (data.take B.bs).length = B.bs := by
      simp; rw [hd, Nat.add_mul]; omega
    have hx : (xorBytes (data.take B.bs) iv).length = B.bs := by rw [xorBytes_length, htake, hiv]; simp
    have hc := B.len _ hx
    have hdrop : (data.drop B.bs).length = n * B.bs := by simp [hd, Nat.add_mul]
    obtain ⟨h1, h2⟩ := cbcEnc_length B n (B.E (xorBytes (data.take B.bs) iv)) (data.drop B.bs) hc hdrop
    simp only [cbcEnc, List.length_append]
    refine ⟨?_, h2⟩
    rw [h1, hc, hdrop, hd, Nat.add_mul]; omega

theorem cbc_dec_enc (B : BlockPerm) : ∀ (n : Nat) (iv data : Bytes), iv.length = B.bs → data.length = n * B.bs →
    cbcDec B.D B.bs n iv (cbcEnc B.E B.bs n iv data).2 = ((cbcEnc B.E B.bs n iv data).1, data)
  | 0, iv, data, _, hd => by
    have : data = [] := List.length_eq_zero_iff.mp (by simpa using hd)
    simp [cbcEnc, cbcDec, this]
  | n + 1, iv, data, hiv, hd => by
    have htake : (data.take B.bs).length = B.bs := by
      simp; rw [hd, Nat.add_mul]; omega
    have hx : (xorBytes (data.take B.bs) iv).length = B.bs := by rw [xorBytes_length, htake, hiv]; simp
    have hc := B.len _ hx
    have hdrop : (data.drop B.bs).length = n * B.bs := by simp [hd, Nat.add_mul]
    have ih := cbc_dec_enc B n (B.E (xorBytes (data.take B.bs) iv)) (data.drop B.bs) hc hdrop
    simp only [cbcEnc, cbcDec]
    rw [List.take_left' hc, List.drop_left' hc, ih, B.inv _ hx, xorBytes_cancel _ _ (by rw [htake, hiv]; exact Nat.le_refl _)]
    simp

/-- the state of a CBC object: the chaining block -/
def CbcState (B : BlockPerm) := { iv : Bytes // iv.length = B.bs }

theorem div_mul_of_mod (n bs : Nat) (h : n % bs = 0) : n = n / bs * bs := by
  have := Nat.div_add_mod n bs
  rw [h, Nat.add_zero, Nat.mul_comm] at this
  exact this.symm

theorem cbcDec_state_len (B : BlockPerm) : ∀ (n : Nat) (iv x : Bytes), iv.length = B.bs → x.length = n * B.bs →
    (cbcDec B.D B.bs n iv x).1.length = B.bs
  | 0, iv, x, hiv, _ => by simpa [cbcDec] using hiv
  | k + 1, iv, x, hiv, hx => by
    simp only [cbcDec]
    apply cbcDec_state_len B k
    · simp; rw [hx, Nat.add_mul]; omega
    · simp [hx, Nat.add_mul]

theorem cbcDec_length (B : BlockPerm) (hD : ∀ b, (B.D b).length = b.length) :
    ∀ (n : Nat) (iv y : Bytes), iv.length = B.bs → y.length = n * B.bs → (cbcDec B.D B.bs n iv y).2.length = y.length
  | 0, iv, y, _, hy => by simp [cbcDec]; simpa using hy.symm
  | k + 1, iv, y, hiv, hy => by
    have htake : (y.take B.bs).length = B.bs := by simp; rw [hy, Nat.add_mul]; omega
    simp only [cbcDec, List.length_append]
    rw [cbcDec_length B hD k _ _ htake (by simp [hy, Nat.add_mul]), xorBytes_length, hD, htake, hiv]
    simp [hy, Nat.add_mul]; omega

def cbcEncS (B : BlockPerm) (s : CbcState B) (d : Bytes) (h : d.length % B.bs = 0) : CbcState B × Bytes :=
  (⟨(cbcEnc B.E B.bs (d.length / B.bs) s.1 d).1, (cbcEnc_length B _ s.1 d s.2 (div_mul_of_mod _ _ h)).2⟩,
   (cbcEnc B.E B.bs (d.length / B.bs) s.1 d).2)

def cbcDecS (B : BlockPerm) (s : CbcState B) (d : Bytes) (h : d.length % B.bs = 0) : CbcState B × Bytes :=
  (⟨(cbcDec B.D B.bs (d.length / B.bs) s.1 d).1, cbcDec_state_len B _ s.1 d s.2 (div_mul_of_mod _ _ h)⟩,
   (cbcDec B.D B.bs (d.length / B.bs) s.1 d).2)

/-- record-layer primitives whose bulk cipher is CBC over `B` (the chaining block is the state);
    the Python objects assert that the length is a multiple of the block size -/
def cbcPrims (B : BlockPerm) (mac : CT.MacAlg) : Prims (CbcState B) where
  mac := mac
  bs := B.bs
  enc := fun s d => if h : d.length % B.bs = 0 then cbcEncS B s d h else (s, d)
  dec := fun s d => if h : d.length % B.bs = 0 then cbcDecS B s d h else (s, d)
  tagLen := 0
  aeadSeal := fun _ p _ => p
  aeadOpen := fun _ c _ => some c

/-- CBC over any block permutation is a lawful block cipher for the record-layer theorems:
    `dec (enc x) = x` with both ends in the same chaining state, by induction on the blocks -/
theorem cbcPrims_blockLaw (B : BlockPerm) (mac : CT.MacAlg)
    (hD : ∀ b, (B.D b).length = b.length) : BlockLaw (cbcPrims B mac) where
  bs_pos := B.bs_pos
  bs_le := B.bs_le
  len := fun s x => by
    show ((cbcPrims B mac).enc s x).2.length = x.length
    unfold cbcPrims
    simp only
    split
    · rename_i h
      exact (cbcEnc_length B _ s.1 x s.2 (div_mul_of_mod _ _ h)).1
    · rfl
  dec_len := fun s x => by
    show ((cbcPrims B mac).dec s x).2.length = x.length
    unfold cbcPrims
    simp only
    split
    · rename_i h
      exact cbcDec_length B hD _ s.1 x s.2 (div_mul_of_mod _ _ h)
    · rfl
  dec_enc := fun s x hx => by
    have hx' : x.length % B.bs = 0 := hx
    have hn := div_mul_of_mod _ _ hx'
    have hl := (cbcEnc_length B _ s.1 x s.2 hn).1
    have hde := cbc_dec_enc B (x.length / B.bs) s.1 x s.2 hn
    have e1 : (cbcPrims B mac).enc s x = cbcEncS B s x hx' := dif_pos hx'
    rw [e1]
    have hcl : (cbcEncS B s x hx').2.length % B.bs = 0 := by
      show (cbcEnc B.E B.bs (x.length / B.bs) s.1 x).2.length % B.bs = 0
      rw [hl]; exact hx'
    have e2 : (cbcPrims B mac).dec s (cbcEncS B s x hx').2 = cbcDecS B s (cbcEncS B s x hx').2 hcl := dif_pos hcl
    rw [e2]
    apply Prod.ext
    · apply Subtype.ext
      show (cbcDec B.D B.bs ((cbcEnc B.E B.bs (x.length / B.bs) s.1 x).2.length / B.bs) s.1
        (cbcEnc B.E B.bs (x.length / B.bs) s.1 x).2).1 = (cbcEnc B.E B.bs (x.length / B.bs) s.1 x).1
      rw [hl, hde]
    · show (cbcDec B.D B.bs ((cbcEnc B.E B.bs (x.length / B.bs) s.1 x).2.length / B.bs) s.1
        (cbcEnc B.E B.bs (x.length / B.bs) s.1 x).2).2 = x
      rw [hl, hde]

/-- a concrete block permutation: add 1 to every byte (inverse: subtract 1) -/
def demoPerm : BlockPerm where
  bs := 4
  E := fun b => b.map (· + 1)
  D := fun b => b.map (· - 1)
  bs_pos := by decide
  bs_le := by decide
  len := fun b h => by simpa using h
  inv := fun b _ => by
    induction b with
    | nil => rfl
    | cons a as ih => simp [UInt8.add_sub_cancel, Function.comp_def]

end Tls.Rec
