import TlsProofs.Record
/- The connection model: an arbitrary interleaving of writes and reads over a lawful codec keeps
   delivered ++ buffered ++ in-flight = written, per direction. -/
namespace Tls.Rec

/-- what the FIFO theorem needs from one direction's record protection: every fragment within the
    limit is protected, and a receiver in sync recovers it and stays in sync -/
structure Codec.Lawful (K : Codec) (Sync : K.SS → K.RS → Prop) (lim : Nat) : Prop where
  total : ∀ s p, p.length ≤ lim → (K.prot s 23 p).isSome = true
  rt : ∀ s r p s' rc, Sync s r → p.length ≤ lim → K.prot s 23 p = some (s', rc) →
        ∃ r', K.unprot r rc = .ok (some (r', 23, p)) ∧ Sync s' r'

theorem protAll_append {W} (prot : W → UInt8 → Bytes → Option (W × Rec)) (t : UInt8) :
    ∀ (xs ys : List Bytes) (s : W),
    protAll prot t s (xs ++ ys) =
      match protAll prot t s xs with
      | none => none
      | some (s1, r1) =>
        match protAll prot t s1 ys with
        | none => none
        | some (s2, r2) => some (s2, r1 ++ r2)
  | [], ys, s => by
    simp [protAll]
    cases protAll prot t s ys <;> simp
  | x :: xs, ys, s => by
    simp only [List.cons_append, protAll]
    cases hp : prot s t x with
    | none => simp
    | some v =>
      obtain ⟨s', r⟩ := v
      simp only
      rw [protAll_append prot t xs ys s']
      cases h1 : protAll prot t s' xs with
      | none => simp
      | some v1 =>
        obtain ⟨s1, r1⟩ := v1
        simp only
        cases h2 : protAll prot t s1 ys with
        | none => simp
        | some v2 => obtain ⟨s2, r2⟩ := v2; simp

theorem protAll_total (K : Codec) (Sync : K.SS → K.RS → Prop) (lim : Nat) (hK : K.Lawful Sync lim) :
    ∀ (fs : List Bytes) (s : K.SS), (∀ f ∈ fs, f.length ≤ lim) → ∃ s' rs, protAll K.prot 23 s fs = some (s', rs)
  | [], s, _ => ⟨s, [], rfl⟩
  | f :: fs, s, h => by
    have h1 := hK.total s f (h f (by simp))
    cases hp : K.prot s 23 f with
    | none => simp [hp] at h1
    | some v =>
      obtain ⟨s1, r⟩ := v
      obtain ⟨s', rs, h2⟩ := protAll_total K Sync lim hK fs s1 (fun g hg => h g (by simp [hg]))
      exact ⟨s', r :: rs, by simp [protAll, hp, h2]⟩

theorem protAll_length {W} (prot : W → UInt8 → Bytes → Option (W × Rec)) (t : UInt8) :
    ∀ (fs : List Bytes) (s s' : W) (rs : List Rec), protAll prot t s fs = some (s', rs) → rs.length = fs.length
  | [], s, s', rs, h => by simp [protAll] at h; simp [h.2.symm]
  | f :: fs, s, s', rs, h => by
    simp only [protAll] at h
    cases hp : prot s t f with
    | none => simp [hp] at h
    | some v =>
      obtain ⟨s1, r⟩ := v
      simp only [hp] at h
      cases h2 : protAll prot t s1 fs with
      | none => simp [h2] at h
      | some v2 =>
        obtain ⟨s2, r2⟩ := v2
        simp [h2] at h
        rw [← h.2]
        simp [protAll_length prot t fs s1 s2 r2 h2]

/-- one direction: the receiver is in sync with the sender as it was when the oldest in-flight
    record was protected; the channel holds exactly the protections of the pending fragments -/
def DirInv (K : Codec) (Sync : K.SS → K.RS → Prop) (lim : Nat) (wr : K.SS) (rd : K.RS)
    (chan : List Rec) (pend : List Bytes) : Prop :=
  ∃ s0, Sync s0 rd ∧ protAll K.prot 23 s0 pend = some (wr, chan) ∧ ∀ f ∈ pend, f.length ≤ lim

theorem DirInv.send {K : Codec} {Sync lim wr rd chan pend} (h : DirInv K Sync lim wr rd chan pend)
    (fr : List Bytes) (hfr : ∀ f ∈ fr, f.length ≤ lim) (wr' : K.SS) (rs : List Rec)
    (hp : protAll K.prot 23 wr fr = some (wr', rs)) :
    DirInv K Sync lim wr' rd (chan ++ rs) (pend ++ fr) := by
  obtain ⟨s0, hs, hpa, hl⟩ := h
  refine ⟨s0, hs, ?_, ?_⟩
  · rw [protAll_append, hpa]; simp [hp]
  · intro f hf
    rcases List.mem_append.mp hf with h1 | h1
    · exact hl f h1
    · exact hfr f h1

theorem DirInv.drained {K : Codec} {Sync lim wr rd pend} (h : DirInv K Sync lim wr rd [] pend) : pend = [] := by
  obtain ⟨s0, _, hpa, _⟩ := h
  have := protAll_length K.prot 23 pend s0 wr [] hpa
  exact List.length_eq_zero_iff.mp this.symm

/-- the read loop on an honest channel: consumes a prefix of the pending fragments, never fails,
    sends nothing, and hands out (together with what stays buffered) exactly the old buffer
    followed by the consumed fragments -/
theorem readLoop_honest (K : Codec) (Sync : K.SS → K.RS → Prop) (lim : Nat) (hK : K.Lawful Sync lim)
    {W} (prot : W → UInt8 → Bytes → Option (W × Rec)) (max : Option Nat) (min : Nat) (wr : K.SS) :
    ∀ (chan : List Rec) (pend : List Bytes) (tryOnce : Bool) (e : Endpoint W K.RS),
      DirInv K Sync lim wr e.rd chan pend → e.closed = false →
      ∃ consumed pend',
        pend = consumed ++ pend' ∧
        DirInv K Sync lim wr (epReadLoop prot K.unprot max min tryOnce e chan).1.rd
          (epReadLoop prot K.unprot max min tryOnce e chan).2.1 pend' ∧
        (epReadLoop prot K.unprot max min tryOnce e chan).2.2.1 = [] ∧
        (epReadLoop prot K.unprot max min tryOnce e chan).2.2.2.isFail = false ∧
        (epReadLoop prot K.unprot max min tryOnce e chan).1.closed = false ∧
        (epReadLoop prot K.unprot max min tryOnce e chan).1.wr = e.wr ∧
        (epReadLoop prot K.unprot max min tryOnce e chan).1.resumable = e.resumable ∧
        (epReadLoop prot K.unprot max min tryOnce e chan).1.split = e.split ∧
        ((epReadLoop prot K.unprot max min tryOnce e chan).1.recordSize = e.recordSize ∧
          (epReadLoop prot K.unprot max min tryOnce e chan).1.sendLimit = e.sendLimit) ∧
        (epReadLoop prot K.unprot max min tryOnce e chan).2.2.2.bytes ++
          (epReadLoop prot K.unprot max min tryOnce e chan).1.buf = e.buf ++ consumed.flatten
  | [], pend, tryOnce, e, hinv, hcl => by
    simp only [epReadLoop]
    by_cases hcond : readMore e min tryOnce = true
    · simp only [hcond, if_true]
      refine ⟨[], pend, by simp, hinv, ?_, ?_, hcl, ?_, ?_, ?_, ⟨?_, ?_⟩, ?_⟩ <;> simp [ReadOut.bytes, ReadOut.isFail]
    · simp only [hcond, Bool.false_eq_true, if_false, epReturn]
      refine ⟨[], pend, by simp, hinv, ?_, ?_, hcl, ?_, ?_, ?_, ⟨?_, ?_⟩, ?_⟩ <;> simp [ReadOut.bytes, ReadOut.isFail]
  | r :: chan', pend, tryOnce, e, hinv, hcl => by
    simp only [epReadLoop]
    by_cases hcond : readMore e min tryOnce = true
    · simp only [hcond, if_true]
      obtain ⟨s0, hs, hpa, hl⟩ := hinv
      cases pend with
      | nil => simp [protAll] at hpa
      | cons f pend1 =>
        simp only [protAll] at hpa
        cases hp : K.prot s0 23 f with
        | none => simp [hp] at hpa
        | some v =>
          obtain ⟨s1, rc⟩ := v
          simp only [hp] at hpa
          cases h2 : protAll K.prot 23 s1 pend1 with
          | none => simp [h2] at hpa
          | some v2 =>
            obtain ⟨s2, rs2⟩ := v2
            simp [h2] at hpa
            obtain ⟨hw, hr, hch⟩ := hpa
            subst hw; subst hr; subst hch
            obtain ⟨r', hun, hs'⟩ := hK.rt s0 e.rd f s1 rc hs (hl f (by simp)) hp
            have hinv' : ∀ (e2 : Endpoint W K.RS), e2.rd = r' → DirInv K Sync lim s2 e2.rd rs2 pend1 :=
              fun e2 he => ⟨s1, by rw [he]; exact hs', h2, fun g hg => hl g (by simp [hg])⟩
            simp only [hun]
            have h23 : ((23 : UInt8) == 23) = true := by decide
            simp only [h23, if_true]
            by_cases hfe : f.isEmpty = true
            · simp only [hfe, if_true]
              obtain ⟨cons, pend', hsplit, hdi, h3, h4, h5, h6, h7, h8, h9, h10⟩ :=
                readLoop_honest K Sync lim hK prot max min s2 rs2 pend1 tryOnce { e with rd := r' }
                  (hinv' _ rfl) hcl
              refine ⟨f :: cons, pend', by simp [hsplit], hdi, h3, h4, h5, h6, h7, h8, h9, ?_⟩
              rw [h10]
              have : f = [] := List.isEmpty_iff.mp hfe
              simp [this]
            · simp only [hfe, Bool.false_eq_true, if_false]
              obtain ⟨cons, pend', hsplit, hdi, h3, h4, h5, h6, h7, h8, h9, h10⟩ :=
                readLoop_honest K Sync lim hK prot max min s2 rs2 pend1 false
                  { e with rd := r', buf := e.buf ++ f } (hinv' _ rfl) hcl
              refine ⟨f :: cons, pend', by simp [hsplit], hdi, h3, h4, h5, h6, h7, h8, h9, ?_⟩
              rw [h10]
              simp
    · simp only [hcond, Bool.false_eq_true, if_false, epReturn]
      refine ⟨[], pend, by simp, hinv, ?_, ?_, hcl, ?_, ?_, ?_, ⟨?_, ?_⟩, ?_⟩ <;> simp [ReadOut.bytes, ReadOut.isFail]

end Tls.Rec
