import TlsProofs.AuthSites3
/-
  C05 helper lemmas, part 6: handshake level (order of checks and of the write to the session),
  PSK selection, Checker wrapper, injectivity of the signed bytes and the bad-event reduction.
-/
namespace Tls.Auth
open Gen

/-! ### outcomes -/

theorem fail_not_completed (sess : Option Session) (r : Reject) : (Outcome.fail sess r).completed = false := rfl

theorem done_session (sess : Session) :
    (Outcome.done sess).session = some { sess with resumable := true } := rfl

/-! ### PSK selection -/

theorem pskSelect_ok (C : Crypto) (configs : List PskConfig) (prf : HashName) (tr : Transcript) (last : Bool) :
    ∀ (offered : List (Bytes × Bytes)) (i j : Nat) (cfg : PskConfig),
      pskSelect C configs prf tr last offered i = .ok (some (j, cfg)) →
      cfg ∈ configs ∧ cfg.hash = prf ∧ last = true ∧ i ≤ j ∧
        ∃ binder, offered[j - i]? = some (cfg.identity, binder) ∧ binder = calcBinder C prf cfg.secret tr true := by
  intro offered
  induction offered with
  | nil => intro i j cfg h; simp [pskSelect] at h
  | cons p rest ih =>
    intro i j cfg h
    obtain ⟨ident, binder⟩ := p
    unfold pskSelect at h
    cases hf : configs.find? (fun c => c.identity = ident) with
    | none =>
      simp only [hf] at h
      obtain ⟨h1, h2, h3, h4, b, h5, h6⟩ := ih (i + 1) j cfg h
      refine ⟨h1, h2, h3, by omega, b, ?_, h6⟩
      have : j - i = (j - (i + 1)) + 1 := by omega
      rw [this, List.getElem?_cons_succ]; exact h5
    | some c0 =>
      simp only [hf] at h
      by_cases hh : c0.hash = prf
      · simp only [hh, ne_eq, not_true_eq_false, if_false] at h
        by_cases hl : last = false
        · simp [hl] at h
        · simp only [hl, if_false] at h
          by_cases hb : calcBinder C prf c0.secret tr true = binder
          · simp [hb] at h
            obtain ⟨hi, hc⟩ := h
            subst hi hc
            have hmem := List.mem_of_find?_eq_some hf
            have hid := List.find?_some hf
            simp only [decide_eq_true_eq] at hid
            refine ⟨hmem, hh, by simpa using hl, Nat.le_refl _, binder, ?_, hb.symm⟩
            simp [hid]
          · simp [hb] at h
      · simp only [hh, ne_eq, not_false_eq_true, if_true] at h
        obtain ⟨h1, h2, h3, h4, b, h5, h6⟩ := ih (i + 1) j cfg h
        refine ⟨h1, h2, h3, by omega, b, ?_, h6⟩
        have : j - i = (j - (i + 1)) + 1 := by omega
        rw [this, List.getElem?_cons_succ]; exact h5

/-! ### injectivity of the signed bytes -/

theorem tbs13_inj (tag1 tag2 h1 h2 : Bytes) (hl : tag1.length = tag2.length)
    (h : tbs13 tag1 h1 = tbs13 tag2 h2) : tag1 = tag2 ∧ h1 = h2 := by
  unfold tbs13 at h
  simp only [List.append_assoc] at h
  have h' := List.append_cancel_left (List.append_cancel_left h)
  obtain ⟨ht, hrest⟩ := List.append_inj h' hl
  refine ⟨ht, ?_⟩
  have := List.append_cancel_left hrest
  simpa using this

theorem ske_msg_inj (cr1 sr1 p1 cr2 sr2 p2 : Bytes) (hc : cr1.length = cr2.length) (hs : sr1.length = sr2.length)
    (h : cr1 ++ sr1 ++ p1 = cr2 ++ sr2 ++ p2) : cr1 = cr2 ∧ sr1 = sr2 ∧ p1 = p2 := by
  simp only [List.append_assoc] at h
  obtain ⟨h1, h2⟩ := List.append_inj h hc
  obtain ⟨h3, h4⟩ := List.append_inj h2 hs
  exact ⟨h1, h3, h4⟩

theorem tag_client_ne_server : tagClient ≠ tagServer := by decide
theorem tag_lengths : tagClient.length = tagServer.length := by decide

/-! ### bad events -/

/-- two different messages with the same signed encoding (hash collision, also truncated or
    across encodings) -/
def EncCollision (C : Crypto) : Prop :=
  ∃ f f' x y, EncFn C f ∧ EncFn C f' ∧ x ≠ y ∧ f x = f' y

/-- `sig` verifies under `key` on bytes that are not the encoding of any message the key's owner
    signed -/
def Forgery (C : Crypto) (key : Nat) (sig : Bytes) (ownerSigned : Bytes → Prop) : Prop :=
  ∃ alg d, C.verify key alg d sig = true ∧ ∀ m f, ownerSigned m → EncFn C f → f m ≠ d

/-- If a proof for message `m` is accepted but the owner of the key never signed `m` (everything
    it signed is a different message), then a forgery or an encoding collision has occurred. -/
theorem proved_foreign_message (C : Crypto) (key : Nat) (m sig : Bytes) (ownerSigned : Bytes → Prop)
    (hp : Proved C key m sig) (hother : ∀ m', ownerSigned m' → m' ≠ m) :
    Forgery C key sig ownerSigned ∨ EncCollision C := by
  obtain ⟨alg, f, hf, hv⟩ := hp
  by_cases hex : ∃ m' f', ownerSigned m' ∧ EncFn C f' ∧ f' m' = f m
  · obtain ⟨m', f', hs, hf', heq⟩ := hex
    exact Or.inr ⟨f', f, m', m, hf', hf, hother m' hs, heq⟩
  · refine Or.inl ⟨alg, f m, hv, ?_⟩
    intro m' f' hs hf' heq
    exact hex ⟨m', f', hs, hf', heq⟩

/-- hash collision on transcripts -/
def TranscriptCollision (C : Crypto) : Prop := ∃ h x y, x ≠ y ∧ C.hash h x = C.hash h y

/-- TLS 1.3: the signed message determines the role tag and — up to a collision of the transcript
    hash — the transcript. -/
theorem tbs13_binds_transcript (C : Crypto) (prf : HashName) (tag tag' : Bytes) (t t' : Transcript)
    (hl : tag.length = tag'.length) (hne : (tag, t) ≠ (tag', t')) :
    tbs13 tag (digest C prf t) ≠ tbs13 tag' (digest C prf t') ∨ TranscriptCollision C := by
  by_cases heq : tbs13 tag (digest C prf t) = tbs13 tag' (digest C prf t')
  · obtain ⟨h1, h2⟩ := tbs13_inj _ _ _ _ hl heq
    right
    refine ⟨prf, t, t', ?_, h2⟩
    intro htt
    exact hne (by rw [h1, htt])
  · exact Or.inl heq

end Tls.Auth
