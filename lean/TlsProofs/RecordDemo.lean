import TlsProofs.RecordSend
/- A small concrete instance of `Prims` satisfying every functional law used as a hypothesis in
   Props/C01.lean and Props/C02.lean (non-vacuity of those hypotheses).  Not cryptography. -/
namespace Tls.Rec.Demo
open Tls.CT

def sum8 (x : Bytes) : UInt8 := x.foldl (· + ·) 0

def chk (key : UInt8) (n a p : Bytes) : UInt8 := key + sum8 n + sum8 a + sum8 p + UInt8.ofNat a.length

/-- cipher: add the call counter to every byte; MAC: two bytes; AEAD: plaintext ‖ one check byte -/
def prims (key : UInt8) : Prims Nat :=
  { mac := { dlen := 2, blockSize := 64, digest := fun x => [key + sum8 x, UInt8.ofNat x.length] }
    bs := 4
    enc := fun s d => (s + 1, d.map (· + UInt8.ofNat s))
    dec := fun s d => (s + 1, d.map (· - UInt8.ofNat s))
    tagLen := 1
    aeadSeal := fun n p a => p ++ [chk key n a p]
    aeadOpen := fun n c a =>
      if c.length < 1 then none
      else if chk key n a c.dropLast == c.getLastD 0 then some c.dropLast else none }

theorem macLaw (key : UInt8) : MacLaw (prims key) :=
  { len := fun _ => rfl, pos := by simp [prims], block := by simp [prims], small := by simp [prims] }

theorem map_sub_add (k : UInt8) (x : Bytes) : (x.map (· + k)).map (· - k) = x := by
  induction x with
  | nil => rfl
  | cons a as ih => simp [List.map, ih, UInt8.add_sub_cancel]

theorem streamLaw (key : UInt8) : StreamLaw (prims key) :=
  { len := fun _ _ => by simp [prims]
    dec_enc := fun s x => by simp [prims, map_sub_add, Function.comp_def, UInt8.add_sub_cancel] }

theorem blockLaw (key : UInt8) : BlockLaw (prims key) :=
  { bs_pos := by simp [prims], bs_le := by simp [prims]
    len := fun _ _ => by simp [prims]
    dec_len := fun _ _ => by simp [prims]
    dec_enc := fun s x _ => by simp [prims, Function.comp_def, UInt8.add_sub_cancel] }

theorem aeadLaw (key : UInt8) : AeadLaw (prims key) :=
  { len := fun _ _ _ => by simp [prims]
    open_seal := fun n p a => by simp [prims] }

end Tls.Rec.Demo
