import TlsModel.Auth
/-
  C05 helper lemmas, part 1: `_sigHashesToList`.
    * specification `compatible` (RFC 8446 §4.2.3 / RFC 5246 / RFC 8422 / RFC 8734): which scheme
      identifiers a peer holding a given end-entity key may use in a given version;
    * every member of the certificate-filtered list is compatible with the certificate;
    * at version (3,3) the certificate-filtered list is a sub-list of what is offered without a
      certificate; at (3,4) it is, except for the brainpool scheme derived from the curve.
-/
namespace Tls.Auth
open Gen

/-- RFC view: may a peer whose end-entity key is `c` sign with scheme `sid` in version (3, ver)? -/
def compatible (c : Cert) (ver : Nat) (sid : SchemeId) : Bool :=
  match c.alg with
  | .rsa => sid == (8, 4) || sid == (8, 5) || sid == (8, 6) || (sid.2 == 1 && decide (ver ≤ 3))
  | .rsaPss => sid == (8, 9) || sid == (8, 10) || sid == (8, 11)
  | .ed25519 => sid == (8, 7) && decide (3 ≤ ver)
  | .ed448 => sid == (8, 8) && decide (3 ≤ ver)
  | .dsa => sid.2 == 2 && decide (ver ≤ 3)
  | .ecdsa =>
    if ver ≤ 3 then sid.2 == 3
    else match c.curve with
      | .nist256 => sid == (4, 3)
      | .nist384 => sid == (5, 3)
      | .nist521 => sid == (6, 3)
      | .bp256 => sid == (8, 26)
      | .bp384 => sid == (8, 27)
      | .bp512 => sid == (8, 28)
      | .other => false

theorem mapM_ok_mem {α β : Type} (f : α → Except Reject β) :
    ∀ (l : List α) (r : List β), l.mapM f = .ok r → ∀ y, y ∈ r → ∃ x, x ∈ l ∧ f x = .ok y := by
  intro l
  induction l with
  | nil =>
    intro r h y hy
    simp [List.mapM_nil, pure, Except.pure] at h
    subst h
    cases hy
  | cons a t ih =>
    intro r h y hy
    rw [List.mapM_cons] at h
    simp only [bind, Except.bind, pure, Except.pure] at h
    cases hfa : f a with
    | error e => rw [hfa] at h; cases h
    | ok b =>
      rw [hfa] at h
      cases ht : t.mapM f with
      | error e => rw [ht] at h; cases h
      | ok r' =>
        rw [ht] at h
        simp only [Except.ok.injEq] at h
        subst h
        rcases List.mem_cons.mp hy with hyb | hyr
        · exact ⟨a, List.mem_cons_self, by rw [hfa, hyb]⟩
        · obtain ⟨x, hx, hfx⟩ := ih r' ht y hyr
          exact ⟨x, List.mem_cons_of_mem _ hx, hfx⟩

/-! ### members of the RSA block -/

theorem rsaInner_rsa (small : Bool) (p : RsaPad) (h : HashName) (sid : SchemeId)
    (hm : sid ∈ rsaInner (some .rsa) small p h) :
    (p = .pss ∧ (sid = (8, 4) ∨ sid = (8, 5) ∨ sid = (8, 6))) ∨ (p = .pkcs1 ∧ sid.2 = 1) := by
  cases p <;> cases h <;> cases small <;>
    simp [rsaInner, rsaAttr, sigRsa] at hm <;> simp [hm]

theorem rsaInner_rsaPss (small : Bool) (p : RsaPad) (h : HashName) (sid : SchemeId)
    (hm : sid ∈ rsaInner (some .rsaPss) small p h) :
    sid = (8, 9) ∨ sid = (8, 10) ∨ sid = (8, 11) := by
  cases p <;> cases h <;> cases small <;>
    simp [rsaInner, rsaAttr, sigRsa] at hm <;> simp [hm]

theorem rsaLoop_mem (s : Settings) (ct : Option CertAlg) (small : Bool) (ver : Nat) (sid : SchemeId)
    (hm : sid ∈ rsaLoop s ct small ver) :
    ∃ p h, p ∈ s.rsaSchemes ∧ h ∈ s.rsaSigHashes ∧ ¬ (ver > 3 ∧ p = .pkcs1) ∧ sid ∈ rsaInner ct small p h := by
  unfold rsaLoop at hm
  simp only [List.mem_flatMap, List.mem_filter] at hm
  obtain ⟨p, ⟨hp, hf⟩, h, hh, hin⟩ := hm
  refine ⟨p, h, hp, hh, ?_, hin⟩
  intro ⟨hv, hpk⟩
  subst hpk
  simp [hv] at hf

/-! ### compatibility of the certificate-filtered list -/

theorem sigHashes_cert_compatible (s : Settings) (small : Bool) (c : Cert) (rest : Chain) (ver : Nat)
    (l : List SchemeId) (hl : sigHashesToList s small (c :: rest) ver = .ok l) (sid : SchemeId)
    (hm : sid ∈ l) : compatible c ver sid = true := by
  unfold sigHashesToList at hl
  simp only [List.head?_cons, Option.map_some, bind, Except.bind, pure, Except.pure] at hl
  cases halg : c.alg <;> simp only [halg] at hl
  · -- rsa
    simp at hl
    subst hl
    obtain ⟨p, h, _, _, hnv, hin⟩ := rsaLoop_mem s (some .rsa) small ver sid hm
    rcases rsaInner_rsa small p h sid hin with ⟨_, h1 | h1 | h1⟩ | ⟨hp, h1⟩
    · simp [compatible, halg, h1]
    · simp [compatible, halg, h1]
    · simp [compatible, halg, h1]
    · have : ver ≤ 3 := by
        apply Nat.le_of_not_gt
        intro hv; exact hnv ⟨hv, hp⟩
      simp [compatible, halg, h1, this]
  · -- rsaPss
    simp at hl
    subst hl
    obtain ⟨p, h, _, _, _, hin⟩ := rsaLoop_mem s (some .rsaPss) small ver sid hm
    rcases rsaInner_rsaPss small p h sid hin with h1 | h1 | h1 <;> simp [compatible, halg, h1]
  · -- ecdsa
    simp at hl
    cases he : ecdsaLoop s (some c) ver with
    | error e => rw [he] at hl; cases hl
    | ok l2 =>
      rw [he] at hl
      simp at hl
      subst hl
      unfold ecdsaLoop at he
      simp only at he
      by_cases hv : ver > 3
      · by_cases hb : isBrainpoolCurve c.curve = true
        · simp only [hv, hb, decide_true, Bool.and_self, if_true, bind, Except.bind, pure, Except.pure] at he
          have hv' : ¬ ver ≤ 3 := by omega
          cases hc : c.curve <;> simp [hc, isBrainpoolCurve] at hb <;>
            simp [hc, brainpoolSchemeOf, moreAttr, lookupAttr] at he <;> subst he <;>
            simp at hm <;> simp [compatible, halg, hv', hc, hm]
        · have hv' : ¬ ver ≤ 3 := by omega
          simp only [hv, hb, decide_true, Bool.true_and, Bool.false_eq_true, if_false, if_true] at he
          split at he
          · simp [pure, Except.pure] at he; subst he; cases hm
          · cases hc : c.curve <;> simp [hc, curveHash, pure, Except.pure] at he
            all_goals first
              | (exfalso; simp [isBrainpoolCurve, hc] at hb; done)
              | (subst he
                 simp only [List.mem_map, List.mem_filter] at hm
                 obtain ⟨h, ⟨_, hh⟩, hsid⟩ := hm
                 simp at hh
                 obtain ⟨hh1, _⟩ := hh
                 subst hh1
                 simp [hashId, sigEcdsa] at hsid
                 simp [compatible, halg, hv', hc, ← hsid])
      · have hv' : ver ≤ 3 := by omega
        simp only [hv, decide_false, Bool.false_and, Bool.false_eq_true, if_false, pure, Except.pure,
          Except.ok.injEq] at he
        subst he
        simp only [List.mem_map] at hm
        obtain ⟨h, _, hsid⟩ := hm
        simp [compatible, halg, hv', ← hsid, sigEcdsa]
  · -- ed25519
    simp at hl
    cases hmo : moreLoop s (some .ed25519) ver with
    | error e => rw [hmo] at hl; cases hl
    | ok l1 =>
      rw [hmo] at hl
      simp at hl
      subst hl
      unfold moreLoop at hmo
      obtain ⟨m, hmem, hf⟩ := mapM_ok_mem _ _ _ hmo sid hm
      simp only [List.mem_filter] at hmem
      obtain ⟨_, hk⟩ := hmem
      cases m <;> simp [moreMatchesCert, isMldsaMore, isBrainpoolMore] at hk
      simp [lookupAttr, moreAttr] at hf
      have : 3 ≤ ver := by omega
      simp [compatible, halg, ← hf, this]
  · -- ed448
    simp at hl
    cases hmo : moreLoop s (some .ed448) ver with
    | error e => rw [hmo] at hl; cases hl
    | ok l1 =>
      rw [hmo] at hl
      simp at hl
      subst hl
      unfold moreLoop at hmo
      obtain ⟨m, hmem, hf⟩ := mapM_ok_mem _ _ _ hmo sid hm
      simp only [List.mem_filter] at hmem
      obtain ⟨_, hk⟩ := hmem
      cases m <;> simp [moreMatchesCert, isMldsaMore, isBrainpoolMore] at hk
      simp [lookupAttr, moreAttr] at hf
      have : 3 ≤ ver := by omega
      simp [compatible, halg, ← hf, this]
  · -- dsa
    simp at hl
    subst hl
    simp only [List.mem_map, List.mem_filter] at hm
    obtain ⟨h, ⟨_, hv⟩, hsid⟩ := hm
    have : ver ≤ 3 := by simpa using hv
    simp [compatible, halg, ← hsid, sigDsa, this]


/-! ### certificate-filtered list ⊆ offered list (version (3,3)) -/

theorem mapM_ok_of_mem {α β : Type} (f : α → Except Reject β) :
    ∀ (l : List α) (r : List β), l.mapM f = .ok r → ∀ x y, x ∈ l → f x = .ok y → y ∈ r := by
  intro l
  induction l with
  | nil => intro r _ x y hx; cases hx
  | cons a t ih =>
    intro r h x y hx hfx
    rw [List.mapM_cons] at h
    simp only [bind, Except.bind, pure, Except.pure] at h
    cases hfa : f a with
    | error e => rw [hfa] at h; cases h
    | ok b =>
      rw [hfa] at h
      cases ht : t.mapM f with
      | error e => rw [ht] at h; cases h
      | ok r' =>
        rw [ht] at h
        simp only [Except.ok.injEq] at h
        subst h
        rcases List.mem_cons.mp hx with hxa | hxt
        · subst hxa
          rw [hfa] at hfx
          cases hfx
          exact List.mem_cons_self
        · exact List.mem_cons_of_mem _ (ih r' ht x y hxt hfx)

theorem rsaInner_subset_none (ct : Option CertAlg) (hct : ct = some .rsa ∨ ct = some .rsaPss)
    (small : Bool) (p : RsaPad) (h : HashName) (sid : SchemeId)
    (hm : sid ∈ rsaInner ct small p h) : sid ∈ rsaInner none small p h := by
  rcases hct with rfl | rfl <;> cases p <;> cases h <;> cases small <;>
    simp [rsaInner, rsaAttr] at hm ⊢ <;> simp [hm]

theorem rsaLoop_subset_none (s : Settings) (ct : Option CertAlg) (hct : ct = some .rsa ∨ ct = some .rsaPss)
    (small : Bool) (ver : Nat) (sid : SchemeId) (hm : sid ∈ rsaLoop s ct small ver) :
    sid ∈ rsaLoop s none small ver := by
  unfold rsaLoop at hm ⊢
  simp only [List.mem_flatMap] at hm ⊢
  obtain ⟨p, hp, h, hh, hin⟩ := hm
  exact ⟨p, hp, h, hh, rsaInner_subset_none ct hct small p h sid hin⟩

/-- At version (3,3) every scheme the verifier admits for the presented certificate is one it
    offered (CertificateRequest / ClientHello list = the list computed without a certificate). -/
theorem sigHashes_cert_subset_v3 (s : Settings) (small : Bool) (c : Cert) (rest : Chain)
    (l l0 : List SchemeId) (hl : sigHashesToList s small (c :: rest) 3 = .ok l)
    (h0 : sigHashesToList s small [] 3 = .ok l0) (sid : SchemeId) (hm : sid ∈ l) : sid ∈ l0 := by
  unfold sigHashesToList at hl h0
  simp only [List.head?_cons, List.head?_nil, Option.map_some, Option.map_none, bind, Except.bind, pure,
    Except.pure, Option.isNone_none, Bool.true_or, if_true] at hl h0
  cases hm0 : moreLoop s none 3 with
  | error e => rw [hm0] at h0; cases h0
  | ok a1 =>
    rw [hm0] at h0
    cases he0 : ecdsaLoop s none 3 with
    | error e => rw [he0] at h0; cases h0
    | ok a2 =>
      rw [he0] at h0
      simp only [Except.ok.injEq] at h0
      subst h0
      cases halg : c.alg <;> simp only [halg] at hl
      · simp at hl; subst hl
        simp only [List.mem_append]
        exact Or.inr (rsaLoop_subset_none s _ (Or.inl rfl) small 3 sid hm)
      · simp at hl; subst hl
        simp only [List.mem_append]
        exact Or.inr (rsaLoop_subset_none s _ (Or.inr rfl) small 3 sid hm)
      · simp at hl
        cases he : ecdsaLoop s (some c) 3 with
        | error e => rw [he] at hl; cases hl
        | ok l2 =>
          rw [he] at hl; simp at hl; subst hl
          simp [ecdsaLoop, pure, Except.pure] at he he0
          subst he he0
          simp only [List.mem_append]
          exact Or.inl (Or.inl (Or.inr (by simpa using hm)))
      · simp at hl
        cases hmo : moreLoop s (some .ed25519) 3 with
        | error e => rw [hmo] at hl; cases hl
        | ok l1 =>
          rw [hmo] at hl; simp at hl; subst hl
          unfold moreLoop at hmo hm0
          obtain ⟨m, hmem, hf⟩ := mapM_ok_mem _ _ _ hmo sid hm
          have : sid ∈ a1 := by
            refine mapM_ok_of_mem _ _ _ hm0 m sid ?_ hf
            simp only [List.mem_filter] at hmem ⊢
            refine ⟨hmem.1, ?_⟩
            have := hmem.2
            revert this
            cases m <;> simp [moreMatchesCert, isMldsaMore, isBrainpoolMore]
          simp only [List.mem_append]
          exact Or.inl (Or.inl (Or.inl this))
      · simp at hl
        cases hmo : moreLoop s (some .ed448) 3 with
        | error e => rw [hmo] at hl; cases hl
        | ok l1 =>
          rw [hmo] at hl; simp at hl; subst hl
          unfold moreLoop at hmo hm0
          obtain ⟨m, hmem, hf⟩ := mapM_ok_mem _ _ _ hmo sid hm
          have : sid ∈ a1 := by
            refine mapM_ok_of_mem _ _ _ hm0 m sid ?_ hf
            simp only [List.mem_filter] at hmem ⊢
            refine ⟨hmem.1, ?_⟩
            have := hmem.2
            revert this
            cases m <;> simp [moreMatchesCert, isMldsaMore, isBrainpoolMore]
          simp only [List.mem_append]
          exact Or.inl (Or.inl (Or.inl this))
      · simp at hl; subst hl
        simp only [List.mem_append]
        exact Or.inl (Or.inr (by simpa using hm))

end Tls.Auth
