import TlsProofs.FmtBasic
import TlsModel.Ticket
/- Round trip of the session ticket payload and the decline/accept reduction of `_tryDecrypt`. -/
namespace Tls.Ticket

theorem getN_append (n x : Nat) (r : Bytes) (h : x < 256 ^ n) :
    getN n (beEncode n x ++ r) = some (x, r) := by
  unfold getN
  have hl : (beEncode n x).length = n := beEncode_length n x
  have h1 : ¬ (beEncode n x ++ r).length < n := by simp [hl]
  simp only [h1, if_false]
  have ht : (beEncode n x ++ r).take n = beEncode n x := List.take_left' hl
  have hd : (beEncode n x ++ r).drop n = r := List.drop_left' hl
  rw [ht, hd, beDecode_beEncode n x h]

theorem getVar_append (n : Nat) (d r : Bytes) (h : d.length < 256 ^ n) :
    getVar n (beEncode n d.length ++ (d ++ r)) = some (d, r) := by
  unfold getVar
  rw [getN_append n d.length (d ++ r) h]
  simp only
  have h1 : ¬ (d ++ r).length < d.length := by simp
  simp only [h1, if_false]
  rw [List.take_left, List.drop_left]

theorem b2n_lt (b : Bool) : b2n b < 256 ^ 1 := by cases b <;> simp [b2n]

theorem b2n_ne (b : Bool) : decide (b2n b ≠ 0) = b := by cases b <;> simp [b2n]

/-- `parse (write p) = p` for every payload `write` can represent -/
theorem parse_write (p : TicketPayload) (hw : p.WF) : parsePayload (writePayload p) = some p := by
  obtain ⟨hv, hms, hmaj, hmin, hsu, hno, hct, hcc, hsn, hc0, hc2⟩ := hw
  have e16 : (2 : Nat) ^ 16 = 256 ^ 2 := by decide
  have e24 : (2 : Nat) ^ 24 = 256 ^ 3 := by decide
  have e64 : (2 : Nat) ^ 64 = 256 ^ 8 := by decide
  have e8 : (256 : Nat) = 256 ^ 1 := by decide
  have hver : p.version < 256 ^ 2 := by omega
  rcases p with ⟨version, ms, maj, min, suite, nonce, ct, chain, etm, ems, sn⟩
  simp only at hv hms hmaj hmin hsu hno hct hcc hsn hc0 hc2 hver
  have hcases : version = 0 ∨ version = 1 ∨ version = 2 := by omega
  rcases hcases with rfl | rfl | rfl
  · obtain ⟨h1, h2, h3⟩ := hc2 (by omega)
    have h0 := hc0 (by omega)
    subst h1; subst h2; subst h3; subst h0
    simp only [writePayload, parsePayload, List.append_assoc, Nat.reduceLeDiff, if_false, List.append_nil,
      ge_iff_le, Nat.not_succ_le_zero]
    rw [getN_append 2 0 _ (by decide)]
    simp only [Option.bind_eq_bind, Option.bind_some, Nat.not_lt_zero, gt_iff_lt, if_false]
    rw [getVar_append 2 ms _ (by omega)]
    simp only [Option.bind_some]
    rw [getN_append 1 maj _ (by omega)]
    simp only [Option.bind_some]
    rw [getN_append 1 min _ (by omega)]
    simp only [Option.bind_some]
    rw [getN_append 2 suite _ (by omega)]
    simp only [Option.bind_some]
    rw [getVar_append 1 nonce _ (by omega)]
    simp only [Option.bind_some]
    have : beEncode 8 ct = beEncode 8 ct ++ [] := by simp
    rw [this, getN_append 8 ct [] (by omega)]
    simp
  · obtain ⟨h1, h2, h3⟩ := hc2 (by omega)
    subst h1; subst h2; subst h3
    simp only [writePayload, parsePayload, List.append_assoc, List.append_nil, ge_iff_le, Nat.le_refl, if_true,
      Nat.reduceLeDiff, if_false]
    rw [getN_append 2 1 _ (by decide)]
    simp only [Option.bind_eq_bind, Option.bind_some, gt_iff_lt, Nat.lt_irrefl, Nat.not_lt_zero, if_false]
    rw [getVar_append 2 ms _ (by omega)]
    simp only [Option.bind_some]
    rw [getN_append 1 maj _ (by omega)]
    simp only [Option.bind_some]
    rw [getN_append 1 min _ (by omega)]
    simp only [Option.bind_some]
    rw [getN_append 2 suite _ (by omega)]
    simp only [Option.bind_some]
    rw [getVar_append 1 nonce _ (by omega)]
    simp only [Option.bind_some]
    rw [getN_append 8 ct _ (by omega)]
    simp only [Option.bind_some, (by decide : (1 : Nat) < 2), (by decide : ¬ (2 : Nat) < 1)]
    have : beEncode 3 chain.length ++ chain = beEncode 3 chain.length ++ (chain ++ []) := by simp
    rw [this, getVar_append 3 chain [] (by omega)]
    simp
  · simp only [writePayload, parsePayload, List.append_assoc, List.append_nil, ge_iff_le, Nat.le_refl, if_true,
      Nat.reduceLeDiff, if_false]
    rw [getN_append 2 2 _ (by decide)]
    simp only [Option.bind_eq_bind, Option.bind_some, gt_iff_lt, Nat.lt_irrefl, Nat.not_lt_zero, if_false]
    rw [getVar_append 2 ms _ (by omega)]
    try simp only [Option.bind_some, Nat.reduceLeDiff, Nat.le_refl, if_true]
    rw [getN_append 1 maj _ (by omega)]
    try simp only [Option.bind_some, Nat.reduceLeDiff, Nat.le_refl, if_true]
    rw [getN_append 1 min _ (by omega)]
    try simp only [Option.bind_some, Nat.reduceLeDiff, Nat.le_refl, if_true]
    rw [getN_append 2 suite _ (by omega)]
    try simp only [Option.bind_some, Nat.reduceLeDiff, Nat.le_refl, if_true]
    rw [getVar_append 1 nonce _ (by omega)]
    try simp only [Option.bind_some, Nat.reduceLeDiff, Nat.le_refl, if_true]
    rw [getN_append 8 ct _ (by omega)]
    try simp only [Option.bind_some, Nat.reduceLeDiff, Nat.le_refl, if_true]
    rw [getVar_append 3 chain _ (by omega)]
    try simp only [Option.bind_some, Nat.reduceLeDiff, Nat.le_refl, if_true]
    rw [getN_append 1 (b2n etm) _ (b2n_lt etm)]
    try simp only [Option.bind_some, Nat.reduceLeDiff, Nat.le_refl, if_true]
    rw [getN_append 1 (b2n ems) _ (b2n_lt ems)]
    try simp only [Option.bind_some, Nat.reduceLeDiff, Nat.le_refl, if_true]
    have : beEncode 2 sn.length ++ sn = beEncode 2 sn.length ++ (sn ++ []) := by simp
    rw [this, getVar_append 2 sn [] (by omega)]
    simp [b2n_ne]
    cases etm <;> cases ems <;> simp [b2n]

end Tls.Ticket

namespace Tls.Ticket

/-- the serialised payload is never empty (`if not ticket: continue` does not hit honest tickets) -/
theorem writePayload_ne_nil (p : TicketPayload) : (writePayload p).isEmpty = false := by
  unfold writePayload
  simp [beEncode]

/-- what `_tryDecrypt` accepts was opened by the AEAD under a key derived from one of the CURRENT
    ticket keys and the ticket's own nonce, and parsed from that plaintext -/
theorem openTicket_some {A : Aead} {keys : List Bytes} {t : Bytes} {p : TicketPayload}
    (h : openTicket A keys t = some p) :
    ∃ k ∈ keys, ∃ m, A.aopen (A.kdf (t.take 32) k) (t.drop 32) = some m ∧ parsePayload m = some p := by
  unfold openTicket at h
  induction keys with
  | nil => simp at h
  | cons k r ih =>
    simp only [List.findSome?_cons] at h
    cases ho : A.aopen (A.kdf (t.take 32) k) (t.drop 32) with
    | none =>
      simp only [ho] at h
      obtain ⟨k', hk', hm⟩ := ih h
      exact ⟨k', by simp [hk'], hm⟩
    | some m =>
      simp only [ho] at h
      by_cases he : m.isEmpty = true
      · simp only [he, if_true] at h
        obtain ⟨k', hk', hm⟩ := ih h
        exact ⟨k', by simp [hk'], hm⟩
      · simp only [he] at h
        cases hp : parsePayload m with
        | none =>
          simp only [hp] at h
          obtain ⟨k', hk', hm⟩ := ih h
          exact ⟨k', by simp [hk'], hm⟩
        | some q =>
          simp only [hp, if_false] at h
          injection h with h
          exact ⟨k, by simp, m, ho, by rw [hp, h]⟩

/-- wrong key or tampered ticket => decline: if the AEAD opens the ciphertext under none of the
    current keys, `_tryDecrypt` returns nothing (whatever the bytes are) -/
theorem openTicket_none (A : Aead) (keys : List Bytes) (t : Bytes)
    (h : ∀ k ∈ keys, A.aopen (A.kdf (t.take 32) k) (t.drop 32) = none) : openTicket A keys t = none := by
  cases ho : openTicket A keys t with
  | none => rfl
  | some p =>
    obtain ⟨k, hk, m, hm, _⟩ := openTicket_some ho
    rw [h k hk] at hm; contradiction

/-- reduction to the AEAD assumption: an accepted ticket is either one the server sealed under a
    current key (`log` = every (derived key, ciphertext) pair the server ever produced), or the
    AEAD opened a ciphertext that was never sealed under that key — a forgery against the AEAD -/
theorem accepted_ticket_sealed_or_forgery (A : Aead) (keys : List Bytes) (t : Bytes) (p : TicketPayload)
    (log : List (Bytes × Bytes)) (h : openTicket A keys t = some p) :
    (∃ k ∈ keys, (A.kdf (t.take 32) k, t.drop 32) ∈ log) ∨
    (∃ k ∈ keys, ∃ m, A.aopen (A.kdf (t.take 32) k) (t.drop 32) = some m ∧
        (A.kdf (t.take 32) k, t.drop 32) ∉ log) := by
  obtain ⟨k, hk, m, hm, _⟩ := openTicket_some h
  by_cases hl : (A.kdf (t.take 32) k, t.drop 32) ∈ log
  · exact Or.inl ⟨k, hk, hl⟩
  · exact Or.inr ⟨k, hk, m, hm, hl⟩

/-- key rotation: a ticket sealed under ANY of the current keys is accepted and gives back the
    payload, provided the AEAD is correct and the keys tried before it do not open it -/
theorem openTicket_sealed (A : Aead) (pre post : List Bytes) (k nonce : Bytes) (p : TicketPayload)
    (hn : nonce.length = 32) (hw : p.WF)
    (hcorrect : ∀ key m, A.aopen key (A.aseal key m) = some m)
    (hpre : ∀ k' ∈ pre, A.aopen (A.kdf nonce k') (A.aseal (A.kdf nonce k) (writePayload p)) = none) :
    openTicket A (pre ++ k :: post) (nonce ++ A.aseal (A.kdf nonce k) (writePayload p)) = some p := by
  have ht : (nonce ++ A.aseal (A.kdf nonce k) (writePayload p)).take 32 = nonce := List.take_left' hn
  have hd : (nonce ++ A.aseal (A.kdf nonce k) (writePayload p)).drop 32 =
      A.aseal (A.kdf nonce k) (writePayload p) := List.drop_left' hn
  unfold openTicket
  rw [ht, hd]
  induction pre with
  | nil =>
    simp only [List.nil_append, List.findSome?_cons, hcorrect, writePayload_ne_nil, parse_write p hw]
    simp
  | cons k' r ih =>
    simp only [List.cons_append, List.findSome?_cons, hpre k' (by simp)]
    exact ih (fun k'' hk'' => hpre k'' (by simp [hk'']))

end Tls.Ticket
