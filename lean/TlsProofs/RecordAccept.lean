import TlsProofs.RecordAuth
/- Per path: if the receiver accepts a byte string, it is the sender's next record or a forgery. -/
namespace Tls.Rec
open Tls.CT

/-- the tag the receiver compares, MAC-then-encrypt without block cipher -/
def presentedTagStream {S} (P : Prims S) (u : Bool) (rst : St S) (body : Bytes) : Bytes :=
  let d := if u then (P.dec rst.cs body).2 else body
  (d.drop (d.length - P.mac.dlen)).take P.mac.dlen

theorem accept_mteStream {S} (P : Prims S) (c : Cfg) (hmac : c.hasMac = true) (u : Bool)
    (s0 : St S) (sent : List (UInt8 × Bytes)) (k : Nat) (rst : St S)
    (hk : rst.seq = s0.seq + k) (hb : s0.seq + sent.length < 2 ^ 64) (hkn : k ≤ sent.length)
    (t : UInt8) (body : Bytes) (st' : St S) (p : Bytes)
    (hacc : decStream P c u rst t body = .ok (st', p)) :
    (∃ h : k < sent.length, sent[k] = (t, p)) ∨
      MacForgery P (logMte c (trace (protMteStream P c u) s0 sent)) (macInput rst.seq t c p)
        (presentedTagStream P u rst body) := by
  unfold decStream at hacc
  simp only [hmac, if_true] at hacc
  generalize hr : (if u = true then P.dec rst.cs body else (rst.cs, body)) = r at hacc
  have hpt : presentedTagStream P u rst body = (r.2.drop (r.2.length - P.mac.dlen)).take P.mac.dlen := by
    unfold presentedTagStream; rw [← hr]; cases u <;> rfl
  by_cases h1 : P.mac.dlen > r.2.length
  · simp [h1] at hacc
  · simp only [h1, if_false] at hacc
    by_cases hdig : (P.mac.digest (macInput rst.seq t c (dropLast P.mac.dlen r.2)) ==
        (r.2.drop (r.2.length - P.mac.dlen)).take P.mac.dlen) = true
    · simp only [hdig, if_true, Except.ok.injEq, Prod.mk.injEq] at hacc
      obtain ⟨_, hp⟩ := hacc
      rw [hp] at hdig
      have hdig' := beq_iff_eq.mp hdig
      by_cases hin : macInput rst.seq t c p ∈ logMte c (trace (protMteStream P c u) s0 sent)
      · left
        obtain ⟨j, hj, heq, hsj⟩ := log_index (protMteStream P c u) (seq_mteStream P c hmac u) _ s0 sent _ hin
        simp only at heq
        obtain ⟨h1, h2, h3⟩ := macInput_inj c _ _ _ _ _ _ (by omega) (by omega) heq
        have : j = k := by omega
        subst this
        exact ⟨hj, by rw [h2, h3]⟩
      · right
        rw [hpt]
        exact ⟨hdig', hin⟩
    · simp [hdig] at hacc

/-- the decrypted CBC body the check runs on -/
def cbcData {S} (P : Prims S) (c : Cfg) (rst : St S) (body : Bytes) : Bytes :=
  if c.verGe 3 2 then (P.dec rst.cs body).2.drop P.bs else (P.dec rst.cs body).2

def presentedTagCbc {S} (P : Prims S) (c : Cfg) (rst : St S) (body : Bytes) : Bytes :=
  ((cbcData P c rst body).drop (stripPadMac P.mac (cbcData P c rst body)).length).take P.mac.dlen

theorem accept_mteCbc {S} (P : Prims S) (hm : MacLaw P) (hbl : BlockLaw P) (c : Cfg) (hmac : c.hasMac = true)
    (s0 : St S) (sent : List (UInt8 × Bytes)) (k : Nat) (rst : St S)
    (hk : rst.seq = s0.seq + k) (hb : s0.seq + sent.length < 2 ^ 64) (hkn : k ≤ sent.length)
    (t : UInt8) (body : Bytes) (hbody : body.length < 2 ^ 16) (st' : St S) (p : Bytes)
    (hacc : decCbc P c rst t body = .ok (st', p)) :
    (∃ h : k < sent.length, sent[k] = (t, p)) ∨
      MacForgery P (logMte c (trace (protMteCbc P c) s0 sent)) (macInput rst.seq t c p)
        (presentedTagCbc P c rst body) := by
  unfold decCbc at hacc
  by_cases hmod : (body.length % P.bs != 0) = true
  · simp [hmod] at hacc
  · simp only [hmod, if_false] at hacc
    have hdata : (if c.verGe 3 2 = true then (P.dec rst.cs body).2.drop P.bs else (P.dec rst.cs body).2) =
        cbcData P c rst body := rfl
    simp only [hdata] at hacc
    by_cases hchk : (!cbcCheck P.mac (cbcData P c rst body) (seqBytes rst.seq) t c.vmaj c.vmin P.bs) = true
    · simp [hchk] at hacc
    · simp only [hchk, if_false] at hacc
      have hchk' : cbcCheck P.mac (cbcData P c rst body) (seqBytes rst.seq) t c.vmaj c.vmin P.bs = true := by
        cases hh : cbcCheck P.mac (cbcData P c rst body) (seqBytes rst.seq) t c.vmaj c.vmin P.bs
        · simp [hh] at hchk
        · rfl
      simp only [Bool.false_eq_true, if_false, Except.ok.injEq, Prod.mk.injEq] at hacc
      obtain ⟨_, hp⟩ := hacc
      have hlen : (cbcData P c rst body).length < 2 ^ 31 := by
        unfold cbcData
        have := hbl.dec_len rst.cs body
        split <;> simp <;> omega
      have hdec := cbcCheck_accept_decomp P.mac (cbcData P c rst body) (seqBytes rst.seq) t c.vmaj c.vmin P.bs
        hm.len hm.block hlen (by have := hm.small; omega) (by have := hbl.bs_le; omega) hchk'
      rw [hp] at hdec
      obtain ⟨hdec, _⟩ := hdec
      have htag : presentedTagCbc P c rst body = P.mac.digest (macInput rst.seq t c p) := by
        unfold presentedTagCbc
        rw [hp]
        have hx : macInput rst.seq t c p = macHeader (seqBytes rst.seq) t c.vmaj c.vmin p.length ++ p := rfl
        rw [hx]
        generalize hg : P.mac.digest (macHeader (seqBytes rst.seq) t c.vmaj c.vmin p.length ++ p) = tg at hdec ⊢
        have htl : tg.length = P.mac.dlen := by rw [← hg]; exact hm.len _
        rw [hdec, List.append_assoc, List.drop_left, List.take_left' htl]
      by_cases hin : macInput rst.seq t c p ∈ logMte c (trace (protMteCbc P c) s0 sent)
      · left
        obtain ⟨j, hj, heq, hsj⟩ := log_index (protMteCbc P c) (seq_mteCbc P c hmac) _ s0 sent _ hin
        simp only at heq
        obtain ⟨h1, h2, h3⟩ := macInput_inj c _ _ _ _ _ _ (by omega) (by omega) heq
        have : j = k := by omega
        subst this
        exact ⟨hj, by rw [h2, h3]⟩
      · right
        exact ⟨htag.symm, hin⟩

theorem dropLast_append_lastN (n : Nat) (d : Bytes) (hn : 0 < n) (h : n ≤ d.length) :
    dropLast n d ++ lastN n d = d := by
  unfold dropLast lastN
  have : n ≠ 0 := by omega
  simp only [this, if_false]
  exact List.take_append_drop _ _

/-- encrypt-then-MAC: byte-level conclusion -/
theorem accept_etm {S} (P : Prims S) (hm : MacLaw P) (hbl : BlockLaw P) (c : Cfg) (hmac : c.hasMac = true)
    (hiv : c.verGe 3 2 = true → c.fixedIV.length = P.bs)
    (s0 : St S) (sent : List (UInt8 × Bytes)) (k : Nat) (rst : St S)
    (hsync : rst = runState (protEtm P c true) s0 (sent.take k))
    (hb : s0.seq + sent.length < 2 ^ 64) (hkn : k ≤ sent.length)
    (t : UInt8) (body : Bytes) (st' : St S) (p : Bytes)
    (hacc : decEtm P c true rst t body = .ok (st', p)) :
    (∃ h : k < sent.length, sent[k] = (t, p) ∧ body = (protEtm P c true rst sent[k].1 sent[k].2).2) ∨
      MacForgery P (logEtm P c (trace (protEtm P c true) s0 sent))
        (macInput rst.seq t c (dropLast P.mac.dlen body)) (lastN P.mac.dlen body) := by
  have hseqk : rst.seq = s0.seq + k := by
    rw [hsync, runState_seq _ (seq_etm P c hmac true)]; simp; omega
  have hacc0 := hacc
  unfold decEtm at hacc
  simp only [hmac, if_true] at hacc
  by_cases hshort : body.length < P.mac.dlen
  · simp [hshort] at hacc
  · simp only [hshort, if_false] at hacc
    by_cases hdig : (P.mac.digest (macInput rst.seq t c (dropLast P.mac.dlen body)) == lastN P.mac.dlen body) = true
    · have hdig' := beq_iff_eq.mp hdig
      by_cases hin : macInput rst.seq t c (dropLast P.mac.dlen body) ∈ logEtm P c (trace (protEtm P c true) s0 sent)
      · left
        obtain ⟨j, hj, heq, hsj⟩ := log_index (protEtm P c true) (seq_etm P c hmac true) _ s0 sent _ hin
        simp only at heq
        obtain ⟨h1, h2, h3⟩ := macInput_inj c _ _ _ _ _ _ (by omega) (by omega) heq
        have hjk : j = k := by omega
        subst hjk
        rw [← hsync] at h3 h1
        have hbody : body = (protEtm P c true rst sent[j].1 sent[j].2).2 := by
          unfold protEtm
          simp only [hmac, if_true]
          rw [← h3, ← h2, hdig']
          exact (dropLast_append_lastN _ _ hm.pos (by omega)).symm
        refine ⟨hj, ?_, hbody⟩
        have hrt := rt_etm P hm hbl c hiv rst sent[j].1 sent[j].2
        rw [← hbody, ← h2] at hrt
        rw [hrt] at hacc0
        simp only [Except.ok.injEq, Prod.mk.injEq] at hacc0
        rw [h2, ← hacc0.2]
      · right
        exact ⟨hdig', hin⟩
    · simp [hdig] at hacc

/-- what the receiver feeds to `open` in TLS ≤ 1.2 -/
def presented12 {S} (P : Prims S) (c : Cfg) (rst : St S) (h : Rec) : Bytes × Bytes × Bytes :=
  let n := if c.explicitNonce then c.fixedNonce ++ h.body.take 8 else nonce c rst.seq
  let ct := if c.explicitNonce then h.body.drop 8 else h.body
  (n, aad12 rst.seq h.typ c.vmaj c.vmin (ct.length - P.tagLen), ct)

theorem accept_aead12 {S} (P : Prims S) (ha : AeadLaw P) (c : Cfg) (h13 : c.is13 = false)
    (hname : c.nameHasAes = true → c.nameIsChacha = false)
    (s0 : St S) (sent : List (UInt8 × Bytes)) (hsl : ∀ x ∈ sent, x.2.length < 2 ^ 16)
    (k : Nat) (rst : St S) (hk : rst.seq = s0.seq + k) (hb : s0.seq + sent.length < 2 ^ 64) (hkn : k ≤ sent.length)
    (h : Rec) (hbody : h.body.length < 2 ^ 16) (st' : St S) (p : Bytes)
    (hacc : decAead P c rst h = .ok (st', p)) :
    (∃ hk : k < sent.length, sent[k] = (h.typ, p) ∧ h.body = (protAead P c rst h.typ p).2) ∨
      AeadForgery P (logAead12 P c (trace (protAead P c) s0 sent))
        (presented12 P c rst h).1 (presented12 P c rst h).2.1 (presented12 P c rst h).2.2 := by
  unfold decAead at hacc
  simp only [h13, Bool.not_false, if_true] at hacc
  by_cases h8 : (c.explicitNonce && decide (8 > h.body.length)) = true
  · simp [h8] at hacc
  · simp only [h8, if_false] at hacc
    by_cases htl : P.tagLen > (if c.explicitNonce = true then h.body.drop 8 else h.body).length
    · simp [htl] at hacc
    · simp only [htl, if_false] at hacc
      have hpres : presented12 P c rst h =
          (if c.explicitNonce = true then c.fixedNonce ++ h.body.take 8 else nonce c rst.seq,
           aad12 rst.seq h.typ c.vmaj c.vmin
             ((if c.explicitNonce = true then h.body.drop 8 else h.body).length - P.tagLen),
           if c.explicitNonce = true then h.body.drop 8 else h.body) := rfl
      generalize hn : (if c.explicitNonce = true then c.fixedNonce ++ h.body.take 8 else nonce c rst.seq) = n at hacc hpres
      generalize hct : (if c.explicitNonce = true then h.body.drop 8 else h.body) = ct at hacc hpres htl
      rw [hpres]
      simp only
      have hctl : ct.length < 2 ^ 16 := by
        rw [← hct]; split <;> simp <;> omega
      cases hop : P.aeadOpen n ct (aad12 rst.seq h.typ c.vmaj c.vmin (ct.length - P.tagLen)) with
      | none => simp [hop] at hacc
      | some q =>
        simp only [Bool.false_eq_true, if_false, hop, Except.ok.injEq, Prod.mk.injEq] at hacc
        obtain ⟨_, hq⟩ := hacc
        subst hq
        by_cases hin : (n, aad12 rst.seq h.typ c.vmaj c.vmin (ct.length - P.tagLen), ct) ∈
            logAead12 P c (trace (protAead P c) s0 sent)
        · left
          obtain ⟨j, hj, heq, hsj⟩ := log_index (protAead P c) (seq_aead P c) _ s0 sent _ hin
          simp only [Prod.mk.injEq] at heq
          obtain ⟨e1, e2, e3⟩ := heq
          have hpl := hsl sent[j] (List.getElem_mem hj)
          obtain ⟨a1, a2, a3⟩ := aad12_inj _ _ _ _ _ _ _ _ (by omega) (by omega) (by omega) hpl e2
          have hjk : j = k := by omega
          subst hjk
          rw [← a1] at e1 e3
          rw [← a2, ← a3] at e3
          -- the plaintext
          have hq : q = sent[j].2 := by
            have := ha.open_seal (nonce c rst.seq) sent[j].2 (aad12 rst.seq h.typ c.vmaj c.vmin (ct.length - P.tagLen))
            rw [← e3, ← e1, hop] at this
            exact (Option.some.inj this)
          refine ⟨hj, by rw [a2, hq], ?_⟩
          unfold protAead
          simp only [h13, Bool.not_false, if_true]
          rw [hq, ← a3, ← e3]
          cases he : c.explicitNonce
          · simp only [he, Bool.false_eq_true, if_false] at hct ⊢
            first | exact hct | exact hct.symm
          · simp only [he, if_true] at hct hn ⊢
            have haes : c.nameHasAes = true := by
              unfold Cfg.explicitNonce at he; simp at he; exact he.1
            have hx : c.xorNonce = false := by
              unfold Cfg.xorNonce; simp [hname haes, h13]
            have hn2 : nonce c rst.seq = c.fixedNonce ++ seqBytes rst.seq := by
              unfold nonce; simp [hx]
            rw [← hn, hn2] at e1
            have := List.append_cancel_left e1
            rw [← this, ← hct]
            exact (List.take_append_drop 8 h.body).symm
        · right
          exact ⟨by rw [hop]; rfl, hin⟩

/-- close a goal whose hypothesis `recvRecord … = .ok …` has been reduced to an error/skip branch -/
macro "absurd_recv" h:ident : tactic =>
  `(tactic| first
      | (simp at $h:ident; done)
      | (simp at $h:ident; split at $h:ident <;> simp at $h:ident; done)
      | (split at $h:ident <;> simp at $h:ident; done))

/-! ### TLS 1.3, at the level of `recvRecord` (outer header checks, open, de-padding) -/

/-- the TLS 1.3 sender: wrap into TLSInnerPlaintext, seal under header type 23 -/
def send13 {S} (P : Prims S) (c : Cfg) (padCb : Option PadCb) (sendLimit : Nat) :
    St S → UInt8 → Bytes → St S × Bytes :=
  fun s t p => protAead P c s 23 (innerPlain padCb sendLimit t p)

/-- (nonce, aad, sealed) triples of the TLS 1.3 sender -/
def log13 {S} (P : Prims S) (c : Cfg) (padCb : Option PadCb) (sendLimit : Nat)
    (tr : List (St S × UInt8 × Bytes)) : List (Bytes × Bytes × Bytes) :=
  tr.map fun x =>
    (nonce c x.1.seq, aad13 23 3 3 ((innerPlain padCb sendLimit x.2.1 x.2.2).length + P.tagLen),
     P.aeadSeal (nonce c x.1.seq) (innerPlain padCb sendLimit x.2.1 x.2.2)
       (aad13 23 3 3 ((innerPlain padCb sendLimit x.2.1 x.2.2).length + P.tagLen)))

theorem send13_body {S} (P : Prims S) (c : Cfg) (h13 : c.is13 = true) (padCb : Option PadCb) (sendLimit : Nat)
    (s : St S) (t : UInt8) (p : Bytes) :
    (send13 P c padCb sendLimit s t p).2 =
      P.aeadSeal (nonce c s.seq) (innerPlain padCb sendLimit t p)
        (aad13 23 3 3 ((innerPlain padCb sendLimit t p).length + P.tagLen)) := by
  unfold send13 protAead
  have he : c.explicitNonce = false := by unfold Cfg.explicitNonce; simp [h13]
  have hr : c.recVer = (3, 3) := by unfold Cfg.recVer; simp [h13]
  simp [h13, he, hr]

theorem accept_tls13 {S} (P : Prims S) (ha : AeadLaw P) (c : Cfg) (h13 : c.is13 = true) (hci : c.cipher = .aead)
    (hfn : 8 ≤ c.fixedNonce.length) (padCb : Option PadCb) (sendLimit : Nat)
    (s0 : St S) (sent : List (UInt8 × Bytes)) (hsent : ∀ x ∈ sent, x.1 ≠ 0)
    (k : Nat) (rv : Recv S) (hk : rv.st.seq = s0.seq + k) (hb : s0.seq + sent.length < 2 ^ 64) (hkn : k ≤ sent.length)
    (h : Rec) (htyp : h.typ = 23) (rv' : Recv S) (t : UInt8) (p : Bytes)
    (hacc : recvRecord P c rv h = .ok rv' t p) :
    (∃ hk : k < sent.length, sent[k] = (t, p) ∧ h.body = (send13 P c padCb sendLimit rv.st sent[k].1 sent[k].2).2) ∨
      AeadForgery P (log13 P c padCb sendLimit (trace (send13 P c padCb sendLimit) s0 sent))
        (nonce c rv.st.seq) (aad13 23 3 3 h.body.length) h.body := by
  have he : c.explicitNonce = false := by unfold Cfg.explicitNonce; simp [h13]
  have hx : c.xorNonce = true := by unfold Cfg.xorNonce; simp [h13]
  have hne : (c.cipher != Cipher.null) = true := by rw [hci]; decide
  have hae : (c.cipher == Cipher.aead) = true := by rw [hci]; decide
  have h2320 : ((23 : UInt8) == 20) = false := by decide
  have h2321 : ((23 : UInt8) == 21) = false := by decide
  unfold recvRecord at hacc
  by_cases ho1 : h.body.length > rv.recvLimit + 1024 + 1024
  · simp only [ho1, if_true] at hacc; absurd_recv hacc
  · simp only [ho1, if_false] at hacc
    by_cases ho2 : (c.tls13record && decide (h.body.length > rv.recvLimit + 256)) = true
    · simp only [ho2, if_true] at hacc; absurd_recv hacc
    · simp only [ho2, if_false] at hacc
      -- the decryption dispatch
      have hdec : decrypt P c rv h = decAead P c rv.st h := by
        unfold decrypt
        simp only [h13, htyp, h2320, h2321, hae, Bool.true_and, Bool.false_and, Bool.false_eq_true, if_false, if_true]
        cases decAead P c rv.st h with
        | error e => rfl
        | ok x =>
          have : (Cipher.aead == Cipher.null) = false := by decide
          simp [hci, this]
      rw [hdec] at hacc
      unfold decAead at hacc
      simp only [he, h13, htyp, Bool.false_and, Bool.false_eq_true, if_false, Bool.not_true,
        bne_self_eq_false] at hacc
      by_cases htl : P.tagLen > h.body.length
      · simp only [htl, if_true] at hacc; absurd_recv hacc
      · simp only [htl, if_false] at hacc
        by_cases hver : (!(h.vmaj == 3 && h.vmin == 3)) = true
        · simp only [hver, if_true] at hacc; absurd_recv hacc
        · simp only [hver, if_false] at hacc
          have hv : h.vmaj = 3 ∧ h.vmin = 3 := by
            simp at hver; exact hver
          rw [hv.1, hv.2] at hacc
          cases hop : P.aeadOpen (nonce c rv.st.seq) h.body (aad13 23 3 3 h.body.length) with
          | none => simp only [hop] at hacc; absurd_recv hacc
          | some inner =>
            simp only [hop, hne, Bool.true_and, beq_self_eq_true, if_true, Bool.false_eq_true, if_false] at hacc
            by_cases hin : (nonce c rv.st.seq, aad13 23 3 3 h.body.length, h.body) ∈
                log13 P c padCb sendLimit (trace (send13 P c padCb sendLimit) s0 sent)
            · left
              obtain ⟨j, hj, heq, hsj⟩ := log_index (send13 P c padCb sendLimit)
                (fun s t p => by unfold send13; exact seq_aead P c s 23 _) _ s0 sent _ hin
              simp only [Prod.mk.injEq] at heq
              obtain ⟨e1, e2, e3⟩ := heq
              have hseq := nonce_inj c (fun _ => hfn) _ _ (by omega) (by omega) e1
              have hjk : j = k := by omega
              subst hjk
              rw [← hseq] at e3
              have hinner : inner = innerPlain padCb sendLimit sent[j].1 sent[j].2 := by
                have := ha.open_seal (nonce c rv.st.seq) (innerPlain padCb sendLimit sent[j].1 sent[j].2)
                  (aad13 23 3 3 ((innerPlain padCb sendLimit sent[j].1 sent[j].2).length + P.tagLen))
                rw [← e3, ← e2, hop] at this
                exact Option.some.inj this
              have hdp : dePad inner = some (sent[j].2, sent[j].1) := by
                rw [hinner, innerPlain_eq]
                exact dePad_inner _ _ _ (hsent _ (List.getElem_mem hj))
              by_cases hov : inner.length > rv.recvLimit + 1
              · simp only [hov, if_true] at hacc; absurd_recv hacc
              · simp only [hov, if_false, hdp] at hacc
                by_cases hov2 : sent[j].2.length > rv.recvLimit
                · simp only [hov2, if_true] at hacc; absurd_recv hacc
                · simp only [hov2, if_false, RecvResult.ok.injEq] at hacc
                  refine ⟨hj, ?_, ?_⟩
                  · rw [← hacc.2.1, ← hacc.2.2]
                  · rw [send13_body P c h13, e3]
            · right
              exact ⟨by rw [hop]; rfl, hin⟩

/-- which records TLS 1.3 lets through without protection once keys are installed: only
    ChangeCipherSpec, and — until the handshake is done (`plaintext_alerts_ok`) — alerts shorter
    than 3 bytes while no protected record has been received under the current key;
    they are returned with their own type (never as application data) and leave the state alone -/
theorem tls13_unprotected {S} (P : Prims S) (c : Cfg) (h13 : c.is13 = true) (hci : c.cipher = .aead)
    (rv : Recv S) (h : Rec) (htyp : h.typ ≠ 23) (rv' : Recv S) (t : UInt8) (p : Bytes)
    (hacc : recvRecord P c rv h = .ok rv' t p) :
    (h.typ = 20 ∨ (h.typ = 21 ∧ h.body.length < 3 ∧ rv.plaintextAlertsOk = true ∧ rv.st.seq = 0)) ∧
      t = h.typ ∧ p = h.body ∧ rv'.st = rv.st := by
  have hne : (c.cipher != Cipher.null) = true := by rw [hci]; decide
  have hae : (c.cipher == Cipher.aead) = true := by rw [hci]; decide
  have he : c.explicitNonce = false := by unfold Cfg.explicitNonce; simp [h13]
  have ht23 : (h.typ == 23) = false := by simp [htyp]
  unfold recvRecord at hacc
  by_cases ho1 : h.body.length > rv.recvLimit + 1024 + 1024
  · simp only [ho1, if_true] at hacc; absurd_recv hacc
  · simp only [ho1, if_false] at hacc
    by_cases ho2 : (c.tls13record && decide (h.body.length > rv.recvLimit + 256)) = true
    · simp only [ho2, if_true] at hacc; absurd_recv hacc
    · simp only [ho2, if_false] at hacc
      unfold decrypt at hacc
      simp only [h13, Bool.true_and, hne, hae, if_true] at hacc
      have hnull : (c.cipher == Cipher.null) = false := by rw [hci]; decide
      by_cases h20 : (h.typ == 20) = true
      · simp only [h20, if_true, hnull, Bool.false_and, Bool.false_eq_true, if_false, ht23, Bool.and_false] at hacc
        by_cases hov : h.body.length > rv.recvLimit
        · simp only [hov, if_true] at hacc; absurd_recv hacc
        · simp only [hov, if_false, RecvResult.ok.injEq] at hacc
          refine ⟨Or.inl (by simpa using h20), hacc.2.1.symm, hacc.2.2.symm, ?_⟩
          rw [← hacc.1]
      · simp only [h20, Bool.false_eq_true, if_false, Bool.and_true] at hacc
        by_cases h21 : (h.typ == 21 && decide (h.body.length < 3) && rv.plaintextAlertsOk && rv.st.seq == 0) = true
        · simp only [h21, if_true, hnull, Bool.false_and, Bool.false_eq_true, if_false, ht23, Bool.and_false] at hacc
          by_cases hov : h.body.length > rv.recvLimit
          · simp only [hov, if_true] at hacc; absurd_recv hacc
          · simp only [hov, if_false, RecvResult.ok.injEq] at hacc
            simp at h21
            refine ⟨Or.inr ⟨h21.1.1.1, h21.1.1.2, h21.1.2, h21.2⟩, hacc.2.1.symm, hacc.2.2.symm, ?_⟩
            rw [← hacc.1]
        · simp only [h21, Bool.false_eq_true, if_false] at hacc
          -- protected path with a header type other than 23: unexpected_message
          unfold decAead at hacc
          simp only [he, h13, Bool.false_and, Bool.false_eq_true, if_false, Bool.not_true] at hacc
          have hne23 : (h.typ != 23) = true := by simp [htyp]
          by_cases htl : P.tagLen > h.body.length
          · simp only [htl, if_true] at hacc; absurd_recv hacc
          · simp only [htl, if_false, hne23, if_true] at hacc; absurd_recv hacc

/-- in TLS ≤ 1.2 whatever `recvRecord` accepts was accepted by the decryption dispatch with the
    header's own content type: the outer layers (length caps, early-data window, limit checks) can
    only turn an accept into a reject -/
theorem recvRecord_ok_decrypt_aux {S} (P : Prims S) (c : Cfg) (h13 : c.is13 = false) (rv rv' : Recv S) (h : Rec)
    (t : UInt8) (p : Bytes) (hacc : recvRecord P c rv h = .ok rv' t p) :
    decrypt P c rv h = .ok (rv'.st, p) ∧ t = h.typ := by
  unfold recvRecord at hacc
  by_cases ho1 : h.body.length > rv.recvLimit + 1024 + 1024
  · simp only [ho1, if_true] at hacc; absurd_recv hacc
  · simp only [ho1, if_false] at hacc
    by_cases ho2 : (c.tls13record && decide (h.body.length > rv.recvLimit + 256)) = true
    · simp only [ho2, if_true] at hacc; absurd_recv hacc
    · simp only [ho2, if_false, h13, Bool.false_and, Bool.false_eq_true] at hacc
      cases hd : decrypt P c rv h with
      | error e =>
        rw [hd] at hacc
        cases e <;> simp only at hacc <;> absurd_recv hacc
      | ok x =>
        obtain ⟨st', data⟩ := x
        rw [hd] at hacc
        simp only at hacc
        by_cases hov : data.length > rv.recvLimit
        · simp only [hov, if_true] at hacc; absurd_recv hacc
        · simp only [hov, if_false, RecvResult.ok.injEq] at hacc
          obtain ⟨e1, e2, e3⟩ := hacc
          subst e1; subst e2; subst e3
          exact ⟨rfl, rfl⟩

/-- which unprotect path the dispatch takes, by configuration (TLS ≤ 1.2, outside the early-data window) -/
theorem decrypt_path_aux {S} (P : Prims S) (c : Cfg) (h13 : c.is13 = false) (rv : Recv S) (hearly : rv.earlyOk = false) (h : Rec) :
    decrypt P c rv h =
      (if c.cipher == .aead then decAead P c rv.st h
       else if c.etm then (match c.cipher with
          | .null => decEtm P c false rv.st h.typ h.body
          | _ => decEtm P c true rv.st h.typ h.body)
       else match c.cipher with
          | .block => decCbc P c rv.st h.typ h.body
          | .null => decStream P c false rv.st h.typ h.body
          | _ => decStream P c true rv.st h.typ h.body) := by
  unfold decrypt
  simp only [h13, hearly, Bool.false_and, Bool.false_eq_true, if_false, Bool.and_false]
  split <;> rename_i heq <;> exact heq.symm

end Tls.Rec
