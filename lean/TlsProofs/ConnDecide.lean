import TlsProofs.Conn
/-
  Decision lemmas for single steps of the connection model: what `_getMsg` / `readAsync` do with a
  given head record (used by the decision theorems of C16 and C17).
-/
namespace Tls.Conn

theorem getMsg_step_err {e s : List Nat} {f : Nat} {l l' : Local} {x : Exc}
    (h : getMsgStep e s l = (.err x, l')) : getMsg e s (f+1) l = (.err x, l') := by simp [getMsg, h]

theorem getMsg_step_got {e s : List Nat} {f : Nat} {l l' : Local} {m : Msg}
    (h : getMsgStep e s l = (.ok (.got m), l')) : getMsg e s (f+1) l = (.ok m, l') := by simp [getMsg, h]

theorem getMsg_step_stall {e s : List Nat} {f : Nat} {l l' : Local}
    (h : getMsgStep e s l = (.stall, l')) : getMsg e s (f+1) l = (.stall, l') := by simp [getMsg, h]

theorem getMsg_step_again {e s : List Nat} {f : Nat} {l l' : Local}
    (h : getMsgStep e s l = (.ok .again, l')) : getMsg e s (f+1) l = getMsg e s f l' := by simp [getMsg, h]

/-- the head record removed -/
def popped (l : Local) (rest : List Rec) : Local := { l with inc := { l.inc with recs := rest } }

/-- the state after answering with the fatal alert `d` -/
def fatalOn (l : Local) (d : Nat) : Local :=
  shutdown false { l with out := { l.out with recs := l.out.recs ++ [⟨l.me.writeGen, .alert 2 d⟩] } }

theorem sendError_open {α : Type} (d : Nat) (l : Local) (hopen : l.me.closed = false) (htx : l.me.txDead = false) :
    sendError (α := α) d l = (.err (.localAlert d), fatalOn l d) := by
  simp [sendError, sendRaw, hopen, htx, fatalOn]

theorem nextRecord_head (l : Local) (m : Msg) (rest : List Rec)
    (hin : l.inc.recs = ⟨l.me.readGen, m⟩ :: rest) (hm1 : m ≠ .emptyRec) (hm2 : m ≠ .unknownCt) :
    nextRecord l = (.ok m, popped l rest) := by
  cases m <;> simp_all [nextRecord, popped]

theorem nextRecord_head_bad (l : Local) (m : Msg) (rest : List Rec) (hopen : l.me.closed = false)
    (htx : l.me.txDead = false) (hin : l.inc.recs = ⟨l.me.readGen, m⟩ :: rest)
    (hm : m = .emptyRec ∨ m = .unknownCt) :
    nextRecord l = (.err (.localAlert 10), fatalOn (popped l rest) 10) := by
  rcases hm with rfl | rfl <;> simp [nextRecord, hin, sendError_open, hopen, htx, popped]

/-- a record of a type that is not expected, is no alert, no renegotiation attempt and no
    permitted heartbeat: fatal unexpected_message -/
theorem getMsgStep_unexpected (e s : List Nat) (l : Local) (m : Msg) (rest : List Rec)
    (hopen : l.me.closed = false) (htx : l.me.txDead = false)
    (hin : l.inc.recs = ⟨l.me.readGen, m⟩ :: rest)
    (hct : e.contains m.ct = false) (hal : ∀ a b, m ≠ .alert a b)
    (hre : ¬ (m.ct = 22 ∧ m.hsType = renegType l.me.isClient))
    (hhb : ¬ (m.ct = 24 ∧ l.me.hbSupported = true)) :
    getMsgStep e s l = (.err (.localAlert 10), fatalOn (popped l rest) 10) := by
  by_cases hm : m = .emptyRec ∨ m = .unknownCt
  · unfold getMsgStep
    rw [nextRecord_head_bad l m rest hopen htx hin hm]
  · have hm' : m ≠ .emptyRec ∧ m ≠ .unknownCt := by
      constructor <;> intro h <;> exact hm (by simp [h])
    unfold getMsgStep
    rw [nextRecord_head l m rest hin hm'.1 hm'.2]
    have ho : (popped l rest).me.closed = false := hopen
    have ht : (popped l rest).me.txDead = false := htx
    cases m <;> simp_all [Msg.ct, Msg.hsType, sendError_open, popped]

theorem getMsgStep_headbad (e s : List Nat) (l : Local) (m : Msg) (rest : List Rec)
    (hopen : l.me.closed = false) (htx : l.me.txDead = false)
    (hin : l.inc.recs = ⟨l.me.readGen, m⟩ :: rest) (hm : m = .emptyRec ∨ m = .unknownCt) :
    getMsgStep e s l = (.err (.localAlert 10), fatalOn (popped l rest) 10) := by
  unfold getMsgStep
  rw [nextRecord_head_bad l m rest hopen htx hin hm]

/-- a heartbeat request when the negotiated mode does not let the peer send one -/
theorem getMsgStep_heartbeat_forbidden (e s : List Nat) (l : Local) (p : Bytes) (n : Nat) (rest : List Rec)
    (hopen : l.me.closed = false) (htx : l.me.txDead = false)
    (hin : l.inc.recs = ⟨l.me.readGen, .heartbeat 1 p n⟩ :: rest)
    (hct : e.contains 24 = false) (hs : l.me.hbSupported = true) (hr : l.me.hbCanRecv = false) :
    getMsgStep e s l = (.err (.localAlert 10), fatalOn (popped l rest) 10) := by
  unfold getMsgStep
  rw [nextRecord_head l _ rest hin (by simp) (by simp)]
  have ho : (popped l rest).me.closed = false := hopen
  have ht : (popped l rest).me.txDead = false := htx
  simp_all [Msg.ct, Msg.hsType, sendError_open, popped]

/-- a handshake message whose type the caller does not allow -/
theorem getMsgStep_badsub (e s : List Nat) (l : Local) (m : Msg) (rest : List Rec)
    (hopen : l.me.closed = false) (htx : l.me.txDead = false)
    (hin : l.inc.recs = ⟨l.me.readGen, m⟩ :: rest) (hm1 : m ≠ .emptyRec)
    (hct : e.contains 22 = true) (h22 : m.ct = 22) (hsub : s.contains m.hsType = false) :
    getMsgStep e s l = (.err (.localAlert 10), fatalOn (popped l rest) 10) := by
  unfold getMsgStep
  rw [nextRecord_head l m rest hin hm1 (by intro h; simp [h, Msg.ct] at h22)]
  have ho : (popped l rest).me.closed = false := hopen
  have ht : (popped l rest).me.txDead = false := htx
  cases m <;> simp_all [Msg.ct, Msg.hsType, sendError_open, popped]

/-- an allowed handshake type whose body does not parse -/
theorem getMsgStep_malformed (e s : List Nat) (l : Local) (t : Nat) (rest : List Rec)
    (hopen : l.me.closed = false) (htx : l.me.txDead = false)
    (hin : l.inc.recs = ⟨l.me.readGen, .hsMalformed t⟩ :: rest)
    (hct : e.contains 22 = true) (hsub : s.contains t = true) :
    getMsgStep e s l = (.err (.localAlert 50), fatalOn (popped l rest) 50) := by
  unfold getMsgStep
  rw [nextRecord_head l _ rest hin (by simp) (by simp)]
  have ho : (popped l rest).me.closed = false := hopen
  have ht : (popped l rest).me.txDead = false := htx
  simp_all [Msg.ct, Msg.hsType, sendError_open, popped]

/-- a KeyUpdate that does not end its record -/
theorem getMsgStep_kuco (e s : List Nat) (l : Local) (v : Nat) (rest : List Rec)
    (hopen : l.me.closed = false) (htx : l.me.txDead = false)
    (hin : l.inc.recs = ⟨l.me.readGen, .kuCoalesced v⟩ :: rest) (hct : e.contains 22 = true) :
    getMsgStep e s l = (.err (.localAlert 10), fatalOn (popped l rest) 10) := by
  unfold getMsgStep
  rw [nextRecord_head l _ rest hin (by simp) (by simp)]
  have ho : (popped l rest).me.closed = false := hopen
  have ht : (popped l rest).me.txDead = false := htx
  simp_all [Msg.ct, Msg.hsType, sendError_open, popped]

/-- an expected, allowed, well-formed message is handed to the caller -/
theorem getMsgStep_got (e s : List Nat) (l : Local) (m : Msg) (rest : List Rec)
    (hin : l.inc.recs = ⟨l.me.readGen, m⟩ :: rest)
    (hct : e.contains m.ct = true) (hsub : m.ct = 22 → s.contains m.hsType = true)
    (hm : (∃ d, m = .appData d ∧ d ≠ []) ∨ (∃ v, m = .keyUpdate v) ∨ m = .newSessionTicket ∨
          (∃ c a, m = .certRequest c a) ∨ (∃ c ch, m = .certificate c ch) ∨
          (∃ a b c, m = .certVerify a b c) ∨ (∃ o, m = .finished o) ∨ (∃ a b, m = .alert a b)) :
    getMsgStep e s l = (.ok (.got m), popped l rest) := by
  unfold getMsgStep
  rcases hm with ⟨d, rfl, hd⟩ | ⟨v, rfl⟩ | rfl | ⟨c, a, rfl⟩ | ⟨c, ch, rfl⟩ | ⟨a, b, c, rfl⟩ | ⟨o, rfl⟩ | ⟨a, b, rfl⟩ <;>
    rw [nextRecord_head l _ rest hin (by simp) (by simp)] <;>
    simp_all [Msg.ct, Msg.hsType, popped]


/-! ### `readAsync` on a decisive first message -/

/-- an exception other than close_notify / abrupt close raised by the first round ends the read:
    `_shutdown(False)` and re-raise -/
theorem read_of_iter_err (l l1 : Local) (mx : Option Nat) (mn : Nat) (e : Exc)
    (hopen : l.me.closed = false) (hbuf : l.me.readBuf = [])
    (hi : readIter (l.me.ver13 && !l.me.closed) (allowedHs l.me) l = (.err e, l1))
    (h1 : e ≠ .remoteAlert 0) (h2 : e ≠ .abruptClose) :
    read mx mn l = (.err e, shutdown false l1) := by
  have hf : fuelOf l = l.inc.recs.length + 1 + 1 := rfl
  unfold read
  rw [hf, readLoop]
  simp only [hbuf, hopen, hi, List.length_nil, List.isEmpty_nil, Bool.and_self, Bool.or_true, Bool.not_false]
  cases e <;> simp_all

/-- the first round yields a message that is dispatched without touching the buffer and the read
    was asked for nothing more (`min = 0`): it returns the empty string -/
theorem read_min0_of_iter_ok (l l1 : Local) (mx : Option Nat)
    (hopen : l.me.closed = false) (hbuf : l.me.readBuf = [])
    (hi : readIter (l.me.ver13 && !l.me.closed) (allowedHs l.me) l = (.ok false, l1))
    (hb1 : l1.me.readBuf = []) :
    read mx 0 l = (.ok [], l1) := by
  have hf : fuelOf l = l.inc.recs.length + 1 + 1 := rfl
  unfold read
  simp only [hopen, Bool.not_false, Bool.and_true] at hi
  rw [hf, readLoop]
  simp only [hbuf, hopen, hi, List.length_nil, List.isEmpty_nil, Bool.and_self, Bool.or_true, Bool.not_false,
    Bool.and_true]
  rw [readLoop]
  simp [hb1]
  obtain ⟨me, inc, out⟩ := l1
  cases me
  simp_all

theorem readIter_of_step_err (is13 : Bool) (allowed : List Nat) (l l1 : Local) (e : Exc) (n : Nat)
    (hf : fuelOf l = n + 1)
    (hs : getMsgStep (if is13 then [23, 22] else [23]) (if is13 then allowed else []) l = (.err e, l1)) :
    readIter is13 allowed l = (.err e, l1) := by
  unfold readIter
  cases is13
  · simp only [Bool.false_eq_true, if_false] at hs ⊢; rw [hf, getMsg_step_err hs]
  · simp only [if_true] at hs ⊢; rw [hf, getMsg_step_err hs]

theorem readIter_of_step_got (is13 : Bool) (allowed : List Nat) (l l1 : Local) (m : Msg) (n : Nat)
    (hf : fuelOf l = n + 1)
    (hs : getMsgStep (if is13 then [23, 22] else [23]) (if is13 then allowed else []) l = (.ok (.got m), l1)) :
    (if is13 then getMsg [23, 22] allowed (fuelOf l) l else getMsg [23] [] (fuelOf l) l) = (.ok m, l1) := by
  cases is13
  · simp only [Bool.false_eq_true, if_false] at hs ⊢; rw [hf, getMsg_step_got hs]
  · simp only [if_true] at hs ⊢; rw [hf, getMsg_step_got hs]


/-! ### which control messages must be answered with a fatal alert -/

/-- The alert with which a reader in state `e` has to answer control message `m`, for the
    malformed, unsolicited and mode-forbidden classes (RFC 8446 4.6 / 6.2, RFC 6520 3); `none` for
    messages that are processed, silently dropped, or answered with a warning. -/
def fatalDesc (e : End) (m : Msg) : Option Nat :=
  match m with
  | .keyUpdate v => if e.ver13 then (if v == 0 || v == 1 then none else some 47) else some 10
  | .kuCoalesced _ => some 10
  | .hsMalformed t =>
    if e.ver13 then (if (allowedHs e).contains t then some 50 else some 10)
    else if t == renegType e.isClient then none else some 10
  | .hsOther t =>
    if e.ver13 then (if (allowedHs e).contains t then none else some 10)
    else if t == renegType e.isClient then none else some 10
  | .heartbeat mt _ _ =>
    if !e.hbSupported then some 10
    else if mt == 1 && !e.hbCanRecv then some 10 else none
  | .heartbeatBad => if !e.hbSupported then some 10 else none
  | .certRequest _ _ => if e.ver13 && e.hasKeypair then none else some 10
  | .certificate c _ =>
    if e.ver13 && !e.hasKeypair && !e.certReqs.isEmpty then
      (if c == 0 || !e.certReqs.contains c then some 47 else none)
    else some 10
  | .certVerify .. => some 10
  | .finished _ => some 10
  | .newSessionTicket => if e.ver13 then (if (allowedHs e).contains 4 then none else some 10) else some 10
  | .ccs => some 10
  | .emptyRec => some 10
  | .unknownCt => some 10
  | .appData _ => none
  | .alert .. => none

theorem allowedHs_cases (e : End) :
    allowedHs e = [4, 24, 13] ∨ allowedHs e = [24, 11, 25] ∨ allowedHs e = [4, 24] ∨ allowedHs e = [24] := by
  unfold allowedHs
  split
  · exact Or.inl rfl
  · split
    · exact Or.inr (Or.inl rfl)
    · split
      · exact Or.inr (Or.inr (Or.inl rfl))
      · exact Or.inr (Or.inr (Or.inr rfl))

theorem readIter_fatal (l : Local) (m : Msg) (rest : List Rec) (d : Nat)
    (hopen : l.me.closed = false) (htx : l.me.txDead = false)
    (hin : l.inc.recs = ⟨l.me.readGen, m⟩ :: rest) (hd : fatalDesc l.me m = some d) :
    readIter l.me.ver13 (allowedHs l.me) l = (.err (.localAlert d), fatalOn (popped l rest) d) := by
  have hf : fuelOf l = (rest.length + 2) + 1 := by simp [fuelOf, hin]
  cases h13 : l.me.ver13
  · -- TLS <= 1.2: only application data is expected
    apply readIter_of_step_err false _ l _ _ _ hf
    simp only [Bool.false_eq_true, if_false]
    by_cases hb : ∃ p n, m = .heartbeat 1 p n ∧ l.me.hbSupported = true
    · obtain ⟨p, n, rfl, hs⟩ := hb
      simp [fatalDesc, hs] at hd
      obtain ⟨hr, rfl⟩ := hd
      exact getMsgStep_heartbeat_forbidden _ _ l p n rest hopen htx hin rfl hs hr
    · have hd10 : d = 10 := by
        cases m <;> simp_all [fatalDesc] <;> (try split at hd) <;> simp_all
      subst hd10
      apply getMsgStep_unexpected _ _ l m rest hopen htx hin
      · cases m <;> simp_all [fatalDesc, Msg.ct]
      · intro a b hm; subst hm; simp [fatalDesc] at hd
      · intro ⟨h22, hty⟩
        cases m <;> simp_all [fatalDesc, Msg.ct, Msg.hsType, renegType] <;> (try split at hty) <;> simp_all
      · intro ⟨h24, hs⟩
        cases m <;> simp_all [fatalDesc, Msg.ct]
  · -- TLS 1.3: application data and the handshake types of `allowedHs`
    have h24 : (allowedHs l.me).contains 24 = true := by
      rcases allowedHs_cases l.me with h | h | h | h <;> rw [h] <;> decide
    have hfin : ∀ (hs : getMsgStep [23, 22] (allowedHs l.me) l = (.err (.localAlert d), fatalOn (popped l rest) d)),
        readIter true (allowedHs l.me) l = (.err (.localAlert d), fatalOn (popped l rest) d) := by
      intro hs
      exact readIter_of_step_err true _ l _ _ _ hf (by simpa using hs)
    have hpo : (popped l rest).me.closed = false := hopen
    have hpt : (popped l rest).me.txDead = false := htx
    cases m with
    | keyUpdate v =>
      simp [fatalDesc, h13] at hd
      obtain ⟨⟨hv0, hv1⟩, rfl⟩ := hd
      have hg := readIter_of_step_got true (allowedHs l.me) l _ _ _ hf
        (by simpa using getMsgStep_got [23, 22] (allowedHs l.me) l (.keyUpdate v) rest hin (by simp [Msg.ct])
              (by intro _; simpa [Msg.hsType] using h24) (by simp))
      simp only [if_true] at hg
      unfold readIter
      simp [hg, handleKeyUpdate, hv0, hv1, sendError_open, hpo, hpt]
    | kuCoalesced v =>
      simp [fatalDesc] at hd; subst hd
      exact hfin (getMsgStep_kuco _ _ l v rest hopen htx hin (by decide))
    | hsMalformed t =>
      simp only [fatalDesc, h13, if_true] at hd
      split at hd
      · rename_i ht; cases hd
        exact hfin (getMsgStep_malformed _ _ l t rest hopen htx hin (by decide) ht)
      · rename_i ht; cases hd
        exact hfin (getMsgStep_badsub _ _ l _ rest hopen htx hin (by simp) (by decide) rfl (by simpa [Msg.hsType] using ht))
    | hsOther t =>
      simp [fatalDesc, h13] at hd
      obtain ⟨ht, rfl⟩ := hd
      exact hfin (getMsgStep_badsub _ _ l _ rest hopen htx hin (by simp) (by decide) rfl (by simpa [Msg.hsType] using ht))
    | heartbeat mt p n =>
      simp [fatalDesc] at hd
      by_cases hs : l.me.hbSupported = true
      · simp [hs] at hd
        obtain ⟨⟨rfl, hr⟩, rfl⟩ := hd
        exact hfin (getMsgStep_heartbeat_forbidden _ _ l p n rest hopen htx hin (by decide) hs hr)
      · simp [hs] at hd; subst hd
        exact hfin (getMsgStep_unexpected _ _ l _ rest hopen htx hin (by simp [Msg.ct]) (by simp) (by simp [Msg.ct]) (by simp [hs]))
    | heartbeatBad =>
      simp [fatalDesc] at hd
      obtain ⟨hs, rfl⟩ := hd
      exact hfin (getMsgStep_unexpected _ _ l _ rest hopen htx hin (by simp [Msg.ct]) (by simp) (by simp [Msg.ct]) (by simp [hs]))
    | certRequest c a =>
      simp [fatalDesc, h13] at hd
      obtain ⟨hk, rfl⟩ := hd
      refine hfin (getMsgStep_badsub _ _ l _ rest hopen htx hin (by simp) (by decide) rfl ?_)
      simp only [Msg.hsType, allowedHs, hk, Bool.false_eq_true, if_false]
      split
      · decide
      · split <;> decide
    | certificate c ch =>
      simp only [fatalDesc, h13, Bool.true_and] at hd
      by_cases hp : (!l.me.hasKeypair && !l.me.certReqs.isEmpty) = true
      · simp only [hp, if_true] at hd
        have hk : l.me.hasKeypair = false := by simp at hp; exact hp.1
        have hne : l.me.certReqs.isEmpty = false := by simp at hp; simpa using hp.2
        have h11 : (allowedHs l.me).contains 11 = true := by simp [allowedHs, hk, hne]
        have hg := readIter_of_step_got true (allowedHs l.me) l _ _ _ hf
          (by simpa using getMsgStep_got [23, 22] (allowedHs l.me) l (.certificate c ch) rest hin (by simp [Msg.ct])
                (by intro _; simpa [Msg.hsType] using h11) (by simp))
        simp only [if_true] at hg
        unfold readIter
        by_cases hc0 : c = 0
        · simp [hc0] at hd; subst hd
          simp [hg, handleSrvPha, hc0, sendError_open, hpo, hpt]
        · simp [hc0] at hd
          obtain ⟨hnc, rfl⟩ := hd
          have : (popped l rest).me.certReqs = l.me.certReqs := rfl
          simp [hg, handleSrvPha, hc0, this, hnc, sendError_open, hpo, hpt]
      · simp only [hp] at hd
        simp at hd; subst hd
        refine hfin (getMsgStep_badsub _ _ l _ rest hopen htx hin (by simp) (by decide) rfl ?_)
        simp only [Msg.hsType, allowedHs]
        simp at hp
        split
        · decide
        · rename_i hk
          have := hp (by simpa using hk)
          simp [this]
          split <;> decide
    | certVerify a b c =>
      simp [fatalDesc] at hd; subst hd
      refine hfin (getMsgStep_badsub _ _ l _ rest hopen htx hin (by simp) (by decide) rfl ?_)
      simp only [Msg.hsType]
      rcases allowedHs_cases l.me with h | h | h | h <;> rw [h] <;> decide
    | finished o =>
      simp [fatalDesc] at hd; subst hd
      refine hfin (getMsgStep_badsub _ _ l _ rest hopen htx hin (by simp) (by decide) rfl ?_)
      simp only [Msg.hsType]
      rcases allowedHs_cases l.me with h | h | h | h <;> rw [h] <;> decide
    | newSessionTicket =>
      simp only [fatalDesc, h13, if_true] at hd
      split at hd
      · cases hd
      · rename_i ht; cases hd
        exact hfin (getMsgStep_badsub _ _ l _ rest hopen htx hin (by simp) (by decide) rfl (by simpa [Msg.hsType] using ht))
    | ccs =>
      simp [fatalDesc] at hd; subst hd
      exact hfin (getMsgStep_unexpected _ _ l _ rest hopen htx hin (by decide) (by simp) (by simp [Msg.ct]) (by simp [Msg.ct]))
    | emptyRec =>
      simp [fatalDesc] at hd; subst hd
      exact hfin (getMsgStep_headbad _ _ l _ rest hopen htx hin (Or.inl rfl))
    | unknownCt =>
      simp [fatalDesc] at hd; subst hd
      exact hfin (getMsgStep_headbad _ _ l _ rest hopen htx hin (Or.inr rfl))
    | appData dd => simp [fatalDesc] at hd
    | alert a b => simp [fatalDesc] at hd


/-! ### post-handshake authentication: where the client chain can be recorded -/

theorem sendError_chain {α : Type} (d : Nat) (l : Local) :
    (sendError (α := α) d l).2.me.chainSet = l.me.chainSet ∧ (sendError (α := α) d l).2.me.clientChain = l.me.clientChain := by
  unfold sendError
  split
  · rename_i l1 hs; simp [shutdown, sendRaw_me hs]
  · simp

theorem nextRecord_chain (l : Local) :
    (nextRecord l).2.me.chainSet = l.me.chainSet ∧ (nextRecord l).2.me.clientChain = l.me.clientChain := by
  unfold nextRecord
  split
  · split
    · simp
    · split <;> simp
  · simp only []
    split
    · exact sendError_chain _ _
    · split
      · exact sendError_chain _ _
      · exact sendError_chain _ _
      · simp

theorem getMsgStep_chain (e s : List Nat) (l : Local) :
    (getMsgStep e s l).2.me.chainSet = l.me.chainSet ∧ (getMsgStep e s l).2.me.clientChain = l.me.clientChain := by
  have hn := nextRecord_chain l
  unfold getMsgStep
  generalize nextRecord l = x at hn
  obtain ⟨res, l1⟩ := x
  simp only [] at hn
  rw [← hn.1, ← hn.2]
  cases res with
  | stall => simp
  | err e => simp
  | ok m =>
    simp only []
    repeat' split
    all_goals first
      | exact sendError_chain _ _
      | (simp [shutdown, sendRaw_getD_me]; done)
      | (rename_i hs; simp [sendRaw_me hs]; done)

theorem getMsg_chain (e s : List Nat) (f : Nat) (l : Local) :
    (getMsg e s f l).2.me.chainSet = l.me.chainSet ∧ (getMsg e s f l).2.me.clientChain = l.me.clientChain := by
  induction f generalizing l with
  | zero => simp [getMsg]
  | succ f ih =>
    have hs := getMsgStep_chain e s l
    unfold getMsg
    generalize getMsgStep e s l = x at hs
    obtain ⟨res, l1⟩ := x
    cases res with
    | stall => exact hs
    | err e => exact hs
    | ok st =>
      cases st with
      | again =>
        have := ih l1
        simp only [] at hs ⊢
        rw [this.1, this.2]; exact hs
      | got m => exact hs

/-- the server's `session.clientCertChain` changes only in the branch of `_handle_srv_pha` reached
    after the context matched an outstanding request, CertificateVerify (when a certificate was
    sent) passed all three checks, and Finished verified -/
theorem srvPhaFinish_chain (chain : Nat) (l l' : Local) (r : Res Unit)
    (h : srvPhaFinish chain l = (r, l')) (h0 : l.me.chainSet = false) (h1 : l'.me.chainSet = true) :
    r = .ok () ∧ l'.me.clientChain = chain ∧
    ∃ l3, getMsg [22] [20] (fuelOf l) l = (.ok (.finished true), l3) := by
  unfold srvPhaFinish at h
  have hc := getMsg_chain [22] [20] (fuelOf l) l
  generalize getMsg [22] [20] (fuelOf l) l = x at h hc
  obtain ⟨res, l3⟩ := x
  simp only [] at hc
  have h3 : l3.me.chainSet = false := by rw [hc.1]; exact h0
  cases res with
  | stall => cases h; rw [h3] at h1; cases h1
  | err e => cases h; rw [h3] at h1; cases h1
  | ok m =>
    cases m <;> simp only [] at h
    case finished ok =>
      cases ok
      · have := sendError_chain (α := Unit) 51 l3
        simp at h; rw [h] at this; simp at this; rw [this.1, h3] at h1; cases h1
      · simp at h; obtain ⟨rfl, rfl⟩ := h; exact ⟨rfl, rfl, l3, rfl⟩
    all_goals (cases h; simp [shutdown, h3] at h1)

theorem pha_chain_after_verify_aux (ctx chain : Nat) (l l' : Local) (r : Res Unit)
    (h : handleSrvPha ctx chain l = (r, l')) (h0 : l.me.chainSet = false) (h1 : l'.me.chainSet = true) :
    let l1 : Local := { l with me := { l.me with certReqs := l.me.certReqs.erase ctx } }
    r = .ok () ∧ l'.me.clientChain = chain ∧ ctx ≠ 0 ∧ l.me.certReqs.contains ctx = true ∧
    (chain ≠ 0 → ∃ l2 l3, getMsg [22] [15] (fuelOf l1) l1 = (.ok (.certVerify true true true), l2) ∧
        getMsg [22] [20] (fuelOf l2) l2 = (.ok (.finished true), l3)) ∧
    (chain = 0 → l.me.certRequired = false ∧
        ∃ l3, getMsg [22] [20] (fuelOf l1) l1 = (.ok (.finished true), l3)) := by
  intro l1
  have contra : ∀ {α : Type} (d : Nat) (lx : Local), lx.me.chainSet = false →
      (sendError (α := α) d lx).2.me.chainSet = true → False := by
    intro α d lx hx hy
    rw [(sendError_chain d lx).1, hx] at hy; cases hy
  unfold handleSrvPha at h
  split at h
  · exact absurd (by rw [h]; exact h1) (fun hy => contra 47 l h0 hy)
  · rename_i hc0
    split at h
    · exact absurd (by rw [h]; exact h1) (fun hy => contra 47 l h0 hy)
    · rename_i hcont
      have hc0' : ctx ≠ 0 := by simpa using hc0
      have hcont' : l.me.certReqs.contains ctx = true := by simpa using hcont
      have h10 : l1.me.chainSet = false := h0
      simp only [] at h
      split at h
      · rename_i hch
        have hch' : chain ≠ 0 := by simpa using hch
        have hc := getMsg_chain [22] [15] (fuelOf l1) l1
        generalize hgx : getMsg [22] [15] (fuelOf l1) l1 = x at h hc
        obtain ⟨res, l2⟩ := x
        simp only [] at hc
        have h2 : l2.me.chainSet = false := by rw [hc.1]; exact h10
        cases res with
        | stall => cases h; rw [h2] at h1; cases h1
        | err e => cases h; rw [h2] at h1; cases h1
        | ok m =>
          cases m <;> simp only [] at h
          case certVerify a b c =>
            cases a
            · exact absurd (by simp at h; rw [h]; exact h1) (fun hy => contra 47 l2 h2 hy)
            · cases b
              · exact absurd (by simp at h; rw [h]; exact h1) (fun hy => contra 47 l2 h2 hy)
              · cases c
                · exact absurd (by simp at h; rw [h]; exact h1) (fun hy => contra 51 l2 h2 hy)
                · simp at h
                  obtain ⟨hr, hcl, l3, hfin⟩ := srvPhaFinish_chain chain l2 l' r h h2 h1
                  exact ⟨hr, hcl, hc0', hcont', fun _ => ⟨l2, l3, rfl, hfin⟩, fun hz => absurd hz hch'⟩
          all_goals (cases h; simp [shutdown, h2] at h1)
      · rename_i hch
        have hch' : chain = 0 := by simpa using hch
        split at h
        · exact absurd (by rw [h]; exact h1) (fun hy => contra 116 l1 h10 hy)
        · rename_i hreq
          obtain ⟨hr, hcl, l3, hfin⟩ := srvPhaFinish_chain chain l1 l' r h h10 h1
          exact ⟨hr, hcl, hc0', hcont', fun hz => absurd hch' hz, fun _ => ⟨by simpa using hreq, l3, hfin⟩⟩

theorem shutdown_out_recs (r : Bool) (l : Local) : (shutdown r l).out.recs = l.out.recs := by
  unfold shutdown; simp only []; split <;> rfl

theorem shutdown_me (r : Bool) (l : Local) :
    (shutdown r l).me = { l.me with closed := true, resumable := l.me.resumable && r } := rfl

theorem shutdown_inc (r : Bool) (l : Local) : (shutdown r l).inc = l.inc := rfl

end Tls.Conn
