import TlsProofs.Order
/-
  C06 proof support: facts about one step of the automaton and the link between the observable run
  (`feed`, `hsRun`, epochs, alignment) and the kind-level run `hsRunK`.
-/
namespace Tls.Order

theorem stepK_false (c : Cfg) (s : St) (k : MsgKind) : stepK c s k false = stepK0 c s k := by
  simp [stepK]

/-- `plus` (further handshake bytes follow in the record) can only turn an accepted message into
    an `unexpected_message` abort (by `_getMsg`, or by the flow for the first hello) -/
theorem stepK_plus (c : Cfg) (s : St) (k : MsgKind) (p : Bool) :
    stepK c s k p = stepK0 c s k ∨ stepK c s k p = .abort .unexpected_message ∨
    (stepK c s k p = .acceptAbort .unexpected_message ∧ firstHello c s k = true) := by
  unfold stepK
  simp only []
  split
  · exact Or.inr (Or.inl rfl)
  · split
    · rename_i h; exact Or.inr (Or.inr ⟨rfl, by simp_all⟩)
    · exact Or.inl rfl

/-- outside `done`, `_getMsg` never delivers data, never processes a post-handshake message and
    never answers with a warning -/
theorem stepK0_hs (c : Cfg) (s : St) (k : MsgKind) (hd : s ≠ .done) :
    stepK0 c s k ≠ .warn ∧ stepK0 c s k ≠ .deliver ∧ stepK0 c s k ≠ .post := by
  cases s <;> simp [stepK0] at hd ⊢ <;>
    (cases stepHs c _ k <;> simp [HsOut.toOut])

theorem stepK_hs (c : Cfg) (s : St) (k : MsgKind) (p : Bool) (hd : s ≠ .done) :
    stepK c s k p ≠ .warn ∧ stepK c s k p ≠ .deliver ∧ stepK c s k p ≠ .post := by
  rcases stepK_plus c s k p with h | h | ⟨h, _⟩
  · rw [h]; exact stepK0_hs c s k hd
  · rw [h]; simp
  · rw [h]; simp



/-- where an outcome leaves the coroutine -/
def Out.target (o : Out) (cur : St) : St :=
  match o with
  | .next s _ => s
  | .acceptAbort _ | .abort _ | .peerClosed | .acceptClosed => .dead
  | _ => cur

theorem apply_st (r : Run) (o : Out) : (apply r o).st = o.target r.st := by
  cases o <;> simp [apply, Out.target]
  split <;> rfl

theorem countRecord_st (c : Cfg) (r : Run) (m : Msg) : (countRecord c r m).st = r.st := by
  unfold countRecord; split <;> rfl

theorem feed_st (c : Cfg) (r : Run) (m : Msg) (h : r.st ≠ .dead) :
    (feed c r m).st = (step c r.st r.epoch r.recsInEpoch m).target r.st := by
  unfold feed
  have : (r.st == St.dead) = false := by simpa using h
  simp only [this, Bool.false_eq_true, if_false]
  rw [apply_st, countRecord_st]

theorem hsRun_dead (c : Cfg) (r : Run) (ms : List Msg) (h : r.st = .dead) : hsRun c r ms = none := by
  cases ms with
  | nil => rfl
  | cons m ms => simp [hsRun, h]

/-- an accepting run of the observable automaton is an accepting run on kinds -/
theorem hsRun_K (c : Cfg) : ∀ (ms : List Msg) (r r' : Run),
    hsRun c r ms = some r' → hsRunK c r.st (kinds ms) = true := by
  intro ms
  induction ms with
  | nil => intro r r' h; simp [hsRun] at h
  | cons m ms ih =>
    intro r r' h
    unfold hsRun at h
    by_cases hg : (r.st == St.dead || r.st == St.done) = true
    · simp [hg] at h
    · simp only [hg] at h
      have hnd : r.st ≠ .dead := by intro e; simp [e] at hg
      have hndone : r.st ≠ .done := by intro e; simp [e] at hg
      have hst := feed_st c r m hnd
      simp only [kinds, List.map_cons]
      unfold hsRunK
      simp only [hg]
      -- what the step was
      have hdeadcase : ∀ (x : Run), x.st = .dead →
          (if (x.st == St.done) = true then (if ms.isEmpty = true then some x else none) else hsRun c x ms) = some r' → False := by
        intro x hx hh
        simp [hx, hsRun_dead c x ms hx] at hh
      unfold step at hst
      by_cases he : epochOk c r.st r.epoch r.recsInEpoch m = true
      · simp only [he, if_true] at hst
        rcases stepK_plus c r.st m.kind m.plus with hp | hp | ⟨hp, _⟩
        · rw [hp] at hst
          rw [stepK_false]
          have hhs := stepK0_hs c r.st m.kind hndone
          revert hst hhs
          cases ho : stepK0 c r.st m.kind with
          | next s b =>
            intro hst _
            simp only [Out.target] at hst
            by_cases hd : (s == St.done) = true
            · have hd' : ((feed c r m).st == St.done) = true := by rw [hst]; exact hd
              simp only [hd', if_true] at h
              simp only [hd, if_true]
              cases ms with
              | nil => rfl
              | cons a as => simp at h
            · have hd' : ((feed c r m).st == St.done) = false := by rw [hst]; simpa using hd
              simp only [hd'] at h
              simp only [hd]
              have := ih (feed c r m) r' (by simpa using h)
              rw [hst] at this
              simpa [kinds] using this
          | ignore =>
            intro hst _
            simp only [Out.target] at hst
            have hd' : ((feed c r m).st == St.done) = false := by rw [hst]; simpa using hndone
            simp only [hd'] at h
            have := ih (feed c r m) r' (by simpa using h)
            rw [hst] at this
            simpa [kinds] using this
          | warn => intro _ hh; exact absurd rfl hh.1
          | deliver => intro _ hh; exact absurd rfl hh.2.1
          | post => intro _ hh; exact absurd rfl hh.2.2
          | acceptAbort a => intro hst _; exact (hdeadcase _ (by simpa [Out.target] using hst) h).elim
          | abort a => intro hst _; exact (hdeadcase _ (by simpa [Out.target] using hst) h).elim
          | peerClosed => intro hst _; exact (hdeadcase _ (by simpa [Out.target] using hst) h).elim
          | acceptClosed => intro hst _; exact (hdeadcase _ (by simpa [Out.target] using hst) h).elim
        · rw [hp] at hst
          exact (hdeadcase _ (by simpa [Out.target] using hst) h).elim
        · rw [hp] at hst
          exact (hdeadcase _ (by simpa [Out.target] using hst) h).elim
      · simp only [he] at hst
        exact (hdeadcase _ (by simpa [Out.target] using hst) h).elim

end Tls.Order
