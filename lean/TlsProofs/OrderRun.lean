import TlsProofs.Order
/-
  C06 proof support: facts about one step of the automaton and the link between the observable run
  (`feed`, `hsRun`, epochs, fragments, alignment) and the kind-level run `hsRunK`.
-/
namespace Tls.Order

theorem stepK_false (c : Cfg) (s : St) (n : Nat) (k : MsgKind) : stepK c s n k false = stepK0 c s n k := by
  simp [stepK]

/-- `plus` (further handshake bytes follow in the record) can only turn an accepted message into
    an `unexpected_message` abort (by `_getMsg`, or by the flow for the first hello) -/
theorem stepK_plus (c : Cfg) (s : St) (n : Nat) (k : MsgKind) (p : Bool) :
    stepK c s n k p = stepK0 c s n k ∨ stepK c s n k p = .abort .unexpected_message ∨
    (stepK c s n k p = .acceptAbort .unexpected_message ∧ firstHello c s k = true) := by
  unfold stepK
  simp only []
  split
  · exact Or.inr (Or.inl rfl)
  · split
    · rename_i h; exact Or.inr (Or.inr ⟨rfl, by simp_all⟩)
    · exact Or.inl rfl

/-- during the handshake the number of outstanding post-handshake requests plays no role -/
theorem stepK0_outstanding (c : Cfg) (s : St) (n : Nat) (k : MsgKind) (hp : s.isPost = false) :
    stepK0 c s n k = stepK0 c s 0 k := by
  cases s <;> first | rfl | simp [St.isPost] at hp

theorem stepK_outstanding (c : Cfg) (s : St) (n : Nat) (k : MsgKind) (p : Bool) (hp : s.isPost = false) :
    stepK c s n k p = stepK c s 0 k p := by
  unfold stepK; rw [stepK0_outstanding c s n k hp]

/-- before completion `_getMsg` never delivers data, never processes a post-handshake message,
    never starts a post-handshake authentication flight and never answers with a warning -/
theorem stepK0_hs (c : Cfg) (s : St) (n : Nat) (k : MsgKind) (hp : s.isPost = false) :
    stepK0 c s n k ≠ .warn ∧ stepK0 c s n k ≠ .deliver ∧ (∀ b, stepK0 c s n k ≠ .post b) ∧
    (∀ s', stepK0 c s n k ≠ .phaStart s') ∧ (∀ k', stepK0 c s n k ≠ .buffer k') := by
  cases s <;> simp [St.isPost] at hp <;> simp [stepK0] <;>
    (cases stepHs c _ k <;> simp [HsOut.toOut])

theorem stepK_hs (c : Cfg) (s : St) (n : Nat) (k : MsgKind) (p : Bool) (hp : s.isPost = false) :
    stepK c s n k p ≠ .warn ∧ stepK c s n k p ≠ .deliver ∧ (∀ b, stepK c s n k p ≠ .post b) ∧
    (∀ s', stepK c s n k p ≠ .phaStart s') ∧ (∀ k', stepK c s n k p ≠ .buffer k') := by
  rcases stepK_plus c s n k p with h | h | ⟨h, _⟩
  · rw [h]; exact stepK0_hs c s n k hp
  · rw [h]; simp
  · rw [h]; simp

/-- a piece that is the head of a fragmented handshake message -/
def Msg.isHead (m : Msg) : Bool := m.part == .head && m.kind.isHandshake

/-- the three shapes of `step`: a complete message goes through `_getMsg`, a head is buffered,
    or the record layer / the defragmenter ends the connection -/
theorem step_shape (c : Cfg) (r : Run) (m : Msg) :
    (∃ p, step c r m = stepK c r.st r.outstanding m.kind p ∧ m.isHead = false) ∨
    (step c r m = .buffer m.kind ∧ m.isHead = true) ∨
    (∃ a, step c r m = .abort a) ∨
    (step c r m = .acceptAbort .unexpected_message ∧ m.kind = .ccs ∧ r.pending.isSome = true ∧
      expectsCCS c r.st = true) := by
  unfold step Msg.isHead
  by_cases he : epochOk c r m = true
  · simp only [he, Bool.not_true, Bool.false_eq_true, if_false]
    by_cases hh : m.kind.isHandshake = true
    · simp only [hh, if_true, Bool.and_true]
      by_cases h1 : (m.part == Part.head) = true
      · simp only [h1, if_true]
        by_cases h2 : r.pending.isNone = true
        · simp only [h2, if_true]; exact Or.inr (Or.inl (by simp))
        · simp only [h2]; exact Or.inr (Or.inr (Or.inl ⟨_, rfl⟩))
      · simp only [h1]
        have h1' : (m.part == Part.head) = false := by simpa using h1
        by_cases h3 : (m.part == Part.tail) = true
        · simp only [h3, if_true]
          by_cases h4 : (r.pending == some m.kind) = true
          · simp only [h4, if_true]; exact Or.inl ⟨m.plus, by simp⟩
          · simp only [h4]; exact Or.inr (Or.inr (Or.inl ⟨_, rfl⟩))
        · simp only [h3]
          by_cases h2 : r.pending.isNone = true
          · simp only [h2, if_true]; exact Or.inl ⟨m.plus, by simp⟩
          · simp only [h2]; exact Or.inr (Or.inr (Or.inl ⟨_, rfl⟩))
    · simp only [hh, Bool.and_false]
      by_cases h5 : (r.pending.isSome && v13Active c r.st && !ccsDropped c r.st m.kind) = true
      · simp only [h5, if_true]; exact Or.inr (Or.inr (Or.inl ⟨_, rfl⟩))
      · simp only [h5]
        by_cases h6 : (r.pending.isSome && m.kind == MsgKind.ccs && expectsCCS c r.st) = true
        · simp only [h6, if_true]
          refine Or.inr (Or.inr (Or.inr ⟨rfl, ?_, ?_, ?_⟩)) <;> simp_all
        · simp only [h6]; exact Or.inl ⟨false, by simp⟩
  · simp only [he]
    exact Or.inr (Or.inr (Or.inl ⟨.wrong_epoch, by simp⟩))

/-- where an outcome leaves the coroutine -/
def Out.target (o : Out) (cur : St) : St :=
  match o with
  | .next s _ => s
  | .phaStart s => s
  | .acceptAbort _ | .abort _ | .peerClosed | .acceptClosed => .dead
  | _ => cur

theorem apply_st (r : Run) (o : Out) : (apply r o).st = o.target r.st := by
  cases o <;> simp [apply, Out.target]
  split <;> rfl

theorem countRecord_st (c : Cfg) (r : Run) (m : Msg) : (countRecord c r m).st = r.st := by
  unfold countRecord; split <;> rfl

theorem clearPending_st (r : Run) (m : Msg) : (clearPending r m).st = r.st := by
  unfold clearPending; split <;> rfl

theorem feed_st (c : Cfg) (r : Run) (m : Msg) (h : r.st ≠ .dead) :
    (feed c r m).st = (step c r m).target r.st := by
  unfold feed
  have : (r.st == St.dead) = false := by simpa using h
  simp only [this, Bool.false_eq_true, if_false]
  rw [apply_st, clearPending_st, countRecord_st]

theorem hsRun_dead (c : Cfg) (r : Run) (ms : List Msg) (h : r.st = .dead) : hsRun c r ms = none := by
  cases ms with
  | nil => rfl
  | cons m ms => simp [hsRun, h]

theorem kinds_cons (m : Msg) (ms : List Msg) :
    kinds (m :: ms) = if m.isHead then kinds ms else m.kind :: kinds ms := by
  unfold kinds Msg.isHead
  by_cases h : (m.part == Part.head && m.kind.isHandshake) = true
  · simp only [List.filter_cons, h, Bool.not_true, Bool.false_eq_true, if_false, if_true]
  · have h' : (m.part == Part.head && m.kind.isHandshake) = false := by simpa using h
    simp only [List.filter_cons, h', Bool.not_false, if_true, List.map_cons, Bool.false_eq_true, if_false]

/-- an accepting run of the observable automaton is an accepting run on kinds -/
theorem hsRun_K (c : Cfg) : ∀ (ms : List Msg) (r r' : Run),
    hsRun c r ms = some r' → hsRunK c r.st (kinds ms) = true := by
  intro ms
  induction ms with
  | nil => intro r r' h; simp [hsRun] at h
  | cons m ms ih =>
    intro r r' h
    unfold hsRun at h
    by_cases hg : (r.st == St.dead || r.st.isPost) = true
    · simp [hg] at h
    · simp only [hg] at h
      have hnd : r.st ≠ .dead := by intro e; simp [e] at hg
      have hpost : r.st.isPost = false := by
        cases hq : r.st.isPost
        · rfl
        · simp [hq] at hg
      have hndone : r.st ≠ .done := by intro e; simp [e, St.isPost] at hpost
      have hst := feed_st c r m hnd
      have hdeadcase : ∀ (x : Run), x.st = .dead →
          (if (x.st == St.done) = true then (if ms.isEmpty = true then some x else none) else hsRun c x ms) = some r' → False := by
        intro x hx hh
        simp [hx, hsRun_dead c x ms hx] at hh
      have hsame : (feed c r m).st = r.st → hsRunK c r.st (kinds ms) = true := by
        intro hst'
        have hd' : ((feed c r m).st == St.done) = false := by rw [hst']; simpa using hndone
        simp only [hd'] at h
        have := ih (feed c r m) r' (by simpa using h)
        rw [hst'] at this
        exact this
      rw [kinds_cons]
      rcases step_shape c r m with ⟨p, hs, hnh⟩ | ⟨hs, hh⟩ | ⟨a, hs⟩ | ⟨hs, _, _, _⟩
      · -- a complete message went through `_getMsg`
        simp only [hnh, Bool.false_eq_true, if_false]
        unfold hsRunK
        simp only [hg]
        rw [hs] at hst
        rw [stepK_outstanding c r.st r.outstanding m.kind p hpost] at hst
        rcases stepK_plus c r.st 0 m.kind p with hp | hp | ⟨hp, _⟩
        · rw [hp] at hst
          rw [stepK_false]
          have hhs := stepK0_hs c r.st 0 m.kind hpost
          revert hst hhs
          cases ho : stepK0 c r.st 0 m.kind with
          | next s b =>
            intro hst _
            simp only [Out.target] at hst
            by_cases hd : (s == St.done) = true
            · have hd' : ((feed c r m).st == St.done) = true := by rw [hst]; exact hd
              simp only [hd', if_true] at h
              simp only [hd, if_true]
              cases ms with
              | nil => rfl
              | cons a as => simp at h
            · have hd' : ((feed c r m).st == St.done) = false := by rw [hst]; simpa using hd
              simp only [hd'] at h
              simp only [hd]
              have := ih (feed c r m) r' (by simpa using h)
              rw [hst] at this
              exact this
          | ignore =>
            intro hst _
            exact hsame (by simpa [Out.target] using hst)
          | warn => intro _ hh; exact absurd rfl hh.1
          | deliver => intro _ hh; exact absurd rfl hh.2.1
          | post b => intro _ hh; exact absurd rfl (hh.2.2.1 b)
          | phaStart s => intro _ hh; exact absurd rfl (hh.2.2.2.1 s)
          | buffer k => intro _ hh; exact absurd rfl (hh.2.2.2.2 k)
          | acceptAbort a => intro hst _; exact (hdeadcase _ (by simpa [Out.target] using hst) h).elim
          | abort a => intro hst _; exact (hdeadcase _ (by simpa [Out.target] using hst) h).elim
          | peerClosed => intro hst _; exact (hdeadcase _ (by simpa [Out.target] using hst) h).elim
          | acceptClosed => intro hst _; exact (hdeadcase _ (by simpa [Out.target] using hst) h).elim
        · rw [hp] at hst
          exact (hdeadcase _ (by simpa [Out.target] using hst) h).elim
        · rw [hp] at hst
          exact (hdeadcase _ (by simpa [Out.target] using hst) h).elim
      · -- the head of a fragmented message was buffered: invisible on the level of kinds
        simp only [hh, if_true]
        rw [hs] at hst
        exact hsame (by simpa [Out.target] using hst)
      · rw [hs] at hst
        exact (hdeadcase _ (by simpa [Out.target] using hst) h).elim
      · rw [hs] at hst
        have hk : m.isHead = false := by simp_all [Msg.isHead, MsgKind.isHandshake]
        exact (hdeadcase _ (by simpa [Out.target] using hst) h).elim

end Tls.Order
