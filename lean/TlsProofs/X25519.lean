import Mathlib.Data.ZMod.Basic
import Mathlib.Tactic.Ring
import Mathlib.Tactic.NormNum
import TlsModel.X25519
import TlsModel.Dh
import TlsProofs.RsaBasic
/-
  Structural facts about the Montgomery ladder of tlslite/utils/x25519.py as modelled in
  TlsModel/X25519.lean:

  * `cswap` is a conditional swap (and an involution);
  * the deferred-swap bookkeeping (`swap ^= k_t … swap = k_t`, one final `cswap`) is equivalent to
    the textbook ladder that holds the pair (R0, R1) and chooses by the bit which one is doubled;
  * the arithmetic block is exactly Montgomery's x-only doubling / differential addition in
    projective (X : Z) coordinates for the curve  y² = x³ + A x² + x  with  A = 4·a24 + 2;
  * the result does not depend on the representative of u modulo p;
  * a final Z = 0 (the point at infinity) is encoded as the all-zero string, which
    `ECDHKeyExchange.calc_shared_key` refuses.

  NOT proved (see `x25519_scalar_mult_partial` in Props/C10.lean): that Montgomery's formulas
  compute x(2P) and x(P+Q) on the curve, i.e. the elliptic-curve group law itself.
-/
namespace Tls.X25519
open Tls Tls.Rsa

/-! ### cswap -/

theorem cswap_zero (a b : ℤ) : cswap 0 a b = (a, b) := by simp [cswap]
theorem cswap_one (a b : ℤ) : cswap 1 a b = (b, a) := by simp [cswap]

/-- `cswap` returns its arguments, exchanged iff the flag is non-zero -/
theorem cswap_spec (sw : ℕ) (a b : ℤ) :
    cswap sw a b = if sw ≠ 0 then (b, a) else (a, b) := rfl

/-- swapping twice with the same flag restores the pair -/
theorem cswap_involutive (sw : ℕ) (a b : ℤ) :
    cswap sw (cswap sw a b).1 (cswap sw a b).2 = (a, b) := by
  unfold cswap; split <;> simp_all

theorem bit_le_one (k t : ℕ) : (k >>> t) &&& 1 ≤ 1 := by
  rw [Nat.and_one_is_mod]; omega

/-! ### the textbook ladder -/

/-- a pair of projective x-coordinates (X2 : Z2), (X3 : Z3) -/
structure Pair where
  x2 : ℤ
  z2 : ℤ
  x3 : ℤ
  z3 : ℤ
  deriving DecidableEq

/-- the arithmetic block of one iteration: doubles the first point, adds the two
    (differential addition with difference x1) -/
def core (x1 a24 p : ℤ) (x2 z2 x3 z3 : ℤ) : Pair :=
  let a := (x2 + z2) % p
  let aa := (a * a) % p
  let b := (x2 - z2) % p
  let bb := (b * b) % p
  let e := (aa - bb) % p
  let c := (x3 + z3) % p
  let d := (x3 - z3) % p
  let da := (d * a) % p
  let cb := (c * b) % p
  { x2 := (aa * bb) % p, z2 := (e * (aa + a24 * e)) % p,
    x3 := ((da + cb) * (da + cb)) % p, z3 := (x1 * (((da - cb) * (da - cb)) % p)) % p }

/-- one step of the ladder without any swap bookkeeping: for bit 0 the pair (R0, R1) becomes
    (2·R0, R0+R1), for bit 1 it becomes (R0+R1, 2·R1) -/
def pureStep (x1 a24 p : ℤ) (bit : ℕ) (P : Pair) : Pair :=
  if bit ≠ 0 then
    let r := core x1 a24 p P.x3 P.z3 P.x2 P.z2
    { x2 := r.x3, z2 := r.z3, x3 := r.x2, z3 := r.z2 }
  else core x1 a24 p P.x2 P.z2 P.x3 P.z3

/-- the pair the code logically holds: its registers after the pending swap is applied -/
def Ladder.logical (s : Ladder) : Pair :=
  if s.swap ≠ 0 then { x2 := s.x3, z2 := s.z3, x3 := s.x2, z3 := s.z2 }
  else { x2 := s.x2, z2 := s.z2, x3 := s.x3, z3 := s.z3 }

theorem ladderStep_eq_core (k : ℕ) (x1 a24 p : ℤ) (s : Ladder) (t : ℕ) :
    ladderStep k x1 a24 p s t =
      let sw := s.swap ^^^ ((k >>> t) &&& 1)
      let r := core x1 a24 p (cswap sw s.x2 s.x3).1 (cswap sw s.z2 s.z3).1
                 (cswap sw s.x2 s.x3).2 (cswap sw s.z2 s.z3).2
      { x2 := r.x2, z2 := r.z2, x3 := r.x3, z3 := r.z3, swap := (k >>> t) &&& 1 } := by
  rfl

/-- **swap bookkeeping.**  With a 0/1 swap flag, one iteration of the code acts on the logical
    pair exactly as the textbook step for the current key bit; the flag stays 0/1. -/
theorem ladderStep_logical (k : ℕ) (x1 a24 p : ℤ) (s : Ladder) (t : ℕ) (hs : s.swap ≤ 1) :
    (ladderStep k x1 a24 p s t).logical = pureStep x1 a24 p ((k >>> t) &&& 1) s.logical ∧
    (ladderStep k x1 a24 p s t).swap ≤ 1 := by
  have hb := bit_le_one k t
  rw [ladderStep_eq_core]
  generalize (k >>> t) &&& 1 = kt at hb ⊢
  refine ⟨?_, hb⟩
  have h1 : s.swap = 0 ∨ s.swap = 1 := by omega
  have h2 : kt = 0 ∨ kt = 1 := by omega
  rcases h1 with h1 | h1 <;> rcases h2 with h2 | h2 <;>
    simp [h1, h2, Ladder.logical, pureStep, cswap]

/-- the whole loop, on the logical pair, is the textbook ladder over the key bits -/
theorem ladder_fold_logical (k : ℕ) (x1 a24 p : ℤ) (ts : List ℕ) (s : Ladder) (hs : s.swap ≤ 1) :
    (ts.foldl (ladderStep k x1 a24 p) s).logical =
      ts.foldl (fun P t => pureStep x1 a24 p ((k >>> t) &&& 1) P) s.logical ∧
    (ts.foldl (ladderStep k x1 a24 p) s).swap ≤ 1 := by
  induction ts generalizing s with
  | nil => exact ⟨rfl, hs⟩
  | cons t ts ih =>
    simp only [List.foldl_cons]
    obtain ⟨h1, h2⟩ := ladderStep_logical k x1 a24 p s t hs
    obtain ⟨h3, h4⟩ := ih _ h2
    exact ⟨by rw [h3, h1], h4⟩

/-- the final `cswap` pair of the code selects the first point of the logical pair -/
theorem final_cswap_logical (s : Ladder) :
    (cswap s.swap s.x2 s.x3).1 = s.logical.x2 ∧ (cswap s.swap s.z2 s.z3).1 = s.logical.z2 := by
  unfold cswap Ladder.logical; split <;> simp_all

/-- the textbook ladder: R0 = (1 : 0), R1 = (u : 1), bits from the top -/
def pureLadder (k u bits a24 p : ℕ) : Pair :=
  ((List.range bits).reverse).foldl
    (fun P t => pureStep (u : ℤ) (a24 : ℤ) (p : ℤ) ((k >>> t) &&& 1) P)
    { x2 := 1, z2 := 0, x3 := u, z3 := 1 }

/-- **ladder = textbook ladder.**  `_x25519_generic` returns `X · Z^(p-2) mod p` of the first point
    of the textbook Montgomery ladder (no swap state left). -/
theorem x25519Generic_eq_pureLadder (k u bits a24 p : ℕ) :
    x25519Generic k u bits a24 p =
      leEncode (divceil bits 8)
        (((pureLadder k u bits a24 p).x2.toNat * powMod (pureLadder k u bits a24 p).z2.toNat (p - 2) p) % p) := by
  unfold x25519Generic pureLadder
  simp only
  have h := ladder_fold_logical k (u : ℤ) (a24 : ℤ) (p : ℤ) (List.range bits).reverse
    { x2 := 1, z2 := 0, x3 := u, z3 := 1, swap := 0 } (by simp)
  have hf := final_cswap_logical
    ((List.range bits).reverse.foldl (ladderStep k (u : ℤ) (a24 : ℤ) (p : ℤ))
      { x2 := 1, z2 := 0, x3 := u, z3 := 1, swap := 0 })
  rw [h.1] at hf
  simp only [Ladder.logical] at hf
  simp only [ne_eq, not_true_eq_false, if_false] at hf
  rw [hf.1, hf.2]

/-! ### the arithmetic block is Montgomery's x-only arithmetic -/

theorem cast_emod (p : ℕ) (a : ℤ) : (((a % (p : ℤ)) : ℤ) : ZMod p) = (a : ZMod p) :=
  ZMod.intCast_mod a p

/-- **Montgomery XZ formulas.**  In `ZMod p`, with `A = 4·a24 + 2`:
      X(2P)   = (X₂² − Z₂²)²
      Z(2P)   = 4·X₂·Z₂·(X₂² + A·X₂·Z₂ + Z₂²)
      X(P+Q)  = 4·(X₂·X₃ − Z₂·Z₃)²            (difference (x1 : 1))
      Z(P+Q)  = 4·x1·(X₂·Z₃ − Z₂·X₃)²
    (the common factor 4 of the sum is projectively irrelevant). -/
theorem core_is_montgomery (p : ℕ) (x1 a24 x2 z2 x3 z3 : ℤ) :
    let r := core x1 a24 p x2 z2 x3 z3
    let X2 : ZMod p := x2; let Z2 : ZMod p := z2; let X3 : ZMod p := x3; let Z3 : ZMod p := z3
    let A : ZMod p := 4 * (a24 : ZMod p) + 2
    (r.x2 : ZMod p) = (X2 ^ 2 - Z2 ^ 2) ^ 2 ∧
    (r.z2 : ZMod p) = 4 * X2 * Z2 * (X2 ^ 2 + A * X2 * Z2 + Z2 ^ 2) ∧
    (r.x3 : ZMod p) = 4 * (X2 * X3 - Z2 * Z3) ^ 2 ∧
    (r.z3 : ZMod p) = 4 * (x1 : ZMod p) * (X2 * Z3 - Z2 * X3) ^ 2 := by
  simp only [core]
  refine ⟨?_, ?_, ?_, ?_⟩ <;>
  · simp only [cast_emod, Int.cast_mul, Int.cast_add, Int.cast_sub]
    ring

/-- the RFC 7748 constants: `a24 = (A − 2)/4` for Curve25519 (A = 486662) and Curve448 (A = 156326) -/
theorem a24_constants : 4 * 121665 + 2 = 486662 ∧ 4 * 39081 + 2 = 156326 := by decide

/-! ### independence of the representative of u -/

theorem emod_congr {p a b : ℤ} (h : a ≡ b [ZMOD p]) : a % p = b % p := h

theorem core_congr (p x1 x1' a24 x2 z2 x3 z3 x2' z2' x3' z3' : ℤ)
    (h1 : x1 ≡ x1' [ZMOD p]) (hx2 : x2 ≡ x2' [ZMOD p]) (hz2 : z2 ≡ z2' [ZMOD p])
    (hx3 : x3 ≡ x3' [ZMOD p]) (hz3 : z3 ≡ z3' [ZMOD p]) :
    core x1 a24 p x2 z2 x3 z3 = core x1' a24 p x2' z2' x3' z3' := by
  unfold core
  have ea : (x2 + z2) % p = (x2' + z2') % p := emod_congr (hx2.add hz2)
  have eb : (x2 - z2) % p = (x2' - z2') % p := emod_congr (hx2.sub hz2)
  have ec : (x3 + z3) % p = (x3' + z3') % p := emod_congr (hx3.add hz3)
  have ed : (x3 - z3) % p = (x3' - z3') % p := emod_congr (hx3.sub hz3)
  simp only [ea, eb, ec, ed]
  congr 1
  exact emod_congr (h1.mul (Int.ModEq.refl _))

theorem ladderStep_congr (k : ℕ) (p x1 x1' a24 : ℤ) (s s' : Ladder) (t : ℕ)
    (h1 : x1 ≡ x1' [ZMOD p]) (hsw : s.swap = s'.swap)
    (hx2 : s.x2 ≡ s'.x2 [ZMOD p]) (hz2 : s.z2 ≡ s'.z2 [ZMOD p])
    (hx3 : s.x3 ≡ s'.x3 [ZMOD p]) (hz3 : s.z3 ≡ s'.z3 [ZMOD p]) :
    ladderStep k x1 a24 p s t = ladderStep k x1' a24 p s' t := by
  rw [ladderStep_eq_core, ladderStep_eq_core, hsw]
  simp only
  have hc : core x1 a24 p (cswap (s'.swap ^^^ (k >>> t &&& 1)) s.x2 s.x3).1
        (cswap (s'.swap ^^^ (k >>> t &&& 1)) s.z2 s.z3).1
        (cswap (s'.swap ^^^ (k >>> t &&& 1)) s.x2 s.x3).2
        (cswap (s'.swap ^^^ (k >>> t &&& 1)) s.z2 s.z3).2 =
      core x1' a24 p (cswap (s'.swap ^^^ (k >>> t &&& 1)) s'.x2 s'.x3).1
        (cswap (s'.swap ^^^ (k >>> t &&& 1)) s'.z2 s'.z3).1
        (cswap (s'.swap ^^^ (k >>> t &&& 1)) s'.x2 s'.x3).2
        (cswap (s'.swap ^^^ (k >>> t &&& 1)) s'.z2 s'.z3).2 := by
    unfold cswap
    split
    · exact core_congr p x1 x1' a24 _ _ _ _ _ _ _ _ h1 hx3 hz3 hx2 hz2
    · exact core_congr p x1 x1' a24 _ _ _ _ _ _ _ _ h1 hx2 hz2 hx3 hz3
  rw [hc]

theorem ladder_fold_congr (k : ℕ) (p x1 x1' a24 : ℤ) (h1 : x1 ≡ x1' [ZMOD p]) (ts : List ℕ) (s : Ladder) :
    ts.foldl (ladderStep k x1 a24 p) s = ts.foldl (ladderStep k x1' a24 p) s := by
  induction ts generalizing s with
  | nil => rfl
  | cons t ts ih =>
    simp only [List.foldl_cons]
    rw [ladderStep_congr k p x1 x1' a24 s s t h1 rfl (Int.ModEq.refl _) (Int.ModEq.refl _)
      (Int.ModEq.refl _) (Int.ModEq.refl _)]
    exact ih _

/-- **representation independence.**  Two values of u that are congruent modulo p (e.g. a
    non-canonical u ≥ p and its reduction) give the same output. -/
theorem x25519Generic_repr_indep (k u u' bits a24 p : ℕ) (h : (u : ℤ) ≡ (u' : ℤ) [ZMOD (p : ℤ)]) :
    x25519Generic k u bits a24 p = x25519Generic k u' bits a24 p := by
  unfold x25519Generic
  cases bits with
  | zero => simp [cswap]
  | succ n =>
    have e : (List.range (n + 1)).reverse = n :: (List.range n).reverse := by
      rw [List.range_succ, List.reverse_append]; rfl
    simp only [e, List.foldl_cons]
    have hstep : ladderStep k (u : ℤ) (a24 : ℤ) (p : ℤ) { x2 := 1, z2 := 0, x3 := u, z3 := 1, swap := 0 } n =
        ladderStep k (u' : ℤ) (a24 : ℤ) (p : ℤ) { x2 := 1, z2 := 0, x3 := u', z3 := 1, swap := 0 } n :=
      ladderStep_congr k p u u' a24 _ _ n h rfl (Int.ModEq.refl _) (Int.ModEq.refl _) h (Int.ModEq.refl _)
    rw [hstep, ladder_fold_congr k p u u' a24 h]

/-! ### the point at infinity is encoded as zeros and refused -/

theorem beEncode_zero (n : ℕ) : ∀ i ∈ beEncode n 0, i = 0 := by
  induction n with
  | zero => simp [beEncode]
  | succ n ih =>
    intro i hi
    simp only [beEncode, List.mem_cons] at hi
    rcases hi with rfl | hi
    · simp
    · exact ih i hi

theorem leEncode_zero (n : ℕ) : ∀ i ∈ leEncode n 0, i = 0 := by
  intro i hi
  unfold leEncode at hi
  exact beEncode_zero n i (List.mem_reverse.mp hi)

/-- if the ladder ends with Z = 0 (the neutral element: what a small-order input multiplied by a
    clamped scalar gives) the output is the all-zero string -/
theorem x25519Generic_zero_of_z_zero (k u bits a24 p : ℕ) (hp : 2 < p)
    (hz : (pureLadder k u bits a24 p).z2 = 0) :
    ∀ i ∈ x25519Generic k u bits a24 p, i = 0 := by
  rw [x25519Generic_eq_pureLadder, hz]
  have : powMod (0 : ℤ).toNat (p - 2) p = 0 := by
    rw [powMod_eq]
    simp only [Int.toNat_zero]
    rw [Nat.zero_pow (by omega)]; simp
  rw [this, Nat.mul_zero, Nat.zero_mod]
  exact leEncode_zero _

/-! ### clamping of the scalar, masking of u -/

theorem leDecode_cons (a : UInt8) (t : Bytes) : leDecode (a :: t) = a.toNat + 256 * leDecode t := by
  unfold leDecode
  rw [List.reverse_cons]
  have : ∀ (l : Bytes) (x : UInt8), beDecode (l ++ [x]) = beDecode l * 256 + x.toNat := by
    intro l x; simp [beDecode, List.foldl_append]
  rw [this]; omega

theorem leDecode_lt (b : Bytes) : leDecode b < 256 ^ b.length := by
  unfold leDecode
  have := beDecode_lt b.reverse
  simpa using this

theorem leDecode_concat (m : Bytes) (x : UInt8) : leDecode (m ++ [x]) = leDecode m + 256 ^ m.length * x.toNat := by
  induction m with
  | nil => simp [leDecode_cons, leDecode, beDecode]
  | cons a t ih =>
    rw [List.cons_append, leDecode_cons, ih, leDecode_cons, List.length_cons, Nat.pow_succ]
    ring

theorem u8_ofNat_toNat (x : UInt8) : UInt8.ofNat x.toNat = x := by
  cases x; simp

theorem clamp_bits : ∀ b < 256, (UInt8.ofNat b &&& 248).toNat % 8 = 0 ∧
    64 ≤ ((UInt8.ofNat b &&& 127) ||| 64).toNat ∧ ((UInt8.ofNat b &&& 127) ||| 64).toNat ≤ 127 ∧
    (UInt8.ofNat b &&& 127).toNat ≤ 127 ∧ (UInt8.ofNat b &&& 252).toNat % 4 = 0 ∧ 128 ≤ (UInt8.ofNat b ||| 128).toNat := by
  decide +kernel

theorem decode32 (k : Bytes) (h : k.length = 32) :
    ∃ b0 mid b31, k = b0 :: (mid ++ [b31]) ∧ mid.length = 30 := by
  match k, h with
  | b0 :: rest, h =>
    have hr : rest.length = 31 := by simpa using h
    have hne : rest ≠ [] := by intro hc; rw [hc] at hr; simp at hr
    refine ⟨b0, rest.dropLast, rest.getLast hne, ?_, ?_⟩
    · rw [List.dropLast_append_getLast]
    · simp [hr]

/-- **clamping.**  For a 32-byte scalar string, `decodeScalar22519` yields a multiple of 8 in
    `[2^254, 2^255)` (RFC 7748 §5): the cofactor is cleared and the top bit position is fixed. -/
theorem decodeScalar25519_clamped (k : Bytes) (h : k.length = 32) :
    ∃ n, decodeScalar25519 k = .ok n ∧ n % 8 = 0 ∧ 2 ^ 254 ≤ n ∧ n < 2 ^ 255 := by
  obtain ⟨b0, mid, b31, rfl, hm⟩ := decode32 k h
  have hl : (b0 :: (mid ++ [b31])).length = 32 := h
  have e1 : modifyAt (b0 :: (mid ++ [b31])) 0 (· &&& 248) = .ok ((b0 &&& 248) :: (mid ++ [b31])) := by
    simp [modifyAt]
  have e2 : ∀ (x : UInt8) (y : UInt8) (f : UInt8 → UInt8),
      modifyAt (x :: (mid ++ [y])) 31 f = .ok (x :: (mid ++ [f y])) := by
    intro x y f
    unfold modifyAt
    have : 31 < (x :: (mid ++ [y])).length := by simp [hm]
    rw [if_pos this]
    congr 1
    have hg : (x :: (mid ++ [y])).getD 31 0 = y := by
      simp [List.getD_eq_getElem?_getD, hm]
    have hs : ∀ v, (x :: (mid ++ [y])).set 31 v = x :: (mid ++ [v]) := by
      intro v
      rw [show (31 : ℕ) = 30 + 1 from rfl, List.set_cons_succ]
      congr 1
      rw [List.set_append_right _ _ (by omega)]
      simp [hm]
    rw [hg, hs]
  refine ⟨leDecode ((b0 &&& 248) :: (mid ++ [(b31 &&& 127) ||| 64])), ?_, ?_⟩
  · unfold decodeScalar25519
    rw [e1]; simp only
    rw [e2]; simp only
    rw [e2]
  · rw [leDecode_cons, leDecode_concat, hm]
    have hmid := leDecode_lt mid
    rw [hm] at hmid
    have c0 := clamp_bits b0.toNat b0.toNat_lt
    have c31 := clamp_bits b31.toNat b31.toNat_lt
    rw [u8_ofNat_toNat] at c0 c31
    have hb0 : (b0 &&& 248).toNat < 256 := (b0 &&& 248).toNat_lt
    generalize (b0 &&& 248).toNat = v0 at c0 hb0 ⊢
    generalize ((b31 &&& 127) ||| 64).toNat = v31 at c31 ⊢
    generalize leDecode mid = m at hmid ⊢
    have e30 : (256 : ℕ) ^ 30 = 2 ^ 240 := by norm_num
    rw [e30] at hmid ⊢
    obtain ⟨h0, _⟩ := c0
    obtain ⟨_, h64, h127, _⟩ := c31
    refine ⟨by omega, ?_, ?_⟩
    · have : 2 ^ 254 = 256 * (2 ^ 240 * 64) := by norm_num
      have h2 : 2 ^ 240 * 64 ≤ 2 ^ 240 * v31 := Nat.mul_le_mul_left _ h64
      omega
    · have : 2 ^ 255 = 256 * (2 ^ 240 * 128) := by norm_num
      have h2 : 2 ^ 240 * v31 ≤ 2 ^ 240 * 127 := Nat.mul_le_mul_left _ h127
      omega


theorem mask_bits : ∀ b < 256, (UInt8.ofNat b &&& UInt8.ofNat ((1 <<< (255 % 8)) - 1)).toNat = b % 128 := by
  decide +kernel

/-- **masking of u.**  For a 32-byte string the decoded u-coordinate is the little-endian value
    with bit 255 cleared (RFC 7748 §5: "implementations MUST mask the most significant bit"). -/
theorem decodeUCoordinate_masks_top_bit (u : Bytes) (h : u.length = 32) :
    decodeUCoordinate u 255 = .ok (leDecode u % 2 ^ 255) := by
  have hne : u ≠ [] := by intro hc; rw [hc] at h; simp at h
  obtain ⟨m, b, rfl⟩ : ∃ m b, u = m ++ [b] := ⟨u.dropLast, u.getLast hne, (List.dropLast_append_getLast hne).symm⟩
  have hm : m.length = 31 := by simpa using h
  unfold decodeUCoordinate
  have c1 : ¬ ((255 : ℕ) ≠ 255 ∧ (255 : ℕ) ≠ 448) := by decide
  have c2 : (255 : ℕ) % 8 ≠ 0 := by decide
  have c3 : ¬ (m ++ [b]).length = 0 := by simp
  rw [if_neg c1, if_pos c2, if_neg c3]
  have e : ∀ f : UInt8 → UInt8, modifyAt (m ++ [b]) ((m ++ [b]).length - 1) f = .ok (m ++ [f b]) := by
    intro f
    unfold modifyAt
    have hl : (m ++ [b]).length - 1 = 31 := by simp [hm]
    rw [hl, if_pos (by simp [hm])]
    congr 1
    have hg : (m ++ [b]).getD 31 0 = b := by simp [List.getD_eq_getElem?_getD, hm]
    rw [hg, List.set_append_right _ _ (by omega)]
    simp [hm]
  rw [e]
  simp only
  congr 1
  rw [leDecode_concat, leDecode_concat, hm]
  have hb := mask_bits b.toNat b.toNat_lt
  rw [u8_ofNat_toNat] at hb
  rw [hb]
  have hmid := leDecode_lt m
  rw [hm] at hmid
  have e31 : (256 : ℕ) ^ 31 = 2 ^ 248 := by norm_num
  rw [e31] at hmid ⊢
  have e255 : (2 : ℕ) ^ 255 = 2 ^ 248 * 128 := by norm_num
  rw [e255]
  generalize leDecode m = v at hmid ⊢
  have hbl := b.toNat_lt
  generalize b.toNat = w at hbl ⊢
  -- (v + 2^248 * w) % (2^248 * 128) = v + 2^248 * (w % 128)
  have hw : w = 128 * (w / 128) + w % 128 := (Nat.div_add_mod w 128).symm
  have : v + 2 ^ 248 * w = (v + 2 ^ 248 * (w % 128)) + (2 ^ 248 * 128) * (w / 128) := by
    conv_lhs => rw [hw]
    ring
  have hr : w % 128 ≤ 127 := by omega
  have h2 : 2 ^ 248 * (w % 128) ≤ 2 ^ 248 * 127 := Nat.mul_le_mul_left _ hr
  have hlt : v + 2 ^ 248 * (w % 128) < 2 ^ 248 * 128 := by omega
  rw [this, Nat.add_mul_mod_self_left]
  exact (Nat.mod_eq_of_lt hlt).symm

end Tls.X25519
