import TlsProofs.AuthSites
/-
  C05 helper lemmas, part 3: post-handshake authentication, TLS ≤ 1.2 CertificateVerify,
  ServerKeyExchange.
-/
namespace Tls.Auth
open Gen

/-! ### post-handshake authentication -/

/-- what an accepted PHA answer has established -/
def PhaProof (C : Crypto) (st : PhaState) (cr : CertRequest) (chain : Chain) (certMsg : Bytes)
    (cv : CertVerify) (cvBytes fin : Bytes) : Prop :=
  let ctx0 := st.firstHs ++ (cr.bytes ++ certMsg)
  (chain = [] ∧ fin = finished13 C st.prf st.clAppSecret ctx0) ∨
  (∃ c r sid, chain = c :: r ∧ cv.scheme = some sid ∧ sid ∈ cr.sigAlgs ∧ compatible c 4 sid = true ∧
    Proved C c.key (tbs13 tagClient (digest C st.prf ctx0)) cv.signature ∧
    fin = finished13 C st.prf st.clAppSecret (st.firstHs ++ (cr.bytes ++ (certMsg ++ cvBytes))))

theorem phaCall_true (C : Crypto) (pk : Cert) (sid : SchemeId) (sig sc : Bytes)
    (hcall : phaCall C pk sid sig sc = .ok true) : Proved C pk.key sc sig := by
  unfold phaCall at hcall
  split at hcall
  · exact keyVerify_true _ _ _ _ _ _ hcall
  · split at hcall
    · exact keyVerify_true _ _ _ _ _ _ hcall
    · split at hcall
      · cases hcall
      · split at hcall
        · cases hcall
        · exact keyVerify_true _ _ _ _ _ _ hcall

theorem phaServer_ok (C : Crypto) (dflt : Settings) (st st' : PhaState) (crContext : Bytes) (chain : Chain)
    (certMsg : Bytes) (cv : CertVerify) (cvBytes fin : Bytes)
    (h : phaServer C dflt st crContext chain certMsg cv cvBytes fin = .ok st') :
    st'.clientCertChain = chain ∧ crContext ≠ [] ∧
    ∃ cr rest, popRequest crContext st.requests = some (cr, rest) ∧ st'.requests = rest ∧
      PhaProof C st cr chain certMsg cv cvBytes fin := by
  unfold phaServer at h
  simp only [bind, Except.bind, pure, Except.pure, List.append_assoc] at h
  by_cases hctx : crContext = []
  · simp [hctx, throw, throwThe, MonadExceptOf.throw] at h
  · simp only [hctx, if_false] at h
    cases hpop : popRequest crContext st.requests with
    | none => simp [hpop, throw, throwThe, MonadExceptOf.throw] at h
    | some p =>
      obtain ⟨cr, rest⟩ := p
      simp only [hpop] at h
      cases chain with
      | nil =>
        by_cases hreq : st.certRequired = true
        · simp [hreq, throw, throwThe, MonadExceptOf.throw] at h
        · simp only [hreq] at h
          by_cases hfin : fin = finished13 C st.prf st.clAppSecret (st.firstHs ++ (cr.bytes ++ certMsg))
          · simp [hfin] at h
            subst h
            exact ⟨rfl, hctx, cr, rest, rfl, rfl, Or.inl ⟨rfl, hfin⟩⟩
          · simp [hfin, throw, throwThe, MonadExceptOf.throw] at h
      | cons c r =>
        simp only at h
        cases hsch : cv.scheme with
        | none => simp [hsch, throw, throwThe, MonadExceptOf.throw] at h
        | some sid =>
          simp only [hsch] at h
          by_cases hoff : sid ∈ cr.sigAlgs
          · simp only [hoff, not_true_eq_false, if_false] at h
            cases hav : sigHashesToList dflt false (c :: r) 4 with
            | error e => simp [hav] at h
            | ok avail =>
              simp only [hav] at h
              by_cases hin : sid ∈ avail
              · simp only [hin, not_true_eq_false, if_false] at h
                by_cases hrepr : (schemeRepr sid.1 sid.2).isNone = true
                · simp [hrepr, throw, throwThe, MonadExceptOf.throw] at h
                · simp only [hrepr] at h
                  cases hvb : calcVerifyBytes C 4 (st.firstHs ++ (cr.bytes ++ certMsg)) (some sid) st.prf tagClient false with
                  | error e => simp [hvb] at h
                  | ok sc =>
                    simp only [hvb] at h
                    cases hcall : phaCall C c sid cv.signature sc with
                    | error e => simp [hcall] at h
                    | ok b =>
                      simp only [hcall] at h
                      cases b with
                      | false => simp [throw, throwThe, MonadExceptOf.throw] at h
                      | true =>
                        simp only [not_true_eq_false, if_false] at h
                        by_cases hfin : fin = finished13 C st.prf st.clAppSecret (st.firstHs ++ (cr.bytes ++ (certMsg ++ cvBytes)))
                        · simp [hfin] at h
                          subst h
                          refine ⟨rfl, hctx, cr, rest, rfl, rfl, Or.inr ⟨c, r, sid, rfl, hsch, hoff, ?_, ?_, hfin⟩⟩
                          · exact sigHashes_cert_compatible dflt false c r 4 avail hav sid hin
                          · obtain ⟨f, hf, hsc⟩ := calcVerifyBytes13 C _ sid st.prf tagClient false sc hvb
                            have hp := phaCall_true C c sid cv.signature sc hcall
                            rw [hsc] at hp
                            exact Proved.of_enc hf hp
                        · simp [hfin, throw, throwThe, MonadExceptOf.throw] at h
              · simp [hin, throw, throwThe, MonadExceptOf.throw] at h
          · simp [hoff, throw, throwThe, MonadExceptOf.throw] at h

/-! ### signed bytes before TLS 1.3 -/

theorem calcVerifyBytes12 (C : Crypto) (ver : Nat) (t : Transcript) (sa : Option SchemeId) (prf : HashName)
    (tag : Bytes) (b : Bool) (vb : Bytes) (hver : ver ≠ 4)
    (h : calcVerifyBytes C ver t sa prf tag b = .ok vb) : ∃ f, EncFn C f ∧ vb = f t := by
  unfold calcVerifyBytes at h
  by_cases h12 : ver = 1 ∨ ver = 2
  · simp only [h12, if_true, Except.ok.injEq] at h
    by_cases hb : b = true
    · simp only [hb, if_true, digest] at h; exact ⟨_, EncFn.hash _ EncFn.id, h.symm⟩
    · simp only [hb, digestLegacy] at h; exact ⟨_, EncFn.legacy EncFn.id, h.symm⟩
  · simp only [h12, if_false] at h
    by_cases h3 : ver = 3
    · simp only [h3, if_true] at h
      cases sa with
      | none => cases h
      | some sid =>
        simp only at h
        cases hp : cvParams12 sid with
        | error e => simp [hp] at h
        | ok r =>
          obtain ⟨hh, pk⟩ := r
          simp only [hp] at h
          by_cases hn : hh = HashName.none
          · simp [hn] at h
          · simp only [hn, if_false, Except.ok.injEq] at h
            by_cases hi : hh = HashName.intrinsic
            · by_cases hpk : pk = true
              · simp [hi, hpk] at h; exact ⟨_, EncFn.pref _ EncFn.id, h.symm⟩
              · simp [hi, hpk] at h; exact ⟨_, EncFn.id, h.symm⟩
            · by_cases hpk : pk = true
              · simp [hi, hpk, digest] at h; exact ⟨_, EncFn.pref _ (EncFn.hash hh EncFn.id), h.symm⟩
              · simp [hi, hpk, digest] at h; exact ⟨_, EncFn.hash hh EncFn.id, h.symm⟩
    · simp only [h3, if_false, hver] at h
      cases h

theorem skeHash_enc (C : Crypto) (ver : Nat) (fam : SuiteSig) (ske : SKE) (cr sr hb : Bytes)
    (h : skeHash C ver fam ske cr sr = .ok hb) : ∃ f, EncFn C f ∧ hb = f (cr ++ sr ++ ske.params) := by
  unfold skeHash at h
  simp only at h
  split at h
  · split at h
    · cases h
    · simp only [Except.ok.injEq] at h; exact ⟨_, EncFn.id, h.symm⟩
    · split at h
      · cases h
      · simp only [Except.ok.injEq] at h; exact ⟨_, EncFn.hash _ EncFn.id, h.symm⟩
  · split at h
    · simp only [Except.ok.injEq] at h; exact ⟨_, EncFn.hash _ EncFn.id, h.symm⟩
    · simp only [Except.ok.injEq] at h; exact ⟨_, EncFn.legacy EncFn.id, h.symm⟩


/-! ### TLS ≤ 1.2 client CertificateVerify (server side) -/

theorem cv12Call_true (C : Crypto) (pk : Cert) (sa : Option SchemeId) (sig vb : Bytes)
    (h : cv12Call C pk sa sig vb = .ok true) : Proved C pk.key vb sig := by
  unfold cv12Call at h
  split at h
  · split at h
    · exact keyVerify_true _ _ _ _ _ _ h
    · split at h
      · exact keyVerify_true _ _ _ _ _ _ h
      · split at h
        · split at h
          · exact keyVerify_true _ _ _ _ _ _ h
          · split at h
            · exact keyVerify_true _ _ _ _ _ _ h
            · exact keyVerify_true _ _ _ _ _ _ h
            · cases h
        · split at h
          · cases h
          · exact Proved.of_enc (EncFn.take _ EncFn.id) (keyVerify_true _ _ _ _ _ _ h)
  · exact keyVerify_true _ _ _ _ _ _ h

theorem cv12Admit_ok (s : Settings) (ver : Nat) (c0 : Cert) (rest : Chain) (cv : CertVerify)
    (sa : Option SchemeId) (h : cv12Admit s ver (c0 :: rest) cv = .ok sa) :
    ver = 3 → ∃ sid, cv.scheme = some sid ∧ compatible c0 3 sid = true ∧
      ∀ l0, sigHashesToList s false [] 3 = .ok l0 → sid ∈ l0 := by
  intro h3
  subst h3
  unfold cv12Admit at h
  simp only [if_true, bind, Except.bind, pure, Except.pure] at h
  cases hv : sigHashesToList s false (c0 :: rest) 3 with
  | error e => simp [hv] at h
  | ok valid =>
    simp only [hv] at h
    cases hsch : cv.scheme with
    | none => simp [hsch, throw, throwThe, MonadExceptOf.throw] at h
    | some sid =>
      simp only [hsch] at h
      by_cases hmem : sid ∈ valid
      · refine ⟨sid, rfl, ?_, ?_⟩
        · exact sigHashes_cert_compatible s false c0 rest 3 valid hv sid hmem
        · intro l0 hl0
          exact sigHashes_cert_subset_v3 s false c0 rest valid l0 hv hl0 sid hmem
      · simp [hmem, throw, throwThe, MonadExceptOf.throw] at h

theorem cv12Tail_ok (C : Crypto) (s : Settings) (ver : Nat) (c0 : Cert) (rest : Chain) (t : Transcript)
    (sa : Option SchemeId) (sig : Bytes) (ch : Chain) (hver : ver ≠ 4)
    (h : cv12Tail C s ver c0 rest t sa sig = .ok ch) : ch = c0 :: rest ∧ Proved C c0.key t sig := by
  unfold cv12Tail at h
  simp only [bind, Except.bind, pure, Except.pure] at h
  cases hvb : calcVerifyBytes C ver t sa HashName.sha256 tagClient (c0.alg == CertAlg.ecdsa) with
  | error e => simp [hvb] at h
  | ok vb =>
    simp only [hvb] at h
    cases hpk : checkCertChain s ver (c0 :: rest) with
    | error e => simp [hpk] at h
    | ok pk =>
      simp only [hpk] at h
      obtain ⟨rest', hch⟩ := checkCertChain_ok s ver _ pk hpk
      simp only [List.cons.injEq] at hch
      cases hcall : cv12Call C pk sa sig vb with
      | error e => simp [hcall] at h
      | ok b =>
        simp only [hcall] at h
        cases b with
        | false => simp [throw, throwThe, MonadExceptOf.throw] at h
        | true =>
          simp at h
          refine ⟨h.symm, ?_⟩
          obtain ⟨f, hf, hvbf⟩ := calcVerifyBytes12 C ver t sa _ _ _ vb hver hvb
          have hp := cv12Call_true C pk sa sig vb hcall
          rw [hvbf, ← hch.1] at hp
          exact Proved.of_enc hf hp

/-- An accepted client CertificateVerify (TLS 1.0–1.2): signature by the end-entity key of the
    presented chain over this transcript; in TLS 1.2 with a scheme of the certificate-filtered
    list, which is compatible with the key and part of every list offered without certificate. -/
theorem verifyCV12_ok (C : Crypto) (s : Settings) (ver : Nat) (chain : Chain) (t : Transcript)
    (cv : CertVerify) (ch : Chain) (hver : ver ≠ 4)
    (h : verifyCV12 C s ver chain t cv = .ok ch) :
    ch = chain ∧ (chain = [] ∨ ∃ c rest, chain = c :: rest ∧ Proved C c.key t cv.signature ∧
      (ver = 3 → ∃ sid, cv.scheme = some sid ∧ compatible c 3 sid = true ∧
        ∀ l0, sigHashesToList s false [] 3 = .ok l0 → sid ∈ l0)) := by
  unfold verifyCV12 at h
  cases chain with
  | nil => simp [pure, Except.pure] at h; exact ⟨h, Or.inl rfl⟩
  | cons c0 rest =>
    simp only [bind, Except.bind] at h
    cases hadm : cv12Admit s ver (c0 :: rest) cv with
    | error e => simp [hadm] at h
    | ok sa =>
      simp only [hadm] at h
      obtain ⟨h1, h2⟩ := cv12Tail_ok C s ver c0 rest t _ cv.signature ch hver h
      exact ⟨h1, Or.inr ⟨c0, rest, rfl, h2, cv12Admit_ok s ver c0 rest cv sa hadm⟩⟩

end Tls.Auth
