import TlsProofs.CryptomathGen
import TlsProofs.RsaPss
/-
  Link between the Python-runtime model `Tls.PyE` and C10's hand-written RSA model (TlsModel/Rsa.lean).
  Nothing here mentions a generated module; the equalities `Gen.f = model` are in Props/C10.lean.
-/
set_option linter.unusedSimpArgs false
namespace Tls.Rsa
open Tls Tls.Py

/-- the RSAKey object the hand model's key, hash and randomness describe: `_rawPublicKeyOp` is
    `pow(c, e, n)`, `_rawPrivateKeyOp` an arbitrary function, `secureHash(·, H.name)` is `H.hash`,
    `getRandomBytes` returns `salt` -/
def padSelf (k : PubKey) (H : HashAlg) (privOp : Nat → Nat) (hasPriv : Bool) (salt : Bytes) : PyE.RsaSelf :=
  { n := (k.n : Int), d := 0, keyType := if k.pssOnly then "rsa-pss" else "rsa", hasPrivateKey := hasPriv,
    keyHash := none, sha256 := fun _ => [], hmac := fun _ _ => [],
    privOp := fun x => (privOp x.toNat : Int),
    pubOp := fun x => (rawPublicKeyOp k x.toNat : Int),
    hashFn := fun name d => if name = H.name then H.hash d else [],
    digestSize := fun name => if name = H.name then some (H.hLen : Int) else none,
    random := fun _ => salt }

def Err.toE : Err → PyE.Err
  | .valueError => .valueError
  | .invalidSignature => .invalidSignature
  | .encodingError => .encodingError
  | .messageTooLong => .messageTooLong
  | .maskTooLong => .maskTooLong
  | .indexError => .indexError
  | .assertionError => .assertionError
  | .unknownRSAType => .unknownRSAType
  | .arith => .zeroDivisionError

def liftP {α : Type} : Except Err α → PyE.M α
  | .ok a => .ok a
  | .error e => .error e.toE

theorem numBits_eq (n : Nat) : Tls.RsaDec.numBits n = numBits n := rfl
theorem numBytes_eq (n : Nat) : Tls.RsaDec.numBytes n = numBytes n := rfl
theorem pyNumBytes (n : Nat) : PyE.numBytes (n : Int) = (numBytes n : Int) := Tls.RsaDec.numBytes_nat n
theorem pyNumBits (n : Nat) : PyE.numBits (n : Int) = (numBits n : Int) := Tls.RsaDec.numBits_nat n

theorem padSelf_n (k : PubKey) (H : HashAlg) (f : Nat → Nat) (hp : Bool) (s : Bytes) :
    (padSelf k H f hp s).n = (k.n : Int) := Eq.trans rfl rfl
theorem padSelf_pub (k : PubKey) (H : HashAlg) (f : Nat → Nat) (hp : Bool) (s : Bytes) (x : Nat) :
    (padSelf k H f hp s).pubOp (x : Int) = (rawPublicKeyOp k x : Int) := by
  show ((rawPublicKeyOp k (x : Int).toNat : Nat) : Int) = _
  rw [Int.toNat_natCast]
theorem padSelf_priv (k : PubKey) (H : HashAlg) (f : Nat → Nat) (hp : Bool) (s : Bytes) (x : Nat) :
    (padSelf k H f hp s).privOp (x : Int) = (f x : Int) := by
  show ((f (x : Int).toNat : Nat) : Int) = _
  rw [Int.toNat_natCast]
theorem padSelf_keyType (k : PubKey) (H : HashAlg) (f : Nat → Nat) (hp : Bool) (s : Bytes) :
    (padSelf k H f hp s).keyType = (if k.pssOnly then "rsa-pss" else "rsa") := Eq.trans rfl rfl
theorem padSelf_hash (k : PubKey) (H : HashAlg) (f : Nat → Nat) (hp : Bool) (s : Bytes) (d : Bytes) :
    (padSelf k H f hp s).hashFn H.name d = H.hash d := by
  show (if H.name = H.name then H.hash d else []) = _
  simp
theorem padSelf_digestSize (k : PubKey) (H : HashAlg) (f : Nat → Nat) (hp : Bool) (s : Bytes) :
    PyE.getDigestSize (padSelf k H f hp s) H.name = .ok (H.hLen : Int) := by
  show (match (if H.name = H.name then some (H.hLen : Int) else none) with | some n => _ | none => _) = _
  simp
theorem padSelf_random (k : PubKey) (H : HashAlg) (f : Nat → Nat) (hp : Bool) (s : Bytes) (n : Int) :
    (padSelf k H f hp s).random n = s := Eq.trans rfl rfl
theorem padSelf_hasPriv (k : PubKey) (H : HashAlg) (f : Nat → Nat) (hp : Bool) (s : Bytes) :
    (padSelf k H f hp s).hasPrivateKey = hp := Eq.trans rfl rfl

theorem liftP_ok {α : Type} (a : α) : liftP (.ok a : Except Err α) = .ok a := Eq.trans rfl rfl

/-- `bytearray([0, 1] + [0xFF] * padLength + [0])` -/
theorem pad1_bytes (p : Int) :
    Py.bytearrayOfInts (([(0 : Int), 1] ++ PyE.listRepeat 255 p) ++ [(0 : Int)]) =
      some ([0, 1] ++ List.replicate p.toNat (0xFF : UInt8) ++ [0]) := by
  unfold Py.bytearrayOfInts PyE.listRepeat
  generalize p.toNat = n
  have h : ∀ n : Nat, List.mapM (fun v : Int => if 0 ≤ v ∧ v < 256 then some (UInt8.ofNat v.toNat) else none)
      (List.replicate n (255 : Int) ++ [(0 : Int)]) = some (List.replicate n (0xFF : UInt8) ++ [0]) := by
    intro n
    induction n with
    | zero => rfl
    | succ m ih =>
      rw [List.replicate_succ, List.cons_append, List.mapM_cons, ih]
      rfl
  simp only [List.cons_append, List.nil_append, List.append_assoc, List.mapM_cons, h]
  rfl

end Tls.Rsa

namespace Tls.Rsa
open Tls Tls.Py

/-- `for x in range(0, b)` in `M` whose body cannot raise is a left fold -/
theorem forInL_range0 {σ : Type} (b : Nat) (init : σ) (body : Int → σ → PyE.M σ) (g : σ → Nat → σ)
    (h : ∀ (k : Nat) st, body (k : Int) st = .ok (g st k)) :
    PyE.forInL (Py.range 0 (b : Int)) init body = .ok ((List.range b).foldl g init) := by
  unfold Py.range
  have e : ((b : Int) - 0).toNat = b := by omega
  rw [e, ← List.range_eq_range']
  exact Tls.RsaDec.forInL_ok (fun (k : Nat) => (0 : Int) + (k : Int)) (fun (s : σ) => s) body g
    (fun x t => by rw [Int.zero_add]; exact h x t) (List.range b) init

theorem divceil_def (a b : Nat) : divceil a b = a / b + (if a % b = 0 then 0 else 1) := rfl

end Tls.Rsa
