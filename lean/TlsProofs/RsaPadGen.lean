import TlsProofs.CryptomathGen
import TlsProofs.RsaPss
/-
  Link between the Python-runtime model `Tls.PyE` and C10's hand-written RSA model (TlsModel/Rsa.lean).
  Nothing here mentions a generated module; the equalities `Gen.f = model` are in Props/C10.lean.
-/
set_option linter.unusedSimpArgs false
namespace Tls.Rsa
open Tls Tls.Py

/-- the RSAKey object the hand model's key, hash and randomness describe: `_rawPublicKeyOp` is
    `pow(c, e, n)`, `_rawPrivateKeyOp` an arbitrary function, `secureHash(·, H.name)` is `H.hash`,
    `getRandomBytes` returns `salt` -/
def padSelf (k : PubKey) (H : HashAlg) (privOp : Nat → Nat) (hasPriv : Bool) (salt : Bytes) : PyE.RsaSelf :=
  { n := (k.n : Int), d := 0, keyType := if k.pssOnly then "rsa-pss" else "rsa", hasPrivateKey := hasPriv,
    keyHash := none, sha256 := fun _ => [], hmac := fun _ _ => [],
    privOp := fun x => (privOp x.toNat : Int),
    pubOp := fun x => (rawPublicKeyOp k x.toNat : Int),
    hashFn := fun name d => if name = H.name then H.hash d else [],
    digestSize := fun name => if name = H.name then some (H.hLen : Int) else none,
    random := fun _ => salt }

def Err.toE : Err → PyE.Err
  | .valueError => .valueError
  | .invalidSignature => .invalidSignature
  | .encodingError => .encodingError
  | .messageTooLong => .messageTooLong
  | .maskTooLong => .maskTooLong
  | .indexError => .indexError
  | .assertionError => .assertionError
  | .unknownRSAType => .unknownRSAType
  | .arith => .zeroDivisionError

def liftP {α : Type} : Except Err α → PyE.M α
  | .ok a => .ok a
  | .error e => .error e.toE

theorem numBits_eq (n : Nat) : Tls.RsaDec.numBits n = numBits n := rfl
theorem numBytes_eq (n : Nat) : Tls.RsaDec.numBytes n = numBytes n := rfl
theorem pyNumBytes (n : Nat) : PyE.numBytes (n : Int) = (numBytes n : Int) := Tls.RsaDec.numBytes_nat n
theorem pyNumBits (n : Nat) : PyE.numBits (n : Int) = (numBits n : Int) := Tls.RsaDec.numBits_nat n

theorem padSelf_n (k : PubKey) (H : HashAlg) (f : Nat → Nat) (hp : Bool) (s : Bytes) :
    (padSelf k H f hp s).n = (k.n : Int) := Eq.trans rfl rfl
theorem padSelf_pub (k : PubKey) (H : HashAlg) (f : Nat → Nat) (hp : Bool) (s : Bytes) (x : Nat) :
    (padSelf k H f hp s).pubOp (x : Int) = (rawPublicKeyOp k x : Int) := by
  show ((rawPublicKeyOp k (x : Int).toNat : Nat) : Int) = _
  rw [Int.toNat_natCast]
theorem padSelf_priv (k : PubKey) (H : HashAlg) (f : Nat → Nat) (hp : Bool) (s : Bytes) (x : Nat) :
    (padSelf k H f hp s).privOp (x : Int) = (f x : Int) := by
  show ((f (x : Int).toNat : Nat) : Int) = _
  rw [Int.toNat_natCast]
theorem padSelf_keyType (k : PubKey) (H : HashAlg) (f : Nat → Nat) (hp : Bool) (s : Bytes) :
    (padSelf k H f hp s).keyType = (if k.pssOnly then "rsa-pss" else "rsa") := Eq.trans rfl rfl
theorem padSelf_hash (k : PubKey) (H : HashAlg) (f : Nat → Nat) (hp : Bool) (s : Bytes) (d : Bytes) :
    (padSelf k H f hp s).hashFn H.name d = H.hash d := by
  show (if H.name = H.name then H.hash d else []) = _
  simp
theorem padSelf_digestSize (k : PubKey) (H : HashAlg) (f : Nat → Nat) (hp : Bool) (s : Bytes) :
    PyE.getDigestSize (padSelf k H f hp s) H.name = .ok (H.hLen : Int) := by
  show (match (if H.name = H.name then some (H.hLen : Int) else none) with | some n => _ | none => _) = _
  simp
theorem padSelf_random (k : PubKey) (H : HashAlg) (f : Nat → Nat) (hp : Bool) (s : Bytes) (n : Int) :
    (padSelf k H f hp s).random n = s := Eq.trans rfl rfl
theorem padSelf_hasPriv (k : PubKey) (H : HashAlg) (f : Nat → Nat) (hp : Bool) (s : Bytes) :
    (padSelf k H f hp s).hasPrivateKey = hp := Eq.trans rfl rfl

theorem liftP_ok {α : Type} (a : α) : liftP (.ok a : Except Err α) = .ok a := Eq.trans rfl rfl

/-- `bytearray([0, 1] + [0xFF] * padLength + [0])` -/
theorem pad1_bytes (p : Int) :
    Py.bytearrayOfInts (([(0 : Int), 1] ++ PyE.listRepeat 255 p) ++ [(0 : Int)]) =
      some ([0, 1] ++ List.replicate p.toNat (0xFF : UInt8) ++ [0]) := by
  unfold Py.bytearrayOfInts PyE.listRepeat
  generalize p.toNat = n
  have h : ∀ n : Nat, List.mapM (fun v : Int => if 0 ≤ v ∧ v < 256 then some (UInt8.ofNat v.toNat) else none)
      (List.replicate n (255 : Int) ++ [(0 : Int)]) = some (List.replicate n (0xFF : UInt8) ++ [0]) := by
    intro n
    induction n with
    | zero => rfl
    | succ m ih =>
      rw [List.replicate_succ, List.cons_append, List.mapM_cons, ih]
      rfl
  simp only [List.cons_append, List.nil_append, List.append_assoc, List.mapM_cons, h]
  rfl

end Tls.Rsa

namespace Tls.Rsa
open Tls Tls.Py

/-- `for x in range(0, b)` in `M` whose body cannot raise is a left fold -/
theorem forInL_range0 {σ : Type} (b : Nat) (init : σ) (body : Int → σ → PyE.M σ) (g : σ → Nat → σ)
    (h : ∀ (k : Nat) st, body (k : Int) st = .ok (g st k)) :
    PyE.forInL (Py.range 0 (b : Int)) init body = .ok ((List.range b).foldl g init) := by
  unfold Py.range
  have e : ((b : Int) - 0).toNat = b := by omega
  rw [e, ← List.range_eq_range']
  exact Tls.RsaDec.forInL_ok (fun (k : Nat) => (0 : Int) + (k : Int)) (fun (s : σ) => s) body g
    (fun x t => by rw [Int.zero_add]; exact h x t) (List.range b) init

theorem divceil_def (a b : Nat) : divceil a b = a / b + (if a % b = 0 then 0 else 1) := rfl

end Tls.Rsa

/-! ### lemmas for the PSS functions -/
namespace Tls.Rsa
open Tls Tls.Py

theorem getItem_last (em : Bytes) :
    Py.getItem em (-1) = em.getLast?.map fun l => (l.toNat : Int) := by
  unfold Py.getItem
  have h1 : ((-1 : Int) < 0) := by decide
  simp only [h1, if_true]
  cases em with
  | nil => simp
  | cons a t =>
    have h2 : ¬ ((-1 : Int) + ((a :: t).length : Nat) < 0) := by simp; omega
    simp only [h2, if_false]
    have e : ((-1 : Int) + ((a :: t).length : Nat)).toNat = (a :: t).length - 1 := by
      simp only [List.length_cons]; omega
    rw [e, List.getLast?_eq_getElem?]

theorem getItemE_last (em : Bytes) :
    PyE.getItemE em (-1) = match em.getLast? with
      | none => .error .indexError
      | some l => .ok (l.toNat : Int) := by
  unfold PyE.getItemE
  rw [getItem_last]
  cases em.getLast? <;> rfl

theorem getItem_nat' (d : Bytes) (i : Nat) : Py.getItem d (i : Int) = d[i]?.map fun b => (b.toNat : Int) := by
  unfold Py.getItem
  have h1 : ¬ ((i : Int) < 0) := by omega
  simp only [h1, if_false, Int.toNat_natCast]

theorem getItemE_nat (d : Bytes) (i : Nat) :
    PyE.getItemE d (i : Int) = match d[i]? with
      | none => .error .indexError
      | some b => .ok (b.toNat : Int) := by
  unfold PyE.getItemE
  rw [getItem_nat']
  cases d[i]? <;> rfl

theorem getItemE_zero (d : Bytes) :
    PyE.getItemE d 0 = match d.head? with
      | none => .error .indexError
      | some b => .ok (b.toNat : Int) := by
  have := getItemE_nat d 0
  rw [show ((0 : Nat) : Int) = 0 from rfl] at this
  rw [this]
  cases d <;> rfl

theorem slice_0_to (d : Bytes) (n : Nat) : Py.slice d (some 0) (some (n : Int)) = d.take n := by
  have := Tls.Py.slice_to d n
  unfold Py.slice at this ⊢
  have h0 : Py.sliceBound d.length 0 = 0 := by
    unfold Py.sliceBound; simp
  simp only [h0]
  exact this

theorem slice_drop_take (d : Bytes) (a n : Nat) :
    Py.slice d (some (a : Int)) (some ((a + n : Nat) : Int)) = (d.drop a).take n := by
  unfold Py.slice
  simp only [Py.sliceBound_nat]
  by_cases h1 : a < d.length
  · by_cases h2 : a + n < d.length
    · simp only [h1, h2, if_true]
      congr 1; omega
    · simp only [h1, h2, if_true, if_false]
      rw [List.take_of_length_le (by simp), List.take_of_length_le (by simp; omega)]
  · have h2 : ¬ a + n < d.length := by omega
    simp only [h1, h2, if_false]
    rw [List.drop_of_length_le (Nat.le_refl _), List.drop_of_length_le (by omega)]
    simp

theorem slice_neg_from (d : Bytes) (s : Nat) (hs : 0 < s) :
    Py.slice d (some (-(s : Int))) none = d.drop (d.length - s) := by
  unfold Py.slice Py.sliceBound
  have h1 : (-(s : Int)) < 0 := by omega
  simp only [h1, if_true]
  have e : (-(s : Int) + (d.length : Nat)).toNat = d.length - s := by omega
  rw [e, List.take_of_length_le (by simp)]

theorem xor_mask8 (r : Nat) (h : r < 256) : 255 ^^^ r = 255 - r := by
  have h1 : (~~~ (BitVec.ofNat 8 r)).toNat = 2^8 - 1 - (BitVec.ofNat 8 r).toNat := BitVec.toNat_not
  rw [BitVec.not_def, BitVec.toNat_xor, BitVec.toNat_allOnes, BitVec.toNat_ofNat,
    Nat.mod_eq_of_lt (by omega)] at h1
  exact h1

/-- `(~x) & 0xff` for a non-negative `x` -/
theorem band_bnot_255 (x : Nat) : Py.band (Py.bnot (x : Int)) 255 = ((255 - x % 256 : Nat) : Int) := by
  have hb : Py.bnot (x : Int) = Int.negSucc x := by
    unfold Py.bnot; rw [Int.negSucc_eq]; omega
  rw [hb]
  show ((255 ^^^ (255 &&& x) : Nat) : Int) = _
  have h1 := Nat.and_two_pow_sub_one_eq_mod x 8
  simp only [show (2:Nat)^8 - 1 = 255 from rfl, show (2:Nat)^8 = 256 from rfl] at h1
  rw [Nat.and_comm, h1, xor_mask8 _ (Nat.mod_lt _ (by decide))]

/-- `bytearray(i ^ j for i, j in zip(a, b))` -/
theorem xor_zip_eq : ∀ (a b : Bytes),
    Py.bytearrayOfInts ((PyE.zipBytes a b).map fun xy => Py.bxor xy.1 xy.2) = some (xorBytes a b)
  | [], _ => rfl
  | _ :: _, [] => rfl
  | x :: xs, y :: ys => by
    have ih := xor_zip_eq xs ys
    unfold Py.bytearrayOfInts at ih ⊢
    unfold xorBytes PyE.zipBytes at *
    simp only [List.zipWith_cons_cons, List.map_cons, List.mapM_cons, bxor_nat]
    have h3 : x.toNat ^^^ y.toNat < 2^8 := Nat.xor_lt_two_pow x.toNat_lt y.toNat_lt
    have hb : (0 : Int) ≤ ((x.toNat ^^^ y.toNat : Nat) : Int) ∧ ((x.toNat ^^^ y.toNat : Nat) : Int) < 256 := by omega
    simp only [hb, and_self, if_true, Int.toNat_natCast]
    rw [ih]
    have : UInt8.ofNat (x.toNat ^^^ y.toNat) = x ^^^ y := by
      apply UInt8.toNat_inj.mp
      rw [UInt8.toNat_ofNat', UInt8.toNat_xor]
      exact Nat.mod_eq_of_lt h3
    rw [this]
    rfl

/-- `db[0] &= mask` -/
theorem setItem_head_and (db : Bytes) (mask : Nat) :
    (PyE.getItemE db 0).bind (fun v => PyE.setItem db 0 (Py.band v (mask : Int))) = liftP (maskHead mask db) := by
  cases db with
  | nil => rfl
  | cons x xs =>
    rw [getItemE_zero]
    show PyE.setItem (x :: xs) 0 (Py.band (x.toNat : Int) (mask : Int)) = _
    rw [band_nat]
    unfold PyE.setItem
    have hlt : x.toNat &&& mask < 256 := Nat.lt_of_le_of_lt Nat.and_le_left x.toNat_lt
    have h1 : ¬ ((0 : Int) < 0) := by decide
    have h2 : ¬ ((0 : Int) < 0 ∨ (0 : Int) ≥ (((x :: xs).length : Nat) : Int)) := by simp
    have h3 : ¬ (((x.toNat &&& mask : Nat) : Int) < 0 ∨ ((x.toNat &&& mask : Nat) : Int) ≥ 256) := by omega
    simp only [h1, if_false, h2, h3, Int.toNat_natCast]
    rfl

theorem anyNonZero_eq (b : Bytes) : PyE.anyNonZero b = b.any (· ≠ 0) := by
  unfold PyE.anyNonZero
  congr 1
  funext v
  by_cases h : v = 0 <;> simp [h]

theorem zeros_nat (n : Nat) : PyE.zeros (n : Int) = .ok (List.replicate n (0 : UInt8)) := by
  unfold PyE.zeros
  have : ¬ ((n : Int) < 0) := by omega
  simp only [this, if_false, Int.toNat_natCast]

theorem divceil8_bounds (a : Nat) : a ≤ 8 * divceil a 8 ∧ 8 * divceil a 8 < a + 8 := by
  unfold divceil
  have := Nat.div_add_mod a 8
  by_cases h : a % 8 = 0 <;> simp only [h, if_true, if_false] <;> omega

end Tls.Rsa

namespace Tls.Rsa
theorem bind_bind_of {α β γ : Type} {x : PyE.M α} {f : α → PyE.M β} {y : PyE.M β} (h : x.bind f = y)
    (g : β → PyE.M γ) : Except.bind x (fun a => Except.bind (f a) g) = Except.bind y g := by
  rw [← h]; cases x <;> rfl
theorem liftP_err {α : Type} (e : Err) : liftP (.error e : Except Err α) = .error e.toE := Eq.trans rfl rfl
theorem err_bind' {α β : Type} (e : PyE.Err) (f : α → PyE.M β) : (Except.error e : PyE.M α).bind f = .error e :=
  Eq.trans rfl rfl
end Tls.Rsa

namespace Tls.Rsa
open Tls Tls.Py

/-- an invariant of a `while` loop holds of whatever state the loop returns, and the condition is false there -/
theorem whileLoop_inv {σ : Type} (cond : σ → Bool) (body : σ → PyE.M σ) (P : σ → Prop)
    (hstep : ∀ s s', P s → cond s = true → body s = .ok s' → P s') :
    ∀ (fuel : Nat) (s0 s : σ), P s0 → PyE.whileLoop cond body fuel s0 = .ok s → P s ∧ cond s = false := by
  intro fuel
  induction fuel with
  | zero =>
    intro s0 s h0 h
    unfold PyE.whileLoop at h
    by_cases hc : cond s0 = true
    · simp [hc] at h
    · simp only [hc, Bool.false_eq_true, if_false] at h
      cases h
      exact ⟨h0, by simpa using hc⟩
  | succ f ih =>
    intro s0 s h0 h
    unfold PyE.whileLoop at h
    by_cases hc : cond s0 = true
    · simp only [hc, if_true] at h
      cases hb : body s0 with
      | error e => rw [hb] at h; cases h
      | ok s1 =>
        rw [hb] at h
        exact ih s1 s (hstep s0 s1 h0 hc hb) h
    · simp only [hc, Bool.false_eq_true, if_false] at h
      cases h
      exact ⟨h0, by simpa using hc⟩

/-- a loop whose first iteration already falsifies the condition -/
theorem whileLoop_once {σ : Type} (cond : σ → Bool) (body : σ → PyE.M σ) (fuel : Nat) (s0 s1 : σ)
    (hc0 : cond s0 = true) (hb : body s0 = .ok s1) (hc1 : cond s1 = false) :
    PyE.whileLoop cond body (fuel + 1) s0 = .ok s1 := by
  unfold PyE.whileLoop
  simp only [hc0, if_true, hb]
  show PyE.whileLoop cond body fuel s1 = _
  cases fuel <;> (unfold PyE.whileLoop; simp [hc1])

/-- `bytearray([0, 2] + pad + [0])` for a pad of non-zero byte values -/
theorem pad2_bytes : ∀ (l : List Int), (∀ v ∈ l, 1 ≤ v ∧ v < 256) →
    Py.bytearrayOfInts (([(0 : Int), 2] ++ l) ++ [(0 : Int)]) =
      some ([0, 2] ++ l.map (fun v => UInt8.ofNat v.toNat) ++ [0]) := by
  intro l hl
  unfold Py.bytearrayOfInts
  have h : ∀ (l : List Int), (∀ v ∈ l, 1 ≤ v ∧ v < 256) →
      List.mapM (fun v : Int => if 0 ≤ v ∧ v < 256 then some (UInt8.ofNat v.toNat) else none) (l ++ [(0 : Int)])
        = some (l.map (fun v => UInt8.ofNat v.toNat) ++ [0]) := by
    intro l
    induction l with
    | nil => intro _; rfl
    | cons a t ih =>
      intro hl
      have ha := hl a (List.mem_cons_self ..)
      have hc : (0 ≤ a ∧ a < 256) := by omega
      rw [List.cons_append, List.mapM_cons, ih (fun v hv => hl v (List.mem_cons_of_mem _ hv))]
      simp only [hc, and_self, if_true]
      rfl
  simp only [List.cons_append, List.nil_append, List.append_assoc, List.mapM_cons, h l hl]
  rfl

theorem filterNonZero_range (b : Bytes) : ∀ v ∈ PyE.filterNonZero b, 1 ≤ v ∧ v < 256 := by
  intro v hv
  unfold PyE.filterNonZero PyE.iterBytes at hv
  rw [List.mem_filter, List.mem_map] at hv
  obtain ⟨⟨x, _, rfl⟩, hnz⟩ := hv
  have := x.toNat_lt
  have hne : (x.toNat : Int) ≠ 0 := by simpa using hnz
  omega

end Tls.Rsa

namespace Tls.Rsa
/-- a loop stuck in a state that the body maps to itself runs out of fuel -/
theorem whileLoop_stuck {σ : Type} (cond : σ → Bool) (body : σ → PyE.M σ) (s1 : σ)
    (hc : cond s1 = true) (hb : body s1 = .ok s1) : ∀ fuel, PyE.whileLoop cond body fuel s1 = .error .fuel := by
  intro fuel
  induction fuel with
  | zero => unfold PyE.whileLoop; simp [hc]
  | succ f ih => unfold PyE.whileLoop; simp only [hc, if_true, hb]; exact ih
end Tls.Rsa

namespace Tls.Rsa
/-- `_rawPrivateKeyOp` of the hand model (blinded CRT) as a function of the message, for a given blinding
    state and random number -/
def privOf (k : PrivKey) (st : Blind) (rnd : Nat) : Nat → Nat := fun m => (rawPrivateKeyOp k st rnd m).1
end Tls.Rsa

namespace Tls.Rsa
theorem bind_pure' {α : Type} (x : PyE.M α) : Except.bind x (fun a => Except.pure a) = x := by cases x <;> rfl
theorem liftP_bind {α β : Type} (x : Except Err α) (f : α → Except Err β) :
    liftP (x.bind f) = Except.bind (liftP x) (fun a => liftP (f a)) := by cases x <;> rfl
theorem liftP_map {α β : Type} (x : Except Err α) (g : α → β) :
    liftP (Except.map g x) = Except.map g (liftP x) := by cases x <;> rfl
end Tls.Rsa
