import TlsModel.Interop
/-
  Helper lemmas for Props/C07.lean: the Boolean expectation functions of TlsModel/Interop.lean
  against their spelled-out propositional readings.  Core Lean only.
-/
namespace Tls.Interop

theorem mem_common {a b : List Nat} {x : Nat} : x ∈ common a b ↔ x ∈ a ∧ x ∈ b := by
  simp [common, List.mem_filter]

theorem listMax_none {l : List Nat} : listMax l = none ↔ l = [] := by
  cases l with
  | nil => simp [listMax]
  | cons x xs =>
    simp only [listMax]
    cases listMax xs <;> simp

theorem listMax_some {l : List Nat} {m : Nat} :
    listMax l = some m ↔ m ∈ l ∧ ∀ x, x ∈ l → x ≤ m := by
  induction l generalizing m with
  | nil => simp [listMax]
  | cons x xs ih =>
    simp only [listMax]
    cases h : listMax xs with
    | none =>
      have hx : xs = [] := listMax_none.mp h
      subst hx
      simp only [Option.some.injEq, List.mem_singleton]
      constructor
      · intro e; subst e; simp
      · intro ⟨e, _⟩; exact e.symm
    | some m' =>
      have ⟨hm', hle⟩ := ih.mp h
      simp only [Option.some.injEq, List.mem_cons]
      constructor
      · intro e
        subst e
        by_cases hc : m' ≤ x
        · simp only [hc, if_true]
          refine ⟨by simp, ?_⟩
          intro y hy
          cases hy with
          | inl e => rw [e]; exact Nat.le_refl _
          | inr hy => exact Nat.le_trans (hle y hy) hc
        · simp only [hc, if_false]
          refine ⟨Or.inr hm', ?_⟩
          intro y hy
          cases hy with
          | inl e => rw [e]; omega
          | inr hy => exact hle y hy
      · intro ⟨hmem, hall⟩
        by_cases hc : m' ≤ x
        · simp only [hc, if_true]
          cases hmem with
          | inl e => exact e.symm
          | inr hin =>
            have h1 := hle m hin
            have h2 := hall x (Or.inl rfl)
            omega
        · simp only [hc, if_false]
          cases hmem with
          | inl e =>
            have := hall m' (Or.inr hm')
            omega
          | inr hin =>
            have h1 := hle m hin
            have h2 := hall m' (Or.inr hm')
            omega

/-- the negotiated version is the highest one both sides list -/
theorem negotiatedVersion_some {c s : Caps} {v : Nat} :
    negotiatedVersion c s = some v ↔
      v ∈ c.versions ∧ v ∈ s.versions ∧ ∀ w, w ∈ c.versions → w ∈ s.versions → w ≤ v := by
  unfold negotiatedVersion
  rw [listMax_some]
  constructor
  · intro ⟨h, hall⟩
    have := mem_common.mp h
    exact ⟨this.1, this.2, fun w hc hs => hall w (mem_common.mpr ⟨hc, hs⟩)⟩
  · intro ⟨hc, hs, hall⟩
    exact ⟨mem_common.mpr ⟨hc, hs⟩, fun w hw => hall w (mem_common.mp hw).1 (mem_common.mp hw).2⟩

theorem negotiatedVersion_none {c s : Caps} :
    negotiatedVersion c s = none ↔ ∀ v, v ∈ c.versions → v ∉ s.versions := by
  unfold negotiatedVersion
  rw [listMax_none]
  constructor
  · intro h v hc hs
    have : v ∈ common c.versions s.versions := mem_common.mpr ⟨hc, hs⟩
    rw [h] at this
    cases this
  · intro h
    apply List.eq_nil_iff_forall_not_mem.mpr
    intro v hv
    exact h v (mem_common.mp hv).1 (mem_common.mp hv).2

/-! ### spelled-out readings -/

/-- a group usable for the suite's key exchange is listed by both sides (or none is needed) -/
def GroupAvail (si : SuiteInfo) (c s : Caps) : Prop :=
  match si.kx with
  | .rsa => True
  | .ecdhe | .ecdhAnon => ∃ g, g ∈ c.groups ∧ g ∈ s.groups ∧ isEcGroup g = true
  | .dhe | .dhAnon =>
    ((∀ g, g ∈ c.groups → isFfGroup g = false) ∧ ∃ g, g ∈ serverDhGroups s ∧ isFfGroup g = true) ∨
    (∃ g, g ∈ c.groups ∧ g ∈ serverDhGroups s ∧ isFfGroup g = true)
  | .tls13 => ∃ g, g ∈ c.groups ∧ g ∈ s.groups ∧ isTls13Group g = true

def legacySigningKey (k : KeyType) : Prop :=
  k = .rsa ∨ k = .dsa ∨ ∃ g, k = .ecdsa g

/-- a signature scheme fitting the server key is listed by both sides (where one is negotiated) -/
def SigAvail (si : SuiteInfo) (v : Nat) (c s : Caps) (k : KeyType) : Prop :=
  si.auth = Auth.anon ∨ si.kx = Kx.rsa ∨
  (v = tls13 ∧ ∃ x, x ∈ c.sigs ∧ x ∈ s.sigs ∧ sigFits13 k x = true) ∨
  (v = tls12 ∧ ∃ x, x ∈ c.sigs ∧ x ∈ s.sigs ∧ sigFits12 k x = true) ∨
  (v ≠ tls13 ∧ v ≠ tls12 ∧ legacySigningKey k)

theorem filter_isEmpty_false {l : List Nat} {p : Nat → Bool} :
    (l.filter p).isEmpty = false ↔ ∃ g, g ∈ l ∧ p g = true := by
  constructor
  · intro h
    cases hl : l.filter p with
    | nil => rw [hl] at h; simp at h
    | cons x xs =>
      have : x ∈ l.filter p := by rw [hl]; exact List.mem_cons_self
      exact ⟨x, (List.mem_filter.mp this).1, (List.mem_filter.mp this).2⟩
  · intro ⟨g, hg, hp⟩
    have : g ∈ l.filter p := List.mem_filter.mpr ⟨hg, hp⟩
    cases hl : l.filter p with
    | nil => rw [hl] at this; cases this
    | cons x xs => rfl

theorem filter_isEmpty_true {l : List Nat} {p : Nat → Bool} :
    (l.filter p).isEmpty = true ↔ ∀ g, g ∈ l → p g = false := by
  constructor
  · intro h g hg
    cases hp : p g with
    | false => rfl
    | true =>
      have : (l.filter p).isEmpty = false := filter_isEmpty_false.mpr ⟨g, hg, hp⟩
      rw [h] at this; cases this
  · intro h
    cases hl : (l.filter p).isEmpty with
    | true => rfl
    | false =>
      have ⟨g, hg, hp⟩ := filter_isEmpty_false.mp hl
      rw [h g hg] at hp; cases hp

theorem common_filter_nonempty {a b : List Nat} {p : Nat → Bool} :
    (!((common a b).filter p).isEmpty) = true ↔ ∃ g, g ∈ a ∧ g ∈ b ∧ p g = true := by
  rw [Bool.not_eq_true', filter_isEmpty_false]
  constructor
  · intro ⟨g, hg, hp⟩; exact ⟨g, (mem_common.mp hg).1, (mem_common.mp hg).2, hp⟩
  · intro ⟨g, ha, hb, hp⟩; exact ⟨g, mem_common.mpr ⟨ha, hb⟩, hp⟩

theorem groupOk_iff (si : SuiteInfo) (c s : Caps) : groupOk si c s = true ↔ GroupAvail si c s := by
  unfold groupOk suiteGroups GroupAvail
  cases hk : si.kx with
  | rsa => simp
  | ecdhe => simp only; exact common_filter_nonempty
  | ecdhAnon => simp only; exact common_filter_nonempty
  | tls13 => simp only; exact common_filter_nonempty
  | dhe =>
    simp only
    by_cases hc : (c.groups.filter isFfGroup).isEmpty = true
    · simp only [hc, if_true]
      have hcall := filter_isEmpty_true.mp hc
      by_cases hs : ((serverDhGroups s).filter isFfGroup).isEmpty = true
      · simp only [hs, if_true]
        have hsall := filter_isEmpty_true.mp hs
        constructor
        · intro h; simp at h
        · intro h
          cases h with
          | inl h => obtain ⟨_, g, hg, hp⟩ := h; rw [hsall g hg] at hp; cases hp
          | inr h => obtain ⟨g, hg, _, hp⟩ := h; rw [hcall g hg] at hp; cases hp
      · simp only [hs]
        have hs' : ((serverDhGroups s).filter isFfGroup).isEmpty = false := by
          cases h : ((serverDhGroups s).filter isFfGroup).isEmpty <;> simp_all
        constructor
        · intro _; exact Or.inl ⟨hcall, filter_isEmpty_false.mp hs'⟩
        · intro _; rfl
    · simp only [hc]
      have hc' : (c.groups.filter isFfGroup).isEmpty = false := by
        cases h : (c.groups.filter isFfGroup).isEmpty <;> simp_all
      have ⟨g0, hg0, hp0⟩ := filter_isEmpty_false.mp hc'
      simp only [Bool.false_eq_true, if_false]
      constructor
      · intro h; exact Or.inr (common_filter_nonempty.mp h)
      · intro h
        cases h with
        | inl h => rw [h.1 g0 hg0] at hp0; cases hp0
        | inr h => exact common_filter_nonempty.mpr h
  | dhAnon =>
    simp only
    by_cases hc : (c.groups.filter isFfGroup).isEmpty = true
    · simp only [hc, if_true]
      have hcall := filter_isEmpty_true.mp hc
      by_cases hs : ((serverDhGroups s).filter isFfGroup).isEmpty = true
      · simp only [hs, if_true]
        have hsall := filter_isEmpty_true.mp hs
        constructor
        · intro h; simp at h
        · intro h
          cases h with
          | inl h => obtain ⟨_, g, hg, hp⟩ := h; rw [hsall g hg] at hp; cases hp
          | inr h => obtain ⟨g, hg, _, hp⟩ := h; rw [hcall g hg] at hp; cases hp
      · simp only [hs]
        have hs' : ((serverDhGroups s).filter isFfGroup).isEmpty = false := by
          cases h : ((serverDhGroups s).filter isFfGroup).isEmpty <;> simp_all
        constructor
        · intro _; exact Or.inl ⟨hcall, filter_isEmpty_false.mp hs'⟩
        · intro _; rfl
    · simp only [hc]
      have hc' : (c.groups.filter isFfGroup).isEmpty = false := by
        cases h : (c.groups.filter isFfGroup).isEmpty <;> simp_all
      have ⟨g0, hg0, hp0⟩ := filter_isEmpty_false.mp hc'
      simp only [Bool.false_eq_true, if_false]
      constructor
      · intro h; exact Or.inr (common_filter_nonempty.mp h)
      · intro h
        cases h with
        | inl h => rw [h.1 g0 hg0] at hp0; cases hp0
        | inr h => exact common_filter_nonempty.mpr h

theorem any_common_iff {a b : List Nat} {p : Nat → Bool} :
    (common a b).any p = true ↔ ∃ x, x ∈ a ∧ x ∈ b ∧ p x = true := by
  rw [List.any_eq_true]
  constructor
  · intro ⟨x, hx, hp⟩; exact ⟨x, (mem_common.mp hx).1, (mem_common.mp hx).2, hp⟩
  · intro ⟨x, ha, hb, hp⟩; exact ⟨x, mem_common.mpr ⟨ha, hb⟩, hp⟩

theorem legacyKey_iff (k : KeyType) :
    (k == KeyType.rsa || k == KeyType.dsa || (match k with | .ecdsa _ => true | _ => false)) = true ↔
      legacySigningKey k := by
  unfold legacySigningKey
  cases k <;> simp

theorem sigOk_iff (si : SuiteInfo) (v : Nat) (c s : Caps) (k : KeyType) :
    sigOk si v c s k = true ↔ SigAvail si v c s k := by
  unfold sigOk SigAvail
  by_cases h1 : si.auth = Auth.anon
  · simp [h1]
  · by_cases h2 : si.kx = Kx.rsa
    · simp [h2]
    · simp only [h1, h2, if_false, false_or]
      by_cases h3 : v = tls13
      · subst h3
        have : (tls13 == tls13) = true := by decide
        simp only [this, if_true, any_common_iff]
        constructor
        · intro h; exact Or.inl ⟨by trivial, h⟩
        · intro h
          cases h with
          | inl h => exact h.2
          | inr h =>
            cases h with
            | inl h => exact absurd h.1 (by decide)
            | inr h => exact absurd rfl h.1
      · have e3 : (v == tls13) = false := by simp [h3]
        simp only [e3]
        by_cases h4 : v = tls12
        · subst h4
          have : (tls12 == tls12) = true := by decide
          simp only [this, if_true, any_common_iff, Bool.false_eq_true, if_false]
          constructor
          · intro h; exact Or.inr (Or.inl ⟨by trivial, h⟩)
          · intro h
            cases h with
            | inl h => exact absurd h.1 (by decide)
            | inr h =>
              cases h with
              | inl h => exact h.2
              | inr h => exact absurd rfl h.2.1
        · have e4 : (v == tls12) = false := by simp [h4]
          simp only [e4]
          simp only [Bool.false_eq_true, if_false]
          constructor
          · intro h
            refine Or.inr (Or.inr ⟨h3, h4, ?_⟩)
            revert h
            cases k <;> simp [legacySigningKey]
          · intro h
            have hk : legacySigningKey k := by
              cases h with
              | inl h => exact absurd h.1 h3
              | inr h =>
                cases h with
                | inl h => exact absurd h.1 h4
                | inr h => exact h.2.2
            revert hk
            cases k <;> simp [legacySigningKey]

/-- a suite both list, defined for `v`, authenticated by the server key, with a group and a
    signature scheme available -/
def SuiteAvail (v : Nat) (c s : Caps) (k : KeyType) (id : Nat) : Prop :=
  id ∈ c.suites ∧ id ∈ s.suites ∧
  ∃ si, suiteInfo id = some si ∧ versionOk si v = true ∧ keyOk si v c k = true ∧
    GroupAvail si c s ∧ SigAvail si v c s k

theorem mem_usableSuites {v : Nat} {c s : Caps} {k : KeyType} {id : Nat} :
    id ∈ usableSuites v c s k ↔ SuiteAvail v c s k id := by
  unfold usableSuites SuiteAvail
  rw [List.mem_filter, mem_common]
  unfold suiteUsable
  cases h : suiteInfo id with
  | none => simp
  | some si =>
    simp only [Bool.and_eq_true, groupOk_iff, sigOk_iff, Option.some.injEq, exists_eq_left']
    constructor
    · intro ⟨⟨a, b⟩, ⟨⟨h1, h2⟩, h3⟩, h4⟩; exact ⟨a, b, h1, h2, h3, h4⟩
    · intro ⟨a, b, h1, h2, h3, h4⟩; exact ⟨⟨a, b⟩, ⟨⟨h1, h2⟩, h3⟩, h4⟩

theorem usable_sub_admissible {v : Nat} {c s : Caps} {k : KeyType} {id : Nat}
    (h : id ∈ usableSuites v c s k) : id ∈ admissibleSuites v c s := by
  have ⟨hc, hs, si, hsi, hv, _⟩ := mem_usableSuites.mp h
  unfold admissibleSuites
  rw [List.mem_filter, mem_common]
  refine ⟨⟨hc, hs⟩, ?_⟩
  simp [hsi, hv]

theorem mem_admissibleSuites {v : Nat} {c s : Caps} {id : Nat} :
    id ∈ admissibleSuites v c s ↔
      id ∈ c.suites ∧ id ∈ s.suites ∧ ∃ si, suiteInfo id = some si ∧ versionOk si v = true := by
  unfold admissibleSuites
  rw [List.mem_filter, mem_common]
  cases h : suiteInfo id with
  | none => simp
  | some si => simp [and_assoc]

theorem isEmpty_false_iff_exists_mem {l : List Nat} : l.isEmpty = false ↔ ∃ x, x ∈ l := by
  cases l with
  | nil => simp
  | cons x xs => simp

theorem mem_suiteGroups {si : SuiteInfo} {c s : Caps} {gs : List Nat} {g : Nat}
    (h : suiteGroups si c s = some gs) (hg : g ∈ gs) :
    g ∈ c.groups ∧ (g ∈ s.groups ∨ g ∈ s.dhLegacy) := by
  unfold suiteGroups at h
  cases hk : si.kx <;> rw [hk] at h <;> simp only at h
  · cases h
  · by_cases hc : (c.groups.filter isFfGroup).isEmpty = true
    · by_cases hs : ((serverDhGroups s).filter isFfGroup).isEmpty = true
      · simp only [hc, hs, if_true, Option.some.injEq] at h
        subst h; cases hg
      · simp [hc, hs] at h
    · simp only [hc, Bool.false_eq_true, if_false, Option.some.injEq] at h
      subst h
      have hm := mem_common.mp (List.mem_filter.mp hg).1
      exact ⟨hm.1, List.mem_append.mp hm.2⟩
  · simp only [Option.some.injEq] at h
    subst h
    have hm := mem_common.mp (List.mem_filter.mp hg).1
    exact ⟨hm.1, Or.inl hm.2⟩
  · by_cases hc : (c.groups.filter isFfGroup).isEmpty = true
    · by_cases hs : ((serverDhGroups s).filter isFfGroup).isEmpty = true
      · simp only [hc, hs, if_true, Option.some.injEq] at h
        subst h; cases hg
      · simp [hc, hs] at h
    · simp only [hc, Bool.false_eq_true, if_false, Option.some.injEq] at h
      subst h
      have hm := mem_common.mp (List.mem_filter.mp hg).1
      exact ⟨hm.1, List.mem_append.mp hm.2⟩
  · simp only [Option.some.injEq] at h
    subst h
    have hm := mem_common.mp (List.mem_filter.mp hg).1
    exact ⟨hm.1, Or.inl hm.2⟩
  · simp only [Option.some.injEq] at h
    subst h
    have hm := mem_common.mp (List.mem_filter.mp hg).1
    exact ⟨hm.1, Or.inl hm.2⟩

theorem mem_groupsOf {c s : Caps} {id g : Nat} (h : g ∈ groupsOf c s id) :
    g ∈ c.groups ∧ (g ∈ s.groups ∨ g ∈ s.dhLegacy) := by
  unfold groupsOf at h
  cases hs : suiteInfo id with
  | none => rw [hs] at h; cases h
  | some si =>
    rw [hs] at h
    simp only at h
    cases hg : suiteGroups si c s with
    | none => rw [hg] at h; cases h
    | some gs => rw [hg] at h; exact mem_suiteGroups hg h

end Tls.Interop
