import TlsProofs.Record
import Props.C12
/- Round trip of every protect path: a receiver whose read state equals the sender's write state
   recovers exactly (type, plaintext) and ends in the sender's new state. -/
namespace Tls.Rec
open Tls.CT

theorem macThenPad_eq_model {S} (P : Prims S) (c : Cfg) (seq : Nat) (t : UInt8) (data : Bytes) :
    addPadding P.bs (data ++ P.mac.digest (macInput seq t c data)) =
      macThenPad P.mac data (seqBytes seq) t c.vmaj c.vmin P.bs := by
  unfold macThenPad macInput
  rfl

theorem take_dropLast_tag (data tag : Bytes) (n : Nat) (hn : 0 < n) (ht : tag.length = n) :
    dropLast n (data ++ tag) = data := by
  unfold dropLast
  have : n ≠ 0 := by omega
  simp only [this, if_false]
  have : (data ++ tag).length - n = data.length := by simp [ht]
  rw [this]
  exact List.take_left

theorem lastN_tag (data tag : Bytes) (n : Nat) (hn : 0 < n) (ht : tag.length = n) :
    lastN n (data ++ tag) = tag := by
  unfold lastN
  have : n ≠ 0 := by omega
  simp only [this, if_false]
  have : (data ++ tag).length - n = data.length := by simp [ht]
  rw [this]
  exact List.drop_left

theorem rt_mteStream {S} (P : Prims S) (c : Cfg) (hm : c.hasMac = true → MacLaw P) (useEnc : Bool)
    (hs : useEnc = true → StreamLaw P) (st : St S) (t : UInt8) (data : Bytes) :
    decStream P c useEnc st t (protMteStream P c useEnc st t data).2 =
      .ok ((protMteStream P c useEnc st t data).1, data) := by
  have hde : useEnc = true → ∀ s x, P.dec s (P.enc s x).2 = ((P.enc s x).1, x) := fun h => (hs h).dec_enc
  unfold decStream protMteStream
  cases hmac : c.hasMac
  · cases hu : useEnc
    · simp
    · simp [hde hu]
  · have hm := hm hmac
    generalize htag : P.mac.digest (macInput st.seq t c data) = tag
    have htl : tag.length = P.mac.dlen := by rw [← htag]; exact hm.len _
    have h1 : ¬ (P.mac.dlen > data.length + tag.length) := by omega
    have h2 : (data ++ tag).drop (data.length + tag.length - P.mac.dlen) = tag := by
      have : data.length + tag.length - P.mac.dlen = data.length := by omega
      rw [this]; exact List.drop_left
    have h3 : tag.take P.mac.dlen = tag := by rw [← htl]; exact List.take_length
    cases hu : useEnc
    · simp [h1, h2, h3, take_dropLast_tag data tag P.mac.dlen hm.pos htl, htag]
    · simp [hde hu, h1, h2, h3, take_dropLast_tag data tag P.mac.dlen hm.pos htl, htag]

theorem drop_iv (iv x : Bytes) (n : Nat) (h : iv.length = n) : (iv ++ x).drop n = x := by
  subst h; exact List.drop_left

theorem rt_mteCbc {S} (P : Prims S) (hm : MacLaw P) (hb : BlockLaw P) (c : Cfg)
    (hmac : c.hasMac = true) (hiv : c.verGe 3 2 = true → c.fixedIV.length = P.bs)
    (st : St S) (t : UInt8) (data : Bytes) (hlen : data.length < 2 ^ 29) :
    decCbc P c st t (protMteCbc P c st t data).2 = .ok ((protMteCbc P c st t data).1, data) := by
  unfold decCbc protMteCbc mteCbcPlain
  simp only [hmac, if_true]
  have hcheck := cbcCheck_macThenPad P.mac data (seqBytes st.seq) t c.vmaj c.vmin P.bs hm.len hm.block
    hb.bs_pos hb.bs_le hm.small hlen
  have hstrip := stripPadMac_macThenPad P.mac data (seqBytes st.seq) t c.vmaj c.vmin P.bs hm.len hb.bs_pos hb.bs_le
  cases hv : c.verGe 3 2
  · simp only [Bool.false_eq_true, if_false]
    have hmod : (addPadding P.bs (data ++ P.mac.digest (macInput st.seq t c data))).length % P.bs = 0 :=
      addPadding_mod _ _ hb.bs_pos
    rw [hb.len, hmod, hb.dec_enc _ _ hmod]
    rw [macThenPad_eq_model, hcheck, hstrip]
    simp
  · simp only [if_true]
    have hivl := hiv hv
    have hblk : c.fixedIV.length % P.bs = 0 := by rw [hivl]; exact Nat.mod_self _
    rw [addPadding_append_block _ _ _ hblk]
    have hmod : (c.fixedIV ++ addPadding P.bs (data ++ P.mac.digest (macInput st.seq t c data))).length % P.bs = 0 := by
      rw [← addPadding_append_block _ _ _ hblk]; exact addPadding_mod _ _ hb.bs_pos
    rw [hb.len, hmod, hb.dec_enc _ _ hmod]
    simp only [drop_iv _ _ _ hivl]
    rw [macThenPad_eq_model, hcheck, hstrip]
    simp

/-- the padding check of `_macThenDecrypt` accepts what `addPadding` produced and strips it -/
theorem etmUnpad_addPadding (c : Cfg) (bs : Nat) (x : Bytes) (hbs : 0 < bs) (hle : bs ≤ 256) :
    etmUnpad c (addPadding bs x) = .ok x := by
  unfold etmUnpad addPadding
  generalize hp : bs - 1 - x.length % bs = p
  have hp256 : p < 256 := by omega
  have hpv : (UInt8.ofNat p).toNat = p := by simp [Nat.mod_eq_of_lt hp256]
  have hlen : (x ++ List.replicate (p + 1) (UInt8.ofNat p)).length = x.length + (p + 1) := by simp
  have hlast : byteAt (x ++ List.replicate (p + 1) (UInt8.ofNat p)) (x.length + (p + 1) - 1) = p := by
    unfold byteAt
    rw [List.getD_eq_getElem?_getD]
    have e : x.length + (p + 1) - 1 = x.length + p := by omega
    rw [e, List.getElem?_append_right (by omega)]
    simp [hpv]
  rw [hlen, hlast]
  have h0 : (x.length + (p + 1) == 0) = false := by simp
  have h1 : ¬ (p + 1 > x.length + (p + 1)) := by omega
  have h2 : x.length + (p + 1) - (p + 1) = x.length := by omega
  simp only [h0, Bool.false_eq_true, if_false, h1, h2]
  have h3 : (x ++ List.replicate (p + 1) (UInt8.ofNat p)).drop x.length = List.replicate (p + 1) (UInt8.ofNat p) :=
    List.drop_left
  have h4 : (x ++ List.replicate (p + 1) (UInt8.ofNat p)).take x.length = x := List.take_left
  rw [h3, h4]
  have hall : ((List.replicate (p + 1) (UInt8.ofNat p)).take p).all (fun b => b.toNat == p) = true := by
    rw [List.all_eq_true]
    intro b hb
    have := List.mem_of_mem_take hb
    rw [List.eq_of_mem_replicate this]
    simp [hpv]
  rw [hall]
  simp

theorem rt_etm {S} (P : Prims S) (hm : MacLaw P) (hb : BlockLaw P) (c : Cfg)
    (hiv : c.verGe 3 2 = true → c.fixedIV.length = P.bs)
    (st : St S) (t : UInt8) (data : Bytes) :
    decEtm P c true st t (protEtm P c true st t data).2 = .ok ((protEtm P c true st t data).1, data) := by
  unfold decEtm protEtm etmPlain
  simp only [if_true]
  generalize hpl : addPadding P.bs (if c.verGe 3 2 = true then c.fixedIV ++ data else data) = pl
  have hmod : pl.length % P.bs = 0 := by rw [← hpl]; exact addPadding_mod _ _ hb.bs_pos
  have hunpad : etmUnpad c (if c.verGe 3 2 = true then pl.drop P.bs else pl) = .ok data := by
    rw [← hpl]
    cases hv : c.verGe 3 2
    · simp only [Bool.false_eq_true, if_false]; exact etmUnpad_addPadding c _ _ hb.bs_pos hb.bs_le
    · simp only [if_true]
      have hivl := hiv hv
      have hblk : c.fixedIV.length % P.bs = 0 := by rw [hivl]; exact Nat.mod_self _
      rw [addPadding_append_block _ _ _ hblk, drop_iv _ _ _ hivl]
      exact etmUnpad_addPadding c _ _ hb.bs_pos hb.bs_le
  have hctl : (P.enc st.cs pl).2.length % P.bs = 0 := by rw [hb.len]; exact hmod
  cases hmac : c.hasMac
  · simp only [Bool.false_eq_true, if_false]
    have : ((P.enc st.cs pl).2.length % P.bs != 0) = false := by simp [hctl]
    simp only [this, Bool.false_eq_true, if_false, hb.dec_enc _ _ hmod, hunpad]
  · simp only [if_true]
    generalize htag : P.mac.digest (macInput st.seq t c (P.enc st.cs pl).2) = tag
    have htl : tag.length = P.mac.dlen := by rw [← htag]; exact hm.len _
    have h1 : ¬ ((P.enc st.cs pl).2 ++ tag).length < P.mac.dlen := by simp; omega
    simp only [h1, if_false, lastN_tag _ tag _ hm.pos htl, take_dropLast_tag _ tag _ hm.pos htl, htag,
      beq_self_eq_true, if_true]
    have : ((P.enc st.cs pl).2.length % P.bs != 0) = false := by simp [hctl]
    simp only [this, Bool.false_eq_true, if_false, hb.dec_enc _ _ hmod, hunpad]

/-- encrypt-then-MAC flag with no cipher (a client trusting a ServerHello that selects it): MAC only -/
theorem rt_etm_null {S} (P : Prims S) (hm : MacLaw P) (c : Cfg) (st : St S) (t : UInt8) (data : Bytes) :
    decEtm P c false st t (protEtm P c false st t data).2 = .ok ((protEtm P c false st t data).1, data) := by
  unfold decEtm protEtm
  cases hmac : c.hasMac
  · simp
  · simp only [if_true, Bool.false_eq_true, if_false]
    generalize htag : P.mac.digest (macInput st.seq t c data) = tag
    have htl : tag.length = P.mac.dlen := by rw [← htag]; exact hm.len _
    have h1 : ¬ (data ++ tag).length < P.mac.dlen := by simp; omega
    simp only [h1, if_false, lastN_tag _ tag _ hm.pos htl, take_dropLast_tag _ tag _ hm.pos htl, htag,
      beq_self_eq_true, if_true]

/-- AEAD, TLS 1.2 framing (explicit nonce for AES, XOR nonce for ChaCha20, concatenated for the draft) -/
theorem rt_aead12 {S} (P : Prims S) (ha : AeadLaw P) (c : Cfg) (h13 : c.is13 = false)
    (hname : c.nameHasAes = true → c.nameIsChacha = false)
    (st : St S) (t : UInt8) (data : Bytes) (hv : Nat × Nat) :
    decAead P c st ⟨t, hv.1, hv.2, (protAead P c st t data).2⟩ = .ok ((protAead P c st t data).1, data) := by
  unfold decAead protAead
  simp only [h13, Bool.not_false, if_true]
  cases he : c.explicitNonce
  · simp only [Bool.false_eq_true, if_false, Bool.false_and]
    have h1 : ¬ P.tagLen > data.length + P.tagLen := by omega
    simp only [ha.len, h1, if_false, Nat.add_sub_cancel, ha.open_seal]
  · simp only [if_true, Bool.true_and]
    have haes : c.nameHasAes = true := by
      unfold Cfg.explicitNonce at he; simp at he; exact he.1
    have hx : c.xorNonce = false := by
      unfold Cfg.xorNonce; simp [hname haes, h13]
    have hn : nonce c st.seq = c.fixedNonce ++ seqBytes st.seq := by
      unfold nonce; simp [hx]
    have h8 : ¬ 8 > (seqBytes st.seq ++ P.aeadSeal (nonce c st.seq) data (aad12 st.seq t c.vmaj c.vmin data.length)).length := by
      simp [seqBytes_length]
    have ht : (seqBytes st.seq ++ P.aeadSeal (nonce c st.seq) data (aad12 st.seq t c.vmaj c.vmin data.length)).take 8 = seqBytes st.seq :=
      List.take_left' (seqBytes_length _)
    have hd : (seqBytes st.seq ++ P.aeadSeal (nonce c st.seq) data (aad12 st.seq t c.vmaj c.vmin data.length)).drop 8 =
        P.aeadSeal (nonce c st.seq) data (aad12 st.seq t c.vmaj c.vmin data.length) :=
      List.drop_left' (seqBytes_length _)
    have h1 : ¬ P.tagLen > data.length + P.tagLen := by omega
    simp only [h8, decide_false, Bool.false_eq_true, if_false, ht, hd, ha.len, h1, Nat.add_sub_cancel, ← hn, ha.open_seal]

/-- AEAD, TLS 1.3 framing: header type 23, header version 3.3, the header is the additional data -/
theorem rt_aead13 {S} (P : Prims S) (ha : AeadLaw P) (c : Cfg) (h13 : c.is13 = true)
    (st : St S) (data : Bytes) :
    decAead P c st ⟨23, c.recVer.1, c.recVer.2, (protAead P c st 23 data).2⟩ =
      .ok ((protAead P c st 23 data).1, data) := by
  unfold decAead protAead
  have he : c.explicitNonce = false := by unfold Cfg.explicitNonce; simp [h13]
  have hr : c.recVer = (3, 3) := by unfold Cfg.recVer; simp [h13]
  simp only [h13, he, hr, Bool.not_true, Bool.false_eq_true, if_false, Bool.false_and]
  have h1 : ¬ P.tagLen > data.length + P.tagLen := by omega
  simp [ha.len, h1, ha.open_seal]

end Tls.Rec
