import TlsModel.Cache
/-
  C18 helper lemmas: the circular-list implementation model (TlsModel/Cache.lean) simulates a plain
  FIFO queue `q` of live entries (`Inv`), and the queue is the not-yet-dropped suffix of the
  specification's log (`Abs`).  Core Lean only.
-/
namespace Tls.Cache

/-! ### association lists -/

theorem alookup_aerase {α : Type} (k k' : Id) (l : List (Id × α)) :
    alookup k' (aerase k l) = if k' = k then none else alookup k' l := by
  induction l with
  | nil => simp [aerase, alookup]
  | cons p r ih =>
    obtain ⟨a, v⟩ := p
    by_cases h : a = k
    · subst h
      by_cases h2 : k' = a
      · subst h2; simp [aerase, ih]
      · have : ¬ a = k' := fun e => h2 e.symm
        simp [aerase, alookup, ih, h2, this]
    · by_cases h2 : k' = k
      · subst h2; simp [aerase, alookup, h, ih]
      · simp [aerase, alookup, h, ih, h2]

theorem alookup_ainsert {α : Type} (k k' : Id) (v : α) (l : List (Id × α)) :
    alookup k' (ainsert k v l) = if k' = k then some v else alookup k' l := by
  unfold ainsert
  by_cases h : k' = k
  · subst h; simp [alookup]
  · have : ¬ k = k' := fun e => h e.symm
    simp [alookup, this, alookup_aerase, h]

def akeys {α : Type} (l : List (Id × α)) : List Id := l.map (·.1)

theorem akeys_aerase_sublist {α : Type} (k : Id) (l : List (Id × α)) :
    (akeys (aerase k l)).Sublist (akeys l) := by
  induction l with
  | nil => simp [aerase, akeys]
  | cons p r ih =>
    obtain ⟨a, v⟩ := p
    by_cases h : a = k
    · simp only [aerase, h, if_true]
      exact List.Sublist.cons _ ih
    · simp only [aerase, h, if_false, akeys, List.map_cons]
      exact List.Sublist.cons_cons _ ih

theorem not_mem_akeys_aerase {α : Type} (k : Id) (l : List (Id × α)) : k ∉ akeys (aerase k l) := by
  induction l with
  | nil => simp [aerase, akeys]
  | cons p r ih =>
    obtain ⟨a, v⟩ := p
    by_cases h : a = k
    · simpa [aerase, h] using ih
    · simp only [aerase, h, if_false, akeys, List.map_cons, List.mem_cons, not_or]
      exact ⟨fun e => h e.symm, ih⟩

theorem nodup_aerase {α : Type} (k : Id) (l : List (Id × α)) (h : (akeys l).Nodup) :
    (akeys (aerase k l)).Nodup := List.Nodup.sublist (akeys_aerase_sublist k l) h

theorem nodup_ainsert {α : Type} (k : Id) (v : α) (l : List (Id × α)) (h : (akeys l).Nodup) :
    (akeys (ainsert k v l)).Nodup := by
  unfold ainsert
  simp only [akeys, List.map_cons]
  exact List.nodup_cons.mpr ⟨not_mem_akeys_aerase k l, nodup_aerase k l h⟩

theorem mem_akeys_alookup {α : Type} (k : Id) (l : List (Id × α)) (h : k ∈ akeys l) :
    alookup k l ≠ none := by
  induction l with
  | nil => simp [akeys] at h
  | cons p r ih =>
    obtain ⟨a, v⟩ := p
    by_cases h2 : a = k
    · simp [alookup, h2]
    · simp only [akeys, List.map_cons, List.mem_cons] at h
      rcases h with h | h
      · exact absurd h.symm h2
      · simpa [alookup, h2] using ih h

/-- pigeonhole: a duplicate-free list inside `m` is not longer than `m` -/
theorem nodup_subset_length_le {α : Type} [DecidableEq α] (l m : List α) (hn : l.Nodup)
    (hs : ∀ x ∈ l, x ∈ m) : l.length ≤ m.length := by
  induction l generalizing m with
  | nil => simp
  | cons a l ih =>
    have ha : a ∈ m := hs a (by simp)
    have hn' := List.nodup_cons.mp hn
    have hlen : m.length = (m.erase a).length + 1 := by
      have := List.length_erase_of_mem ha
      have hpos : 0 < m.length := List.length_pos_of_mem ha
      omega
    have := ih (m.erase a) hn'.2 (fun x hx => by
      have hne : x ≠ a := fun e => hn'.1 (e ▸ hx)
      exact (List.mem_erase_of_ne hne).mpr (hs x (by simp [hx])))
    simp only [List.length_cons]
    omega

/-! ### modular index arithmetic of the circular list -/

theorem mod2 (x N : Nat) (h : x < 2 * N) : x % N = if x < N then x else x - N := by
  by_cases hx : x < N
  · simp [hx, Nat.mod_eq_of_lt hx]
  · simp only [hx, if_false]
    rw [Nat.mod_eq_sub_mod (by omega)]
    exact Nat.mod_eq_of_lt (by omega)

theorem ring_inj (N f a b : Nat) (hf : f < N) (ha : a < N) (hb : b < N)
    (h : (f + a) % N = (f + b) % N) : a = b := by
  rw [mod2 (f + a) N (by omega), mod2 (f + b) N (by omega)] at h
  split at h <;> split at h <;> omega

theorem ring_full_iff (N f a : Nat) (hf : f < N) (ha : a ≤ N) :
    (f + a) % N = f ↔ a = 0 ∨ a = N := by
  rw [mod2 (f + a) N (by omega)]
  split <;> omega

theorem ring_succ (N f k : Nat) : ((f + 1) % N + k) % N = (f + (k + 1)) % N := by
  rw [Nat.mod_add_mod]
  congr 1
  omega

theorem ring_last_succ (N f a : Nat) : ((f + a) % N + 1) % N = (f + (a + 1)) % N := by
  rw [Nat.mod_add_mod]
  congr 1

/-! ### `lastStore` -/

def occ (q : List Entry) (id : Id) : Nat := q.countP (fun e => e.id = id)

theorem occ_cons (e : Entry) (q : List Entry) (id : Id) :
    occ (e :: q) id = occ q id + (if e.id = id then 1 else 0) := by
  simp [occ, List.countP_cons]

theorem occ_append_single (e : Entry) (q : List Entry) (id : Id) :
    occ (q ++ [e]) id = occ q id + (if e.id = id then 1 else 0) := by
  simp [occ, List.countP_append, List.countP_cons]

theorem lastStore_cons (e : Entry) (q : List Entry) (id : Id) :
    lastStore (e :: q) id =
      match lastStore q id with
      | some r => some r
      | none => if e.id = id then some (q.length, e) else none := rfl

theorem lastStore_nil (id : Id) : lastStore [] id = none := rfl

theorem lastStore_none_iff (q : List Entry) (id : Id) : lastStore q id = none ↔ occ q id = 0 := by
  induction q with
  | nil => simp [lastStore, occ]
  | cons e q ih =>
    rw [occ_cons]
    unfold lastStore
    cases h : lastStore q id with
    | some r =>
      have : occ q id ≠ 0 := fun h0 => by rw [ih.mpr h0] at h; cases h
      simp; omega
    | none =>
      have h0 := ih.mp h
      by_cases he : e.id = id <;> simp [he, h0]

theorem lastStore_lt (q : List Entry) (id : Id) (k : Nat) (e : Entry)
    (h : lastStore q id = some (k, e)) : k < q.length ∧ e.id = id := by
  induction q with
  | nil => simp [lastStore] at h
  | cons e0 q ih =>
    unfold lastStore at h
    cases h2 : lastStore q id with
    | some r =>
      rw [h2] at h
      simp only [Option.some.injEq] at h
      subst h
      have := ih h2
      exact ⟨by simp; omega, this.2⟩
    | none =>
      rw [h2] at h
      by_cases he : e0.id = id
      · simp only [he, if_true, Option.some.injEq, Prod.mk.injEq] at h
        obtain ⟨h1, h3⟩ := h
        subst h3; subst h1
        exact ⟨by simp, he⟩
      · simp [he] at h

theorem lastStore_append (pre q : List Entry) (id : Id) :
    lastStore (pre ++ q) id =
      match lastStore q id with
      | some r => some r
      | none => (lastStore pre id).map (fun r => (r.1 + q.length, r.2)) := by
  induction pre with
  | nil => cases h : lastStore q id <;> simp [lastStore_nil, h]
  | cons e pre ih =>
    simp only [List.cons_append]
    rw [lastStore_cons, ih, lastStore_cons]
    cases h : lastStore q id with
    | some r => simp
    | none =>
      cases h2 : lastStore pre id with
      | some r => simp
      | none =>
        by_cases he : e.id = id
        · simp [he]
        · simp [he]

theorem lastStore_append_single (q : List Entry) (e : Entry) (id : Id) :
    lastStore (q ++ [e]) id =
      if e.id = id then some (0, e) else (lastStore q id).map (fun r => (r.1 + 1, r.2)) := by
  rw [lastStore_append]
  by_cases he : e.id = id
  · simp [lastStore, he]
  · simp [lastStore, he]

/-- the position reported by `lastStore` is the index from the newest end -/
theorem lastStore_reverse_get (q : List Entry) (id : Id) (k : Nat) (e : Entry)
    (h : lastStore q id = some (k, e)) : q.reverse[k]? = some e := by
  induction q with
  | nil => simp [lastStore] at h
  | cons e0 q ih =>
    unfold lastStore at h
    cases h2 : lastStore q id with
    | some r =>
      rw [h2] at h
      simp only [Option.some.injEq] at h
      subst h
      have hk := (lastStore_lt q id k e h2).1
      rw [List.reverse_cons, List.getElem?_append_left (by simpa using hk)]
      exact ih h2
    | none =>
      rw [h2] at h
      by_cases he : e0.id = id
      · simp only [he, if_true, Option.some.injEq, Prod.mk.injEq] at h
        obtain ⟨h1, h3⟩ := h
        subst h3; subst h1
        rw [List.reverse_cons, List.getElem?_append_right (by simp)]
        simp
      · simp [he] at h

/-! ### dict / count invariant against the queue of live entries -/

structure DC (c : Cache) (q : List Entry) : Prop where
  hcount : ∀ id, alookup id c.count = if occ q id = 0 then none else some ((occ q id : Nat) : Int)
  hdict : ∀ id, alookup id c.dict = (lastStore q id).map (fun r => r.2.sess)
  ndict : (akeys c.dict).Nodup
  ncount : (akeys c.count).Nodup

theorem DC.congr {c c' : Cache} {q : List Entry} (h : DC c q) (hd : c'.dict = c.dict)
    (hc : c'.count = c.count) : DC c' q :=
  ⟨by rw [hc]; exact h.hcount, by rw [hd]; exact h.hdict, by rw [hd]; exact h.ndict, by rw [hc]; exact h.ncount⟩

/-- `_remove` of the oldest live entry never raises and leaves the invariant for the rest -/
theorem remove_head (c : Cache) (e : Entry) (q : List Entry) (h : DC c (e :: q)) :
    ∃ c', c.remove e.id = (c', none) ∧ DC c' q ∧ c'.ring = c.ring ∧ c'.first = c.first ∧
      c'.last = c.last ∧ c'.maxAge = c.maxAge := by
  have hc := h.hcount e.id
  rw [occ_cons] at hc
  simp only [if_true] at hc
  have hne : ¬ (occ q e.id + 1 = 0) := by omega
  simp only [hne, if_false] at hc
  unfold Cache.remove
  rw [hc]
  by_cases h0 : occ q e.id = 0
  · -- last ring entry of this id: both dictionaries lose the key
    have hz : ((occ q e.id + 1 : Nat) : Int) - 1 = 0 := by omega
    simp only [hz, if_true]
    have hd := h.hdict e.id
    rw [lastStore_cons, (lastStore_none_iff q e.id).mpr h0] at hd
    simp only [if_true, Option.map_some] at hd
    rw [hd]
    refine ⟨_, rfl, ?_, rfl, rfl, rfl, rfl⟩
    constructor
    · intro id
      simp only [alookup_aerase, alookup_ainsert]
      by_cases hid : id = e.id
      · subst hid; simp [h0]
      · have := h.hcount id
        rw [occ_cons] at this
        have hid' : ¬ e.id = id := fun x => hid x.symm
        simp only [hid', if_false, Nat.add_zero] at this
        simp [hid, this]
    · intro id
      simp only [alookup_aerase]
      by_cases hid : id = e.id
      · subst hid; simp [(lastStore_none_iff q e.id).mpr h0]
      · have := h.hdict id
        rw [lastStore_cons] at this
        have hid' : ¬ e.id = id := fun x => hid x.symm
        simp only [hid, if_false]
        rw [this]
        cases lastStore q id <;> simp [hid']
    · exact nodup_aerase _ _ h.ndict
    · exact nodup_aerase _ _ (nodup_ainsert _ _ _ h.ncount)
  · have hz : ¬ (((occ q e.id + 1 : Nat) : Int) - 1 = 0) := by omega
    simp only [hz, if_false]
    refine ⟨_, rfl, ?_, rfl, rfl, rfl, rfl⟩
    constructor
    · intro id
      simp only [alookup_ainsert]
      by_cases hid : id = e.id
      · subst hid
        simp only [if_true, h0, if_false]
        congr 1; omega
      · have := h.hcount id
        rw [occ_cons] at this
        have hid' : ¬ e.id = id := fun x => hid x.symm
        simp only [hid', if_false, Nat.add_zero] at this
        simp [hid, this]
    · intro id
      have := h.hdict id
      rw [lastStore_cons] at this
      rw [this]
      by_cases hid : id = e.id
      · subst hid
        cases hl : lastStore q e.id with
        | none => exact absurd hl (fun x => h0 ((lastStore_none_iff q _).mp x))
        | some r => simp
      · have hid' : ¬ e.id = id := fun x => hid x.symm
        cases lastStore q id <;> simp [hid']
    · exact h.ndict
    · exact nodup_ainsert _ _ _ h.ncount

/-! ### the circular list holds the queue -/

def RingEntries (ring : List (Option (Id × Int))) (start : Nat) (q : List Entry) : Prop :=
  ∀ k e, q[k]? = some e → ring[(start + k) % ring.length]? = some (some (e.id, e.t))

structure RingRel (ring : List (Option (Id × Int))) (start last : Nat) (q : List Entry) : Prop where
  hstart : start < ring.length
  hlen : q.length < ring.length
  hlast : last = (start + q.length) % ring.length
  hent : RingEntries ring start q

theorem RingEntries.tail {ring : List (Option (Id × Int))} {start : Nat} {e : Entry} {q : List Entry}
    (h : RingEntries ring start (e :: q)) : RingEntries ring ((start + 1) % ring.length) q := by
  intro k e' hk
  rw [ring_succ]
  exact h (k + 1) e' (by simpa using hk)

theorem RingRel.tail {ring : List (Option (Id × Int))} {start last : Nat} {e : Entry} {q : List Entry}
    (h : RingRel ring start last (e :: q)) : RingRel ring ((start + 1) % ring.length) last q := by
  have hpos : 0 < ring.length := by have := h.hstart; omega
  refine ⟨Nat.mod_lt _ hpos, ?_, ?_, h.hent.tail⟩
  · have := h.hlen; simp at this; omega
  · rw [ring_succ, h.hlast]; simp

def expired (now maxAge : Int) (e : Entry) : Bool := decide (now - e.t > maxAge)

def dropExp (now maxAge : Int) (q : List Entry) : List Entry := q.dropWhile (expired now maxAge)

/-- the purge loop walks exactly over the expired prefix of the queue and never raises -/
theorem purgeLoop_spec (now : Int) (q : List Entry) :
    ∀ (c : Cache) (idx fuel : Nat), RingRel c.ring idx c.last q → DC c q → q.length ≤ fuel →
    ∃ c' idx', c.purgeLoop now fuel idx = (c', .ok idx') ∧ c'.ring = c.ring ∧ c'.last = c.last ∧
      c'.first = c.first ∧ c'.maxAge = c.maxAge ∧
      RingRel c.ring idx' c.last (dropExp now c.maxAge q) ∧ DC c' (dropExp now c.maxAge q) := by
  induction q with
  | nil =>
    intro c idx fuel hr hd _
    have hl : idx = c.last := by
      have := hr.hlast
      simp at this
      rw [Nat.mod_eq_of_lt hr.hstart] at this
      exact this.symm
    refine ⟨c, idx, ?_, rfl, rfl, rfl, rfl, by simpa [dropExp] using hr, by simpa [dropExp] using hd⟩
    unfold Cache.purgeLoop
    simp [hl]
  | cons e q ih =>
    intro c idx fuel hr hd hf
    have hpos : 0 < c.ring.length := by have := hr.hstart; omega
    have hlen : q.length + 1 < c.ring.length := by simpa using hr.hlen
    have hne : ¬ idx = c.last := by
      intro heq
      have h1 := hr.hlast
      rw [← heq] at h1
      have := (ring_full_iff c.ring.length idx (q.length + 1) hr.hstart (by omega)).mp (by simpa using h1.symm)
      omega
    obtain ⟨fuel', rfl⟩ : ∃ f, fuel = f + 1 := ⟨fuel - 1, by simp at hf; omega⟩
    have hslot : c.ring[idx]? = some (some (e.id, e.t)) := by
      have := hr.hent 0 e (by simp)
      simpa [Nat.mod_eq_of_lt hr.hstart] using this
    unfold Cache.purgeLoop
    simp only [hne, if_false, hslot]
    by_cases hexp : now - e.t > c.maxAge
    · simp only [hexp, if_true]
      obtain ⟨c1, hrem, hd1, hring, hfirst, hlast, hage⟩ := remove_head c e q hd
      rw [hrem]
      simp only
      have hnz : ¬ c1.ring.length = 0 := by rw [hring]; omega
      simp only [hnz, if_false]
      have hr1 : RingRel c1.ring ((idx + 1) % c1.ring.length) c1.last q := by
        rw [hring, hlast]; exact hr.tail
      obtain ⟨c', idx', hrun, h1, h2, h3, h4, h5, h6⟩ := ih c1 _ fuel' hr1 hd1 (by simp at hf; omega)
      refine ⟨c', idx', hrun, by rw [h1, hring], by rw [h2, hlast], by rw [h3, hfirst], by rw [h4, hage], ?_, ?_⟩
      · have : dropExp now c.maxAge (e :: q) = dropExp now c.maxAge q := by
          simp [dropExp, expired, hexp]
        rw [this, ← hage, ← hring, ← hlast]; exact h5
      · have : dropExp now c.maxAge (e :: q) = dropExp now c.maxAge q := by
          simp [dropExp, expired, hexp]
        rw [this, ← hage]; exact h6
    · simp only [hexp, if_false]
      have : dropExp now c.maxAge (e :: q) = e :: q := by
        simp [dropExp, expired, hexp]
      rw [this]
      exact ⟨c, idx, rfl, rfl, rfl, rfl, rfl, hr, hd⟩

/-! ### whole-object invariant and the public operations -/

structure Inv (c : Cache) (q : List Entry) : Prop where
  ring : RingRel c.ring c.first c.last q
  dc : DC c q

theorem inv_new (maxEntries : Nat) (maxAge : Int) (h : 1 ≤ maxEntries) :
    Inv (Cache.new maxEntries maxAge) [] := by
  constructor
  · refine ⟨by simp [Cache.new]; omega, by simp [Cache.new]; omega, by simp [Cache.new], ?_⟩
    intro k e hk; simp at hk
  · constructor
    · intro id; simp [Cache.new, alookup, occ]
    · intro id; simp [Cache.new, alookup, lastStore_nil]
    · simp [Cache.new, akeys]
    · simp [Cache.new, akeys]

theorem purge_spec (c : Cache) (now : Int) (q : List Entry) (h : Inv c q) :
    ∃ c', c.purge now = (c', none) ∧ Inv c' (dropExp now c.maxAge q) ∧
      c'.ring = c.ring ∧ c'.maxAge = c.maxAge := by
  have hf : q.length ≤ c.ring.length := by have := h.ring.hlen; omega
  obtain ⟨c1, idx, hrun, h1, h2, h3, h4, h5, h6⟩ := purgeLoop_spec now q c c.first c.ring.length h.ring h.dc hf
  unfold Cache.purge
  rw [hrun]
  refine ⟨_, rfl, ⟨?_, ?_⟩, h1, h4⟩
  · show RingRel c1.ring idx c1.last _
    rw [h1, h2]; exact h5
  · exact ⟨h6.hcount, h6.hdict, h6.ndict, h6.ncount⟩

/-- what the queue becomes after a store: append, and drop the oldest when the list is full -/
def trim (n : Nat) (q : List Entry) : List Entry := if q.length = n then q.tail else q

theorem dc_push (c : Cache) (q : List Entry) (id : Id) (s : Sess) (now : Int) (h : DC c q) :
    DC { c with dict := ainsert id s c.dict,
                count := ainsert id ((alookup id c.count).getD 0 + 1) c.count } (q ++ [⟨id, now, s⟩]) := by
  constructor
  · intro id'
    simp only [alookup_ainsert, occ_append_single]
    by_cases hid : id' = id
    · subst hid
      simp only [if_true]
      have hne : ¬ (occ q id' + 1 = 0) := by omega
      simp only [hne, if_false]
      rw [h.hcount id']
      by_cases h0 : occ q id' = 0
      · simp [h0]
      · simp [h0]
    · have hid' : ¬ id = id' := fun x => hid x.symm
      simp only [hid, hid', if_false, Nat.add_zero]
      exact h.hcount id'
  · intro id'
    simp only [alookup_ainsert, lastStore_append_single]
    by_cases hid : id' = id
    · subst hid; simp
    · have hid' : ¬ id = id' := fun x => hid x.symm
      simp only [hid, hid', if_false]
      rw [h.hdict id']
      cases lastStore q id' <;> simp
  · exact nodup_ainsert _ _ _ h.ndict
  · exact nodup_ainsert _ _ _ h.ncount

theorem setitem_spec (c : Cache) (q : List Entry) (id : Id) (s : Sess) (now : Int) (h : Inv c q) :
    ∃ c', c.setitem id s now = (c', none) ∧ Inv c' (trim c.ring.length (q ++ [⟨id, now, s⟩])) ∧
      c'.ring.length = c.ring.length ∧ c'.maxAge = c.maxAge := by
  have hN := h.ring.hstart
  have hpos : 0 < c.ring.length := by omega
  have hlastlt : c.last < c.ring.length := by rw [h.ring.hlast]; exact Nat.mod_lt _ hpos
  have hdc := dc_push c q id s now h.dc
  -- entries of the circular list after the write
  have hent : RingEntries (c.ring.set c.last (some (id, now))) c.first (q ++ [⟨id, now, s⟩]) := by
    intro k e hk
    simp only [List.length_set]
    by_cases hkq : k < q.length
    · rw [List.getElem?_append_left hkq] at hk
      have hne : c.last ≠ (c.first + k) % c.ring.length := by
        intro heq
        rw [h.ring.hlast] at heq
        have := ring_inj _ _ _ _ hN h.ring.hlen (by have := h.ring.hlen; omega) heq
        omega
      rw [List.getElem?_set_ne hne]
      exact h.ring.hent k e hk
    · have hk2 : k = q.length := by
        have : k < (q ++ [(⟨id, now, s⟩ : Entry)]).length := by
          rcases Nat.lt_or_ge k (q ++ [(⟨id, now, s⟩ : Entry)]).length with h1 | h1
          · exact h1
          · rw [List.getElem?_eq_none h1] at hk; cases hk
        simp at this; omega
      subst hk2
      rw [List.getElem?_append_right (Nat.le_refl _)] at hk
      simp at hk
      subst hk
      rw [← h.ring.hlast, List.getElem?_set_self hlastlt]
  unfold Cache.setitem
  simp only
  have h1 : ¬ (c.ring.length ≤ c.last) := by omega
  simp only [h1, if_false, List.length_set]
  have h2 : ¬ (c.ring.length = 0) := by omega
  simp only [h2, if_false]
  have hlast' : (c.last + 1) % c.ring.length = (c.first + (q.length + 1)) % c.ring.length := by
    rw [h.ring.hlast, ring_last_succ]
  by_cases hfull : (c.last + 1) % c.ring.length = c.first
  · -- the list is full: the oldest entry is removed
    simp only [hfull, if_true]
    have hqN : q.length + 1 = c.ring.length := by
      rw [hlast'] at hfull
      have := (ring_full_iff _ _ _ hN (by have := h.ring.hlen; omega)).mp hfull
      omega
    cases hq : q ++ [(⟨id, now, s⟩ : Entry)] with
    | nil => simp at hq
    | cons e0 q' =>
      rw [hq] at hent hdc
      have hslot : (c.ring.set c.last (some (id, now)))[c.first]? = some (some (e0.id, e0.t)) := by
        have := hent 0 e0 (by simp)
        simpa [Nat.mod_eq_of_lt hN] using this
      rw [hslot]
      simp only
      obtain ⟨c5, hrem, hd5, hring, hfirst, hlast, hage⟩ := remove_head
        { dict := ainsert id s c.dict, count := ainsert id ((alookup id c.count).getD 0 + 1) c.count,
          ring := c.ring.set c.last (some (id, now)), first := c.first, last := c.first,
          maxAge := c.maxAge } e0 q' (hdc.congr rfl rfl)
      rw [hrem]
      simp only
      have hq'len : q'.length + 1 = c.ring.length := by
        have : (q ++ [(⟨id, now, s⟩ : Entry)]).length = (e0 :: q').length := by rw [hq]
        simp at this; omega
      have htrim : trim c.ring.length (e0 :: q') = q' := by
        simp [trim, hq'len]
      rw [htrim]
      refine ⟨_, rfl, ⟨?_, ?_⟩, ?_, ?_⟩
      · have hrr : RingRel (c.ring.set c.last (some (id, now))) ((c.first + 1) % c.ring.length) c.first q' := by
          refine ⟨by simp only [List.length_set]; exact Nat.mod_lt _ hpos,
                  by simp only [List.length_set]; omega, ?_, ?_⟩
          · simp only [List.length_set]
            rw [ring_succ]
            have : c.first + (q'.length + 1) = c.first + c.ring.length := by omega
            rw [this, Nat.add_mod_right, Nat.mod_eq_of_lt hN]
          · have := hent.tail
            simpa [List.length_set] using this
        show RingRel c5.ring ((c5.first + 1) % c5.ring.length) c5.last q'
        rw [hring, hfirst, hlast]
        simpa only [List.length_set] using hrr
      · exact ⟨hd5.hcount, hd5.hdict, hd5.ndict, hd5.ncount⟩
      · show c5.ring.length = _
        rw [hring]; simp
      · exact hage
  · simp only [hfull, if_false]
    have hqN : q.length + 1 < c.ring.length := by
      rcases Nat.lt_or_ge (q.length + 1) c.ring.length with h3 | h3
      · exact h3
      · exfalso
        apply hfull
        rw [hlast']
        have : q.length + 1 = c.ring.length := by have := h.ring.hlen; omega
        rw [this, Nat.add_mod_right, Nat.mod_eq_of_lt hN]
    have htrim : trim c.ring.length (q ++ [(⟨id, now, s⟩ : Entry)]) = q ++ [⟨id, now, s⟩] := by
      simp [trim]; omega
    rw [htrim]
    refine ⟨_, rfl, ⟨?_, ?_⟩, by simp, rfl⟩
    · refine ⟨by simpa using hN, by simpa using hqN, ?_, hent⟩
      simp only [List.length_set, List.length_append, List.length_cons, List.length_nil]
      exact hlast'
    · exact ⟨hdc.hcount, hdc.hdict, hdc.ndict, hdc.ncount⟩

theorem getitem_spec (valid : Sess → Bool) (c : Cache) (q : List Entry) (id : Id) (now : Int)
    (h : Inv c q) :
    ∃ c', Inv c' (dropExp now c.maxAge q) ∧ c'.ring = c.ring ∧ c'.maxAge = c.maxAge ∧
      c.getitem valid id now =
        (c', match lastStore (dropExp now c.maxAge q) id with
             | none => .error .keyError
             | some r => if valid r.2.sess then .ok r.2.sess else .error .keyError) := by
  obtain ⟨c1, hp, hinv, hring, hage⟩ := purge_spec c now q h
  refine ⟨c1, hinv, hring, hage, ?_⟩
  unfold Cache.getitem
  rw [hp]
  simp only
  rw [hinv.dc.hdict id]
  cases lastStore (dropExp now c.maxAge q) id with
  | none => simp
  | some r =>
    simp only [Option.map_some]
    by_cases hv : valid r.2.sess = true <;> simp [hv]

theorem liveLen_eq (c : Cache) (q : List Entry) (h : Inv c q) : c.liveLen = q.length := by
  have hN := h.ring.hstart
  have hl := h.ring.hlen
  unfold Cache.liveLen
  have h2 : ¬ (c.ring.length = 0) := by omega
  simp only [h2, if_false]
  rw [h.ring.hlast, mod2 (c.first + q.length) _ (by omega)]
  split
  · rw [mod2 _ _ (by omega)]
    split <;> omega
  · rw [mod2 _ _ (by omega)]
    split <;> omega

theorem dict_length_le (c : Cache) (q : List Entry) (h : DC c q) : c.dict.length ≤ q.length := by
  have h1 : (akeys c.dict).length ≤ (q.map (·.id)).length := by
    apply nodup_subset_length_le _ _ h.ndict
    intro k hk
    have hne := mem_akeys_alookup k c.dict hk
    rw [h.hdict k] at hne
    cases hl : lastStore q k with
    | none => simp [hl] at hne
    | some r =>
      obtain ⟨kk, e⟩ := r
      have h2 := lastStore_lt q k kk e hl
      have h3 := lastStore_reverse_get q k kk e hl
      have : e ∈ q := by
        have := List.mem_of_getElem? h3
        simpa using this
      exact List.mem_map.mpr ⟨e, this, h2.2⟩
  simpa [akeys] using h1

theorem count_length_le (c : Cache) (q : List Entry) (h : DC c q) : c.count.length ≤ q.length := by
  have h1 : (akeys c.count).length ≤ (q.map (·.id)).length := by
    apply nodup_subset_length_le _ _ h.ncount
    intro k hk
    have hne := mem_akeys_alookup k c.count hk
    rw [h.hcount k] at hne
    have hocc : occ q k ≠ 0 := by
      intro h0; simp [h0] at hne
    have hpos : 0 < q.countP (fun e => decide (e.id = k)) := by
      unfold occ at hocc; omega
    obtain ⟨e, he, hp⟩ := List.countP_pos_iff.mp hpos
    exact List.mem_map.mpr ⟨e, he, by simpa using hp⟩
  simpa [akeys] using h1

/-! ### the queue against the specification's log -/

structure Abs (N : Nat) (A : Int) (q log : List Entry) (clock : Int) : Prop where
  suffix : ∃ pre, log = pre ++ q
  sorted : (log.map (·.t)).Pairwise (· ≤ ·)
  bound : ∀ e ∈ log, e.t ≤ clock
  dropped : ∀ i e, log.reverse[i]? = some e → q.length ≤ i → N ≤ i + 1 ∨ clock - e.t > A

theorem abs_nil (N : Nat) (A clock : Int) : Abs N A [] [] clock :=
  ⟨⟨[], rfl⟩, by simp, by simp, by intro i e h; simp at h⟩

theorem abs_pop {N : Nat} {A clock : Int} {e0 : Entry} {q log : List Entry}
    (h : Abs N A (e0 :: q) log clock) (hd : N ≤ q.length + 1 ∨ clock - e0.t > A) :
    Abs N A q log clock := by
  obtain ⟨pre, hpre⟩ := h.suffix
  refine ⟨⟨pre ++ [e0], by simp [hpre]⟩, h.sorted, h.bound, ?_⟩
  intro i e hi hqi
  by_cases heq : i = q.length
  · subst heq
    have : log.reverse[q.length]? = some e0 := by
      rw [hpre, List.reverse_append, List.reverse_cons,
        List.getElem?_append_left (by simp), List.getElem?_append_right (by simp)]
      simp
    rw [this] at hi
    cases hi
    exact hd
  · exact h.dropped i e hi (by simp only [List.length_cons]; omega)

theorem abs_clock {N : Nat} {A clock now : Int} {q log : List Entry}
    (h : Abs N A q log clock) (hc : clock ≤ now) : Abs N A q log now := by
  refine ⟨h.suffix, h.sorted, fun e he => Int.le_trans (h.bound e he) hc, ?_⟩
  intro i e hi hqi
  rcases h.dropped i e hi hqi with h1 | h1
  · exact Or.inl h1
  · exact Or.inr (by omega)

theorem abs_push {N : Nat} {A clock now : Int} {q log : List Entry} (e : Entry)
    (h : Abs N A q log clock) (hc : clock ≤ now) (het : e.t = now) :
    Abs N A (q ++ [e]) (log ++ [e]) now := by
  obtain ⟨pre, hpre⟩ := h.suffix
  refine ⟨⟨pre, by simp [hpre]⟩, ?_, ?_, ?_⟩
  · rw [List.map_append, List.pairwise_append]
    refine ⟨h.sorted, by simp, ?_⟩
    intro a ha b hb
    simp at hb
    obtain ⟨x, hx, rfl⟩ := List.mem_map.mp ha
    have := h.bound x hx
    omega
  · intro x hx
    rw [List.mem_append] at hx
    rcases hx with hx | hx
    · have := h.bound x hx; omega
    · simp at hx; subst hx; omega
  · intro i x hi hqi
    simp only [List.length_append, List.length_cons, List.length_nil] at hqi
    obtain ⟨j, rfl⟩ : ∃ j, i = j + 1 := ⟨i - 1, by omega⟩
    rw [List.reverse_append] at hi
    simp at hi
    rcases h.dropped j x hi (by omega) with h1 | h1
    · exact Or.inl (by omega)
    · exact Or.inr (by omega)

theorem abs_purge {N : Nat} {A now : Int} {log : List Entry} (q : List Entry)
    (h : Abs N A q log now) : Abs N A (dropExp now A q) log now := by
  induction q with
  | nil => simpa [dropExp] using h
  | cons e0 q ih =>
    by_cases hexp : now - e0.t > A
    · have : dropExp now A (e0 :: q) = dropExp now A q := by simp [dropExp, expired, hexp]
      rw [this]
      exact ih (abs_pop h (Or.inr hexp))
    · have : dropExp now A (e0 :: q) = e0 :: q := by simp [dropExp, expired, hexp]
      rw [this]; exact h

theorem abs_trim {N : Nat} {A now : Int} {log : List Entry} (q : List Entry)
    (h : Abs N A q log now) : Abs N A (trim N q) log now := by
  unfold trim
  by_cases hl : q.length = N
  · simp only [hl, if_true]
    cases q with
    | nil => simpa using h
    | cons e0 q' =>
      simp only [List.tail_cons]
      exact abs_pop h (Or.inl (by simp at hl; omega))
  · simp only [hl, if_false]; exact h

theorem dropExp_fresh (now A : Int) (q : List Entry) (hs : (q.map (·.t)).Pairwise (· ≤ ·)) :
    ∀ e ∈ dropExp now A q, ¬ (now - e.t > A) := by
  induction q with
  | nil => intro e he; simp [dropExp] at he
  | cons e0 q ih =>
    simp only [List.map_cons, List.pairwise_cons] at hs
    by_cases hexp : now - e0.t > A
    · have : dropExp now A (e0 :: q) = dropExp now A q := by simp [dropExp, expired, hexp]
      rw [this]; exact ih hs.2
    · have : dropExp now A (e0 :: q) = e0 :: q := by simp [dropExp, expired, hexp]
      rw [this]
      intro e he
      simp only [List.mem_cons] at he
      rcases he with he | he
      · subst he; exact hexp
      · have := hs.1 e.t (List.mem_map.mpr ⟨e, he, rfl⟩)
        omega

theorem abs_sorted_q {N : Nat} {A clock : Int} {q log : List Entry} (h : Abs N A q log clock) :
    (q.map (·.t)).Pairwise (· ≤ ·) := by
  obtain ⟨pre, hpre⟩ := h.suffix
  have := h.sorted
  rw [hpre, List.map_append, List.pairwise_append] at this
  exact this.2.1

theorem mem_of_lastStore {q : List Entry} {id : Id} {k : Nat} {e : Entry}
    (h : lastStore q id = some (k, e)) : e ∈ q := by
  have := List.mem_of_getElem? (lastStore_reverse_get q id k e h)
  simpa using this

/-- a lookup in the log agrees with a lookup among the live, fresh entries -/
theorem specGet_eq (N : Nat) (A now : Int) (q log : List Entry) (inval : List Sess) (id : Id)
    (h : Abs N A q log now) (hlen : q.length < N) (hfresh : ∀ e ∈ q, ¬ (now - e.t > A)) :
    specGet N A ⟨log, inval⟩ id now =
      match lastStore q id with
      | none => .keyError
      | some r => if r.2.sess ∈ inval then .keyError else .sess r.2.sess := by
  obtain ⟨pre, hpre⟩ := h.suffix
  unfold specGet
  simp only
  have happ := lastStore_append pre q id
  rw [← hpre] at happ
  cases hq : lastStore q id with
  | some r =>
    obtain ⟨k, e⟩ := r
    rw [hq] at happ
    simp only at happ
    rw [happ]
    have hk := (lastStore_lt q id k e hq).1
    have hf := hfresh e (mem_of_lastStore hq)
    have h1 : k + 1 < N := by omega
    by_cases hin : e.sess ∈ inval <;> simp [h1, hf, hin]
  | none =>
    rw [hq] at happ
    simp only at happ
    cases hp : lastStore pre id with
    | none => rw [hp] at happ; simp at happ; rw [happ]
    | some r =>
      obtain ⟨k, e⟩ := r
      rw [hp] at happ
      simp only [Option.map_some] at happ
      rw [happ]
      have hrev := lastStore_reverse_get log id _ e happ
      have hd := h.dropped _ e hrev (by omega)
      simp only
      have : ¬ (k + q.length + 1 < N ∧ ¬ now - e.t > A ∧ ¬ e.sess ∈ inval) := by
        intro ⟨h1, h2, _⟩
        rcases hd with hd | hd
        · omega
        · exact h2 hd
      rw [if_neg this]

/-! ### simulation over whole histories -/

def Sim (N : Nat) (A : Int) (ist : ImplState) (sst : SpecState) (clock : Int) : Prop :=
  ∃ q, Inv ist.cache q ∧ Abs N A q sst.log clock ∧ ist.cache.ring.length = N ∧
    ist.cache.maxAge = A ∧ ist.inval = sst.inval

theorem sim_init (N : Nat) (A clock : Int) (h : 1 ≤ N) :
    Sim N A { cache := Cache.new N A, inval := [] } { log := [], inval := [] } clock :=
  ⟨[], inv_new N A h, abs_nil N A clock, by simp [Cache.new], rfl, rfl⟩

theorem sim_step_set (N : Nat) (A : Int) (ist : ImplState) (sst : SpecState) (clock : Int)
    (id : Id) (t : Int) (s : Sess) (h : Sim N A ist sst clock) (hc : clock ≤ t) :
    (ist.step (.set id t s)).2 = (sst.step N A (.set id t s)).2 ∧
    Sim N A (ist.step (.set id t s)).1 (sst.step N A (.set id t s)).1 t := by
  obtain ⟨q, hinv, habs, hN, hA, hval⟩ := h
  obtain ⟨c', hset, hinv', hlen', hage'⟩ := setitem_spec ist.cache q id s t hinv
  simp only [ImplState.step, SpecState.step, hset]
  refine ⟨by first | rfl | trivial, trim N (q ++ [⟨id, t, s⟩]), ?_, ?_, ?_, ?_, hval⟩
  · rw [← hN]; exact hinv'
  · exact abs_trim _ (abs_push ⟨id, t, s⟩ habs hc rfl)
  · show c'.ring.length = N
    rw [hlen', hN]
  · show c'.maxAge = A
    rw [hage', hA]

theorem sim_step_get (N : Nat) (A : Int) (ist : ImplState) (sst : SpecState) (clock : Int)
    (id : Id) (t : Int) (h : Sim N A ist sst clock) (hc : clock ≤ t) :
    (ist.step (.get id t)).2 = (sst.step N A (.get id t)).2 ∧
    Sim N A (ist.step (.get id t)).1 (sst.step N A (.get id t)).1 t := by
  obtain ⟨q, hinv, habs, hN, hA, hval⟩ := h
  obtain ⟨c', hinv', hring', hage', hget⟩ :=
    getitem_spec (fun s => !ist.inval.contains s) ist.cache q id t hinv
  have habs' := abs_purge q (abs_clock habs hc)
  rw [hA] at hinv' hget
  have hlen : (dropExp t A q).length < N := by
    have := hinv'.ring.hlen
    rw [hring', hN] at this
    exact this
  have hfresh := dropExp_fresh t A q (abs_sorted_q habs)
  have hspec := specGet_eq N A t _ sst.log sst.inval id habs' hlen hfresh
  have hsim : Sim N A { ist with cache := c' } sst t :=
    ⟨dropExp t A q, hinv', habs', by show c'.ring.length = N; rw [hring', hN],
      by show c'.maxAge = A; rw [hage', hA], hval⟩
  simp only [ImplState.step, SpecState.step, hget]
  rw [hspec]
  cases hl : lastStore (dropExp t A q) id with
  | none => exact ⟨by first | rfl | trivial, hsim⟩
  | some r =>
    simp only
    by_cases hin : r.2.sess ∈ sst.inval
    · have : (!ist.inval.contains r.2.sess) = false := by
        rw [hval]; simp [hin]
      simp only [this, hin, if_true]
      exact ⟨by first | rfl | trivial, hsim⟩
    · have : (!ist.inval.contains r.2.sess) = true := by
        rw [hval]; simp [hin]
      simp only [this, hin, if_true, if_false]
      exact ⟨by first | rfl | trivial, hsim⟩

theorem sim_step_inval (N : Nat) (A : Int) (ist : ImplState) (sst : SpecState) (clock : Int)
    (s : Sess) (h : Sim N A ist sst clock) :
    (ist.step (.inval s)).2 = (sst.step N A (.inval s)).2 ∧
    Sim N A (ist.step (.inval s)).1 (sst.step N A (.inval s)).1 clock := by
  obtain ⟨q, hinv, habs, hN, hA, hval⟩ := h
  simp only [ImplState.step, SpecState.step]
  exact ⟨by first | rfl | trivial, q, hinv, habs, hN, hA, by simp [hval]⟩

theorem run_sim (N : Nat) (A : Int) :
    ∀ (ops : List Op) (ist : ImplState) (sst : SpecState) (clock : Int), Sim N A ist sst clock →
      (∀ t ∈ opTimes ops, clock ≤ t) → (opTimes ops).Pairwise (· ≤ ·) →
      (runImplFrom ist ops).2 = (runSpecFrom N A sst ops).2 ∧
      ∃ clock', Sim N A (runImplFrom ist ops).1 (runSpecFrom N A sst ops).1 clock' := by
  intro ops
  induction ops with
  | nil => intro ist sst clock h _ _; exact ⟨rfl, clock, h⟩
  | cons op ops ih =>
    intro ist sst clock h hge hmono
    cases op with
    | set id t s =>
      simp only [opTimes, List.pairwise_cons, List.mem_cons, forall_eq_or_imp] at hge hmono
      obtain ⟨ho, hs⟩ := sim_step_set N A ist sst clock id t s h hge.1
      obtain ⟨h1, h2⟩ := ih _ _ t hs (fun t' ht' => hmono.1 t' ht') hmono.2
      simp only [runImplFrom, runSpecFrom]
      exact ⟨by rw [ho, h1], h2⟩
    | get id t =>
      simp only [opTimes, List.pairwise_cons, List.mem_cons, forall_eq_or_imp] at hge hmono
      obtain ⟨ho, hs⟩ := sim_step_get N A ist sst clock id t h hge.1
      obtain ⟨h1, h2⟩ := ih _ _ t hs (fun t' ht' => hmono.1 t' ht') hmono.2
      simp only [runImplFrom, runSpecFrom]
      exact ⟨by rw [ho, h1], h2⟩
    | inval s =>
      simp only [opTimes] at hge hmono
      obtain ⟨ho, hs⟩ := sim_step_inval N A ist sst clock s h
      obtain ⟨h1, h2⟩ := ih _ _ clock hs hge hmono
      simp only [runImplFrom, runSpecFrom]
      exact ⟨by rw [ho, h1], h2⟩

end Tls.Cache
