import TlsModel.Record
import TlsProofs.CbcCheck
/- Helper lemmas for the record-layer model (properties C01 / C02): fragmentation, padding,
   TLS 1.3 inner plaintext, big-endian encodings. -/
namespace Tls.Rec
open Tls.CT

/-! ### fragmentation -/

theorem chunks_flatten (rs : Nat) : ∀ (fuel : Nat) (buf : Bytes) (l : List Bytes),
    chunks rs fuel buf = some l → l.flatten = buf
  | 0, buf, l, h => by
    unfold chunks at h
    split at h
    · cases h
    · cases h; simp
  | fuel + 1, buf, l, h => by
    unfold chunks at h
    split at h
    · cases hc : chunks rs fuel (buf.drop rs) with
      | none => simp [hc] at h
      | some l' =>
        simp [hc] at h
        subst h
        simp [chunks_flatten rs fuel _ l' hc]
    · cases h; simp

theorem chunks_le (rs : Nat) : ∀ (fuel : Nat) (buf : Bytes) (l : List Bytes),
    chunks rs fuel buf = some l → ∀ f ∈ l, f.length ≤ rs
  | 0, buf, l, h => by
    unfold chunks at h
    split at h
    · cases h
    · cases h; intro f hf; simp at hf; subst hf; omega
  | fuel + 1, buf, l, h => by
    unfold chunks at h
    split at h
    · cases hc : chunks rs fuel (buf.drop rs) with
      | none => simp [hc] at h
      | some l' =>
        simp [hc] at h
        subst h
        intro f hf
        simp at hf
        rcases hf with hf | hf
        · subst hf; simp; omega
        · exact chunks_le rs fuel _ l' hc f hf
    · cases h; intro f hf; simp at hf; subst hf; omega

/-- the loop of `_sendMsg` terminates (within `len buf` iterations) whenever `recordSize ≥ 1` -/
theorem chunks_some (rs : Nat) (hrs : 0 < rs) : ∀ (fuel : Nat) (buf : Bytes),
    buf.length ≤ fuel + rs → ∃ l, chunks rs fuel buf = some l
  | 0, buf, h => by
    unfold chunks
    have : ¬ buf.length > rs := by omega
    simp [this]
  | fuel + 1, buf, h => by
    unfold chunks
    by_cases hb : buf.length > rs
    · simp only [hb, if_true]
      have : (buf.drop rs).length ≤ fuel + rs := by simp; omega
      obtain ⟨l, hl⟩ := chunks_some rs hrs fuel (buf.drop rs) this
      exact ⟨buf.take rs :: l, by simp [hl]⟩
    · simp [hb]

/-- every fragment but the last is exactly `rs` long, none is empty unless the message is -/
theorem chunks_ne_nil (rs : Nat) : ∀ (fuel : Nat) (buf : Bytes) (l : List Bytes),
    chunks rs fuel buf = some l → l ≠ []
  | 0, buf, l, h => by
    unfold chunks at h
    split at h
    · cases h
    · cases h; simp
  | fuel + 1, buf, l, h => by
    unfold chunks at h
    split at h
    · cases hc : chunks rs fuel (buf.drop rs) with
      | none => simp [hc] at h
      | some l' => simp [hc] at h; subst h; simp
    · cases h; simp

theorem chunksVar_flatten (rs : Nat → Nat) : ∀ (fuel i : Nat) (buf : Bytes) (l : List Bytes),
    chunksVar rs i fuel buf = some l → l.flatten = buf
  | 0, i, buf, l, h => by
    unfold chunksVar at h
    split at h
    · cases h
    · cases h; simp
  | fuel + 1, i, buf, l, h => by
    unfold chunksVar at h
    split at h
    · cases hc : chunksVar rs (i + 1) fuel (buf.drop (rs i)) with
      | none => simp [hc] at h
      | some l' =>
        simp [hc] at h
        subst h
        simp [chunksVar_flatten rs fuel _ _ l' hc]
    · cases h; simp

/-- record `i + j` of the write is at most `rs (i + j)` long: the size in force when it was cut -/
theorem chunksVar_le (rs : Nat → Nat) : ∀ (fuel i : Nat) (buf : Bytes) (l : List Bytes),
    chunksVar rs i fuel buf = some l → ∀ j (hj : j < l.length), l[j].length ≤ rs (i + j)
  | 0, i, buf, l, h => by
    unfold chunksVar at h
    split at h
    · cases h
    · cases h
      intro j hj
      have : j = 0 := by simpa using hj
      subst this; simp; omega
  | fuel + 1, i, buf, l, h => by
    unfold chunksVar at h
    split at h
    · cases hc : chunksVar rs (i + 1) fuel (buf.drop (rs i)) with
      | none => simp [hc] at h
      | some l' =>
        simp [hc] at h
        subst h
        intro j hj
        cases j with
        | zero => simp; omega
        | succ k =>
          have := chunksVar_le rs fuel (i + 1) _ l' hc k (by simpa using hj)
          simp only [List.getElem_cons_succ]
          have e : i + (k + 1) = i + 1 + k := by omega
          rw [e]; exact this
    · cases h
      intro j hj
      have : j = 0 := by simpa using hj
      subst this; simp; omega

theorem chunksVar_some (rs : Nat → Nat) (hrs : ∀ i, 0 < rs i) : ∀ (fuel i : Nat) (buf : Bytes),
    buf.length ≤ fuel + rs i → ∃ l, chunksVar rs i fuel buf = some l
  | 0, i, buf, h => by
    unfold chunksVar
    have : ¬ buf.length > rs i := by omega
    simp [this]
  | fuel + 1, i, buf, h => by
    unfold chunksVar
    by_cases hb : buf.length > rs i
    · simp only [hb, if_true]
      have h0 := hrs i
      have h1 := hrs (i + 1)
      have : (buf.drop (rs i)).length ≤ fuel + rs (i + 1) := by simp; omega
      obtain ⟨l, hl⟩ := chunksVar_some rs hrs fuel (i + 1) (buf.drop (rs i)) this
      exact ⟨buf.take (rs i) :: l, by simp [hl]⟩
    · simp [hb]

theorem chunksVar_const (r : Nat) : ∀ (fuel i : Nat) (buf : Bytes),
    chunksVar (fun _ => r) i fuel buf = chunks r fuel buf
  | 0, i, buf => by unfold chunksVar chunks; rfl
  | fuel + 1, i, buf => by
    unfold chunksVar chunks
    rw [chunksVar_const r fuel (i + 1)]

/-! ### padding -/

theorem addPadding_length (bs : Nat) (x : Bytes) : (addPadding bs x).length = paddedLen bs x.length := by
  unfold addPadding paddedLen
  simp
  omega

theorem paddedLen_mod (bs n : Nat) (hbs : 0 < bs) : paddedLen bs n % bs = 0 := by
  unfold paddedLen
  have h1 : n % bs < bs := Nat.mod_lt _ hbs
  have h2 : n = bs * (n / bs) + n % bs := (Nat.div_add_mod n bs).symm
  have : n + (bs - 1 - n % bs) + 1 = bs * (n / bs + 1) := by
    rw [Nat.mul_add]; omega
  rw [this]
  exact Nat.mul_mod_right _ _

theorem addPadding_mod (bs : Nat) (x : Bytes) (hbs : 0 < bs) : (addPadding bs x).length % bs = 0 := by
  rw [addPadding_length]; exact paddedLen_mod bs _ hbs

theorem addPadding_append_block (bs : Nat) (iv x : Bytes) (h : iv.length % bs = 0) :
    addPadding bs (iv ++ x) = iv ++ addPadding bs x := by
  unfold addPadding
  have : (iv ++ x).length % bs = x.length % bs := by
    rw [List.length_append, Nat.add_mod, h]; simp
  rw [this]
  simp [List.append_assoc]

theorem paddedLen_add_block (bs k n : Nat) (h : k % bs = 0) : paddedLen bs (k + n) = k + paddedLen bs n := by
  unfold paddedLen
  have : (k + n) % bs = n % bs := by rw [Nat.add_mod, h]; simp
  rw [this]; omega

/-! ### TLS 1.3 inner plaintext -/

theorem dropWhile_zeros (n : Nat) (l : Bytes) :
    (List.replicate n (0 : UInt8) ++ l).dropWhile (· == 0) = l.dropWhile (· == 0) := by
  induction n with
  | zero => simp
  | succ k ih =>
    rw [List.replicate_succ, List.cons_append, List.dropWhile_cons]
    simp [ih]

/-- `_tls13_de_pad` inverts the construction at the top of `sendRecord` when the type is non-zero -/
theorem dePad_inner (p : Bytes) (t : UInt8) (n : Nat) (ht : t ≠ 0) :
    dePad (p ++ [t] ++ zeros n) = some (p, t) := by
  unfold dePad zeros
  rw [List.reverse_append, List.reverse_replicate, dropWhile_zeros, List.reverse_append]
  have : ((t == 0) = true) = False := by simp [ht]
  simp [ht]

theorem dropWhile_zero_eq_nil (l : Bytes) : l.dropWhile (· == 0) = [] ↔ ∀ b ∈ l, b = 0 := by
  induction l with
  | nil => simp
  | cons a as ih =>
    rw [List.dropWhile_cons]
    by_cases ha : a = 0
    · subst ha; simp [ih]
    · simp [ha]

theorem dropWhile_zero_split (l : Bytes) :
    ∃ n, l = List.replicate n 0 ++ l.dropWhile (· == 0) := by
  induction l with
  | nil => exact ⟨0, by simp⟩
  | cons a as ih =>
    rw [List.dropWhile_cons]
    by_cases ha : a = 0
    · subst ha
      obtain ⟨n, hn⟩ := ih
      refine ⟨n + 1, ?_⟩
      simp only [beq_self_eq_true, if_true, List.replicate_succ, List.cons_append]
      rw [← hn]
    · exact ⟨0, by simp [ha]⟩

theorem dropWhile_zero_head (l : Bytes) (v : UInt8) (rest : Bytes)
    (h : l.dropWhile (· == 0) = v :: rest) : v ≠ 0 := by
  induction l with
  | nil => simp at h
  | cons a as ih =>
    rw [List.dropWhile_cons] at h
    by_cases ha : a = 0
    · subst ha; simp at h; exact ih h
    · simp [ha] at h; rw [← h.1]; exact ha

theorem dePad_none_iff (d : Bytes) : dePad d = none ↔ ∀ b ∈ d, b = 0 := by
  unfold dePad
  constructor
  · intro h
    split at h
    · rename_i heq
      have := (dropWhile_zero_eq_nil _).mp heq
      intro b hb
      exact this b (List.mem_reverse.mpr hb)
    · cases h
  · intro h
    have : d.reverse.dropWhile (· == 0) = [] := by
      apply (dropWhile_zero_eq_nil _).mpr
      intro b hb
      exact h b (List.mem_reverse.mp hb)
    simp [this]

/-- what `_tls13_de_pad` returns is a decomposition of its argument -/
theorem dePad_some (d p : Bytes) (t : UInt8) (h : dePad d = some (p, t)) :
    ∃ n, d = p ++ [t] ++ zeros n ∧ t ≠ 0 := by
  unfold dePad at h
  split at h
  · cases h
  · rename_i v rest heq
    cases h
    obtain ⟨n, hn⟩ := dropWhile_zero_split d.reverse
    rw [heq] at hn
    refine ⟨n, ?_, dropWhile_zero_head _ _ _ heq⟩
    have : d = (d.reverse).reverse := by simp
    rw [this, hn, List.reverse_append, List.reverse_cons, List.reverse_replicate]
    simp [zeros]

/-! ### encodings -/

theorem beEncode_length : ∀ (n x : Nat), (beEncode n x).length = n
  | 0, _ => rfl
  | n + 1, x => by simp [beEncode, beEncode_length n x]

theorem seqBytes_length (n : Nat) : (seqBytes n).length = 8 := beEncode_length 8 n

theorem beDecode_cons_aux (l : Bytes) (acc : Nat) :
    l.foldl (fun a x => a * 256 + x.toNat) acc = acc * 256 ^ l.length + l.foldl (fun a x => a * 256 + x.toNat) 0 := by
  induction l generalizing acc with
  | nil => simp
  | cons b bs ih =>
    simp only [List.foldl_cons, List.length_cons]
    rw [ih, ih (0 * 256 + b.toNat)]
    simp [Nat.pow_succ, Nat.add_mul, Nat.mul_assoc, Nat.add_assoc]
    rw [Nat.mul_comm 256]

theorem beDecode_beEncode : ∀ (n x : Nat), x < 256 ^ n → beDecode (beEncode n x) = x
  | 0, x, h => by simp at h; subst h; rfl
  | n + 1, x, h => by
    unfold beEncode beDecode
    rw [List.foldl_cons, beDecode_cons_aux]
    have ih := beDecode_beEncode n (x % 256 ^ n) (Nat.mod_lt _ (Nat.pow_pos (by decide)))
    unfold beDecode at ih
    have hq : x / 256 ^ n < 256 := by
      apply Nat.div_lt_of_lt_mul
      rw [Nat.pow_succ] at h; exact h
    have e1 : (UInt8.ofNat (x / 256 ^ n % 256)).toNat = x / 256 ^ n := by
      simp [Nat.mod_eq_of_lt hq]
    have e2 : beEncode n x = beEncode n (x % 256 ^ n) := by
      clear ih h hq e1
      induction n generalizing x with
      | zero => rfl
      | succ k ihk =>
        unfold beEncode
        congr 1
        · congr 1
          have : x % 256 ^ (k + 1) / 256 ^ k % 256 = x / 256 ^ k % 256 := by
            rw [Nat.pow_succ, Nat.mod_mul_right_div_self, Nat.mod_mod]
          rw [this]
        · rw [ihk x, ihk (x % 256 ^ (k + 1))]
          congr 1
          rw [Nat.pow_succ, Nat.mod_mul_right_mod]
    rw [beEncode_length, e1, e2, ih]
    simp
    exact (Nat.div_add_mod' x (256 ^ n))

theorem beEncode_inj (n x y : Nat) (hx : x < 256 ^ n) (hy : y < 256 ^ n)
    (h : beEncode n x = beEncode n y) : x = y := by
  rw [← beDecode_beEncode n x hx, ← beDecode_beEncode n y hy, h]

theorem seqBytes_inj (x y : Nat) (hx : x < 2 ^ 64) (hy : y < 2 ^ 64) (h : seqBytes x = seqBytes y) : x = y :=
  beEncode_inj 8 x y (by simpa using hx) (by simpa using hy) h

theorem be16_inj (x y : Nat) (hx : x < 2 ^ 16) (hy : y < 2 ^ 16) (h : be16 x = be16 y) : x = y := by
  unfold be16 at h
  simp only [List.cons.injEq, and_true] at h
  obtain ⟨h1, h2⟩ := h
  have a1 : x / 256 < 256 := by omega
  have a2 : y / 256 < 256 := by omega
  have b1 : x % 256 < 256 := Nat.mod_lt _ (by decide)
  have b2 : y % 256 < 256 := Nat.mod_lt _ (by decide)
  have h1' := congrArg UInt8.toNat h1
  have h2' := congrArg UInt8.toNat h2
  simp [Nat.mod_eq_of_lt a1, Nat.mod_eq_of_lt a2] at h1'
  simp at h2'
  omega

/-! ### functional laws of the primitives (what real primitives satisfy; hypotheses of the theorems) -/

/-- the MAC object returns `digest_size` bytes; `digest_size`, `block_size` are positive -/
structure MacLaw {S} (P : Prims S) : Prop where
  len : ∀ x, (P.mac.digest x).length = P.mac.dlen
  pos : 0 < P.mac.dlen
  block : 0 < P.mac.blockSize
  small : P.mac.dlen < 2 ^ 29

/-- stream cipher object: length preserving, and a decryptor in the same state as the encryptor
    recovers the plaintext and ends in the same state -/
structure StreamLaw {S} (P : Prims S) : Prop where
  len : ∀ s x, (P.enc s x).2.length = x.length
  dec_enc : ∀ s x, P.dec s (P.enc s x).2 = ((P.enc s x).1, x)

/-- CBC object over whole blocks -/
structure BlockLaw {S} (P : Prims S) : Prop where
  bs_pos : 0 < P.bs
  bs_le : P.bs ≤ 256
  len : ∀ s x, (P.enc s x).2.length = x.length
  dec_len : ∀ s x, (P.dec s x).2.length = x.length
  dec_enc : ∀ s x, x.length % P.bs = 0 → P.dec s (P.enc s x).2 = ((P.enc s x).1, x)

structure AeadLaw {S} (P : Prims S) : Prop where
  len : ∀ n p a, (P.aeadSeal n p a).length = p.length + P.tagLen
  open_seal : ∀ n p a, P.aeadOpen n (P.aeadSeal n p a) a = some p

end Tls.Rec
