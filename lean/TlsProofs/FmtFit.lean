import TlsProofs.FmtRoundTrip
/-
  Serialisation fails exactly when a field does not fit (never wraps / truncates), and the
  framing consequences of the two round-trip theorems.
-/
set_option linter.unusedSimpArgs false
set_option linter.unusedVariables false
namespace Tls.Fmt
open Tls

/-! ### length of an encoding -/

theorem encodeMany_length (e : Val → Option Bytes) (l : Val → Nat)
    (h1 : ∀ h a, e h = some a → a.length = l h) :
    ∀ (v : Val) (b : Bytes), encodeMany e v = some b → b.length = encLenMany l v := by
  intro v
  induction v with
  | nil =>
    intro b h
    rcases encodeMany_some.mp h with ⟨_, rfl⟩ | ⟨_, _, _, _, h0, _⟩
    · simp [encLenMany]
    · cases h0
  | cons hd tl _ iht =>
    intro b h
    rcases encodeMany_some.mp h with ⟨h0, _⟩ | ⟨_, _, a, c, h0, ha, hc, rfl⟩
    · cases h0
    · simp only [Val.cons.injEq] at h0
      obtain ⟨rfl, rfl⟩ := h0
      simp [encLenMany, h1 _ _ ha, iht _ hc]
  | _ => intro b h; simp [encodeMany] at h

theorem encode_length (f : Fmt) : ∀ (t : Nat) (v : Val) (b : Bytes),
    encode f t v = some b → b.length = encLen f t v := by
  induction f with
  | unit =>
    intro t v b h
    obtain ⟨rfl, rfl⟩ := encode_unit_some.mp h
    simp [encLen]
  | uint n =>
    intro t v b h
    obtain ⟨x, rfl, _, rfl⟩ := encode_uint_some.mp h
    simp [encLen, beEncode_length]
  | bytes n =>
    intro t v b h
    obtain ⟨rfl, h1⟩ := encode_bytes_some.mp h
    simp [encLen, h1]
  | rest =>
    intro t v b h
    have := encode_rest_some.mp h; subst this
    simp [encLen]
  | pair f g ihf ihg =>
    intro t v b h
    obtain ⟨v1, v2, a, c, rfl, ha, hc, rfl⟩ := encode_pair_some.mp h
    simp [encLen, ihf _ _ _ ha, ihg _ _ _ hc]
  | lenPref ll f ih =>
    intro t v b h
    obtain ⟨c, hc, _, rfl⟩ := encode_lenPref_some.mp h
    simp [encLen, beEncode_length, ih _ _ _ hc]
  | many f ih =>
    intro t v b h
    rw [encode_many_eq] at h
    simp only [encLen]
    exact encodeMany_length _ _ (fun hd a ha => ih t hd a ha) v b h
  | optTail f ih =>
    intro t v b h
    rcases encode_optTail_some.mp h with ⟨rfl, rfl⟩ | ⟨w, rfl, hw⟩
    · simp [encLen]
    · simp [encLen, ih _ _ _ hw]
  | tagged n f ih =>
    intro t v b h
    obtain ⟨x, w, c, rfl, _, hc, rfl⟩ := encode_tagged_some.mp h
    simp [encLen, beEncode_length, ih _ _ _ hc]
  | caseOf k f g ihf ihg =>
    intro t v b h
    rw [encode_caseOf_eq] at h
    simp only [encLen]
    by_cases hk : t = k
    · simp only [hk, if_true] at h ⊢; exact ihf _ _ _ h
    · simp only [hk, if_false] at h ⊢; exact ihg _ _ _ h
  | fail => intro t v b h; simp [encode_fail_eq] at h

/-! ### encode succeeds iff the value is well-shaped and everything fits -/

theorem encodeMany_isSome (e : Val → Option Bytes) (s p : Val → Bool)
    (h1 : ∀ h, (e h).isSome = (s h && p h)) :
    ∀ v, (encodeMany e v).isSome = (allMany s v && allMany p v) := by
  intro v
  induction v with
  | nil => simp [encodeMany, allMany]
  | cons hd tl _ iht =>
    simp only [encodeMany, allMany, bind, pure]
    have := h1 hd
    cases hh : e hd with
    | none =>
      rw [hh] at this
      simp only [Option.isSome_none] at this
      simp only [Option.bind_none, Option.isSome_none]
      cases hs : s hd <;> cases hp : p hd <;> simp [hs, hp] at this ⊢
    | some a =>
      rw [hh] at this
      simp only [Option.isSome_some] at this
      simp only [Option.bind_some]
      cases ht : encodeMany e tl with
      | none =>
        rw [ht] at iht
        simp only [Option.isSome_none] at iht
        simp only [Option.bind_none, Option.isSome_none]
        cases h3 : allMany s tl <;> cases h4 : allMany p tl <;> simp [h3, h4] at iht ⊢
      | some c =>
        rw [ht] at iht
        simp only [Option.isSome_some] at iht
        simp only [Option.bind_some, Option.isSome_some]
        have hs : s hd = true ∧ p hd = true := by
          cases hs : s hd <;> cases hp : p hd <;> simp [hs, hp] at this ⊢
        have ht2 : allMany s tl = true ∧ allMany p tl = true := by
          cases h3 : allMany s tl <;> cases h4 : allMany p tl <;> simp [h3, h4] at iht ⊢
        simp [hs.1, hs.2, ht2.1, ht2.2]
  | _ => simp [encodeMany, allMany]

theorem encode_isSome (f : Fmt) : ∀ (t : Nat) (v : Val),
    (encode f t v).isSome = (shape f t v && fits f t v) := by
  induction f with
  | unit => intro t v; cases v <;> simp [encode, shape, fits]
  | uint n =>
    intro t v
    cases v with
    | nat x => by_cases hx : x < 256 ^ n <;> simp [encode, shape, fits, hx]
    | _ => simp [encode, shape, fits]
  | bytes n =>
    intro t v
    cases v with
    | bytes b => by_cases hb : b.length = n <;> simp [encode, shape, fits, hb]
    | _ => simp [encode, shape, fits]
  | rest => intro t v; cases v <;> simp [encode, shape, fits]
  | pair f g ihf ihg =>
    intro t v
    cases v with
    | pair v1 v2 =>
      have h1 := ihf t v1
      have h2 := ihg t v2
      simp only [encode, shape, fits, bind, pure]
      cases hf : encode f t v1 with
      | none =>
        rw [hf] at h1
        simp only [Option.isSome_none] at h1
        simp only [Option.bind_none, Option.isSome_none]
        cases a1 : shape f t v1 <;> cases a2 : fits f t v1 <;> simp [a1, a2] at h1 ⊢
      | some a =>
        rw [hf] at h1
        simp only [Option.isSome_some] at h1
        simp only [Option.bind_some]
        have ha : shape f t v1 = true ∧ fits f t v1 = true := by
          cases a1 : shape f t v1 <;> cases a2 : fits f t v1 <;> simp [a1, a2] at h1 ⊢
        cases hg : encode g t v2 with
        | none =>
          rw [hg] at h2
          simp only [Option.isSome_none] at h2
          simp only [Option.bind_none, Option.isSome_none]
          cases a1 : shape g t v2 <;> cases a2 : fits g t v2 <;> simp [a1, a2] at h2 ⊢
        | some c =>
          rw [hg] at h2
          simp only [Option.isSome_some] at h2
          have hc : shape g t v2 = true ∧ fits g t v2 = true := by
            cases a1 : shape g t v2 <;> cases a2 : fits g t v2 <;> simp [a1, a2] at h2 ⊢
          simp [ha.1, ha.2, hc.1, hc.2]
    | _ => simp [encode, shape, fits]
  | lenPref ll f ih =>
    intro t v
    have h1 := ih t v
    simp only [encode, shape, fits, bind]
    cases hf : encode f t v with
    | none =>
      rw [hf] at h1
      simp only [Option.isSome_none] at h1
      simp only [Option.bind_none, Option.isSome_none]
      cases a1 : shape f t v <;> cases a2 : fits f t v <;> simp [a1, a2] at h1 ⊢
    | some c =>
      rw [hf] at h1
      simp only [Option.isSome_some] at h1
      have hc : shape f t v = true ∧ fits f t v = true := by
        cases a1 : shape f t v <;> cases a2 : fits f t v <;> simp [a1, a2] at h1 ⊢
      have hl := encode_length f t v c hf
      simp only [Option.bind_some, hc.1, hc.2, Bool.true_and, ← hl]
      by_cases hlt : c.length < 256 ^ ll <;> simp [hlt]
  | many f ih =>
    intro t v
    simp only [encode, shape, fits]
    exact encodeMany_isSome _ _ _ (fun hd => ih t hd) v
  | optTail f ih =>
    intro t v
    cases v with
    | none => simp [encode, shape, fits]
    | some w => simp only [encode, shape, fits]; exact ih t w
    | _ => simp [encode, shape, fits]
  | tagged n f ih =>
    intro t v
    cases v with
    | pair a w =>
      cases a with
      | nat x =>
        have h1 := ih x w
        simp only [encode, shape, fits, bind, pure]
        by_cases hx : x < 256 ^ n
        · simp only [hx, if_true, decide_true, Bool.true_and]
          cases hf : encode f x w with
          | none => rw [hf] at h1; simpa using h1
          | some c => rw [hf] at h1; simpa using h1
        · simp [hx]
      | _ => simp [encode, shape, fits]
    | _ => simp [encode, shape, fits]
  | caseOf k f g ihf ihg =>
    intro t v
    simp only [encode, shape, fits]
    by_cases hk : t = k
    · simp only [hk, if_true]; exact ihf k v
    · simp only [hk, if_false]; exact ihg t v
  | fail => intro t v; simp [encode, shape, fits]

/-! ### framing consequences -/

/-- `decode` only ever returns a suffix of its input: it cannot read past the end, and what
    it did not consume is handed back unchanged -/
theorem decode_suffix (f : Fmt) (t : Nat) (b : Bytes) (v : Val) (r : Bytes)
    (h : decode f t b = .ok (v, r)) : ∃ c, b = c ++ r ∧ encode f t v = some c := by
  obtain ⟨e, he, heb⟩ := encode_decode_gen f t b v r h
  exact ⟨e, heb.symm, he⟩

/-- decoding of a self-delimiting format is determined by the prefix it consumes -/
theorem decode_extend (f : Fmt) (hw : wf false f = true) (t : Nat) (b s : Bytes) (v : Val) (r : Bytes)
    (h : decode f t b = .ok (v, r)) : decode f t (b ++ s) = .ok (v, r ++ s) := by
  obtain ⟨e, he, rfl⟩ := encode_decode_gen f t b v r h
  rw [List.append_assoc]
  exact decode_encode_gen f false t v e (r ++ s) hw he (by simp)

/-- every strict prefix of a valid encoding of a self-delimiting format is rejected -/
theorem decode_truncated_gen (f : Fmt) (hw : wf false f = true) (t : Nat) (v : Val) (b : Bytes)
    (he : encode f t v = some b) (k : Nat) (hk : k < b.length) :
    ∃ e, decode f t (b.take k) = .error e := by
  cases hd : decode f t (b.take k) with
  | error e => exact ⟨e, rfl⟩
  | ok p =>
    exfalso
    obtain ⟨v', r'⟩ := p
    have h1 := decode_extend f hw t (b.take k) (b.drop k) v' r' hd
    rw [List.take_append_drop] at h1
    have h2 := decode_encode_gen f false t v b [] hw he (by simp)
    rw [List.append_nil, h1] at h2
    simp only [Except.ok.injEq, Prod.mk.injEq, List.append_eq_nil_iff] at h2
    have : (b.drop k).length = 0 := by rw [h2.2.2]; rfl
    simp at this; omega

/-- a self-delimiting format has at most one parse of each input: two accepted inputs with
    the same value and the same rest are the same bytes, and an input has one value -/
theorem decode_inj (f : Fmt) (t : Nat) (b b' : Bytes) (v : Val) (r : Bytes)
    (h : decode f t b = .ok (v, r)) (h' : decode f t b' = .ok (v, r)) : b = b' := by
  obtain ⟨e, he, rfl⟩ := encode_decode_gen f t b v r h
  obtain ⟨e', he', rfl⟩ := encode_decode_gen f t b' v r h'
  rw [he] at he'; cases he'; rfl

end Tls.Fmt
