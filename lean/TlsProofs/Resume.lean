import TlsModel.Resume
namespace Tls.Resume

theorem tryDecrypt_some {env : Env} {keys : List Nat} {n c : Bytes} {p : Payload}
    (h : tryDecrypt env keys n c = some p) : ∃ k ∈ keys, env.aeadOpen k n c = some p := by
  unfold tryDecrypt at h
  induction keys with
  | nil => simp at h
  | cons k r ih =>
    simp only [List.findSome?_cons] at h
    cases hk : env.aeadOpen k n c with
    | some q =>
      rw [hk] at h
      simp at h
      exact ⟨k, by simp, by rw [hk, h]⟩
    | none =>
      rw [hk] at h
      obtain ⟨k', hk', hp⟩ := ih h
      exact ⟨k', by simp [hk'], hp⟩

theorem checkSession_resume {st : SrvSettings} {h : Hello} {s s' : Sess}
    (hr : checkSession st h s' = .resume s) :
    s = s' ∧ s.resumable = true ∧ s.suite ∈ st.allowed ∧ s.suite ∈ h.suites ∧
    (h.srpUsername ≠ [] → s.srpUsername = h.srpUsername) ∧
    (h.serverName ≠ [] → s.serverName = h.serverName) ∧
    (s.etm = true → h.etm = true) ∧ s.ems = h.ems := by
  unfold checkSession at hr
  split at hr <;> try contradiction
  split at hr <;> try contradiction
  split at hr <;> try contradiction
  split at hr <;> try contradiction
  split at hr <;> try contradiction
  split at hr <;> try contradiction
  split at hr <;> try contradiction
  split at hr <;> try contradiction
  injection hr with hr
  subst hr
  simp_all
  rename_i h1 h2 h3 h4 h5 h6 h7 h8
  refine ⟨fun hh => ((h4 hh).2).symm, fun hh => ((h5 hh).2).symm, ?_⟩
  cases hs : s'.ems <;> cases hh : h.ems <;> simp_all

theorem checkSession_resume_intro {st : SrvSettings} {h : Hello} {s : Sess}
    (h1 : s.resumable = true) (h2 : s.suite ∈ st.allowed) (h3 : s.suite ∈ h.suites)
    (h4 : h.srpUsername = []) (h5 : h.serverName = [] ∨ (s.serverName = h.serverName))
    (h6 : s.etm = true → h.etm = true) (h7 : s.ems = h.ems) :
    checkSession st h s = .resume s := by
  unfold checkSession
  rcases h5 with h5 | h5 <;> cases hs : s.ems <;> cases hh : h.ems <;> cases he : s.etm <;> cases he' : h.etm <;> simp_all

theorem findSession_some {env : Env} {lookup : Bytes → Option Sess} {now : Nat} {st : SrvSettings}
    {h : Hello} {s : Sess} (hf : findSession env lookup now st h = some s) :
    (∃ t k p, h.ticket = some t ∧ t ≠ [] ∧ k ∈ st.ticketKeys ∧
        env.aeadOpen k (t.take 32) (t.drop 32) = some p ∧ ¬ (p.created + st.ticketLifetime < now) ∧
        s = (if h.sessionId.isEmpty then sessOfPayload p
             else { sessOfPayload p with sessionID := h.sessionId })) ∨
    (ticketNonEmpty h = false ∧ st.hasCache = true ∧ h.sessionId ≠ [] ∧
        lookup h.sessionId = some s ∧ valid s = true) := by
  unfold findSession at hf
  simp only at hf
  split at hf
  · -- cache path
    right
    rename_i hc
    simp only [Bool.and_eq_true, Bool.not_eq_true', Option.isNone_iff_eq_none] at hc
    obtain ⟨⟨⟨_, hne⟩, hcache⟩, hsid⟩ := hc
    unfold cacheGet at hf
    cases hl : lookup h.sessionId with
    | none => simp [hl] at hf
    | some s0 =>
      simp only [hl, Option.bind_some] at hf
      split at hf
      · injection hf with hf; subst hf
        exact ⟨hne, hcache, by simpa using hsid, rfl, by assumption⟩
      · contradiction
  · -- ticket path
    left
    unfold sessionFromTicket at hf
    cases ht : h.ticket with
    | none => simp [ht] at hf
    | some t =>
      simp only [ht, Option.map_eq_some_iff] at hf
      obtain ⟨s0, hs0, hs⟩ := hf
      unfold ticketToSession at hs0
      split at hs0
      · contradiction
      · rename_i hte
        split at hs0
        · contradiction
        · rename_i p hp
          split at hs0
          · contradiction
          · rename_i hexp
            injection hs0 with hs0
            obtain ⟨k, hk, hop⟩ := tryDecrypt_some hp
            refine ⟨t, k, p, rfl, ?_, hk, hop, hexp, ?_⟩
            · intro h0; simp [h0] at hte
            · rw [← hs, ← hs0]



/-- what "resumed through a ticket" means: the ticket opens under one of the CURRENT keys, is not
    older than the lifetime, and the session is exactly its contents (plus the echoed session id) -/
def ViaTicket (env : Env) (now : Nat) (st : SrvSettings) (h : Hello) (s : Sess) : Prop :=
  ∃ t k p, h.ticket = some t ∧ t ≠ [] ∧ k ∈ st.ticketKeys ∧
    env.aeadOpen k (t.take 32) (t.drop 32) = some p ∧ ¬ (p.created + st.ticketLifetime < now) ∧
    s = (if h.sessionId.isEmpty then sessOfPayload p else { sessOfPayload p with sessionID := h.sessionId })

/-- what "resumed through the session cache" means -/
def ViaCache (lookup : Bytes → Option Sess) (st : SrvSettings) (h : Hello) (s : Sess) : Prop :=
  ticketNonEmpty h = false ∧ st.hasCache = true ∧ h.sessionId ≠ [] ∧ lookup h.sessionId = some s ∧
    valid s = true

/-- the ClientHello is consistent with the session -/
def Consistent (st : SrvSettings) (h : Hello) (s : Sess) : Prop :=
  s.suite ∈ st.allowed ∧ s.suite ∈ h.suites ∧
  (h.srpUsername ≠ [] → s.srpUsername = h.srpUsername) ∧
  (h.serverName ≠ [] → s.serverName = h.serverName) ∧
  (s.etm = true → h.etm = true) ∧ s.ems = h.ems



theorem ticketToSession_none {env : Env} {st : SrvSettings} {now : Nat} {t : Bytes}
    (hbad : ∀ k ∈ st.ticketKeys, ∀ p, env.aeadOpen k (t.take 32) (t.drop 32) = some p →
      p.created + st.ticketLifetime < now) :
    ticketToSession env st now t = none := by
  unfold ticketToSession
  split
  · rfl
  · split
    · rfl
    · rename_i p hp
      obtain ⟨k, hk, hop⟩ := tryDecrypt_some hp
      simp [hbad k hk p hop]

theorem sessionFromTicket_none_of_empty {env : Env} {st : SrvSettings} {now : Nat} {h : Hello}
    (hn : ticketNonEmpty h = false) : sessionFromTicket env st now h = none := by
  unfold sessionFromTicket
  unfold ticketNonEmpty at hn
  cases ht : h.ticket with
  | none => rfl
  | some t =>
    simp only [ht] at hn
    have : t.isEmpty = true := by simpa using hn
    simp [ticketToSession, this]



theorem tryDecrypt13_some {env : Env} {keys : List Nat} {idn : Bytes} {p : Payload}
    (h : tryDecrypt13 env keys idn = some p) :
    33 ≤ idn.length ∧ ∃ k ∈ keys, env.aeadOpen k (idn.take 32) (idn.drop 32) = some p := by
  unfold tryDecrypt13 at h
  split at h
  · contradiction
  · exact ⟨by omega, tryDecrypt_some h⟩

/-- the identity a TLS 1.3 server resumes from -/
def TicketAccepted (env : Env) (st : SrvSettings) (now : Nat) (ver : Ver) (prf : Hash)
    (id : PskIdent) (p : Payload) : Prop :=
  st.pskConfigs.find? (fun c => c.identity == id.identity) = none ∧ 33 ≤ id.identity.length ∧
  (∃ k ∈ st.ticketKeys, env.aeadOpen k (id.identity.take 32) (id.identity.drop 32) = some p) ∧
  p.version = ver ∧ ¬ (p.created + st.ticketLifetime < now) ∧ prfOf env p.suite = prf ∧
  id.binder = some ⟨.resumption p.secret, prf, false⟩

theorem selectPskFrom_ticket {env : Env} {st : SrvSettings} {now : Nat} {ver : Ver} {prf : Hash}
    {ids : List PskIdent} {i0 i : Nat} {p : Payload}
    (h : selectPskFrom env st now ver prf ids i0 = .selected i (some p)) :
    ∃ id, i0 ≤ i ∧ ids[i - i0]? = some id ∧ TicketAccepted env st now ver prf id p := by
  induction ids generalizing i0 with
  | nil => simp [selectPskFrom] at h
  | cons id rest ih =>
    unfold selectPskFrom at h
    split at h
    · -- external configuration matches this identity
      split at h
      · obtain ⟨id', hle, hget, hacc⟩ := ih h
        refine ⟨id', by omega, ?_, hacc⟩
        have : i - i0 = (i - (i0 + 1)) + 1 := by omega
        rw [this]; simpa using hget
      · split at h
        · injection h with _ h2; contradiction
        · contradiction
    · rename_i hnone
      split at h
      · obtain ⟨id', hle, hget, hacc⟩ := ih h
        refine ⟨id', by omega, ?_, hacc⟩
        have : i - i0 = (i - (i0 + 1)) + 1 := by omega
        rw [this]; simpa using hget
      · rename_i p' hp'
        have hrec : selectPskFrom env st now ver prf rest (i0 + 1) = .selected i (some p) →
            ∃ id', i0 ≤ i ∧ (id :: rest)[i - i0]? = some id' ∧ TicketAccepted env st now ver prf id' p := by
          intro hj
          obtain ⟨id', hle, hget, hacc⟩ := ih hj
          refine ⟨id', by omega, ?_, hacc⟩
          have : i - i0 = (i - (i0 + 1)) + 1 := by omega
          rw [this]; simpa using hget
        split at h
        · exact hrec h
        · rename_i hver
          split at h
          · exact hrec h
          · rename_i hexp
            split at h
            · exact hrec h
            · rename_i hprf
              split at h
              · rename_i hb
                injection h with h1 h2
                injection h2 with h2
                subst h1; subst h2
                obtain ⟨hlen, hk⟩ := tryDecrypt13_some hp'
                have hv : p'.version = ver := by
                  have := hver; simp at this; exact this.symm
                have hprf' : prfOf env p'.suite = prf := by simpa using hprf
                refine ⟨id, Nat.le_refl _, by simp, hnone, hlen, hk, hv, hexp, hprf', ?_⟩
                rw [← hprf']; simpa using hb
              · contradiction




/-! ### heaps: objects keep their index and `resumable` is never switched back on -/

def Ext {α : Type} (res : α → Bool) (h h' : List α) : Prop :=
  ∀ (i : Nat) (s : α), h[i]? = some s → ∃ s' : α, h'[i]? = some s' ∧ (res s' = true → res s = true)

theorem Ext.refl {α : Type} (res : α → Bool) (h : List α) : Ext res h h :=
  fun _ s hs => ⟨s, hs, id⟩

theorem Ext.trans {α : Type} {res : α → Bool} {a b c : List α} (h1 : Ext res a b) (h2 : Ext res b c) :
    Ext res a c := by
  intro i s hs
  obtain ⟨s', hs', hr'⟩ := h1 i s hs
  obtain ⟨s'', hs'', hr''⟩ := h2 i s' hs'
  exact ⟨s'', hs'', fun h => hr' (hr'' h)⟩

theorem Ext.append {α : Type} (res : α → Bool) (h l : List α) : Ext res h (h ++ l) := by
  intro i s hs
  refine ⟨s, ?_, id⟩
  have hi : i < h.length := by
    rcases Nat.lt_or_ge i h.length with hlt | hge
    · exact hlt
    · rw [List.getElem?_eq_none hge] at hs; contradiction
  rw [List.getElem?_append_left hi]; exact hs

theorem modifyAt_getElem? {α : Type} (l : List α) (j : Nat) (f : α → α) (i : Nat) :
    (modifyAt l j f)[i]? = if i = j then l[i]?.map f else l[i]? := by
  induction l generalizing i j with
  | nil => simp [modifyAt]
  | cons a r ih =>
    cases j with
    | zero =>
      cases i with
      | zero => simp [modifyAt]
      | succ i => simp [modifyAt]
    | succ j =>
      cases i with
      | zero => simp [modifyAt]
      | succ i => simp [modifyAt, ih]

theorem modifyAt_length {α : Type} (l : List α) (j : Nat) (f : α → α) :
    (modifyAt l j f).length = l.length := by
  induction l generalizing j with
  | nil => simp [modifyAt]
  | cons a r ih => cases j <;> simp [modifyAt, ih]

theorem Ext.modify {α : Type} (res : α → Bool) (h : List α) (j : Nat) (f : α → α)
    (hf : ∀ s, h[j]? = some s → res (f s) = true → res s = true) : Ext res h (modifyAt h j f) := by
  intro i s hs
  rw [modifyAt_getElem?]
  split
  · rename_i hij
    subst hij
    exact ⟨f s, by simp [hs], hf s hs⟩
  · exact ⟨s, hs, id⟩

theorem Sess.shutdown_resumable (s : Sess) (r : Bool) :
    (s.shutdown r).resumable = true → s.resumable = true := by
  unfold Sess.shutdown; split <;> simp

theorem CSess.shutdown_resumable (s : CSess) (r : Bool) :
    (s.shutdown r).resumable = true → s.resumable = true := by
  unfold CSess.shutdown; split <;> simp




theorem clientPrepare_some {s s' : CSess} {srp sni : Bytes}
    (h : clientPrepare (some s) srp sni = some (some s')) : s' = s ∧ cvalid s = true := by
  unfold clientPrepare at h
  simp only at h
  split at h
  · injection h with h; contradiction
  · rename_i hv
    split at h
    · split at h
      · contradiction
      · split at h
        · contradiction
        · injection h with h; injection h with h; exact ⟨h.symm, by simpa using hv⟩
    · injection h with h; injection h with h; exact ⟨h.symm, by simpa using hv⟩

theorem clientPrepare_invalid {s : CSess} {srp sni : Bytes} (h : s.resumable = false) :
    clientPrepare (some s) srp sni = some none := by
  unfold clientPrepare
  simp [cvalid, h]

theorem clientPrepare_none {srp sni : Bytes} : clientPrepare none srp sni = some none := rfl

theorem pruneSess10_resumable (now : Nat) (s : CSess) : (pruneSess10 now s).resumable = s.resumable := by
  unfold pruneSess10; split <;> rfl

theorem pruneSess13_resumable (now : Nat) (s : CSess) : (pruneSess13 now s).resumable = s.resumable := by
  unfold pruneSess13; split <;> rfl

theorem clientSession_none (cs : CliSettings) (now : Nat) : clientSession cs none now = none := by
  unfold clientSession; simp

theorem clientSession_some (cs : CliSettings) (s : CSess) (now : Nat) :
    ∃ s', clientSession cs (some s) now = some s' ∧ s'.resumable = s.resumable := by
  unfold clientSession
  simp only [Option.map_some]
  split
  · exact ⟨_, rfl, by rw [pruneSess13_resumable, pruneSess10_resumable]⟩
  · exact ⟨_, rfl, pruneSess10_resumable now s⟩

theorem clientHello_fst {sha : List Nat} {cs : CliSettings} {sess : Option CSess} {srp sni : Bytes}
    {now : Nat} {fsid : Bytes} {r : Option CSess} {h : Hello}
    (hh : clientHello sha cs sess srp sni now fsid = some (r, h)) :
    r = clientSession cs sess now ∧ helloOf sha cs r srp sni fsid = some h := by
  unfold clientHello at hh
  simp only [Option.map_eq_some_iff] at hh
  obtain ⟨h', hh', heq⟩ := hh
  injection heq with h1 h2
  subst h1; subst h2
  exact ⟨rfl, hh'⟩

/-- without a session the ClientHello offers nothing to resume: no ticket, no resumption PSK -/
theorem helloOf_none_offers_nothing {sha : List Nat} {cs : CliSettings} {srp sni fsid : Bytes} {h : Hello}
    (hh : helloOf sha cs none srp sni fsid = some h) :
    ticketNonEmpty h = false ∧ (h.sessionId = fsid ∨ h.sessionId = []) ∧
    (∀ ids, h.psk = some ids → ∀ id ∈ ids, ∃ c ∈ cs.pskConfigs, id.identity = c.identity ∧
        id.binder = some ⟨.external c.psk, c.hash, true⟩) := by
  unfold helloOf at hh
  simp only at hh
  injection hh with hh
  subst hh
  refine ⟨?_, ?_, ?_⟩
  · unfold ticketNonEmpty; simp only; split <;> simp_all
  · simp only; split <;> simp
  · intro ids hids id hid
    simp only [List.nil_append] at hids
    split at hids
    · injection hids with hids
      subst hids
      simp only [List.mem_map, List.mem_filter] at hid
      obtain ⟨c, ⟨hc, _⟩, hcid⟩ := hid
      exact ⟨c, hc, by rw [← hcid], by rw [← hcid]⟩
    · contradiction




@[simp] theorem issueTickets_sheap (w : World) (a : HsArgs) (p : Payload) (n : Nat) :
    (issueTickets w a p n).sheap = w.sheap := by
  unfold issueTickets; split <;> rfl

@[simp] theorem issueTickets_cheap (w : World) (a : HsArgs) (p : Payload) (n : Nat) :
    (issueTickets w a p n).cheap = w.cheap := by
  unfold issueTickets; split <;> rfl

@[simp] theorem purgeCache_sheap (w : World) (srv : Nat) : (w.purgeCache srv).sheap = w.sheap := rfl
@[simp] theorem purgeCache_cheap (w : World) (srv : Nat) : (w.purgeCache srv).cheap = w.cheap := rfl
@[simp] theorem cacheSet_sheap (w : World) (srv : Nat) (id : Bytes) (i : Option Nat) :
    (w.cacheSet srv id i).sheap = w.sheap := rfl
@[simp] theorem cacheSet_cheap (w : World) (srv : Nat) (id : Bytes) (i : Option Nat) :
    (w.cacheSet srv id i).cheap = w.cheap := rfl

theorem commit13_sheap (w1 : World) (a : HsArgs) (h0 h : Hello) (dec : Decision) (out : Outcome) :
    ∃ l, (commit13 w1 a h0 h dec out).1.sheap = w1.sheap ++ l := by
  unfold commit13
  simp only
  split
  · exact ⟨_, by first | (simp; rfl) | simp⟩
  · exact ⟨[], by simp⟩

theorem commit13_cheap (w1 : World) (a : HsArgs) (h0 h : Hello) (dec : Decision) (out : Outcome) :
    ∃ l, (commit13 w1 a h0 h dec out).1.cheap = w1.cheap ++ l := by
  unfold commit13
  simp only
  split
  · exact ⟨_, by first | (simp; rfl) | simp⟩
  · exact ⟨[], by simp⟩

theorem commit12_sheap (w1 : World) (a : HsArgs) (s1 : Option CSess) (h0 h : Hello) (vc : Bool)
    (dec : Decision) (out : Outcome) :
    ∃ l, (commit12 w1 a s1 h0 h vc dec out).1.sheap = w1.sheap ++ l := by
  unfold commit12
  simp only
  split
  · split
    · split
      · exact ⟨[], by simp⟩
      · exact ⟨_, rfl⟩
    · split <;> exact ⟨_, by first | (simp; rfl) | simp⟩
  · exact ⟨[], by simp⟩

theorem commit12_cheap (w1 : World) (a : HsArgs) (s1 : Option CSess) (h0 h : Hello) (vc : Bool)
    (dec : Decision) (out : Outcome) :
    ∃ l, (commit12 w1 a s1 h0 h vc dec out).1.cheap = w1.cheap ++ l := by
  unfold commit12
  simp only
  split
  · split
    · split
      · exact ⟨[], by simp⟩
      · exact ⟨[], by simp⟩
    · split <;> exact ⟨_, by first | (simp; rfl) | simp⟩
  · exact ⟨[], by simp⟩

@[simp] theorem prune_sheap (w : World) (o : Option Nat) (s : Option CSess) : (w.prune o s).sheap = w.sheap := by
  unfold World.prune; split <;> rfl

theorem stepHs_sheap (w : World) (a : HsArgs) : ∃ l, (stepHs w a).1.sheap = w.sheap ++ l := by
  unfold stepHs
  split
  · exact ⟨[], by simp⟩
  · split
    · exact ⟨[], by simp⟩
    · simp only
      split
      · obtain ⟨l, hl⟩ := commit13_sheap (w.prune a.offer _) a _ _ _ _
        exact ⟨l, by rw [hl]; simp⟩
      · rename_i sess1 h0 _ _
        split
        · obtain ⟨l, hl⟩ := commit12_sheap ((w.prune a.offer sess1).purgeCache a.srv) a sess1 h0 _ _ _ _
          exact ⟨l, by rw [hl]; simp⟩
        · obtain ⟨l, hl⟩ := commit12_sheap (w.prune a.offer sess1) a sess1 h0 _ _ _ _
          exact ⟨l, by rw [hl]; simp⟩




theorem prune_cheap_ext (w : World) (a : HsArgs) {sess0 sess1 : Option CSess} {h0 : Hello}
    (hprep : clientPrepare (a.offer.bind (w.cheap[·]?)) a.srp a.sni = some sess0)
    (hh : clientHello a.sha384 a.cs sess0 a.srp a.sni w.nowC a.freshSid = some (sess1, h0)) :
    Ext CSess.resumable w.cheap (w.prune a.offer sess1).cheap := by
  unfold World.prune
  split
  · rename_i _ _ j s hoff
    apply Ext.modify
    intro s0 hs0 hr
    have hs1 := (clientHello_fst hh).1
    rw [hoff] at hprep
    simp only [Option.bind_some, hs0] at hprep
    cases sess0 with
    | none => rw [clientSession_none] at hs1; contradiction
    | some s0' =>
      have := (clientPrepare_some hprep).1
      subst this
      obtain ⟨s', hs', hres⟩ := clientSession_some a.cs s0' w.nowC
      rw [hs'] at hs1
      injection hs1 with hs1
      subst hs1
      rw [← hres]; exact hr
  · exact Ext.refl _ _

theorem stepHs_cheap_ext (w : World) (a : HsArgs) : Ext CSess.resumable w.cheap (stepHs w a).1.cheap := by
  unfold stepHs
  split
  · exact Ext.refl _ _
  · rename_i sess0 hprep
    split
    · exact Ext.refl _ _
    · rename_i sess1 h0 hh
      have hp := prune_cheap_ext w a hprep hh
      simp only
      split
      · obtain ⟨l, hl⟩ := commit13_cheap (w.prune a.offer sess1) a h0 (a.edits.foldl applyEdit h0) _ _
        rw [hl]; exact hp.trans (Ext.append _ _ _)
      · split
        · obtain ⟨l, hl⟩ := commit12_cheap ((w.prune a.offer sess1).purgeCache a.srv) a sess1 h0 (a.edits.foldl applyEdit h0) _ _ _
          rw [hl]; exact hp.trans (Ext.append _ _ _)
        · obtain ⟨l, hl⟩ := commit12_cheap (w.prune a.offer sess1) a sess1 h0 (a.edits.foldl applyEdit h0) _ _ _
          rw [hl]; exact hp.trans (Ext.append _ _ _)

theorem stepClose_sheap_ext (w : World) (k : Nat) (ck : CloseKind) :
    Ext Sess.resumable w.sheap (stepClose w k ck).sheap := by
  unfold stepClose
  split
  · exact Ext.refl _ _
  · split <;> split <;> first
      | exact Ext.refl _ _
      | exact Ext.modify _ _ _ _ (fun s _ => Sess.shutdown_resumable s _)

theorem stepClose_cheap_ext (w : World) (k : Nat) (ck : CloseKind) :
    Ext CSess.resumable w.cheap (stepClose w k ck).cheap := by
  unfold stepClose
  split
  · exact Ext.refl _ _
  · split <;> split <;> first
      | exact Ext.refl _ _
      | exact Ext.modify _ _ _ _ (fun s _ => CSess.shutdown_resumable s _)

theorem cacheFill_heaps (srv : Nat) (ids : List Bytes) (w : World) :
    (ids.foldl (fun w id => w.cacheSet srv id none) w).sheap = w.sheap ∧
    (ids.foldl (fun w id => w.cacheSet srv id none) w).cheap = w.cheap := by
  induction ids generalizing w with
  | nil => exact ⟨rfl, rfl⟩
  | cons id r ih => simp only [List.foldl_cons]; exact ih _

theorem tamperSess_resumable (s : CSess) (b : Bytes) : (tamperSess s b).resumable = s.resumable := by
  unfold tamperSess; split <;> rfl

theorem step_sheap_ext (w : World) (op : Op) : Ext Sess.resumable w.sheap (step w op).sheap := by
  cases op with
  | hs a => obtain ⟨l, hl⟩ := stepHs_sheap w a; simp only [step]; rw [hl]; exact Ext.append _ _ _
  | close k ck => exact stepClose_sheap_ext w k ck
  | tick c dt => cases c <;> exact Ext.refl _ _
  | newServer c =>
    cases c with
    | none => exact Ext.refl _ _
    | some p => exact Ext.refl _ _
  | cacheFill srv ids => simp only [step]; rw [(cacheFill_heaps srv ids w).1]; exact Ext.refl _ _
  | tamper j b => exact Ext.refl _ _

theorem step_cheap_ext (w : World) (op : Op) : Ext CSess.resumable w.cheap (step w op).cheap := by
  cases op with
  | hs a => exact stepHs_cheap_ext w a
  | close k ck => exact stepClose_cheap_ext w k ck
  | tick c dt => cases c <;> exact Ext.refl _ _
  | newServer c =>
    cases c with
    | none => exact Ext.refl _ _
    | some p => exact Ext.refl _ _
  | cacheFill srv ids => simp only [step]; rw [(cacheFill_heaps srv ids w).2]; exact Ext.refl _ _
  | tamper j b =>
    exact Ext.modify _ _ _ _ (fun s _ h => by rw [tamperSess_resumable] at h; exact h)

theorem run_sheap_ext (w : World) (ops : List Op) : Ext Sess.resumable w.sheap (run w ops).sheap := by
  induction ops generalizing w with
  | nil => exact Ext.refl _ _
  | cons op r ih => exact (step_sheap_ext w op).trans (ih (step w op))

theorem run_cheap_ext (w : World) (ops : List Op) : Ext CSess.resumable w.cheap (run w ops).cheap := by
  induction ops generalizing w with
  | nil => exact Ext.refl _ _
  | cons op r ih => exact (step_cheap_ext w op).trans (ih (step w op))




theorem lookup_eq_bind (w : World) (srv : Nat) (id : Bytes) :
    w.lookup srv id = (w.lookupIdx srv id).bind (fun i => w.sheap[i]?) := by
  unfold World.lookup World.lookupIdx
  split
  · rename_i c _
    cases hf : (c.purge w.nowS).find id with
    | none => simp
    | some o => cases o <;> simp
  · simp

theorem stepClose_serverFatal (w0 : World) (k : Nat) (c : ConnRec) (i : Nat) (ck : CloseKind)
    (hk : w0.conns[k]? = some c) (hs : c.sobj = some i) (hf : ck.serverFatal = true) :
    ∀ s, (stepClose w0 k ck).sheap[i]? = some s → s.resumable = false := by
  intro s hget
  unfold stepClose at hget
  simp only [hk, hs, hf] at hget
  split at hget <;>
  · simp only [modifyAt_getElem?, if_true, Option.map_eq_some_iff] at hget
    obtain ⟨s0, _, hs0⟩ := hget
    rw [← hs0]; simp [Sess.shutdown]

theorem stepClose_clientFatal (w0 : World) (k : Nat) (c : ConnRec) (j : Nat) (ck : CloseKind)
    (hk : w0.conns[k]? = some c) (hs : c.cobj = some j) (hf : ck.clientFatal = true) :
    ∀ s, (stepClose w0 k ck).cheap[j]? = some s → s.resumable = false := by
  intro s hget
  unfold stepClose at hget
  simp only [hk, hs, hf] at hget
  split at hget <;>
  · simp only [modifyAt_getElem?, if_true, Option.map_eq_some_iff] at hget
    obtain ⟨s0, _, hs0⟩ := hget
    rw [← hs0]; simp [CSess.shutdown]


theorem selectPskFrom_external {env : Env} {st : SrvSettings} {now : Nat} {ver : Ver} {prf : Hash}
    {ids : List PskIdent} {i0 i : Nat}
    (h : selectPskFrom env st now ver prf ids i0 = .selected i none) :
    ∃ id, i0 ≤ i ∧ ids[i - i0]? = some id ∧
      (st.pskConfigs.find? (fun c => c.identity == id.identity)).isSome = true := by
  induction ids generalizing i0 with
  | nil => simp [selectPskFrom] at h
  | cons id rest ih =>
    have hrec : selectPskFrom env st now ver prf rest (i0 + 1) = .selected i none →
        ∃ id', i0 ≤ i ∧ (id :: rest)[i - i0]? = some id' ∧
          (st.pskConfigs.find? (fun c => c.identity == id'.identity)).isSome = true := by
      intro hj
      obtain ⟨id', hle, hget, hacc⟩ := ih hj
      refine ⟨id', by omega, ?_, hacc⟩
      have : i - i0 = (i - (i0 + 1)) + 1 := by omega
      rw [this]; simpa using hget
    unfold selectPskFrom at h
    split at h
    · rename_i c hc
      split at h
      · exact hrec h
      · split at h
        · injection h with h1 _
          subst h1
          exact ⟨id, Nat.le_refl _, by simp, by simp [hc]⟩
        · contradiction
    · split at h
      · exact hrec h
      · split at h
        · exact hrec h
        · split at h
          · exact hrec h
          · split at h
            · exact hrec h
            · split at h
              · injection h with _ h2; contradiction
              · contradiction


theorem serverResume12_resume_cond (env : Env) (lookup : Bytes → Option Sess) (now : Nat)
    (st : SrvSettings) (h : Hello) (s : Sess)
    (hc : ∀ id s, lookup id = some s → s.completed = true)
    (hp : ∀ k n c p, env.aeadOpen k n c = some p → p.completed = true)
    (hr : serverResume12 env lookup now st h = .resume s) :
    s.completed = true ∧ s.resumable = true ∧
    (ViaTicket env now st h s ∨ ViaCache lookup st h s) ∧ Consistent st h s := by
  unfold serverResume12 at hr
  split at hr
  · split at hr
    · contradiction
    · rename_i s' hf
      obtain ⟨hs, hres, hcons⟩ := checkSession_resume hr
      subst hs
      have hvia := findSession_some hf
      refine ⟨?_, hres, hvia, hcons⟩
      rcases hvia with ⟨t, k, p, _, _, _, hop, _, hs⟩ | ⟨_, _, _, hl, _⟩
      · have := hp _ _ _ _ hop
        rw [hs]; split <;> simp [sessOfPayload, this]
      · exact hc _ _ hl
  · contradiction


end Tls.Resume
