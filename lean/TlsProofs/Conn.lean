import TlsModel.Conn
/-
  Invariants of the connection model and their preservation by every operation.
-/
namespace Tls.Conn

/-- by how much processing `m` advances the reader's generation -/
def bump : Msg → Nat
  | .keyUpdate _ => 1
  | _ => 0

def payload : Msg → Bytes
  | .appData d => d
  | _ => []

/-- every record in flight carries the generation its reader will hold on reaching it -/
def Flight : Nat → List Rec → Prop
  | _, [] => True
  | g, r :: rest => r.gen = g ∧ Flight (g + bump r.msg) rest

/-- the reader's generation after the records in flight -/
def finalGen : Nat → List Rec → Nat
  | g, [] => g
  | g, r :: rest => finalGen (g + bump r.msg) rest

/-- application bytes in flight -/
def appBytes : List Rec → Bytes
  | [] => []
  | r :: rest => payload r.msg ++ appBytes rest

theorem flight_append (g : Nat) (xs ys : List Rec) :
    Flight g (xs ++ ys) ↔ Flight g xs ∧ Flight (finalGen g xs) ys := by
  induction xs generalizing g with
  | nil => simp [Flight, finalGen]
  | cons r rest ih => simp [Flight, finalGen, ih, and_assoc]

theorem finalGen_append (g : Nat) (xs ys : List Rec) :
    finalGen g (xs ++ ys) = finalGen (finalGen g xs) ys := by
  induction xs generalizing g with
  | nil => simp [finalGen]
  | cons r rest ih => simp [finalGen, ih]

theorem appBytes_append (xs ys : List Rec) : appBytes (xs ++ ys) = appBytes xs ++ appBytes ys := by
  induction xs with
  | nil => simp [appBytes]
  | cons r rest ih => simp [appBytes, ih]

/-- keys in step for the direction writer `W` → reader `R` over channel records `ch` -/
def DirInv (W R : End) (ch : List Rec) : Prop :=
  R.closed = true ∨ (Flight R.readGen ch ∧ (W.closed = true ∨ finalGen R.readGen ch = W.writeGen))

/-- exact in-order delivery for the direction `W` → `R` -/
def Fifo (W R : End) (ch : List Rec) : Prop :=
  R.closing = true ∨
  ∃ rest, R.got ++ R.readBuf ++ rest = W.wrote ∧ (R.closed = false → rest = appBytes ch)

/-- transport a `Fifo` fact to changed components -/
theorem fifo_map {W R W' R' : End} {ch ch' : List Rec} (h : Fifo W R ch) (hcl : R'.closing = R.closing)
    (f : ∀ rest, R.got ++ R.readBuf ++ rest = W.wrote → (R.closed = false → rest = appBytes ch) →
      ∃ rest', R'.got ++ R'.readBuf ++ rest' = W'.wrote ∧ (R'.closed = false → rest' = appBytes ch')) :
    Fifo W' R' ch' := by
  rcases h with h | ⟨rest, h1, h2⟩
  · exact Or.inl (by rw [hcl]; exact h)
  · exact Or.inr (f rest h1 h2)

end Tls.Conn

namespace Tls.Conn

/-- the invariants as seen from one endpoint (peer `P` fixed), with `pend` = records taken from the
    incoming channel whose effect on the endpoint is still outstanding -/
structure LInvP (P : End) (pend : List Rec) (l : Local) : Prop where
  inKeys : DirInv P l.me (pend ++ l.inc.recs)
  inFifo : Fifo P l.me (pend ++ l.inc.recs)
  outKeys : DirInv l.me P l.out.recs
  outFifo : Fifo l.me P l.out.recs
  tx : l.me.txDead = false

abbrev LInv (P : End) (l : Local) : Prop := LInvP P [] l

/-- effect of having sent `m` on the sender's observers -/
def advance (m : Msg) (l : Local) : Local :=
  { l with me := { l.me with wrote := l.me.wrote ++ payload m, writeGen := l.me.writeGen + bump m } }

/-- a closed endpoint satisfies the incoming half whatever is in flight -/
theorem linv_of_closed {P : End} {pend pend' : List Rec} {l l' : Local}
    (h : LInvP P pend l) (hc : l'.me.closed = true) (hcl : l'.me.closing = l.me.closing)
    (hgot : l'.me.got = l.me.got) (hbuf : l'.me.readBuf = l.me.readBuf)
    (hout : l'.out.recs = l.out.recs) (hw : l'.me.wrote = l.me.wrote) (htx : l'.me.txDead = false) :
    LInvP P pend' l' := by
  refine ⟨Or.inl hc, ?_, ?_, ?_, htx⟩
  · refine fifo_map h.inFifo hcl ?_
    intro rest h1 _
    refine ⟨rest, by rw [hgot, hbuf]; exact h1, ?_⟩
    intro hc'; rw [hc] at hc'; cases hc'
  · rw [hout]
    rcases h.outKeys with hp | ⟨hf, _⟩
    · exact Or.inl hp
    · exact Or.inr ⟨hf, Or.inl hc⟩
  · rw [hout]
    refine fifo_map h.outFifo rfl ?_
    intro rest h1 h2
    exact ⟨rest, by rw [hw]; exact h1, h2⟩

/-- the invariants only look at these fields -/
theorem linv_congr {P : End} {pend : List Rec} {l l' : Local} (h : LInvP P pend l)
    (h1 : l'.me.closed = l.me.closed) (h2 : l'.me.closing = l.me.closing)
    (h3 : l'.me.readGen = l.me.readGen) (h4 : l'.me.writeGen = l.me.writeGen)
    (h5 : l'.me.readBuf = l.me.readBuf) (h6 : l'.me.got = l.me.got) (h7 : l'.me.wrote = l.me.wrote)
    (h8 : l'.me.txDead = l.me.txDead) (h9 : l'.inc.recs = l.inc.recs) (h10 : l'.out.recs = l.out.recs) :
    LInvP P pend l' := by
  refine ⟨?_, ?_, ?_, ?_, ?_⟩
  · simpa [DirInv, h1, h3, h9] using h.inKeys
  · refine fifo_map h.inFifo h2 ?_
    intro rest a b
    exact ⟨rest, by rw [h5, h6]; exact a, by rw [h1, h9]; exact b⟩
  · simpa [DirInv, h1, h4, h10] using h.outKeys
  · refine fifo_map h.outFifo rfl ?_
    intro rest a b
    exact ⟨rest, by rw [h7]; exact a, by rw [h10]; exact b⟩
  · rw [h8]; exact h.tx

theorem shutdown_inv {P : End} {pend pend' : List Rec} {l : Local} (r : Bool) (h : LInvP P pend l) :
    LInvP P pend' (shutdown r l) := by
  apply linv_of_closed h <;> simp [shutdown, h.tx]
  split <;> rfl

theorem sendRaw_inv {P : End} {pend : List Rec} {l l1 : Local} {m : Msg}
    (hs : sendRaw m l = some l1) (h : LInvP P pend l) : LInvP P pend (advance m l1) := by
  unfold sendRaw at hs
  split at hs
  · cases hs
  · rename_i hc
    simp at hc
    cases hs
    refine ⟨?_, ?_, ?_, ?_, ?_⟩
    · simpa [advance, DirInv] using h.inKeys
    · exact fifo_map h.inFifo rfl (fun rest h1 h2 => ⟨rest, h1, h2⟩)
    · simp only [advance, DirInv]
      rcases h.outKeys with hp | ⟨hf, hw⟩
      · exact Or.inl hp
      · rcases hw with hw | hw
        · rw [hc.2] at hw; cases hw
        · refine Or.inr ⟨?_, Or.inr ?_⟩
          · rw [flight_append]; exact ⟨hf, by simp [Flight, hw]⟩
          · rw [finalGen_append]; simp [finalGen, hw]
    · refine fifo_map h.outFifo rfl ?_
      intro rest h1 h2
      refine ⟨rest ++ payload m, by simp only [advance]; rw [← h1]; simp [List.append_assoc], ?_⟩
      intro a
      simp only [advance]
      rw [appBytes_append, h2 a]; simp [appBytes]
    · simpa [advance] using h.tx

theorem advance_harmless {m : Msg} (hb : bump m = 0) (hp : payload m = []) (l : Local) : advance m l = l := by
  simp [advance, hb, hp]

theorem sendRaw_harmless {P : End} {pend : List Rec} {l l1 : Local} {m : Msg}
    (hb : bump m = 0) (hp : payload m = []) (hs : sendRaw m l = some l1) (h : LInvP P pend l) :
    LInvP P pend l1 := by
  have := sendRaw_inv hs h
  rwa [advance_harmless hb hp] at this

theorem sendRaw_closed {m : Msg} {l l1 : Local} (hs : sendRaw m l = some l1) :
    l.me.closed = false ∧ l1.me = l.me ∧ l1.inc = l.inc := by
  unfold sendRaw at hs
  split at hs
  · cases hs
  · rename_i hc; simp at hc; cases hs; exact ⟨hc.2, rfl, rfl⟩

theorem sendRaw_none_closed {P : End} {pend : List Rec} {m : Msg} {l : Local} (h : LInvP P pend l)
    (hs : sendRaw m l = none) : l.me.closed = true := by
  unfold sendRaw at hs
  split at hs
  · rename_i hc; simpa [h.tx] using hc
  · cases hs

/-- dropping outstanding records is harmless for a closed endpoint -/
theorem pend_closed {P : End} {pend pend' : List Rec} {l : Local} (h : LInvP P pend l)
    (hc : l.me.closed = true) : LInvP P pend' l :=
  linv_of_closed h hc rfl rfl rfl rfl rfl h.tx

/-- `sendError` always leaves the invariants: either the alert goes out and the endpoint closes, or
    the endpoint was closed already -/
theorem sendError_inv {α : Type} {P : End} {pend pend' : List Rec} {l : Local} (d : Nat)
    (h : LInvP P pend l) : LInvP P pend' ((sendError (α := α) d l).2) := by
  unfold sendError
  split
  · rename_i l1 hs
    exact shutdown_inv false (sendRaw_harmless rfl rfl hs h)
  · rename_i hs
    exact pend_closed h (sendRaw_none_closed h hs)

theorem sendError_res {α : Type} (d : Nat) (l : Local) :
    (∃ e, (sendError (α := α) d l).1 = .err e) := by
  unfold sendError
  split <;> simp

/-- a harmless outstanding record can be forgotten -/
theorem pend_harmless {P : End} {l : Local} {m : Msg} {g : Nat} (hb : bump m = 0) (hp : payload m = [])
    (h : LInvP P [⟨g, m⟩] l) : LInv P l := by
  refine ⟨?_, ?_, h.outKeys, h.outFifo, h.tx⟩
  · rcases h.inKeys with hc | ⟨hf, hw⟩
    · exact Or.inl hc
    · simp [Flight, finalGen, hb] at hf hw
      exact Or.inr ⟨hf.2, hw⟩
  · refine fifo_map h.inFifo rfl ?_
    intro rest h1 h2
    refine ⟨rest, h1, ?_⟩
    intro a; simpa [appBytes, hp] using h2 a

theorem pend_harmless' {P : End} {l : Local} {m : Msg} {g : Nat} (hb : bump m = 0) (hp : payload m = [])
    (hg : g = l.me.readGen) (h : LInv P l) : LInvP P [⟨g, m⟩] l := by
  refine ⟨?_, ?_, h.outKeys, h.outFifo, h.tx⟩
  · rcases h.inKeys with hc | ⟨hf, hw⟩
    · exact Or.inl hc
    · simp at hf hw
      refine Or.inr ⟨?_, ?_⟩
      · simp [Flight, hb, hg, hf]
      · simpa [finalGen, hb, hg] using hw
  · refine fifo_map h.inFifo rfl ?_
    intro rest h1 h2
    refine ⟨rest, h1, ?_⟩
    intro a; simpa [appBytes, hp] using h2 a

/-- taking the head record off the incoming channel -/
theorem pop_inv {P : End} {l : Local} {r : Rec} {rest : List Rec} (h : LInv P l)
    (hr : l.inc.recs = r :: rest) :
    LInvP P [r] { l with inc := { l.inc with recs := rest } } := by
  refine ⟨?_, ?_, h.outKeys, h.outFifo, h.tx⟩
  · have := h.inKeys; simp [hr] at this; simpa using this
  · have := h.inFifo; simp [hr] at this; simpa using this

/-- postcondition shape: `Q` on a normal result, the plain invariants on stall / exception -/
def Post {α : Type} (P : End) (Q : α → Local → Prop) : Res α × Local → Prop
  | (.ok a, l') => Q a l'
  | (.stall, l') => LInv P l'
  | (.err _, l') => LInv P l'

theorem sendError_post {α : Type} {P : End} {pend : List Rec} {l : Local} (d : Nat)
    (Q : α → Local → Prop) (h : LInvP P pend l) : Post P Q (sendError (α := α) d l) := by
  have h2 := sendError_inv (α := α) (pend' := []) d h
  unfold sendError at h2 ⊢
  split <;> simp_all [Post]

/-- the message just taken from the channel, with its effect outstanding -/
def Pending (P : End) (m : Msg) (l : Local) : Prop := LInvP P [⟨l.me.readGen, m⟩] l

/-- `nextRecord`: a message comes out with its effect outstanding; otherwise the invariants hold -/
theorem nextRecord_post {P : End} {l : Local} (h : LInv P l) : Post P (Pending P) (nextRecord l) := by
  unfold nextRecord
  split
  · split
    · exact h
    · split <;> exact h
  · rename_i r rest hr
    have hp := pop_inv h hr
    simp only []
    split
    · exact sendError_post 20 _ hp
    · rename_i hg
      have hg' : r.gen = l.me.readGen := by simpa using hg
      have hp' : LInvP P [⟨l.me.readGen, r.msg⟩] { l with inc := { l.inc with recs := rest } } := by
        rw [← hg']; exact hp
      split
      · exact sendError_post 10 _ hp
      · exact sendError_post 10 _ hp
      · exact hp'

theorem sendRaw_getD_inv {P : End} {pend : List Rec} {l : Local} {m : Msg}
    (hb : bump m = 0) (hp : payload m = []) (h : LInvP P pend l) : LInvP P pend ((sendRaw m l).getD l) := by
  cases hs : sendRaw m l with
  | none => simpa using h
  | some l1 => simpa using sendRaw_harmless hb hp hs h

theorem harmless_of_ct {m : Msg} (h : m.ct ≠ 23) (h2 : m.ct = 22 → m.hsType ≠ 24) :
    bump m = 0 ∧ payload m = [] := by
  cases m <;> simp_all [Msg.ct, Msg.hsType, bump, payload]

/-- postcondition of one `_getMsg` round -/
def StepQ (P : End) : Step → Local → Prop
  | .again, l' => LInv P l'
  | .got m, l' => Pending P m l'

theorem getMsgStep_post {P : End} {l : Local} (e s : List Nat) (h : LInv P l) :
    Post P (StepQ P) (getMsgStep e s l) := by
  have hn := nextRecord_post h
  unfold getMsgStep
  generalize nextRecord l = x at hn
  obtain ⟨res, l1⟩ := x
  cases res with
  | stall => exact hn
  | err e => exact hn
  | ok m =>
    have hp : Pending P m l1 := hn
    simp only []
    split
    · -- type not expected
      split
      · -- alert
        have hl : LInv P l1 := pend_harmless rfl rfl hp
        split
        · split
          · exact shutdown_inv true (sendRaw_getD_inv rfl rfl hl)
          · exact shutdown_inv false (sendRaw_getD_inv rfl rfl hl)
        · exact shutdown_inv false hl
      · split
        · -- renegotiation attempt
          rename_i hr
          have hh : bump m = 0 ∧ payload m = [] := by
            apply harmless_of_ct
            · intro hc; simp [hc] at hr
            · intro _ h24; simp [h24, renegType] at hr
              have := hr.1; split at this <;> simp at this
          have hl : LInv P l1 := pend_harmless hh.1 hh.2 hp
          split
          · rename_i l2 hs; exact sendRaw_harmless rfl rfl hs hl
          · exact hl
        · split
          · -- heartbeat
            rename_i hr
            have hh : bump m = 0 ∧ payload m = [] := by
              apply harmless_of_ct
              · intro hc; simp [hc] at hr
              · intro hc; simp [hc] at hr
            have hl : LInv P l1 := pend_harmless hh.1 hh.2 hp
            split
            · split
              · split
                · exact sendError_post 10 _ hl
                · split
                  · exact hl
                  · exact sendRaw_getD_inv rfl rfl hl
              · split
                · exact linv_congr hl rfl rfl rfl rfl rfl rfl rfl rfl rfl rfl
                · exact hl
            · exact hl
          · exact sendError_post 10 _ hp
    · split
      · exact pend_harmless rfl rfl hp
      · split <;> exact sendError_post _ _ hp
      · split <;> exact sendError_post _ _ hp
      · exact sendError_post 10 _ hp
      · split
        · exact sendError_post 10 _ hp
        · exact hp


theorem getMsg_post {P : End} (e s : List Nat) (f : Nat) {l : Local} (h : LInv P l) :
    Post P (Pending P) (getMsg e s f l) := by
  induction f generalizing l with
  | zero => exact h
  | succ f ih =>
    have hs := getMsgStep_post e s h
    unfold getMsg
    generalize getMsgStep e s l = x at hs
    obtain ⟨res, l1⟩ := x
    cases res with
    | stall => exact hs
    | err e => exact hs
    | ok st =>
      cases st with
      | again => exact ih hs
      | got m => exact hs

theorem advance_closed {P : End} {pend : List Rec} {l : Local} {m : Msg} (hc : l.me.closed = true)
    (hp : payload m = []) (h : LInvP P pend l) : LInvP P pend (advance m l) := by
  apply linv_of_closed h <;> simp [advance, hc, hp, h.tx]

theorem payload_of_ct22 {m : Msg} (h : m.ct = 22) : payload m = [] := by
  cases m <;> simp_all [Msg.ct, payload]

/-- `sendMsg`: after a normal return the sender's observers advance by the message -/
theorem sendMsg_post {P : End} {l : Local} (m : Msg) (h : LInv P l) :
    Post P (fun _ l' => LInv P (advance m l')) (sendMsg m l) := by
  unfold sendMsg
  split
  · rename_i l1 hs; exact sendRaw_inv hs h
  · split
    · have hn := nextRecord_post h
      generalize nextRecord l = x at hn
      obtain ⟨res, l1⟩ := x
      cases res with
      | stall => exact hn
      | err e => exact hn
      | ok r =>
        have hp : Pending P r l1 := hn
        simp only []
        split
        · exact shutdown_inv false hp
        · exact shutdown_inv false hp
    · split
      · exact shutdown_inv false h
      · exact h

theorem sendKeyUpdate_post {P : End} {l : Local} (v : Nat) (hv : v = 0 ∨ v = 1) (h : LInv P l) :
    Post P (fun _ l' => LInv P l') (sendKeyUpdate v l) := by
  unfold sendKeyUpdate
  split
  · exact h
  · split
    · exact h
    · have hs := sendMsg_post (.keyUpdate v) h
      generalize sendMsg (.keyUpdate v) l = x at hs
      obtain ⟨res, l1⟩ := x
      cases res with
      | stall => exact hs
      | err e => exact hs
      | ok u =>
        have hb : bump (.keyUpdate v) = 1 := rfl
        have : LInv P (advance (.keyUpdate v) l1) := hs
        simpa [advance, hb, payload, Post] using this

/-- advancing the read generation consumes an outstanding KeyUpdate -/
theorem consume_ku {P : End} {l : Local} (v : Nat) (h : Pending P (.keyUpdate v) l) :
    LInv P { l with me := { l.me with readGen := l.me.readGen + 1 } } := by
  refine ⟨?_, ?_, ?_, ?_, ?_⟩
  · have := h.inKeys
    simp only [DirInv, List.cons_append, List.nil_append, Flight, finalGen, bump, true_and] at this ⊢
    exact this
  · refine fifo_map h.inFifo rfl ?_
    intro rest a b
    exact ⟨rest, a, by simpa [appBytes, payload] using b⟩
  · simpa [DirInv] using h.outKeys
  · exact fifo_map h.outFifo rfl (fun rest a b => ⟨rest, a, b⟩)
  · simpa using h.tx

/-- `_handle_keyupdate_request` consumes the outstanding KeyUpdate -/
theorem handleKeyUpdate_post {P : End} {l : Local} (v : Nat) (h : Pending P (.keyUpdate v) l) :
    Post P (fun _ l' => LInv P l') (handleKeyUpdate v l) := by
  unfold handleKeyUpdate
  split
  · have h1 := consume_ku v h
    simp only []
    split
    · exact sendKeyUpdate_post 0 (Or.inl rfl) h1
    · exact h1
  · exact sendError_post 47 _ h

theorem flight_harmless_map (g : Nat) (ms : List Msg) (hm : ∀ m ∈ ms, bump m = 0 ∧ payload m = []) :
    Flight g (ms.map fun m => ⟨g, m⟩) ∧ finalGen g (ms.map fun m => ⟨g, m⟩) = g ∧
      appBytes (ms.map fun m => ⟨g, m⟩) = [] := by
  induction ms with
  | nil => simp [Flight, finalGen, appBytes]
  | cons m rest ih =>
    have hm1 := hm m (by simp)
    have ih' := ih (fun m hmem => hm m (by simp [hmem]))
    simp [Flight, finalGen, appBytes, hm1.1, hm1.2, ih'.1, ih'.2.1, ih'.2.2]

theorem sendBuffered_post {P : End} {l : Local} (ms : List Msg)
    (hm : ∀ m ∈ ms, bump m = 0 ∧ payload m = []) (h : LInv P l) :
    Post P (fun _ l' => LInv P l') (sendBuffered ms l) := by
  unfold sendBuffered
  split
  · exact h
  · rename_i hc
    simp at hc
    obtain ⟨hf, hg, ha⟩ := flight_harmless_map l.me.writeGen ms hm
    refine ⟨?_, ?_, ?_, ?_, ?_⟩
    · simpa [DirInv] using h.inKeys
    · exact fifo_map h.inFifo rfl (fun rest a b => ⟨rest, a, b⟩)
    · simp only [DirInv]
      rcases h.outKeys with hp | ⟨hfl, hw⟩
      · exact Or.inl hp
      · rcases hw with hw | hw
        · rw [hc.2] at hw; cases hw
        · refine Or.inr ⟨?_, Or.inr ?_⟩
          · rw [flight_append, hw]; exact ⟨hfl, hf⟩
          · rw [finalGen_append, hw]; exact hg
    · refine fifo_map h.outFifo rfl ?_
      intro rest h1 h2
      refine ⟨rest, h1, ?_⟩
      intro a; rw [appBytes_append, ha, h2 a]; simp
    · exact h.tx

theorem phaMsgs_harmless (e : End) (ctx : Nat) : ∀ m ∈ phaMsgs e ctx, bump m = 0 ∧ payload m = [] := by
  intro m hm
  unfold phaMsgs at hm
  simp only [] at hm
  split at hm <;> simp at hm <;> rcases hm with rfl | rfl | rfl <;> simp [bump, payload]

theorem handlePha_post {P : End} {l : Local} (ctx : Nat) (sa : Nat) (h : LInv P l) :
    Post P (fun _ l' => LInv P l') (handlePha ctx sa l) := by
  unfold handlePha
  split
  · exact sendError_post 109 _ h
  · split
    · exact sendError_post 40 _ h
    · exact sendBuffered_post _ (phaMsgs_harmless _ _) h

theorem srvPhaFinish_post {P : End} {l2 : Local} (chain : Nat) (h2 : LInv P l2) :
    Post P (fun _ l' => LInv P l') (srvPhaFinish chain l2) := by
  have hg := getMsg_post [22] [20] (fuelOf l2) h2
  unfold srvPhaFinish
  generalize getMsg [22] [20] (fuelOf l2) l2 = x at hg
  obtain ⟨res, l3⟩ := x
  cases res with
  | stall => exact hg
  | err e => exact hg
  | ok m =>
    have hp : Pending P m l3 := hg
    split
    · rename_i heq
      cases heq
      have hl : LInv P l3 := pend_harmless rfl rfl hp
      split
      · exact sendError_post 51 _ hl
      · exact linv_congr hl rfl rfl rfl rfl rfl rfl rfl rfl rfl rfl
    · rename_i heq; cases heq; exact shutdown_inv false hp
    · rename_i heq; cases heq
    · rename_i heq; cases heq

theorem handleSrvPha_post {P : End} {l : Local} (ctx chain : Nat) (h : LInv P l) :
    Post P (fun _ l' => LInv P l') (handleSrvPha ctx chain l) := by
  unfold handleSrvPha
  split
  · exact sendError_post 47 _ h
  · split
    · exact sendError_post 47 _ h
    · have h1 : LInv P { l with me := { l.me with certReqs := l.me.certReqs.erase ctx } } :=
        linv_congr h rfl rfl rfl rfl rfl rfl rfl rfl rfl rfl
      simp only []
      generalize ({ l with me := { l.me with certReqs := l.me.certReqs.erase ctx } } : Local) = l1 at h1 ⊢
      split
      · have hg := getMsg_post [22] [15] (fuelOf l1) h1
        generalize getMsg [22] [15] (fuelOf l1) l1 = x at hg
        obtain ⟨res, l2⟩ := x
        cases res with
        | stall => exact hg
        | err e => exact hg
        | ok m =>
          have hp : Pending P m l2 := hg
          split
          · rename_i heq
            cases heq
            have hl : LInv P l2 := pend_harmless rfl rfl hp
            split
            · exact sendError_post 47 _ hl
            · split
              · exact sendError_post 47 _ hl
              · split
                · exact sendError_post 51 _ hl
                · exact srvPhaFinish_post chain hl
          · rename_i heq; cases heq; exact shutdown_inv false hp
          · rename_i heq; cases heq
          · rename_i heq; cases heq
      · split
        · exact sendError_post 116 _ h1
        · exact srvPhaFinish_post chain h1


theorem sendError_fst {α : Type} (d : Nat) (l : Local) (a : α) (l' : Local) :
    sendError (α := α) d l ≠ (.ok a, l') := by
  unfold sendError; split <;> simp

theorem sendRaw_me {m : Msg} {l l1 : Local} (h : sendRaw m l = some l1) : l1.me = l.me := by
  unfold sendRaw at h
  split at h
  · cases h
  · cases h; rfl

theorem sendRaw_getD_me (m : Msg) (l : Local) : ((sendRaw m l).getD l).me = l.me := by
  cases h : sendRaw m l with
  | none => rfl
  | some l1 => simpa using sendRaw_me h

theorem nextRecord_ok_me {l l' : Local} {m : Msg} (h : nextRecord l = (.ok m, l')) : l'.me = l.me := by
  unfold nextRecord at h
  split at h
  · split at h
    · cases h
    · split at h <;> cases h
  · simp only [] at h
    split at h
    · exact absurd h (sendError_fst _ _ _ _)
    · split at h
      · exact absurd h (sendError_fst _ _ _ _)
      · exact absurd h (sendError_fst _ _ _ _)
      · cases h; rfl

theorem getMsgStep_ok_core {e s : List Nat} {l l' : Local} {st : Step}
    (h : getMsgStep e s l = (.ok st, l')) : l'.me.closed = l.me.closed ∧ l'.me.closing = l.me.closing := by
  unfold getMsgStep at h
  split at h
  · cases h
  · cases h
  · rename_i m l1 hn
    have hme := nextRecord_ok_me hn
    rw [← hme]
    simp only [] at h
    repeat' split at h
    all_goals first
      | (cases h; done)
      | exact absurd h (sendError_fst _ _ _ _)
      | (cases h; exact ⟨rfl, rfl⟩)
      | (cases h; simp [sendRaw_getD_me])
      | (cases h; rename_i hs; simp [sendRaw_me hs])

theorem getMsg_ok_core {e s : List Nat} (f : Nat) {l l' : Local} {m : Msg}
    (h : getMsg e s f l = (.ok m, l')) : l'.me.closed = l.me.closed ∧ l'.me.closing = l.me.closing := by
  induction f generalizing l with
  | zero => simp [getMsg] at h
  | succ f ih =>
    unfold getMsg at h
    split at h
    · rename_i l1 hs
      have h1 := ih h
      have h2 := getMsgStep_ok_core hs
      exact ⟨h1.1.trans h2.1, h1.2.trans h2.2⟩
    · rename_i l1 hs
      cases h
      exact getMsgStep_ok_core hs
    · cases h
    · cases h

theorem getMsg_ok_closed {e s : List Nat} (f : Nat) {l l' : Local} {m : Msg}
    (h : getMsg e s f l = (.ok m, l')) : l'.me.closed = l.me.closed := (getMsg_ok_core f h).1

theorem readIter_post {P : End} {l : Local} (is13 : Bool) (allowed : List Nat) (h : LInv P l)
    (hc : l.me.closed = false) :
    Post P (fun _ l' => LInv P l') (readIter is13 allowed l) := by
  unfold readIter
  have hg : Post P (Pending P) (if is13 then getMsg [23, 22] allowed (fuelOf l) l else getMsg [23] [] (fuelOf l) l) := by
    split
    · exact getMsg_post _ _ _ h
    · exact getMsg_post _ _ _ h
  have hcl : ∀ m l1, (if is13 then getMsg [23, 22] allowed (fuelOf l) l else getMsg [23] [] (fuelOf l) l) = (.ok m, l1) →
      l1.me.closed = false := by
    intro m l1 hx
    split at hx
    · rw [getMsg_ok_closed _ hx]; exact hc
    · rw [getMsg_ok_closed _ hx]; exact hc
  simp only []
  generalize (if is13 then getMsg [23, 22] allowed (fuelOf l) l else getMsg [23] [] (fuelOf l) l) = x at hg hcl
  obtain ⟨res, l1⟩ := x
  cases res with
  | stall => exact hg
  | err e => exact hg
  | ok m =>
    have hp : Pending P m l1 := hg
    have hc1 : l1.me.closed = false := hcl m l1 rfl
    simp only []
    split
    · exact linv_congr (pend_harmless rfl rfl hp) rfl rfl rfl rfl rfl rfl rfl rfl rfl rfl
    · rename_i v
      have hk := handleKeyUpdate_post v hp
      generalize handleKeyUpdate v l1 = y at hk
      obtain ⟨r2, l2⟩ := y
      cases r2 <;> exact hk
    · rename_i ctx chain
      have hk := handleSrvPha_post ctx chain (pend_harmless rfl rfl hp)
      generalize handleSrvPha ctx chain l1 = y at hk
      obtain ⟨r2, l2⟩ := y
      cases r2 <;> exact hk
    · rename_i ctx sa
      have hk := handlePha_post ctx sa (pend_harmless rfl rfl hp)
      generalize handlePha ctx sa l1 = y at hk
      obtain ⟨r2, l2⟩ := y
      cases r2 <;> exact hk
    · -- application data joins the read buffer
      rename_i d
      refine ⟨?_, ?_, ?_, ?_, ?_⟩
      · have := hp.inKeys
        simpa [DirInv, Flight, finalGen, bump] using this
      · refine fifo_map hp.inFifo rfl ?_
        intro rest h1 h2
        have h3 := h2 hc1
        simp [appBytes, payload] at h3
        refine ⟨appBytes l1.inc.recs, ?_, fun _ => rfl⟩
        rw [← h1, h3]; simp [List.append_assoc]
      · simpa [DirInv] using hp.outKeys
      · exact fifo_map hp.outFifo rfl (fun rest a b => ⟨rest, a, b⟩)
      · simpa using hp.tx
    · exact shutdown_inv false hp

theorem readLoop_post {P : End} (is13 : Bool) (allowed : List Nat) (min : Nat) (f : Nat) (t : Bool)
    {l : Local} (h : LInv P l) :
    Post P (fun _ l' => LInv P l') (readLoop is13 allowed min f t l) := by
  induction f generalizing l t with
  | zero => exact h
  | succ f ih =>
    unfold readLoop
    split
    · rename_i hcond
      have hc : l.me.closed = false := by simp at hcond; exact hcond.2
      have hr := readIter_post is13 allowed h hc
      generalize readIter is13 allowed l = x at hr
      obtain ⟨res, l1⟩ := x
      cases res with
      | stall => exact hr
      | ok t' => exact ih t' hr
      | err e =>
        have hl : LInv P l1 := hr
        split
        · rename_i heq; cases heq
        · rename_i heq; cases heq
        · rename_i heq; cases heq; exact ih false hl
        · rename_i heq; cases heq
          split
          · exact ih false (shutdown_inv true hl)
          · exact hl
        · rename_i heq
          cases heq; exact hl
    · exact h

theorem read_post {P : End} (mx : Option Nat) (mn : Nat) {l : Local} (h : LInv P l) :
    LInv P (read mx mn l).2 := by
  unfold read
  have hr := readLoop_post (P := P) (l.me.ver13 && !l.me.closed) (allowedHs l.me) mn (fuelOf l) true h
  generalize readLoop (l.me.ver13 && !l.me.closed) (allowedHs l.me) mn (fuelOf l) true l = x at hr
  obtain ⟨res, l1⟩ := x
  cases res with
  | stall => exact hr
  | err e => exact shutdown_inv false (show LInv P l1 from hr)
  | ok u =>
    have hl : LInv P l1 := hr
    simp only []
    refine ⟨?_, ?_, ?_, ?_, ?_⟩
    · simpa [DirInv] using hl.inKeys
    · refine fifo_map hl.inFifo rfl ?_
      intro rest h1 h2
      refine ⟨rest, ?_, h2⟩
      simp only []
      rw [← h1]
      simp only [List.append_assoc, List.take_append_drop]
    · simpa [DirInv] using hl.outKeys
    · exact fifo_map hl.outFifo rfl (fun rest a b => ⟨rest, a, b⟩)
    · simpa using hl.tx


/-! ### write, heartbeat, request-client-auth, close -/

theorem sendAll_post {P : End} (ds : List Bytes) {l : Local} (h : LInv P l) :
    Post P (fun _ l' => LInv P l') (sendAll ds l) := by
  induction ds generalizing l with
  | nil => exact h
  | cons d ds ih =>
    unfold sendAll
    have hs := sendMsg_post (.appData d) h
    generalize sendMsg (.appData d) l = x at hs
    obtain ⟨res, l1⟩ := x
    cases res with
    | stall => exact hs
    | err e => exact hs
    | ok u =>
      have h1 : LInv P (advance (.appData d) l1) := hs
      apply ih
      simpa [advance, bump, payload] using h1

theorem write_post {P : End} (d : Bytes) {l : Local} (h : LInv P l) : LInv P (write d l).2 := by
  unfold write
  split
  · exact h
  · have hs := sendAll_post (appRecords l.me d) h
    generalize sendAll (appRecords l.me d) l = x at hs
    obtain ⟨res, l1⟩ := x
    cases res with
    | stall => exact hs
    | err e => exact shutdown_inv _ (show LInv P l1 from hs)
    | ok u => exact hs

theorem heartbeat_post {P : End} (p : Bytes) (n : Nat) {l : Local} (h : LInv P l) :
    LInv P (heartbeat p n l).2 := by
  unfold heartbeat
  split
  · exact h
  · split
    · exact h
    · have hs := sendMsg_post (.heartbeat 1 p n) h
      generalize sendMsg (.heartbeat 1 p n) l = x at hs
      obtain ⟨res, l1⟩ := x
      cases res with
      | stall => exact hs
      | err e =>
        have hl : LInv P l1 := hs
        split
        · exact shutdown_inv false (by rename_i heq; cases heq; exact hl)
        · rename_i heq _; exact hl
      | ok u =>
        have h1 : LInv P (advance (.heartbeat 1 p n) l1) := hs
        rwa [advance_harmless rfl rfl] at h1

theorem requestClientAuth_post {P : End} {l : Local} (sa : Nat) (h : LInv P l) : LInv P (requestClientAuth sa l).2 := by
  unfold requestClientAuth
  split
  · exact h
  · split
    · exact h
    · split
      · exact h
      · simp only []
        have h1 : LInv P { l with me := { l.me with certReqs := l.me.certReqs ++ [l.me.nextCtx], nextCtx := l.me.nextCtx + 1 } } :=
          linv_congr h rfl rfl rfl rfl rfl rfl rfl rfl rfl rfl
        have hs := sendMsg_post (.certRequest l.me.nextCtx sa) h1
        generalize sendMsg (.certRequest l.me.nextCtx sa) _ = x at hs
        obtain ⟨res, l1⟩ := x
        cases res with
        | stall => exact hs
        | err e => exact hs
        | ok u =>
          have h2 : LInv P (advance (.certRequest l.me.nextCtx sa) l1) := hs
          rwa [advance_harmless rfl rfl] at h2

theorem sendKeyUpdate_inv {P : End} (r : Bool) {l : Local} (h : LInv P l) :
    LInv P (sendKeyUpdate (if r then 1 else 0) l).2 := by
  have hs := sendKeyUpdate_post (P := P) (if r then 1 else 0) (by cases r <;> simp) h
  generalize sendKeyUpdate (if r then 1 else 0) l = x at hs
  obtain ⟨res, l1⟩ := x
  cases res <;> exact hs

/-- while closing, dropped application data only voids the (already void) delivery claim -/
theorem pend_drop_closing {P : End} {l : Local} {m : Msg} {g : Nat} (hb : bump m = 0)
    (hcl : l.me.closing = true) (h : LInvP P [⟨g, m⟩] l) : LInv P l := by
  refine ⟨?_, Or.inl hcl, h.outKeys, h.outFifo, h.tx⟩
  rcases h.inKeys with hc | ⟨hf, hw⟩
  · exact Or.inl hc
  · simp [Flight, finalGen, hb] at hf hw
    exact Or.inr ⟨hf.2, hw⟩

theorem closeWait_post {P : End} (f : Nat) {l : Local} (h : LInv P l) (hcl : l.me.closing = true) :
    Post P (fun _ l' => LInv P l') (closeWait f l) := by
  induction f generalizing l with
  | zero => exact h
  | succ f ih =>
    unfold closeWait
    have hg : Post P (Pending P)
        (if l.me.ver13 && !l.me.closed
          then getMsg [21, 23, 22] (if l.me.isClient then [4, 24] else [24]) (fuelOf l) l
          else getMsg [21, 23] [] (fuelOf l) l) := by
      split
      · exact getMsg_post _ _ _ h
      · exact getMsg_post _ _ _ h
    have hcore : ∀ m l1, (if l.me.ver13 && !l.me.closed
          then getMsg [21, 23, 22] (if l.me.isClient then [4, 24] else [24]) (fuelOf l) l
          else getMsg [21, 23] [] (fuelOf l) l) = (.ok m, l1) → l1.me.closing = true := by
      intro m l1 hx
      split at hx
      · rw [(getMsg_ok_core _ hx).2]; exact hcl
      · rw [(getMsg_ok_core _ hx).2]; exact hcl
    simp only []
    generalize (if l.me.ver13 && !l.me.closed
          then getMsg [21, 23, 22] (if l.me.isClient then [4, 24] else [24]) (fuelOf l) l
          else getMsg [21, 23] [] (fuelOf l) l) = x at hg hcore
    obtain ⟨res, l1⟩ := x
    cases res with
    | stall => exact hg
    | err e => exact hg
    | ok m =>
      have hp : Pending P m l1 := hg
      have hcl1 := hcore m l1 rfl
      split
      · rename_i heq; cases heq
        have hl : LInv P l1 := pend_harmless rfl rfl hp
        split
        · exact shutdown_inv true hl
        · exact hl
      · rename_i heq; cases heq
        exact ih (consume_ku _ hp) hcl1
      · rename_i heq; cases heq
        exact ih (pend_drop_closing rfl hcl1 hp) hcl1
      · rename_i heq; cases heq
        exact ih (pend_harmless rfl rfl hp) hcl1
      · rename_i heq; cases heq; exact shutdown_inv false hp
      · rename_i heq; cases heq
      · rename_i heq; cases heq

theorem set_closing {P : End} {l : Local} (h : LInv P l) :
    LInv P { l with me := { l.me with closing := true } } := by
  refine ⟨?_, Or.inl rfl, ?_, ?_, ?_⟩
  · simpa [DirInv] using h.inKeys
  · simpa [DirInv] using h.outKeys
  · exact fifo_map h.outFifo rfl (fun rest a b => ⟨rest, a, b⟩)
  · simpa using h.tx

theorem closeBody_post {P : End} {l : Local} (h : LInv P l) :
    Post P (fun _ l' => LInv P l') (closeBody l) := by
  unfold closeBody
  have hs := sendMsg_post (.alert 1 0) h
  generalize sendMsg (.alert 1 0) l = x at hs
  obtain ⟨res, l1⟩ := x
  cases res with
  | stall => exact hs
  | err e => exact hs
  | ok u =>
    have h1 : LInv P (advance (.alert 1 0) l1) := hs
    rw [advance_harmless rfl rfl] at h1
    simp only []
    split
    · exact shutdown_inv true h1
    · exact closeWait_post _ (set_closing h1) rfl

theorem close_post {P : End} {l : Local} (h : LInv P l) : LInv P (close l).2 := by
  unfold close
  split
  · exact h
  · split
    · exact linv_congr h rfl rfl rfl rfl rfl rfl rfl rfl rfl rfl
    · have h' : LInv P { l with me := { l.me with refCount := l.me.refCount - 1 } } :=
        linv_congr h rfl rfl rfl rfl rfl rfl rfl rfl rfl rfl
      have hr := closeBody_post h'
      generalize closeBody { l with me := { l.me with refCount := l.me.refCount - 1 } } = y at hr
      obtain ⟨res, l1⟩ := y
      cases res with
      | stall => exact hr
      | ok u => exact hr
      | err e =>
        have hl : LInv P l1 := hr
        split
        · rename_i heq; cases heq
        · rename_i heq; cases heq
        · rename_i heq; cases heq; exact shutdown_inv true hl
        · rename_i heq; cases heq; exact shutdown_inv true hl
        · rename_i heq; cases heq; exact shutdown_inv false hl

/-! ### every honest operation preserves the invariants -/

/-- operations of a correctly working endpoint over a working transport, plus messages of a faulty
    peer that neither carry application data nor are a valid KeyUpdate -/
def Op.Honest : Op → Prop
  | .inject m => bump m = 0 ∧ payload m = []
  | .kill _ => False
  | .abort => False
  | _ => True

theorem runLocal_inv {P : End} (op : Op) (ho : op.Honest) {l : Local} (h : LInv P l) :
    LInv P (runLocal op l).2 := by
  cases op with
  | write d =>
    have := write_post d h
    simp only [runLocal]
    generalize write d l = x at this ⊢
    obtain ⟨res, l1⟩ := x
    cases res <;> exact this
  | read mx mn =>
    have := read_post mx mn h
    simp only [runLocal]
    generalize read mx mn l = x at this ⊢
    obtain ⟨res, l1⟩ := x
    cases res <;> exact this
  | keyUpdate r =>
    have := sendKeyUpdate_inv r h
    simp only [runLocal]
    generalize sendKeyUpdate (if r then 1 else 0) l = x at this ⊢
    obtain ⟨res, l1⟩ := x
    cases res <;> exact this
  | requestClientAuth sa =>
    have := requestClientAuth_post sa h
    simp only [runLocal]
    generalize requestClientAuth sa l = x at this ⊢
    obtain ⟨res, l1⟩ := x
    cases res <;> exact this
  | heartbeat p n =>
    have := heartbeat_post p n h
    simp only [runLocal]
    generalize heartbeat p n l = x at this ⊢
    obtain ⟨res, l1⟩ := x
    cases res <;> exact this
  | close =>
    have := close_post h
    simp only [runLocal]
    generalize close l = x at this ⊢
    obtain ⟨res, l1⟩ := x
    cases res <;> exact this
  | makefile => exact linv_congr h rfl rfl rfl rfl rfl rfl rfl rfl rfl rfl
  | inject m => exact sendRaw_getD_inv ho.1 ho.2 h
  | kill k => exact absurd ho id
  | abort => exact absurd ho id


/-! ### two endpoints -/

/-- the invariants of a world: both directions in step and in order, transport alive -/
structure WInv (w : World) : Prop where
  c2sKeys : DirInv w.c w.s w.c2s.recs
  s2cKeys : DirInv w.s w.c w.s2c.recs
  c2sFifo : Fifo w.c w.s w.c2s.recs
  s2cFifo : Fifo w.s w.c w.s2c.recs
  ctx : w.c.txDead = false
  stx : w.s.txDead = false

theorem winv_client (w : World) : WInv w ↔ (LInv w.s (w.view .client) ∧ w.s.txDead = false) := by
  constructor
  · intro h; exact ⟨⟨h.s2cKeys, h.s2cFifo, h.c2sKeys, h.c2sFifo, h.ctx⟩, h.stx⟩
  · intro ⟨h, t⟩; exact ⟨h.outKeys, h.inKeys, h.outFifo, h.inFifo, h.tx, t⟩

theorem winv_server (w : World) : WInv w ↔ (LInv w.c (w.view .server) ∧ w.c.txDead = false) := by
  constructor
  · intro h; exact ⟨⟨h.c2sKeys, h.c2sFifo, h.s2cKeys, h.s2cFifo, h.stx⟩, h.ctx⟩
  · intro ⟨h, t⟩; exact ⟨h.inKeys, h.outKeys, h.inFifo, h.outFifo, t, h.tx⟩

theorem step_inv (w : World) (who : Side) (op : Op) (ho : op.Honest) (h : WInv w) :
    WInv (step w who op).2 := by
  cases who with
  | client =>
    obtain ⟨hl, ht⟩ := (winv_client w).mp h
    have := runLocal_inv op ho hl
    rw [winv_client]
    simp only [step]
    generalize runLocal op (w.view .client) = x at this ⊢
    obtain ⟨o, l⟩ := x
    exact ⟨this, ht⟩
  | server =>
    obtain ⟨hl, ht⟩ := (winv_server w).mp h
    have := runLocal_inv op ho hl
    rw [winv_server]
    simp only [step]
    generalize runLocal op (w.view .server) = x at this ⊢
    obtain ⟨o, l⟩ := x
    exact ⟨this, ht⟩

theorem run_inv (w : World) (ops : List (Side × Op)) (hh : ∀ o ∈ ops, o.2.Honest) (h : WInv w) :
    WInv (run w ops) := by
  induction ops generalizing w with
  | nil => exact h
  | cons o rest ih =>
    obtain ⟨who, op⟩ := o
    simp only [run]
    apply ih
    · intro o ho; exact hh o (by simp [ho])
    · exact step_inv w who op (hh (who, op) (by simp)) h

/-- a connection as the handshake leaves it: nothing in flight, generations paired, nothing read
    or written yet, transport alive; every other field (version, modes, options) is arbitrary -/
structure Fresh (w : World) : Prop where
  c2s : w.c2s.recs = []
  s2c : w.s2c.recs = []
  cs : w.s.readGen = w.c.writeGen
  sc : w.c.readGen = w.s.writeGen
  cgot : w.c.got = []
  cbuf : w.c.readBuf = []
  cwrote : w.c.wrote = []
  sgot : w.s.got = []
  sbuf : w.s.readBuf = []
  swrote : w.s.wrote = []
  ctx : w.c.txDead = false
  stx : w.s.txDead = false

theorem fresh_inv {w : World} (h : Fresh w) : WInv w := by
  refine ⟨?_, ?_, ?_, ?_, h.ctx, h.stx⟩
  · rw [h.c2s]; exact Or.inr ⟨trivial, Or.inr (by simp [finalGen, h.cs])⟩
  · rw [h.s2c]; exact Or.inr ⟨trivial, Or.inr (by simp [finalGen, h.sc])⟩
  · rw [h.c2s]; exact Or.inr ⟨[], by simp [h.sgot, h.sbuf, h.cwrote], fun _ => rfl⟩
  · rw [h.s2c]; exact Or.inr ⟨[], by simp [h.cgot, h.cbuf, h.swrote], fun _ => rfl⟩

/-- with the head record at the reader's generation, `nextRecord` never reports a MAC failure -/
theorem nextRecord_no_bad_mac {l : Local} (h : Flight l.me.readGen l.inc.recs) :
    (nextRecord l).1 ≠ .err (.localAlert 20) := by
  unfold nextRecord
  split
  · split
    · simp
    · split <;> simp
  · rename_i r rest hr
    rw [hr] at h
    have hg : r.gen = l.me.readGen := h.1
    simp only [hg, bne_self_eq_false, Bool.false_eq_true, if_false]
    split
    · unfold sendError; split <;> simp
    · unfold sendError; split <;> simp
    · simp

end Tls.Conn
