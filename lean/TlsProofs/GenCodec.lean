import TlsModel.Gen.Codec
import TlsProofs.Codec
/-
  The methods of tlslite/utils/codec.py as regenerated from the source (TlsModel/Gen/Codec.lean,
  translate/gen_codec.py) compute the hand-written model TlsModel/Codec.lean: for every state and
  every natural-number argument, `Gen.<method> (object of the state) args = lift (<hand method> state args)`.
-/
set_option linter.unusedVariables false
set_option linter.unusedSimpArgs false
namespace Tls.Codec
open Tls Tls.Fmt

/-- every `Writer` error of the hand model is a Python ValueError -/
def excOfW : WErr → PyO.Exc
  | _ => .valueError

def excOfP : PErr → PyO.Exc
  | .zeroDiv => .zeroDivision
  | _ => .decodeError

/-- a hand-model Writer result as the generated code reports it -/
def liftW (r : Except WErr Writer) : PyO.M PyO.Writer :=
  match r with
  | .ok w => .ok ⟨w⟩
  | .error e => .error (excOfW e)

/-- the Python object of a hand-model parser state -/
def toGen (p : Parser) : PyO.Parser := ⟨p.bytes, p.index, p.indexCheck, p.lengthCheck⟩

def liftP {α β : Type} (f : α → β) (r : Except PErr (α × Parser)) : PyO.M (β × PyO.Parser) :=
  match r with
  | .ok (a, p) => .ok (f a, toGen p)
  | .error e => .error (excOfP e)

theorem toBytesBig_nat (x n : Nat) :
    PyO.toBytesBig (x : Int) (n : Int) = if x < 256 ^ n then .ok (beEncode n x) else .error .overflowError := by
  unfold PyO.toBytesBig
  have h1 : ¬ ((n : Int) < 0) := by omega
  have h2 : ¬ ((x : Int) < 0) := by omega
  simp [h1, h2]

theorem gen_Writer_add_eq (w : Writer) (x n : Nat) :
    Gen.Writer_add ⟨w⟩ x n = liftW (Writer.add w x n) := by
  simp only [Gen.Writer_add, Writer.add, toBytesBig_nat, liftW, bind, Except.bind, pure, Except.pure, PyO.tryExcept, PyO.raise]
  by_cases h : x < 256 ^ n <;> simp [h, excOfW, Except.bind, Except.pure]

end Tls.Codec

namespace Tls.Codec
open Tls Tls.Fmt

theorem packItem_nat (k v : Nat) :
    PyO.packItem k (v : Int) = if v < 256 ^ k then .ok (beEncode k v) else .error .structError := by
  unfold PyO.packItem
  have h : (0 : Int) ≤ (v : Int) := by omega
  by_cases hv : v < 256 ^ k <;> simp [h, hv]

theorem shr_nat (v k : Nat) : Py.shr (v : Int) k = ((v / 2 ^ k : Nat) : Int) := by
  unfold Py.shr
  norm_cast

theorem band_nat (a b : Nat) : Py.band (a : Int) (b : Int) = ((a &&& b : Nat) : Int) := by
  show Py.band (Int.ofNat a) (Int.ofNat b) = _
  rfl

theorem gen_Writer_addOne_eq (w : Writer) (x : Nat) :
    Gen.Writer_addOne ⟨w⟩ x = liftW (Writer.addOne w x) := by
  simp only [Gen.Writer_addOne, Writer.addOne, PyO.appendByte, liftW, bind, Except.bind, pure, Except.pure]
  have h0 : (0 : Int) ≤ (x : Int) := by omega
  by_cases h : x < 256
  · have h' : (x : Int) < 256 := by omega
    simp [h, h', h0]
  · have h' : ¬ (x : Int) < 256 := by omega
    simp [h, h', h0, excOfW]

theorem gen_Writer_addTwo_eq (w : Writer) (x : Nat) :
    Gen.Writer_addTwo ⟨w⟩ x = liftW (Writer.addTwo w x) := by
  simp only [Gen.Writer_addTwo, Writer.addTwo, PyO.packH, packItem_nat, liftW, bind, Except.bind, pure, Except.pure,
    PyO.tryExcept, PyO.raise]
  by_cases h : x < 256 ^ 2
  · have h' : x ≤ 0xffff := by omega
    simp [h, h']
  · have h' : ¬ x ≤ 0xffff := by omega
    simp [h, h', excOfW]

theorem gen_Writer_addFour_eq (w : Writer) (x : Nat) :
    Gen.Writer_addFour ⟨w⟩ x = liftW (Writer.addFour w x) := by
  simp only [Gen.Writer_addFour, Writer.addFour, PyO.packI, packItem_nat, liftW, bind, Except.bind, pure, Except.pure,
    PyO.tryExcept, PyO.raise]
  by_cases h : x < 256 ^ 4
  · have h' : x ≤ 0xffffffff := by omega
    simp [h, h']
  · have h' : ¬ x ≤ 0xffffffff := by omega
    simp [h, h', excOfW]

theorem gen_Writer_addThree_eq (w : Writer) (x : Nat) :
    Gen.Writer_addThree ⟨w⟩ x = liftW (Writer.addThree w x) := by
  have hb : Py.band (x : Int) (65535 : Int) = ((x % 65536 : Nat) : Int) := by
    have := band_nat x 65535
    rw [show ((65535 : Nat) : Int) = (65535 : Int) from rfl] at this
    rw [this, show (65535 : Nat) = 2 ^ 16 - 1 from rfl, Nat.and_two_pow_sub_one_eq_mod]
  have hs : Py.shr (x : Int) 16 = ((x / 65536 : Nat) : Int) := shr_nat x 16
  simp only [Gen.Writer_addThree, Writer.addThree, PyO.packBH, hb, hs, packItem_nat, liftW, bind, Except.bind, pure,
    Except.pure, PyO.tryExcept, PyO.raise]
  have h2 : x % 65536 < 256 ^ 2 := by omega
  by_cases h : x / 65536 < 256 ^ 1
  · have h' : x / 65536 ≤ 0xff := by omega
    simp [h, h', h2, List.append_assoc]
  · have h' : ¬ x / 65536 ≤ 0xff := by omega
    simp [h, h', excOfW]

theorem gen_Writer_add_var_bytes_eq (w : Writer) (d : Bytes) (ll : Nat) :
    Gen.Writer_add_var_bytes ⟨w⟩ d ll = liftW (Writer.addVarBytes w d ll) := by
  simp only [Gen.Writer_add_var_bytes, PyO.lenB, gen_Writer_add_eq, Writer.addVarBytes, Writer.add, liftW, bind,
    Except.bind, pure, Except.pure]
  by_cases h : d.length < 256 ^ ll <;> simp [h, excOfW]

theorem forM_addFixSeq (n : Nat) : ∀ (seq : List Nat) (w : Writer),
    PyO.forM (seq.map fun (k : Nat) => (k : Int)) (⟨w⟩ : PyO.Writer) (fun e st => Gen.Writer_add st e n)
      = liftW (Writer.addFixSeq w seq n) := by
  intro seq
  induction seq with
  | nil => intro w; simp [PyO.forM, Writer.addFixSeq, liftW, pure, Except.pure]
  | cons x xs ih =>
    intro w
    simp only [PyO.forM, List.map_cons, List.foldlM_cons, Writer.addFixSeq, bind, Except.bind, pure, Except.pure]
    rw [gen_Writer_add_eq]
    cases ha : Writer.add w x n with
    | error e => simp [liftW]
    | ok w1 =>
      simp only [liftW]
      have := ih w1
      simp only [PyO.forM, Writer.addFixSeq, bind, Except.bind, pure, Except.pure] at this
      exact this

theorem gen_Writer_addFixSeq_eq (w : Writer) (seq : List Nat) (n : Nat) :
    Gen.Writer_addFixSeq ⟨w⟩ (seq.map fun (k : Nat) => (k : Int)) n = liftW (Writer.addFixSeq w seq n) := by
  simp only [Gen.Writer_addFixSeq, bind_pure]
  rw [forM_addFixSeq]

end Tls.Codec

namespace Tls.Codec
open Tls Tls.Fmt

theorem slice_window (b : Bytes) (i n : Nat) (h : i + n ≤ b.length) :
    Py.slice b (some (i : Int)) (some ((i : Int) + (n : Int))) = (b.drop i).take n := by
  unfold Py.slice Py.sliceBound
  have h1 : ¬ ((i : Int) < 0) := by omega
  have h2 : ¬ ((i : Int) + (n : Int) < 0) := by omega
  simp only [h1, h2, if_false]
  have e1 : ((i : Int)).toNat = i := by omega
  have e2 : ((i : Int) + (n : Int)).toNat = i + n := by omega
  rw [e1, e2]
  by_cases hi : i < b.length
  · by_cases hn : i + n < b.length
    · simp [hi, hn]
    · have : i + n = b.length := by omega
      simp [hi, hn, this]
      omega
  · have hi' : i = b.length := by omega
    have hn0 : n = 0 := by omega
    subst hn0
    simp [hi]

theorem gen_Parser_getFixBytes_eq (p : Parser) (n : Nat) :
    Gen.Parser_getFixBytes (toGen p) n = liftP id (Parser.getFixBytes p n) := by
  simp only [Gen.Parser_getFixBytes, toGen, Parser.getFixBytes, PyO.lenB, liftP, PyO.raise, bind, Except.bind, pure,
    Except.pure]
  by_cases h : p.index + n > p.bytes.length
  · have h' : ((p.index : Int) + (n : Int) > (p.bytes.length : Int)) := by omega
    simp [h, h', excOfP]
  · have h' : ¬ ((p.index : Int) + (n : Int) > (p.bytes.length : Int)) := by omega
    simp only [h, h', decide_false, Bool.false_eq_true, if_false]
    rw [slice_window p.bytes p.index n (by omega)]
    simp [toGen]

theorem gen_Parser_get_eq (p : Parser) (n : Nat) :
    Gen.Parser_get (toGen p) n = liftP (fun (x : Nat) => (x : Int)) (Parser.get p n) := by
  simp only [Gen.Parser_get, gen_Parser_getFixBytes_eq, Parser.get, bind, Except.bind, pure, Except.pure]
  cases Parser.getFixBytes p n with
  | error e => simp [liftP]
  | ok q => obtain ⟨b, p'⟩ := q; simp [liftP, PyO.bytesToInt]

theorem gen_Parser_skip_bytes_eq (p : Parser) (n : Nat) :
    Gen.Parser_skip_bytes (toGen p) n =
      (match Parser.skipBytes p n with | .ok p' => .ok (toGen p') | .error e => .error (excOfP e)) := by
  simp only [Gen.Parser_skip_bytes, toGen, Parser.skipBytes, PyO.lenB, PyO.raise, bind, Except.bind, pure, Except.pure]
  by_cases h : p.index + n > p.bytes.length
  · have h' : ((p.index : Int) + (n : Int) > (p.bytes.length : Int)) := by omega
    simp [h, h', excOfP]
  · have h' : ¬ ((p.index : Int) + (n : Int) > (p.bytes.length : Int)) := by omega
    simp [h, h', toGen]

theorem gen_Parser_getVarBytes_eq (p : Parser) (ll : Nat) :
    Gen.Parser_getVarBytes (toGen p) ll = liftP id (Parser.getVarBytes p ll) := by
  simp only [Gen.Parser_getVarBytes, gen_Parser_get_eq, Parser.getVarBytes, bind, Except.bind, pure, Except.pure]
  cases Parser.get p ll with
  | error e => simp [liftP]
  | ok q =>
    obtain ⟨x, p1⟩ := q
    simp only [liftP, gen_Parser_getFixBytes_eq]
    cases Parser.getFixBytes p1 x with
    | error e => simp [liftP]
    | ok q2 => obtain ⟨b, p2⟩ := q2; simp [liftP]

theorem gen_Parser_startLengthCheck_eq (p : Parser) (ll : Nat) :
    Gen.Parser_startLengthCheck (toGen p) ll =
      (match Parser.startLengthCheck p ll with | .ok p' => .ok (toGen p') | .error e => .error (excOfP e)) := by
  simp only [Gen.Parser_startLengthCheck, gen_Parser_get_eq, Parser.startLengthCheck, bind, Except.bind, pure, Except.pure]
  cases Parser.get p ll with
  | error e => simp [liftP]
  | ok q => obtain ⟨x, p1⟩ := q; simp [liftP, toGen]

theorem gen_Parser_setLengthCheck_eq (p : Parser) (n : Nat) :
    Gen.Parser_setLengthCheck (toGen p) n = .ok (toGen (Parser.setLengthCheck p n)) := by
  simp [Gen.Parser_setLengthCheck, Parser.setLengthCheck, toGen, pure, Except.pure]

theorem gen_Parser_stopLengthCheck_eq (p : Parser) :
    Gen.Parser_stopLengthCheck (toGen p) =
      (match Parser.stopLengthCheck p with | .ok () => .ok (toGen p) | .error e => .error (excOfP e)) := by
  simp only [Gen.Parser_stopLengthCheck, toGen, Parser.stopLengthCheck, PyO.raise, bind, Except.bind, pure, Except.pure]
  by_cases h : (p.index : Int) - p.indexCheck ≠ p.lengthCheck
  · simp [h, excOfP]
  · simp [h]

theorem gen_Parser_atLengthCheck_eq (p : Parser) :
    Gen.Parser_atLengthCheck (toGen p) =
      (match Parser.atLengthCheck p with | .ok b => .ok (b, toGen p) | .error e => .error (excOfP e)) := by
  simp only [Gen.Parser_atLengthCheck, toGen, Parser.atLengthCheck, PyO.raise, bind, Except.bind, pure, Except.pure]
  by_cases h1 : (p.index : Int) - p.indexCheck < p.lengthCheck
  · simp [h1]
  · by_cases h2 : (p.index : Int) - p.indexCheck = p.lengthCheck
    · simp [h1, h2]
    · simp [h1, h2, excOfP]

theorem gen_Parser_getRemainingLength_eq (p : Parser) (hinv : p.inv) :
    Gen.Parser_getRemainingLength (toGen p) = .ok ((Parser.getRemainingLength p : Int), toGen p) := by
  unfold Parser.inv at hinv
  simp only [Gen.Parser_getRemainingLength, toGen, Parser.getRemainingLength, PyO.lenB, pure, Except.pure]
  congr 2
  omega

end Tls.Codec

namespace Tls.Codec
open Tls Tls.Fmt

/-- body of `for x in range(k): l[x] = self.get(n)` as generated -/
def fixStep (n : Nat) (s : List Int × PyO.Parser) (x : Int) : PyO.M (List Int × PyO.Parser) := do
  let r1 ← Gen.Parser_get s.snd ↑n
  let l ← PyO.listSet s.fst x r1.fst
  pure (l, r1.snd)

theorem fixStep_eval (n m : Nat) (pre : List Int) (p : Parser) :
    fixStep n (pre ++ List.replicate (m + 1) 0, toGen p) (pre.length : Int) =
      (match Parser.get p n with
       | .ok (x, p1) => .ok ((pre ++ [(x : Int)]) ++ List.replicate m 0, toGen p1)
       | .error e => .error (excOfP e)) := by
  simp only [fixStep, gen_Parser_get_eq, bind, Except.bind]
  cases hg : Parser.get p n with
  | error e => simp [liftP]
  | ok q =>
    obtain ⟨x, p1⟩ := q
    simp only [liftP]
    have hset : PyO.listSet (pre ++ List.replicate (m + 1) 0) (pre.length : Int) (x : Int) =
        .ok ((pre ++ [(x : Int)]) ++ List.replicate m 0) := by
      unfold PyO.listSet
      have h1 : (0 : Int) ≤ (pre.length : Int) := by omega
      have h2 : ((pre.length : Int)).toNat < (pre ++ List.replicate (m + 1) 0).length := by simp
      simp only [h1, h2, and_self, if_true, Int.toNat_natCast]
      congr 1
      simp [List.replicate_succ]
    rw [hset]
    rfl

/-- the loop started at position `pre.length` of a list whose remaining `m` cells are still zero -/
theorem fixList_loop (n : Nat) : ∀ (m : Nat) (pre : List Int) (p : Parser),
    List.foldlM (fixStep n) (pre ++ List.replicate m 0, toGen p)
        (List.map (fun (k : Nat) => (k : Int)) (List.range' pre.length m)) =
      (match Parser.getFixList p n m with
       | .ok (xs, p') => .ok (pre ++ xs.map (fun (x : Nat) => (x : Int)), toGen p')
       | .error e => .error (excOfP e)) := by
  intro m
  induction m with
  | zero => intro pre p; simp [Parser.getFixList, pure, Except.pure]
  | succ m ih =>
    intro pre p
    rw [List.range'_succ, List.map_cons, List.foldlM_cons, fixStep_eval]
    simp only [Parser.getFixList, bind, Except.bind]
    cases hg : Parser.get p n with
    | error e => rfl
    | ok q =>
      obtain ⟨x, p1⟩ := q
      have := ih (pre ++ [(x : Int)]) p1
      simp only [List.length_append, List.length_cons, List.length_nil, Nat.zero_add] at this
      simp only []
      rw [this]
      cases Parser.getFixList p1 n m with
      | error e => rfl
      | ok q2 => obtain ⟨xs, p2⟩ := q2; simp [pure, Except.pure]

theorem gen_Parser_getFixList_eq (p : Parser) (n k : Nat) :
    Gen.Parser_getFixList (toGen p) n k =
      liftP (fun (xs : List Nat) => xs.map fun (x : Nat) => (x : Int)) (Parser.getFixList p n k) := by
  simp only [Gen.Parser_getFixList, PyO.forM, PyO.zeros, PyO.range, Int.toNat_natCast]
  change (do let __x ← List.foldlM (fixStep n) _ _; pure (__x.fst, __x.snd)) = _
  have := fixList_loop n k [] p
  simp only [List.nil_append, List.length_nil] at this
  rw [List.range_eq_range', this]
  cases Parser.getFixList p n k with
  | error e => simp [liftP, bind, Except.bind]
  | ok q => obtain ⟨xs, p'⟩ := q; simp [liftP, bind, Except.bind, pure, Except.pure]

end Tls.Codec

namespace Tls.Codec
open Tls Tls.Fmt

theorem pyMod_nat (a b : Nat) : PyO.pyMod (a : Int) (b : Int) =
    if b = 0 then .error .zeroDivision else .ok ((a % b : Nat) : Int) := by
  unfold PyO.pyMod
  by_cases hb : b = 0
  · simp [hb]
  · have : ¬ ((b : Int) = 0) := by omega
    simp only [hb, this, if_false]
    rw [Int.fmod_eq_emod_of_nonneg _ (by omega)]; norm_cast

theorem pyFloorDiv_nat (a b : Nat) : PyO.pyFloorDiv (a : Int) (b : Int) =
    if b = 0 then .error .zeroDivision else .ok ((a / b : Nat) : Int) := by
  unfold PyO.pyFloorDiv
  by_cases hb : b = 0
  · simp [hb]
  · have : ¬ ((b : Int) = 0) := by omega
    simp only [hb, this, if_false]
    rw [Int.fdiv_eq_ediv_of_nonneg _ (by omega)]; norm_cast

theorem gen_Parser_getVarList_eq (p : Parser) (n ll : Nat) :
    Gen.Parser_getVarList (toGen p) n ll =
      liftP (fun (xs : List Nat) => xs.map fun (x : Nat) => (x : Int)) (Parser.getVarList p n ll) := by
  simp only [Gen.Parser_getVarList, gen_Parser_get_eq, Parser.getVarList, PyO.raise]
  cases hg : Parser.get p ll with
  | error e => simp [liftP, bind, Except.bind]
  | ok q =>
    obtain ⟨len, p1⟩ := q
    simp only [liftP, bind, Except.bind, pyMod_nat, pyFloorDiv_nat]
    by_cases hn : n = 0
    · simp [hn, excOfP]
    · simp only [hn, if_false]
      by_cases hm : len % n ≠ 0
      · have : ¬ ((len : Int) % (n : Int) = 0) := by omega
        simp [hm, this, excOfP]
      · have hm' : len % n = 0 := by omega
        have : (((len % n : Nat) : Int) = 0) := by omega
        simp only [hm', this, ne_eq, not_true_eq_false, decide_false, Bool.false_eq_true, if_false, pure, Except.pure]
        have h := gen_Parser_getFixList_eq p1 n (len / n)
        simp only [Gen.Parser_getFixList, bind, Except.bind, pure, Except.pure] at h
        exact h

end Tls.Codec

namespace Tls.Codec
open Tls Tls.Fmt

/-- `HandshakeMsg.postWrite` as the source has it: type byte, 3-byte length, body — or ValueError when
    the type does not fit a byte or the body does not fit the 24-bit length; never a wrapped header -/
theorem gen_postWrite_eq (t : Nat) (body : Bytes) :
    Gen.HandshakeMsg_postWrite t ⟨body⟩ =
      if t < 256 then
        (match encode (.lenPref 3 .rest) 0 (.bytes body) with
         | some b => .ok (beEncode 1 t ++ b)
         | none => .error .valueError)
      else .error .valueError := by
  simp only [Gen.HandshakeMsg_postWrite, PyO.lenB]
  have h1 := gen_Writer_add_eq [] t 1
  rw [show ((1 : Nat) : Int) = (1 : Int) from rfl] at h1
  rw [h1]
  simp only [Writer.add, liftW]
  by_cases ht : t < 256
  · have ht' : t < 256 ^ 1 := by omega
    simp only [ht, ht', if_true, bind, Except.bind, List.nil_append]
    have h2 := gen_Writer_add_eq (beEncode 1 t) body.length 3
    rw [show ((3 : Nat) : Int) = (3 : Int) from rfl] at h2
    rw [h2]
    simp only [Writer.add, liftW, encode, bind, Option.bind, pure, Except.pure]
    by_cases hl : body.length < 256 ^ 3
    · simp [hl, List.append_assoc]
    · simp [hl, excOfW]
  · have ht' : ¬ t < 256 ^ 1 := by omega
    simp [ht, ht', excOfW, bind, Except.bind]

theorem addFixSeq_prefix (n : Nat) : ∀ (seq : List Nat) (w a : Writer),
    Writer.addFixSeq (w ++ a) seq n = (Writer.addFixSeq a seq n).map (w ++ ·) := by
  intro seq
  induction seq with
  | nil => intro w a; simp [Writer.addFixSeq, pure, Except.pure, Except.map]
  | cons x xs ih =>
    intro w a
    simp only [Writer.addFixSeq, List.foldlM_cons, bind, Except.bind, Writer.add]
    by_cases hx : x < 256 ^ n
    · simp only [hx, if_true]
      have := ih w (a ++ beEncode n x)
      simp only [Writer.addFixSeq, List.append_assoc] at this
      rw [List.append_assoc]
      exact this
    · simp [hx, Except.map]

theorem appendByte_nat (w : Bytes) (x : Nat) :
    PyO.appendByte w (x : Int) = if x < 256 then .ok (w ++ [UInt8.ofNat x]) else .error .valueError := by
  unfold PyO.appendByte
  have h0 : (0 : Int) ≤ (x : Int) := by omega
  by_cases hx : x < 256
  · have hx' : (x : Int) < 256 := by omega
    simp [h0, hx, hx']
  · have hx' : ¬ (x : Int) < 256 := by omega
    simp [h0, hx, hx']

theorem add_one_byte (w : Writer) (x : Nat) :
    Writer.add w x 1 = if x < 256 then .ok (w ++ [UInt8.ofNat x]) else .error .overflow := by
  rw [← Writer.addOne_eq_add]; rfl

theorem extendInts_eq : ∀ (seq : List Nat) (w : Writer),
    PyO.extendInts w (seq.map fun (k : Nat) => (k : Int)) =
      (match Writer.addFixSeq w seq 1 with | .ok w' => .ok w' | .error e => .error (excOfW e)) := by
  intro seq
  induction seq with
  | nil => intro w; simp [PyO.extendInts, Writer.addFixSeq, pure, Except.pure]
  | cons x xs ih =>
    intro w
    unfold PyO.extendInts Writer.addFixSeq
    rw [List.map_cons, List.foldlM_cons, List.foldlM_cons, appendByte_nat, add_one_byte]
    by_cases hx : x < 256
    · simp only [hx, if_true]
      have := ih (w ++ [UInt8.ofNat x])
      unfold PyO.extendInts Writer.addFixSeq at this
      exact this
    · simp only [hx, if_false]
      rfl

theorem packHs_fold : ∀ (seq : List Nat) (a : Bytes),
    (seq.map fun (k : Nat) => (k : Int)).foldlM (fun acc v => do let b ← PyO.packItem 2 v; pure (acc ++ b)) a =
      (match Writer.addFixSeq a seq 2 with | .ok w' => .ok w' | .error _ => .error .structError) := by
  intro seq
  induction seq with
  | nil => intro a; simp [Writer.addFixSeq, pure, Except.pure]
  | cons x xs ih =>
    intro a
    simp only [List.map_cons, List.foldlM_cons, Writer.addFixSeq, bind, Except.bind, Writer.add, packItem_nat]
    by_cases hx : x < 256 ^ 2
    · simp only [hx, if_true, pure, Except.pure]
      have := ih (a ++ beEncode 2 x)
      simp only [Writer.addFixSeq, bind, Except.bind, pure, Except.pure] at this
      exact this
    · simp [hx]

theorem gen_Writer_addVarSeq_eq (w : Writer) (seq : List Nat) (n ll : Nat) :
    Gen.Writer_addVarSeq ⟨w⟩ (seq.map fun (k : Nat) => (k : Int)) n ll = liftW (Writer.addVarSeq w seq n ll) := by
  simp only [Gen.Writer_addVarSeq, PyO.lenL, List.length_map, Writer.addVarSeq]
  have hmul : ((seq.length : Int) * (n : Int)) = ((seq.length * n : Nat) : Int) := by norm_cast
  rw [hmul, gen_Writer_add_eq]
  cases ha : Writer.add w (seq.length * n) ll with
  | error e => simp [liftW, bind, Except.bind]
  | ok w1 =>
    simp only [liftW, bind, Except.bind, pure, Except.pure]
    by_cases h1 : n = 1
    · subst h1
      have hd : decide (((1 : Nat) : Int) = (1 : Int)) = true := by simp
      simp only [hd, if_true, extendInts_eq]
      cases Writer.addFixSeq w1 seq 1 <;> simp
    · have hd : decide ((n : Int) = (1 : Int)) = false := by simp; omega
      simp only [hd, Bool.false_eq_true, if_false]
      by_cases h2 : n = 2
      · subst h2
        have hd2 : decide (((2 : Nat) : Int) = (2 : Int)) = true := by simp
        simp only [hd2, if_true, PyO.packHs, List.length_map, ne_eq, not_true_eq_false, if_false, PyO.tryExcept, PyO.raise]
        rw [packHs_fold seq []]
        have hp := addFixSeq_prefix 2 seq w1 []
        rw [List.append_nil] at hp
        rw [hp]
        cases Writer.addFixSeq [] seq 2 with
        | error e => simp [Except.map, excOfW]
        | ok b => simp [Except.map]
      · have hd2 : decide ((n : Int) = (2 : Int)) = false := by simp; omega
        simp only [hd2, Bool.false_eq_true, if_false]
        have key : ∀ f : Int → PyO.Writer → PyO.M PyO.Writer, (∀ i st, f i st = Gen.Writer_add st i ↑n) →
            PyO.forM (seq.map fun (k : Nat) => (k : Int)) (⟨w1⟩ : PyO.Writer) f = liftW (Writer.addFixSeq w1 seq n) := by
          intro f hf
          have : f = fun e st => Gen.Writer_add st e ↑n := by funext i st; exact hf i st
          rw [this]; exact forM_addFixSeq n seq w1
        refine (key _ ?_).trans ?_
        · intro i st; cases Gen.Writer_add st i ↑n <;> rfl
        · cases Writer.addFixSeq w1 seq n <;> simp [liftW]

end Tls.Codec
