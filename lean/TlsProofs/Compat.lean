import TlsModel.Compat
import TlsProofs.Negotiate
/-
  Completeness side of C03 / C19: `compatible` settings complete a certificate handshake.
  Core Lean only.
-/
set_option linter.unusedSimpArgs false
namespace Tls.Neg
open Tls.Gen.Neg

/-! ## the ClientHello built from the settings -/

theorem offer_pskIds_nil {cs : Settings} {cc : ClientCfg} (h : cs.pskConfigs = []) : (clientOffer cs cc).pskIds = [] := by
  show (if cs.maxVersion ≥ 4 then _ else []) = []
  rw [h]; split <;> rfl

theorem offer_supportedVersions (cs : Settings) (cc : ClientCfg) :
    (clientOffer cs cc).supportedVersions = if cs.versions.any (· > 3) then some cs.versions else none := rfl

/-! ## highest common version -/

theorem commonVersion_spec {cs ss : Settings} {v : Nat} (h : commonVersion cs ss = some v) :
    versionCommon cs ss v = true ∧ v ≤ 4 ∧ ∀ w, w ≤ 4 → versionCommon cs ss w = true → w ≤ v := by
  have hf := List.find?_some h
  have hm := List.mem_of_find?_eq_some h
  refine ⟨hf, ?_, ?_⟩
  · simp only [List.mem_cons, List.not_mem_nil, or_false] at hm; omega
  · intro w hw hc
    unfold commonVersion at h
    have hw' : w = 0 ∨ w = 1 ∨ w = 2 ∨ w = 3 ∨ w = 4 := by omega
    simp only [List.find?_cons, List.find?_nil] at h
    by_cases h4 : versionCommon cs ss 4 = true
    · simp only [h4] at h; injection h with h; omega
    · simp only [h4] at h
      by_cases h3 : versionCommon cs ss 3 = true
      · simp only [h3] at h; injection h with h
        rcases hw' with e | e | e | e | e <;> subst e <;> first | omega | exact absurd hc h4
      · simp only [h3] at h
        by_cases h2 : versionCommon cs ss 2 = true
        · simp only [h2] at h; injection h with h
          rcases hw' with e | e | e | e | e <;> subst e <;> first | omega | exact absurd hc h4 | exact absurd hc h3
        · simp only [h2] at h
          by_cases h1 : versionCommon cs ss 1 = true
          · simp only [h1] at h; injection h with h
            rcases hw' with e | e | e | e | e <;> subst e <;>
              first | omega | exact absurd hc h4 | exact absurd hc h3 | exact absurd hc h2
          · simp only [h1] at h
            by_cases h0 : versionCommon cs ss 0 = true
            · simp only [h0] at h; injection h with h
              rcases hw' with e | e | e | e | e <;> subst e <;>
                first | omega | exact absurd hc h4 | exact absurd hc h3 | exact absurd hc h2 | exact absurd hc h1
            · simp only [h0] at h; cases h

/-! ## monad helpers (forward direction) -/

theorem failIf_false_bind {β} {c : Bool} {s : Side} {d : String} {f : Unit → Outcome β} (h : c = false) :
    (failIf c s d >>= f) = f () := by
  subst h; rfl

theorem ok_bind {α β} {x : Outcome α} {a : α} {f : α → Outcome β} (h : x = .ok a) : (x >>= f) = f a := by
  subst h; rfl

theorem failIf_false {c : Bool} {s : Side} {d : String} (h : c = false) : failIf c s d = .ok () := by
  subst h; rfl

/-! ## what `wf` says -/

theorem wf_spec {s : Settings} (h : s.wf = true) :
    s.minVersion ≤ s.maxVersion ∧ s.maxVersion ≤ 4 ∧
    (s.maxVersion < 4 → ∀ w ∈ s.versions, w < 4) ∧ (4 ≤ s.maxVersion → 4 ∈ s.versions) ∧
    (∀ w, 1 ≤ w → w ≤ 4 → s.minVersion ≤ w → w ≤ s.maxVersion → w ∈ s.versions) ∧
    s.versions.Pairwise (· > ·) ∧
    (s.recordSizeLimit = 0 ∨ (64 ≤ s.recordSizeLimit ∧ s.recordSizeLimit ≤ maxRec + 1)) := by
  unfold Settings.wf at h
  simp only [Bool.and_eq_true, Bool.or_eq_true, decide_eq_true_eq, List.all_eq_true, List.contains_iff_mem,
    beq_iff_eq] at h
  obtain ⟨⟨⟨⟨⟨⟨h1, h2⟩, h3⟩, h4⟩, h5⟩, h6⟩, h7⟩ := h
  refine ⟨h1, h2, ?_, ?_, ?_, h6, h7⟩
  · intro hlt w hw
    rcases h3 with h3 | h3
    · omega
    · exact h3 w hw
  · intro hge
    rcases h4 with h4 | h4
    · omega
    · exact h4
  · intro w hw1 hw4 hmin hmax
    have hw : w ∈ [1, 2, 3, 4] := by
      simp only [List.mem_cons, List.not_mem_nil, or_false]; omega
    have := h5 w hw
    simp only [Bool.not_eq_eq_eq_not, Bool.not_true, Bool.and_eq_false_imp, decide_eq_true_eq,
      decide_eq_false_iff_not] at this
    rcases this with h | h
    · exact absurd hmax (h hmin)
    · exact h

theorem foldl_realVersion_ge {vs : List Nat} {a : Nat} :
    a ≤ vs.foldl (fun acc v => if v ≤ 4 && v > acc then v else acc) a ∧
    ∀ w ∈ vs, w ≤ 4 → w ≤ vs.foldl (fun acc v => if v ≤ 4 && v > acc then v else acc) a := by
  induction vs generalizing a with
  | nil => exact ⟨Nat.le_refl _, fun w hw => by cases hw⟩
  | cons x t ih =>
    rw [List.foldl_cons]
    have hstep : a ≤ (if (decide (x ≤ 4) && decide (x > a)) = true then x else a) := by
      split
      · rename_i hc; simp only [Bool.and_eq_true, decide_eq_true_eq] at hc; omega
      · exact Nat.le_refl _
    obtain ⟨ih1, ih2⟩ := @ih (if (decide (x ≤ 4) && decide (x > a)) = true then x else a)
    refine ⟨Nat.le_trans hstep ih1, ?_⟩
    intro w hw hw4
    rcases List.mem_cons.mp hw with e | e
    · subst e
      have : w ≤ (if (decide (w ≤ 4) && decide (w > a)) = true then w else a) := by
        split
        · exact Nat.le_refl _
        · rename_i hc; simp only [Bool.and_eq_true, decide_eq_true_eq, not_and] at hc; have := hc hw4; omega
      exact Nat.le_trans this ih1
    · exact ih2 w e hw4

theorem firstMatching_isSome {l ms : List Nat} {x : Nat} (hx : x ∈ l) (hm : x ∈ ms) :
    ∃ y, firstMatching l ms = some y := by
  unfold firstMatching
  cases h : l.find? (ms.contains ·) with
  | some y => exact ⟨y, rfl⟩
  | none =>
    have := List.find?_eq_none.mp h x hx
    exact absurd (List.contains_iff_mem.mpr hm) this

/-- the server settles on the highest common version -/
theorem serverVersion_of_common {cs ss : Settings} {cc : ClientCfg} {v : Nat}
    (hwc : cs.wf = true) (hws : ss.wf = true) (hsane : clientHelloSane cs cc = true)
    (hv : commonVersion cs ss = some v) :
    serverVersion ss (clientOffer cs cc) = .ok v := by
  obtain ⟨hcom, hv4, hmaxv⟩ := commonVersion_spec hv
  obtain ⟨c1, c2, c3, c4, c5, c6, _⟩ := wf_spec hwc
  obtain ⟨s1, s2, s3, s4, s5, s6, _⟩ := wf_spec hws
  have hcom' := hcom
  unfold versionCommon at hcom'
  simp only [Bool.and_eq_true, decide_eq_true_eq, Bool.or_eq_true, Bool.not_eq_eq_eq_not, Bool.not_true,
    List.contains_iff_mem] at hcom'
  obtain ⟨⟨⟨⟨v1, v2⟩, v3⟩, v4⟩, v5⟩ := hcom'
  have hsv := offer_supportedVersions cs cc
  have hcv : (clientOffer cs cc).clientVersion = min cs.maxVersion 3 := rfl
  have hsane' : serverSanity13 (clientOffer cs cc) = .ok () := by
    unfold clientHelloSane at hsane; exact eq_of_beq hsane
  unfold serverVersion
  by_cases h13 : cs.versions.any (· > 3) = true
  · -- the client sends supported_versions
    rw [if_pos h13] at hsv
    have hmem : v ∈ cs.versions ∧ v ∈ ss.versions := by
      rcases v5 with h | h
      · rw [h13] at h; cases h
      · exact h
    have hc4 : cs.maxVersion = 4 := by
      by_cases hlt : cs.maxVersion < 4
      · exfalso
        rw [List.any_eq_true] at h13
        obtain ⟨w, hw, hw3⟩ := h13
        have := c3 hlt w hw
        simp only [gt_iff_lt, decide_eq_true_eq] at hw3; omega
      · omega
    have hreal : ss.minVersion ≤ offerRealVersion (clientOffer cs cc) := by
      unfold offerRealVersion
      rw [hsv, hcv, hc4]
      have h43 : min 4 3 = 3 := rfl
      simp only [h43, ge_iff_le, Nat.le_refl, if_true]
      have := (@foldl_realVersion_ge cs.versions 3).2 v hmem.1 hv4
      exact Nat.le_trans v3 this
    rw [failIf_false_bind (by simp only [decide_eq_false_iff_not, Nat.not_lt]; exact hreal)]
    rw [ok_bind hsane']
    unfold pickVersion
    rw [hsv]
    have hvf : v ∈ ss.versions.filter (fun i => decide (ss.minVersion ≤ i) && decide (i ≤ ss.maxVersion)) := by
      rw [List.mem_filter]
      exact ⟨hmem.2, by simp only [Bool.and_eq_true, decide_eq_true_eq]; exact ⟨v3, v4⟩⟩
    obtain ⟨y, hy⟩ := firstMatching_isSome hvf hmem.1
    simp only [hy]
    have hyge := firstMatching_max hy (List.Pairwise.filter _ s6) v hvf hmem.1
    obtain ⟨hy1, hy2⟩ := firstMatching_some hy
    obtain ⟨hy3, hy4⟩ := List.mem_filter.mp hy1
    simp only [Bool.and_eq_true, decide_eq_true_eq] at hy4
    have hycom : versionCommon cs ss y = true := by
      unfold versionCommon
      simp only [Bool.and_eq_true, decide_eq_true_eq, Bool.or_eq_true, Bool.not_eq_eq_eq_not, Bool.not_true,
        List.contains_iff_mem]
      exact ⟨⟨⟨⟨by omega, by omega⟩, hy4.1⟩, hy4.2⟩, Or.inr ⟨hy2, hy3⟩⟩
    have := hmaxv y (by omega) hycom
    have : y = v := by omega
    rw [this]; rfl
  · -- no supported_versions: the legacy version field
    rw [if_neg h13] at hsv
    have hc3 : cs.maxVersion ≤ 3 := by
      by_cases h4 : 4 ≤ cs.maxVersion
      · exfalso; apply h13
        rw [List.any_eq_true]
        exact ⟨4, c4 h4, by simp⟩
      · omega
    have hreal : ss.minVersion ≤ offerRealVersion (clientOffer cs cc) := by
      unfold offerRealVersion
      rw [hsv, hcv]
      have e1 : min cs.maxVersion 3 = cs.maxVersion := Nat.min_eq_left hc3
      simp only [e1]; omega
    rw [failIf_false_bind (by simp only [decide_eq_false_iff_not, Nat.not_lt]; exact hreal)]
    rw [ok_bind hsane']
    unfold pickVersion
    rw [hsv, hcv]
    -- m = min of the two maxima is common, hence equal to v
    have hm : versionCommon cs ss (min cs.maxVersion ss.maxVersion) = true := by
      unfold versionCommon
      simp only [Bool.and_eq_true, decide_eq_true_eq, Bool.or_eq_true, Bool.not_eq_eq_eq_not, Bool.not_true,
        List.contains_iff_mem]
      refine ⟨⟨⟨⟨by omega, Nat.min_le_left _ _⟩, by omega⟩, Nat.min_le_right _ _⟩, Or.inl ?_⟩
      simpa using h13
    have := hmaxv _ (by omega) hm
    have hle : min cs.maxVersion ss.maxVersion ≤ v := this
    have e1 : min cs.maxVersion 3 = cs.maxVersion := Nat.min_eq_left hc3
    simp only [e1]
    by_cases hgt : cs.maxVersion > ss.maxVersion
    · rw [if_pos hgt]
      have e2 : min cs.maxVersion ss.maxVersion = ss.maxVersion := Nat.min_eq_right (by omega)
      have e3 : min ss.maxVersion 3 = ss.maxVersion := Nat.min_eq_left (by omega)
      rw [e3]; rw [e2] at hle
      have : v = ss.maxVersion := by omega
      rw [this]; rfl
    · rw [if_neg hgt]
      have e2 : min cs.maxVersion ss.maxVersion = cs.maxVersion := Nat.min_eq_left (by omega)
      rw [e2] at hle
      have : v = cs.maxVersion := by omega
      rw [this]; rfl

/-! ## the server's candidate list -/

/-- the list `_serverGetClientHello` builds for a certificate server (ECDHE / DHE / TLS 1.3 families only
    when the supported_groups intersect) -/
def gatedFamily (ss : Settings) (o : Offer) (v : Nat) : List Nat :=
  (if (groupIntersect ss o v).1 || (groupIntersect ss o v).2 then filterSuites tls13Suites ss v else []) ++
  (if (groupIntersect ss o v).1 then filterSuites ecdheEcdsaSuites ss v ++ filterSuites ecdheCertSuites ss v else []) ++
  (if (groupIntersect ss o v).2 then filterSuites dheCertSuites ss v ++ filterSuites dheDsaSuites ss v else []) ++
  filterSuites certSuites ss v

theorem serverSuites_cert {ss : Settings} {sc : ServerCfg} {o : Offer} {v : Nat} {c : Cred}
    (hdb : sc.hasDB = false) (hc : sc.cred = some c) :
    serverSuites ss sc o v = .ok (filterForVersion (gatedFamily ss o v) v) := by
  unfold serverSuites gatedFamily
  cases hgi : groupIntersect ss o v with
  | mk ec ff => simp [hdb, hc]

theorem mem_filterSuites_sub {l : List Nat} {st : Settings} {v s : Nat} (h : s ∈ filterSuites l st v) : s ∈ l :=
  (mem_filterSuites h).1

/-- closed facts about the generated family lists -/
def familyTablesOk : Bool :=
  (ecdheEcdsaSuites ++ ecdheCertSuites).all (fun s => ecdhAllSuites.contains s && !tls13Suites.contains s) &&
  (dheCertSuites ++ dheDsaSuites).all (fun s => dhAllSuites.contains s && !tls13Suites.contains s) &&
  certSuites.all (fun s => !tls13Suites.contains s && certAllSuites.contains s) &&
  tls13Suites.all (fun s => !ssl3Suites.contains s && !tls12Suites.contains s) &&
  (ssl3Suites ++ tls12Suites).all (fun s => !tls13Suites.contains s)

theorem familyTablesOk_holds : familyTablesOk = true := by decide

theorem mem_filterForVersion_iff {l : List Nat} {v s : Nat} :
    s ∈ filterForVersion l v ↔ s ∈ l ∧
      s ∈ (if v ≤ 3 then ssl3Suites else []) ++ (if v == 3 then tls12Suites else []) ++ (if v > 3 then tls13Suites else []) := by
  unfold filterForVersion
  simp only [List.mem_filter, List.contains_iff_mem]

theorem mem_filterForCertificate_iff {l : List Nat} {c : Option Cred} {s : Nat} :
    s ∈ filterForCertificate l c ↔ s ∈ l ∧ s ∈ filterForCertificate [s] c := by
  unfold filterForCertificate
  simp only [List.mem_filter, List.contains_iff_mem, List.mem_singleton, true_and]

theorem ecShared_of_works {cs ss : Settings} {cc : ClientCfg} {cred : Cred} {v s : Nat}
    (hw : suiteWorks cs ss cc cred v s = true) (h13 : tls13Suites.contains s = false)
    (hec : ecdhAllSuites.contains s = true) : ecShared cs ss cc v = true := by
  unfold suiteWorks at hw
  rw [h13] at hw
  simp only [Bool.false_eq_true, if_false, Bool.and_eq_true, Bool.or_eq_true, Bool.not_eq_eq_eq_not,
    Bool.not_true] at hw
  rcases hw.1.1 with h | h
  · rw [hec] at h; cases h
  · exact h

theorem dhShared_of_works {cs ss : Settings} {cc : ClientCfg} {cred : Cred} {v s : Nat}
    (hw : suiteWorks cs ss cc cred v s = true) (h13 : tls13Suites.contains s = false)
    (hdh : dhAllSuites.contains s = true) : dhShared cs ss cc = true := by
  unfold suiteWorks at hw
  rw [h13] at hw
  simp only [Bool.false_eq_true, if_false, Bool.and_eq_true, Bool.or_eq_true, Bool.not_eq_eq_eq_not,
    Bool.not_true] at hw
  rcases hw.1.2 with h | h
  · rw [hdh] at h; cases h
  · exact h

theorem ec_gate {cs ss : Settings} {cc : ClientCfg} {v : Nat} (h : ecShared cs ss cc v = true) :
    (groupIntersect ss (clientOffer cs cc) v).1 = true := by
  unfold ecShared at h
  unfold groupIntersect
  cases hgr : (clientOffer cs cc).groups with
  | none => rfl
  | some cg =>
    simp only [hgr, Bool.and_eq_true] at h ⊢
    obtain ⟨h1, _⟩ := h
    rw [List.any_eq_true] at h1
    obtain ⟨g, hg1, hg2⟩ := h1
    obtain ⟨y, hy⟩ := firstMatching_isSome hg1 (List.contains_iff_mem.mp hg2)
    rw [hy]; rfl

theorem ff_gate {cs ss : Settings} {cc : ClientCfg} {v : Nat} (h : dhShared cs ss cc = true) :
    (groupIntersect ss (clientOffer cs cc) v).2 = true := by
  unfold dhShared at h
  unfold groupIntersect
  cases hgr : (clientOffer cs cc).groups with
  | none => rfl
  | some cg =>
    simp only [hgr] at h ⊢
    split at h
    · rename_i hany
      rw [List.any_eq_true] at hany
      obtain ⟨g, hg1, hg2⟩ := hany
      obtain ⟨y, hy⟩ := firstMatching_isSome hg1 (List.contains_iff_mem.mp hg2)
      rw [hy]; rfl
    · simp only [Bool.and_eq_true] at h
      split
      · rfl
      · exact h.1

theorem mem_certUsable_iff {l : List Nat} {c : Option Cred} {v s : Nat} :
    s ∈ certUsable l c v ↔ s ∈ l ∧ s ∈ certUsable [s] c v := by
  unfold certUsable
  split
  · simp
  · exact mem_filterForCertificate_iff

/-- a common suite that works is in the gated list -/
theorem works_mem_gated {cs ss : Settings} {cc : ClientCfg} {cred : Cred} {v s : Nat} (hv4 : v ≤ 4)
    (hs : s ∈ filterForVersion (certFamily ss v) v) (hw : suiteWorks cs ss cc cred v s = true) :
    s ∈ filterForVersion (gatedFamily ss (clientOffer cs cc) v) v := by
  rw [mem_filterForVersion_iff] at hs ⊢
  refine ⟨?_, hs.2⟩
  obtain ⟨hfam, hver⟩ := hs
  have ht := familyTablesOk_holds
  unfold familyTablesOk at ht
  simp only [Bool.and_eq_true, List.all_eq_true] at ht
  obtain ⟨⟨⟨⟨t1, t2⟩, t3⟩, t4⟩, t5⟩ := ht
  unfold certFamily at hfam
  unfold gatedFamily
  simp only [List.mem_append] at hfam ⊢
  rcases hfam with ((((h | h) | h) | h) | h) | h
  · -- TLS 1.3 suite: the supported_groups intersect
    have hts : tls13Suites.contains s = true := List.contains_iff_mem.mpr (mem_filterSuites_sub h)
    have hv : v = 4 := by
      have := t4 s (mem_filterSuites_sub h)
      simp only [Bool.and_eq_true, Bool.not_eq_eq_eq_not, Bool.not_true] at this
      by_cases hle : v ≤ 3
      · exfalso
        simp only [hle, if_true, List.mem_append] at hver
        rcases hver with (h1 | h1) | h1
        · rw [List.contains_iff_mem.mpr h1] at this; cases this.1
        · split at h1
          · rw [List.contains_iff_mem.mpr h1] at this; cases this.2
          · cases h1
        · have : ¬ v > 3 := by omega
          simp only [this, if_false] at h1; cases h1
      · omega
    unfold suiteWorks at hw
    rw [if_pos hts] at hw
    unfold group13Shared at hw
    simp only [Bool.and_eq_true] at hw
    have hg := hw.2
    subst hv
    left; left; left
    have : ((groupIntersect ss (clientOffer cs cc) 4).1 || (groupIntersect ss (clientOffer cs cc) 4).2) = true := by
      unfold groupIntersect
      cases hgr : (clientOffer cs cc).groups with
      | none => rfl
      | some cg =>
        simp only [hgr, Option.getD_some] at hg ⊢
        simp only [Bool.or_eq_true] at hg ⊢
        rcases hg with (hg | hg) | hg
        · left
          rw [List.any_eq_true] at hg
          obtain ⟨g, hg1, hg2⟩ := hg
          obtain ⟨y, hy⟩ := firstMatching_isSome hg1 (List.contains_iff_mem.mp hg2)
          rw [hy]; rfl
        · right
          rw [List.any_eq_true] at hg
          obtain ⟨g, hg1, hg2⟩ := hg
          obtain ⟨y, hy⟩ := firstMatching_isSome hg1 (List.contains_iff_mem.mp hg2)
          rw [hy]; rfl
        · right
          split
          · rfl
          · exact hg
    rw [if_pos this]; exact h
  · -- ECDHE_ECDSA
    have hx := t1 s (List.mem_append_left _ (mem_filterSuites_sub h))
    simp only [Bool.and_eq_true, Bool.not_eq_eq_eq_not, Bool.not_true] at hx
    have hec := ecShared_of_works hw hx.2 hx.1
    left; left; right
    rw [if_pos (ec_gate hec)]
    exact List.mem_append_left _ h
  · -- ECDHE_RSA
    have hx := t1 s (List.mem_append_right _ (mem_filterSuites_sub h))
    simp only [Bool.and_eq_true, Bool.not_eq_eq_eq_not, Bool.not_true] at hx
    have hec := ecShared_of_works hw hx.2 hx.1
    left; left; right
    rw [if_pos (ec_gate hec)]
    exact List.mem_append_right _ h
  · -- DHE_RSA
    have hx := t2 s (List.mem_append_left _ (mem_filterSuites_sub h))
    simp only [Bool.and_eq_true, Bool.not_eq_eq_eq_not, Bool.not_true] at hx
    have hdh := dhShared_of_works hw hx.2 hx.1
    left; right
    rw [if_pos (ff_gate hdh)]
    exact List.mem_append_left _ h
  · -- DHE_DSS
    have hx := t2 s (List.mem_append_right _ (mem_filterSuites_sub h))
    simp only [Bool.and_eq_true, Bool.not_eq_eq_eq_not, Bool.not_true] at hx
    have hdh := dhShared_of_works hw hx.2 hx.1
    left; right
    rw [if_pos (ff_gate hdh)]
    exact List.mem_append_right _ h
  · right; exact h

theorem gated_sub_family {ss : Settings} {o : Offer} {v s : Nat} (h : s ∈ gatedFamily ss o v) : s ∈ certFamily ss v := by
  unfold gatedFamily at h
  unfold certFamily
  simp only [List.mem_append] at h ⊢
  rcases h with ((h | h) | h) | h
  · split at h
    · exact Or.inl (Or.inl (Or.inl (Or.inl (Or.inl h))))
    · cases h
  · split at h
    · simp only [List.mem_append] at h
      rcases h with h | h
      · exact Or.inl (Or.inl (Or.inl (Or.inl (Or.inr h))))
      · exact Or.inl (Or.inl (Or.inl (Or.inr h)))
    · cases h
  · split at h
    · simp only [List.mem_append] at h
      rcases h with h | h
      · exact Or.inl (Or.inl (Or.inr h))
      · exact Or.inl (Or.inr h)
    · cases h
  · exact Or.inr h

theorem prfFiltered_no_psk {cs ss : Settings} {cc : ClientCfg} {v : Nat} {c : Option Cred} {l : List Nat}
    (h : cs.pskConfigs = []) : prfFiltered ss (clientOffer cs cc) v c l = l := by
  unfold prfFiltered pskPrfs
  rw [offer_pskIds_nil h]
  simp

theorem pickSig_of_shared {cs ss : Settings} {cc : ClientCfg} {cred : Cred} {v : Nat}
    (h : sigShared cs ss cred v = true) (hvc : v ≤ cs.maxVersion) :
    ∃ sig, pickSig ss (clientOffer cs cc) (some cred) v = some sig ∧
      (sig ≠ 0 → 3 ≤ v → sig ∈ ((clientOffer cs cc).sigAlgs.getD []) ∧
                 sig ∈ sigHashesToList cs none (some cred) (if v > 3 then 4 else 3)) ∧
      (4 ≤ v → sig ∈ ((clientOffer cs cc).sigAlgs.getD []) ∧ sig ∈ sigHashesToList cs none (some cred) 4) := by
  have hso : (clientOffer cs cc).sigAlgs = clientSigAlgs cs := rfl
  unfold sigShared at h
  unfold pickSig
  by_cases hlt : v < 3
  · rw [if_pos hlt]
    exact ⟨0, rfl, fun h0 => absurd rfl h0, fun h4 => by omega⟩
  rw [if_neg hlt, hso]
  have hd : decide (v < 3) = false := by simpa using hlt
  rw [hd, Bool.false_or] at h
  cases hca : clientSigAlgs cs with
  | none =>
    refine ⟨0, rfl, fun h0 => absurd rfl h0, fun h4 => ?_⟩
    -- a client without signature_algorithms has maxVersion below TLS 1.2: never TLS 1.3 (vacuous here)
    exfalso
    unfold clientSigAlgs at hca
    split at hca
    · cases hca
    · rename_i hlt
      omega
  | some algs =>
    rw [hca] at h
    simp only [Bool.and_eq_true, List.any_eq_true, List.all_eq_true] at h
    obtain ⟨⟨a, ha1, ha2⟩, hall⟩ := h
    obtain ⟨y, hy⟩ := firstMatching_isSome ha1 (List.contains_iff_mem.mp ha2)
    obtain ⟨hy1, hy2⟩ := firstMatching_some hy
    have hacc := hall y hy1
    simp only [Bool.or_eq_true, Bool.not_eq_eq_eq_not, Bool.not_true, List.contains_iff_mem] at hacc
    have hacc' : y ∈ sigHashesToList cs none (some cred) (if v > 3 then 4 else 3) := by
      rcases hacc with hh | hh
      · rw [List.contains_iff_mem.mpr hy2] at hh; cases hh
      · exact hh
    refine ⟨y, hy, fun _ _ => ⟨by simpa [Option.getD] using hy2, hacc'⟩, fun h4 => ⟨by simpa [Option.getD] using hy2, ?_⟩⟩
    have := hacc'
    rw [if_pos (by omega)] at this
    exact this

theorem checkServerCurve_of_listed {cs : Settings} {cc : ClientCfg} {sc : ServerCfg} {cred : Cred} {v : Nat}
    (hc : sc.cred = some cred) (h : serverCurveListed cs cc cred v = true) :
    checkServerCurve sc (clientOffer cs cc) v = .ok () := by
  unfold checkServerCurve
  rw [hc]
  have hso : (clientOffer cs cc).sigAlgs = clientSigAlgs cs := rfl
  unfold serverCurveListed clientGroups at h
  rw [hso]
  simp only
  split
  · rename_i hcond
    rw [hcond] at h
    simp only [Bool.not_true, Bool.false_or, Bool.and_eq_true, Bool.or_eq_true, decide_eq_true_eq] at h
    have g1 : (decide (v ≤ 3) && !(groupId cred.curve).any ((clientOffer cs cc).groups.getD []).contains) = false := by
      rcases h.1 with h1 | h1
      · have : decide (v ≤ 3) = false := by simp; omega
        rw [this]; rfl
      · rw [h1]; simp
    have g2 : (decide (v ≥ 4) && (curveHash cred.curve).isNone) = false := by
      rcases h.2 with h2 | h2
      · have : decide (v ≥ 4) = false := by simp; omega
        rw [this]; rfl
      · cases hh : curveHash cred.curve with
        | none => rw [hh] at h2; cases h2
        | some x => simp
    rw [failIf_false_bind g1, failIf_false g2]
  · rfl

/-- the server finds a suite and a signature scheme; the suite is one of the common suites -/
theorem selectCertificate_of_compatible {cs ss : Settings} {cc : ClientCfg} {sc : ServerCfg} {cred : Cred} {v : Nat}
    (hv4 : v ≤ 4) (hvc : v ≤ cs.maxVersion)
    (hfl : cc.flavour = .cert) (hpsk : cs.pskConfigs = []) (hc : sc.cred = some cred)
    (hne : (commonSuites cs ss cred v).isEmpty = false)
    (hall : (commonSuites cs ss cred v).all (suiteWorks cs ss cc cred v) = true)
    (hsig : sigShared cs ss cred v = true) (hcurve : serverCurveListed cs cc cred v = true) :
    ∃ s₀ sig, selectCertificate ss sc (clientOffer cs cc) (filterForVersion (gatedFamily ss (clientOffer cs cc) v) v) v
                = .ok (s₀, sig) ∧
      s₀ ∈ commonSuites cs ss cred v ∧ s₀ ∈ filterForVersion (gatedFamily ss (clientOffer cs cc) v) v ∧
      pickSig ss (clientOffer cs cc) (some cred) v = some sig := by
  have hos : (clientOffer cs cc).suites = clientSuites cs .cert := by
    show clientSuites cs cc.flavour = _; rw [hfl]
  -- some common suite exists and, working, it is in the gated list
  obtain ⟨s, hs⟩ : ∃ s, s ∈ commonSuites cs ss cred v := by
    cases hl : commonSuites cs ss cred v with
    | nil => rw [hl] at hne; cases hne
    | cons a t => exact ⟨a, List.mem_cons_self⟩
  have hmem_common : ∀ x, x ∈ commonSuites cs ss cred v →
      x ∈ certUsable (filterForVersion (gatedFamily ss (clientOffer cs cc) v) v) (some cred) v ∧
      (clientOffer cs cc).suites.contains x = true := by
    intro x hx
    have hw := List.all_eq_true.mp hall x hx
    unfold commonSuites at hx
    obtain ⟨hx1, hx2⟩ := List.mem_filter.mp hx
    rw [mem_certUsable_iff] at hx1 ⊢
    exact ⟨⟨works_mem_gated hv4 hx1.1 hw, hx1.2⟩, by rw [hos]; exact hx2⟩
  unfold selectCertificate
  rw [hc, prfFiltered_no_psk hpsk]
  cases hfind : (certUsable (filterForVersion (gatedFamily ss (clientOffer cs cc) v) v) (some cred) v).find?
      ((clientOffer cs cc).suites.contains ·) with
  | none =>
    have := List.find?_eq_none.mp hfind s (hmem_common s hs).1
    exact absurd (hmem_common s hs).2 this
  | some s₀ =>
    have h1 := List.mem_of_find?_eq_some hfind
    have h2 := List.find?_some hfind
    obtain ⟨sig, hsig1, _⟩ := pickSig_of_shared (cc := cc) hsig hvc
    have hcurve' := checkServerCurve_of_listed hc hcurve
    refine ⟨s₀, sig, ?_, ?_, ?_, hsig1⟩
    · simp only [hsig1]
      rw [ok_bind hcurve']; rfl
    · unfold commonSuites
      rw [List.mem_filter]
      rw [mem_certUsable_iff] at h1 ⊢
      refine ⟨⟨?_, h1.2⟩, by rw [← hos]; exact h2⟩
      rw [mem_filterForVersion_iff] at h1 ⊢
      exact ⟨gated_sub_family h1.1.1, h1.1.2⟩
    · exact (mem_certUsable_iff.mp h1).1

/-! ## the server's first flight, TLS ≤ 1.2 -/

/-- the ServerHello flight `serverSelect12` ends with -/
def sel12 (ss : Settings) (sc : ServerCfg) (o : Offer) (v suite sig dh g : Nat) : Selection :=
  { version := v, suite := suite
    etm := ss.useEtM && o.etm && !streamSuites.contains suite && !aeadSuites.contains suite
    ems := ss.useEMS && o.ems && decide (v > 0)
    alpn := if (!o.alpn.isEmpty && !sc.alpn.isEmpty) then (o.alpn.find? (sc.alpn.contains ·)).getD "" else ""
    rslEcho := if (o.recordSizeLimit != 0 && ss.recordSizeLimit != 0) then min maxRec ss.recordSizeLimit else 0
    group := g, dhBits := dh
    sigScheme := if (((isCertKxSuite suite && !certSuites.contains suite) || srpCertSuites.contains suite) && v == 3)
                 then sig else 0
    sendsCert := certAllSuites.contains suite || ecdheEcdsaSuites.contains suite || dheDsaSuites.contains suite
    certReq := if isCertKxSuite suite && sc.reqCert then some (sigHashesToList ss none none v) else none
    psk := none, hrr := false
    sSend := if (o.recordSizeLimit != 0 && ss.recordSizeLimit != 0) then min maxRec o.recordSizeLimit else maxRec
    sRecv := if (o.recordSizeLimit != 0 && ss.recordSizeLimit != 0) then min maxRec ss.recordSizeLimit else maxRec
    sentinel := if v == 3 && ss.maxVersion > 3 then 2 else if v < 3 && ss.maxVersion ≥ 3 then 1 else 0 }

theorem serverSelect12_forward {ss : Settings} {sc : ServerCfg} {o : Offer} {v suite sig dh g : Nat}
    (g1 : (ss.useEMS && !(o.ems && decide (v > 0)) && ss.requireEMS) = false)
    (g2 : (!o.alpn.isEmpty && !sc.alpn.isEmpty && (o.alpn.find? (sc.alpn.contains ·)).isNone) = false)
    (hdh : dhSelect ss sc o suite = .ok dh) (hec : ecSelect ss o v suite = .ok g)
    (gA : (((isCertKxSuite suite && !certSuites.contains suite) || srpCertSuites.contains suite) && decide (v < 3) &&
           ((sc.cred.map (·.certAlg)).getD "" == "Ed25519" || (sc.cred.map (·.certAlg)).getD "" == "Ed448")) = false)
    (gB : (((isCertKxSuite suite && !certSuites.contains suite) || srpCertSuites.contains suite) && decide (v < 3) &&
           (sc.cred.map (·.certAlg)).getD "" == "rsa-pss") = false)
    (gC : isCertKxSuite suite = true) :
    serverSelect12 ss sc o v suite sig = .ok (sel12 ss sc o v suite sig dh g) := by
  simp only [serverSelect12]
  rw [failIf_false_bind g1, failIf_false_bind g2, ok_bind hdh, ok_bind hec, if_neg (by rw [gA]; simp),
    if_neg (by rw [gB]; simp), if_neg (by rw [gC]; simp)]
  rfl

def familyTablesOk2 : Bool :=
  (ecdheEcdsaSuites ++ ecdheCertSuites ++ dheCertSuites ++ dheDsaSuites ++ certSuites).all
    (fun s => !srpAllSuites.contains s && !srpCertSuites.contains s)

theorem familyTablesOk2_holds : familyTablesOk2 = true := by decide

theorem firstMatching_none_of_not_any {l ms : List Nat} (h : l.any ms.contains = false) : firstMatching l ms = none := by
  unfold firstMatching
  rw [List.find?_eq_none]
  intro x hx hc
  have : l.any ms.contains = true := List.any_eq_true.mpr ⟨x, hx, hc⟩
  rw [h] at this; cases this

theorem dhSelect_of_shared {cs ss : Settings} {cc : ClientCfg} {sc : ServerCfg} {s : Nat}
    (hsrp : srpAllSuites.contains s = false)
    (hdh : dhAllSuites.contains s = true → dhShared cs ss cc = true) :
    ∃ dh, dhSelect ss sc (clientOffer cs cc) s = .ok dh ∧ (dhAllSuites.contains s = true → dhBitsOk cs dh = true) := by
  unfold dhSelect
  by_cases hd : dhAllSuites.contains s = true
  · have hsh := hdh hd
    unfold dhShared at hsh
    simp only [hd, if_true]
    cases hgr : (clientOffer cs cc).groups with
    | none =>
      simp only [hgr] at hsh ⊢
      exact ⟨_, rfl, fun _ => hsh⟩
    | some cg =>
      simp only [hgr] at hsh ⊢
      by_cases hany : cg.any (groupNamesToList ss).contains = true
      · rw [if_pos hany] at hsh
        rw [List.any_eq_true] at hany
        obtain ⟨x, hx1, hx2⟩ := hany
        obtain ⟨y, hy⟩ := firstMatching_isSome hx1 (List.contains_iff_mem.mp hx2)
        obtain ⟨hy1, hy2⟩ := firstMatching_some hy
        have hne : (!ss.dhGroups.isEmpty) = true := by
          cases hl : ss.dhGroups with
          | nil => unfold groupNamesToList groupIdsOf at hy2; rw [hl] at hy2; cases hy2
          | cons a t => rfl
        rw [if_pos hne, hy]
        refine ⟨_, rfl, fun _ => ?_⟩
        have := List.all_eq_true.mp hsh y hy1
        simp only [Bool.or_eq_true, Bool.not_eq_eq_eq_not, Bool.not_true] at this
        rcases this with h | h
        · rw [List.contains_iff_mem.mpr hy2] at h; cases h
        · exact h
      · have hany' : cg.any (groupNamesToList ss).contains = false := by simpa using hany
        rw [if_neg hany] at hsh
        simp only [Bool.and_eq_true, Bool.not_eq_eq_eq_not, Bool.not_true] at hsh
        rw [firstMatching_none_of_not_any hany']
        split
        · simp only [hsh.1, Bool.false_eq_true, if_false]
          exact ⟨_, rfl, fun _ => hsh.2⟩
        · exact ⟨_, rfl, fun _ => hsh.2⟩
  · have hd' : dhAllSuites.contains s = false := by simpa using hd
    simp only [hd', hsrp, Bool.false_eq_true, if_false]
    exact ⟨0, rfl, fun h => by cases h⟩

theorem ecSelect_of_shared {cs ss : Settings} {cc : ClientCfg} {v s : Nat}
    (hec : ecdhAllSuites.contains s = true → ecShared cs ss cc v = true) :
    ∃ g, ecSelect ss (clientOffer cs cc) v s = .ok g ∧
      (ecdhAllSuites.contains s = true → (curveNamesToList cs 4).contains g = true) := by
  unfold ecSelect
  by_cases he : ecdhAllSuites.contains s = true
  · have hsh := hec he
    unfold ecShared at hsh
    simp only [he, if_true]
    have key : ∀ cgl : List Nat,
        (cgl.any (curveNamesToList ss v).contains &&
          cgl.all fun g => !(curveNamesToList ss v).contains g || (curveNamesToList cs 4).contains g) = true →
        ∃ g, (match firstMatching cgl (curveNamesToList ss v) with
              | some g => Outcome.ok g
              | none => Outcome.alert Side.server "insufficient_security") = Outcome.ok g ∧
             (True → (curveNamesToList cs 4).contains g = true) := by
      intro cgl hsh
      simp only [Bool.and_eq_true, List.any_eq_true, List.all_eq_true] at hsh
      obtain ⟨⟨x, hx1, hx2⟩, hall⟩ := hsh
      obtain ⟨y, hy⟩ := firstMatching_isSome hx1 (List.contains_iff_mem.mp hx2)
      obtain ⟨hy1, hy2⟩ := firstMatching_some hy
      rw [hy]
      refine ⟨y, rfl, fun _ => ?_⟩
      have := hall y hy1
      simp only [Bool.or_eq_true, Bool.not_eq_eq_eq_not, Bool.not_true] at this
      rcases this with h | h
      · rw [List.contains_iff_mem.mpr hy2] at h; cases h
      · exact h
    cases hgr : (clientOffer cs cc).groups with
    | none => simp only [hgr] at hsh ⊢; exact key _ hsh
    | some cg => simp only [hgr] at hsh ⊢; exact key _ hsh
  · have he' : ecdhAllSuites.contains s = false := by simpa using he
    simp only [he', Bool.false_eq_true, if_false]
    exact ⟨0, rfl, fun h => by cases h⟩

/-! ## the client, TLS ≤ 1.2 -/

theorem checkCertChain_of_accepted {st : Settings} {side : Side} {c : Cred} {v : Nat}
    (h : certAccepted st c v = true) : checkCertChain st side c v = .ok () := by
  unfold certAccepted at h
  unfold checkCertChain
  split at h
  · rename_i he
    rw [if_pos he]
    simp only [Bool.and_eq_true, Bool.or_eq_true, decide_eq_true_eq] at h
    obtain ⟨h1, h2⟩ := h
    have g1 : (decide (v ≤ 3) && !st.eccCurves.contains c.curve) = false := by
      rcases h1 with h1 | h1
      · have : decide (v ≤ 3) = false := by simp; omega
        rw [this]; rfl
      · rw [h1]; simp
    have g2 : (decide (v ≥ 4) && (curveHash c.curve).isNone) = false := by
      rcases h2 with h2 | h2
      · have : decide (v ≥ 4) = false := by simp; omega
        rw [this]; rfl
      · cases hh : curveHash c.curve with
        | none => rw [hh] at h2; cases h2
        | some x => simp
    have g3 : (decide (v ≥ 4) && !(curveHash c.curve).any st.ecdsaSigHashes.contains) = false := by
      rcases h2 with h2 | h2
      · have : decide (v ≥ 4) = false := by simp; omega
        rw [this]; rfl
      · rw [h2]; simp
    rw [failIf_false_bind g1, failIf_false_bind g2, failIf_false g3]
  · rename_i he
    rw [if_neg he]
    split at h
    · rename_i hed
      rw [if_pos hed]
      simp only [Bool.and_eq_true, decide_eq_true_eq] at h
      have g1 : decide (v < 3) = false := by simp; omega
      have g2 : (!st.moreSigSchemes.contains c.certAlg) = false := by rw [h.2]; rfl
      rw [failIf_false_bind g1, failIf_false g2]
    · rename_i hed
      rw [if_neg hed]
      simp only [Bool.and_eq_true, decide_eq_true_eq] at h
      have g1 : decide (c.keyBits < st.minKeySize) = false := by simp; omega
      have g2 : decide (c.keyBits > st.maxKeySize) = false := by simp; omega
      rw [failIf_false_bind g1, failIf_false g2]

theorem clientAccept12_forward {cs : Settings} {cc : ClientCfg} {sc : ServerCfg} {o : Offer} {sel : Selection}
    (a1 : (!sel.ems && cs.requireEMS) = false)
    (a2 : (sel.alpn != "" && o.alpn.isEmpty) = false)
    (a3 : (sel.alpn != "" && !o.alpn.contains sel.alpn) = false)
    (a4 : (sel.rslEcho != 0 && !(decide (64 ≤ sel.rslEcho) && decide (sel.rslEcho ≤ maxRec))) = false)
    (a5 : (decide (cs.maxVersion > 3) && decide (sel.version ≤ 3) && sel.sentinel != 0) = false)
    (a6 : (cs.maxVersion == 3 && decide (sel.version < 3) && sel.sentinel == 1) = false)
    (hcert : clientCheckServerCert cs sc o sel = .ok ())
    (hdh : clientCheckDhSize cs sel = .ok ())
    (hkex : clientCheckKex cs sel = .ok ())
    (hreq : sel.certReq = none) :
    ∃ p, clientAccept12 cs cc sc o sel = .ok p ∧ p.clientCert = none ∧ p.version = sel.version := by
  have hcr : clientCheckCertReq sel = .ok () := by unfold clientCheckCertReq; rw [hreq]; rfl
  have hsig : clientSig12 cs (if sel.certReq.isSome then cc.cred else none) sel = .ok 0 := by
    rw [hreq]; rfl
  have hown : clientCheckOwnCert cs (if sel.certReq.isSome then cc.cred else none) sel = .ok () := by
    rw [hreq]; rfl
  have heq : clientAccept12 cs cc sc o sel = .ok
      { version := sel.version, suite := sel.suite, group := sel.group, dhBits := sel.dhBits
        sigScheme := sel.sigScheme
        etm := sel.etm, ems := sel.ems, alpn := sel.alpn, serverName := o.serverName
        cSend := if sel.rslEcho != 0 then sel.rslEcho else maxRec
        cRecv := if sel.rslEcho != 0 then min maxRec cs.recordSizeLimit else maxRec
        sSend := sel.sSend, sRecv := sel.sRecv
        serverCert := serverCertOf sc sel, clientCert := if sel.certReq.isSome then cc.cred else none, clientSig := 0
        psk := none, hrr := false } := by
    simp only [clientAccept12]
    rw [failIf_false_bind a1, failIf_false_bind a2, failIf_false_bind a3, failIf_false_bind a4,
      failIf_false_bind a5, failIf_false_bind a6, ok_bind hcert, ok_bind hdh, ok_bind hcr, ok_bind hown,
      ok_bind hkex, ok_bind hsig]
    rfl
  exact ⟨_, heq, by simp [hreq], rfl⟩

/-! ## assembling TLS ≤ 1.2 -/

theorem versionCommon_intro {cs ss : Settings} {w : Nat}
    (h1 : cs.minVersion ≤ w) (h2 : w ≤ cs.maxVersion) (h3 : ss.minVersion ≤ w) (h4 : w ≤ ss.maxVersion)
    (h5 : cs.versions.any (fun x => decide (x > 3)) = true → w ∈ cs.versions ∧ w ∈ ss.versions) :
    versionCommon cs ss w = true := by
  unfold versionCommon
  simp only [Bool.and_eq_true, decide_eq_true_eq, Bool.or_eq_true, Bool.not_eq_eq_eq_not, Bool.not_true,
    List.contains_iff_mem]
  refine ⟨⟨⟨⟨h1, h2⟩, h3⟩, h4⟩, ?_⟩
  by_cases h : cs.versions.any (fun x => decide (x > 3)) = true
  · exact Or.inr (h5 h)
  · exact Or.inl (by simpa using h)

/-- the highest common version never trips the downgrade sentinel -/
theorem no_downgrade {cs ss : Settings} {v : Nat} (hwc : cs.wf = true) (hws : ss.wf = true)
    (hv : commonVersion cs ss = some v) (hv3 : v ≤ 3) :
    (decide (cs.maxVersion > 3) && decide (v ≤ 3) &&
      (if v == 3 && decide (ss.maxVersion > 3) then 2 else if decide (v < 3) && decide (ss.maxVersion ≥ 3) then 1 else 0) != 0) = false ∧
    (cs.maxVersion == 3 && decide (v < 3) &&
      (if v == 3 && decide (ss.maxVersion > 3) then 2 else if decide (v < 3) && decide (ss.maxVersion ≥ 3) then 1 else 0) == 1) = false := by
  obtain ⟨hcom, hv4, hmaxv⟩ := commonVersion_spec hv
  obtain ⟨c1, c2, c3, c4, c5, c6, _⟩ := wf_spec hwc
  obtain ⟨s1, s2, s3, s4, s5, s6, _⟩ := wf_spec hws
  unfold versionCommon at hcom
  simp only [Bool.and_eq_true, decide_eq_true_eq] at hcom
  obtain ⟨⟨⟨⟨v1, v2⟩, v3⟩, v4'⟩, _⟩ := hcom
  have k4 : cs.maxVersion > 3 → ss.maxVersion > 3 → False := by
    intro ha hb
    have := hmaxv 4 (by omega) (versionCommon_intro (by omega) (by omega) (by omega) (by omega)
      (fun _ => ⟨c4 (by omega), s4 (by omega)⟩))
    omega
  have k3 : v < 3 → 3 ≤ cs.maxVersion → 3 ≤ ss.maxVersion → False := by
    intro ha hb hc
    have := hmaxv 3 (by omega) (versionCommon_intro (by omega) (by omega) (by omega) (by omega)
      (fun _ => ⟨c5 3 (by omega) (by omega) (by omega) (by omega), s5 3 (by omega) (by omega) (by omega) (by omega)⟩))
    omega
  constructor
  · by_cases ha : cs.maxVersion > 3
    · have hb : ¬ ss.maxVersion > 3 := fun hb => k4 ha hb
      have hb' : decide (ss.maxVersion > 3) = false := by simpa using hb
      by_cases hc : v < 3
      · have : ¬ ss.maxVersion ≥ 3 := fun h => k3 hc (by omega) h
        have hd : decide (ss.maxVersion ≥ 3) = false := by simpa using this
        simp [hb', hd]
      · have hc' : decide (v < 3) = false := by simpa using hc
        simp [hb', hc']
    · have : decide (cs.maxVersion > 3) = false := by simpa using ha
      simp [this]
  · by_cases ha : cs.maxVersion = 3
    · by_cases hc : v < 3
      · have : ¬ ss.maxVersion ≥ 3 := fun h => k3 hc (by omega) h
        have hd : decide (ss.maxVersion ≥ 3) = false := by simpa using this
        have he : (v == 3) = false := by simp; omega
        simp [hd, he]
      · have hc' : decide (v < 3) = false := by simpa using hc
        simp [hc']
    · have : (cs.maxVersion == 3) = false := by simpa using ha
      simp [this]

/-- a suite of the certificate families that is defined below TLS 1.3 -/
theorem family_le12 {ss : Settings} {v s : Nat} (hv3 : v ≤ 3) (hs : s ∈ filterForVersion (certFamily ss v) v) :
    isCertKxSuite s = true ∧ tls13Suites.contains s = false ∧ srpAllSuites.contains s = false ∧
    srpCertSuites.contains s = false := by
  rw [mem_filterForVersion_iff] at hs
  obtain ⟨hfam, hver⟩ := hs
  have ht := familyTablesOk_holds
  unfold familyTablesOk at ht
  simp only [Bool.and_eq_true, List.all_eq_true] at ht
  obtain ⟨⟨⟨⟨t1, t2⟩, t3⟩, t4⟩, t5⟩ := ht
  have ht2 := familyTablesOk2_holds
  unfold familyTablesOk2 at ht2
  simp only [List.all_eq_true] at ht2
  have hnot13 : tls13Suites.contains s = false := by
    have hin : s ∈ ssl3Suites ++ tls12Suites := by
      simp only [hv3, if_true, List.mem_append] at hver
      rcases hver with (h | h) | h
      · exact List.mem_append_left _ h
      · split at h
        · exact List.mem_append_right _ h
        · cases h
      · have : ¬ v > 3 := by omega
        simp only [this, if_false] at h; cases h
    have := t5 s hin
    simpa using this
  unfold certFamily at hfam
  simp only [List.mem_append] at hfam
  have hfive : s ∈ ecdheEcdsaSuites ++ ecdheCertSuites ++ dheCertSuites ++ dheDsaSuites ++ certSuites := by
    simp only [List.mem_append]
    rcases hfam with ((((h | h) | h) | h) | h) | h
    · have := List.contains_iff_mem.mpr (mem_filterSuites_sub h)
      rw [hnot13] at this; cases this
    · exact Or.inl (Or.inl (Or.inl (Or.inl (mem_filterSuites_sub h))))
    · exact Or.inl (Or.inl (Or.inl (Or.inr (mem_filterSuites_sub h))))
    · exact Or.inl (Or.inl (Or.inr (mem_filterSuites_sub h)))
    · exact Or.inl (Or.inr (mem_filterSuites_sub h))
    · exact Or.inr (mem_filterSuites_sub h)
  have h2 := ht2 s hfive
  simp only [Bool.and_eq_true, Bool.not_eq_eq_eq_not, Bool.not_true] at h2
  refine ⟨?_, hnot13, h2.1, h2.2⟩
  unfold isCertKxSuite
  simp only [List.mem_append] at hfive
  simp only [Bool.or_eq_true, List.contains_iff_mem]
  rcases hfive with (((h | h) | h) | h) | h
  · exact Or.inr h
  · exact Or.inl (Or.inr h)
  · exact Or.inl (Or.inl (Or.inl (Or.inr h)))
  · exact Or.inl (Or.inl (Or.inr h))
  · exact Or.inl (Or.inl (Or.inl (Or.inl h)))

theorem serverFinish_noClientCert {ss : Settings} {sel : Selection} {p : Params} (h : p.clientCert = none) :
    serverFinish ss sel p = .ok p := by
  unfold serverFinish; rw [h]; rfl

theorem compatible_unpack {cs ss : Settings} {cc : ClientCfg} {sc : ServerCfg} {v : Nat} {cred : Cred}
    (hv : commonVersion cs ss = some v) (hc : sc.cred = some cred) (h : compatible cs ss cc sc = true) :
    (commonSuites cs ss cred v).isEmpty = false ∧
    (commonSuites cs ss cred v).all (suiteWorks cs ss cc cred v) = true ∧
    sigShared cs ss cred v = true ∧ certAccepted cs cred v = true ∧ serverCurveListed cs cc cred v = true ∧
    extensionsOk cs ss cc sc v = true := by
  unfold compatible at h
  rw [hv, hc] at h
  simp only [Bool.and_eq_true, Bool.not_eq_eq_eq_not, Bool.not_true] at h
  obtain ⟨⟨⟨⟨⟨h1, h2⟩, h3⟩, h4⟩, h5⟩, h6⟩ := h
  exact ⟨h1, h2, h3, h4, h5, h6⟩

/-- TLS ≤ 1.2 half of the completeness theorem -/
theorem compatible_completes_le12 {cs ss : Settings} {cc : ClientCfg} {sc : ServerCfg} {v : Nat}
    (hwc : cs.wf = true) (hws : ss.wf = true) (hplain : plainCert cs cc sc = true)
    (hsane : clientHelloSane cs cc = true) (hv : commonVersion cs ss = some v) (hv3 : v ≤ 3)
    (hcompat : compatible cs ss cc sc = true) :
    ∃ p, negotiate cs ss cc sc = .ok p := by
  -- scope
  unfold plainCert at hplain
  simp only [Bool.and_eq_true, Bool.not_eq_eq_eq_not, Bool.not_true, beq_iff_eq, List.isEmpty_iff] at hplain
  obtain ⟨⟨⟨⟨⟨hfl, hdb⟩, hcs⟩, hreq⟩, hpsk⟩, hsni⟩ := hplain
  obtain ⟨cred, hc⟩ := Option.isSome_iff_exists.mp hcs
  obtain ⟨hne, hall, hsig, hacc, hcurve, hext⟩ := compatible_unpack hv hc hcompat
  obtain ⟨hcom, hv4, hmaxv⟩ := commonVersion_spec hv
  obtain ⟨_, _, _, _, _, _, crsl⟩ := wf_spec hwc
  obtain ⟨_, _, _, _, _, _, srsl⟩ := wf_spec hws
  have hcom' := hcom
  unfold versionCommon at hcom'
  simp only [Bool.and_eq_true, decide_eq_true_eq] at hcom'
  obtain ⟨⟨⟨⟨v1, v2⟩, v3⟩, v4'⟩, _⟩ := hcom'
  -- server: version, suite, signature scheme
  have hver := serverVersion_of_common hwc hws hsane hv
  obtain ⟨s₀, sig, hselc, hs0c, hs0g, hpick⟩ :=
    selectCertificate_of_compatible (cc := cc) (sc := sc) hv4 v2 hfl hpsk hc hne hall hsig hcurve
  have hworks := List.all_eq_true.mp hall s₀ hs0c
  have hs0f : s₀ ∈ filterForVersion (certFamily ss v) v := by
    rw [mem_filterForVersion_iff] at hs0g ⊢
    exact ⟨gated_sub_family hs0g.1, hs0g.2⟩
  obtain ⟨hkx, hn13, hnsrp, hnsrpc⟩ := family_le12 hv3 hs0f
  -- key exchange parameters
  obtain ⟨dh, hdh, hdhok⟩ := dhSelect_of_shared (cs := cs) (ss := ss) (cc := cc) (sc := sc) hnsrp
    (fun hd => dhShared_of_works hworks hn13 hd)
  obtain ⟨g, hec, hecok⟩ := ecSelect_of_shared (cs := cs) (ss := ss) (cc := cc) (v := v) (s := s₀)
    (fun he => ecShared_of_works hworks hn13 he)
  -- the offer
  have ho_ems : (clientOffer cs cc).ems = cs.useEMS := rfl
  have ho_alpn : (clientOffer cs cc).alpn = cc.alpn := rfl
  have ho_rsl : (clientOffer cs cc).recordSizeLimit = cs.recordSizeLimit := rfl
  have ho_sni : (clientOffer cs cc).serverName = cc.serverName := rfl
  -- extensions
  unfold extensionsOk at hext
  have hv3' : decide (v > 3) = false := by simp; omega
  simp only [hv3', Bool.false_or, Bool.and_eq_true, Bool.not_eq_eq_eq_not, Bool.not_true,
    Bool.or_eq_true] at hext
  obtain ⟨⟨e1, e2⟩, e3⟩ := hext
  have g1 : (ss.useEMS && !((clientOffer cs cc).ems && decide (v > 0)) && ss.requireEMS) = false := by
    rw [ho_ems]
    revert e1
    cases ss.useEMS <;> cases cs.useEMS <;> cases ss.requireEMS <;> cases decide (v > 0) <;> simp
  have g2 : (!(clientOffer cs cc).alpn.isEmpty && !sc.alpn.isEmpty &&
      ((clientOffer cs cc).alpn.find? (sc.alpn.contains ·)).isNone) = false := by
    rw [ho_alpn]
    rcases e3 with (h | h) | h
    · rw [h]; rfl
    · rw [h]; simp
    · rw [List.any_eq_true] at h
      obtain ⟨a, ha1, ha2⟩ := h
      cases hf : cc.alpn.find? (sc.alpn.contains ·) with
      | none => exact absurd ha2 (List.find?_eq_none.mp hf a ha1)
      | some x => simp
  -- signing below TLS 1.2
  have hcalg : (sc.cred.map (·.certAlg)).getD "" = cred.certAlg := by rw [hc]; rfl
  have hsign : certSuites.contains s₀ = true ∨ 3 ≤ v ∨ canSignLegacy cred = true := by
    unfold suiteWorks at hworks
    rw [hn13] at hworks
    simp only [Bool.false_eq_true, if_false, Bool.and_eq_true, Bool.or_eq_true, decide_eq_true_eq] at hworks
    rcases hworks.2 with (h | h) | h
    · exact Or.inl h
    · exact Or.inr (Or.inl h)
    · exact Or.inr (Or.inr h)
  have gA : (((isCertKxSuite s₀ && !certSuites.contains s₀) || srpCertSuites.contains s₀) && decide (v < 3) &&
      ((sc.cred.map (·.certAlg)).getD "" == "Ed25519" || (sc.cred.map (·.certAlg)).getD "" == "Ed448")) = false := by
    rw [hcalg, hnsrpc, hkx]
    rcases hsign with h | h | h
    · rw [h]; simp
    · have : decide (v < 3) = false := by simp; omega
      rw [this]; simp
    · unfold canSignLegacy at h
      simp only [Bool.not_eq_eq_eq_not, Bool.not_true, Bool.or_eq_false_iff] at h
      rw [h.1.1, h.1.2]; simp
  have gB : (((isCertKxSuite s₀ && !certSuites.contains s₀) || srpCertSuites.contains s₀) && decide (v < 3) &&
      (sc.cred.map (·.certAlg)).getD "" == "rsa-pss") = false := by
    rw [hcalg, hnsrpc, hkx]
    rcases hsign with h | h | h
    · rw [h]; simp
    · have : decide (v < 3) = false := by simp; omega
      rw [this]; simp
    · unfold canSignLegacy at h
      simp only [Bool.not_eq_eq_eq_not, Bool.not_true, Bool.or_eq_false_iff] at h
      rw [h.2]; simp
  have hsel12 := serverSelect12_forward (sig := sig) g1 g2 hdh hec gA gB hkx
  -- the whole first flight
  have gsni : ((clientOffer cs cc).serverName != "" && sc.sni != "" && sc.sni != (clientOffer cs cc).serverName) = false := by
    rw [ho_sni]; exact hsni
  have grsl : ((clientOffer cs cc).recordSizeLimit != 0 && decide ((clientOffer cs cc).recordSizeLimit < 64)) = false := by
    rw [ho_rsl]
    rcases crsl with h | h
    · rw [h]; rfl
    · have : decide (cs.recordSizeLimit < 64) = false := by simp; omega
      rw [this]; simp
  have hserver : serverSelect ss sc (clientOffer cs cc) = .ok (sel12 ss sc (clientOffer cs cc) v s₀ sig dh g) := by
    unfold serverSelect
    rw [ok_bind hver, failIf_false_bind gsni, failIf_false_bind grsl, ok_bind (serverSuites_cert hdb hc),
      ok_bind hselc]
    have : ¬ v > 3 := by omega
    rw [if_neg this]
    exact hsel12
  -- signature scheme acceptable to the client
  obtain ⟨sig', hpick', hsigacc, _⟩ := pickSig_of_shared (cc := cc) hsig v2
  have hsigeq : sig' = sig := by rw [hpick] at hpick'; injection hpick' with h; exact h.symm
  subst hsigeq
  -- name the flight and keep only its fields
  obtain ⟨sel, hseldef, fv, fs, fg, fd, fems, falpn, frsl, fsig, fsc, fcr, fsent⟩ :
      ∃ sel : Selection, sel = sel12 ss sc (clientOffer cs cc) v s₀ sig' dh g ∧
        sel.version = v ∧ sel.suite = s₀ ∧ sel.group = g ∧ sel.dhBits = dh ∧
        sel.ems = (ss.useEMS && cs.useEMS && decide (v > 0)) ∧
        sel.alpn = (if (!cc.alpn.isEmpty && !sc.alpn.isEmpty) then (cc.alpn.find? (sc.alpn.contains ·)).getD "" else "") ∧
        sel.rslEcho = (if (cs.recordSizeLimit != 0 && ss.recordSizeLimit != 0) then min maxRec ss.recordSizeLimit else 0) ∧
        sel.sigScheme = (if (((isCertKxSuite s₀ && !certSuites.contains s₀) || srpCertSuites.contains s₀) && v == 3)
                         then sig' else 0) ∧
        sel.sendsCert = (certAllSuites.contains s₀ || ecdheEcdsaSuites.contains s₀ || dheDsaSuites.contains s₀) ∧
        sel.certReq = none ∧
        sel.sentinel = (if v == 3 && decide (ss.maxVersion > 3) then 2
                        else if decide (v < 3) && decide (ss.maxVersion ≥ 3) then 1 else 0) :=
    ⟨_, rfl, rfl, rfl, rfl, rfl, rfl, rfl, rfl, rfl, rfl, by simp [sel12, hkx, hreq], rfl⟩
  rw [← hseldef] at hserver
  -- client
  have hhello : clientCheckHello cs (clientOffer cs cc) sel = .ok () := by
    unfold clientCheckHello
    simp only []
    rw [fv, fs]
    have h1 : decide (v < cs.minVersion) = false := by simp; omega
    have h2 : (decide (v > cs.maxVersion) && !cs.versions.contains v) = false := by
      have : decide (v > cs.maxVersion) = false := by simp; omega
      rw [this]; rfl
    have h3 : (!(filterForVersion (clientOffer cs cc).suites v).contains s₀) = false := by
      have : s₀ ∈ filterForVersion (clientOffer cs cc).suites v := by
        rw [mem_filterForVersion_iff]
        refine ⟨?_, (mem_filterForVersion_iff.mp hs0g).2⟩
        unfold commonSuites at hs0c
        have := (List.mem_filter.mp hs0c).2
        have hos : (clientOffer cs cc).suites = clientSuites cs .cert := by
          show clientSuites cs cc.flavour = _; rw [hfl]
        rw [hos]; exact List.contains_iff_mem.mp this
      rw [List.contains_iff_mem.mpr this]; rfl
    rw [failIf_false_bind h1, failIf_false_bind h2, failIf_false h3]
  obtain ⟨nd1, nd2⟩ := no_downgrade hwc hws hv hv3
  have hcertchk : clientCheckServerCert cs sc (clientOffer cs cc) sel = .ok () := by
    unfold clientCheckServerCert serverCertOf
    rw [fsc]
    by_cases hsend : (certAllSuites.contains s₀ || ecdheEcdsaSuites.contains s₀ || dheDsaSuites.contains s₀) = true
    · rw [if_pos hsend, hc]
      simp only []
      rw [fv, fsig]
      have k1 := checkCertChain_of_accepted (side := .client) hacc
      have k2 : (v == 3 &&
          (if (((isCertKxSuite s₀ && !certSuites.contains s₀) || srpCertSuites.contains s₀) && v == 3) = true then sig' else 0) != 0 &&
          !(sigHashesToList cs none (some cred) 3).contains
            (if (((isCertKxSuite s₀ && !certSuites.contains s₀) || srpCertSuites.contains s₀) && v == 3) = true then sig' else 0)) = false := by
        by_cases hv33 : v = 3
        · by_cases hcond : (((isCertKxSuite s₀ && !certSuites.contains s₀) || srpCertSuites.contains s₀) && v == 3) = true
          · rw [if_pos hcond]
            by_cases hz : sig' = 0
            · rw [hz]; simp
            · have := (hsigacc hz (by omega)).2
              have hif : (if v > 3 then 4 else 3) = 3 := by rw [if_neg (by omega)]
              rw [hif] at this
              rw [List.contains_iff_mem.mpr this]; simp
          · rw [if_neg hcond]; simp
        · have : (v == 3) = false := by simpa using hv33
          rw [this]; rfl
      have k3 : (decide (v > 3) &&
          (!((clientOffer cs cc).sigAlgs.getD []).contains
              (if (((isCertKxSuite s₀ && !certSuites.contains s₀) || srpCertSuites.contains s₀) && v == 3) = true then sig' else 0) ||
           !(sigHashesToList cs none (some cred) 4).contains
              (if (((isCertKxSuite s₀ && !certSuites.contains s₀) || srpCertSuites.contains s₀) && v == 3) = true then sig' else 0))) = false := by
        rw [hv3']; rfl
      rw [ok_bind k1, failIf_false_bind k2, failIf_false k3]
    · rw [if_neg hsend]; rfl
  have hdhchk : clientCheckDhSize cs sel = .ok () := by
    unfold clientCheckDhSize
    rw [fs, fd]
    by_cases hd : dhAllSuites.contains s₀ = true
    · rw [if_pos hd]
      have := hdhok hd
      unfold dhBitsOk at this
      simp only [Bool.and_eq_true, decide_eq_true_eq] at this
      have k1 : decide (dh < cs.minKeySize) = false := by simp; omega
      have k2 : decide (dh > cs.maxKeySize) = false := by simp; omega
      rw [failIf_false_bind k1, failIf_false k2]
    · rw [if_neg hd]; rfl
  have hkexchk : clientCheckKex cs sel = .ok () := by
    unfold clientCheckKex
    rw [fs, fd, fg]
    by_cases hd : dhAllSuites.contains s₀ = true
    · rw [if_pos hd]
      have := hdhok hd
      unfold dhBitsOk at this
      simp only [Bool.and_eq_true, decide_eq_true_eq] at this
      exact failIf_false (by simp; omega)
    · rw [if_neg hd]
      by_cases he : ecdhAllSuites.contains s₀ = true
      · rw [if_pos he]
        have := hecok he
        exact failIf_false (by rw [this]; rfl)
      · rw [if_neg he, if_neg (by rw [hnsrp]; simp)]; rfl
  have a1 : (!sel.ems && cs.requireEMS) = false := by
    rw [fems]
    revert e2
    cases ss.useEMS <;> cases cs.useEMS <;> cases cs.requireEMS <;> cases decide (v > 0) <;> simp
  have a2 : (sel.alpn != "" && (clientOffer cs cc).alpn.isEmpty) = false := by
    rw [falpn, ho_alpn]
    cases hem : cc.alpn.isEmpty with
    | true => simp
    | false => simp
  have a3 : (sel.alpn != "" && !(clientOffer cs cc).alpn.contains sel.alpn) = false := by
    rw [falpn, ho_alpn]
    by_cases hon : (!cc.alpn.isEmpty && !sc.alpn.isEmpty) = true
    · rw [if_pos hon]
      cases hf : cc.alpn.find? (sc.alpn.contains ·) with
      | none => simp
      | some x =>
        have := List.mem_of_find?_eq_some hf
        simp only [Option.getD_some, List.contains_iff_mem.mpr this, Bool.not_true, Bool.and_false]
    · rw [if_neg hon]; simp
  have a4 : (sel.rslEcho != 0 && !(decide (64 ≤ sel.rslEcho) && decide (sel.rslEcho ≤ maxRec))) = false := by
    rw [frsl]
    by_cases hon : (cs.recordSizeLimit != 0 && ss.recordSizeLimit != 0) = true
    · rw [if_pos hon]
      simp only [Bool.and_eq_true, bne_iff_ne, ne_eq] at hon
      rcases srsl with h | h
      · exact absurd h hon.2
      · have h1 : decide (64 ≤ min maxRec ss.recordSizeLimit) = true := by
          have h64 : 64 ≤ ss.recordSizeLimit := h.1
          simp only [decide_eq_true_eq, maxRec, Nat.le_min]
          exact ⟨by omega, h64⟩
        have h2 : decide (min maxRec ss.recordSizeLimit ≤ maxRec) = true := by
          simp only [decide_eq_true_eq]; exact Nat.min_le_left _ _
        rw [h1, h2]; simp
    · rw [if_neg hon]; simp
  obtain ⟨p, hp, hpc, _⟩ := clientAccept12_forward (cc := cc) a1 a2 a3 a4
    (by rw [fv, fsent]; exact nd1) (by rw [fv, fsent]; exact nd2) hcertchk hdhchk hkexchk fcr
  refine ⟨p, ?_⟩
  unfold negotiate
  rw [ok_bind hserver]
  have hca : clientAccept cs cc sc (clientOffer cs cc) sel = .ok p := by
    unfold clientAccept
    rw [ok_bind hhello]
    have : ¬ sel.version > 3 := by rw [fv]; omega
    rw [if_neg this]; exact hp
  rw [ok_bind hca]
  exact serverFinish_noClientCert hpc

/-! ## TLS 1.3 -/

theorem pskIndex_none {ss : Settings} {o : Offer} {s : Nat} (h : o.pskIds = []) : pskIndex ss o s = none := by
  unfold pskIndex; rw [h]; simp

theorem acceptable13_sub {ss : Settings} {g : Nat} (h : g ∈ acceptable13 ss) :
    g ∈ groupIdsOf (ss.keyShares ++ ss.eccCurves ++ ss.dhGroups) := by
  unfold acceptable13 at h
  rw [mem_groupIdsOf] at h ⊢
  obtain ⟨n, hn, hg⟩ := h
  exact ⟨n, (List.mem_filter.mp hn).1, hg⟩

theorem tls13Group_of_shared {cs ss : Settings} {cc : ClientCfg} (h : group13Shared cs ss cc = true) :
    ∃ g hrr, tls13Group ss (clientOffer cs cc) = .ok (g, hrr) ∧
      (hrr = true → ((clientOffer cs cc).groups.getD []).contains g = true) := by
  unfold group13Shared at h
  simp only [Bool.and_eq_true, List.any_eq_true, Bool.or_eq_true] at h
  obtain ⟨⟨a, ha1, ha2⟩, _⟩ := h
  unfold tls13Group hrrShares
  cases hf1 : (acceptable13 ss).find? ((clientOffer cs cc).keyShares.contains ·) with
  | some y =>
    have hy1 := List.mem_of_find?_eq_some hf1
    have hy2 := List.find?_some hf1
    simp only []
    cases hf3 : (groupIdsOf (ss.keyShares ++ ss.eccCurves ++ ss.dhGroups)).find?
        ((clientOffer cs cc).keyShares.contains ·) with
    | none => exact absurd hy2 (List.find?_eq_none.mp hf3 y (acceptable13_sub hy1))
    | some g => exact ⟨g, false, rfl, fun hh => by cases hh⟩
  | none =>
    have hna : (clientOffer cs cc).keyShares.contains a = false := by
      have := List.find?_eq_none.mp hf1 a ha1
      simpa using this
    have hga : ((clientOffer cs cc).groups.getD []).contains a = true := by
      rcases ha2 with h | h
      · rw [hna] at h; cases h
      · exact h
    cases hf2 : (acceptable13 ss).find? (((clientOffer cs cc).groups.getD []).contains ·) with
    | none => exact absurd hga (List.find?_eq_none.mp hf2 a ha1)
    | some g0 =>
      have hg1 := List.mem_of_find?_eq_some hf2
      have hg2 := List.find?_some hf2
      simp only []
      cases hf3 : (groupIdsOf (ss.keyShares ++ ss.eccCurves ++ ss.dhGroups)).find? ([g0].contains ·) with
      | none =>
        have := List.find?_eq_none.mp hf3 g0 (acceptable13_sub hg1)
        simp at this
      | some g =>
        have hgg := List.find?_some hf3
        have : g = g0 := by simpa using hgg
        subst this
        exact ⟨g, true, rfl, fun _ => hg2⟩

/-- the ServerHello flight `serverSelect13` ends with when no PSK is in play -/
def sel13 (ss : Settings) (sc : ServerCfg) (o : Offer) (v suite sig g : Nat) (hrr : Bool) : Selection :=
  { version := v, suite := suite, etm := false, ems := true
    alpn := (o.alpn.filter (sc.alpn.contains ·)).headD ""
    rslEcho := if (o.recordSizeLimit != 0 && ss.recordSizeLimit != 0) then min (maxRec + 1) ss.recordSizeLimit else 0
    group := g
    dhBits := 0
    sigScheme := sig
    sendsCert := true
    certReq := if sc.reqCert then some (sigHashesToList { ss with dsaSigHashes := [] } none none v) else none
    psk := none, hrr := hrr
    sSend := if (o.recordSizeLimit != 0 && ss.recordSizeLimit != 0) then min maxRec (o.recordSizeLimit - 1) else maxRec
    sRecv := if (o.recordSizeLimit != 0 && ss.recordSizeLimit != 0) then min maxRec (ss.recordSizeLimit - 1) else maxRec
    sentinel := 0 }

theorem serverSelect13_forward {ss : Settings} {sc : ServerCfg} {o : Offer} {v suite sig g : Nat} {hrr : Bool}
    (hg : tls13Group ss o = .ok (g, hrr)) (hpsk : o.pskIds = []) (hcred : sc.cred.isSome = true) :
    serverSelect13 ss sc o v suite sig = .ok (sel13 ss sc o v suite sig g hrr) := by
  simp only [serverSelect13]
  rw [ok_bind hg, pskIndex_none hpsk]
  simp only [Option.isSome_none, Option.isNone_none, Bool.false_and, Bool.true_and, hcred, Bool.false_or,
    if_true]
  rw [failIf_false_bind rfl]
  rfl

theorem clientAccept13_forward {cs : Settings} {cc : ClientCfg} {sc : ServerCfg} {o : Offer} {sel : Selection}
    (b1 : (sel.group != 0 && sel.hrr && !(o.groups.getD []).contains sel.group) = false)
    (b2 : (sel.rslEcho != 0 && cs.recordSizeLimit == 0) = false)
    (b3 : (sel.rslEcho != 0 && !(decide (64 ≤ sel.rslEcho) && decide (sel.rslEcho ≤ maxRec + 1))) = false)
    (hcert : clientCheckServerCert cs sc o sel = .ok ())
    (hreq : sel.certReq = none)
    (b4 : (sel.alpn != "" && o.alpn.isEmpty) = false)
    (b5 : (sel.alpn != "" && !o.alpn.contains sel.alpn) = false) :
    ∃ p, clientAccept13 cs cc sc o sel = .ok p ∧ p.clientCert = none := by
  have hsig : clientSig13 cs (if sel.certReq.isSome then cc.cred else none) sel = .ok 0 := by
    rw [hreq]; rfl
  have heq : clientAccept13 cs cc sc o sel = .ok
      { version := sel.version, suite := sel.suite, group := sel.group, dhBits := 0, sigScheme := sel.sigScheme
        etm := false, ems := true, alpn := sel.alpn, serverName := o.serverName
        cSend := if sel.rslEcho != 0 then sel.rslEcho - 1 else maxRec
        cRecv := if sel.rslEcho != 0 then min maxRec (cs.recordSizeLimit - 1) else maxRec
        sSend := sel.sSend, sRecv := sel.sRecv
        serverCert := serverCertOf sc sel, clientCert := if sel.certReq.isSome then cc.cred else none, clientSig := 0
        psk := sel.psk, hrr := sel.hrr } := by
    simp only [clientAccept13]
    rw [failIf_false_bind b1, failIf_false_bind b2, failIf_false_bind b3, ok_bind hcert, ok_bind hsig,
      failIf_false_bind b4, failIf_false_bind b5]
    rfl
  exact ⟨_, heq, by simp [hreq]⟩

/-- TLS 1.3 half of the completeness theorem -/
theorem compatible_completes_13 {cs ss : Settings} {cc : ClientCfg} {sc : ServerCfg} {v : Nat}
    (hwc : cs.wf = true) (hws : ss.wf = true) (hplain : plainCert cs cc sc = true)
    (hsane : clientHelloSane cs cc = true) (hv : commonVersion cs ss = some v) (hv3 : 3 < v)
    (hcompat : compatible cs ss cc sc = true) :
    ∃ p, negotiate cs ss cc sc = .ok p := by
  unfold plainCert at hplain
  simp only [Bool.and_eq_true, Bool.not_eq_eq_eq_not, Bool.not_true, beq_iff_eq, List.isEmpty_iff] at hplain
  obtain ⟨⟨⟨⟨⟨hfl, hdb⟩, hcs⟩, hreq⟩, hpsk⟩, hsni⟩ := hplain
  obtain ⟨cred, hc⟩ := Option.isSome_iff_exists.mp hcs
  obtain ⟨hne, hall, hsig, hacc, hcurve, hext⟩ := compatible_unpack hv hc hcompat
  obtain ⟨hcom, hv4, hmaxv⟩ := commonVersion_spec hv
  obtain ⟨_, _, _, _, _, _, crsl⟩ := wf_spec hwc
  obtain ⟨_, _, _, _, _, _, srsl⟩ := wf_spec hws
  have hcom' := hcom
  unfold versionCommon at hcom'
  simp only [Bool.and_eq_true, decide_eq_true_eq] at hcom'
  obtain ⟨⟨⟨⟨v1, v2⟩, v3⟩, v4'⟩, _⟩ := hcom'
  have hver := serverVersion_of_common hwc hws hsane hv
  obtain ⟨s₀, sig, hselc, hs0c, hs0g, hpick⟩ :=
    selectCertificate_of_compatible (cc := cc) (sc := sc) hv4 v2 hfl hpsk hc hne hall hsig hcurve
  have hworks := List.all_eq_true.mp hall s₀ hs0c
  -- at TLS 1.3 only TLS 1.3 suites are defined
  have h13 : tls13Suites.contains s₀ = true := by
    have := (mem_filterForVersion_iff.mp hs0g).2
    have hle : ¬ v ≤ 3 := by omega
    have hne3 : (v == 3) = false := by simp; omega
    simp only [hle, if_false, hne3, Bool.false_eq_true, hv3, if_true, List.nil_append] at this
    exact List.contains_iff_mem.mpr this
  have hgrp : group13Shared cs ss cc = true := by
    unfold suiteWorks at hworks; rw [if_pos h13] at hworks; exact hworks
  obtain ⟨g, hrr, hgr, hgrok⟩ := tls13Group_of_shared hgrp
  have ho_alpn : (clientOffer cs cc).alpn = cc.alpn := rfl
  have ho_rsl : (clientOffer cs cc).recordSizeLimit = cs.recordSizeLimit := rfl
  have ho_sni : (clientOffer cs cc).serverName = cc.serverName := rfl
  have hsel13 := serverSelect13_forward (sc := sc) (v := v) (suite := s₀) (sig := sig) hgr (offer_pskIds_nil hpsk) hcs
  have gsni : ((clientOffer cs cc).serverName != "" && sc.sni != "" && sc.sni != (clientOffer cs cc).serverName) = false := by
    rw [ho_sni]; exact hsni
  have grsl : ((clientOffer cs cc).recordSizeLimit != 0 && decide ((clientOffer cs cc).recordSizeLimit < 64)) = false := by
    rw [ho_rsl]
    rcases crsl with h | h
    · rw [h]; rfl
    · have : decide (cs.recordSizeLimit < 64) = false := by simp; omega
      rw [this]; simp
  have hserver : serverSelect ss sc (clientOffer cs cc) = .ok (sel13 ss sc (clientOffer cs cc) v s₀ sig g hrr) := by
    unfold serverSelect
    rw [ok_bind hver, failIf_false_bind gsni, failIf_false_bind grsl, ok_bind (serverSuites_cert hdb hc),
      ok_bind hselc]
    have : v > 3 := hv3
    rw [if_pos this]
    exact hsel13
  obtain ⟨sig', hpick', _, hsigacc⟩ := pickSig_of_shared (cc := cc) hsig v2
  have hsigeq : sig' = sig := by rw [hpick] at hpick'; injection hpick' with h; exact h.symm
  subst hsigeq
  obtain ⟨sel, hseldef, fv, fs, fg, fhrr, falpn, frsl, fsig, fsc, fcr⟩ :
      ∃ sel : Selection, sel = sel13 ss sc (clientOffer cs cc) v s₀ sig' g hrr ∧
        sel.version = v ∧ sel.suite = s₀ ∧ sel.group = g ∧ sel.hrr = hrr ∧
        sel.alpn = (cc.alpn.filter (sc.alpn.contains ·)).headD "" ∧
        sel.rslEcho = (if (cs.recordSizeLimit != 0 && ss.recordSizeLimit != 0) then min (maxRec + 1) ss.recordSizeLimit else 0) ∧
        sel.sigScheme = sig' ∧ sel.sendsCert = true ∧ sel.certReq = none :=
    ⟨_, rfl, rfl, rfl, rfl, rfl, rfl, rfl, rfl, rfl, by simp [sel13, hreq]⟩
  rw [← hseldef] at hserver
  have hhello : clientCheckHello cs (clientOffer cs cc) sel = .ok () := by
    unfold clientCheckHello
    simp only []
    rw [fv, fs]
    have h1 : decide (v < cs.minVersion) = false := by simp; omega
    have h2 : (decide (v > cs.maxVersion) && !cs.versions.contains v) = false := by
      have : decide (v > cs.maxVersion) = false := by simp; omega
      rw [this]; rfl
    have h3 : (!(filterForVersion (clientOffer cs cc).suites v).contains s₀) = false := by
      have : s₀ ∈ filterForVersion (clientOffer cs cc).suites v := by
        rw [mem_filterForVersion_iff]
        refine ⟨?_, (mem_filterForVersion_iff.mp hs0g).2⟩
        unfold commonSuites at hs0c
        have := (List.mem_filter.mp hs0c).2
        have hos : (clientOffer cs cc).suites = clientSuites cs .cert := by
          show clientSuites cs cc.flavour = _; rw [hfl]
        rw [hos]; exact List.contains_iff_mem.mp this
      rw [List.contains_iff_mem.mpr this]; rfl
    rw [failIf_false_bind h1, failIf_false_bind h2, failIf_false h3]
  have hcertchk : clientCheckServerCert cs sc (clientOffer cs cc) sel = .ok () := by
    unfold clientCheckServerCert serverCertOf
    rw [fsc, if_pos rfl, hc]
    simp only []
    rw [fv, fsig]
    have k1 := checkCertChain_of_accepted (side := .client) hacc
    have hne3 : (v == 3) = false := by simp; omega
    have k2 : (v == 3 && sig' != 0 && !(sigHashesToList cs none (some cred) 3).contains sig') = false := by
      rw [hne3]; rfl
    have k3 : (decide (v > 3) &&
        (!((clientOffer cs cc).sigAlgs.getD []).contains sig' ||
         !(sigHashesToList cs none (some cred) 4).contains sig')) = false := by
      obtain ⟨m1, m2⟩ := hsigacc (by omega)
      rw [List.contains_iff_mem.mpr m1, List.contains_iff_mem.mpr m2]; simp
    rw [ok_bind k1, failIf_false_bind k2, failIf_false k3]
  have b1 : (sel.group != 0 && sel.hrr && !((clientOffer cs cc).groups.getD []).contains sel.group) = false := by
    rw [fg, fhrr]
    cases hh : hrr with
    | false => simp
    | true => rw [hgrok hh]; simp
  have b2 : (sel.rslEcho != 0 && cs.recordSizeLimit == 0) = false := by
    rw [frsl]
    by_cases hon : (cs.recordSizeLimit != 0 && ss.recordSizeLimit != 0) = true
    · simp only [Bool.and_eq_true, bne_iff_ne, ne_eq] at hon
      have : (cs.recordSizeLimit == 0) = false := by simpa using hon.1
      rw [this]; simp
    · rw [if_neg hon]; simp
  have b3 : (sel.rslEcho != 0 && !(decide (64 ≤ sel.rslEcho) && decide (sel.rslEcho ≤ maxRec + 1))) = false := by
    rw [frsl]
    by_cases hon : (cs.recordSizeLimit != 0 && ss.recordSizeLimit != 0) = true
    · rw [if_pos hon]
      simp only [Bool.and_eq_true, bne_iff_ne, ne_eq] at hon
      rcases srsl with h | h
      · exact absurd h hon.2
      · have h1 : decide (64 ≤ min (maxRec + 1) ss.recordSizeLimit) = true := by
          have h64 : 64 ≤ ss.recordSizeLimit := h.1
          simp only [decide_eq_true_eq, maxRec, Nat.le_min]
          exact ⟨by omega, h64⟩
        have h2 : decide (min (maxRec + 1) ss.recordSizeLimit ≤ maxRec + 1) = true := by
          simp only [decide_eq_true_eq]; exact Nat.min_le_left _ _
        rw [h1, h2]; simp
    · rw [if_neg hon]; simp
  have b4 : (sel.alpn != "" && (clientOffer cs cc).alpn.isEmpty) = false := by
    rw [falpn, ho_alpn]
    cases hl : cc.alpn with
    | nil => simp
    | cons a t => simp
  have b5 : (sel.alpn != "" && !(clientOffer cs cc).alpn.contains sel.alpn) = false := by
    rw [falpn, ho_alpn]
    cases hf : cc.alpn.filter (sc.alpn.contains ·) with
    | nil => simp
    | cons a t =>
      have : a ∈ cc.alpn.filter (sc.alpn.contains ·) := by rw [hf]; exact List.mem_cons_self
      have := (List.mem_filter.mp this).1
      simp only [List.headD_cons, List.contains_iff_mem.mpr this, Bool.not_true, Bool.and_false]
  obtain ⟨p, hp, hpc⟩ := clientAccept13_forward (cc := cc) b1 b2 b3 hcertchk fcr b4 b5
  refine ⟨p, ?_⟩
  unfold negotiate
  rw [ok_bind hserver]
  have hca : clientAccept cs cc sc (clientOffer cs cc) sel = .ok p := by
    unfold clientAccept
    rw [ok_bind hhello]
    have : sel.version > 3 := by rw [fv]; exact hv3
    rw [if_pos this]; exact hp
  rw [ok_bind hca]
  exact serverFinish_noClientCert hpc

/-! ## SRP / anonymous configurations for the regression theorems of Props/C03 -/
def srpClient : ClientCfg := { flavour := .srp, cred := none, alpn := [], serverName := "" }
def srpServer : ServerCfg :=
  { hasDB := true, srpBits := 2048, cred := none, anon := false, reqCert := false, alpn := [], sni := "" }
def srpCertServer (c : Cred) : ServerCfg := { srpServer with cred := some c }

end Tls.Neg
