import TlsModel.RsaServer
/- helper lemmas about `getMsg` of TlsModel/RsaServer.lean: it consumes exactly one record, and
   whatever it writes on failure is logged at that count -/
namespace Tls.RsaServer
open Tls.RsaDec

theorem sendError_consumed (d c : Nat) : ∀ e ∈ (sendError d c).trace, e.consumed = c := by
  intro e he
  simp [sendError, alertEmit] at he
  rw [he]

theorem getMsg_spec (S : SrvPrims) (rs : Option Bytes) (expected : Nat) (sec : Option Nat)
    (inc : List WireRec) (c : Nat) :
    match getMsg S rs expected sec inc c with
    | .ok (_, rest, c') => c' = c + 1 ∧ ∃ r, inc = r :: rest
    | .error r => ∀ e ∈ r.trace, e.consumed = c + 1 := by
  unfold getMsg
  cases inc with
  | nil => simp
  | cons r rest =>
    simp only
    cases hr : S.recv rs r with
    | error x => simp only; exact sendError_consumed _ _
    | ok p =>
      simp only
      by_cases hexp : r.ctype = expected
      · simp only [hexp, ne_eq, not_true_eq_false, if_false]
        cases sec with
        | none => simp
        | some sub =>
          simp only
          cases p with
          | nil => simp only; exact sendError_consumed _ _
          | cons t tl =>
            simp only
            by_cases ht : t.toNat = sub
            · simp [ht]
            · simp only [ht, not_false_eq_true, if_true]; exact sendError_consumed _ _
      · simp only [hexp, ne_eq, not_false_eq_true, if_true]
        by_cases h21 : r.ctype = 21
        · simp only [h21, if_true]
          match p with
          | [] => simp only; exact sendError_consumed _ _
          | [_] => simp only; exact sendError_consumed _ _
          | level :: desc :: _ =>
            simp only
            by_cases hw : level.toNat = 1 ∨ desc.toNat = 0
            · simp only [hw, if_true]
              intro e he
              simp [alertEmit] at he
              rw [he]
            · simp only [hw, if_false]
              intro e he
              simp at he
        · simp only [h21, if_false]; exact sendError_consumed _ _

theorem getMsg_ok (S : SrvPrims) (rs : Option Bytes) (expected : Nat) (sec : Option Nat)
    (inc : List WireRec) (c : Nat) (p : Bytes) (rest : List WireRec) (c' : Nat)
    (h : getMsg S rs expected sec inc c = .ok (p, rest, c')) : c' = c + 1 := by
  have := getMsg_spec S rs expected sec inc c
  rw [h] at this
  exact this.1

theorem getMsg_error (S : SrvPrims) (rs : Option Bytes) (expected : Nat) (sec : Option Nat)
    (inc : List WireRec) (c : Nat) (r : SrvResult)
    (h : getMsg S rs expected sec inc c = .error r) : ∀ e ∈ r.trace, e.consumed = c + 1 := by
  have := getMsg_spec S rs expected sec inc c
  rw [h] at this
  exact this

/-- outside SSLv3-with-client-certificate the CertificateVerify step never sees the premaster -/
theorem certVerifyStep_indep (S : SrvPrims) (E : SrvEnv) (pms1 pms2 : Bytes) (inc : List WireRec)
    (hne : ¬ (E.version = (3, 0) ∧ E.hasClientCert = true)) :
    certVerifyStep S E pms1 inc = certVerifyStep S E pms2 inc := by
  unfold certVerifyStep
  by_cases hc : E.hasClientCert = true
  · have hv : ¬ E.version = (3, 0) := fun h => hne ⟨h, hc⟩
    simp only [hc, hv, if_true, if_false]
  · have hf : E.hasClientCert = false := by cases h : E.hasClientCert <;> simp_all
    simp [hf]

/-- every record the Finished step writes is written after the client's Finished was consumed -/
theorem finishedStep_consumed (S : SrvPrims) (E : SrvEnv) (pms : Bytes) (M : Mid) :
    ∀ e ∈ (finishedStep S E pms M).trace, e.consumed = M.consumed + 1 := by
  intro e he
  unfold finishedStep at he
  simp only at he
  cases hg : getMsg S (some (keyBlock S E pms)) 22 (some 20) M.rest M.consumed with
  | error r =>
    rw [hg] at he
    exact getMsg_error _ _ _ _ _ _ _ hg e he
  | ok t =>
    obtain ⟨p, rest, c⟩ := t
    have hc := getMsg_ok _ _ _ _ _ _ _ _ _ hg
    rw [hg] at he
    simp only at he
    split at he
    · have := sendError_consumed 51 c e he; omega
    · simp at he
      rcases he with rfl | rfl <;> exact hc

end Tls.RsaServer
