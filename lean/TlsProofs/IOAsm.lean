import TlsModel.IO
/-
  C14 helper lemmas: AsyncStateMachine, every transition from every state (case analysis).
-/
namespace Tls.IO

/-- the generator obeys the yield protocol: it only ever yields 0 or 1
    (true of the handshake / close / write generators) -/
def GenStep.proto : GenStep → Prop
  | .yld v => v = 0 ∨ v = 1
  | _ => True

def AsmOp.isSet : AsmOp → Bool
  | .setHandshake | .setClose | .setWrite => true
  | _ => false

theorem nat_tri (v : Nat) : v = 0 ∨ v = 1 ∨ ∃ k, v = k + 2 := by
  rcases v with _ | _ | k
  · exact Or.inl rfl
  · exact Or.inr (Or.inl rfl)
  · exact Or.inr (Or.inr ⟨k, rfl⟩)

def AsmSpec (a : ASM) (op : AsmOp) (g : GenStep) : Prop :=
    ((a.step op g).2 = .assertionError ∨ (a.step op g).2 = .raised → (a.step op g).1 = ASM.clear) ∧
    (∀ evs, (a.step op g).2 = .ok evs →
        a.checkAssert 1 = true ∧ (a.step op g).1.activeOps ≤ 1 ∧
        (g.proto → (a.step op g).1.checkAssert 1 = true)) ∧
    (op.isSet = true → 1 ≤ a.activeOps → (a.step op g).2 = .assertionError)

macro "asm_bash" : tactic => `(tactic|
  (simp [AsmSpec, ASM.step, ASM.inReadEvent, ASM.inWriteEvent, ASM.setHandshakeOp, ASM.setCloseOp,
      ASM.setWriteOp, ASM.guard, ASM.checkAssert, ASM.activeOps, ASM.doHandshakeOp, ASM.doCloseOp,
      ASM.doReadOp, ASM.doWriteOp, ASM.clear, GenStep.proto, AsmOp.isSet]))

set_option maxHeartbeats 1000000 in
theorem asm_spec_inRead (a : ASM) (g : GenStep) : AsmSpec a .inRead g := by
  obtain ⟨h, c, r, w, res⟩ := a
  cases res with
  | none =>
    cases g with
    | yld v =>
      rcases nat_tri v with rfl | rfl | ⟨k, rfl⟩ <;>
      cases h <;> cases c <;> cases r <;> cases w <;> asm_bash
    | stop => cases h <;> cases c <;> cases r <;> cases w <;> asm_bash
    | raise => cases h <;> cases c <;> cases r <;> cases w <;> asm_bash
  | some x =>
    rcases nat_tri x with rfl | rfl | ⟨j, rfl⟩ <;>
    cases g with
    | yld v =>
      rcases nat_tri v with rfl | rfl | ⟨k, rfl⟩ <;>
      cases h <;> cases c <;> cases r <;> cases w <;> asm_bash
    | stop => cases h <;> cases c <;> cases r <;> cases w <;> asm_bash
    | raise => cases h <;> cases c <;> cases r <;> cases w <;> asm_bash

set_option maxHeartbeats 1000000 in
theorem asm_spec_inWrite (a : ASM) (g : GenStep) : AsmSpec a .inWrite g := by
  obtain ⟨h, c, r, w, res⟩ := a
  cases res with
  | none =>
    cases g with
    | yld v =>
      rcases nat_tri v with rfl | rfl | ⟨k, rfl⟩ <;>
      cases h <;> cases c <;> cases r <;> cases w <;> asm_bash
    | stop => cases h <;> cases c <;> cases r <;> cases w <;> asm_bash
    | raise => cases h <;> cases c <;> cases r <;> cases w <;> asm_bash
  | some x =>
    rcases nat_tri x with rfl | rfl | ⟨j, rfl⟩ <;>
    cases g with
    | yld v =>
      rcases nat_tri v with rfl | rfl | ⟨k, rfl⟩ <;>
      cases h <;> cases c <;> cases r <;> cases w <;> asm_bash
    | stop => cases h <;> cases c <;> cases r <;> cases w <;> asm_bash
    | raise => cases h <;> cases c <;> cases r <;> cases w <;> asm_bash

set_option maxHeartbeats 1000000 in
theorem asm_spec_setHandshake (a : ASM) (g : GenStep) : AsmSpec a .setHandshake g := by
  obtain ⟨h, c, r, w, res⟩ := a
  cases res with
  | none =>
    cases g with
    | yld v =>
      rcases nat_tri v with rfl | rfl | ⟨k, rfl⟩ <;>
      cases h <;> cases c <;> cases r <;> cases w <;> asm_bash
    | stop => cases h <;> cases c <;> cases r <;> cases w <;> asm_bash
    | raise => cases h <;> cases c <;> cases r <;> cases w <;> asm_bash
  | some x =>
    rcases nat_tri x with rfl | rfl | ⟨j, rfl⟩ <;>
    cases g with
    | yld v =>
      rcases nat_tri v with rfl | rfl | ⟨k, rfl⟩ <;>
      cases h <;> cases c <;> cases r <;> cases w <;> asm_bash
    | stop => cases h <;> cases c <;> cases r <;> cases w <;> asm_bash
    | raise => cases h <;> cases c <;> cases r <;> cases w <;> asm_bash

set_option maxHeartbeats 1000000 in
theorem asm_spec_setClose (a : ASM) (g : GenStep) : AsmSpec a .setClose g := by
  obtain ⟨h, c, r, w, res⟩ := a
  cases res with
  | none =>
    cases g with
    | yld v =>
      rcases nat_tri v with rfl | rfl | ⟨k, rfl⟩ <;>
      cases h <;> cases c <;> cases r <;> cases w <;> asm_bash
    | stop => cases h <;> cases c <;> cases r <;> cases w <;> asm_bash
    | raise => cases h <;> cases c <;> cases r <;> cases w <;> asm_bash
  | some x =>
    rcases nat_tri x with rfl | rfl | ⟨j, rfl⟩ <;>
    cases g with
    | yld v =>
      rcases nat_tri v with rfl | rfl | ⟨k, rfl⟩ <;>
      cases h <;> cases c <;> cases r <;> cases w <;> asm_bash
    | stop => cases h <;> cases c <;> cases r <;> cases w <;> asm_bash
    | raise => cases h <;> cases c <;> cases r <;> cases w <;> asm_bash

set_option maxHeartbeats 1000000 in
theorem asm_spec_setWrite (a : ASM) (g : GenStep) : AsmSpec a .setWrite g := by
  obtain ⟨h, c, r, w, res⟩ := a
  cases res with
  | none =>
    cases g with
    | yld v =>
      rcases nat_tri v with rfl | rfl | ⟨k, rfl⟩ <;>
      cases h <;> cases c <;> cases r <;> cases w <;> asm_bash
    | stop => cases h <;> cases c <;> cases r <;> cases w <;> asm_bash
    | raise => cases h <;> cases c <;> cases r <;> cases w <;> asm_bash
  | some x =>
    rcases nat_tri x with rfl | rfl | ⟨j, rfl⟩ <;>
    cases g with
    | yld v =>
      rcases nat_tri v with rfl | rfl | ⟨k, rfl⟩ <;>
      cases h <;> cases c <;> cases r <;> cases w <;> asm_bash
    | stop => cases h <;> cases c <;> cases r <;> cases w <;> asm_bash
    | raise => cases h <;> cases c <;> cases r <;> cases w <;> asm_bash

theorem asm_step_spec (a : ASM) (op : AsmOp) (g : GenStep) : AsmSpec a op g := by
  cases op
  · exact asm_spec_inRead a g
  · exact asm_spec_inWrite a g
  · exact asm_spec_setHandshake a g
  · exact asm_spec_setClose a g
  · exact asm_spec_setWrite a g

/-- a transition that invokes a callback (outConnectEvent / outCloseEvent / outReadEvent /
    outWriteEvent; in the code the callback is the LAST statement of `_do*Op`, so the state the
    model returns is the state at callback entry) does so with no operation active -/
def AsmCbSpec (a : ASM) (op : AsmOp) (g : GenStep) : Prop :=
  ∀ evs, (a.step op g).2 = .ok evs → evs ≠ [] →
    (a.step op g).1.activeOps = 0 ∧ (a.step op g).1.result = none

macro "asm_bash_cb" : tactic => `(tactic|
  (simp [AsmCbSpec, ASM.step, ASM.inReadEvent, ASM.inWriteEvent, ASM.setHandshakeOp, ASM.setCloseOp,
      ASM.setWriteOp, ASM.guard, ASM.checkAssert, ASM.activeOps, ASM.doHandshakeOp, ASM.doCloseOp,
      ASM.doReadOp, ASM.doWriteOp, ASM.clear]))

set_option maxHeartbeats 1000000 in
theorem asm_cb_inRead (a : ASM) (g : GenStep) : AsmCbSpec a .inRead g := by
  obtain ⟨h, c, r, w, res⟩ := a
  cases res with
  | none =>
    cases g with
    | yld v =>
      rcases nat_tri v with rfl | rfl | ⟨k, rfl⟩ <;>
      cases h <;> cases c <;> cases r <;> cases w <;> asm_bash_cb
    | stop => cases h <;> cases c <;> cases r <;> cases w <;> asm_bash_cb
    | raise => cases h <;> cases c <;> cases r <;> cases w <;> asm_bash_cb
  | some x =>
    rcases nat_tri x with rfl | rfl | ⟨j, rfl⟩ <;>
    cases g with
    | yld v =>
      rcases nat_tri v with rfl | rfl | ⟨k, rfl⟩ <;>
      cases h <;> cases c <;> cases r <;> cases w <;> asm_bash_cb
    | stop => cases h <;> cases c <;> cases r <;> cases w <;> asm_bash_cb
    | raise => cases h <;> cases c <;> cases r <;> cases w <;> asm_bash_cb


set_option maxHeartbeats 1000000 in
theorem asm_cb_inWrite (a : ASM) (g : GenStep) : AsmCbSpec a .inWrite g := by
  obtain ⟨h, c, r, w, res⟩ := a
  cases res with
  | none =>
    cases g with
    | yld v =>
      rcases nat_tri v with rfl | rfl | ⟨k, rfl⟩ <;>
      cases h <;> cases c <;> cases r <;> cases w <;> asm_bash_cb
    | stop => cases h <;> cases c <;> cases r <;> cases w <;> asm_bash_cb
    | raise => cases h <;> cases c <;> cases r <;> cases w <;> asm_bash_cb
  | some x =>
    rcases nat_tri x with rfl | rfl | ⟨j, rfl⟩ <;>
    cases g with
    | yld v =>
      rcases nat_tri v with rfl | rfl | ⟨k, rfl⟩ <;>
      cases h <;> cases c <;> cases r <;> cases w <;> asm_bash_cb
    | stop => cases h <;> cases c <;> cases r <;> cases w <;> asm_bash_cb
    | raise => cases h <;> cases c <;> cases r <;> cases w <;> asm_bash_cb


set_option maxHeartbeats 1000000 in
theorem asm_cb_setHandshake (a : ASM) (g : GenStep) : AsmCbSpec a .setHandshake g := by
  obtain ⟨h, c, r, w, res⟩ := a
  cases res with
  | none =>
    cases g with
    | yld v =>
      rcases nat_tri v with rfl | rfl | ⟨k, rfl⟩ <;>
      cases h <;> cases c <;> cases r <;> cases w <;> asm_bash_cb
    | stop => cases h <;> cases c <;> cases r <;> cases w <;> asm_bash_cb
    | raise => cases h <;> cases c <;> cases r <;> cases w <;> asm_bash_cb
  | some x =>
    rcases nat_tri x with rfl | rfl | ⟨j, rfl⟩ <;>
    cases g with
    | yld v =>
      rcases nat_tri v with rfl | rfl | ⟨k, rfl⟩ <;>
      cases h <;> cases c <;> cases r <;> cases w <;> asm_bash_cb
    | stop => cases h <;> cases c <;> cases r <;> cases w <;> asm_bash_cb
    | raise => cases h <;> cases c <;> cases r <;> cases w <;> asm_bash_cb


set_option maxHeartbeats 1000000 in
theorem asm_cb_setClose (a : ASM) (g : GenStep) : AsmCbSpec a .setClose g := by
  obtain ⟨h, c, r, w, res⟩ := a
  cases res with
  | none =>
    cases g with
    | yld v =>
      rcases nat_tri v with rfl | rfl | ⟨k, rfl⟩ <;>
      cases h <;> cases c <;> cases r <;> cases w <;> asm_bash_cb
    | stop => cases h <;> cases c <;> cases r <;> cases w <;> asm_bash_cb
    | raise => cases h <;> cases c <;> cases r <;> cases w <;> asm_bash_cb
  | some x =>
    rcases nat_tri x with rfl | rfl | ⟨j, rfl⟩ <;>
    cases g with
    | yld v =>
      rcases nat_tri v with rfl | rfl | ⟨k, rfl⟩ <;>
      cases h <;> cases c <;> cases r <;> cases w <;> asm_bash_cb
    | stop => cases h <;> cases c <;> cases r <;> cases w <;> asm_bash_cb
    | raise => cases h <;> cases c <;> cases r <;> cases w <;> asm_bash_cb


set_option maxHeartbeats 1000000 in
theorem asm_cb_setWrite (a : ASM) (g : GenStep) : AsmCbSpec a .setWrite g := by
  obtain ⟨h, c, r, w, res⟩ := a
  cases res with
  | none =>
    cases g with
    | yld v =>
      rcases nat_tri v with rfl | rfl | ⟨k, rfl⟩ <;>
      cases h <;> cases c <;> cases r <;> cases w <;> asm_bash_cb
    | stop => cases h <;> cases c <;> cases r <;> cases w <;> asm_bash_cb
    | raise => cases h <;> cases c <;> cases r <;> cases w <;> asm_bash_cb
  | some x =>
    rcases nat_tri x with rfl | rfl | ⟨j, rfl⟩ <;>
    cases g with
    | yld v =>
      rcases nat_tri v with rfl | rfl | ⟨k, rfl⟩ <;>
      cases h <;> cases c <;> cases r <;> cases w <;> asm_bash_cb
    | stop => cases h <;> cases c <;> cases r <;> cases w <;> asm_bash_cb
    | raise => cases h <;> cases c <;> cases r <;> cases w <;> asm_bash_cb


theorem asm_callback_spec (a : ASM) (op : AsmOp) (g : GenStep) : AsmCbSpec a op g := by
  cases op
  · exact asm_cb_inRead a g
  · exact asm_cb_inWrite a g
  · exact asm_cb_setHandshake a g
  · exact asm_cb_setClose a g
  · exact asm_cb_setWrite a g

end Tls.IO
