import TlsModel.IO
/-
  C14 helper lemmas: AsyncStateMachine, every transition from every state (case analysis).
-/
namespace Tls.IO

/-- the generator obeys the yield protocol: it only ever yields 0 or 1
    (true of the handshake / close / write generators) -/
def GenStep.proto : GenStep → Prop
  | .yld v => v = 0 ∨ v = 1
  | _ => True

def AsmOp.isSet : AsmOp → Bool
  | .setHandshake | .setClose | .setWrite => true
  | _ => false

theorem nat_tri (v : Nat) : v = 0 ∨ v = 1 ∨ ∃ k, v = k + 2 := by
  rcases v with _ | _ | k
  · exact Or.inl rfl
  · exact Or.inr (Or.inl rfl)
  · exact Or.inr (Or.inr ⟨k, rfl⟩)

def AsmSpec (a : ASM) (op : AsmOp) (g : GenStep) : Prop :=
    ((a.step op g).2 = .assertionError ∨ (a.step op g).2 = .raised → (a.step op g).1 = ASM.clear) ∧
    (∀ evs, (a.step op g).2 = .ok evs →
        a.checkAssert 1 = true ∧ (a.step op g).1.activeOps ≤ 1 ∧
        (g.proto → (a.step op g).1.checkAssert 1 = true)) ∧
    (op.isSet = true → 1 ≤ a.activeOps → (a.step op g).2 = .assertionError)

macro "asm_bash" : tactic => `(tactic|
  (simp [AsmSpec, ASM.step, ASM.inReadEvent, ASM.inWriteEvent, ASM.setHandshakeOp, ASM.setCloseOp,
      ASM.setWriteOp, ASM.guard, ASM.checkAssert, ASM.activeOps, ASM.doHandshakeOp, ASM.doCloseOp,
      ASM.doReadOp, ASM.doWriteOp, ASM.clear, GenStep.proto, AsmOp.isSet]))

set_option maxHeartbeats 1000000 in
theorem asm_spec_inRead (a : ASM) (g : GenStep) : AsmSpec a .inRead g := by
  obtain ⟨h, c, r, w, res⟩ := a
  cases res with
  | none =>
    cases g with
    | yld v =>
      rcases nat_tri v with rfl | rfl | ⟨k, rfl⟩ <;>
      cases h <;> cases c <;> cases r <;> cases w <;> asm_bash
    | stop => cases h <;> cases c <;> cases r <;> cases w <;> asm_bash
    | raise => cases h <;> cases c <;> cases r <;> cases w <;> asm_bash
  | some x =>
    rcases nat_tri x with rfl | rfl | ⟨j, rfl⟩ <;>
    cases g with
    | yld v =>
      rcases nat_tri v with rfl | rfl | ⟨k, rfl⟩ <;>
      cases h <;> cases c <;> cases r <;> cases w <;> asm_bash
    | stop => cases h <;> cases c <;> cases r <;> cases w <;> asm_bash
    | raise => cases h <;> cases c <;> cases r <;> cases w <;> asm_bash

set_option maxHeartbeats 1000000 in
theorem asm_spec_inWrite (a : ASM) (g : GenStep) : AsmSpec a .inWrite g := by
  obtain ⟨h, c, r, w, res⟩ := a
  cases res with
  | none =>
    cases g with
    | yld v =>
      rcases nat_tri v with rfl | rfl | ⟨k, rfl⟩ <;>
      cases h <;> cases c <;> cases r <;> cases w <;> asm_bash
    | stop => cases h <;> cases c <;> cases r <;> cases w <;> asm_bash
    | raise => cases h <;> cases c <;> cases r <;> cases w <;> asm_bash
  | some x =>
    rcases nat_tri x with rfl | rfl | ⟨j, rfl⟩ <;>
    cases g with
    | yld v =>
      rcases nat_tri v with rfl | rfl | ⟨k, rfl⟩ <;>
      cases h <;> cases c <;> cases r <;> cases w <;> asm_bash
    | stop => cases h <;> cases c <;> cases r <;> cases w <;> asm_bash
    | raise => cases h <;> cases c <;> cases r <;> cases w <;> asm_bash

set_option maxHeartbeats 1000000 in
theorem asm_spec_setHandshake (a : ASM) (g : GenStep) : AsmSpec a .setHandshake g := by
  obtain ⟨h, c, r, w, res⟩ := a
  cases res with
  | none =>
    cases g with
    | yld v =>
      rcases nat_tri v with rfl | rfl | ⟨k, rfl⟩ <;>
      cases h <;> cases c <;> cases r <;> cases w <;> asm_bash
    | stop => cases h <;> cases c <;> cases r <;> cases w <;> asm_bash
    | raise => cases h <;> cases c <;> cases r <;> cases w <;> asm_bash
  | some x =>
    rcases nat_tri x with rfl | rfl | ⟨j, rfl⟩ <;>
    cases g with
    | yld v =>
      rcases nat_tri v with rfl | rfl | ⟨k, rfl⟩ <;>
      cases h <;> cases c <;> cases r <;> cases w <;> asm_bash
    | stop => cases h <;> cases c <;> cases r <;> cases w <;> asm_bash
    | raise => cases h <;> cases c <;> cases r <;> cases w <;> asm_bash

set_option maxHeartbeats 1000000 in
theorem asm_spec_setClose (a : ASM) (g : GenStep) : AsmSpec a .setClose g := by
  obtain ⟨h, c, r, w, res⟩ := a
  cases res with
  | none =>
    cases g with
    | yld v =>
      rcases nat_tri v with rfl | rfl | ⟨k, rfl⟩ <;>
      cases h <;> cases c <;> cases r <;> cases w <;> asm_bash
    | stop => cases h <;> cases c <;> cases r <;> cases w <;> asm_bash
    | raise => cases h <;> cases c <;> cases r <;> cases w <;> asm_bash
  | some x =>
    rcases nat_tri x with rfl | rfl | ⟨j, rfl⟩ <;>
    cases g with
    | yld v =>
      rcases nat_tri v with rfl | rfl | ⟨k, rfl⟩ <;>
      cases h <;> cases c <;> cases r <;> cases w <;> asm_bash
    | stop => cases h <;> cases c <;> cases r <;> cases w <;> asm_bash
    | raise => cases h <;> cases c <;> cases r <;> cases w <;> asm_bash

set_option maxHeartbeats 1000000 in
theorem asm_spec_setWrite (a : ASM) (g : GenStep) : AsmSpec a .setWrite g := by
  obtain ⟨h, c, r, w, res⟩ := a
  cases res with
  | none =>
    cases g with
    | yld v =>
      rcases nat_tri v with rfl | rfl | ⟨k, rfl⟩ <;>
      cases h <;> cases c <;> cases r <;> cases w <;> asm_bash
    | stop => cases h <;> cases c <;> cases r <;> cases w <;> asm_bash
    | raise => cases h <;> cases c <;> cases r <;> cases w <;> asm_bash
  | some x =>
    rcases nat_tri x with rfl | rfl | ⟨j, rfl⟩ <;>
    cases g with
    | yld v =>
      rcases nat_tri v with rfl | rfl | ⟨k, rfl⟩ <;>
      cases h <;> cases c <;> cases r <;> cases w <;> asm_bash
    | stop => cases h <;> cases c <;> cases r <;> cases w <;> asm_bash
    | raise => cases h <;> cases c <;> cases r <;> cases w <;> asm_bash

theorem asm_step_spec (a : ASM) (op : AsmOp) (g : GenStep) : AsmSpec a op g := by
  cases op
  · exact asm_spec_inRead a g
  · exact asm_spec_inWrite a g
  · exact asm_spec_setHandshake a g
  · exact asm_spec_setClose a g
  · exact asm_spec_setWrite a g

/-- a transition that invokes a callback (outConnectEvent / outCloseEvent / outReadEvent /
    outWriteEvent; in the code the callback is the LAST statement of `_do*Op`, so the state the
    model returns is the state at callback entry) does so with no operation active -/
def AsmCbSpec (a : ASM) (op : AsmOp) (g : GenStep) : Prop :=
  ∀ evs, (a.step op g).2 = .ok evs → evs ≠ [] →
    (a.step op g).1.activeOps = 0 ∧ (a.step op g).1.result = none

macro "asm_bash_cb" : tactic => `(tactic|
  (simp [AsmCbSpec, ASM.step, ASM.inReadEvent, ASM.inWriteEvent, ASM.setHandshakeOp, ASM.setCloseOp,
      ASM.setWriteOp, ASM.guard, ASM.checkAssert, ASM.activeOps, ASM.doHandshakeOp, ASM.doCloseOp,
      ASM.doReadOp, ASM.doWriteOp, ASM.clear]))

set_option maxHeartbeats 1000000 in
theorem asm_cb_inRead (a : ASM) (g : GenStep) : AsmCbSpec a .inRead g := by
  obtain ⟨h, c, r, w, res⟩ := a
  cases res with
  | none =>
    cases g with
    | yld v =>
      rcases nat_tri v with rfl | rfl | ⟨k, rfl⟩ <;>
      cases h <;> cases c <;> cases r <;> cases w <;> asm_bash_cb
    | stop => cases h <;> cases c <;> cases r <;> cases w <;> asm_bash_cb
    | raise => cases h <;> cases c <;> cases r <;> cases w <;> asm_bash_cb
  | some x =>
    rcases nat_tri x with rfl | rfl | ⟨j, rfl⟩ <;>
    cases g with
    | yld v =>
      rcases nat_tri v with rfl | rfl | ⟨k, rfl⟩ <;>
      cases h <;> cases c <;> cases r <;> cases w <;> asm_bash_cb
    | stop => cases h <;> cases c <;> cases r <;> cases w <;> asm_bash_cb
    | raise => cases h <;> cases c <;> cases r <;> cases w <;> asm_bash_cb


set_option maxHeartbeats 1000000 in
theorem asm_cb_inWrite (a : ASM) (g : GenStep) : AsmCbSpec a .inWrite g := by
  obtain ⟨h, c, r, w, res⟩ := a
  cases res with
  | none =>
    cases g with
    | yld v =>
      rcases nat_tri v with rfl | rfl | ⟨k, rfl⟩ <;>
      cases h <;> cases c <;> cases r <;> cases w <;> asm_bash_cb
    | stop => cases h <;> cases c <;> cases r <;> cases w <;> asm_bash_cb
    | raise => cases h <;> cases c <;> cases r <;> cases w <;> asm_bash_cb
  | some x =>
    rcases nat_tri x with rfl | rfl | ⟨j, rfl⟩ <;>
    cases g with
    | yld v =>
      rcases nat_tri v with rfl | rfl | ⟨k, rfl⟩ <;>
      cases h <;> cases c <;> cases r <;> cases w <;> asm_bash_cb
    | stop => cases h <;> cases c <;> cases r <;> cases w <;> asm_bash_cb
    | raise => cases h <;> cases c <;> cases r <;> cases w <;> asm_bash_cb


set_option maxHeartbeats 1000000 in
theorem asm_cb_setHandshake (a : ASM) (g : GenStep) : AsmCbSpec a .setHandshake g := by
  obtain ⟨h, c, r, w, res⟩ := a
  cases res with
  | none =>
    cases g with
    | yld v =>
      rcases nat_tri v with rfl | rfl | ⟨k, rfl⟩ <;>
      cases h <;> cases c <;> cases r <;> cases w <;> asm_bash_cb
    | stop => cases h <;> cases c <;> cases r <;> cases w <;> asm_bash_cb
    | raise => cases h <;> cases c <;> cases r <;> cases w <;> asm_bash_cb
  | some x =>
    rcases nat_tri x with rfl | rfl | ⟨j, rfl⟩ <;>
    cases g with
    | yld v =>
      rcases nat_tri v with rfl | rfl | ⟨k, rfl⟩ <;>
      cases h <;> cases c <;> cases r <;> cases w <;> asm_bash_cb
    | stop => cases h <;> cases c <;> cases r <;> cases w <;> asm_bash_cb
    | raise => cases h <;> cases c <;> cases r <;> cases w <;> asm_bash_cb


set_option maxHeartbeats 1000000 in
theorem asm_cb_setClose (a : ASM) (g : GenStep) : AsmCbSpec a .setClose g := by
  obtain ⟨h, c, r, w, res⟩ := a
  cases res with
  | none =>
    cases g with
    | yld v =>
      rcases nat_tri v with rfl | rfl | ⟨k, rfl⟩ <;>
      cases h <;> cases c <;> cases r <;> cases w <;> asm_bash_cb
    | stop => cases h <;> cases c <;> cases r <;> cases w <;> asm_bash_cb
    | raise => cases h <;> cases c <;> cases r <;> cases w <;> asm_bash_cb
  | some x =>
    rcases nat_tri x with rfl | rfl | ⟨j, rfl⟩ <;>
    cases g with
    | yld v =>
      rcases nat_tri v with rfl | rfl | ⟨k, rfl⟩ <;>
      cases h <;> cases c <;> cases r <;> cases w <;> asm_bash_cb
    | stop => cases h <;> cases c <;> cases r <;> cases w <;> asm_bash_cb
    | raise => cases h <;> cases c <;> cases r <;> cases w <;> asm_bash_cb


set_option maxHeartbeats 1000000 in
theorem asm_cb_setWrite (a : ASM) (g : GenStep) : AsmCbSpec a .setWrite g := by
  obtain ⟨h, c, r, w, res⟩ := a
  cases res with
  | none =>
    cases g with
    | yld v =>
      rcases nat_tri v with rfl | rfl | ⟨k, rfl⟩ <;>
      cases h <;> cases c <;> cases r <;> cases w <;> asm_bash_cb
    | stop => cases h <;> cases c <;> cases r <;> cases w <;> asm_bash_cb
    | raise => cases h <;> cases c <;> cases r <;> cases w <;> asm_bash_cb
  | some x =>
    rcases nat_tri x with rfl | rfl | ⟨j, rfl⟩ <;>
    cases g with
    | yld v =>
      rcases nat_tri v with rfl | rfl | ⟨k, rfl⟩ <;>
      cases h <;> cases c <;> cases r <;> cases w <;> asm_bash_cb
    | stop => cases h <;> cases c <;> cases r <;> cases w <;> asm_bash_cb
    | raise => cases h <;> cases c <;> cases r <;> cases w <;> asm_bash_cb


theorem asm_callback_spec (a : ASM) (op : AsmOp) (g : GenStep) : AsmCbSpec a op g := by
  cases op
  · exact asm_cb_inRead a g
  · exact asm_cb_inWrite a g
  · exact asm_cb_setHandshake a g
  · exact asm_cb_setClose a g
  · exact asm_cb_setWrite a g

/-! ## the read-ahead drain loop of inReadEvent -/

theorem inReadDrain_nil (a : ASM) (g : GenStep) : a.inReadDrain g [] = a.inReadEvent g := by
  simp [ASM.inReadDrain, ASM.inReadEvent, ASM.doReadOpD, ASM.drainLoop]

theorem inWriteDrain_nil (a : ASM) (g : GenStep) : a.inWriteDrain g [] = a.inWriteEvent g := by
  simp [ASM.inWriteDrain, ASM.inWriteEvent, ASM.doReadOpD, ASM.drainLoop]

/-- what the loop maintains: a successful state holds at most one operation -/
def DrainOk (r : ASM × AsmRes) : Prop := ∀ evs, r.2 = .ok evs → r.1.activeOps ≤ 1

theorem doReadOp_fresh_ok (b : ASM) (hb : b.noOp = true) (g : GenStep) :
    DrainOk (({ b with reader := true }).doReadOp g) := by
  obtain ⟨h, c, r, w, res⟩ := b
  simp [ASM.noOp] at hb
  obtain ⟨⟨⟨rfl, rfl⟩, rfl⟩, rfl⟩ := hb
  intro evs
  cases g with
  | yld v => simp only [ASM.doReadOp]; split <;> simp [ASM.activeOps]
  | stop => simp [ASM.doReadOp]
  | raise => simp [ASM.doReadOp]

theorem drainLoop_ok : ∀ (pend : List GenStep) (r : ASM × AsmRes), DrainOk r → DrainOk (ASM.drainLoop r pend) := by
  intro pend
  induction pend with
  | nil => intro r h; exact h
  | cons g rest ih =>
    intro r h
    simp only [ASM.drainLoop]
    cases hr : r.2 with
    | ok evs =>
      simp only
      by_cases hn : r.1.noOp = true
      · simp only [hn, if_true]
        have h1 := doReadOp_fresh_ok r.1 hn g
        cases hr' : (({ r.1 with reader := true }).doReadOp g).2 with
        | ok evs' =>
          simp only
          apply ih
          intro e _
          exact h1 evs' hr'
        | assertionError => simp only; intro e he; rw [hr'] at he; simp at he
        | raised => simp only; intro e he; rw [hr'] at he; simp at he
      · simp only [hn]; exact h
    | assertionError => simp only; exact h
    | raised => simp only; exact h

theorem guard_drainOk (r : ASM × AsmRes) (h : DrainOk r) :
    ((ASM.guard r).2 = .assertionError ∨ (ASM.guard r).2 = .raised → (ASM.guard r).1 = ASM.clear) ∧
    (∀ evs, (ASM.guard r).2 = .ok evs → (ASM.guard r).1.activeOps ≤ 1) := by
  unfold ASM.guard
  cases hr : r.2 with
  | ok evs => simp only; exact ⟨by simp [hr], fun e he => h e he⟩
  | assertionError => simp
  | raised => simp

theorem drain_body_ok (a : ASM) (g : GenStep) (pend : List GenStep) (last : ASM × AsmRes)
    (hlast : a.activeOps = 0 → DrainOk last) :
    DrainOk (if !a.checkAssert then (a, .assertionError)
      else if a.handshaker then a.doHandshakeOp g
      else if a.closer then a.doCloseOp g
      else if a.reader then a.doReadOpD g pend
      else if a.writer then a.doWriteOp g
      else last) := by
  obtain ⟨h, c, r, w, res⟩ := a
  by_cases hc : (ASM.checkAssert ⟨h, c, r, w, res⟩) = true
  · simp only [hc, Bool.not_true, Bool.false_eq_true, if_false]
    have hact : (ASM.activeOps ⟨h, c, r, w, res⟩) ≤ 1 := by
      simp [ASM.checkAssert] at hc
      omega
    cases h <;> cases c <;> cases r <;> cases w <;> simp [ASM.activeOps] at hact <;>
      simp only [if_true, Bool.false_eq_true, if_false]
    · exact hlast (by simp [ASM.activeOps])
    · intro evs; cases g <;> simp [ASM.doWriteOp, ASM.activeOps]
    · unfold ASM.doReadOpD
      apply drainLoop_ok
      exact doReadOp_fresh_ok ⟨false, false, false, false, res⟩ (by simp [ASM.noOp]) g
    · intro evs; cases g <;> simp [ASM.doCloseOp, ASM.activeOps]
    · intro evs; cases g <;> simp [ASM.doHandshakeOp, ASM.activeOps]
  · simp only [hc, Bool.not_false, if_true]
    intro evs he; simp at he

theorem asm_drain_spec (a : ASM) (g : GenStep) (pend : List GenStep) :
    ((a.inReadDrain g pend).2 = .assertionError ∨ (a.inReadDrain g pend).2 = .raised →
        (a.inReadDrain g pend).1 = ASM.clear) ∧
    (∀ evs, (a.inReadDrain g pend).2 = .ok evs → (a.inReadDrain g pend).1.activeOps ≤ 1) := by
  unfold ASM.inReadDrain
  apply guard_drainOk
  apply drain_body_ok
  intro h0
  unfold ASM.doReadOpD
  apply drainLoop_ok
  obtain ⟨h, c, r, w, res⟩ := a
  cases h <;> cases c <;> cases r <;> cases w <;> simp [ASM.activeOps] at h0
  exact doReadOp_fresh_ok ⟨false, false, false, false, res⟩ (by simp [ASM.noOp]) g

theorem asm_wdrain_spec (a : ASM) (g : GenStep) (pend : List GenStep) :
    ((a.inWriteDrain g pend).2 = .assertionError ∨ (a.inWriteDrain g pend).2 = .raised →
        (a.inWriteDrain g pend).1 = ASM.clear) ∧
    (∀ evs, (a.inWriteDrain g pend).2 = .ok evs → (a.inWriteDrain g pend).1.activeOps ≤ 1) := by
  unfold ASM.inWriteDrain
  apply guard_drainOk
  apply drain_body_ok
  intro h0 evs _
  simp only; omega

/-- every complete record found in the read-ahead buffer is handed to outReadEvent before
    inReadEvent returns: an idle machine whose first read and all `n` extra reads complete
    (`yld v`, v a result object, i.e. not 0/1) emits n+1 outReadEvents and ends idle -/
theorem drainLoop_all_complete : ∀ (vs : List Nat) (evs : List AsmEv), (∀ v ∈ vs, v ≠ 0 ∧ v ≠ 1) →
    ASM.drainLoop (ASM.clear, .ok evs) (vs.map GenStep.yld) =
      (ASM.clear, .ok (evs ++ List.replicate vs.length AsmEv.outRead)) := by
  intro vs
  induction vs with
  | nil => intro evs _; simp [ASM.drainLoop]
  | cons v vs ih =>
    intro evs h
    have hv := h v (by simp)
    have hne : ¬ (v = 0 ∨ v = 1) := by omega
    simp only [List.map_cons, ASM.drainLoop, ASM.noOp, ASM.clear, ASM.doReadOp]
    simp [hne]
    have := ih (evs ++ [AsmEv.outRead]) (fun x hx => h x (by simp [hx]))
    simp only [ASM.clear] at this
    rw [this]
    simp [List.replicate_succ, List.append_assoc]

end Tls.IO
