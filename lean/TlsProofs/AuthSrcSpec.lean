import TlsModel.Gen.AuthSrc
import TlsModel.Auth
/-
  C05: decidable predicates over the event lists that translate/gen_auth.py extracts from the AST of the
  tree under check (TlsModel/Gen/AuthSrc.lean), and the shapes the hand-written model (TlsModel/Auth.lean)
  assumes.  The theorems using them are in Props/C05.lean and are decided by the kernel on every run.
-/
namespace Tls.Auth.Src

/-- `req` occurs in `l` as a subsequence (same order, other events may lie in between) -/
def subseq : List Ev → List Ev → Bool
  | [], _ => true
  | _ :: _, [] => false
  | r :: rs, x :: xs => if r = x then subseq rs xs else subseq (r :: rs) xs

def noOdd (l : List Ev) : Bool := l.all fun e => match e with | .odd _ => false | _ => true

/-- no event satisfying `p` after the first event satisfying `q` -/
def noneAfter (p q : Ev → Bool) : List Ev → Bool
  | [] => true
  | x :: xs => if q x then xs.all (fun e => !p e) else noneAfter p q xs

def isSkip : Ev → Bool | .skip _ => true | _ => false
def isRecordResumed : Ev → Bool | .recordResumed _ => true | _ => false
def isTicketSend : Ev → Bool | .ticketSend _ => true | _ => false
def isCheckerCall : Ev → Bool | .checkerCall _ => true | _ => false
def isRecord : Ev → Bool | .record _ => true | _ => false

/-- every ticketSend has a checkerCall somewhere before it -/
def ticketsAfterChecker : List Ev → Bool → Bool
  | [], _ => true
  | x :: xs, seen =>
    if isTicketSend x then seen && ticketsAfterChecker xs seen
    else ticketsAfterChecker xs (seen || isCheckerCall x)

def hasTicketSend (l : List Ev) : Bool := l.any isTicketSend

/-- all analysed functions -/
def allFunctions : List (List Ev) :=
  [f_serverTLS13Handshake, f_clientTLS13Handshake, f_serverCertKeyExchange, f_handshakeServerAsyncHelper,
   f_clientKeyExchange, f_handshakeClientAsyncHelper, f_getFinished, f_sendFinished, f_serverFinished,
   f_clientFinished, f_serverSRPKeyExchange, f_handshakeWrapperAsync, f_check_before_tickets, f_handle_srv_pha,
   f_tls12_verify_SKE, f_tls12_verify_ecdsa_SKE, f_tls12_verify_eddsa_ske, f_tls12_verify_dsa_SKE,
   f_verifyServerKeyExchange, f_SRPKeyExchange_processClientKeyExchange,
   f_SRPKeyExchange_processServerKeyExchange, f_DelegatedCredential_verify, f_verify_binder]

/-- the Checker structure the model (`checkerSkips`, `checkerOk`, `wrapperR`) is written against -/
def modelCheckerShape : CheckerShape :=
  { skip := 1               -- `checkerSkips cr resumed = !cr && resumed`, first statement, plain return
    clientChain := 1        -- `checkerOk`: client looks at `serverCertChain`
    serverChain := 1        -- server at `clientCertChain`
    compare := 1            -- `certFp c = fp` else TLSFingerprintError
    eeIndex := 0            -- `c :: _`: the end-entity certificate only
    missingRaises := 1      -- `[] => false`: TLSNoAuthenticationError
    onlySkipReturns := 1 }  -- no other way to leave without raising

end Tls.Auth.Src
