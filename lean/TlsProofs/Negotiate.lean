import TlsModel.Negotiate
/-
  Lemmas about the negotiation model (C03): inversion of the Outcome monad, what membership in the
  output of the CipherSuite filters means, what each stage guarantees when it succeeds.
  Core Lean only.
-/
namespace Tls.Neg
open Tls.Gen.Neg

/-! ## Outcome monad -/

theorem bind_eq_ok {α β} {x : Outcome α} {f : α → Outcome β} {b : β} :
    (x >>= f) = .ok b ↔ ∃ a, x = .ok a ∧ f a = .ok b := by
  cases x <;> simp [Bind.bind, Outcome.bind]

theorem pure_eq_ok {α} {a b : α} : (pure a : Outcome α) = .ok b ↔ a = b := by
  simp [pure]

theorem failIf_eq_ok {c : Bool} {s : Side} {d : String} {u : Unit} : failIf c s d = .ok u ↔ c = false := by
  unfold failIf; cases c <;> simp

/-- `failIf c …; rest` succeeds iff the guard is off and the rest succeeds -/
theorem failIf_bind_ok {β} {c : Bool} {s : Side} {d : String} {f : Unit → Outcome β} {b : β} :
    (failIf c s d >>= f) = .ok b ↔ c = false ∧ f () = .ok b := by
  rw [bind_eq_ok]
  constructor
  · rintro ⟨u, h1, h2⟩; exact ⟨failIf_eq_ok.mp h1, h2⟩
  · rintro ⟨h1, h2⟩; exact ⟨(), failIf_eq_ok.mpr h1, h2⟩

/-! ## registered meaning of suites (specification side) -/

/-- (cipher, mac, keyExchange) of a suite according to its registered IETF name -/
def suiteInfo (s : Nat) : Option (String × String × String) :=
  (suiteSem.find? (·.1 == s)).map (·.2)

/-- the settings' name lists admit the suite (AEAD suites need 'aead' among the MAC names; TLS 1.3
    suites have no key-exchange name) -/
def Settings.allowsSuite (st : Settings) (s : Nat) : Prop :=
  ∃ c m k, suiteInfo s = some (c, m, k) ∧ c ∈ st.cipherNames ∧ m ∈ st.macNames ∧
    (k = "tls13" ∨ k ∈ st.keyExchangeNames)

/-- every suite a key-exchange row of `_filterSuites` can admit has a registered name whose key
    exchange is the row's, and every MAC / cipher row containing it carries its registered MAC /
    cipher name.  Closed statement over the generated tables. -/
def tablesOk : Bool :=
  kexTable.all fun rk => rk.2.2.all fun s =>
    match suiteInfo s with
    | none => false
    | some (c, m, k) =>
      k == rk.1 && macTable.all (fun rm => !rm.2.2.contains s || rm.1 == m) &&
      cipherTable.all (fun rc => !rc.2.2.contains s || rc.1 == c)

theorem tablesOk_holds : tablesOk = true := by decide

/-! ## filters -/

theorem mem_rowsFor {tbl : List (String × Nat × List Nat)} {names : List String} {v s : Nat} :
    s ∈ rowsFor tbl names v ↔ ∃ r ∈ tbl, r.1 ∈ names ∧ r.2.1 ≤ v ∧ s ∈ r.2.2 := by
  unfold rowsFor
  simp only [List.mem_flatMap]
  constructor
  · rintro ⟨r, hr, hs⟩
    split at hs
    · rename_i hc
      simp only [Bool.and_eq_true, List.contains_iff_mem, decide_eq_true_eq] at hc
      exact ⟨r, hr, hc.1, hc.2, hs⟩
    · simp at hs
  · rintro ⟨r, hr, h1, h2, h3⟩
    refine ⟨r, hr, ?_⟩
    have : (names.contains r.1 && decide (r.2.1 ≤ v)) = true := by
      simp only [Bool.and_eq_true, List.contains_iff_mem, decide_eq_true_eq]; exact ⟨h1, h2⟩
    rw [if_pos this]; exact h3

theorem mem_filterSuites {suites : List Nat} {st : Settings} {v s : Nat} (h : s ∈ filterSuites suites st v) :
    s ∈ suites ∧ s ∈ rowsFor macTable st.macNames v ∧ s ∈ rowsFor cipherTable st.cipherNames v ∧
    s ∈ rowsFor kexTable ("tls13" :: st.keyExchangeNames) v := by
  unfold filterSuites at h
  simp only [List.mem_filter, Bool.and_eq_true, List.contains_iff_mem] at h
  exact ⟨h.1, h.2.1.1, h.2.1.2, h.2.2⟩

/-- what `_filterSuites` lets through is allowed by the settings' name lists -/
theorem filterSuites_allows {suites : List Nat} {st : Settings} {v s : Nat} (h : s ∈ filterSuites suites st v) :
    st.allowsSuite s := by
  obtain ⟨_, hm, hc, hk⟩ := mem_filterSuites h
  obtain ⟨rm, hrm, hmn, _, hms⟩ := mem_rowsFor.mp hm
  obtain ⟨rc, hrc, hcn, _, hcs⟩ := mem_rowsFor.mp hc
  obtain ⟨rk, hrk, hkn, _, hks⟩ := mem_rowsFor.mp hk
  have ht := tablesOk_holds
  unfold tablesOk at ht
  have h1 := List.all_eq_true.mp ht rk hrk
  have h2 := List.all_eq_true.mp h1 s hks
  cases hi : suiteInfo s with
  | none => simp [hi] at h2
  | some t =>
    obtain ⟨c, m, k⟩ := t
    simp only [hi, Bool.and_eq_true, beq_iff_eq] at h2
    obtain ⟨⟨hk1, hmac⟩, hciph⟩ := h2
    have hm2 := List.all_eq_true.mp hmac rm hrm
    have hc2 := List.all_eq_true.mp hciph rc hrc
    simp only [Bool.or_eq_true, Bool.not_eq_true', beq_iff_eq] at hm2 hc2
    have hmeq : rm.1 = m := by
      rcases hm2 with h | h
      · have : rm.2.2.contains s = true := List.contains_iff_mem.mpr hms
        rw [this] at h; cases h
      · exact h
    have hceq : rc.1 = c := by
      rcases hc2 with h | h
      · have : rc.2.2.contains s = true := List.contains_iff_mem.mpr hcs
        rw [this] at h; cases h
      · exact h
    refine ⟨c, m, k, hi, hceq ▸ hcn, hmeq ▸ hmn, ?_⟩
    rw [hk1]
    simp only [List.mem_cons] at hkn
    exact hkn

theorem mem_filterForVersion {suites : List Nat} {v s : Nat} (h : s ∈ filterForVersion suites v) : s ∈ suites := by
  unfold filterForVersion at h
  exact (List.mem_filter.mp h).1

theorem mem_filterForCertificate {suites : List Nat} {c : Option Cred} {s : Nat}
    (h : s ∈ filterForCertificate suites c) : s ∈ suites := by
  unfold filterForCertificate at h
  exact (List.mem_filter.mp h).1

theorem mem_filterForPrfs {suites : List Nat} {p : List String} {s : Nat}
    (h : s ∈ filterForPrfs suites p) : s ∈ suites := by
  unfold filterForPrfs at h
  exact (List.mem_filter.mp h).1

theorem firstMatching_some {α} [BEq α] [LawfulBEq α] {vs ms : List α} {a : α}
    (h : firstMatching vs ms = some a) : a ∈ vs ∧ a ∈ ms := by
  unfold firstMatching at h
  have h1 := List.mem_of_find?_eq_some h
  have h2 := List.find?_some h
  exact ⟨h1, List.contains_iff_mem.mp h2⟩

/-! ## client offer -/

theorem clientSuites_allowed {cs : Settings} {fl : ClientFlavour} {s : Nat} (h : s ∈ clientSuites cs fl) :
    cs.allowsSuite s := by
  unfold clientSuites at h
  cases fl <;> simp only [List.mem_append] at h
  · rcases h with ((((h | h) | h) | h) | h) | h <;> exact filterSuites_allows h
  · exact filterSuites_allows h
  · rcases h with h | h <;> exact filterSuites_allows h

/-! ## server -/

theorem pickVersion_ok {ss : Settings} {o : Offer} {v : Nat} (h : pickVersion ss o = .ok v) :
    (∀ vs, o.supportedVersions = some vs →
      v ∈ ss.versions ∧ ss.minVersion ≤ v ∧ v ≤ ss.maxVersion ∧ v ∈ vs ∧
      firstMatching (ss.versions.filter fun i => ss.minVersion ≤ i && i ≤ ss.maxVersion) vs = some v) ∧
    (o.supportedVersions = none → v ≤ ss.maxVersion ∧ v ≤ o.clientVersion ∧
      v = (if o.clientVersion > ss.maxVersion then min ss.maxVersion 3 else min o.clientVersion 3)) := by
  unfold pickVersion at h
  split at h
  · rename_i vs hsv
    split at h
    · rename_i hv hfm
      have := pure_eq_ok.mp h
      subst this
      refine ⟨?_, fun hn => (by rw [hsv] at hn; cases hn)⟩
      intro vs' hvs'
      rw [hsv] at hvs'; injection hvs' with hvs'; subst hvs'
      obtain ⟨h1, h2⟩ := firstMatching_some hfm
      obtain ⟨h3, h4⟩ := List.mem_filter.mp h1
      simp only [Bool.and_eq_true, decide_eq_true_eq] at h4
      exact ⟨h3, h4.1, h4.2, h2, hfm⟩
    · cases h
  · rename_i hsv
    refine ⟨fun vs hvs => (by rw [hsv] at hvs; cases hvs), fun _ => ?_⟩
    split at h
    · rename_i hgt
      have := pure_eq_ok.mp h
      subst this
      exact ⟨Nat.min_le_left _ _, by omega, (if_pos hgt).symm⟩
    · rename_i hle
      have := pure_eq_ok.mp h
      subst this
      exact ⟨by omega, Nat.min_le_left _ _, (if_neg hle).symm⟩

theorem serverVersion_ok {ss : Settings} {o : Offer} {v : Nat} (h : serverVersion ss o = .ok v) :
    ss.minVersion ≤ offerRealVersion o ∧ pickVersion ss o = .ok v := by
  unfold serverVersion at h
  rw [failIf_bind_ok] at h
  obtain ⟨hmin, h⟩ := h
  rw [bind_eq_ok] at h
  obtain ⟨_, _, h⟩ := h
  refine ⟨?_, h⟩
  simp only [decide_eq_false_iff_not, Nat.not_lt] at hmin; exact hmin

theorem serverSuites_ok {ss : Settings} {sc : ServerCfg} {o : Offer} {v : Nat} {l : List Nat}
    (h : serverSuites ss sc o v = .ok l) : ∀ s ∈ l, ss.allowsSuite s := by
  intro s hs
  unfold serverSuites at h
  simp only at h
  split at h
  · rename_i l0 hl0
    injection h with h
    subst h
    have hs0 := mem_filterForVersion hs
    split at hl0
    · injection hl0 with hl0; subst hl0
      simp only [List.mem_append] at hs0
      rcases hs0 with h | h
      · split at h
        · exact filterSuites_allows h
        · cases h
      · exact filterSuites_allows h
    · split at hl0
      · injection hl0 with hl0; subst hl0
        simp only [List.mem_append] at hs0
        rcases hs0 with ((h | h) | h) | h
        · split at h
          · exact filterSuites_allows h
          · cases h
        · split at h
          · simp only [List.mem_append] at h
            rcases h with h | h <;> exact filterSuites_allows h
          · cases h
        · split at h
          · simp only [List.mem_append] at h
            rcases h with h | h <;> exact filterSuites_allows h
          · cases h
        · exact filterSuites_allows h
      · split at hl0
        · injection hl0 with hl0; subst hl0
          simp only [List.mem_append] at hs0
          rcases hs0 with h | h <;> exact filterSuites_allows h
        · split at hl0
          · injection hl0 with hl0; subst hl0
            exact filterSuites_allows hs0
          · cases hl0
  · cases h

theorem mem_certUsable {l : List Nat} {c : Option Cred} {v s : Nat} (h : s ∈ certUsable l c v) : s ∈ l := by
  unfold certUsable at h
  split at h
  · cases h
  · exact mem_filterForCertificate h

theorem mem_prfFiltered {ss : Settings} {o : Offer} {v : Nat} {c : Option Cred} {l : List Nat} {s : Nat}
    (h : s ∈ prfFiltered ss o v c l) : s ∈ l := by
  unfold prfFiltered at h
  split at h
  · exact h
  · split at h
    · exact mem_filterForPrfs h
    · exact h

theorem selectCertificate_ok {ss : Settings} {sc : ServerCfg} {o : Offer} {suites : List Nat} {v : Nat}
    {r : Nat × Nat} (h : selectCertificate ss sc o suites v = .ok r) :
    r.1 ∈ suites ∧ r.1 ∈ o.suites ∧ pickSig ss o sc.cred v = some r.2 ∧ checkServerCurve sc o v = .ok () := by
  unfold selectCertificate at h
  split at h
  · split at h <;> cases h
  · rename_i cipher hfind
    have hmem := List.mem_of_find?_eq_some hfind
    have hoff : cipher ∈ o.suites := List.contains_iff_mem.mp (List.find?_some hfind)
    have hsu : cipher ∈ suites := mem_certUsable (mem_prfFiltered hmem)
    split at h
    · cases h
    · rename_i sig hsig
      rw [bind_eq_ok] at h
      obtain ⟨u, hcurve, hr⟩ := h
      have := pure_eq_ok.mp hr
      subst this
      exact ⟨hsu, hoff, hsig, hcurve⟩

theorem ecSelect_ok {ss : Settings} {o : Offer} {v suite g : Nat} (h : ecSelect ss o v suite = .ok g) :
    (ecdhAllSuites.contains suite = true →
      g ∈ curveNamesToList ss v ∧ (∀ cg, o.groups = some cg → g ∈ cg)) ∧
    (ecdhAllSuites.contains suite = false → g = 0) := by
  unfold ecSelect at h
  split at h
  · rename_i hec
    refine ⟨fun _ => ?_, fun hf => by rw [hec] at hf; cases hf⟩
    dsimp only at h
    split at h
    · rename_i g' hfm
      injection h with h; subst h
      have := firstMatching_some hfm
      refine ⟨this.2, fun cg hcg => ?_⟩
      have h1 := this.1
      rw [hcg] at h1; exact h1
    · cases h
  · rename_i hec
    injection h with h; subst h
    exact ⟨fun ht => absurd ht hec, fun _ => rfl⟩

theorem serverSelect12_ok {ss : Settings} {sc : ServerCfg} {o : Offer} {v suite sig : Nat} {sel : Selection}
    (h : serverSelect12 ss sc o v suite sig = .ok sel) :
    sel.version = v ∧ sel.suite = suite ∧ ecSelect ss o v suite = .ok sel.group ∧
    dhSelect ss sc o suite = .ok sel.dhBits ∧
    sel.ems = (ss.useEMS && o.ems && decide (v > 0)) ∧
    sel.etm = (ss.useEtM && o.etm && !streamSuites.contains suite && !aeadSuites.contains suite) ∧
    sel.rslEcho = (if (o.recordSizeLimit != 0 && ss.recordSizeLimit != 0) then min maxRec ss.recordSizeLimit else 0) ∧
    (sel.sigScheme ≠ 0 → sel.sigScheme = sig ∧ v = 3) := by
  simp only [serverSelect12, bind_eq_ok] at h
  obtain ⟨_, _, _, _, dh, hdh, g, hg, h⟩ := h
  split at h
  · cases h
  · split at h
    · cases h
    · split at h
      · cases h
      · have := pure_eq_ok.mp h
        subst this
        refine ⟨rfl, rfl, hg, hdh, rfl, rfl, rfl, ?_⟩
        intro hs
        dsimp only at hs ⊢
        split at hs
        · rename_i hc
          simp only [Bool.and_eq_true, beq_iff_eq] at hc
          rw [if_pos (by simp only [Bool.and_eq_true, beq_iff_eq]; exact hc)]
          exact ⟨rfl, hc.2⟩
        · exact absurd rfl hs

theorem serverSelect12_sendsCert {ss : Settings} {sc : ServerCfg} {o : Offer} {v suite sig : Nat} {sel : Selection}
    (h : serverSelect12 ss sc o v suite sig = .ok sel) :
    sel.sendsCert = (certAllSuites.contains suite || ecdheEcdsaSuites.contains suite || dheDsaSuites.contains suite) := by
  simp only [serverSelect12, bind_eq_ok] at h
  obtain ⟨_, _, _, _, dh, hdh, g, hg, h⟩ := h
  split at h
  · cases h
  · split at h
    · cases h
    · split at h
      · cases h
      · have := pure_eq_ok.mp h
        subst this
        rfl

theorem serverSelect13_sendsCert {ss : Settings} {sc : ServerCfg} {o : Offer} {v suite sig : Nat} {sel : Selection}
    (h : serverSelect13 ss sc o v suite sig = .ok sel) : sel.sendsCert = sel.psk.isNone := by
  simp only [serverSelect13, bind_eq_ok] at h
  obtain ⟨gh, _, _, _, h⟩ := h
  split at h
  · cases h
  · have := pure_eq_ok.mp h
    subst this
    rfl

theorem serverSelect13_ok {ss : Settings} {sc : ServerCfg} {o : Offer} {v suite sig : Nat} {sel : Selection}
    (h : serverSelect13 ss sc o v suite sig = .ok sel) :
    sel.version = v ∧ sel.suite = suite ∧
    sel.rslEcho = (if (o.recordSizeLimit != 0 && ss.recordSizeLimit != 0) then min (maxRec + 1) ss.recordSizeLimit else 0) ∧
    (sel.sigScheme ≠ 0 → sel.sigScheme = sig) := by
  simp only [serverSelect13, bind_eq_ok] at h
  obtain ⟨gh, _, _, _, h⟩ := h
  split at h
  · cases h
  · have := pure_eq_ok.mp h
    subst this
    refine ⟨rfl, rfl, rfl, ?_⟩
    intro hs
    dsimp only at hs ⊢
    split at hs
    · rename_i hc; rw [if_pos hc]
    · exact absurd rfl hs

/-- what a successful first flight of the server guarantees -/
theorem serverSelect_ok {ss : Settings} {sc : ServerCfg} {o : Offer} {sel : Selection}
    (h : serverSelect ss sc o = .ok sel) :
    ss.minVersion ≤ offerRealVersion o ∧ pickVersion ss o = .ok sel.version ∧
    ss.allowsSuite sel.suite ∧ sel.suite ∈ o.suites ∧
    (sel.sigScheme ≠ 0 → pickSig ss o sc.cred sel.version = some sel.sigScheme) ∧
    checkServerCurve sc o sel.version = .ok () ∧
    (sel.version ≤ 3 → ecSelect ss o sel.version sel.suite = .ok sel.group ∧
                        dhSelect ss sc o sel.suite = .ok sel.dhBits) := by
  simp only [serverSelect, bind_eq_ok] at h
  obtain ⟨v, hv, _, _, _, _, suites, hsuites, ssg, hsel, h⟩ := h
  obtain ⟨hmin, hpick⟩ := serverVersion_ok hv
  obtain ⟨h1, h2, h3, h4⟩ := selectCertificate_ok hsel
  have hall := serverSuites_ok hsuites _ h1
  split at h
  · rename_i hgt
    obtain ⟨e1, e2, _, e4⟩ := serverSelect13_ok h
    subst e1
    refine ⟨hmin, hpick, e2 ▸ hall, e2 ▸ h2, ?_, h4, fun hle => by omega⟩
    intro hs
    rw [(e4 hs)]; exact h3
  · rename_i hle
    obtain ⟨e1, e2, e3, e4, _, _, _, e8⟩ := serverSelect12_ok h
    subst e1
    refine ⟨hmin, hpick, e2 ▸ hall, e2 ▸ h2, ?_, h4, fun _ => ⟨e2 ▸ e3, e2 ▸ e4⟩⟩
    intro hs
    rw [(e8 hs).1]; exact h3

/-! ## client -/

theorem checkCertChain_ok {st : Settings} {side : Side} {c : Cred} {v : Nat}
    (h : checkCertChain st side c v = .ok ()) :
    (c.certAlg = "ecdsa" → v ≤ 3 → c.curve ∈ st.eccCurves) ∧
    (c.certAlg = "ecdsa" → 4 ≤ v → ∃ hn, curveHash c.curve = some hn ∧ hn ∈ st.ecdsaSigHashes) ∧
    ((c.certAlg = "Ed25519" ∨ c.certAlg = "Ed448") → 3 ≤ v ∧ c.certAlg ∈ st.moreSigSchemes) ∧
    (c.certAlg ≠ "ecdsa" → c.certAlg ≠ "Ed25519" → c.certAlg ≠ "Ed448" →
      st.minKeySize ≤ c.keyBits ∧ c.keyBits ≤ st.maxKeySize) := by
  unfold checkCertChain at h
  split at h
  · rename_i hec
    have hec' : c.certAlg = "ecdsa" := by simpa using hec
    simp only [failIf_bind_ok, failIf_eq_ok] at h
    obtain ⟨h1, h2, h3⟩ := h
    refine ⟨fun _ hv => ?_, fun _ hv => ?_, fun hed => ?_, fun hne => absurd hec' hne⟩
    · have : decide (v ≤ 3) = true := by simpa using hv
      simp only [this, Bool.true_and, Bool.not_eq_eq_eq_not, Bool.not_false, List.contains_iff_mem] at h1
      exact h1
    · have hv' : decide (v ≥ 4) = true := by simpa using hv
      simp only [hv', Bool.true_and] at h2 h3
      cases hch : curveHash c.curve with
      | none => simp [hch] at h2
      | some hn =>
        refine ⟨hn, rfl, ?_⟩
        simpa [hch] using h3
    · rcases hed with hed | hed <;> rw [hec'] at hed <;> exact absurd hed (by decide)
  · split at h
    · rename_i hne hed
      have hed' : c.certAlg = "Ed25519" ∨ c.certAlg = "Ed448" := by simpa using hed
      have hne' : c.certAlg ≠ "ecdsa" := by simpa using hne
      simp only [failIf_bind_ok, failIf_eq_ok] at h
      obtain ⟨h1, h2⟩ := h
      refine ⟨fun he => absurd he hne', fun he => absurd he hne', fun _ => ⟨?_, ?_⟩, fun _ h25 h448 => ?_⟩
      · simpa using h1
      · simpa using h2
      · rcases hed' with h | h
        · exact absurd h h25
        · exact absurd h h448
    · rename_i hne hned
      have hne' : c.certAlg ≠ "ecdsa" := by simpa using hne
      have hned' : ¬ (c.certAlg = "Ed25519" ∨ c.certAlg = "Ed448") := by simpa using hned
      simp only [failIf_bind_ok, failIf_eq_ok] at h
      obtain ⟨h1, h2⟩ := h
      refine ⟨fun he => absurd he hne', fun he => absurd he hne', fun hed => absurd hed hned', fun _ _ _ => ⟨?_, ?_⟩⟩
      · simpa using h1
      · simpa using h2

theorem clientCheckHello_ok {cs : Settings} {o : Offer} {sel : Selection}
    (h : clientCheckHello cs o sel = .ok ()) :
    cs.minVersion ≤ sel.version ∧ (sel.version ≤ cs.maxVersion ∨ sel.version ∈ cs.versions) ∧
    sel.suite ∈ filterForVersion o.suites sel.version := by
  simp only [clientCheckHello, failIf_bind_ok, failIf_eq_ok] at h
  obtain ⟨h1, h2, h3⟩ := h
  refine ⟨by simpa using h1, ?_, by simpa using h3⟩
  simp only [Bool.and_eq_false_imp, decide_eq_true_eq, Bool.not_eq_eq_eq_not, Bool.not_false,
    List.contains_iff_mem] at h2
  by_cases hle : sel.version ≤ cs.maxVersion
  · exact Or.inl hle
  · exact Or.inr (h2 (by omega))

theorem clientCheckServerCert_ok {cs : Settings} {sc : ServerCfg} {o : Offer} {sel : Selection}
    (h : clientCheckServerCert cs sc o sel = .ok ()) :
    ∀ c, serverCertOf sc sel = some c →
      checkCertChain cs .client c sel.version = .ok () ∧
      (sel.version = 3 → sel.sigScheme ≠ 0 → sel.sigScheme ∈ sigHashesToList cs none (some c) 3) ∧
      (3 < sel.version → sel.sigScheme ∈ o.sigAlgs.getD [] ∧ sel.sigScheme ∈ sigHashesToList cs none (some c) 4) := by
  intro c hc
  unfold clientCheckServerCert at h
  rw [hc] at h
  simp only [bind_eq_ok, failIf_eq_ok] at h
  obtain ⟨u, h1, _, h2, h3⟩ := h
  refine ⟨h1, fun hv hs => ?_, fun hv => ?_⟩
  · have hs' : (sel.sigScheme != 0) = true := by simpa using hs
    simp only [hv, beq_self_eq_true, hs', Bool.true_and, Bool.not_eq_eq_eq_not, Bool.not_false,
      List.contains_iff_mem] at h2
    exact h2
  · have hv' : decide (sel.version > 3) = true := by simpa using hv
    simp only [hv', Bool.true_and, Bool.or_eq_false_iff, Bool.not_eq_eq_eq_not, Bool.not_false,
      List.contains_iff_mem] at h3
    exact h3

theorem ecdh_not_dh_table : ecdhAllSuites.all (fun s => !dhAllSuites.contains s) = true := by decide

theorem clientCheckKex_ok {cs : Settings} {sel : Selection} (h : clientCheckKex cs sel = .ok ()) :
    (ecdhAllSuites.contains sel.suite = true → sel.group ∈ curveNamesToList cs 4) ∧
    (dhAllSuites.contains sel.suite = true → 1024 ≤ sel.dhBits) ∧
    (srpAllSuites.contains sel.suite = true → dhAllSuites.contains sel.suite = false →
      ecdhAllSuites.contains sel.suite = false → cs.minKeySize ≤ sel.dhBits ∧ sel.dhBits ≤ cs.maxKeySize) := by
  unfold clientCheckKex at h
  split at h
  · rename_i hdh
    refine ⟨fun hec => ?_, fun _ => by simpa using failIf_eq_ok.mp h, fun _ hf _ => by rw [hdh] at hf; cases hf⟩
    have := List.all_eq_true.mp ecdh_not_dh_table sel.suite (List.contains_iff_mem.mp hec)
    simp only [Bool.not_eq_eq_eq_not, Bool.not_true] at this
    rw [hdh] at this; cases this
  · rename_i hdh
    split at h
    · rename_i hec
      refine ⟨fun _ => by simpa using failIf_eq_ok.mp h, fun hd => absurd hd hdh, fun _ _ hf => by rw [hec] at hf; cases hf⟩
    · rename_i hec
      split at h
      · simp only [failIf_bind_ok, failIf_eq_ok] at h
        obtain ⟨_, h2, h3⟩ := h
        refine ⟨fun he => absurd he hec, fun hd => absurd hd hdh, fun _ _ _ => ⟨by simpa using h2, by simpa using h3⟩⟩
      · rename_i hsrp
        exact ⟨fun he => absurd he hec, fun hd => absurd hd hdh, fun hs => absurd hs hsrp⟩

theorem clientCheckDhSize_ok {cs : Settings} {sel : Selection} (h : clientCheckDhSize cs sel = .ok ()) :
    dhAllSuites.contains sel.suite = true → cs.minKeySize ≤ sel.dhBits ∧ sel.dhBits ≤ cs.maxKeySize := by
  intro hd
  unfold clientCheckDhSize at h
  rw [if_pos hd] at h
  simp only [failIf_bind_ok, failIf_eq_ok] at h
  exact ⟨by simpa using h.1, by simpa using h.2⟩

theorem clientAccept12_ok {cs : Settings} {cc : ClientCfg} {sc : ServerCfg} {o : Offer} {sel : Selection} {p : Params}
    (h : clientAccept12 cs cc sc o sel = .ok p) :
    p.version = sel.version ∧ p.suite = sel.suite ∧ p.group = sel.group ∧ p.dhBits = sel.dhBits ∧
    p.sigScheme = sel.sigScheme ∧ p.serverCert = serverCertOf sc sel ∧
    p.clientCert = (if sel.certReq.isSome then cc.cred else none) ∧
    clientCheckServerCert cs sc o sel = .ok () ∧ clientCheckKex cs sel = .ok () ∧
    clientSig12 cs p.clientCert sel = .ok p.clientSig ∧
    (cs.requireEMS = true → sel.ems = true) ∧ clientCheckDhSize cs sel = .ok () := by
  simp only [clientAccept12, bind_eq_ok] at h
  obtain ⟨_, h1, _, _, _, _, _, _, _, _, _, _, _, hcert, _, hdh, _, _, _, _, _, hkex, cSig, hsig, h⟩ := h
  have := pure_eq_ok.mp h
  subst this
  refine ⟨rfl, rfl, rfl, rfl, rfl, rfl, rfl, hcert, hkex, hsig, fun hr => ?_, hdh⟩
  have h1' := failIf_eq_ok.mp h1
  simp only [hr, Bool.and_true, Bool.not_eq_eq_eq_not, Bool.not_false] at h1'
  exact h1'

theorem clientAccept13_ok {cs : Settings} {cc : ClientCfg} {sc : ServerCfg} {o : Offer} {sel : Selection} {p : Params}
    (h : clientAccept13 cs cc sc o sel = .ok p) :
    p.version = sel.version ∧ p.suite = sel.suite ∧ p.group = sel.group ∧
    p.sigScheme = sel.sigScheme ∧ p.serverCert = serverCertOf sc sel ∧
    p.clientCert = (if sel.certReq.isSome then cc.cred else none) ∧
    clientCheckServerCert cs sc o sel = .ok () ∧
    clientSig13 cs p.clientCert sel = .ok p.clientSig ∧
    (sel.group ≠ 0 → sel.hrr = true → sel.group ∈ o.groups.getD []) := by
  simp only [clientAccept13, bind_eq_ok] at h
  obtain ⟨_, hg, _, _, _, _, _, hcert, cSig, hsig, _, _, _, _, h⟩ := h
  have := pure_eq_ok.mp h
  subst this
  refine ⟨rfl, rfl, rfl, rfl, rfl, rfl, hcert, hsig, fun hne hh => ?_⟩
  have hg' := failIf_eq_ok.mp hg
  have hne' : (sel.group != 0) = true := by simpa using hne
  simp only [hne', hh, Bool.true_and, Bool.not_eq_eq_eq_not, Bool.not_false, List.contains_iff_mem] at hg'
  exact hg'

/-- what the client has verified when it completes -/
theorem clientAccept_ok {cs : Settings} {cc : ClientCfg} {sc : ServerCfg} {o : Offer} {sel : Selection} {p : Params}
    (h : clientAccept cs cc sc o sel = .ok p) :
    clientCheckHello cs o sel = .ok () ∧
    p.version = sel.version ∧ p.suite = sel.suite ∧ p.group = sel.group ∧ p.sigScheme = sel.sigScheme ∧
    p.serverCert = serverCertOf sc sel ∧
    p.clientCert = (if sel.certReq.isSome then cc.cred else none) ∧
    clientCheckServerCert cs sc o sel = .ok () ∧
    (sel.version ≤ 3 → clientCheckKex cs sel = .ok () ∧ p.dhBits = sel.dhBits ∧
        clientSig12 cs p.clientCert sel = .ok p.clientSig ∧ clientCheckDhSize cs sel = .ok ()) ∧
    (3 < sel.version → clientSig13 cs p.clientCert sel = .ok p.clientSig) := by
  simp only [clientAccept, bind_eq_ok] at h
  obtain ⟨u, hh, h⟩ := h
  split at h
  · rename_i hgt
    obtain ⟨a, b, c, d, e, f, g, i, _⟩ := clientAccept13_ok h
    exact ⟨hh, a, b, c, d, e, f, g, fun hle => by omega, fun _ => i⟩
  · rename_i hle
    obtain ⟨a, b, c, d, e, f, g, i, j, k, _, l⟩ := clientAccept12_ok h
    exact ⟨hh, a, b, c, e, f, g, i, fun _ => ⟨j, d, k, l⟩, fun hgt => by omega⟩

theorem serverFinish_ok {ss : Settings} {sel : Selection} {p p' : Params} (h : serverFinish ss sel p = .ok p') :
    p' = p ∧ ∀ c, p.clientCert = some c →
      checkCertChain ss .server c p.version = .ok () ∧
      (p.version = 3 → p.clientSig ∈ sigHashesToList ss none (some c) 3) ∧
      (3 < p.version → p.clientSig ∈ sigHashesToList ss none (some c) 4 ∧ p.clientSig ∈ sel.certReq.getD []) := by
  unfold serverFinish at h
  split at h
  · rename_i hn
    exact ⟨(pure_eq_ok.mp h).symm, fun c hc => by rw [hn] at hc; cases hc⟩
  · rename_i c hc
    split at h
    · rename_i hgt
      simp only [bind_eq_ok, pure_eq_ok] at h
      obtain ⟨_, h1, u, h2, h3⟩ := h
      refine ⟨h3.symm, fun c' hc' => ?_⟩
      rw [hc] at hc'; injection hc' with hc'; subst hc'
      refine ⟨h2, fun h3 => by omega, fun _ => ?_⟩
      have := failIf_eq_ok.mp h1
      simp only [Bool.or_eq_false_iff, Bool.not_eq_eq_eq_not, Bool.not_false, List.contains_iff_mem] at this
      exact this
    · rename_i hle
      simp only [bind_eq_ok, pure_eq_ok] at h
      obtain ⟨_, h1, u, h2, h3⟩ := h
      refine ⟨h3.symm, fun c' hc' => ?_⟩
      rw [hc] at hc'; injection hc' with hc'; subst hc'
      refine ⟨h2, fun h3 => ?_, fun hgt => by omega⟩
      simpa [h3] using failIf_eq_ok.mp h1

/-- a successful negotiation went through the three stages -/
theorem negotiate_ok {cs ss : Settings} {cc : ClientCfg} {sc : ServerCfg} {p : Params}
    (h : negotiate cs ss cc sc = .ok p) :
    ∃ sel, serverSelect ss sc (clientOffer cs cc) = .ok sel ∧
      clientAccept cs cc sc (clientOffer cs cc) sel = .ok p ∧ serverFinish ss sel p = .ok p := by
  simp only [negotiate, bind_eq_ok] at h
  obtain ⟨sel, h1, p0, h2, h3⟩ := h
  have := (serverFinish_ok h3).1
  subst this
  exact ⟨sel, h1, h2, h3⟩

/-! ## specification-side predicates and further facts used by Props/C03 -/

/-- the group id is one of the curves the settings enable -/
def Settings.allowsCurve (st : Settings) (g : Nat) : Prop := ∃ n ∈ st.eccCurves, groupId n = some g

theorem mem_groupIdsOf {ns : List String} {g : Nat} : g ∈ groupIdsOf ns ↔ ∃ n ∈ ns, groupId n = some g := by
  unfold groupIdsOf; simp [List.mem_filterMap]

theorem curveNamesToList_allows {st : Settings} {v g : Nat} (h : g ∈ curveNamesToList st v) : st.allowsCurve g := by
  unfold curveNamesToList at h
  simp only at h
  split at h
  · exact mem_groupIdsOf.mp (List.mem_filter.mp h).1
  · exact mem_groupIdsOf.mp h

theorem pickSig_ok {ss : Settings} {o : Offer} {cred : Option Cred} {v sig : Nat}
    (h : pickSig ss o cred v = some sig) :
    (∀ algs, o.sigAlgs = some algs → sig ≠ 0 → sig ∈ sigHashesToList ss none cred v ∧ sig ∈ algs) ∧
    (o.sigAlgs = none → sig = 0) ∧ (v < 3 → sig = 0) := by
  unfold pickSig at h
  split at h
  · rename_i hlt
    injection h with h
    exact ⟨fun algs _ hne => absurd h.symm hne, fun _ => h.symm, fun _ => h.symm⟩
  · rename_i hge
    split at h
    · rename_i hn
      injection h with h
      exact ⟨fun algs ha => (by rw [hn] at ha; cases ha), fun _ => h.symm, fun hlt => absurd hlt hge⟩
    · rename_i algs hs
      refine ⟨fun algs' ha _ => ?_, fun hn => (by rw [hs] at hn; cases hn), fun hlt => absurd hlt hge⟩
      rw [hs] at ha; injection ha with ha; subst ha
      exact firstMatching_some h

/-- in a strictly decreasing list the first match is the largest match -/
theorem firstMatching_max {l ms : List Nat} {v : Nat} (h : firstMatching l ms = some v)
    (hs : l.Pairwise (· > ·)) : ∀ w, w ∈ l → w ∈ ms → w ≤ v := by
  unfold firstMatching at h
  induction l with
  | nil => cases h
  | cons a t ih =>
    intro w hw hm
    rw [List.pairwise_cons] at hs
    rw [List.find?_cons] at h
    split at h
    · injection h with h; subst h
      rcases List.mem_cons.mp hw with e | e
      · omega
      · exact Nat.le_of_lt (hs.1 w e)
    · rename_i hna
      rcases List.mem_cons.mp hw with e | e
      · subst e
        have : ms.contains w = true := List.contains_iff_mem.mpr hm
        rw [this] at hna; cases hna
      · exact ih h hs.2 w e hm

theorem firstMatching_none {α} [BEq α] [LawfulBEq α] {vs ms : List α} (h : firstMatching vs ms = none) :
    ∀ a ∈ vs, a ∉ ms := by
  unfold firstMatching at h
  intro a ha hm
  have := List.find?_eq_none.mp h a ha
  exact this (List.contains_iff_mem.mpr hm)

theorem foldl_realVersion_le {vs : List Nat} {a b : Nat} (ha : a ≤ b) (hv : ∀ w ∈ vs, w ≤ 4 → w ≤ b) :
    vs.foldl (fun acc v => if v ≤ 4 && v > acc then v else acc) a ≤ b := by
  induction vs generalizing a with
  | nil => exact ha
  | cons x t ih =>
    rw [List.foldl_cons]
    apply ih
    · split
      · rename_i hc
        simp only [Bool.and_eq_true, decide_eq_true_eq] at hc
        exact hv x (List.mem_cons_self) hc.1
      · exact ha
    · intro w hw; exact hv w (List.mem_cons_of_mem _ hw)

/-- the highest version the client names is at most `b` when its list is -/
theorem offerRealVersion_le {o : Offer} {b : Nat} (hc : o.clientVersion ≤ b)
    (hv : ∀ vs, o.supportedVersions = some vs → ∀ w ∈ vs, w ≤ 4 → w ≤ b) : offerRealVersion o ≤ b := by
  unfold offerRealVersion
  split
  · rename_i vs hs
    split
    · exact foldl_realVersion_le hc (hv vs hs)
    · exact hc
  · exact hc

/-! ## concrete configurations for non-vacuity examples and counterexamples -/

def okWith (o : Outcome Params) (f : Params → Bool) : Bool :=
  match o with
  | .ok p => f p
  | _ => false

/-- `HandshakeSettings().validate()` of the tree under check -/
def dflt : Settings :=
  { minVersion := 1, maxVersion := 4, versions := [4, 3, 2, 1]
    cipherNames := names_CIPHER_NAMES, macNames := names_MAC_NAMES, keyExchangeNames := names_KEY_EXCHANGE_NAMES
    eccCurves := names_CURVE_NAMES, dhGroups := names_ALL_DH_GROUP_NAMES, keyShares := ["secp256r1", "x25519"]
    defaultCurve := "secp256r1"
    rsaSigHashes := names_RSA_SIGNATURE_HASHES, rsaSchemes := names_RSA_SCHEMES
    ecdsaSigHashes := names_ECDSA_SIGNATURE_HASHES, dsaSigHashes := names_DSA_SIGNATURE_HASHES
    moreSigSchemes := names_SIGNATURE_SCHEMES, minKeySize := 1023, maxKeySize := 8193
    useEtM := true, useEMS := true, requireEMS := false, recordSizeLimit := 16385, dhParamBits := 0
    pskConfigs := [], pskModes := names_PSK_MODES }

def rsaCred : Cred := { certAlg := "rsa", keyBits := 2048, curve := "" }
def rsa1024Cred : Cred := { certAlg := "rsa", keyBits := 1024, curve := "" }
def dsaCred : Cred := { certAlg := "dsa", keyBits := 2048, curve := "" }
def ecdsaCred : Cred := { certAlg := "ecdsa", keyBits := 256, curve := "secp256r1" }
def certClient : ClientCfg := { flavour := .cert, cred := none, alpn := [], serverName := "" }
def anonClient : ClientCfg := { flavour := .anon, cred := none, alpn := [], serverName := "" }
def certServer (c : Cred) : ServerCfg :=
  { hasDB := false, srpBits := 0, cred := some c, anon := false, reqCert := false, alpn := [], sni := "" }
def anonServer : ServerCfg :=
  { hasDB := false, srpBits := 0, cred := none, anon := true, reqCert := false, alpn := [], sni := "" }

def selOf (o : Outcome Selection) : Option Selection :=
  match o with
  | .ok s => some s
  | _ => none

/-- a trivial key schedule (the view theorems hold for every one) -/
def K0 : KeySched :=
  { master := fun _ _ _ pm cr sr _ => pm ++ cr ++ sr, derive := fun _ _ m _ => m,
    exportKm := fun _ _ sec _ _ label n => (sec ++ label).take n }

/-- transcript of an honest run: the offer the client builds, the selection the server makes -/
def transcriptOf (cs ss : Settings) (cc : ClientCfg) (sc : ServerCfg) (serverChain clientChain : List Bytes) :
    Option Transcript :=
  (selOf (serverSelect ss sc (clientOffer cs cc))).map fun sel =>
    { offer := clientOffer cs cc, selection := sel, clientRandom := [1], serverRandom := [2], messages := [3]
      serverChain := serverChain, clientChain := clientChain }

def withTranscript (o : Option Transcript) (f : Transcript → Bool) : Bool :=
  match o with
  | some t => f t
  | none => false

/-- the settings' `versions` list names exactly the versions of `[minVersion, maxVersion]` -/
def Settings.VersionsExact (st : Settings) : Prop :=
  ∀ w, w ∈ st.versions ↔ (st.minVersion ≤ w ∧ w ≤ st.maxVersion)

end Tls.Neg
