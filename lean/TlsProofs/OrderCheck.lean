import TlsProofs.OrderCfg
/-
  C06: the bounded exploration `checkCfg` succeeds for every valid configuration.
  One kernel evaluation per role × version family (744 configurations in total).
-/
namespace Tls.Order

theorem check_client_tls13 : (cfgsOf .client .tls13).all checkCfg = true := by decide +kernel
theorem check_server_tls13 : (cfgsOf .server .tls13).all checkCfg = true := by decide +kernel
theorem check_client_tls : (cfgsOf .client .tls).all checkCfg = true := by decide +kernel
theorem check_server_tls : (cfgsOf .server .tls).all checkCfg = true := by decide +kernel
theorem check_client_ssl3 : (cfgsOf .client .ssl3).all checkCfg = true := by decide +kernel
theorem check_server_ssl3 : (cfgsOf .server .ssl3).all checkCfg = true := by decide +kernel

theorem checkCfg_of_valid (c : Cfg) (h : c.valid = true) : checkCfg c = true := by
  have hm := mem_cfgsOf c h
  have key : ∀ (l : List Cfg), l.all checkCfg = true → c ∈ l → checkCfg c = true :=
    fun l hl hc => List.all_eq_true.mp hl c hc
  cases hr : c.role <;> cases hv : c.ver <;> rw [hr, hv] at hm
  · exact key _ check_client_ssl3 hm
  · exact key _ check_client_tls hm
  · exact key _ check_client_tls13 hm
  · exact key _ check_server_ssl3 hm
  · exact key _ check_server_tls hm
  · exact key _ check_server_tls13 hm

end Tls.Order
