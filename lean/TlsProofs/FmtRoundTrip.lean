import TlsProofs.FmtInv
/-
  The generic codec theorems, proved once by induction on the format description.
-/
set_option linter.unusedSimpArgs false
set_option linter.unusedVariables false
namespace Tls.Fmt
open Tls

/-! ### every encoding is at least `minLen` long -/

theorem encode_minLen (f : Fmt) : ∀ (t : Nat) (v : Val) (b : Bytes),
    encode f t v = some b → minLen f ≤ b.length := by
  induction f with
  | unit => intro t v b h; simp [minLen]
  | uint n =>
    intro t v b h
    obtain ⟨x, rfl, _, rfl⟩ := encode_uint_some.mp h
    simp [minLen, beEncode_length]
  | bytes n =>
    intro t v b h
    obtain ⟨rfl, h1⟩ := encode_bytes_some.mp h
    simp [minLen, h1]
  | rest => intro t v b h; simp [minLen]
  | pair f g ihf ihg =>
    intro t v b h
    obtain ⟨v1, v2, a, c, rfl, ha, hc, rfl⟩ := encode_pair_some.mp h
    have := ihf _ _ _ ha
    have := ihg _ _ _ hc
    simp [minLen]; omega
  | lenPref ll f ih =>
    intro t v b h
    obtain ⟨c, _, _, rfl⟩ := encode_lenPref_some.mp h
    simp [minLen, beEncode_length]
  | many f ih => intro t v b h; simp [minLen]
  | optTail f ih => intro t v b h; simp [minLen]
  | tagged n f ih =>
    intro t v b h
    obtain ⟨x, w, c, rfl, _, hc, rfl⟩ := encode_tagged_some.mp h
    have := ih _ _ _ hc
    simp [minLen, beEncode_length]; omega
  | caseOf k f g ihf ihg =>
    intro t v b h
    rw [encode_caseOf_eq] at h
    simp only [minLen]
    by_cases hk : t = k
    · simp [hk] at h; have := ihf _ _ _ h; omega
    · simp [hk] at h; have := ihg _ _ _ h; omega
  | fail => intro t v b h; simp [encode_fail_eq] at h

theorem wf_false_true (f : Fmt) : wf false f = true → wf true f = true := by
  induction f with
  | pair f g ihf ihg =>
    simp only [wf, Bool.and_eq_true]; exact fun ⟨h1, h2⟩ => ⟨h1, ihg h2⟩
  | tagged n f ih => simp only [wf]; exact ih
  | caseOf k f g ihf ihg =>
    simp only [wf, Bool.and_eq_true]; exact fun ⟨h1, h2⟩ => ⟨ihf h1, ihg h2⟩
  | _ => simp [wf]

/-! ### parse (serialise v) = v -/

/-- the repetition: if every item round-trips (with anything after it) and is non-empty,
    the list round-trips -/
theorem decodeMany_encodeMany (e : Val → Option Bytes) (d : Bytes → Except Err (Val × Bytes))
    (h1 : ∀ h a r, e h = some a → d (a ++ r) = .ok (h, r))
    (h2 : ∀ h a, e h = some a → 0 < a.length) :
    ∀ (v : Val) (b : Bytes) (fuel : Nat), encodeMany e v = some b → b.length ≤ fuel →
      decodeMany d fuel b = .ok v := by
  intro v
  induction v with
  | nil =>
    intro b fuel h _
    rcases encodeMany_some.mp h with ⟨_, rfl⟩ | ⟨_, _, _, _, h0, _⟩
    · exact decodeMany_nil
    · cases h0
  | cons hd tl _ iht =>
    intro b fuel h hfuel
    rcases encodeMany_some.mp h with ⟨h0, _⟩ | ⟨_, _, a, c, h0, ha, hc, rfl⟩
    · cases h0
    · simp only [Val.cons.injEq] at h0
      obtain ⟨rfl, rfl⟩ := h0
      have hpos := h2 _ _ ha
      cases a with
      | nil => simp at hpos
      | cons x xs =>
        simp only [List.cons_append]
        rw [decodeMany_cons_ok]
        simp only [List.cons_append, List.length_cons, List.length_append] at hfuel
        refine ⟨fuel - 1, hd, c, tl, by omega, ?_, iht c (fuel - 1) hc (by omega), rfl⟩
        have := h1 hd (x :: xs) c ha
        simpa using this
  | _ => intro b fuel h _; simp [encodeMany] at h

/-- **decode ∘ encode** in its general form: for a self-delimiting format (`tl = false`)
    any bytes may follow the encoding and they are returned untouched; for a tail format
    the encoding is followed by the end of its region. -/
theorem decode_encode_gen (f : Fmt) : ∀ (tl : Bool) (t : Nat) (v : Val) (b r : Bytes),
    wf tl f = true → encode f t v = some b → (tl = true → r = []) →
    decode f t (b ++ r) = .ok (v, r) := by
  induction f with
  | unit =>
    intro tl t v b r _ h _
    obtain ⟨rfl, rfl⟩ := encode_unit_some.mp h
    simp [decode]
  | uint n =>
    intro tl t v b r _ h _
    obtain ⟨x, rfl, hx, rfl⟩ := encode_uint_some.mp h
    rw [decode_uint_ok]
    have hl := beEncode_length n x
    refine ⟨by simp [hl], ?_, ?_⟩
    · rw [take_append_len _ _ _ hl, beDecode_beEncode n x hx]
    · rw [drop_append_len _ _ _ hl]
  | bytes n =>
    intro tl t v b r _ h _
    obtain ⟨rfl, hl⟩ := encode_bytes_some.mp h
    rw [decode_bytes_ok]
    refine ⟨by simp [hl], ?_, ?_⟩
    · rw [take_append_len _ _ _ hl]
    · rw [drop_append_len _ _ _ hl]
  | rest =>
    intro tl t v b r hw h hr
    have := encode_rest_some.mp h
    subst this
    simp only [wf] at hw
    rw [hr hw]
    simp [decode]
  | pair f g ihf ihg =>
    intro tl t v b r hw h hr
    obtain ⟨v1, v2, a, c, rfl, ha, hc, rfl⟩ := encode_pair_some.mp h
    simp only [wf, Bool.and_eq_true] at hw
    rw [decode_pair_ok]
    refine ⟨v1, c ++ r, v2, ?_, ihg tl t v2 c r hw.2 hc hr, rfl⟩
    rw [List.append_assoc]
    exact ihf false t v1 a (c ++ r) hw.1 ha (by simp)
  | lenPref ll f ih =>
    intro tl t v b r hw h _
    obtain ⟨c, hc, hl, rfl⟩ := encode_lenPref_some.mp h
    simp only [wf] at hw
    have hbl := beEncode_length ll c.length
    rw [decode_lenPref_ok, List.append_assoc, take_append_len _ _ _ hbl,
      drop_append_len _ _ _ hbl, beDecode_beEncode _ _ hl]
    refine ⟨by simp [hbl], by simp, ?_, by simp⟩
    have := ih true t v c [] hw hc (fun _ => rfl)
    simpa using this
  | many f ih =>
    intro tl t v b r hw h hr
    simp only [wf, Bool.and_eq_true, decide_eq_true_eq] at hw
    obtain ⟨⟨htl, hwf⟩, hmin⟩ := hw
    rw [hr htl, List.append_nil, decode_many_ok]
    rw [encode_many_eq] at h
    refine ⟨?_, rfl⟩
    apply decodeMany_encodeMany (encode f t) (decode f t) _ _ v b b.length h (Nat.le_refl _)
    · intro hd a r' ha
      exact ih false t hd a r' hwf ha (by simp)
    · intro hd a ha
      have := encode_minLen f t hd a ha
      omega
  | optTail f ih =>
    intro tl t v b r hw h hr
    simp only [wf, Bool.and_eq_true, decide_eq_true_eq] at hw
    obtain ⟨⟨htl, hwf⟩, hmin⟩ := hw
    rw [hr htl, List.append_nil, decode_optTail_ok]
    rcases encode_optTail_some.mp h with ⟨rfl, rfl⟩ | ⟨w, rfl, hwenc⟩
    · exact Or.inl ⟨rfl, rfl, rfl⟩
    · right
      have hlen := encode_minLen f t w b hwenc
      refine ⟨?_, w, ?_, rfl⟩
      · intro hb; subst hb; simp at hlen; omega
      · have := ih true t w b [] hwf hwenc (fun _ => rfl)
        simpa using this
  | tagged n f ih =>
    intro tl t v b r hw h hr
    obtain ⟨x, w, c, rfl, hx, hc, rfl⟩ := encode_tagged_some.mp h
    simp only [wf] at hw
    have hbl := beEncode_length n x
    rw [decode_tagged_ok, List.append_assoc, take_append_len _ _ _ hbl,
      drop_append_len _ _ _ hbl, beDecode_beEncode _ _ hx]
    exact ⟨by simp [hbl], w, ih tl x w c r hw hc hr, rfl⟩
  | caseOf k f g ihf ihg =>
    intro tl t v b r hw h hr
    simp only [wf, Bool.and_eq_true] at hw
    rw [encode_caseOf_eq] at h
    rw [decode_caseOf_eq]
    by_cases hk : t = k
    · simp only [hk, if_true] at h ⊢; exact ihf tl k v b r hw.1 h hr
    · simp only [hk, if_false] at h ⊢; exact ihg tl t v b r hw.2 h hr
  | fail => intro tl t v b r _ h _; simp [encode_fail_eq] at h

/-! ### serialise (parse x) = x -/

theorem encodeMany_decodeMany (e : Val → Option Bytes) (d : Bytes → Except Err (Val × Bytes))
    (h1 : ∀ x v r, d x = .ok (v, r) → ∃ a, e v = some a ∧ a ++ r = x) :
    ∀ (fuel : Nat) (b : Bytes) (v : Val), decodeMany d fuel b = .ok v → encodeMany e v = some b := by
  intro fuel
  induction fuel with
  | zero =>
    intro b v h
    cases b with
    | nil => rw [decodeMany_nil] at h; cases h; simp [encodeMany]
    | cons x xs => simp [decodeMany] at h
  | succ fuel ih =>
    intro b v h
    cases b with
    | nil => rw [decodeMany_nil] at h; cases h; simp [encodeMany]
    | cons x xs =>
      obtain ⟨fuel', hd, r, tl, hf, hdx, hm, rfl⟩ := decodeMany_cons_ok.mp h
      simp only [Nat.add_right_cancel_iff] at hf; subst hf
      obtain ⟨a, ha, hax⟩ := h1 _ _ _ hdx
      have := ih r tl hm
      rw [encodeMany_some]
      exact Or.inr ⟨hd, tl, a, r, rfl, ha, this, hax.symm⟩

/-- **encode ∘ decode**: whatever `decode` accepts re-serialises to exactly the bytes it
    consumed, and the rest it returns is the untouched remainder of the input.  No
    well-formedness hypothesis is needed. -/
theorem encode_decode_gen (f : Fmt) : ∀ (t : Nat) (b : Bytes) (v : Val) (r : Bytes),
    decode f t b = .ok (v, r) → ∃ e, encode f t v = some e ∧ e ++ r = b := by
  induction f with
  | unit =>
    intro t b v r h
    obtain ⟨rfl, rfl⟩ := decode_unit_ok.mp h
    exact ⟨[], by simp [encode], rfl⟩
  | uint n =>
    intro t b v r h
    obtain ⟨hl, rfl, rfl⟩ := decode_uint_ok.mp h
    have hlen : (b.take n).length = n := by simp; omega
    refine ⟨b.take n, ?_, List.take_append_drop n b⟩
    rw [encode_uint_some]
    refine ⟨_, rfl, ?_, ?_⟩
    · have := beDecode_lt (b.take n); rwa [hlen] at this
    · have := beEncode_beDecode (b.take n); rw [hlen] at this; exact this.symm
  | bytes n =>
    intro t b v r h
    obtain ⟨hl, rfl, rfl⟩ := decode_bytes_ok.mp h
    refine ⟨b.take n, ?_, List.take_append_drop n b⟩
    rw [encode_bytes_some]
    exact ⟨rfl, by simp; omega⟩
  | rest =>
    intro t b v r h
    obtain ⟨rfl, rfl⟩ := decode_rest_ok.mp h
    exact ⟨b, by simp [encode], by simp⟩
  | pair f g ihf ihg =>
    intro t b v r h
    obtain ⟨v1, r1, v2, h1, h2, rfl⟩ := decode_pair_ok.mp h
    obtain ⟨a, ha, rfl⟩ := ihf _ _ _ _ h1
    obtain ⟨c, hc, rfl⟩ := ihg _ _ _ _ h2
    exact ⟨a ++ c, encode_pair_some.mpr ⟨v1, v2, a, c, rfl, ha, hc, rfl⟩, by simp⟩
  | lenPref ll f ih =>
    intro t b v r h
    obtain ⟨h1, h2, hd, rfl⟩ := decode_lenPref_ok.mp h
    obtain ⟨c, hc, hcb⟩ := ih _ _ _ _ hd
    simp only [List.append_nil] at hcb
    have hlen : (b.take ll).length = ll := by simp; omega
    have hclen : c.length = beDecode (b.take ll) := by
      rw [hcb, List.length_take]; omega
    have hlt : c.length < 256 ^ ll := by
      rw [hclen]; have := beDecode_lt (b.take ll); rwa [hlen] at this
    refine ⟨beEncode ll c.length ++ c, encode_lenPref_some.mpr ⟨c, hc, hlt, rfl⟩, ?_⟩
    have hbe : beEncode ll c.length = b.take ll := by
      rw [hclen]; have := beEncode_beDecode (b.take ll); rwa [hlen] at this
    rw [hbe, hcb, List.append_assoc, List.take_append_drop, List.take_append_drop]
  | many f ih =>
    intro t b v r h
    obtain ⟨hm, rfl⟩ := decode_many_ok.mp h
    refine ⟨b, ?_, by simp⟩
    rw [encode_many_eq]
    exact encodeMany_decodeMany (encode f t) (decode f t) (fun x v r hx => ih t x v r hx) _ _ _ hm
  | optTail f ih =>
    intro t b v r h
    rcases decode_optTail_ok.mp h with ⟨rfl, rfl, rfl⟩ | ⟨_, w, hd, rfl⟩
    · exact ⟨[], by simp [encode], rfl⟩
    · obtain ⟨e, he, heb⟩ := ih _ _ _ _ hd
      exact ⟨e, encode_optTail_some.mpr (Or.inr ⟨w, rfl, he⟩), heb⟩
  | tagged n f ih =>
    intro t b v r h
    obtain ⟨hl, w, hd, rfl⟩ := decode_tagged_ok.mp h
    obtain ⟨c, hc, hcb⟩ := ih _ _ _ _ hd
    have hlen : (b.take n).length = n := by simp; omega
    have hlt : beDecode (b.take n) < 256 ^ n := by
      have := beDecode_lt (b.take n); rwa [hlen] at this
    refine ⟨beEncode n (beDecode (b.take n)) ++ c,
      encode_tagged_some.mpr ⟨_, w, c, rfl, hlt, hc, rfl⟩, ?_⟩
    have hbe : beEncode n (beDecode (b.take n)) = b.take n := by
      have := beEncode_beDecode (b.take n); rwa [hlen] at this
    rw [hbe, List.append_assoc, hcb, List.take_append_drop]
  | caseOf k f g ihf ihg =>
    intro t b v r h
    rw [decode_caseOf_eq] at h
    rw [encode_caseOf_eq]
    by_cases hk : t = k
    · simp only [hk, if_true] at h ⊢; exact ihf _ _ _ _ h
    · simp only [hk, if_false] at h ⊢; exact ihg _ _ _ _ h
  | fail => intro t b v r h; simp [decode_fail_eq] at h

end Tls.Fmt
