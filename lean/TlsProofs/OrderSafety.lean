import TlsProofs.OrderRun
/-
  C06 proof support: run-level invariants (no data before completion, aborts are final,
  completion is never left except into `dead`).
-/
namespace Tls.Order

theorem step_cases (c : Cfg) (r : Run) (m : Msg) :
    step c r m = stepK0 c r.st r.outstanding m.kind ∨ (∃ a, step c r m = .abort a) ∨
    (∃ a, step c r m = .acceptAbort a ∧ firstHello c r.st m.kind = true) ∨
    step c r m = .buffer m.kind ∨
    (step c r m = .acceptAbort .unexpected_message ∧ m.kind = .ccs) := by
  rcases step_shape c r m with ⟨p, hs, _⟩ | ⟨hs, _⟩ | ⟨a, hs⟩ | ⟨hs, _, _, _⟩
  · rcases stepK_plus c r.st r.outstanding m.kind p with h | h | h
    · exact Or.inl (hs.trans h)
    · exact Or.inr (Or.inl ⟨_, hs.trans h⟩)
    · exact Or.inr (Or.inr (Or.inl ⟨_, hs.trans h.1, h.2⟩))
  · exact Or.inr (Or.inr (Or.inr (Or.inl hs)))
  · exact Or.inr (Or.inl ⟨a, hs⟩)
  · exact Or.inr (Or.inr (Or.inr (Or.inr ⟨hs, ‹_›⟩)))

/-- before completion: no warning, no delivery, no post-handshake processing -/
theorem step_hs (c : Cfg) (r : Run) (m : Msg) (hp : r.st.isPost = false) :
    step c r m ≠ .warn ∧ step c r m ≠ .deliver ∧ (∀ b, step c r m ≠ .post b) ∧
    (∀ s', step c r m ≠ .phaStart s') := by
  rcases step_cases c r m with h | ⟨a, h⟩ | ⟨a, h, _⟩ | h | ⟨h, _⟩
  · rw [h]; have := stepK0_hs c r.st r.outstanding m.kind hp; exact ⟨this.1, this.2.1, this.2.2.1, this.2.2.2.1⟩
  · rw [h]; simp
  · rw [h]; simp
  · rw [h]; simp
  · rw [h]; simp

theorem PostOut.target_post (o : PostOut) :
    (∀ s' b, o.toOut = .next s' b → s'.isPost = true) ∧ (∀ s', o.toOut = .phaStart s' → s'.isPost = true) := by
  cases o <;> simp [PostOut.toOut, St.isPost]
  rename_i cv; cases cv <;> simp

/-- post-handshake outcomes never lead back into the handshake: every `next`/`phaStart` target is
    again a post-handshake position -/
theorem stepK0_post_target (c : Cfg) (s : St) (n : Nat) (k : MsgKind) (hp : s.isPost = true) :
    (∀ s' b, stepK0 c s n k = .next s' b → s'.isPost = true) ∧
    (∀ s', stepK0 c s n k = .phaStart s' → s'.isPost = true) := by
  cases s <;> simp [St.isPost] at hp <;> simp only [stepK0] <;> exact PostOut.target_post _

theorem step_post_target (c : Cfg) (r : Run) (m : Msg) (hp : r.st.isPost = true) :
    (∀ s' b, step c r m = .next s' b → s'.isPost = true) ∧
    (∀ s', step c r m = .phaStart s' → s'.isPost = true) := by
  have hk := stepK0_post_target c r.st r.outstanding m.kind hp
  rcases step_cases c r m with h | ⟨a, h⟩ | ⟨a, h, _⟩ | h | ⟨h, _⟩
  · rw [h]; exact hk
  · rw [h]; simp
  · rw [h]; simp
  · rw [h]; simp
  · rw [h]; simp

/-- the invariant of every run -/
structure Inv (r : Run) : Prop where
  noData : r.hsDone = false → r.delivered = 0 ∧ r.st.isPost = false
  atDone : r.st.isPost = true → r.hsDone = true ∧ r.closed = false
  alertDead : r.alert.isSome = true → r.st = .dead ∧ r.closed = true
  hsPost : r.st.isPost = false → r.st ≠ .dead → r.hsDone = false

theorem inv_start (c : Cfg) : Inv (start c) := by
  constructor <;> simp [start] <;> (split <;> simp [St.isPost])

theorem pre_fields (c : Cfg) (r : Run) (m : Msg) :
    let q := clearPending (countRecord c r m) m
    q.st = r.st ∧ q.hsDone = r.hsDone ∧ q.delivered = r.delivered ∧ q.closed = r.closed ∧
    q.alert = r.alert ∧ q.accAtDone = r.accAtDone ∧ q.epoch = r.epoch ∧ q.acc = r.acc ∧
    q.warns = r.warns ∧ q.outstanding = r.outstanding := by
  unfold clearPending countRecord; split <;> split <;> simp

theorem inv_feed (c : Cfg) (r : Run) (m : Msg) (h : Inv r) : Inv (feed c r m) := by
  unfold feed
  by_cases hd : (r.st == St.dead) = true
  · simp only [hd, if_true]; exact h
  · simp only [hd]
    obtain ⟨f1, f2, f3, f4, f5, _, _, _, _, _⟩ := pre_fields c r m
    generalize clearPending (countRecord c r m) m = q at *
    have hnd : r.st ≠ .dead := by simpa using hd
    have hna : r.alert.isSome = false := by
      cases ha : r.alert.isSome
      · rfl
      · exact absurd (h.alertDead ha).1 hnd
    generalize ho : step c r m = o
    have hpostOf : (o = .warn ∨ o = .deliver ∨ (∃ b, o = .post b) ∨ (∃ s', o = .phaStart s')) → r.st.isPost = true := by
      intro hh
      cases hq : r.st.isPost
      · have := step_hs c r m hq
        rw [ho] at this
        rcases hh with e | e | ⟨b, e⟩ | ⟨s', e⟩
        · exact absurd e this.1
        · exact absurd e this.2.1
        · exact absurd e (this.2.2.1 b)
        · exact absurd e (this.2.2.2 s')
      · rfl
    cases o with
    | next s b =>
      cases hdone : r.hsDone
      · -- completion happens exactly when the target is a post-handshake position
        cases hsp : s.isPost
        · constructor <;> simp [apply, f2, f3, f5, hna, hsp, hdone]
          exact (h.noData hdone).1
        · constructor <;> simp [apply, f2, f5, hna, hsp, hdone]
      · have hq : r.st.isPost = true := by
          cases hq : r.st.isPost
          · exact absurd hdone (by have := h.hsPost hq hnd; simp [this])
          · rfl
        have hsp := (step_post_target c r m hq).1 s b ho
        constructor <;> simp [apply, f2, f3, f4, f5, hna, hdone, hsp]
        exact (h.atDone hq).2
    | acceptAbort a =>
      constructor <;> simp [apply, f2, f3, St.isPost]
      intro hh; exact (h.noData hh).1
    | abort a =>
      constructor <;> simp [apply, f2, f3, St.isPost]
      intro hh; exact (h.noData hh).1
    | peerClosed =>
      constructor <;> simp [apply, f2, f3, f5, hna, St.isPost]
      intro hh; exact (h.noData hh).1
    | acceptClosed =>
      constructor <;> simp [apply, f2, f3, f5, hna, St.isPost]
      intro hh; exact (h.noData hh).1
    | ignore =>
      constructor <;> simp [apply, f1, f2, f3, f4, f5, hna]
      · exact h.noData
      · exact h.atDone
      · exact h.hsPost
    | buffer k =>
      constructor <;> simp [apply, f1, f2, f3, f4, f5, hna]
      · exact h.noData
      · exact h.atDone
      · exact h.hsPost
    | warn =>
      constructor <;> simp [apply, f1, f2, f3, f4, f5, hna]
      · exact h.noData
      · exact h.atDone
      · exact h.hsPost
    | deliver =>
      have hdn := hpostOf (Or.inr (Or.inl rfl))
      have := h.atDone hdn
      constructor <;> simp [apply, f1, f2, f3, f4, f5, hna, this.1, hdn]
      · exact this.2
    | post b =>
      constructor <;> simp [apply, f1, f2, f3, f4, f5, hna]
      · exact h.noData
      · exact h.atDone
      · exact h.hsPost
    | phaStart s =>
      have hpr := hpostOf (Or.inr (Or.inr (Or.inr ⟨s, rfl⟩)))
      have hdone := h.atDone hpr
      have hsp := (step_post_target c r m hpr).2 s ho
      constructor <;> simp [apply, f2, f3, f4, f5, hna, hdone.1, hdone.2, hsp]

theorem inv_run (c : Cfg) (ms : List Msg) : ∀ r, Inv r → Inv (run c r ms) := by
  induction ms with
  | nil => intro r h; exact h
  | cons m ms ih => intro r h; exact ih _ (inv_feed c r m h)

/-- `dead` is final -/
theorem run_dead (c : Cfg) (ms : List Msg) : ∀ r, r.st = .dead → run c r ms = r := by
  induction ms with
  | nil => intro r _; rfl
  | cons m ms ih =>
    intro r h
    have : feed c r m = r := by simp [feed, h]
    simp only [run, List.foldl_cons] at ih ⊢
    rw [this]; exact ih r h

/-- one step on an established connection: the position stays post-handshake or becomes `dead`,
    and the completion record is not rewritten -/
theorem feed_post (c : Cfg) (r : Run) (m : Msg) (hp : r.st.isPost = true) (hd : r.hsDone = true) :
    ((feed c r m).st.isPost = true ∨ (feed c r m).st = .dead) ∧ (feed c r m).accAtDone = r.accAtDone ∧
    (feed c r m).hsDone = true := by
  have hnd : (r.st == St.dead) = false := by
    cases hs : r.st <;> simp_all [St.isPost]
  obtain ⟨f1, f2, _, _, _, f6, _, _, _, _⟩ := pre_fields c r m
  have htgt := step_post_target c r m hp
  unfold feed
  simp only [hnd, Bool.false_eq_true, if_false]
  generalize clearPending (countRecord c r m) m = q at *
  generalize ho : step c r m = o at htgt
  cases o with
  | next s b =>
    have := htgt.1 s b rfl
    have hcond : (s.isPost && !q.hsDone) = false := by simp [f2, hd]
    simp [apply, hcond, f2, f6, hd, this]
  | phaStart s =>
    have := htgt.2 s rfl
    simp [apply, f2, f6, hd, this]
  | _ => simp [apply, f1, f2, f6, hd, hp]

/-- after completion the position is post-handshake or `dead` forever, and the completion record
    (`accAtDone`, `hsDone`) is never rewritten: no second handshake -/
theorem post_stays (c : Cfg) (ms : List Msg) : ∀ r, r.st.isPost = true → r.hsDone = true →
    ((run c r ms).st.isPost = true ∨ (run c r ms).st = .dead) ∧ (run c r ms).accAtDone = r.accAtDone ∧
    (run c r ms).hsDone = true := by
  induction ms with
  | nil => intro r h hd; exact ⟨Or.inl h, rfl, hd⟩
  | cons m ms ih =>
    intro r h hd
    simp only [run, List.foldl_cons] at ih ⊢
    have key := feed_post c r m h hd
    rcases key.1 with hk | hk
    · have := ih (feed c r m) hk key.2.2
      exact ⟨this.1, by rw [this.2.1, key.2.1], this.2.2⟩
    · have e : List.foldl (feed c) (feed c r m) ms = feed c r m := run_dead c ms _ hk
      rw [e]
      exact ⟨Or.inr hk, key.2.1, key.2.2⟩

end Tls.Order
