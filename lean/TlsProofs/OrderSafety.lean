import TlsProofs.OrderRun
/-
  C06 proof support: run-level invariants (no data before completion, aborts are final,
  completion is never left except into `dead`).
-/
namespace Tls.Order

theorem step_cases (c : Cfg) (s : St) (ep n : Nat) (m : Msg) :
    step c s ep n m = stepK0 c s m.kind ∨ (∃ a, step c s ep n m = .abort a) ∨
    (∃ a, step c s ep n m = .acceptAbort a ∧ firstHello c s m.kind = true) := by
  unfold step
  split
  · rcases stepK_plus c s m.kind m.plus with h | h | h
    · exact Or.inl h
    · exact Or.inr (Or.inl ⟨_, h⟩)
    · exact Or.inr (Or.inr ⟨_, h⟩)
  · exact Or.inr (Or.inl ⟨_, rfl⟩)

theorem step_hs (c : Cfg) (s : St) (ep n : Nat) (m : Msg) (hd : s ≠ .done) :
    step c s ep n m ≠ .warn ∧ step c s ep n m ≠ .deliver ∧ step c s ep n m ≠ .post := by
  rcases step_cases c s ep n m with h | ⟨a, h⟩ | ⟨a, h, _⟩
  · rw [h]; exact stepK0_hs c s m.kind hd
  · rw [h]; simp
  · rw [h]; simp

/-- outcomes of `stepDone`: completion is never left except by closing the connection -/
theorem stepDone_no_next (c : Cfg) (k : MsgKind) : ∀ s b, stepDone c k ≠ .next s b := by
  intro s b
  unfold stepDone
  repeat' split
  all_goals simp

theorem step_done_no_next (c : Cfg) (ep n : Nat) (m : Msg) : ∀ s b, step c .done ep n m ≠ .next s b := by
  intro s b
  rcases step_cases c .done ep n m with h | ⟨a, h⟩ | ⟨a, h, _⟩
  · rw [h]; simp only [stepK0]; exact stepDone_no_next c m.kind s b
  · rw [h]; simp
  · rw [h]; simp

/-- the invariant of every run -/
structure Inv (r : Run) : Prop where
  noData : r.hsDone = false → r.delivered = 0 ∧ r.st ≠ .done
  atDone : r.st = .done → r.hsDone = true ∧ r.closed = false
  alertDead : r.alert.isSome = true → r.st = .dead ∧ r.closed = true

theorem inv_start (c : Cfg) : Inv (start c) := by
  constructor <;> simp [start] <;> (split <;> simp)

theorem countRecord_fields (c : Cfg) (r : Run) (m : Msg) :
    (countRecord c r m).st = r.st ∧ (countRecord c r m).hsDone = r.hsDone ∧
    (countRecord c r m).delivered = r.delivered ∧ (countRecord c r m).closed = r.closed ∧
    (countRecord c r m).alert = r.alert ∧ (countRecord c r m).accAtDone = r.accAtDone ∧
    (countRecord c r m).epoch = r.epoch ∧ (countRecord c r m).acc = r.acc ∧
    (countRecord c r m).warns = r.warns := by
  unfold countRecord; split <;> simp

theorem inv_feed (c : Cfg) (r : Run) (m : Msg) (h : Inv r) : Inv (feed c r m) := by
  unfold feed
  by_cases hd : (r.st == St.dead) = true
  · simp only [hd, if_true]; exact h
  · simp only [hd]
    obtain ⟨f1, f2, f3, f4, f5, _, _, _, _⟩ := countRecord_fields c r m
    have hnd : r.st ≠ .dead := by simpa using hd
    have hna : r.alert.isSome = false := by
      cases ha : r.alert.isSome
      · rfl
      · exact absurd (h.alertDead ha).1 hnd
    generalize ho : step c r.st r.epoch r.recsInEpoch m = o
    have hhs := step_hs c r.st r.epoch r.recsInEpoch m
    have hnn := step_done_no_next c r.epoch r.recsInEpoch m
    rw [ho] at hhs
    have hdone_of : (o = .warn ∨ o = .deliver ∨ o = .post) → r.st = .done := by
      intro hh
      apply Classical.byContradiction
      intro hc
      have := hhs hc
      rcases hh with e | e | e <;> simp [e] at this
    cases o with
    | next s b =>
      have hsd : r.st ≠ .done := by
        intro e; rw [e] at ho; exact hnn s b ho
      by_cases hdn : (s == St.done) = true
      · constructor <;> simp [apply, hdn, f5, hna]
      · have hsn : s ≠ .done := by simpa using hdn
        constructor <;> simp [apply, hdn, f2, f3, f5, hna, hsn]
        intro hh; exact (h.noData hh).1
    | acceptAbort a =>
      constructor <;> simp [apply, f2, f3]
      intro hh; exact (h.noData hh).1
    | abort a =>
      constructor <;> simp [apply, f2, f3]
      intro hh; exact (h.noData hh).1
    | peerClosed =>
      constructor <;> simp [apply, f2, f3, f5, hna]
      intro hh; exact (h.noData hh).1
    | acceptClosed =>
      constructor <;> simp [apply, f2, f3, f5, hna]
      intro hh; exact (h.noData hh).1
    | ignore =>
      constructor <;> simp [apply, f1, f2, f3, f4, f5, hna]
      · exact h.noData
      · exact h.atDone
    | warn =>
      constructor <;> simp [apply, f1, f2, f3, f4, f5, hna]
      · exact h.noData
      · exact h.atDone
    | deliver =>
      have hdn := hdone_of (Or.inr (Or.inl rfl))
      have := h.atDone hdn
      constructor <;> simp [apply, f1, f2, f3, f4, f5, hna, this.1]
      · intro hh; exact (h.atDone hh).2
    | post =>
      constructor <;> simp [apply, f1, f2, f3, f4, f5, hna]
      · exact h.noData
      · exact h.atDone

theorem inv_run (c : Cfg) (ms : List Msg) : ∀ r, Inv r → Inv (run c r ms) := by
  induction ms with
  | nil => intro r h; exact h
  | cons m ms ih => intro r h; exact ih _ (inv_feed c r m h)

/-- `dead` is final -/
theorem run_dead (c : Cfg) (ms : List Msg) : ∀ r, r.st = .dead → run c r ms = r := by
  induction ms with
  | nil => intro r _; rfl
  | cons m ms ih =>
    intro r h
    have : feed c r m = r := by simp [feed, h]
    simp only [run, List.foldl_cons] at ih ⊢
    rw [this]; exact ih r h

/-- after completion the coroutine position is `done` or `dead` forever, and the completion record
    (`accAtDone`, `hsDone`) is never rewritten: no second handshake -/
theorem done_stays (c : Cfg) (ms : List Msg) : ∀ r, r.st = .done →
    ((run c r ms).st = .done ∨ (run c r ms).st = .dead) ∧ (run c r ms).accAtDone = r.accAtDone ∧
    (run c r ms).hsDone = r.hsDone := by
  induction ms with
  | nil => intro r h; exact ⟨Or.inl h, rfl, rfl⟩
  | cons m ms ih =>
    intro r h
    simp only [run, List.foldl_cons] at ih ⊢
    have hnd : (r.st == St.dead) = false := by simp [h]
    obtain ⟨f1, f2, _, _, _, f6, _, _, _⟩ := countRecord_fields c r m
    have hnn := step_done_no_next c r.epoch r.recsInEpoch m
    have key : ((feed c r m).st = .done ∨ (feed c r m).st = .dead) ∧ (feed c r m).accAtDone = r.accAtDone ∧
        (feed c r m).hsDone = r.hsDone := by
      unfold feed
      simp only [hnd]
      rw [h] at *
      generalize ho : step c St.done r.epoch r.recsInEpoch m = o
      cases o with
      | next s b => exact absurd ho (hnn s b)
      | _ => simp [apply, f1, f2, f6]
    rcases key.1 with hk | hk
    · have := ih (feed c r m) hk
      exact ⟨this.1, by rw [this.2.1, key.2.1], by rw [this.2.2, key.2.2]⟩
    · have e : List.foldl (feed c) (feed c r m) ms = feed c r m := run_dead c ms _ hk
      rw [e]
      exact ⟨Or.inr hk, key.2.1, key.2.2⟩

end Tls.Order
