import TlsProofs.RsaCorrect
/-
  C18 ∘ C10 — one call of `_rawPrivateKeyOp` (C10's model `Tls.Rsa.rawPrivateKeyOp`, proved correct
  in TlsProofs/RsaCorrect.lean) as an operation on the shared blinding pair: it keeps the pair
  consistent and returns `m^d mod n`.  Imports a Mathlib-dependent module: never import this from
  TlsModel or a driver.
-/
namespace Tls.Rsa

/-- a call: (`getRandomNumber(2, n)` used if the pair is still unset, message) -/
abbrev Call := Nat × Nat

/-- the first unblinder is invertible modulo n (what `invMod` needs) -/
def CallOk (k : PrivKey) (o : Call) : Prop := invMod o.1 k.pub.n * o.1 % k.pub.n = 1

/-- sequential model of a call on the shared pair: new pair, result -/
def callStep (k : PrivKey) (o : Call) (st : Blind) : Blind × Nat :=
  ((rawPrivateKeyOp k st o.1 o.2).2, (rawPrivateKeyOp k st o.1 o.2).1)

def callCorrect (k : PrivKey) (o : Call) : Nat := o.2 ^ k.d % k.pub.n

theorem callStep_good {k : PrivKey} (vk : ValidKey k) (o : Call) (st : Blind) (ho : CallOk k o)
    (hst : BlindOk k st) :
    BlindOk k (callStep k o st).1 ∧ (callStep k o st).2 = callCorrect k o := by
  obtain ⟨h1, h2⟩ := rawPrivateKeyOp_root vk hst (fun _ => ho) o.2
  refine ⟨?_, vk.root_unique h1 h2⟩
  show BlindOk k (rawPrivateKeyOp k st o.1 o.2).2
  rw [blindStep_state]
  exact Or.inr (blindStep_spec vk.n_gt_one hst (fun _ => ho)).2

/-- a toy well-formed key for non-vacuity: p = 5, q = 7, e = d = 5 (5·5 ≡ 1 mod lcm(4,6)) -/
def toyKey : PrivKey :=
  { pub := { n := 35, e := 5 }, d := 5, p := 5, q := 7, dP := 1, dQ := 5, qInv := 3 }

theorem toyKey_valid : ValidKey toyKey :=
  ValidKey.of_lcm toyKey Nat.prime_five Nat.prime_seven (by decide) (by decide) (by decide)
    (by decide) (by decide) (by decide) (by decide) (by decide)

end Tls.Rsa
