import TlsProofs.RsaPkcs1
import TlsProofs.RsaPss
/-
  RSASSA-PSS at the key level: what `RSASSA_PSS_sign` returns is accepted by `RSASSA_PSS_verify`
  (for every modulus length, including bit lengths that are 1 mod 8 where EM is one byte shorter
  than the modulus).
-/
namespace Tls.Rsa
open Nat

theorem emLen_le_numBytes (n : ℕ) : divceil (numBits n - 1) 8 ≤ numBytes n := by
  unfold divceil numBytes; split <;> omega

theorem rsassaPssVerify_of_em (H : HashAlg) (k : PubKey) (mHash sig em : Bytes) (sLen : ℕ)
    (hpub : rawPublicKeyOpBytes k sig =
      .ok (List.replicate (numBytes k.n - em.length) (0 : UInt8) ++ em))
    (hlen : em.length = divceil (numBits k.n - 1) 8)
    (hv : emsaPssVerify H mHash em (numBits k.n - 1) sLen = .ok ()) :
    rsassaPssVerify H k mHash sig sLen = .ok () := by
  unfold rsassaPssVerify
  rw [hpub]
  simp only
  have hle := emLen_le_numBytes k.n
  by_cases hgt : numBytes k.n > divceil (numBits k.n - 1) 8
  · have hl : (List.replicate (numBytes k.n - em.length) (0 : UInt8) ++ em).length = numBytes k.n := by
      simp; omega
    rw [hl, if_pos hgt]
    have e1 : numBytes k.n - divceil (numBits k.n - 1) 8 = numBytes k.n - em.length := by rw [hlen]
    rw [e1, List.take_left' (by simp), List.drop_left' (by simp)]
    have : ¬ ((List.replicate (numBytes k.n - em.length) (0 : UInt8)).any (· ≠ 0)) = true := by
      simp [List.any_replicate]
    rw [if_neg this]; exact hv
  · have hz : numBytes k.n - em.length = 0 := by omega
    rw [hz]
    simp only [List.replicate_zero, List.nil_append]
    have : ¬ em.length > divceil (numBits k.n - 1) 8 := by omega
    rw [if_neg this]; exact hv

/-- sign then verify, PSS -/
theorem rsassaPss_sign_verify {H : HashAlg} (hH : HashOk H) {k : PrivKey} (vk : ValidKey k)
    {st : Blind} {rnd : ℕ} (hst : BlindOk k st)
    (hrnd : st.blinder = 0 → invMod rnd k.pub.n * rnd % k.pub.n = 1)
    (mHash salt sig : Bytes) (st' : Blind)
    (h : rsassaPssSign H k st rnd mHash salt = .ok (sig, st')) :
    rsassaPssVerify H k.pub mHash sig salt.length = .ok () ∧ BlindOk k st' := by
  unfold rsassaPssSign at h
  cases henc : emsaPssEncode H mHash (numBits k.pub.n - 1) salt with
  | error e => rw [henc] at h; cases h
  | ok em =>
    rw [henc] at h
    simp only [bind, Except.bind] at h
    have hn0 : k.pub.n ≠ 0 := by have := vk.n_gt_one; omega
    have hemlen := emsaPssEncode_length hH mHash salt _ em henc
    have hemlt := emsaPssEncode_lt hH mHash salt _ em henc
    have hle := emLen_le_numBytes k.pub.n
    have hl : (List.replicate (numBytes k.pub.n - em.length) (0 : UInt8) ++ em).length
        = numBytes k.pub.n := by simp; omega
    have hval : beDecode (List.replicate (numBytes k.pub.n - em.length) (0 : UInt8) ++ em) < k.pub.n := by
      rw [beDecode_replicate_zero]
      exact Nat.lt_of_lt_of_le hemlt (two_pow_numBits_le _ hn0)
    obtain ⟨sig0, st0, hok, hst0, _, hpub⟩ := rawPrivateKeyOpBytes_ok vk hst hrnd _ hl hval
    rw [hok] at h
    simp only at h
    cases h
    exact ⟨rsassaPssVerify_of_em H k.pub mHash sig em salt.length hpub hemlen
      (emsaPssVerify_encode hH mHash salt _ em henc), hst0⟩

end Tls.Rsa
