import TlsProofs.Transcript
/-
  Finite facts about the flow scripts of TlsModel/Transcript.lean, checked over every flow and
  every combination of the optional messages (7 flows x 128 option sets).
-/
namespace Tls.Transcript

/-- script facts needed by the reduction, as one decidable check per (flow, options) -/
def splitOk (z : Side) (script : List Ev) : Bool :=
  match splitAtFin z script with
  | some (_, b) => noFin z b
  | none => false

def shdType : UInt8 := Kind.serverHelloDone.htype

def shapeAtFin (z : Side) (script : List Ev) : List UInt8 :=
  match splitAtFin z script with
  | some (a, _) => shapeOf a []
  | none => []

def flowCheck (f : Flow) (o : Opts) : Bool :=
  -- the last Finished is the only one of its direction and ends the script
  (splitAtFin (lastFin f) (flowScript f o) == some (flowPrefix f o, [])) &&
  -- exactly one Finished per direction
  splitOk .client (flowScript f o) && splitOk .server (flowScript f o) &&
  -- ServerHelloDone is hashed before each Finished of a full <= 1.2 handshake and never elsewhere
  ((shapeAtFin .client (flowScript f o)).contains shdType == (f == .full12)) &&
  ((shapeAtFin .server (flowScript f o)).contains shdType == (f == .full12))

theorem flowCheck_all (f : Flow) (o : Opts) : flowCheck f o = true := by
  rcases o with ⟨a, b, c, d, e, g, h⟩
  cases f <;> cases a <;> cases b <;> cases c <;> cases d <;> cases e <;> cases g <;> cases h <;> decide

theorem splitOk_ex {z : Side} {script : List Ev} (h : splitOk z script = true) :
    ∃ a b, splitAtFin z script = some (a, b) ∧ noFin z b = true := by
  unfold splitOk at h
  split at h
  · rename_i a b heq; exact ⟨a, b, heq, h⟩
  · cases h

theorem shapeAtFin_eq {z : Side} {script a b : List Ev} (h : splitAtFin z script = some (a, b)) :
    shapeAtFin z script = shapeOf a [] := by
  unfold shapeAtFin; rw [h]

theorem lastFin_eq (f : Flow) : lastFin f = if f == .full12 then .server else .client := by
  cases f <;> rfl

/-- General form of the reduction: the two endpoints may even follow different flows and see
    different optional messages. -/
theorem both_complete_general (P : Prims) (fc fs : Flow) (oc os : Opts) (Bc Bs : Beh)
    (inC inS : List Wire) (c s : EP)
    (hc : runSide P .client Bc (flowScript fc oc) inC = .ok c)
    (hs : runSide P .server Bs (flowScript fs os) inS = .ok s) :
    (c.tr = s.tr ∧ finKeysAgree c s) ∨ HashCollision P c s ∨ FinishedForgery c s := by
  have kc := flowCheck_all fc oc
  have ks := flowCheck_all fs os
  simp only [flowCheck, Bool.and_eq_true, beq_iff_eq] at kc ks
  obtain ⟨⟨⟨⟨kc1, kc2⟩, kc3⟩, kc4⟩, _⟩ := kc
  obtain ⟨⟨⟨⟨ks1, ks2⟩, ks3⟩, ks4⟩, _⟩ := ks
  obtain ⟨a1, b1, e1, n1⟩ := splitOk_ex kc2
  obtain ⟨a2, b2, e2, n2⟩ := splitOk_ex kc3
  obtain ⟨a3, b3, e3, n3⟩ := splitOk_ex ks2
  obtain ⟨a4, b4, e4, n4⟩ := splitOk_ex ks3
  have hCc := atFin_of_run e1 n1 hc
  have hCs := atFin_of_run e2 n2 hc
  have hSc := atFin_of_run e3 n3 hs
  have hSs := atFin_of_run e4 n4 hs
  have M1 := matched_fin (z := .client) hCc hSc
  have M2 := matched_fin (z := .server) hSs hCs
  rcases M1 with ⟨x2, r2, rx, rr, hx2, hr2, htr1, hsh1, hcc, hsa, hrr1, hsd1⟩ | hbad | hbad
  · rcases M2 with ⟨y2, q2, ry, rq, hy2, hq2, htr2, _, hsc, hca, hrr2, hsd2⟩ | hbad | hbad
    · left
      constructor
      · -- same kind of flow on both sides
        have hsame : (fc == .full12) = (fs == .full12) := by
          rw [← kc4, ← ks4, shapeAtFin_eq e1, shapeAtFin_eq e3, hsh1]
        have hl : lastFin fc = lastFin fs := by rw [lastFin_eq, lastFin_eq, hsame]
        cases hX : lastFin fc with
        | client =>
          rw [hX] at kc1; rw [← hl, hX] at ks1
          rw [kc1] at e1; rw [ks1] at e3
          simp only [Option.some.injEq, Prod.mk.injEq] at e1 e3
          rw [← e1.2] at hx2; rw [← e3.2] at hr2
          simp only [runFrom, Except.ok.injEq] at hx2 hr2
          rw [← hx2, ← hr2]; exact htr1
        | server =>
          rw [hX] at kc1; rw [← hl, hX] at ks1
          rw [kc1] at e2; rw [ks1] at e4
          simp only [Option.some.injEq, Prod.mk.injEq] at e2 e4
          rw [← e4.2] at hy2; rw [← e2.2] at hq2
          simp only [runFrom, Except.ok.injEq] at hy2 hq2
          rw [← hy2, ← hq2]; exact htr2.symm
      · intro ra hra rb hrb hsnd
        simp only [EP.recs, hcc, hca, hsc, hsa, List.mem_append, List.mem_singleton] at hra hrb
        rcases hra with hra | hra <;> rcases hrb with hrb | hrb
        · rw [hra, hrb, hsd1, hsd2] at hsnd; cases hsnd
        · rw [hra, hrb, hrr1]
        · rw [hra, hrb, ← hrr2]
        · rw [hra, hrb, ← hrr1, ← hrr2, hsd1, hsd2] at hsnd; cases hsnd
    · exact Or.inr (Or.inl (hashCollision_symm hbad))
    · exact Or.inr (Or.inr (finishedForgery_symm hbad))
  · exact Or.inr (Or.inl hbad)
  · exact Or.inr (Or.inr hbad)

/-! ## HelloRetryRequest: the restarted transcript carries the digest of the first ClientHello -/

def noRestart (l : List Ev) : Bool := l.all (fun ev => ev != .restart)

def isHrrFlow (f : Flow) : Bool := f == .hrr13 || f == .pskHrr13

def hrrCheck (f : Flow) (o : Opts) : Bool :=
  match flowScript f o with
  | .msg .client .clientHello :: .restart :: rest => noRestart rest
  | _ => false

theorem hrrCheck_all (f : Flow) (o : Opts) (hf : isHrrFlow f = true) : hrrCheck f o = true := by
  rcases o with ⟨a, b, c, d, e, g, h⟩
  cases f <;> simp [isHrrFlow] at hf <;>
    cases a <;> cases b <;> cases c <;> cases d <;> cases e <;> cases g <;> cases h <;> decide

theorem runFrom_noRestart {P : Prims} {me : Side} {B : Beh} {script : List Ev} {e e' : EP}
    (h : runFrom P me B e script = .ok e') (hn : noRestart script = true) :
    (∃ ext, e'.tr = e.tr ++ ext) ∧ e'.pre = e.pre := by
  induction script generalizing e with
  | nil =>
    simp only [runFrom] at h
    cases h
    exact ⟨⟨[], by simp⟩, rfl⟩
  | cons ev r ih =>
    simp only [runFrom] at h
    cases hs : step P me B e ev with
    | error x => rw [hs] at h; cases h
    | ok e1 =>
      rw [hs] at h
      simp only [noRestart, List.all_cons, Bool.and_eq_true] at hn
      obtain ⟨⟨ext, hext⟩, hpre⟩ := ih h (by simpa [noRestart] using hn.2)
      have h1 : (∃ x, e1.tr = e.tr ++ x) ∧ e1.pre = e.pre := by
        cases ev with
        | msg s k =>
          obtain ⟨m, _, _, htr, hp, _, _⟩ := step_msg hs
          exact ⟨⟨[m], htr⟩, hp⟩
        | ccs s =>
          obtain ⟨htr, hp, _, _⟩ := step_ccs hs
          exact ⟨⟨[], by simp [htr]⟩, hp⟩
        | fin s =>
          by_cases hsm : s = me
          · subst hsm
            obtain ⟨_, htr, hp, _, _⟩ := step_fin_send hs
            exact ⟨⟨_, htr⟩, hp⟩
          · obtain ⟨_, htr, hp, _, _⟩ := step_fin_recv hsm hs
            exact ⟨⟨_, htr⟩, hp⟩
        | restart => simp at hn
      obtain ⟨⟨x, hx⟩, hp1⟩ := h1
      exact ⟨⟨x ++ ext, by rw [hext, hx, List.append_assoc]⟩, by rw [hpre, hp1]⟩

/-- after an HRR flow: `pre` is the first ClientHello and the transcript starts with its
    `message_hash` -/
theorem hrr_run_shape {P : Prims} {me : Side} {B : Beh} {f : Flow} {o : Opts} {input : List Wire}
    {e : EP} (hf : isHrrFlow f = true) (h : runSide P me B (flowScript f o) input = .ok e) :
    ∃ ch1 rest, e.pre = [ch1] ∧ ch1.htype = Kind.clientHello.htype ∧ ch1.WF ∧
      e.tr = ⟨Kind.messageHash.htype, P.H (encAll [ch1])⟩ :: rest := by
  have hk := hrrCheck_all f o hf
  unfold hrrCheck at hk
  split at hk
  · rename_i rest hscript
    unfold runSide at h
    rw [hscript] at h
    have h' : runFrom P me B { input := input } ([.msg .client .clientHello] ++ ([.restart] ++ rest)) = .ok e := h
    obtain ⟨e1, h1, h2⟩ := runFrom_append_ok h'
    obtain ⟨e2, h3, h4⟩ := runFrom_append_ok h2
    obtain ⟨m, hm, hmwf, htr1, _, _, _⟩ := step_msg (runFrom_single h1)
    obtain ⟨_, htr2, hpre2, _, _⟩ := step_restart (runFrom_single h3)
    obtain ⟨⟨ext, hext⟩, hpre⟩ := runFrom_noRestart h4 hk
    have htr1' : e1.tr = [m] := by simpa using htr1
    refine ⟨m, ext, by rw [hpre, hpre2, htr1'], hm, hmwf, ?_⟩
    rw [hext, htr2, htr1']; rfl
  · cases hk

end Tls.Transcript
