import TlsModel.CodecLoop
import TlsProofs.Codec
set_option linter.unusedVariables false
set_option linter.unusedSimpArgs false
namespace Tls.Codec
open Tls Tls.Fmt
namespace Parser

/-- what the item decoders of well-formed self-delimiting formats satisfy -/
def ItemLaw (d : Bytes → Except Err (Val × Bytes)) : Prop :=
  ∀ x v r, d x = .ok (v, r) → ∃ c, x = c ++ r ∧ 0 < c.length ∧ ∀ s, d (c ++ s) = .ok (v, s)

theorem itemLaw_decode (f : Fmt) (hw : wf false f = true) (hm : 0 < minLen f) (t : Nat) :
    ItemLaw (decode f t) := by
  intro x v r h
  obtain ⟨e, he, hx⟩ := encode_decode_gen f t x v r h
  have := encode_minLen f t v e he
  exact ⟨e, hx.symm, by omega, fun s => decode_encode_gen f false t v e s hw he (by simp)⟩

theorem atLengthCheck_mk (B : Bytes) (i c L : Nat) (hc : c ≤ i) :
    atLengthCheck ⟨B, i, c, L⟩ =
      if i - c < L then .ok false else if i - c = L then .ok true else .error .readPast := by
  unfold atLengthCheck
  simp only
  by_cases h1 : i - c < L
  · have : (i : Int) - c < L := by omega
    simp [h1, this]
  · by_cases h2 : i - c = L
    · have a : ¬ (i : Int) - c < L := by omega
      have b : (i : Int) - c = L := by omega
      simp [h1, h2, a, b]
    · have a : ¬ (i : Int) - c < L := by omega
      have b : ¬ (i : Int) - c = L := by omega
      simp [h1, h2, a, b]

theorem liftDecode_mk (d : Bytes → Except Err (Val × Bytes)) (B : Bytes) (i c L : Nat) :
    liftDecode d ⟨B, i, c, L⟩ =
      match d (B.drop i) with
      | .error _ => .error .readPast
      | .ok (v, r) => .ok (v, ⟨B, B.length - r.length, c, L⟩) := by
  unfold liftDecode remaining
  cases d (B.drop i) with
  | error e => rfl
  | ok p => rfl

theorem decodeMany_fuel (d : Bytes → Except Err (Val × Bytes)) (hd : ItemLaw d) :
    ∀ (f1 f2 : Nat) (b : Bytes), b.length ≤ f1 → b.length ≤ f2 → decodeMany d f1 b = decodeMany d f2 b := by
  intro f1
  induction f1 with
  | zero =>
    intro f2 b h1 h2
    cases b with
    | nil => rw [decodeMany_nil, decodeMany_nil]
    | cons x xs => simp at h1
  | succ f1 ih =>
    intro f2 b h1 h2
    cases b with
    | nil => rw [decodeMany_nil, decodeMany_nil]
    | cons x xs =>
      cases f2 with
      | zero => simp at h2
      | succ f2 =>
        simp only [decodeMany]
        cases hx : d (x :: xs) with
        | error e => rfl
        | ok p =>
          obtain ⟨v, r⟩ := p
          obtain ⟨c, hc, hpos, _⟩ := hd _ _ _ hx
          have hl : r.length < (x :: xs).length := by
            rw [hc, List.length_append]; omega
          dsimp only
          rw [ih f2 r (by simp at hl h1; omega) (by simp at hl h2; omega)]

end Parser
end Tls.Codec

namespace Tls.Codec
open Tls Tls.Fmt
namespace Parser

theorem lcLoop_spec (d : Bytes → Except Err (Val × Bytes)) (hd : ItemLaw d) (B : Bytes) (c L : Nat) :
    ∀ (fuel i : Nat), c ≤ i → i ≤ B.length →
      (L < i - c → ∃ e, lcLoop (liftDecode d) fuel ⟨B, i, c, L⟩ = .error e) ∧
      (i - c ≤ L → B.length - i < L - (i - c) → ∃ e, lcLoop (liftDecode d) fuel ⟨B, i, c, L⟩ = .error e) ∧
      (i - c ≤ L → L - (i - c) ≤ B.length - i → L - (i - c) ≤ fuel →
        (∀ vs, decodeMany d fuel ((B.drop i).take (L - (i - c))) = .ok vs →
          lcLoop (liftDecode d) fuel ⟨B, i, c, L⟩ = .ok (vs, ⟨B, i + (L - (i - c)), c, L⟩)) ∧
        (∀ e, decodeMany d fuel ((B.drop i).take (L - (i - c))) = .error e →
          ∃ e', lcLoop (liftDecode d) fuel ⟨B, i, c, L⟩ = .error e')) := by
  intro fuel
  induction fuel with
  | zero =>
    intro i hc hi
    refine ⟨?_, ?_, ?_⟩
    · intro h
      simp only [lcLoop, atLengthCheck_mk B i c L hc]
      have h1 : ¬ i - c < L := by omega
      have h2 : ¬ i - c = L := by omega
      simp [h1, h2]
    · intro h1 h2
      simp only [lcLoop, atLengthCheck_mk B i c L hc]
      have : i - c < L := by omega
      simp [this]
    · intro h1 h2 h3
      have hn : L - (i - c) = 0 := by omega
      rw [hn]
      simp only [List.take_zero, decodeMany_nil]
      refine ⟨?_, by intro e h; cases h⟩
      intro vs h
      cases h
      simp only [lcLoop, atLengthCheck_mk B i c L hc]
      have a : ¬ i - c < L := by omega
      have b : i - c = L := by omega
      simp [a, b]
  | succ fuel ih =>
    intro i hc hi
    refine ⟨?_, ?_, ?_⟩
    · intro h
      simp only [lcLoop, atLengthCheck_mk B i c L hc]
      have h1 : ¬ i - c < L := by omega
      have h2 : ¬ i - c = L := by omega
      simp [h1, h2]
    · intro h1 h2
      simp only [lcLoop, atLengthCheck_mk B i c L hc]
      have hlt : i - c < L := by omega
      simp only [hlt, if_true, liftDecode_mk]
      cases hx : d (B.drop i) with
      | error e => exact ⟨_, rfl⟩
      | ok q =>
        obtain ⟨v, r⟩ := q
        obtain ⟨cc, hcc, hpos, _⟩ := hd _ _ _ hx
        have hlen : (B.drop i).length = cc.length + r.length := by rw [hcc, List.length_append]
        rw [List.length_drop] at hlen
        dsimp only
        have hi' : B.length - r.length = i + cc.length := by omega
        rw [hi']
        by_cases hov : L < i + cc.length - c
        · obtain ⟨e, he⟩ := (ih (i + cc.length) (by omega) (by omega)).1 hov
          rw [he]; exact ⟨_, rfl⟩
        · obtain ⟨e, he⟩ := (ih (i + cc.length) (by omega) (by omega)).2.1 (by omega) (by omega)
          rw [he]; exact ⟨_, rfl⟩
    · intro h1 h2 h3
      by_cases hn : L - (i - c) = 0
      · rw [hn]
        simp only [List.take_zero, decodeMany_nil]
        refine ⟨?_, by intro e h; cases h⟩
        intro vs h
        cases h
        simp only [lcLoop, atLengthCheck_mk B i c L hc]
        have a : ¬ i - c < L := by omega
        have b : i - c = L := by omega
        simp [a, b]
      · -- at least one more byte in the region
        have hlt : i - c < L := by omega
        generalize hnn : L - (i - c) = n at *
        have hreg : ((B.drop i).take n).length = n := by
          rw [List.length_take, List.length_drop]; omega
        have hsplit : B.drop i = (B.drop i).take n ++ (B.drop i).drop n := (List.take_append_drop n _).symm
        obtain ⟨x, xs, hxs⟩ : ∃ x xs, (B.drop i).take n = x :: xs := by
          cases hh : (B.drop i).take n with
          | nil => rw [hh] at hreg; simp at hreg; omega
          | cons x xs => exact ⟨x, xs, rfl⟩
        simp only [lcLoop, atLengthCheck_mk B i c L hc]
        simp only [hlt, if_true, liftDecode_mk]
        rw [hxs]
        simp only [decodeMany]
        rw [← hxs]
        cases hx : d (B.drop i) with
        | error e =>
          -- then the item does not parse inside the region either
          dsimp only
          cases hr : d ((B.drop i).take n) with
          | error e2 =>
            dsimp only
            exact ⟨(by intro vs h; cases h), (fun e h => ⟨_, rfl⟩)⟩
          | ok q =>
            exfalso
            obtain ⟨v', r'⟩ := q
            obtain ⟨c', hc', _, hall⟩ := hd _ _ _ hr
            have := hall (r' ++ (B.drop i).drop n)
            rw [← List.append_assoc, ← hc', ← hsplit, hx] at this
            cases this
        | ok q =>
          obtain ⟨v, r⟩ := q
          obtain ⟨cc, hcc, hpos, hall⟩ := hd _ _ _ hx
          have hlen0 : (B.drop i).length = cc.length + r.length := by rw [hcc, List.length_append]
          have hlen := hlen0
          rw [List.length_drop] at hlen
          dsimp only
          have hi' : B.length - r.length = i + cc.length := by omega
          rw [hi']
          by_cases hk : cc.length ≤ n
          · -- the item lies inside the region
            have hregion : (B.drop i).take n = cc ++ r.take (n - cc.length) := by
              rw [hcc, List.take_append]
              have : cc.take n = cc := List.take_of_length_le hk
              rw [this]
            have hdreg : d ((B.drop i).take n) = .ok (v, r.take (n - cc.length)) := by
              rw [hregion]; exact hall _
            rw [hdreg]
            dsimp only
            have hdrop : B.drop (i + cc.length) = r := by
              rw [← List.drop_drop, hcc, List.drop_left]
            have hIH := (ih (i + cc.length) (by omega) (by omega)).2.2 (by omega) (by omega) (by omega)
            have hn' : L - (i + cc.length - c) = n - cc.length := by omega
            rw [hn', hdrop] at hIH
            have hidx : i + cc.length + (n - cc.length) = i + n := by omega
            rw [hidx] at hIH
            refine ⟨?_, ?_⟩
            · intro vs h
              cases hm : decodeMany d fuel (r.take (n - cc.length)) with
              | error e => rw [hm] at h; cases h
              | ok tl =>
                rw [hm] at h
                simp only [Except.ok.injEq] at h
                subst h
                rw [hIH.1 tl hm]
            · intro e h
              cases hm : decodeMany d fuel (r.take (n - cc.length)) with
              | error e2 =>
                obtain ⟨e', he'⟩ := hIH.2 e2 hm
                rw [he']; exact ⟨_, rfl⟩
              | ok tl => rw [hm] at h; cases h
          · -- the item runs past the end of the region: both sides reject
            have hov : L < i + cc.length - c := by omega
            obtain ⟨e, he⟩ := (ih (i + cc.length) (by omega) (by omega)).1 hov
            rw [he]
            cases hr : d ((B.drop i).take n) with
            | error e2 =>
              dsimp only
              exact ⟨(by intro vs h; cases h), (fun e h => ⟨_, rfl⟩)⟩
            | ok q =>
              exfalso
              obtain ⟨v', r'⟩ := q
              obtain ⟨c', hc', _, hall'⟩ := hd _ _ _ hr
              have h2 := hall' (r' ++ (B.drop i).drop n)
              rw [← List.append_assoc, ← hc', ← hsplit, hx] at h2
              simp only [Except.ok.injEq, Prod.mk.injEq] at h2
              have e1 := congrArg List.length hsplit
              have e2 := congrArg List.length hc'
              have e3 := congrArg List.length h2.2
              simp only [List.length_append] at e1 e2 e3
              rw [hreg] at e1 e2
              omega

end Parser
end Tls.Codec

namespace Tls.Codec
open Tls Tls.Fmt
namespace Parser

theorem startLengthCheck_ok_iff (p : Parser) (ll : Nat) (p0 : Parser) :
    startLengthCheck p ll = .ok p0 ↔
      p.index + ll ≤ p.bytes.length ∧
      p0 = ⟨p.bytes, p.index + ll, p.index + ll, beDecode ((p.bytes.drop p.index).take ll)⟩ := by
  unfold startLengthCheck
  simp only [bind, Except.bind]
  cases hg : get p ll with
  | error e =>
    have := (get_error_iff _ _ _).mp hg
    simp; omega
  | ok q =>
    obtain ⟨x, p1⟩ := q
    obtain ⟨h1, rfl, rfl⟩ := (get_ok_iff _ _ _ _).mp hg
    simp only [Except.ok.injEq]
    constructor
    · rintro rfl; exact ⟨h1, rfl⟩
    · rintro ⟨_, rfl⟩; rfl

/-- The parsing idiom `startLengthCheck(ll); while not atLengthCheck(): item(); stopLengthCheck()`
    on the shared parser accepts exactly what the generic `list ll f` accepts on the unread
    bytes (a sub-parser over the declared region), with the same items and the same rest —
    although the item parser of the real code may look beyond the region, it can never make
    the list accepted by doing so. -/
theorem lcList_eq_decode (f : Fmt) (hw : wf false f = true) (hm : 0 < minLen f) (t ll : Nat)
    (p : Parser) (hinv : p.inv) :
    (lcList (liftDecode (decode f t)) ll p).toOption.map (fun (v, p') => (v, p'.remaining)) =
      (decode (list ll f) t p.remaining).toOption := by
  have hd := itemLaw_decode f hw hm t
  unfold inv at hinv
  unfold lcList
  cases hs : startLengthCheck p ll with
  | error e =>
    -- the length field itself is truncated
    have hlt : p.bytes.length < p.index + ll := by
      unfold startLengthCheck at hs
      simp only [bind, Except.bind] at hs
      cases hg : get p ll with
      | error e' => exact ((get_error_iff _ _ _).mp hg).1
      | ok q => rw [hg] at hs; cases hs
    have : p.remaining.length < ll := by simp [remaining]; omega
    simp [decode, shorter_eq, this, Except.toOption]
  | ok p0 =>
    obtain ⟨h1, rfl⟩ := (startLengthCheck_ok_iff _ _ _).mp hs
    dsimp only
    generalize hL : beDecode ((p.bytes.drop p.index).take ll) = L
    have hrem_take : p.remaining.take ll = (p.bytes.drop p.index).take ll := rfl
    have hrem_drop : p.remaining.drop ll = p.bytes.drop (p.index + ll) := by
      simp [remaining, List.drop_drop]
    have hnl : ¬ p.remaining.length < ll := by simp [remaining]; omega
    have spec := lcLoop_spec (decode f t) hd p.bytes (p.index + ll) L p.bytes.length (p.index + ll)
      (Nat.le_refl _) h1
    simp only [Nat.sub_self, Nat.sub_zero, Nat.zero_le, true_implies] at spec
    by_cases hfit : L ≤ p.bytes.length - (p.index + ll)
    · have hfuel : L ≤ p.bytes.length := by omega
      obtain ⟨hok, herr⟩ := spec.2.2 hfit hfuel
      have hreglen : ((p.bytes.drop (p.index + ll)).take L).length = L := by
        rw [List.length_take, List.length_drop]; omega
      have hfu := decodeMany_fuel (decode f t) hd p.bytes.length L
        ((p.bytes.drop (p.index + ll)).take L) (by rw [hreglen]; exact hfuel) (by rw [hreglen]; exact Nat.le_refl _)
      have hnl2 : ¬ (p.remaining.drop ll).length < L := by rw [hrem_drop, List.length_drop]; omega
      have hnl3 : ¬ p.bytes.length - (p.index + ll) < L := by omega
      cases hm2 : decodeMany (decode f t) p.bytes.length ((p.bytes.drop (p.index + ll)).take L) with
      | ok vs =>
        rw [hok vs hm2]
        dsimp only
        have hstop : stopLengthCheck ⟨p.bytes, p.index + ll + L, p.index + ll, L⟩ = .ok () := by
          rw [stopLengthCheck_ok_iff]; simp; omega
        rw [hstop]
        dsimp only
        simp only [decode, shorter_eq, decide_eq_true_eq, hnl, if_false, hrem_take, hL, hnl2, hrem_drop]
        rw [hreglen, ← hfu, hm2]
        simp [Except.toOption, remaining, List.drop_drop, Nat.add_assoc, hnl3]
      | error e =>
        obtain ⟨e', he'⟩ := herr e hm2
        rw [he']
        dsimp only
        simp only [decode, shorter_eq, decide_eq_true_eq, hnl, if_false, hrem_take, hL, hnl2, hrem_drop]
        rw [hreglen, ← hfu, hm2]
        simp [Except.toOption, hnl3]
    · obtain ⟨e', he'⟩ := spec.2.1 (by omega)
      rw [he']
      dsimp only
      have hl2 : (p.remaining.drop ll).length < L := by rw [hrem_drop, List.length_drop]; omega
      have hl3 : p.remaining.length - ll < L := by simp [remaining]; omega
      simp [decode, shorter_eq, hnl, hrem_take, hL, hl3, Except.toOption]

end Parser
end Tls.Codec

