import TlsModel.Transcript
/-
  Soundness of the HelloRetryRequest comparison `hrrConsistent` (TlsModel/Transcript.lean):
  the list operations it performs on the first hello never touch an extension outside
  {key_share, cookie, padding, pre_shared_key, early_data}.
-/
namespace Tls.Transcript

def keepExt (e : Ext) : Bool := !hrrMutable e.typ

theorem filter_setExtData (l : List Ext) (t : Nat) (d : Bytes) (ht : hrrMutable t = true) :
    (setExtData l t d).filter keepExt = l.filter keepExt := by
  induction l with
  | nil => rfl
  | cons e r ih =>
    unfold setExtData
    by_cases h : (e.typ == t) = true
    · have het : e.typ = t := by simpa using h
      simp only [h, if_true]
      have h1 : keepExt { e with data := d } = false := by simp [keepExt, het, ht]
      have h2 : keepExt e = false := by simp [keepExt, het, ht]
      simp [h1, h2]
    · simp only [h, Bool.false_eq_true, if_false]
      simp [List.filter_cons, ih]

theorem filter_insertAt (l : List Ext) (i : Nat) (x : Ext) (hx : hrrMutable x.typ = true) :
    (insertAt l i x).filter keepExt = l.filter keepExt := by
  have hk : keepExt x = false := by simp [keepExt, hx]
  induction l generalizing i with
  | nil => cases i <;> simp [insertAt, hk]
  | cons e r ih =>
    cases i with
    | zero => simp [insertAt, hk]
    | succ j => simp [insertAt, List.filter_cons, ih j]

theorem filter_dropPadding (l : List Ext) :
    (l.filter (fun e => e.typ != extPadding)).filter keepExt = l.filter keepExt := by
  induction l with
  | nil => rfl
  | cons e r ih =>
    by_cases h : e.typ = extPadding
    · have hk : keepExt e = false := by simp [keepExt, hrrMutable, h]
      simp [h, hk, ih]
    · have : (e.typ != extPadding) = true := by simpa using h
      simp [List.filter_cons, this, ih]

theorem filter_erase (l : List Ext) (x : Ext) (hx : hrrMutable x.typ = true) :
    (l.erase x).filter keepExt = l.filter keepExt := by
  have hk : keepExt x = false := by simp [keepExt, hx]
  induction l with
  | nil => rfl
  | cons e r ih =>
    by_cases h : e = x
    · subst h; simp [List.erase_cons_head, hk]
    · have : (e == x) = false := by simpa using h
      simp [this, List.filter_cons, ih]

theorem find_typ {l : List Ext} {t : Nat} {x : Ext} (h : l.find? (fun e => e.typ == t) = some x) :
    x.typ = t := by
  have := List.find?_some h
  simpa using this

theorem filter_setLast {l l' : List Ext} {x : Ext} (h : setLast l x = some l')
    (hx : hrrMutable x.typ = true) (hl : ∀ e, l.getLast? = some e → hrrMutable e.typ = true) :
    l'.filter keepExt = l.filter keepExt := by
  have hk : keepExt x = false := by simp [keepExt, hx]
  induction l generalizing l' with
  | nil => simp [setLast] at h
  | cons e r ih =>
    cases r with
    | nil =>
      simp only [setLast, Option.some.injEq] at h
      subst h
      have he : hrrMutable e.typ = true := hl e (by simp)
      have hke : keepExt e = false := by simp [keepExt, he]
      simp [hk, hke]
    | cons e2 r2 =>
      simp only [setLast] at h
      cases hr : setLast (e2 :: r2) x with
      | none => rw [hr] at h; simp at h
      | some l2 =>
        rw [hr] at h
        simp only [Option.map_some, Option.some.injEq] at h
        subst h
        have := ih hr (fun e' he' => hl e' (by simpa [List.getLast?_cons_cons] using he'))
        simp [List.filter_cons, this]

/-! membership and last element through the list operations -/

theorem mem_setExtData {l : List Ext} {t : Nat} {d : Bytes} {e : Ext} (h : e ∈ setExtData l t d) :
    ∃ e' ∈ l, e'.typ = e.typ := by
  induction l with
  | nil => simp [setExtData] at h
  | cons a r ih =>
    unfold setExtData at h
    by_cases hc : (a.typ == t) = true
    · simp only [hc, if_true, List.mem_cons] at h
      rcases h with h | h
      · exact ⟨a, by simp, by rw [h]⟩
      · exact ⟨e, by simp [h], rfl⟩
    · simp only [hc, Bool.false_eq_true, if_false, List.mem_cons] at h
      rcases h with h | h
      · exact ⟨a, by simp, by rw [h]⟩
      · obtain ⟨e', he', ht⟩ := ih h
        exact ⟨e', by simp [he'], ht⟩

theorem mem_insertAt {l : List Ext} {i : Nat} {x e : Ext} (h : e ∈ insertAt l i x) : e = x ∨ e ∈ l := by
  induction l generalizing i with
  | nil => cases i <;> simp [insertAt] at h <;> exact Or.inl h
  | cons a r ih =>
    cases i with
    | zero =>
      simp only [insertAt, List.mem_cons] at h
      rcases h with h | h | h
      · exact Or.inl h
      · exact Or.inr (by simp [h])
      · exact Or.inr (by simp [h])
    | succ j =>
      simp only [insertAt, List.mem_cons] at h
      rcases h with h | h
      · exact Or.inr (by simp [h])
      · rcases ih h with h' | h'
        · exact Or.inl h'
        · exact Or.inr (by simp [h'])

theorem getLast_setExtData (l : List Ext) (t : Nat) (d : Bytes) :
    (setExtData l t d).getLast?.map (·.typ) = l.getLast?.map (·.typ) := by
  induction l with
  | nil => rfl
  | cons a r ih =>
    unfold setExtData
    by_cases hc : (a.typ == t) = true
    · simp only [hc, if_true]
      cases r with
      | nil => simp
      | cons b r2 => simp [List.getLast?_cons_cons]
    · simp only [hc, Bool.false_eq_true, if_false]
      cases r with
      | nil => simp [setExtData]
      | cons b r2 =>
        have : ∃ c r3, setExtData (b :: r2) t d = c :: r3 := by
          unfold setExtData; split <;> exact ⟨_, _, rfl⟩
        obtain ⟨c, r3, hc3⟩ := this
        rw [hc3] at ih ⊢
        simpa [List.getLast?_cons_cons] using ih

theorem getLast_insertAt {l : List Ext} {i : Nat} {x e : Ext} (h : (insertAt l i x).getLast? = some e) :
    e = x ∨ l.getLast? = some e := by
  induction l generalizing i with
  | nil => cases i <;> simp [insertAt] at h <;> exact Or.inl h.symm
  | cons a r ih =>
    cases i with
    | zero =>
      simp only [insertAt, List.getLast?_cons_cons] at h
      exact Or.inr h
    | succ j =>
      simp only [insertAt] at h
      cases hr : insertAt r j x with
      | nil =>
        -- insertAt never returns the empty list
        cases r <;> cases j <;> simp [insertAt] at hr
      | cons c r3 =>
        rw [hr, List.getLast?_cons_cons, ← hr] at h
        rcases ih h with h' | h'
        · exact Or.inl h'
        · right
          cases r with
          | nil => simp at h'
          | cons b r2 => simpa [List.getLast?_cons_cons] using h'

theorem getLast_filter_keep {l : List Ext} {p : Ext → Bool} {e : Ext} (h : l.getLast? = some e)
    (hp : p e = true) : (l.filter p).getLast? = some e := by
  induction l with
  | nil => simp at h
  | cons a r ih =>
    cases r with
    | nil =>
      simp only [List.getLast?_singleton, Option.some.injEq] at h
      subst h
      simp [hp]
    | cons b r2 =>
      rw [List.getLast?_cons_cons] at h
      have := ih h
      by_cases ha : p a = true
      · rw [List.filter_cons, if_pos ha]
        cases hf : List.filter p (b :: r2) with
        | nil => rw [hf] at this; simp at this
        | cons c r3 => rw [List.getLast?_cons_cons, ← hf]; exact this
      · rw [List.filter_cons, if_neg ha]; exact this

theorem indexOfType_get {l : List Ext} {t i : Nat} {x : Ext} (h : indexOfType l t = some i)
    (hx : l[i]? = some x) : x.typ = t := by
  induction l generalizing i with
  | nil => simp [indexOfType] at h
  | cons a r ih =>
    unfold indexOfType at h
    by_cases hc : (a.typ == t) = true
    · simp only [hc, if_true, Option.some.injEq] at h
      subst h
      simp only [List.getElem?_cons_zero, Option.some.injEq] at hx
      subst hx
      simpa using hc
    · simp only [hc, Bool.false_eq_true, if_false] at h
      cases hr : indexOfType r t with
      | none => rw [hr] at h; simp at h
      | some j =>
        rw [hr] at h
        simp only [Option.map_some, Option.some.injEq] at h
        subst h
        simp only [List.getElem?_cons_succ] at hx
        exact ih hr hx

theorem hello_eq_of_check {a b : Hello}
    (h : (if a ≠ b then Except.error HrrErr.mismatch else Except.ok ()) = (Except.ok () : Except HrrErr Unit)) :
    a = b := by
  by_cases hc : a = b
  · exact hc
  · simp [hc] at h

/-- the code's own guard on the first hello ("PSK extension not last in client hello") -/
def pskLast (l : List Ext) : Prop :=
  (∃ e ∈ l, e.typ = extPsk) → ∃ e, l.getLast? = some e ∧ e.typ = extPsk

theorem hrrConsistent_sound (ch1 ch2 : Hello) (groups : List Nat) (sel : Nat) (cookie : Bytes)
    (hpsk : pskLast ch1.exts) (h : hrrConsistent ch1 ch2 groups sel cookie = .ok ()) :
    ch2.version = ch1.version ∧ ch2.random = ch1.random ∧ ch2.sessionId = ch1.sessionId ∧
    ch2.suites = ch1.suites ∧ ch2.compression = ch1.compression ∧
    ch2.exts.filter keepExt = ch1.exts.filter keepExt := by
  unfold hrrConsistent at h
  split at h
  · cases h
  · rename_i newKs hks
    split at h
    · cases h
    · split at h
      · cases h
      · split at h
        · cases h
        · rename_i i hidx
          split at h
          · cases h
          · rename_i ck hck
            split at h
            · cases h
            · -- names for the intermediate lists
              simp only [] at h
              generalize he1 : setExtData ch1.exts extKeyShare newKs.data = e1 at h
              generalize he2 : insertAt e1 i ck = e2 at h
              have hckt : ck.typ = extCookie := indexOfType_get hidx hck
              have hckm : hrrMutable ck.typ = true := by rw [hckt]; rfl
              have f1 : e1.filter keepExt = ch1.exts.filter keepExt := by
                rw [← he1]; exact filter_setExtData _ _ _ rfl
              have f2 : e2.filter keepExt = ch1.exts.filter keepExt := by
                rw [← he2, filter_insertAt _ _ _ hckm, f1]
              -- membership of a psk-typed element goes back to the first hello
              have m2 : ∀ e ∈ e2, e.typ = extPsk → ∃ e' ∈ ch1.exts, e'.typ = extPsk := by
                intro e he ht
                rw [← he2] at he
                rcases mem_insertAt he with hx | hx
                · rw [hx, hckt] at ht; cases ht
                · rw [← he1] at hx
                  obtain ⟨e', he', ht'⟩ := mem_setExtData hx
                  exact ⟨e', he', by rw [ht', ht]⟩
              -- last element of e2, when the first hello has a psk extension
              have l2 : (∃ e ∈ ch1.exts, e.typ = extPsk) →
                  ∀ e, e2.getLast? = some e → e.typ = extPsk ∨ e.typ = extCookie := by
                intro hex e hl
                rw [← he2] at hl
                rcases getLast_insertAt hl with hx | hx
                · exact Or.inr (by rw [hx, hckt])
                · obtain ⟨q, hq, hqt⟩ := hpsk hex
                  have := getLast_setExtData ch1.exts extKeyShare newKs.data
                  rw [he1, hx, hq] at this
                  simp only [Option.map_some, Option.some.injEq] at this
                  exact Or.inl (by rw [this, hqt])
              generalize he3 : (if (e2.find? (fun x => x.typ == extPadding) ==
                    ch2.exts.find? (fun x => x.typ == extPadding)) = true then e2
                  else match e2.find? (fun x => x.typ == extPadding),
                      ch2.exts.find? (fun x => x.typ == extPadding), indexOfType ch2.exts extPadding with
                    | none, some p, some j => insertAt e2 j p
                    | some _, none, _ => e2.filter (fun x => x.typ != extPadding)
                    | some _, some p, _ => setExtData e2 extPadding p.data
                    | _, _, _ => e2) = e3 at h
              have f3 : e3.filter keepExt = ch1.exts.filter keepExt ∧
                  (∀ e ∈ e3, e.typ = extPsk → ∃ e' ∈ ch1.exts, e'.typ = extPsk) ∧
                  ((∃ e ∈ ch1.exts, e.typ = extPsk) → ∀ e, e3.getLast? = some e → hrrMutable e.typ = true) := by
                have base : (∃ e ∈ ch1.exts, e.typ = extPsk) → ∀ e, e2.getLast? = some e → hrrMutable e.typ = true := by
                  intro hex e hl
                  rcases l2 hex e hl with ht | ht <;> rw [ht] <;> rfl
                rw [← he3]
                split
                · exact ⟨f2, m2, base⟩
                · split
                  · rename_i p j _ hnp _
                    have hpt : p.typ = extPadding := find_typ hnp
                    have hpm : hrrMutable p.typ = true := by rw [hpt]; rfl
                    refine ⟨by rw [filter_insertAt _ _ _ hpm, f2], ?_, ?_⟩
                    · intro e he ht
                      rcases mem_insertAt he with hx | hx
                      · rw [hx, hpt] at ht; cases ht
                      · exact m2 e hx ht
                    · intro hex e hl
                      rcases getLast_insertAt hl with hx | hx
                      · rw [hx]; exact hpm
                      · exact base hex e hx
                  · refine ⟨by rw [filter_dropPadding, f2], ?_, ?_⟩
                    · intro e he ht
                      exact m2 e (List.mem_filter.mp he).1 ht
                    · intro hex e hl
                      -- the last element of e2 is psk or cookie, so the filter keeps it
                      cases hl2 : e2.getLast? with
                      | none =>
                        have : e2 = [] := List.getLast?_eq_none_iff.mp hl2
                        rw [this] at hl; simp at hl
                      | some q =>
                        have hq := l2 hex q hl2
                        have hkeep : (fun x : Ext => x.typ != extPadding) q = true := by
                          rcases hq with hq | hq <;> simp [hq, extPsk, extCookie, extPadding]
                        have := getLast_filter_keep (p := fun x : Ext => x.typ != extPadding) hl2 hkeep
                        rw [this] at hl
                        simp only [Option.some.injEq] at hl
                        rw [← hl]
                        exact base hex q hl2
                  · rename_i p _ _ hnp
                    refine ⟨by rw [filter_setExtData _ _ _ rfl, f2], ?_, ?_⟩
                    · intro e he ht
                      obtain ⟨e', he', ht'⟩ := mem_setExtData he
                      exact m2 e' he' (by rw [ht', ht])
                    · intro hex e hl
                      have this := congrArg (Option.map (fun x : Ext => x.typ)) hl
                      rw [getLast_setExtData] at this
                      cases hl2 : e2.getLast? with
                      | none => rw [hl2] at this; simp at this
                      | some q =>
                        rw [hl2] at this
                        simp only [Option.map_some, Option.some.injEq] at this
                        rw [← this]; exact base hex q hl2
                  · exact ⟨f2, m2, base⟩
              obtain ⟨f3a, m3, l3⟩ := f3
              split at h
              · cases h
              · rename_i e4 hr4
                have f4 : e4.filter keepExt = ch1.exts.filter keepExt := by
                  split at hr4
                  · rename_i q p hold hnew
                    split at hr4
                    · cases hr4
                    · rename_i l4 hsl
                      split at hr4
                      · cases hr4
                      · simp only [Except.ok.injEq] at hr4
                        subst hr4
                        have hpt : p.typ = extPsk := find_typ hnew
                        have hpm : hrrMutable p.typ = true := by rw [hpt]; rfl
                        have hqt : q.typ = extPsk := find_typ hold
                        have hex := m3 q (List.mem_of_find?_eq_some hold) hqt
                        rw [filter_setLast hsl hpm (l3 hex), f3a]
                  · simp only [Except.ok.injEq] at hr4
                    subst hr4; exact f3a
                split at h
                · rename_i x hx
                  have hxt : x.typ = extEarlyData := find_typ hx
                  have f5 : (e4.erase x).filter keepExt = ch1.exts.filter keepExt := by
                    rw [filter_erase _ _ (by rw [hxt]; rfl), f4]
                  have heq' := hello_eq_of_check h
                  rw [← heq']
                  exact ⟨rfl, rfl, rfl, rfl, rfl, f5⟩
                · have heq' := hello_eq_of_check h
                  rw [← heq']
                  exact ⟨rfl, rfl, rfl, rfl, rfl, f4⟩

end Tls.Transcript
