import TlsModel.Dh
import TlsProofs.RsaBasic
import Mathlib.Data.Nat.Prime.Basic
/-
  Lemmas about the FFDH / ECDH glue models.
-/
namespace Tls.Dh
open Tls Tls.Rsa

/-- what `FFDHKeyExchange.__init__` guarantees -/
def FFDH.Valid (k : FFDH) : Prop := 1 < k.generator ∧ k.generator < k.prime

theorem FFDH.new_valid (group : ℕ) (t : Bool) (g p : ℕ) (k : FFDH)
    (h : FFDH.new group t g p = .ok k) : k.Valid := by
  unfold FFDH.new at h
  split at h
  · cases h
  · simp only at h
    split at h
    · cases h
    · rename_i g' p' _
      split at h
      · cases h
      · rename_i hv
        cases h
        have : 1 < g' ∧ g' < p' := by simpa using hv
        exact this

theorem minimalBytes_decode (n : ℕ) : beDecode (minimalBytes n) = n := by
  unfold minimalBytes
  split
  · subst_vars; rfl
  · exact beDecode_beEncode _ _ (lt_pow_numBytes n)

/-- the value the peer-share normalisation yields for our own public value -/
theorem normalise_calcPublic (k : FFDH) (hv : k.Valid) (a : ℕ) (Y : Share)
    (h : k.calcPublic a = .ok Y) : k.normalise Y = .ok (k.generator ^ a % k.prime) := by
  have hp : 0 < k.prime := by have := hv.1; have := hv.2; omega
  unfold FFDH.calcPublic at h
  simp only [powMod_eq] at h
  split at h
  · cases h
  · split at h
    · cases h; rfl
    · cases h
      unfold FFDH.normalise
      simp only [beEncode_length, ne_eq, not_true_eq_false, if_false]
      rw [beDecode_beEncode _ _ (Nat.lt_trans (Nat.mod_lt _ hp) (lt_pow_numBytes _))]

/-- success of `calc_shared_key` determines the result as a function of `peer ^ priv mod p` -/
theorem calcShared_ok (k : FFDH) (priv : ℕ) (peer : Share) (S : Bytes)
    (h : k.calcShared priv peer = .ok S) :
    ∃ y, k.normalise peer = .ok y ∧ 2 ≤ y ∧ y < k.prime - 1 ∧
      y ^ priv % k.prime ≠ 1 ∧ y ^ priv % k.prime ≠ k.prime - 1 ∧
      S = (if k.tls13 then beEncode (numBytes k.prime) (y ^ priv % k.prime)
           else minimalBytes (y ^ priv % k.prime)) := by
  unfold FFDH.calcShared at h
  cases hn : k.normalise peer with
  | error e => rw [hn] at h; cases h
  | ok y =>
    rw [hn] at h
    simp only [powMod_eq] at h
    split at h
    · cases h
    · rename_i hr
      split at h
      · cases h
      · rename_i hs
        have hr' : 2 ≤ y ∧ y < k.prime - 1 := by
          by_contra hc; exact hr hc
        have hs' : ¬ (y ^ priv % k.prime = 1) ∧ ¬ (y ^ priv % k.prime = k.prime - 1) := by
          simpa [not_or] using hs
        refine ⟨y, rfl, hr'.1, hr'.2, hs'.1, hs'.2, ?_⟩
        split at h
        · rename_i ht
          cases h
          have : k.tls13 = false := by simpa using ht
          simp [this]
        · rename_i ht
          cases h
          have : k.tls13 = true := by simpa using ht
          simp [this]

theorem decode_shared (k : FFDH) (s : ℕ) (hs : s < k.prime) :
    beDecode (if k.tls13 then beEncode (numBytes k.prime) s else minimalBytes s) = s := by
  split
  · exact beDecode_beEncode _ _ (Nat.lt_trans hs (lt_pow_numBytes _))
  · exact minimalBytes_decode s

theorem foldl_or_eq_zero (v : Bytes) (acc : ℕ) :
    v.foldl (fun s (i : UInt8) => s ||| i.toNat) acc = 0 ↔ acc = 0 ∧ ∀ i ∈ v, i = 0 := by
  induction v generalizing acc with
  | nil => simp
  | cons x xs ih =>
    simp only [List.foldl_cons, ih, Nat.or_eq_zero_iff, List.mem_cons, forall_eq_or_imp]
    constructor
    · rintro ⟨⟨ha, hx⟩, hr⟩
      exact ⟨ha, UInt8.toNat_inj.mp (by simpa using hx), hr⟩
    · rintro ⟨ha, hx, hr⟩
      exact ⟨⟨ha, by rw [hx]; rfl⟩, hr⟩

theorem nonZeroCheck_ok_iff (v : Bytes) : nonZeroCheck v = .ok () ↔ ∃ i ∈ v, i ≠ 0 := by
  unfold nonZeroCheck
  by_cases h : ∀ i ∈ v, i = 0
  · have hz := (foldl_or_eq_zero v 0).mpr ⟨rfl, h⟩
    rw [if_pos hz]
    constructor
    · intro hc; cases hc
    · rintro ⟨i, hi, hne⟩; exact absurd (h i hi) hne
  · have hz : ¬ v.foldl (fun s (i : UInt8) => s ||| i.toNat) 0 = 0 :=
      fun hc => h ((foldl_or_eq_zero v 0).mp hc).2
    rw [if_neg hz]
    push_neg at h
    simp only [true_iff]
    exact h

end Tls.Dh
