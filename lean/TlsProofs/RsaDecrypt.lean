import TlsModel.RsaDecrypt
import TlsProofs.CT
/-
  Helper lemmas for C11: the masked expressions of `RSAKey.decrypt` read as conditionals
  (through the proved specifications of the constant-time helpers), the scan loop against the
  plain PKCS#1 v1.5 parse, the PRF loop, the synthetic length bound, and the characterisation
  `decryptTail_eq` of everything after the raw private-key operation.
-/
namespace Tls.RsaDec
open Tls.CT


theorem and_65535 (a : Nat) : a &&& 65535 = a % 65536 := Nat.and_two_pow_sub_one_eq_mod a 16
theorem and_255 (a : Nat) : a &&& 255 = a % 256 := Nat.and_two_pow_sub_one_eq_mod a 8
theorem sel16_zero (a b : Nat) (ha : a < 65536) : (a &&& (0xffff ^^^ 0)) ||| (b &&& 0) = a := by
  have : (0xffff ^^^ 0 : Nat) = 65535 := by decide
  rw [this, and_65535, Nat.and_zero, Nat.or_zero, Nat.mod_eq_of_lt ha]

theorem sel16_ones (a b : Nat) (hb : b < 65536) : (a &&& (0xffff ^^^ 65535)) ||| (b &&& 65535) = b := by
  have : (0xffff ^^^ 65535 : Nat) = 0 := by decide
  rw [this, and_65535, Nat.and_zero, Nat.zero_or, Nat.mod_eq_of_lt hb]

theorem u8_toNat_eq_zero (v : UInt8) : v.toNat = 0 ↔ v = 0 := by
  constructor
  · intro h; exact UInt8.toNat_inj.mp (by simpa using h)
  · intro h; subst h; rfl

theorem isNonZero_u8 (v : UInt8) : ctIsNonZeroU32 v.toNat = if v = 0 then 0 else 1 := by
  rw [ctIsNonZeroU32_spec]
  have := v.toNat_lt
  have h : v.toNat % 2^32 = v.toNat := Nat.mod_eq_of_lt (by omega)
  rw [h]
  by_cases hv : v = 0
  · simp [hv]
  · have : v.toNat ≠ 0 := fun h => hv ((u8_toNat_eq_zero v).mp h)
    simp [hv, this]

theorem isNonZero_small (x : Nat) (hx : x < 2^32) : ctIsNonZeroU32 x = if x = 0 then 0 else 1 := by
  rw [ctIsNonZeroU32_spec, Nat.mod_eq_of_lt hx]

theorem lt_small (a b : Nat) (ha : a < 2^32) (hb : b < 2^32) : ctLtU32 a b = if a < b then 1 else 0 := by
  rw [ctLtU32_spec, Nat.mod_eq_of_lt ha, Nat.mod_eq_of_lt hb]

/-- the scan loop with the masks read as conditionals -/
def scanP : Nat → Nat → Nat → Bytes → Nat × Nat
  | _, e, ms, [] => (e, ms)
  | pos, e, ms, v :: rest =>
    scanP (pos + 1) (if pos < 10 ∧ v = 0 then 1 else e)
      (if 10 ≤ pos ∧ v = 0 ∧ ms = 0 then pos + 1 else ms) rest

theorem scan_eq_scanP : ∀ (l : Bytes) (pos e ms : Nat), e ≤ 1 → ms < 65536 → pos + l.length < 65536 →
    scan pos e ms l = scanP pos e ms l := by
  intro l
  induction l with
  | nil => intros; rfl
  | cons v rest ih =>
    intro pos e ms he hms hpos
    simp only [List.length_cons] at hpos
    unfold scan scanP
    have hlt : ctLtU32 pos 10 = if pos < 10 then 1 else 0 := lt_small pos 10 (by omega) (by omega)
    have hnzv := isNonZero_u8 v
    have hnzm : ctIsNonZeroU32 ms = if ms = 0 then 0 else 1 := isNonZero_small ms (by omega)
    have he' : e = 0 ∨ e = 1 := by omega
    simp only [hlt, hnzv, hnzm]
    have hE : (e ||| ((if pos < 10 then 1 else 0) &&& (1 ^^^ (if v = 0 then 0 else 1)))) =
        (if pos < 10 ∧ v = 0 then 1 else e) := by
      by_cases h1 : pos < 10 <;> by_cases h2 : v = 0 <;> rcases he' with h3 | h3 <;> simp [h1, h2, h3]
    have hM : ((ms &&& (0xffff ^^^ ctLsbPropU16 ((1 ^^^ (if pos < 10 then 1 else 0)) &&& (1 ^^^ (if v = 0 then 0 else 1))
          &&& (1 ^^^ (if ms = 0 then 0 else 1))))) |||
        ((pos + 1) &&& ctLsbPropU16 ((1 ^^^ (if pos < 10 then 1 else 0)) &&& (1 ^^^ (if v = 0 then 0 else 1))
          &&& (1 ^^^ (if ms = 0 then 0 else 1))))) =
        (if 10 ≤ pos ∧ v = 0 ∧ ms = 0 then pos + 1 else ms) := by
      by_cases h1 : pos < 10 <;> by_cases h2 : v = 0 <;> by_cases h3 : ms = 0
      all_goals simp only [h1, h2, h3, if_true, if_false]
      all_goals simp [ctLsbPropU16_spec, and_65535]
      all_goals (first | omega | (split <;> omega))
    rw [hE, hM]
    apply ih
    · split <;> omega
    · split <;> omega
    · omega

theorem scanP_err_sticky : ∀ (l : Bytes) (pos ms : Nat), (scanP pos 1 ms l).1 = 1 := by
  intro l
  induction l with
  | nil => intros; rfl
  | cons v rest ih =>
    intro pos ms
    unfold scanP
    have : (if pos < 10 ∧ v = 0 then 1 else 1) = 1 := by split <;> rfl
    rw [this]; apply ih

theorem scanP_err_le : ∀ (l : Bytes) (pos e ms : Nat), e ≤ 1 → (scanP pos e ms l).1 ≤ 1 := by
  intro l
  induction l with
  | nil => intro pos e ms h; exact h
  | cons v rest ih =>
    intro pos e ms h
    unfold scanP
    apply ih
    split <;> omega

theorem scanP_ms_le : ∀ (l : Bytes) (pos e ms : Nat), ms ≤ pos + l.length →
    (scanP pos e ms l).2 ≤ pos + l.length := by
  intro l
  induction l with
  | nil => intro pos e ms h; exact h
  | cons v rest ih =>
    intro pos e ms h
    unfold scanP
    simp only [List.length_cons] at h ⊢
    have := ih (pos + 1) (if pos < 10 ∧ v = 0 then 1 else e)
      (if 10 ≤ pos ∧ v = 0 ∧ ms = 0 then pos + 1 else ms) (by split <;> omega)
    omega

theorem scanP_done : ∀ (l : Bytes) (pos e ms : Nat), 10 ≤ pos → ms ≠ 0 → scanP pos e ms l = (e, ms) := by
  intro l
  induction l with
  | nil => intros; rfl
  | cons v rest ih =>
    intro pos e ms hp hms
    unfold scanP
    have h1 : (if pos < 10 ∧ v = 0 then 1 else e) = e := by
      have : ¬ (pos < 10 ∧ v = 0) := by omega
      simp [this]
    have h2 : (if 10 ≤ pos ∧ v = 0 ∧ ms = 0 then pos + 1 else ms) = ms := by
      have : ¬ (10 ≤ pos ∧ v = 0 ∧ ms = 0) := fun h => hms h.2.2
      simp [this]
    rw [h1, h2]
    exact ih (pos + 1) e ms (by omega) hms

theorem scanP_some : ∀ (l : Bytes) (pos s : Nat), sepAfter pos l = some s →
    scanP pos 0 0 l = (0, s) ∧ s ≠ 0 := by
  intro l
  induction l with
  | nil => intro pos s h; simp [sepAfter] at h
  | cons v rest ih =>
    intro pos s h
    unfold sepAfter at h
    unfold scanP
    by_cases hv : v = 0
    · by_cases hp : pos < 10
      · simp [hv, hp] at h
      · simp [hv, hp] at h
        subst h
        simp only [hv, hp, false_and, if_false]
        have : (10 ≤ pos ∧ True ∧ True) := ⟨by omega, trivial, trivial⟩
        simp only [this]
        exact ⟨scanP_done rest (pos + 1) 0 (pos + 1) (by omega) (by omega), by omega⟩
    · simp only [hv, if_false] at h
      simp only [hv, and_false, false_and, if_false]
      exact ih (pos + 1) s h

theorem scanP_none : ∀ (l : Bytes) (pos : Nat), sepAfter pos l = none →
    (scanP pos 0 0 l).1 = 1 ∨ (scanP pos 0 0 l).2 = 0 := by
  intro l
  induction l with
  | nil => intro pos _; right; rfl
  | cons v rest ih =>
    intro pos h
    unfold sepAfter at h
    unfold scanP
    by_cases hv : v = 0
    · by_cases hp : pos < 10
      · left
        simp only [hv, hp, and_self, if_true]
        exact scanP_err_sticky _ _ _
      · simp [hv, hp] at h
    · simp only [hv, if_false] at h
      simp only [hv, and_false, false_and, if_false]
      exact ih (pos + 1) h

theorem sepAfter_append : ∀ (ps : Bytes) (m : Bytes) (pos : Nat), (∀ b ∈ ps, b ≠ 0) →
    sepAfter pos (ps ++ 0 :: m) = if pos + ps.length < 10 then none else some (pos + ps.length + 1) := by
  intro ps
  induction ps with
  | nil => intro m pos _; simp [sepAfter]
  | cons v rest ih =>
    intro m pos h
    have hv : v ≠ 0 := h v (by simp)
    simp only [List.cons_append, sepAfter, hv, if_false, List.length_cons]
    rw [ih m (pos + 1) (fun b hb => h b (by simp [hb]))]
    have : pos + 1 + rest.length = pos + (rest.length + 1) := by omega
    rw [this]

theorem sepAfter_some : ∀ (l : Bytes) (pos s : Nat), sepAfter pos l = some s →
    ∃ ps m, l = ps ++ 0 :: m ∧ (∀ b ∈ ps, b ≠ 0) ∧ 10 ≤ pos + ps.length ∧ s = pos + ps.length + 1 := by
  intro l
  induction l with
  | nil => intro pos s h; simp [sepAfter] at h
  | cons v rest ih =>
    intro pos s h
    unfold sepAfter at h
    by_cases hv : v = 0
    · by_cases hp : pos < 10
      · simp [hv, hp] at h
      · simp [hv, hp] at h
        refine ⟨[], rest, by simp [hv], by simp, by simp; omega, by simp; omega⟩
    · simp only [hv, if_false] at h
      obtain ⟨ps, m, h1, h2, h3, h4⟩ := ih (pos + 1) s h
      refine ⟨v :: ps, m, by simp [h1], ?_, by simp; omega, by simp; omega⟩
      intro b hb
      rcases List.mem_cons.mp hb with rfl | hb
      · exact hv
      · exact h2 b hb

theorem wellFormed_iff_parse (em : Bytes) : WellFormedEM em ↔ (parseEM em).isSome = true := by
  constructor
  · rintro ⟨ps, m, rfl, h8, hnz⟩
    simp only [parseEM, and_self, if_true]
    rw [sepAfter_append ps m 2 hnz]
    have : ¬ (2 + ps.length < 10) := by omega
    simp [this]
  · intro h
    match em, h with
    | [], h => simp [parseEM] at h
    | [_], h => simp [parseEM] at h
    | b0 :: b1 :: rest, h =>
      simp only [parseEM] at h
      by_cases hb : b0 = 0 ∧ b1 = 2
      · simp only [hb, and_self, if_true] at h
        obtain ⟨s, hs⟩ := Option.isSome_iff_exists.mp h
        obtain ⟨ps, m, h1, h2, h3, _⟩ := sepAfter_some rest 2 s hs
        exact ⟨ps, m, by rw [hb.1, hb.2, h1], by omega, h2⟩
      · simp [hb] at h

theorem parse_of_wellFormed (ps m : Bytes) (h8 : 8 ≤ ps.length) (hnz : ∀ b ∈ ps, b ≠ 0) :
    parseEM (0 :: 2 :: (ps ++ 0 :: m)) = some (ps.length + 3) := by
  simp only [parseEM, and_self, if_true]
  rw [sepAfter_append ps m 2 hnz]
  have : ¬ (2 + ps.length < 10) := by omega
  simp [this]; omega


/-! ### the PRF loop terminates and yields exactly the requested number of bytes -/

theorem prfLoop_some (hmac : Bytes → Bytes → Bytes) (key label : Bytes) (outLen need : Nat)
    (h32 : ∀ k m, (hmac k m).length = 32) :
    ∀ (fuel it : Nat) (out : Bytes), need ≤ out.length + fuel →
      ∃ o, prfLoop hmac key label outLen need fuel it out = some o ∧ need ≤ o.length := by
  intro fuel
  induction fuel with
  | zero =>
    intro it out h
    refine ⟨out, ?_, by omega⟩
    have : ¬ out.length < need := by omega
    simp [prfLoop, this]
  | succ f ih =>
    intro it out h
    unfold prfLoop
    by_cases hl : out.length < need
    · simp only [hl, if_true]
      apply ih
      simp only [List.length_append, h32]
      omega
    · simp only [hl, if_false]
      exact ⟨out, rfl, by omega⟩

theorem decPrf_ok (hmac : Bytes → Bytes → Bytes) (key label : Bytes) (m : Nat)
    (h32 : ∀ k x, (hmac k x).length = 32) :
    ∃ o, decPrf hmac key label (m * 8) = .ok o ∧ o.length = m := by
  unfold decPrf
  have h1 : m * 8 % 8 = 0 := by omega
  have h2 : m * 8 / 8 = m := by omega
  obtain ⟨o, ho, hlen⟩ := prfLoop_some hmac key label (m * 8) m h32 m 0 [] (by simp)
  simp only [h1, h2, ne_eq, not_true_eq_false, if_false, ho]
  exact ⟨o.take m, rfl, by simp; omega⟩

/-! ### the masked byte selection -/

theorem selectBytes_zero : ∀ (xs ys : Bytes), xs.length ≤ ys.length → selectBytes 0 xs ys = xs := by
  intro xs
  induction xs with
  | nil => intro ys _; simp [selectBytes]
  | cons x xs ih =>
    intro ys h
    match ys, h with
    | [], h => simp at h
    | y :: ys, h =>
      have ih' := ih ys (by simpa using h)
      unfold selectBytes at ih' ⊢
      simp only [List.zipWith_cons_cons, ih']
      have e1 : (0xff ^^^ 0 : Nat) = 255 := by decide
      have := x.toNat_lt
      rw [e1, and_255, Nat.and_zero, Nat.or_zero, Nat.mod_eq_of_lt (by omega), UInt8.ofNat_toNat]

theorem selectBytes_ff : ∀ (xs ys : Bytes), ys.length ≤ xs.length → selectBytes 255 xs ys = ys := by
  intro xs
  induction xs with
  | nil => intro ys h; have : ys = [] := List.length_eq_zero_iff.mp (by simpa using h); simp [selectBytes, this]
  | cons x xs ih =>
    intro ys h
    match ys, h with
    | [], _ => simp [selectBytes]
    | y :: ys, h =>
      have ih' := ih ys (by simpa using h)
      unfold selectBytes at ih' ⊢
      simp only [List.zipWith_cons_cons, ih']
      have e1 : (0xff ^^^ 255 : Nat) = 0 := by decide
      have := y.toNat_lt
      rw [e1, and_255, Nat.and_zero, Nat.zero_or, Nat.mod_eq_of_lt (by omega), UInt8.ofNat_toNat]

/-! ### the synthetic length -/

theorem synthStep_eq (maxSep lm synth : Nat) (hl : UInt8 × UInt8) (hm : maxSep < 2^32) (hs : synth < 65536) :
    synthStep maxSep lm synth hl =
      let cand := ((hl.1.toNat <<< 8) + hl.2.toNat) &&& lm
      if cand < maxSep then cand else synth := by
  unfold synthStep
  have h1 := hl.1.toNat_lt
  have h2 := hl.2.toNat_lt
  have hx : (hl.1.toNat <<< 8) + hl.2.toNat < 65536 := by
    rw [Nat.shiftLeft_eq]; omega
  have hc : ((hl.1.toNat <<< 8) + hl.2.toNat) &&& lm < 65536 :=
    Nat.lt_of_le_of_lt Nat.and_le_left hx
  simp only
  generalize ((hl.1.toNat <<< 8) + hl.2.toNat) &&& lm = cand at hc ⊢
  rw [lt_small cand maxSep (by omega) hm, ctLsbPropU16_spec]
  by_cases h : cand < maxSep
  · simp [h, and_65535]; omega
  · simp [h, and_65535]; omega

theorem synthLen_lt (maxSep : Nat) (lr : Bytes) (h0 : 0 < maxSep) (hm : maxSep < 65536) :
    synthLen maxSep lr < maxSep := by
  unfold synthLen
  simp only
  generalize (1 <<< numBits maxSep) - 1 = lm
  suffices h : ∀ (l : List (UInt8 × UInt8)) (acc : Nat), acc < maxSep →
      l.foldl (synthStep maxSep lm) acc < maxSep from h _ 0 h0
  intro l
  induction l with
  | nil => intro acc h; exact h
  | cons p rest ih =>
    intro acc h
    simp only [List.foldl_cons]
    apply ih
    rw [synthStep_eq maxSep lm acc p (by omega) (by omega)]
    simp only
    split <;> omega




theorem u8_toNat_eq_two (v : UInt8) : v.toNat = 2 ↔ v = 2 := by
  constructor
  · intro h; exact UInt8.toNat_inj.mp (by simpa using h)
  · intro h; subst h; rfl

theorem neq2_u8 (v : UInt8) : ctNeqU32 v.toNat 0x02 = if v = 2 then 0 else 1 := by
  rw [ctNeqU32_spec]
  have := v.toNat_lt
  have h : v.toNat % 2^32 = v.toNat := Nat.mod_eq_of_lt (by omega)
  rw [h]
  by_cases hv : v = 2
  · simp [hv]
  · have : v.toNat ≠ 2 := fun h => hv ((u8_toNat_eq_two v).mp h)
    simp [hv]; omega

/-- outcome of the whole padding inspection: final `error_detected` and `msg_start` -/
theorem scan_outcome (b0 b1 : UInt8) (rest : Bytes) (hlen : 2 + rest.length < 65536) :
    let e1 := (0 ||| ctIsNonZeroU32 b0.toNat) ||| ctNeqU32 b1.toNat 0x02
    let r := scan 2 e1 0 rest
    let err := r.1 ||| (1 ^^^ ctIsNonZeroU32 r.2)
    match parseEM (b0 :: b1 :: rest) with
    | some s => err = 0 ∧ r.2 = s ∧ s ≤ 2 + rest.length
    | none => err = 1 := by
  intro e1 r err
  have he1 : e1 = if b0 = 0 ∧ b1 = 2 then 0 else 1 := by
    show (0 ||| ctIsNonZeroU32 b0.toNat) ||| ctNeqU32 b1.toNat 0x02 = _
    rw [isNonZero_u8, neq2_u8]
    by_cases h0 : b0 = 0 <;> by_cases h1 : b1 = 2 <;> simp [h0, h1]
  have he1le : e1 ≤ 1 := by rw [he1]; split <;> omega
  have hr : r = scanP 2 e1 0 rest := scan_eq_scanP rest 2 e1 0 he1le (by omega) hlen
  have hr1 : r.1 ≤ 1 := by rw [hr]; exact scanP_err_le rest 2 e1 0 he1le
  have hr2 : r.2 ≤ 2 + rest.length := by rw [hr]; exact scanP_ms_le rest 2 e1 0 (by omega)
  have hnz : ctIsNonZeroU32 r.2 = if r.2 = 0 then 0 else 1 := isNonZero_small r.2 (by omega)
  have herr : err = r.1 ||| (1 ^^^ (if r.2 = 0 then 0 else 1)) := by show r.1 ||| _ = _; rw [hnz]
  simp only [parseEM]
  by_cases hb : b0 = 0 ∧ b1 = 2
  · simp only [hb, and_self, if_true]
    have e0 : e1 = 0 := by rw [he1]; simp [hb]
    rw [e0] at hr
    cases hs : sepAfter 2 rest with
    | some s =>
      obtain ⟨h1, h2⟩ := scanP_some rest 2 s hs
      simp only
      rw [h1] at hr
      have hr1' : r.1 = 0 := by rw [hr]
      have hr2' : r.2 = s := by rw [hr]
      refine ⟨?_, hr2', by omega⟩
      rw [herr, hr1', hr2']; simp [h2]
    | none =>
      simp only
      rw [herr]
      rcases scanP_none rest 2 hs with h | h
      · rw [← hr] at h; rw [h]; split <;> decide
      · rw [← hr] at h; rw [h]
        have : r.1 = 0 ∨ r.1 = 1 := by omega
        rcases this with h' | h' <;> rw [h'] <;> decide
  · simp only [hb, if_false]
    have e0 : e1 = 1 := by rw [he1]; simp [hb]
    rw [e0] at hr
    have : r.1 = 1 := by rw [hr]; exact scanP_err_sticky rest 2 0
    rw [herr, this]; split <;> decide

/-- Everything `decrypt` does after the private-key operation, characterised: the message
    after the separator when the encoded message parses, otherwise the synthetic message,
    which is computed from the key-derivation key alone. -/
theorem decryptTail_eq (K : Key) (P : Prims) (enc dec : Bytes)
    (h32 : ∀ k m, (P.hmac k m).length = 32) (hk : 11 ≤ K.k) (hk16 : K.k < 65536)
    (hdec : dec.length = K.k) :
    decryptTail K P enc dec =
      match parseEM dec with
      | some s => .ok (dec.drop s)
      | none => synthMessage P.hmac K.k (kdk K P enc) := by
  unfold decryptTail synthMessage
  obtain ⟨lr, hlr, _⟩ := decPrf_ok P.hmac (kdk K P enc) lengthLabel 256 h32
  obtain ⟨mr, hmr, hmrlen⟩ := decPrf_ok P.hmac (kdk K P enc) messageLabel K.k h32
  have e256 : 128 * 2 * 8 = 256 * 8 := by decide
  simp only [e256, hlr, hmr, bind, Except.bind]
  have hsl : synthLen (K.k - 10) lr < K.k - 10 := synthLen_lt (K.k - 10) lr (by omega) (by omega)
  match dec, hdec with
  | [], h => simp at h; omega
  | [_], h => simp at h; omega
  | b0 :: b1 :: rest, h =>
    have hlen : 2 + rest.length < 65536 := by simp at h; omega
    have hk2 : 2 + rest.length = K.k := by simp at h; omega
    have ho := scan_outcome b0 b1 rest hlen
    simp only at ho ⊢
    generalize scan 2 (0 ||| ctIsNonZeroU32 b0.toNat ||| ctNeqU32 b1.toNat 2) 0 rest = r at ho ⊢
    obtain ⟨e, ms⟩ := r
    simp only at ho ⊢
    cases hp : parseEM (b0 :: b1 :: rest) with
    | some s =>
      rw [hp] at ho
      obtain ⟨h1, h2, h3⟩ := ho
      simp only at h1 h2 ⊢
      rw [h1, h2]
      have m16 : ctLsbPropU16 0 = 0 := by decide
      have m8 : ctLsbPropU8 0 = 0 := by decide
      rw [m16, m8, sel16_zero s _ (by omega)]
      rw [selectBytes_zero _ _ (by simp [hmrlen]; omega)]
    | none =>
      rw [hp] at ho
      simp only at ho ⊢
      rw [ho]
      have m16 : ctLsbPropU16 1 = 65535 := by decide
      have m8 : ctLsbPropU8 1 = 255 := by decide
      rw [m16, m8, sel16_ones _ _ (by omega)]
      rw [selectBytes_ff _ _ (by simp [hmrlen]; omega)]


theorem beEncode_length : ∀ (n x : Nat), (beEncode n x).length = n := by
  intro n
  induction n with
  | zero => intro x; rfl
  | succ n ih => intro x; simp [beEncode, ih]

/-- the synthetic message exists for every key-derivation key and is at most `k - 11` long -/
theorem synthMessage_ok (hmac : Bytes → Bytes → Bytes) (k : Nat) (kdk : Bytes)
    (h32 : ∀ k m, (hmac k m).length = 32) (hk : 11 ≤ k) (hk16 : k < 65536) :
    ∃ lr mr, decPrf hmac kdk lengthLabel (128 * 2 * 8) = .ok lr ∧
      decPrf hmac kdk messageLabel (k * 8) = .ok mr ∧
      synthMessage hmac k kdk = .ok (mr.drop (k - synthLen (k - 10) lr)) ∧
      (mr.drop (k - synthLen (k - 10) lr)).length = synthLen (k - 10) lr ∧
      synthLen (k - 10) lr ≤ k - 11 := by
  obtain ⟨lr, hlr, _⟩ := decPrf_ok hmac kdk lengthLabel 256 h32
  obtain ⟨mr, hmr, hmrlen⟩ := decPrf_ok hmac kdk messageLabel k h32
  have e256 : 128 * 2 * 8 = 256 * 8 := by decide
  have hsl : synthLen (k - 10) lr < k - 10 := synthLen_lt (k - 10) lr (by omega) (by omega)
  refine ⟨lr, mr, by rw [e256]; exact hlr, hmr, ?_, by simp [hmrlen]; omega, by omega⟩
  unfold synthMessage
  simp only [e256, hlr, hmr, bind, Except.bind]

/-! ### a concrete instance for the non-vacuity examples of Props/C11 -/

/-! the instance: a 16-byte modulus, identity "hash",
    constant 32-byte "HMAC", and a private-key operation that returns a chosen EM -/
def exKey : Key := { n := 2 ^ 128 - 159, d := 65537 }
def exPrims (emNat : Nat) : Prims :=
  { sha256 := id, hmac := fun _ m => List.replicate 31 7 ++ [UInt8.ofNat m.length], privInt := fun _ => emNat }
def exCipher : Bytes := beEncode 16 12345
/-- 00 02 | 01 02 03 04 05 06 07 08 | 00 | aa bb cc dd ee -/
def exGoodEM : Nat := beDecode [0, 2, 1, 2, 3, 4, 5, 6, 7, 8, 0, 0xaa, 0xbb, 0xcc, 0xdd, 0xee]
/-- 00 02 | 01 02 03 00 … : a zero among the first eight padding bytes -/
def exBadEM : Nat := beDecode [0, 2, 1, 2, 3, 0, 5, 6, 7, 8, 0, 0xaa, 0xbb, 0xcc, 0xdd, 0xee]
/-- 00 01 … : wrong block type -/
def exBadEM2 : Nat := beDecode [0, 1, 1, 2, 3, 4, 5, 6, 7, 8, 0, 0xaa, 0xbb, 0xcc, 0xdd, 0xee]

theorem exKey_k : exKey.k = 16 := by decide
theorem exPrims_h32 (e : Nat) : ∀ k m, ((exPrims e).hmac k m).length = 32 := by
  intro k m; simp [exPrims]
theorem exCipher_valid : PubliclyValid exKey exCipher := by
  constructor
  · rw [exKey_k]; decide
  · decide


end Tls.RsaDec
