import TlsModel.Transcript
/-
  Helper lemmas for C04: the transcript encoding is injective on well-formed message lists, and
  structural facts about endpoint runs (`runFrom`) of TlsModel/Transcript.lean.
-/
namespace Tls.Transcript

theorem be24_length (n : Nat) : (be24 n).length = 3 := rfl

theorem be24_inj {n m : Nat} (hn : n < 2 ^ 24) (hm : m < 2 ^ 24) (h : be24 n = be24 m) : n = m := by
  unfold be24 at h
  simp only [List.cons.injEq, and_true] at h
  obtain ⟨h1, h2, h3⟩ := h
  have e1 := congrArg UInt8.toNat h1
  have e2 := congrArg UInt8.toNat h2
  have e3 := congrArg UInt8.toNat h3
  simp only [UInt8.toNat_ofNat'] at e1 e2 e3
  omega

def AllWF (ms : List Msg) : Prop := ∀ m ∈ ms, m.WF

/-- a message is self-delimiting: from `enc m ++ rest` both parts are recovered -/
theorem enc_append_inj {m1 m2 : Msg} {r1 r2 : Bytes} (h1 : m1.WF) (h2 : m2.WF)
    (h : m1.enc ++ r1 = m2.enc ++ r2) : m1 = m2 ∧ r1 = r2 := by
  unfold Msg.enc at h
  simp only [List.cons_append, List.cons.injEq, List.append_assoc] at h
  obtain ⟨ht, hrest⟩ := h
  have hl : be24 m1.body.length = be24 m2.body.length := by
    have := congrArg (List.take 3) hrest
    rw [List.take_left' (be24_length _), List.take_left' (be24_length _)] at this
    exact this
  have hlen : m1.body.length = m2.body.length := be24_inj h1 h2 hl
  rw [hl] at hrest
  have hrest' := List.append_cancel_left hrest
  have hb : m1.body = m2.body := by
    have := congrArg (List.take m1.body.length) hrest'
    rw [List.take_left' rfl, hlen, List.take_left' rfl] at this
    exact this
  rw [hb] at hrest'
  refine ⟨?_, List.append_cancel_left hrest'⟩
  cases m1; cases m2; simp_all

theorem enc_ne_nil (m : Msg) : m.enc ≠ [] := by simp [Msg.enc]

theorem encAll_inj : ∀ {a b : List Msg}, AllWF a → AllWF b → encAll a = encAll b → a = b
  | [], [], _, _, _ => rfl
  | [], m :: _, _, _, h => by simp [encAll, Msg.enc] at h
  | m :: _, [], _, _, h => by simp [encAll, Msg.enc] at h
  | m1 :: r1, m2 :: r2, ha, hb, h => by
    simp only [encAll] at h
    have h1 : m1.WF := ha m1 (by simp)
    have h2 : m2.WF := hb m2 (by simp)
    obtain ⟨hm, hr⟩ := enc_append_inj h1 h2 h
    have := encAll_inj (a := r1) (b := r2) (fun m hm => ha m (by simp [hm])) (fun m hm => hb m (by simp [hm])) hr
    rw [hm, this]

theorem encAll_append (a b : List Msg) : encAll (a ++ b) = encAll a ++ encAll b := by
  induction a with
  | nil => rfl
  | cons m r ih => simp [encAll, ih]

/-! ## runs -/

theorem runFrom_append (P : Prims) (me : Side) (B : Beh) (a b : List Ev) (e : EP) :
    runFrom P me B e (a ++ b) =
      (match runFrom P me B e a with
       | .ok e' => runFrom P me B e' b
       | .error x => .error x) := by
  induction a generalizing e with
  | nil => simp [runFrom]
  | cons ev r ih =>
    simp only [List.cons_append, runFrom]
    cases step P me B e ev with
    | error x => rfl
    | ok e' => exact ih e'

theorem runFrom_append_ok {P : Prims} {me : Side} {B : Beh} {a b : List Ev} {e e' : EP}
    (h : runFrom P me B e (a ++ b) = .ok e') :
    ∃ e1, runFrom P me B e a = .ok e1 ∧ runFrom P me B e1 b = .ok e' := by
  rw [runFrom_append] at h
  cases h1 : runFrom P me B e a with
  | error x => rw [h1] at h; cases h
  | ok e1 => rw [h1] at h; exact ⟨e1, rfl, h⟩

theorem runFrom_single {P : Prims} {me : Side} {B : Beh} {ev : Ev} {e e' : EP}
    (h : runFrom P me B e [ev] = .ok e') : step P me B e ev = .ok e' := by
  simp only [runFrom] at h
  cases hs : step P me B e ev with
  | error x => rw [hs] at h; cases h
  | ok e1 => rw [hs] at h; simpa [runFrom] using h

/-! what a successful step does to the state -/

theorem step_msg {P : Prims} {me : Side} {B : Beh} {e e' : EP} {s : Side} {k : Kind}
    (h : step P me B e (.msg s k) = .ok e') :
    ∃ m : Msg, m.htype = k.htype ∧ m.WF ∧ e'.tr = e.tr ++ [m] ∧
      e'.pre = e.pre ∧ e'.computed = e.computed ∧ e'.accepted = e.accepted := by
  unfold step at h
  by_cases hs : s = me
  · simp only [hs, if_true] at h
    split at h
    · rename_i hwf
      cases h
      exact ⟨_, rfl, hwf, rfl, rfl, rfl, rfl⟩
    · cases h
  · simp only [hs, if_false] at h
    split at h
    · cases h
    · cases h
    · rename_i m rest hin
      split at h
      · cases h
      · rename_i ht
        split at h
        · cases h
        · rename_i hwf
          split at h
          · cases h
          · cases h
            exact ⟨m, by simpa using ht, by simpa using hwf, rfl, rfl, rfl, rfl⟩

theorem step_ccs {P : Prims} {me : Side} {B : Beh} {e e' : EP} {s : Side}
    (h : step P me B e (.ccs s) = .ok e') :
    e'.tr = e.tr ∧ e'.pre = e.pre ∧ e'.computed = e.computed ∧ e'.accepted = e.accepted := by
  unfold step at h
  by_cases hs : s = me
  · simp only [hs, if_true] at h
    cases h
    exact ⟨rfl, rfl, rfl, rfl⟩
  · simp only [hs, if_false] at h
    split at h
    · cases h
    · cases h; exact ⟨rfl, rfl, rfl, rfl⟩
    · cases h

theorem step_fin_send {P : Prims} {me : Side} {B : Beh} {e e' : EP}
    (h : step P me B e (.fin me) = .ok e') :
    (⟨Kind.finished.htype, (mkFin P me e.tr (B.secret e.tr)).vd⟩ : Msg).WF ∧
    e'.tr = e.tr ++ [⟨Kind.finished.htype, (mkFin P me e.tr (B.secret e.tr)).vd⟩] ∧
    e'.pre = e.pre ∧ e'.computed = e.computed ++ [mkFin P me e.tr (B.secret e.tr)] ∧
    e'.accepted = e.accepted := by
  unfold step at h
  simp only [if_true] at h
  split at h
  · rename_i hwf
    cases h
    exact ⟨hwf, rfl, rfl, rfl, rfl⟩
  · cases h

theorem step_fin_recv {P : Prims} {me : Side} {B : Beh} {e e' : EP} {s : Side} (hne : s ≠ me)
    (h : step P me B e (.fin s) = .ok e') :
    (⟨Kind.finished.htype, (mkFin P s e.tr (B.secret e.tr)).vd⟩ : Msg).WF ∧
    e'.tr = e.tr ++ [⟨Kind.finished.htype, (mkFin P s e.tr (B.secret e.tr)).vd⟩] ∧
    e'.pre = e.pre ∧ e'.computed = e.computed ∧
    e'.accepted = e.accepted ++ [mkFin P s e.tr (B.secret e.tr)] := by
  unfold step at h
  simp only [hne, if_false] at h
  split at h
  · cases h
  · cases h
  · rename_i m rest hin
    split at h
    · cases h
    · rename_i ht
      split at h
      · cases h
      · rename_i hwf
        split at h
        · rename_i hacc
          cases h
          have hb : m.body = (mkFin P s e.tr (B.secret e.tr)).vd := by
            simpa [finishedAccept, mkFin] using hacc
          have hm : m = ⟨Kind.finished.htype, (mkFin P s e.tr (B.secret e.tr)).vd⟩ := by
            cases m with
            | mk t b =>
              simp only [Msg.mk.injEq]
              exact ⟨by simpa using ht, hb⟩
          refine ⟨?_, ?_, rfl, rfl, rfl⟩
          · rw [← hm]; simpa using hwf
          · simp only [hm]
        · cases h

theorem step_restart {P : Prims} {me : Side} {B : Beh} {e e' : EP}
    (h : step P me B e .restart = .ok e') :
    (⟨Kind.messageHash.htype, P.H (encAll e.tr)⟩ : Msg).WF ∧
    e'.tr = [⟨Kind.messageHash.htype, P.H (encAll e.tr)⟩] ∧ e'.pre = e.tr ∧
    e'.computed = e.computed ∧ e'.accepted = e.accepted := by
  unfold step at h
  simp only at h
  split at h
  · rename_i hwf
    cases h
    exact ⟨hwf, rfl, rfl, rfl, rfl⟩
  · cases h

/-! ## invariants along a run -/

theorem allWF_append {a : List Msg} {m : Msg} (ha : AllWF a) (hm : m.WF) : AllWF (a ++ [m]) := by
  intro x hx
  rcases List.mem_append.mp hx with h | h
  · exact ha x h
  · have : x = m := by simpa using h
    rw [this]; exact hm

theorem side_ne_iff {s me : Side} : s ≠ me ↔ s = me.other := by
  cases s <;> cases me <;> simp [Side.other]

/-- effect of one successful step on transcript well-formedness, shape and Finished records -/
theorem step_effect {P : Prims} {me : Side} {B : Beh} {e e' : EP} {ev : Ev}
    (h : step P me B e ev = .ok e') (hwf : AllWF e.tr) :
    AllWF e'.tr ∧ e'.tr.map Msg.htype = shapeStep (e.tr.map Msg.htype) ev ∧
    e'.computed = e.computed ++ (if isFin me ev then [mkFin P me e.tr (B.secret e.tr)] else []) ∧
    e'.accepted = e.accepted ++
      (if isFin me.other ev then [mkFin P me.other e.tr (B.secret e.tr)] else []) := by
  cases ev with
  | msg s k =>
    obtain ⟨m, ht, hm, htr, _, hc, ha⟩ := step_msg h
    refine ⟨?_, ?_, by simp [isFin, hc], by simp [isFin, ha]⟩
    · rw [htr]; exact allWF_append hwf hm
    · rw [htr]; simp [shapeStep, ht]
  | ccs s =>
    obtain ⟨htr, _, hc, ha⟩ := step_ccs h
    refine ⟨by rw [htr]; exact hwf, by rw [htr]; rfl, by simp [isFin, hc], by simp [isFin, ha]⟩
  | fin s =>
    by_cases hs : s = me
    · subst hs
      obtain ⟨hm, htr, _, hc, ha⟩ := step_fin_send h
      have hno : (s == s.other) = false := by cases s <;> rfl
      refine ⟨?_, ?_, by simp [isFin, hc], by simp [isFin, ha, hno]⟩
      · rw [htr]; exact allWF_append hwf hm
      · rw [htr]; simp [shapeStep]
    · obtain ⟨hm, htr, _, hc, ha⟩ := step_fin_recv hs h
      have hso : s = me.other := side_ne_iff.mp hs
      have hno : (s == me) = false := by simpa using hs
      refine ⟨?_, ?_, by simp [isFin, hc, hno], ?_⟩
      · rw [htr]; exact allWF_append hwf hm
      · rw [htr]; simp [shapeStep]
      · rw [ha]; simp [isFin, hso]
  | restart =>
    obtain ⟨hm, htr, _, hc, ha⟩ := step_restart h
    refine ⟨?_, by rw [htr]; rfl, by simp [isFin, hc], by simp [isFin, ha]⟩
    rw [htr]
    intro x hx
    have hx' : x = (⟨Kind.messageHash.htype, P.H (encAll e.tr)⟩ : Msg) := by simpa using hx
    rw [hx']; exact hm

theorem runFrom_effect {P : Prims} {me : Side} {B : Beh} {script : List Ev} {e e' : EP}
    (h : runFrom P me B e script = .ok e') (hwf : AllWF e.tr) :
    AllWF e'.tr ∧ e'.tr.map Msg.htype = shapeOf script (e.tr.map Msg.htype) ∧
    (noFin me script = true → e'.computed = e.computed) ∧
    (noFin me.other script = true → e'.accepted = e.accepted) := by
  induction script generalizing e with
  | nil =>
    simp only [runFrom] at h
    cases h
    exact ⟨hwf, rfl, fun _ => rfl, fun _ => rfl⟩
  | cons ev r ih =>
    simp only [runFrom] at h
    cases hs : step P me B e ev with
    | error x => rw [hs] at h; cases h
    | ok e1 =>
      rw [hs] at h
      obtain ⟨hwf1, hsh1, hc1, ha1⟩ := step_effect hs hwf
      obtain ⟨hwf', hsh', hc', ha'⟩ := ih h hwf1
      refine ⟨hwf', ?_, ?_, ?_⟩
      · rw [hsh', hsh1]; rfl
      · intro hn
        simp only [noFin, List.all_cons, Bool.and_eq_true, Bool.not_eq_true'] at hn
        rw [hc' (by simpa [noFin] using hn.2), hc1, hn.1]; simp
      · intro hn
        simp only [noFin, List.all_cons, Bool.and_eq_true, Bool.not_eq_true'] at hn
        rw [ha' (by simpa [noFin] using hn.2), ha1, hn.1]; simp

theorem splitAtFin_spec {z : Side} : ∀ {l a b : List Ev}, splitAtFin z l = some (a, b) →
    l = a ++ .fin z :: b ∧ noFin z a = true
  | [], _, _, h => by simp [splitAtFin] at h
  | ev :: r, a, b, h => by
    unfold splitAtFin at h
    by_cases hf : isFin z ev = true
    · simp only [hf, if_true, Option.some.injEq, Prod.mk.injEq] at h
      obtain ⟨ha, hb⟩ := h
      subst ha; subst hb
      cases ev with
      | fin s =>
        have : s = z := by simpa [isFin] using hf
        subst this
        exact ⟨rfl, rfl⟩
      | msg _ _ => simp [isFin] at hf
      | ccs _ => simp [isFin] at hf
      | restart => simp [isFin] at hf
    · simp only [hf] at h
      cases hr : splitAtFin z r with
      | none => rw [hr] at h; simp at h
      | some ab =>
        obtain ⟨a', b'⟩ := ab
        rw [hr] at h
        simp only [Bool.false_eq_true, if_false, Option.some.injEq, Prod.mk.injEq] at h
        obtain ⟨ha, hb⟩ := h
        subst ha; subst hb
        obtain ⟨hl, hn⟩ := splitAtFin_spec hr
        refine ⟨by rw [hl]; rfl, ?_⟩
        simp only [noFin, List.all_cons, Bool.and_eq_true, Bool.not_eq_true']
        exact ⟨by simpa using hf, by simpa [noFin] using hn⟩

theorem mkFin_vd (P : Prims) (s : Side) (tr : List Msg) (k : Bytes) :
    (mkFin P s tr k).vd = P.outer (mkFin P s tr k).key (mkFin P s tr k).sender (mkFin P s tr k).digest := rfl

/-- state of an endpoint at the unique Finished of direction `z` in its script -/
structure AtFin (P : Prims) (me : Side) (B : Beh) (z : Side) (input : List Wire)
    (a b : List Ev) (e : EP) : Prop where
  ex : ∃ e1 e2, runFrom P me B { input := input } a = .ok e1 ∧ step P me B e1 (.fin z) = .ok e2 ∧
    runFrom P me B e2 b = .ok e ∧ AllWF e1.tr ∧ e1.tr.map Msg.htype = shapeOf a [] ∧
    e2.tr = e1.tr ++ [⟨Kind.finished.htype, (mkFin P z e1.tr (B.secret e1.tr)).vd⟩] ∧
    (if z = me then e.computed = [mkFin P z e1.tr (B.secret e1.tr)]
     else e.accepted = [mkFin P z e1.tr (B.secret e1.tr)])

theorem atFin_of_run {P : Prims} {me : Side} {B : Beh} {z : Side} {input : List Wire}
    {script a b : List Ev} {e : EP}
    (hsplit : splitAtFin z script = some (a, b)) (hb : noFin z b = true)
    (h : runSide P me B script input = .ok e) : AtFin P me B z input a b e := by
  obtain ⟨hl, hna⟩ := splitAtFin_spec hsplit
  unfold runSide at h
  rw [hl] at h
  obtain ⟨e1, h1, h2⟩ := runFrom_append_ok h
  have h2' : runFrom P me B e1 ([.fin z] ++ b) = .ok e := h2
  obtain ⟨e2, h3, h4⟩ := runFrom_append_ok h2'
  have hstep := runFrom_single h3
  have hwf0 : AllWF ({ input := input } : EP).tr := by intro x hx; cases hx
  obtain ⟨hwf1, hsh1, hc1, ha1⟩ := runFrom_effect h1 hwf0
  obtain ⟨hwf2, _, hc2, ha2⟩ := step_effect hstep hwf1
  obtain ⟨_, _, hc3, ha3⟩ := runFrom_effect h4 hwf2
  refine ⟨e1, e2, h1, hstep, h4, hwf1, hsh1, ?_, ?_⟩
  · by_cases hz : z = me
    · subst hz; exact (step_fin_send hstep).2.1
    · exact (step_fin_recv hz hstep).2.1
  · by_cases hz : z = me
    · subst hz
      simp only [if_true]
      rw [hc3 hb, hc2, hc1 hna]
      simp [isFin]
    · simp only [hz, if_false]
      have hzo : z = me.other := side_ne_iff.mp hz
      rw [← hzo] at ha1 ha2 ha3
      rw [ha3 hb, ha2, ha1 hna]
      simp [isFin, hzo]

/-- The two endpoints' unique Finished of direction `z` are matched: either the transcripts at
    that point (and the keys) are equal, or a named bad event happened. -/
theorem matched_fin {P : Prims} {z : Side} {Bz Br : Beh} {inz inr : List Wire}
    {az bz ar br : List Ev} {x r : EP}
    (hx : AtFin P z Bz z inz az bz x) (hr : AtFin P z.other Br z inr ar br r) :
    (∃ x2 r2 rx rr, runFrom P z Bz x2 bz = .ok x ∧ runFrom P z.other Br r2 br = .ok r ∧
        x2.tr = r2.tr ∧ shapeOf az [] = shapeOf ar [] ∧
        x.computed = [rx] ∧ r.accepted = [rr] ∧ rx = rr ∧ rx.sender = z) ∨
    HashCollision P x r ∨ FinishedForgery x r := by
  obtain ⟨x1, x2, hx1, _, hx3, hxwf, hxsh, hxtr, hxc⟩ := hx.ex
  obtain ⟨r1, r2, hr1, _, hr3, hrwf, hrsh, hrtr, hra⟩ := hr.ex
  simp only [if_true] at hxc
  have hne : ¬ z = z.other := by cases z <;> simp [Side.other]
  simp only [hne, if_false] at hra
  by_cases hin : (mkFin P z x1.tr (Bz.secret x1.tr)).input = (mkFin P z r1.tr (Br.secret r1.tr)).input
  · -- the receiver's accepted input is the one the sender authenticated
    simp only [FinRec.input, mkFin, Prod.mk.injEq, true_and] at hin
    obtain ⟨hk, hd⟩ := hin
    by_cases htb : encAll x1.tr = encAll r1.tr
    · have htr : x1.tr = r1.tr := encAll_inj hxwf hrwf htb
      left
      refine ⟨x2, r2, _, _, hx3, hr3, ?_, ?_, hxc, hra, ?_, rfl⟩
      · rw [hxtr, hrtr, hk, htr]
      · rw [← hxsh, ← hrsh, htr]
      · rw [hk, htr]
    · right; left; left
      refine ⟨mkFin P z x1.tr (Bz.secret x1.tr), ?_, mkFin P z r1.tr (Br.secret r1.tr), ?_, hk, rfl, htb, ?_⟩
      · simp [EP.recs, hxc]
      · simp [EP.recs, hra]
      · simpa [mkFin] using hd
  · right; right; right
    refine ⟨mkFin P z r1.tr (Br.secret r1.tr), by simp [hra], ?_⟩
    intro r' hr'
    rw [hxc] at hr'
    have hr'' : r' = mkFin P z x1.tr (Bz.secret x1.tr) := by simpa using hr'
    rw [hr'']; exact hin

theorem hashCollision_symm {P : Prims} {a b : EP} (h : HashCollision P a b) : HashCollision P b a := by
  rcases h with ⟨ra, hra, rb, hrb, hk, hs, ht, hd⟩ | ⟨hne, heq⟩
  · exact Or.inl ⟨rb, hrb, ra, hra, hk.symm, hs.symm, fun h => ht h.symm, hd.symm⟩
  · exact Or.inr ⟨fun h => hne h.symm, heq.symm⟩

theorem finishedForgery_symm {a b : EP} (h : FinishedForgery a b) : FinishedForgery b a := by
  rcases h with h | h
  · exact Or.inr h
  · exact Or.inl h

end Tls.Transcript
