import TlsProofs.AuthHs
/-
  C05 helper lemmas, part 7: per-flavour "completed with identity ⇒ proof" statements.
-/
namespace Tls.Auth
open Gen

/-- what a TLS 1.3 client knows about a server chain it recorded (no delegated credential) -/
def ServerProof13 (C : Crypto) (chSig : List SchemeId) (chain : Chain) (tCV : Transcript) (prf : HashName)
    (cv : CertVerify) : Prop :=
  ∃ c rest sid, chain = c :: rest ∧ cv.scheme = some sid ∧ sid ∈ chSig ∧ compatible c 4 sid = true ∧
    Proved C c.key (tbs13 tagServer (digest C prf tCV)) cv.signature

theorem hsClient13_ok (C : Crypto) (s : Settings) (chSig : List SchemeId) (chain : Chain) (certBytes : Bytes)
    (tCV : Transcript) (prf : HashName) (cv : CertVerify) (sec : Bytes) (tFin : Transcript) (fin : Bytes)
    (h : (hsClient13 C s chSig chain certBytes [] tCV prf cv sec tFin fin).completed = true) :
    ∃ sess, (hsClient13 C s chSig chain certBytes [] tCV prf cv sec tFin fin).session = some sess ∧
      sess.serverCertChain = chain ∧ ServerProof13 C chSig chain tCV prf cv ∧
      fin = finished13 C prf sec tFin := by
  unfold hsClient13 at h ⊢
  cases hv : verifyCV13Client C s chSig chain certBytes [] tCV prf cv with
  | error e => simp [hv, Outcome.fail] at h
  | ok ch =>
    simp only [hv] at h ⊢
    by_cases hf : fin = finished13 C prf sec tFin
    · obtain ⟨h1, h2⟩ := verifyCV13Client_ok C s chSig chain certBytes tCV prf cv ch hv
      simp only [hf, ne_eq, not_true_eq_false, if_false, Outcome.done]
      exact ⟨_, rfl, h1, h2, trivial⟩
    · simp [hf, Outcome.fail] at h

/-- what a TLS 1.3 server knows about a client chain it recorded -/
def ClientProof13 (C : Crypto) (offered : List SchemeId) (chain : Chain) (tCV : Transcript) (prf : HashName)
    (cv : CertVerify) : Prop :=
  chain = [] ∨ ∃ c rest sid, chain = c :: rest ∧ cv.scheme = some sid ∧ sid ∈ offered ∧
    compatible c 4 sid = true ∧ Proved C c.key (tbs13 tagClient (digest C prf tCV)) cv.signature

theorem hsServer13_ok (C : Crypto) (s : Settings) (own : Chain) (configs : List PskConfig) (prf : HashName)
    (trCH : Transcript) (last : Bool) (psks : List (Bytes × Bytes)) (reqCert : Bool) (offered : List SchemeId)
    (chain : Chain) (tCV : Transcript) (ownScheme : Option SchemeId) (cv : CertVerify) (sec : Bytes)
    (tFin : Transcript) (fin : Bytes)
    (h : (hsServer13 C s own configs prf trCH last psks reqCert offered chain tCV ownScheme cv sec tFin fin).completed = true) :
    ∃ sess, (hsServer13 C s own configs prf trCH last psks reqCert offered chain tCV ownScheme cv sec tFin fin).session = some sess ∧
      fin = finished13 C prf sec tFin ∧
      (sess.clientCertChain ≠ [] → sess.clientCertChain = chain ∧ reqCert = true ∧
        ClientProof13 C offered chain tCV prf cv) ∧
      (∀ ident, sess.pskIdentity = some ident → ∃ (j : Nat) (cfg : PskConfig) (binder : Bytes), cfg ∈ configs ∧ cfg.identity = ident ∧
        cfg.hash = prf ∧ psks[j]? = some (ident, binder) ∧ binder = calcBinder C prf cfg.secret trCH true) := by
  unfold hsServer13 at h ⊢
  cases hp : pskSelect C configs prf trCH last psks 0 with
  | error e => simp [hp, Outcome.fail] at h
  | ok sel =>
    simp only [hp] at h ⊢
    cases sel with
    | some p =>
      obtain ⟨j, cfg⟩ := p
      simp only at h ⊢
      by_cases hf : fin = finished13 C prf sec tFin
      · simp only [hf, ne_eq, not_true_eq_false, if_false, Outcome.done]
        refine ⟨_, rfl, trivial, ?_, ?_⟩
        · intro hne; simp at hne
        · intro ident hid
          simp only [Option.map_some, Option.some.injEq] at hid
          obtain ⟨h1, h2, _, _, b, h5, h6⟩ := pskSelect_ok C configs prf trCH last psks 0 j cfg hp
          refine ⟨j, cfg, b, h1, hid, h2, ?_, h6⟩
          rw [← hid]; simpa using h5
      · simp [hf, Outcome.fail] at h
    | none =>
      simp only at h ⊢
      by_cases hr : reqCert = true
      · simp only [hr, if_true] at h ⊢
        cases hv : verifyCV13Server C s offered chain tCV prf ownScheme cv with
        | error e => simp [hv, Outcome.fail] at h
        | ok ch =>
          simp only [hv] at h ⊢
          by_cases hf : fin = finished13 C prf sec tFin
          · obtain ⟨h1, h2⟩ := verifyCV13Server_ok C s offered chain tCV prf ownScheme cv ch hv
            simp only [hf, ne_eq, not_true_eq_false, if_false, Outcome.done]
            refine ⟨_, rfl, trivial, ?_, ?_⟩
            · intro _; exact ⟨h1, trivial, h2⟩
            · intro ident hid; simp at hid
          · simp [hf, Outcome.fail] at h
      · simp only [hr, Bool.false_eq_true, if_false] at h ⊢
        by_cases hf : fin = finished13 C prf sec tFin
        · simp only [hf, ne_eq, not_true_eq_false, if_false, Outcome.done]
          refine ⟨_, rfl, trivial, ?_, ?_⟩
          · intro hne; simp at hne
          · intro ident hid; simp at hid
        · simp [hf, Outcome.fail] at h

/-- TLS ≤ 1.2 client -/
theorem hsClient12_ok (C : Crypto) (s : Settings) (ver : Nat) (fam : SuiteSig) (chain : Chain) (ske : Option SKE)
    (cr sr master : Bytes) (t : Transcript) (fin : Bytes) (own : Chain)
    (h : (hsClient12 C s ver fam chain ske cr sr master t fin own).completed = true) :
    ∃ sess, (hsClient12 C s ver fam chain ske cr sr master t fin own).session = some sess ∧
      sess.serverCertChain = chain ∧ fin = finished12 C ver master lblServerFinished t ∧
      ∃ c rest, chain = c :: rest ∧ ∀ k, ske = some k →
        Proved C c.key (cr ++ sr ++ k.params) k.signature ∧
        (¬ ver < 3 → compatible c 3 (k.hashAlg, k.signAlg) = true ∧
          ∀ l0, sigHashesToList s false [] 3 = .ok l0 → (k.hashAlg, k.signAlg) ∈ l0) := by
  unfold hsClient12 at h ⊢
  cases hv : verifySKE C s ver fam chain ske cr sr with
  | error e => simp [hv, Outcome.fail] at h
  | ok ch =>
    simp only [hv] at h ⊢
    by_cases hf : fin = finished12 C ver master lblServerFinished t
    · obtain ⟨h1, h2⟩ := verifySKE_ok C s ver fam chain ske cr sr ch hv
      simp only [hf, ne_eq, not_true_eq_false, if_false, Outcome.done]
      exact ⟨_, rfl, h1, trivial, h2⟩
    · simp [hf, Outcome.fail] at h

/-- TLS ≤ 1.2 server with client authentication -/
theorem hsServer12_ok (C : Crypto) (s : Settings) (ver : Nat) (own chain : Chain) (tCV : Transcript)
    (cv : CertVerify) (master : Bytes) (tFin : Transcript) (fin : Bytes) (hver : ver ≠ 4)
    (h : (hsServer12 C s ver own chain tCV cv master tFin fin).completed = true) :
    ∃ sess, (hsServer12 C s ver own chain tCV cv master tFin fin).session = some sess ∧
      sess.clientCertChain = chain ∧ fin = finished12 C ver master lblClientFinished tFin ∧
      (chain = [] ∨ ∃ c rest, chain = c :: rest ∧ Proved C c.key tCV cv.signature ∧
        (ver = 3 → ∃ sid, cv.scheme = some sid ∧ compatible c 3 sid = true ∧
          ∀ l0, sigHashesToList s false [] 3 = .ok l0 → sid ∈ l0)) := by
  unfold hsServer12 at h ⊢
  cases hv : verifyCV12 C s ver chain tCV cv with
  | error e => simp [hv, Outcome.fail] at h
  | ok ch =>
    simp only [hv] at h ⊢
    by_cases hf : fin = finished12 C ver master lblClientFinished tFin
    · obtain ⟨h1, h2⟩ := verifyCV12_ok C s ver chain tCV cv ch hver hv
      simp only [hf, ne_eq, not_true_eq_false, if_false, Outcome.done]
      exact ⟨_, rfl, h1, trivial, h2⟩
    · simp [hf, Outcome.fail] at h

/-- a failed TLS ≤ 1.2 server handshake may leave a session object carrying the client chain (it is
    written before the Finished check) but never a resumable one, and the connection is closed -/
theorem hsServer12_failed (C : Crypto) (s : Settings) (ver : Nat) (own chain : Chain) (tCV : Transcript)
    (cv : CertVerify) (master : Bytes) (tFin : Transcript) (fin : Bytes)
    (h : (hsServer12 C s ver own chain tCV cv master tFin fin).completed = false) :
    (hsServer12 C s ver own chain tCV cv master tFin fin).closed = true ∧
    ∀ sess, (hsServer12 C s ver own chain tCV cv master tFin fin).session = some sess → sess.resumable = false := by
  unfold hsServer12 at h ⊢
  cases hv : verifyCV12 C s ver chain tCV cv with
  | error e => simp [Outcome.fail]
  | ok ch =>
    simp only [hv] at h ⊢
    by_cases hf : fin = finished12 C ver master lblClientFinished tFin
    · simp [hf, Outcome.done] at h
    · simp only [hf, ne_eq, not_false_eq_true, if_true, Outcome.fail]
      refine ⟨trivial, ?_⟩
      intro sess hs
      simp at hs
      rw [← hs]

/-- SRP server -/
theorem hsServerSRP_ok (C : Crypto) (ver : Nat) (user : Bytes) (N v b A u : Nat) (masterOf : Nat → Bytes)
    (tFin : Transcript) (fin : Bytes)
    (h : (hsServerSRP C ver user N v b A u masterOf tFin fin).completed = true) :
    A % N ≠ 0 ∧ ∃ S, srpServerPremaster N v b A u = .ok S ∧
      fin = finished12 C ver (masterOf S) lblClientFinished tFin := by
  unfold hsServerSRP at h
  cases hs : srpServerPremaster N v b A u with
  | error e => simp [hs, Outcome.fail] at h
  | ok S =>
    simp only [hs] at h
    by_cases hf : fin = finished12 C ver (masterOf S) lblClientFinished tFin
    · refine ⟨?_, S, rfl, hf⟩
      intro hA
      simp [srpServerPremaster, hA] at hs
    · simp [hf, Outcome.fail] at h

/-! ### Checker -/

theorem wrapper_mismatch (fpf : Cert → Bytes) (fp : Bytes) (isClient : Bool) (o : Outcome) (sess : Session)
    (hs : o.session = some sess) (hbad : checkerOk fpf fp isClient sess = false) :
    (wrapper fpf (some fp) isClient o).completed = false ∧
    (o.completed = true → (wrapper fpf (some fp) isClient o).closed = true ∧
      ∃ s', (wrapper fpf (some fp) isClient o).session = some s' ∧ s'.resumable = false) := by
  unfold wrapper
  by_cases hc : o.completed = false
  · simp [hc]
  · have hc' : o.completed = true := by simpa using hc
    simp [hc', hs, hbad]

theorem wrapper_ok (fpf : Cert → Bytes) (fp : Bytes) (isClient : Bool) (o : Outcome)
    (h : (wrapper fpf (some fp) isClient o).completed = true) :
    o.completed = true ∧ ∀ sess, o.session = some sess → checkerOk fpf fp isClient sess = true := by
  unfold wrapper at h
  by_cases hc : o.completed = false
  · simp [hc] at h
  · have hc' : o.completed = true := by simpa using hc
    refine ⟨hc', ?_⟩
    intro sess hs
    simp only [hc', Bool.true_eq_false, if_false, hs] at h
    by_cases hk : checkerOk fpf fp isClient sess = true
    · exact hk
    · simp [hk] at h


/-- the checker passes exactly when the pin is the fingerprint of the end-entity certificate of
    the recorded peer chain -/
theorem checkerOk_iff (fpf : Cert → Bytes) (fp : Bytes) (isClient : Bool) (sess : Session) :
    checkerOk fpf fp isClient sess = true ↔
      ∃ c rest, (if isClient then sess.serverCertChain else sess.clientCertChain) = c :: rest ∧ fpf c = fp := by
  unfold checkerOk
  cases h : (if isClient = true then sess.serverCertChain else sess.clientCertChain) with
  | nil => simp
  | cons c rest => simp

end Tls.Auth
