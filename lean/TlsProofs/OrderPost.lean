import TlsProofs.OrderSafety
/-
  C06 proof support: key changes and the defragmenter (no message spans a key change), and the
  simulation between the post-handshake automaton and the post-handshake grammar `postSpec`.
-/
set_option linter.unusedSimpArgs false

namespace Tls.Order

/-- an outcome that installs new read keys -/
def Out.bumps : Out → Bool
  | .next _ b => b
  | .post b => b
  | _ => false

/-- the flows change the read keys only on messages that must end their record, at positions where
    either `_getMsg` (TLS 1.3 version already set) or the flow (first hello) checks that -/
theorem flow_bump (c : Cfg) (s s' : St) (k : MsgKind) (h : flow c s k = some (.go s' true)) :
    mustAlign k = true ∧ (firstHello c s k = true ∨ v13Active c s = true) := by
  cases s <;> cases k <;> simp [flow] at h <;>
    (repeat' split at h) <;> (try simp at h) <;> (try simp [mustAlign, firstHello, v13Active, *])

theorem stepHs_bump (c : Cfg) (s : St) (k : MsgKind) (h : (stepHs c s k).toOut.bumps = true) :
    (k = .ccs ∧ expectsCCS c s = true) ∨
    (k.isHandshake = true ∧ mustAlign k = true ∧ (firstHello c s k = true ∨ v13Active c s = true)) := by
  unfold stepHs at h
  by_cases h1 : (k == MsgKind.ccs && v13Active c s && expectsHandshake c s) = true
  · simp [h1, HsOut.toOut, Out.bumps] at h
  · simp only [h1] at h
    by_cases h2 : k.isAlert = true
    · simp only [h2, if_true] at h
      revert h; repeat' split
      all_goals simp [HsOut.toOut, Out.bumps]
    · simp only [h2] at h
      by_cases h3 : (k == MsgKind.ccs) = true
      · have : k = .ccs := by simpa using h3
        subst this
        by_cases h4 : expectsCCS c s = true
        · exact Or.inl ⟨rfl, h4⟩
        · simp [h4, HsOut.toOut, Out.bumps] at h
      · simp only [h3] at h
        by_cases h5 : (k == MsgKind.app_data || k == MsgKind.empty_app_data) = true
        · simp [h5, HsOut.toOut, Out.bumps] at h
        · simp only [h5] at h
          by_cases h6 : (k == MsgKind.heartbeat) = true
          · simp only [h6, if_true] at h
            by_cases h8 : hbActive c s = true
            · simp [h8, HsOut.toOut, Out.bumps] at h
            · simp [h8, HsOut.toOut, Out.bumps] at h
          · simp only [h6] at h
            have hhs : k.isHandshake = true := by
              cases k <;> simp_all [MsgKind.isHandshake, MsgKind.isAlert]
            by_cases h7 : expectsHandshake c s = true
            · simp only [h7, Bool.not_true, Bool.false_eq_true, if_false] at h
              cases hf : flow c s k with
              | none => simp [hf, HsOut.toOut, Out.bumps] at h
              | some f =>
                cases f with
                | reject a => simp [hf, HsOut.toOut, Out.bumps] at h
                | go s' b =>
                  simp [hf, HsOut.toOut, Out.bumps] at h
                  subst h
                  exact Or.inr ⟨hhs, flow_bump c s s' k hf⟩
            · simp [h7, HsOut.toOut, Out.bumps] at h

theorem PostOut_bump (o : PostOut) (h : o.toOut.bumps = true) : o = .post true := by
  cases o <;> simp [PostOut.toOut, Out.bumps] at h ⊢
  exact h

theorem stepDone_bump (c : Cfg) (n : Nat) (k : MsgKind) (h : stepDone c n k = .post true) :
    k = .key_update ∧ c.isTls13 = true := by
  unfold stepDone at h
  revert h; repeat' split
  all_goals simp_all

theorem stepClosing_bump (c : Cfg) (k : MsgKind) (h : stepClosing c k = .post true) :
    k = .key_update ∧ c.isTls13 = true := by
  unfold stepClosing at h
  revert h; repeat' split
  all_goals simp_all

theorem stepPha_bump (c : Cfg) (cv : Bool) (k : MsgKind) : stepPha c cv k ≠ .post true := by
  unfold stepPha
  repeat' split
  all_goals simp

/-- a key change is triggered by a ≤ 1.2 ChangeCipherSpec at a position that expects it, or by a
    handshake message that must end its record at a position where that is checked -/
theorem stepK0_bump (c : Cfg) (s : St) (n : Nat) (k : MsgKind) (h : (stepK0 c s n k).bumps = true) :
    (k = .ccs ∧ expectsCCS c s = true) ∨
    (k.isHandshake = true ∧ mustAlign k = true ∧ (firstHello c s k = true ∨ v13Active c s = true)) := by
  cases s
  case done =>
    simp only [stepK0] at h
    have := stepDone_bump c n k (PostOut_bump _ h)
    exact Or.inr ⟨by rw [this.1]; rfl, by rw [this.1]; rfl, Or.inr (by simp [v13Active, this.2])⟩
  case closing =>
    simp only [stepK0] at h
    have := stepClosing_bump c k (PostOut_bump _ h)
    exact Or.inr ⟨by rw [this.1]; rfl, by rw [this.1]; rfl, Or.inr (by simp [v13Active, this.2])⟩
  case phaWaitCV => simp only [stepK0] at h; exact absurd (PostOut_bump _ h) (stepPha_bump c true k)
  case phaWaitFin => simp only [stepK0] at h; exact absurd (PostOut_bump _ h) (stepPha_bump c false k)
  case dead => simp [stepK0, Out.bumps] at h
  all_goals (simp only [stepK0] at h; exact stepHs_bump c _ k h)

theorem apply_epoch (q : Run) (o : Out) :
    (apply q o).epoch = (if o.bumps then q.epoch + 1 else q.epoch) ∧
    (o.bumps = true → (apply q o).pending = q.pending) := by
  cases o with
  | next s b =>
    cases b <;> simp only [apply, Out.bumps] <;> (split <;> simp)
  | post b => cases b <;> simp [apply, Out.bumps]
  | _ => simp [apply, Out.bumps]

theorem stepK_bump (c : Cfg) (s : St) (n : Nat) (k : MsgKind) (p : Bool) (h : (stepK c s n k p).bumps = true) :
    stepK c s n k p = stepK0 c s n k ∧ (k.isHandshake = true → p = false) := by
  have h0 : (stepK0 c s n k).bumps = true ∨ stepK c s n k p ≠ stepK0 c s n k := by
    by_cases e : stepK c s n k p = stepK0 c s n k
    · left; rw [← e]; exact h
    · right; exact e
  rcases stepK_plus c s n k p with e | e | ⟨e, _⟩
  · refine ⟨e, fun hh => ?_⟩
    rw [e] at h
    -- with `plus` the alignment check (or the first-hello check) would have fired
    rcases stepK0_bump c s n k h with ⟨hc, _⟩ | ⟨_, hm, hf⟩
    · rw [hc] at hh; cases hh
    · cases p
      · rfl
      · exfalso
        have hacc : (stepK0 c s n k).accepted = true := by
          revert h; cases stepK0 c s n k <;> simp [Out.bumps, Out.accepted]
        unfold stepK at e
        simp only [Bool.true_and] at e
        rcases hf with hf | hf
        · by_cases hv : v13Active c s = true
          · simp [hv, hm, hacc] at e
            rw [← e] at h; simp [Out.bumps] at h
          · simp [hv, hf] at e
            rw [← e] at h; simp [Out.bumps] at h
        · simp [hf, hm, hacc] at e
          rw [← e] at h; simp [Out.bumps] at h
  · rw [e] at h; simp [Out.bumps] at h
  · rw [e] at h; simp [Out.bumps] at h

/-- whenever a piece makes the endpoint install new read keys, the defragmenter is empty before
    (apart from the head of this very message) and after, and the message that triggers the change
    is complete and ends its record -/
theorem feed_key_change (c : Cfg) (r : Run) (m : Msg) (hlive : r.st ≠ .dead)
    (hb : (feed c r m).epoch ≠ r.epoch) :
    (feed c r m).pending = none ∧
    (r.pending = none ∨ (m.part = .tail ∧ m.kind.isHandshake = true ∧ r.pending = some m.kind)) ∧
    (m.kind.isHandshake = true → m.plus = false ∧ m.part ≠ .head) := by
  have hnd : (r.st == St.dead) = false := by simpa using hlive
  obtain ⟨_, _, _, _, _, _, f7, _, _, _⟩ := pre_fields c r m
  unfold feed at hb ⊢
  simp only [hnd, Bool.false_eq_true, if_false] at hb ⊢
  have hqp : (clearPending (countRecord c r m) m).pending =
      if (m.part == Part.tail && m.kind.isHandshake) then none else r.pending := by
    unfold clearPending countRecord; split <;> split <;> simp_all
  generalize clearPending (countRecord c r m) m = q at *
  obtain ⟨he, hp⟩ := apply_epoch q (step c r m)
  have hbump : (step c r m).bumps = true := by
    cases hq : (step c r m).bumps
    · rw [he, hq] at hb; simp [f7] at hb
    · rfl
  rw [hp hbump, hqp]
  -- which branch of `step` was it
  unfold step at hbump
  by_cases hepo : epochOk c r m = true
  · simp only [hepo, Bool.not_true, Bool.false_eq_true, if_false] at hbump
    by_cases hh : m.kind.isHandshake = true
    · simp only [hh, if_true] at hbump
      by_cases h1 : (m.part == Part.head) = true
      · simp only [h1, if_true] at hbump
        revert hbump; split <;> simp [Out.bumps]
      · simp only [h1] at hbump
        have h1' : m.part ≠ .head := by simpa using h1
        by_cases h3 : (m.part == Part.tail) = true
        · simp only [h3, if_true] at hbump
          by_cases h4 : (r.pending == some m.kind) = true
          · simp only [h4, if_true] at hbump
            have := stepK_bump c r.st r.outstanding m.kind m.plus hbump
            have h4' : r.pending = some m.kind := by simpa using h4
            have h3' : m.part = .tail := by simpa using h3
            exact ⟨by simp [h3, hh], Or.inr ⟨h3', hh, h4'⟩, fun _ => ⟨this.2 hh, h1'⟩⟩
          · simp [h4, Out.bumps] at hbump
        · simp only [h3] at hbump
          by_cases h2 : r.pending.isNone = true
          · simp only [h2, if_true] at hbump
            have := stepK_bump c r.st r.outstanding m.kind m.plus hbump
            have h2' : r.pending = none := by simpa using h2
            exact ⟨by simp [h3, h2'], Or.inl h2', fun _ => ⟨this.2 hh, h1'⟩⟩
          · simp [h2, Out.bumps] at hbump
    · simp only [hh] at hbump
      have hh' : m.kind.isHandshake = false := by simpa using hh
      by_cases h5 : (r.pending.isSome && v13Active c r.st && !ccsDropped c r.st m.kind) = true
      · simp [h5, Out.bumps] at hbump
      · simp only [h5] at hbump
        by_cases h6 : (r.pending.isSome && m.kind == MsgKind.ccs && expectsCCS c r.st) = true
        · simp [h6, Out.bumps] at hbump
        · simp only [h6] at hbump
          have hk := stepK_bump c r.st r.outstanding m.kind false hbump
          rw [hk.1] at hbump
          rcases stepK0_bump c r.st r.outstanding m.kind hbump with ⟨hc, hx⟩ | ⟨hy, _⟩
          · -- a ChangeCipherSpec at a position that expects it: nothing may be buffered
            have hpn : r.pending = none := by
              cases hpe : r.pending with
              | none => rfl
              | some k' => simp [hpe, hc, hx] at h6
            exact ⟨by simp [hh', hpn], Or.inl hpn, fun hq => by rw [hh'] at hq; cases hq⟩
          · rw [hh'] at hy; cases hy
  · simp [hepo, Out.bumps] at hbump

/-! ### the post-handshake automaton simulates the post-handshake grammar -/

/-- the grammar position that corresponds to a run -/
def absP (r : Run) : PSt :=
  match r.st with
  | .done => .idle r.outstanding
  | .phaWaitCV => .wantCV r.outstanding
  | .phaWaitFin => .wantFin r.outstanding
  | .closing => .closing r.outstanding
  | _ => .ended

/-- the effect of a post-handshake outcome on the grammar position; `none`: a fatal alert of ours -/
def PostOut.leads (o : PostOut) (p : PSt) : Option PSt :=
  match o with
  | .peerClosed | .acceptClosed => some .ended
  | .abort _ => none
  | .deliver | .ignore | .warn | .post _ => some p
  | .phaStart cv =>
      (match p with
       | .idle n => some (if cv then .wantCV (n - 1) else .wantFin (n - 1))
       | _ => none)
  | .phaCV => (match p with | .wantCV n => some (.wantFin n) | _ => none)
  | .phaFin => (match p with | .wantFin n => some (.idle n) | _ => none)

theorem sim_done (c : Cfg) (n : Nat) (k : MsgKind) :
    (stepDone c n k).leads (.idle n) = postSpec c (.idle n) (.msg k) := by
  cases k <;> simp [stepDone, postSpec, PostOut.leads, MsgKind.isAlert, renegAttempt] <;>
    (repeat' split) <;> simp_all <;> (split at * <;> simp_all)

theorem sim_cv (c : Cfg) (n : Nat) (k : MsgKind) :
    (stepPha c true k).leads (.wantCV n) = postSpec c (.wantCV n) (.msg k) := by
  cases k <;> simp [stepPha, postSpec, PostOut.leads, MsgKind.isAlert] <;>
    (repeat' split) <;> simp_all

theorem sim_fin (c : Cfg) (n : Nat) (k : MsgKind) :
    (stepPha c false k).leads (.wantFin n) = postSpec c (.wantFin n) (.msg k) := by
  cases k <;> simp [stepPha, postSpec, PostOut.leads, MsgKind.isAlert] <;>
    (repeat' split) <;> simp_all

theorem sim_closing (c : Cfg) (n : Nat) (k : MsgKind) :
    (stepClosing c k).leads (.closing n) = postSpec c (.closing n) (.msg k) := by
  cases k <;> simp [stepClosing, postSpec, PostOut.leads, MsgKind.isAlert, renegAttempt] <;>
    (repeat' split) <;> simp_all

/-- the step function of a post-handshake position -/
def stepPost (c : Cfg) (s : St) (n : Nat) (k : MsgKind) : PostOut :=
  match s with
  | .phaWaitCV => stepPha c true k
  | .phaWaitFin => stepPha c false k
  | .closing => stepClosing c k
  | _ => stepDone c n k

theorem stepK0_post (c : Cfg) (s : St) (n : Nat) (k : MsgKind) (hp : s.isPost = true) :
    stepK0 c s n k = (stepPost c s n k).toOut := by
  cases s <;> simp [St.isPost] at hp <;> rfl

theorem sim_post (c : Cfg) (r : Run) (k : MsgKind) (hp : r.st.isPost = true) :
    (stepPost c r.st r.outstanding k).leads (absP r) = postSpec c (absP r) (.msg k) := by
  unfold absP stepPost
  cases hs : r.st <;> simp [hs, St.isPost] at hp ⊢
  · exact sim_done c _ k
  · exact sim_cv c _ k
  · exact sim_fin c _ k
  · exact sim_closing c _ k

/-- what an outcome does to the run agrees with what it does to the grammar position -/
theorem apply_leads (q : Run) (o : PostOut) (p' : PSt) (hp : q.st.isPost = true)
    (h : o.leads (absP q) = some p') :
    absP (apply q o.toOut) = p' ∧ (apply q o.toOut).alert = q.alert := by
  cases o <;> simp [PostOut.leads] at h
  case peerClosed => subst h; simp [PostOut.toOut, apply, absP]
  case acceptClosed => subst h; simp [PostOut.toOut, apply, absP]
  case deliver => subst h; simp [PostOut.toOut, apply, absP]
  case ignore => subst h; simp [PostOut.toOut, apply, absP]
  case warn => subst h; simp [PostOut.toOut, apply, absP]
  case post b => subst h; simp [PostOut.toOut, apply, absP]
  case phaStart cv =>
    revert h
    unfold absP
    cases hs : q.st <;> simp [hs, St.isPost] at hp ⊢
    intro h; subst h
    cases cv <;> simp [PostOut.toOut, apply, absP]
  case phaCV =>
    revert h
    unfold absP
    cases hs : q.st <;> simp [hs, St.isPost] at hp ⊢
    intro h; subst h
    cases hd : q.hsDone <;> simp [PostOut.toOut, apply, absP, St.isPost, hd]
  case phaFin =>
    revert h
    unfold absP
    cases hs : q.st <;> simp [hs, St.isPost] at hp ⊢
    intro h; subst h
    cases hd : q.hsDone <;> simp [PostOut.toOut, apply, absP, St.isPost, hd]

theorem stepDone_shape (c : Cfg) (n : Nat) (k : MsgKind) :
    stepDone c n k ≠ .phaCV ∧ stepDone c n k ≠ .phaFin := by
  unfold stepDone
  constructor <;> (repeat' split) <;> simp

theorem stepPha_shape (c : Cfg) (cv : Bool) (k : MsgKind) :
    (∀ b, stepPha c cv k ≠ .phaStart b) ∧ (cv = true → stepPha c cv k ≠ .phaFin) ∧
    (cv = false → stepPha c cv k ≠ .phaCV) := by
  unfold stepPha
  refine ⟨fun b => ?_, fun h => ?_, fun h => ?_⟩ <;> (repeat' split) <;> simp_all

theorem stepClosing_shape (c : Cfg) (k : MsgKind) :
    (∀ b, stepClosing c k ≠ .phaStart b) ∧ stepClosing c k ≠ .phaCV ∧ stepClosing c k ≠ .phaFin := by
  unfold stepClosing
  refine ⟨fun b => ?_, ?_, ?_⟩ <;> (repeat' split) <;> simp

theorem leads_none_cases (o : PostOut) (p : PSt) (h : o.leads p = none) :
    (∃ a, o = .abort a) ∨
    ((∃ b, o = .phaStart b) ∧ ∀ n, p ≠ .idle n) ∨ (o = .phaCV ∧ ∀ n, p ≠ .wantCV n) ∨
    (o = .phaFin ∧ ∀ n, p ≠ .wantFin n) := by
  cases o <;> simp [PostOut.leads] at h ⊢
  all_goals (cases p <;> simp at h ⊢)

/-- a post-handshake outcome the grammar does not allow is a fatal alert of ours -/
theorem leads_none (c : Cfg) (r : Run) (k : MsgKind) (hp : r.st.isPost = true)
    (h : (stepPost c r.st r.outstanding k).leads (absP r) = none) :
    ∃ a, stepPost c r.st r.outstanding k = .abort a := by
  rcases leads_none_cases _ _ h with ha | ⟨⟨b, hb⟩, hn⟩ | ⟨hb, hn⟩ | ⟨hb, hn⟩
  · exact ha
  all_goals
    exfalso
    revert hb hn
    unfold absP stepPost
    cases hs : r.st <;> simp [hs, St.isPost] at hp ⊢
  · intro hb; exact absurd hb ((stepPha_shape c true k).1 b)
  · intro hb; exact absurd hb ((stepPha_shape c false k).1 b)
  · intro hb; exact absurd hb ((stepClosing_shape c k).1 b)
  · intro hb; exact absurd hb (stepDone_shape c _ k).1
  · intro hb; exact absurd hb ((stepPha_shape c false k).2.2 rfl)
  · intro hb; exact absurd hb (stepClosing_shape c k).2.1
  · intro hb; exact absurd hb (stepDone_shape c _ k).2
  · intro hb; exact absurd hb ((stepPha_shape c true k).2.1 rfl)
  · intro hb; exact absurd hb (stepClosing_shape c k).2.2

theorem absP_pre (c : Cfg) (r : Run) (m : Msg) : absP (clearPending (countRecord c r m) m) = absP r := by
  obtain ⟨f1, _, _, _, _, _, _, _, _, f10⟩ := pre_fields c r m
  unfold absP; rw [f1, f10]

theorem post_not_dead (r : Run) (hp : r.st.isPost = true) : (r.st == St.dead) = false := by
  cases hs : r.st <;> simp_all [St.isPost]

/-- one incoming piece on an established connection: if no fatal alert of ours results, the piece is
    what the post-handshake grammar permits at this position, and the positions stay in step -/
theorem post_feed (c : Cfg) (r : Run) (m : Msg) (hp : r.st.isPost = true) (hna : r.alert = none)
    (h' : (feed c r m).alert = none) :
    (m.isHead = true → absP (feed c r m) = absP r) ∧
    (m.isHead = false → postSpec c (absP r) (.msg m.kind) = some (absP (feed c r m))) := by
  have hnd := post_not_dead r hp
  have hq := absP_pre c r m
  obtain ⟨f1, _, _, _, f5, _, _, _, _, f10⟩ := pre_fields c r m
  unfold feed at h' ⊢
  simp only [hnd, Bool.false_eq_true, if_false] at h' ⊢
  generalize clearPending (countRecord c r m) m = q at *
  have hqp : q.st.isPost = true := by rw [f1]; exact hp
  rcases step_shape c r m with ⟨p, hs, hnh⟩ | ⟨hs, hh⟩ | ⟨a, hs⟩ | ⟨hs, _, _, _⟩
  · refine ⟨fun hx => (by rw [hnh] at hx; cases hx), fun _ => ?_⟩
    rw [hs] at h' ⊢
    rcases stepK_plus c r.st r.outstanding m.kind p with e | e | ⟨e, _⟩
    · rw [e, stepK0_post c r.st r.outstanding m.kind hp] at h' ⊢
      have hsim := sim_post c r m.kind hp
      cases hl : (stepPost c r.st r.outstanding m.kind).leads (absP r) with
      | none =>
        obtain ⟨a, ha⟩ := leads_none c r m.kind hp hl
        rw [ha] at h'; simp [PostOut.toOut, apply] at h'
      | some p' =>
        rw [← hq] at hl
        have := apply_leads q _ p' hqp hl
        rw [← hsim, ← hq, hl, this.1]
    · rw [e] at h'; simp [apply] at h'
    · rw [e] at h'; simp [apply] at h'
  · refine ⟨fun _ => ?_, fun hx => (by rw [hh] at hx; cases hx)⟩
    rw [hs]
    simp only [apply]
    rw [← hq]; rfl
  · rw [hs] at h'; simp [apply] at h'
  · rw [hs] at h'; simp [apply] at h'

theorem feed_post_or_dead (c : Cfg) (r : Run) (m : Msg) (hp : r.st.isPost = true) :
    (feed c r m).st.isPost = true ∨ (feed c r m).st = .dead := by
  have hnd : r.st ≠ .dead := by intro e; simp [e, St.isPost] at hp
  rw [feed_st c r m hnd]
  have ht := step_post_target c r m hp
  cases ho : step c r m <;> simp [Out.target, hp]
  · exact Or.inl (ht.1 _ _ ho)
  · exact Or.inl (ht.2 _ ho)

def evKind : Ev → EvKind
  | .msg m => .msg m.kind
  | .requestPha => .requestPha
  | .close => .close

def Ev.isHead : Ev → Bool
  | .msg m => m.isHead
  | _ => false

theorem evKinds_cons (e : Ev) (es : List Ev) :
    evKinds (e :: es) = if e.isHead then evKinds es else evKind e :: evKinds es := by
  cases e <;> simp [evKinds, Ev.isHead, evKind, Msg.isHead]

theorem feedEv_dead (c : Cfg) (r : Run) (e : Ev) (h : r.st = .dead) : feedEv c r e = r := by
  cases e <;> simp [feedEv, feed, h]

theorem runEv_dead (c : Cfg) (es : List Ev) : ∀ r, r.st = .dead → runEv c r es = r := by
  induction es with
  | nil => intro r _; rfl
  | cons e es ih =>
    intro r h
    simp only [runEv, List.foldl_cons] at ih ⊢
    rw [feedEv_dead c r e h]; exact ih r h

/-- a fatal alert of ours always comes with the connection being shut down -/
theorem feed_alert_dead (c : Cfg) (r : Run) (m : Msg) (hna : r.alert = none)
    (h : (feed c r m).alert ≠ none) : (feed c r m).st = .dead := by
  unfold feed at h ⊢
  by_cases hd : (r.st == St.dead) = true
  · simp [hd, hna] at h
  · simp only [hd] at h ⊢
    obtain ⟨_, _, _, _, f5, _, _, _, _, _⟩ := pre_fields c r m
    generalize clearPending (countRecord c r m) m = q at *
    cases ho : step c r m <;> simp [ho, apply, f5, hna] at h ⊢
    rename_i s b; revert h; split <;> simp [f5, hna]

theorem post_feedEv (c : Cfg) (r : Run) (e : Ev) (hp : r.st.isPost = true ∨ r.st = .dead)
    (hna : r.alert = none) (h' : (feedEv c r e).alert = none) :
    (e.isHead = true → absP (feedEv c r e) = absP r) ∧
    (e.isHead = false → postSpec c (absP r) (evKind e) = some (absP (feedEv c r e))) := by
  rcases hp with hp | hd
  · cases e with
    | msg m => exact post_feed c r m hp hna h'
    | requestPha =>
      refine ⟨fun hx => (by cases hx), fun _ => ?_⟩
      simp only [absP, feedEv, evKind]
      cases hs : r.st <;> simp [hs, St.isPost] at hp ⊢
      · by_cases hc : (c.isTls13 && c.role == Role.server && c.keypair) = true
        · have hc' : (c.isTls13 = true ∧ c.role = Role.server) ∧ c.keypair = true := by simpa using hc
          simp [hc, hc', postSpec]
        · have hc' : ¬((c.isTls13 = true ∧ c.role = Role.server) ∧ c.keypair = true) := by simpa using hc
          simp [hc, hc', postSpec, hs]
      all_goals simp [postSpec]
    | close =>
      refine ⟨fun hx => (by cases hx), fun _ => ?_⟩
      simp only [absP, feedEv, evKind]
      cases hs : r.st <;> simp [hs, St.isPost] at hp ⊢ <;> simp [postSpec]
  · rw [feedEv_dead c r e hd]
    refine ⟨fun _ => rfl, fun _ => ?_⟩
    simp [absP, hd, postSpec]

theorem feedEv_post_or_dead (c : Cfg) (r : Run) (e : Ev) (hp : r.st.isPost = true ∨ r.st = .dead) :
    (feedEv c r e).st.isPost = true ∨ (feedEv c r e).st = .dead := by
  rcases hp with hp | hd
  · cases e with
    | msg m => exact feed_post_or_dead c r m hp
    | requestPha => simp only [feedEv]; split <;> simp [hp]
    | close =>
      simp only [feedEv]
      split
      · exact Or.inl rfl
      · exact Or.inl hp
  · rw [feedEv_dead c r e hd]; exact Or.inr hd

theorem feedEv_alert_dead (c : Cfg) (r : Run) (e : Ev) (hna : r.alert = none)
    (h : (feedEv c r e).alert ≠ none) : (feedEv c r e).st = .dead := by
  cases e with
  | msg m => exact feed_alert_dead c r m hna h
  | requestPha => simp only [feedEv] at h; revert h; split <;> simp [hna]
  | close => simp only [feedEv] at h; revert h; split <;> simp [hna]

/-- run level: as long as no fatal alert of ours results, the events are a permitted post-handshake
    sequence and the automaton is where the grammar is -/
theorem post_run (c : Cfg) : ∀ (es : List Ev) (r : Run), (r.st.isPost = true ∨ r.st = .dead) →
    r.alert = none → (runEv c r es).alert = none →
    postRun c (absP r) (evKinds es) = some (absP (runEv c r es)) := by
  intro es
  induction es with
  | nil => intro r _ _ _; rfl
  | cons e es ih =>
    intro r hp hna h'
    simp only [runEv, List.foldl_cons] at ih h' ⊢
    have h1 : (feedEv c r e).alert = none := by
      cases ha : (feedEv c r e).alert with
      | none => rfl
      | some a =>
        have hd := feedEv_alert_dead c r e hna (by rw [ha]; simp)
        have := runEv_dead c es _ hd
        simp only [runEv] at this
        rw [this, ha] at h'; cases h'
    have hstep := post_feedEv c r e hp hna h1
    have hnext := ih (feedEv c r e) (feedEv_post_or_dead c r e hp) h1 h'
    rw [evKinds_cons]
    cases hh : e.isHead
    · simp only [Bool.false_eq_true, if_false, postRun]
      rw [hstep.2 hh]
      exact hnext
    · simp only [if_true]
      rw [← hstep.1 hh]
      exact hnext

end Tls.Order
