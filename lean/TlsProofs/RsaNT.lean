import Mathlib.FieldTheory.Finite.Basic
import TlsProofs.RsaBasic
/-
  Number theory behind the RSA private operation of python_rsakey.py:
  Fermat, CRT recombination, blinding.
-/
namespace Tls.Rsa
open Nat

/-- `m ^ k ≡ m (mod p)` whenever `k ≡ 1 (mod p-1)`, `k ≥ 1` (Fermat; also when `p ∣ m`). -/
theorem pow_modEq_self_prime {p : ℕ} (hp : p.Prime) {k : ℕ} (hk : k ≡ 1 [MOD p - 1]) (hk1 : 1 ≤ k)
    (m : ℕ) : m ^ k ≡ m [MOD p] := by
  haveI : Fact p.Prime := ⟨hp⟩
  rw [← ZMod.natCast_eq_natCast_iff]
  push_cast
  obtain ⟨t, ht⟩ := (Nat.modEq_iff_dvd' hk1).mp hk.symm
  have hk' : k = 1 + (p - 1) * t := by omega
  by_cases h0 : (m : ZMod p) = 0
  · rw [h0, zero_pow (by omega)]
  · rw [hk', pow_add, pow_mul, ZMod.pow_card_sub_one_eq_one h0]; simp

/-- the RSA identity modulo `n = p * q` -/
theorem pow_modEq_self_mul {p q : ℕ} (hp : p.Prime) (hq : q.Prime) (hne : p ≠ q) {k : ℕ}
    (hkp : k ≡ 1 [MOD p - 1]) (hkq : k ≡ 1 [MOD q - 1]) (hk1 : 1 ≤ k) (m : ℕ) :
    m ^ k ≡ m [MOD p * q] :=
  (Nat.modEq_and_modEq_iff_modEq_mul ((Nat.coprime_primes hp hq).mpr hne)).mp
    ⟨pow_modEq_self_prime hp hkp hk1 m, pow_modEq_self_prime hq hkq hk1 m⟩

theorem one_le_of_modEq_one {a b : ℕ} (hb : 2 ≤ b) (h : a ≡ 1 [MOD b]) : 1 ≤ a := by
  rcases Nat.eq_zero_or_pos a with h0 | h0
  · subst h0
    have : (0 : ℕ) % b = 1 % b := h
    rw [Nat.zero_mod, Nat.mod_eq_of_lt (by omega)] at this
    omega
  · exact h0

/-- value and range of the CRT recombination `s2 + q * (((s1 - s2) * qInv) % p)` -/
theorem crt_recombine {p q : ℕ} (hp0 : 0 < p) (hq0 : 0 < q) (s1 s2 qInv : ℕ) (hs2 : s2 < q)
    (hqInv : qInv * q ≡ 1 [MOD p]) :
    let c : ℤ := (s2 : ℤ) + (q : ℤ) * ((((s1 : ℤ) - (s2 : ℤ)) * (qInv : ℤ)) % (p : ℤ))
    0 ≤ c ∧ c.toNat < p * q ∧ c.toNat ≡ s1 [MOD p] ∧ c.toNat ≡ s2 [MOD q] := by
  intro c
  have hpz : (0 : ℤ) < (p : ℤ) := by exact_mod_cast hp0
  set h : ℤ := (((s1 : ℤ) - (s2 : ℤ)) * (qInv : ℤ)) % (p : ℤ) with hh
  have h0 : 0 ≤ h := Int.emod_nonneg _ (by omega)
  have h1 : h < p := Int.emod_lt_of_pos _ hpz
  have hc0 : 0 ≤ c := by
    have : 0 ≤ (q : ℤ) * h := mul_nonneg (by exact_mod_cast hq0.le) h0
    show 0 ≤ (s2 : ℤ) + (q : ℤ) * h
    omega
  have hcn : ((c.toNat : ℕ) : ℤ) = c := Int.toNat_of_nonneg hc0
  refine ⟨hc0, ?_, ?_, ?_⟩
  · have : c < (p : ℤ) * (q : ℤ) := by
      have hle : (q : ℤ) * h ≤ (q : ℤ) * ((p : ℤ) - 1) :=
        mul_le_mul_of_nonneg_left (by omega) (by exact_mod_cast hq0.le)
      have hs : (s2 : ℤ) < q := by exact_mod_cast hs2
      show (s2 : ℤ) + (q : ℤ) * h < (p : ℤ) * (q : ℤ)
      nlinarith
    have : ((c.toNat : ℕ) : ℤ) < ((p * q : ℕ) : ℤ) := by rw [hcn]; push_cast; exact this
    exact_mod_cast this
  · rw [← ZMod.natCast_eq_natCast_iff]
    have e1 : ((c.toNat : ℕ) : ZMod p) = ((c : ℤ) : ZMod p) := by
      rw [← hcn]; simp
    rw [e1]
    have hq1 : ((qInv : ZMod p)) * (q : ZMod p) = 1 := by
      have := (ZMod.natCast_eq_natCast_iff _ _ _).mpr hqInv
      push_cast at this; exact this
    show (((s2 : ℤ) + (q : ℤ) * h : ℤ) : ZMod p) = (s1 : ZMod p)
    push_cast
    rw [hh, ZMod.intCast_mod]
    push_cast
    have : (q : ZMod p) * (((s1 : ZMod p) - (s2 : ZMod p)) * (qInv : ZMod p))
        = ((s1 : ZMod p) - (s2 : ZMod p)) * ((qInv : ZMod p) * (q : ZMod p)) := by ring
    rw [this, hq1]; ring
  · rw [← ZMod.natCast_eq_natCast_iff]
    have e1 : ((c.toNat : ℕ) : ZMod q) = ((c : ℤ) : ZMod q) := by
      rw [← hcn]; simp
    rw [e1]
    show (((s2 : ℤ) + (q : ℤ) * h : ℤ) : ZMod q) = (s2 : ZMod q)
    push_cast
    simp

end Tls.Rsa
