import TlsModel.ErrPath
/-
  Helper lemmas for Props/C08: size bookkeeping of the Defragmenter and progress of
  `getNextRecord` / `getMsgFuel`.
-/
namespace Tls.ErrPath

theorem getMessage_size {d d' : Defrag} {t : Nat} {m : Bytes}
    (h : d.getMessage = some (t, m, d')) : d'.size + m.length = d.size ∧ 1 ≤ m.length := by
  unfold Defrag.getMessage at h
  split at h
  · rename_i h1
    injection h with h; injection h with _ h; injection h with hm hd
    subst hm; subst hd
    simp only [Defrag.size, List.length_take, List.length_drop]
    omega
  · split at h
    · rename_i h1 h2
      injection h with h; injection h with _ h; injection h with hm hd
      subst hm; subst hd
      simp only [Defrag.size, List.length_take, List.length_drop]
      omega
    · split at h
      · rename_i h1 h2 h3
        simp only at h
        split at h
        · cases h
        · rename_i h4
          injection h with h; injection h with _ h; injection h with hm hd
          subst hm; subst hd
          simp only [Defrag.size, List.length_take, List.length_drop]
          omega
      · cases h

theorem add_size {d d' : Defrag} {t : Nat} {b : Bytes} (h : d.add t b = .ok d') :
    d'.size = d.size + b.length := by
  unfold Defrag.add at h
  split at h
  · injection h with h; subst h; simp [Defrag.size]; omega
  · split at h
    · injection h with h; subst h; simp [Defrag.size]; omega
    · split at h
      · injection h with h; subst h; simp [Defrag.size]; omega
      · cases h

theorem fromSocket_ok {i : Input} {t : Nat} {data : Bytes} {s : Bool}
    (h : fromSocket i = .ok (t, data, s)) :
    i = .record t data s ∧ (t = 20 ∨ t = 21 ∨ t = 22 ∨ t = 23 ∨ t = 24) := by
  cases i with
  | bad k => simp [fromSocket] at h
  | record t0 d0 s0 =>
    simp only [fromSocket] at h
    by_cases c1 : (t0 != 23 && d0.isEmpty) = true
    · simp [c1] at h
    · simp only [c1] at h
      by_cases c2 : (!(t0 == 20 || t0 == 21 || t0 == 22 || t0 == 23 || t0 == 24)) = true
      · simp [c2] at h
      · simp only [c2] at h
        simp only [Bool.false_eq_true, if_false, Except.ok.injEq, Prod.mk.injEq] at h
        obtain ⟨rfl, rfl, rfl⟩ := h
        refine ⟨rfl, ?_⟩
        simp only [Bool.not_eq_true', Bool.not_eq_false, Bool.or_eq_true, beq_iff_eq] at c2
        omega

theorem fromSocket_size {i : Input} {t : Nat} {data : Bytes} {s : Bool}
    (h : fromSocket i = .ok (t, data, s)) : i.size = data.length := by
  rw [(fromSocket_ok h).1]; rfl

/-- after `fromSocket` accepted a record that is not passed through, `add_data` knows its type:
    the ValueError branch of the model is dead -/
theorem add_defined {i : Input} {t : Nat} {data : Bytes} {s : Bool} (d : Defrag)
    (h : fromSocket i = .ok (t, data, s)) (hp : (t == 23 || t == 24) = false) :
    ∃ d', d.add t data = .ok d' := by
  have h2 := (fromSocket_ok h).2
  simp only [Bool.or_eq_false_iff, beq_eq_false_iff_ne] at hp
  unfold Defrag.add
  by_cases a : t = 20
  · simp [a]
  · by_cases b : t = 21
    · simp [b]
    · by_cases c : t = 22
      · simp [c]
      · omega

/-- "strictly below `m` in measure, at most `n` inputs left" for every result but `needMore` -/
def Next.decr (m n : Nat) : Next → Prop
  | .item _ _ _ _ d' rest => mu d' rest < m ∧ rest.length ≤ n
  | .fail _ d' rest => mu d' rest < m ∧ rest.length ≤ n
  | .needMore _ => True

theorem Next.decr_mono {m n m' n' : Nat} {r : Next} (h : r.decr m n) (hm : m ≤ m') (hn : n ≤ n') :
    r.decr m' n' := by
  cases r with
  | item _ _ _ _ d' rest => exact ⟨Nat.lt_of_lt_of_le h.1 hm, Nat.le_trans h.2 hn⟩
  | fail _ d' rest => exact ⟨Nat.lt_of_lt_of_le h.1 hm, Nat.le_trans h.2 hn⟩
  | needMore _ => trivial

/-- every result of `_getNextRecord` other than "wait for more input" strictly decreases the measure -/
theorem getNextRecord_mu (v13 : Bool) : ∀ (inp : List Input) (d : Defrag),
    (getNextRecord v13 d inp).decr (mu d inp) inp.length := by
  intro inp
  induction inp with
  | nil =>
    intro d
    unfold getNextRecord
    cases hg : d.getMessage with
    | none => simp [Next.decr]
    | some x =>
      obtain ⟨t, m, d'⟩ := x
      have := getMessage_size hg
      simp only [Next.decr, mu, inputsMu]
      omega
  | cons i rest ih =>
    intro d
    unfold getNextRecord
    cases hg : d.getMessage with
    | some x =>
      obtain ⟨t, m, d'⟩ := x
      have := getMessage_size hg
      simp only [Next.decr, mu, inputsMu]
      omega
    | none =>
      simp only
      cases hf : fromSocket i with
      | error k =>
        simp only [Next.decr, mu, inputsMu, List.length_cons]
        omega
      | ok x =>
        obtain ⟨t, data, s⟩ := x
        have hs := fromSocket_size hf
        simp only
        by_cases hc : (t == 23 || v13 && t == 20 || t == 24 || s) = true
        · simp only [hc, if_true, Next.decr, mu, inputsMu, List.length_cons]
          omega
        · simp only [hc, Bool.false_eq_true, if_false]
          cases ha : d.add t data with
          | error e =>
            simp only [Next.decr, mu, inputsMu, List.length_cons]
            omega
          | ok d' =>
            have hsz := add_size ha
            simp only
            apply Next.decr_mono (ih d')
            · simp only [mu, inputsMu]; omega
            · simp

/-! ### totality of the hello check blocks -/

theorem runBlocks_total (bs : List (Unit → Chk)) (h : ∀ b ∈ bs, ∃ r, b () = .ok r) :
    ∃ v, runBlocks bs = .ok v := by
  induction bs with
  | nil => exact ⟨_, rfl⟩
  | cons b tl ih =>
    obtain ⟨r, hr⟩ := h b List.mem_cons_self
    unfold runBlocks
    rw [hr]
    cases r with
    | none => exact ih (fun b' hb' => h b' (List.mem_cons_of_mem _ hb'))
    | some p => obtain ⟨d, m⟩ := p; exact ⟨_, rfl⟩

theorem withExt_ok {α : Type} (e : Ext α) (k : Option α → Chk) (hd : e.isDup = false) :
    withExt e k = k e.toOption := by
  cases e with
  | absent => rfl
  | present v => rfl
  | dup => exact Bool.noConfusion hd

macro "finish_chk" : tactic =>
  `(tactic| (repeat' (first | exact ⟨_, rfl⟩ | contradiction | split |
      simp only [Bool.false_eq_true, if_false, if_true] | (simp_all [optEmpty]; done))))

theorem chkBasics_total (h : CH) : ∃ r, chkBasics h = .ok r := by
  unfold chkBasics alertIf done
  finish_chk

theorem chkSupportedVersions_total (h : CH) (hd : h.supportedVersions.isDup = false) :
    ∃ r, chkSupportedVersions h = .ok r := by
  unfold chkSupportedVersions
  rw [withExt_ok _ _ hd]
  unfold alertIf done
  finish_chk

/-- an extension without payload is answered by the first check -/
theorem chkSupportedVersions_presentNone (h : CH) (hn : h.supportedVersions.isPresentNone = true) :
    chkSupportedVersions h = .ok (some (dDecodeError, "Malformed supported_versions extension")) := by
  unfold chkSupportedVersions
  cases hs : h.supportedVersions with
  | dup => rw [hs] at hn; exact Bool.noConfusion hn
  | absent => rw [hs] at hn; exact Bool.noConfusion hn
  | present vs =>
    cases vs with
    | none => rfl
    | some l => rw [hs] at hn; exact Bool.noConfusion hn

theorem chkSigAlgs_total (h : CH) (hd : h.sigAlgs.isDup = false) (hv : h.supportedVersions.isDup = false) :
    ∃ r, chkSigAlgs h = .ok r := by
  unfold chkSigAlgs
  rw [withExt_ok _ _ hv, withExt_ok _ _ hd]
  unfold alertIf done
  finish_chk

theorem chkAlpn_total (h : CH) (hd : h.alpn.isDup = false) : ∃ r, chkAlpn h = .ok r := by
  unfold chkAlpn
  rw [withExt_ok _ _ hd]
  unfold alertIf done
  finish_chk

theorem chkSni_total (h : CH) (hd : h.sni.isDup = false) : ∃ r, chkSni h = .ok r := by
  unfold chkSni
  rw [withExt_ok _ _ hd]
  unfold alertIf done
  finish_chk

theorem chkEms_total (h : CH) (hd : h.ems.isDup = false) : ∃ r, chkEms h = .ok r := by
  unfold chkEms
  rw [withExt_ok _ _ hd]
  unfold alertIf done
  finish_chk


theorem realVersion_total (h : CH) (hd : h.supportedVersions.isDup = false)
    (hn : h.supportedVersions.isPresentNone = false) : ∃ v, realVersion h = .ok v := by
  unfold realVersion
  cases hs : h.supportedVersions with
  | dup => rw [hs] at hd; exact Bool.noConfusion hd
  | absent => simp only [getExt]; finish_chk
  | present vs =>
    cases vs with
    | none => rw [hs] at hn; exact Bool.noConfusion hn
    | some l => simp only [getExt, iterOpt]; finish_chk

theorem chkVersion_total (s : SrvSettings) (h : CH) (hd : h.supportedVersions.isDup = false)
    (hn : h.supportedVersions.isPresentNone = false) : ∃ r, chkVersion s h = .ok r := by
  unfold chkVersion
  obtain ⟨v, hv⟩ := realVersion_total h hd hn
  rw [hv]
  simp only [alertIf, done]
  finish_chk

theorem offers13_ok (h : CH) (hd : h.supportedVersions.isDup = false)
    (hn : h.supportedVersions.isPresentNone = false) : ∃ b, offers13 h = .ok b := by
  unfold offers13
  cases hs : h.supportedVersions with
  | dup => rw [hs] at hd; exact Bool.noConfusion hd
  | absent => exact ⟨_, rfl⟩
  | present vs =>
    cases vs with
    | none => rw [hs] at hn; exact Bool.noConfusion hn
    | some l => exact ⟨_, rfl⟩

theorem chkEcPointFormats_total (s : SrvSettings) (h : CH) (hd : h.supportedVersions.isDup = false)
    (hn : h.supportedVersions.isPresentNone = false) (he : h.ecPointFormats.isDup = false) :
    ∃ r, chkEcPointFormats s h = .ok r := by
  unfold chkEcPointFormats
  obtain ⟨v, hv⟩ := realVersion_total h hd hn
  obtain ⟨o, ho⟩ := offers13_ok h hd hn
  rw [hv, ho]
  simp only
  split
  · rw [withExt_ok _ _ he]
    cases h.ecPointFormats with
    | absent => exact ⟨_, rfl⟩
    | dup => exact ⟨_, rfl⟩
    | present f =>
      simp only [Ext.toOption]
      cases f with
      | none => exact ⟨_, rfl⟩
      | some l => simp only [alertIf, optEmpty, iterOpt, done]; finish_chk
  · exact ⟨_, rfl⟩

theorem chkCertTypeExt_total (h : CH) (hd : h.certType.isDup = false) : ∃ r, chkCertTypeExt h = .ok r := by
  unfold chkCertTypeExt
  rw [withExt_ok _ _ hd]
  unfold alertIf done
  finish_chk

theorem chkVersionNegotiation_total (s : SrvSettings) (h : CH) (hd : h.supportedVersions.isDup = false)
    (hn : h.supportedVersions.isPresentNone = false) : ∃ r, chkVersionNegotiation s h = .ok r := by
  unfold chkVersionNegotiation
  rw [withExt_ok _ _ hd]
  cases hs : h.supportedVersions with
  | dup => exact ⟨_, rfl⟩
  | absent => exact ⟨_, rfl⟩
  | present vs =>
    cases vs with
    | none => rw [hs] at hn; exact Bool.noConfusion hn
    | some l => simp only [Ext.toOption, alertIf, done]; finish_chk

theorem chkGroups_total (h : CH) (hd : h.supGroups.isDup = false) : ∃ r, chkGroups h = .ok r := by
  unfold chkGroups
  rw [withExt_ok _ _ hd]
  unfold alertIf done
  finish_chk

theorem chkHeartbeat_total (h : CH) (hd : h.heartbeat.isDup = false) : ∃ r, chkHeartbeat h = .ok r := by
  unfold chkHeartbeat
  rw [withExt_ok _ _ hd]
  unfold alertIf done
  finish_chk

theorem chkRecordSizeLimit_total (h : CH) (hd : h.recordSizeLimit.isDup = false) :
    ∃ r, chkRecordSizeLimit h = .ok r := by
  unfold chkRecordSizeLimit
  rw [withExt_ok _ _ hd]
  unfold alertIf done
  finish_chk

theorem chkCertTypes_total (s : SrvSettings) (h : CH) (hd : h.certType.isDup = false)
    (hn : h.certType.isPresentNone = false) : ∃ r, chkCertTypes s h = .ok r := by
  unfold chkCertTypes
  split
  · exact ⟨_, rfl⟩
  rw [withExt_ok _ _ hd]
  cases hs : h.certType with
  | dup => exact ⟨_, rfl⟩
  | absent => exact ⟨_, rfl⟩
  | present t =>
    cases t with
    | none => rw [hs] at hn; exact Bool.noConfusion hn
    | some l => simp only [Ext.toOption, iterOpt, alertIf, done]; finish_chk


theorem offers13_total (h : CH) (hd : h.supportedVersions.isDup = false)
    (hn : h.supportedVersions.isPresentNone = false) :
    offers13 h = .ok false ∨ ∃ vs, h.supportedVersions = .present (some vs) ∧ offers13 h = .ok true := by
  unfold offers13
  cases hs : h.supportedVersions with
  | dup => rw [hs] at hd; exact Bool.noConfusion hd
  | absent => exact Or.inl rfl
  | present vs =>
    cases vs with
    | none => rw [hs] at hn; exact Bool.noConfusion hn
    | some l =>
      simp only [getExt, iterOpt]
      cases l.contains 0x0304 with
      | false => exact Or.inl rfl
      | true => exact Or.inr ⟨l, rfl, rfl⟩

theorem chkEarlyData_total (h : CH) (h1 : h.earlyData.isDup = false) (h2 : h.psk.isDup = false) :
    ∃ r, chkEarlyData h = .ok r := by
  unfold chkEarlyData
  rw [withExt_ok _ _ h1, withExt_ok _ _ h2]
  unfold alertIf done
  finish_chk

theorem chkKeyExchange_total (h : CH) (b : Bool) (h1 : h.sigAlgs.isDup = false) (h2 : h.psk.isDup = false)
    (h3 : h.pskModes.isDup = false) : ∃ r, chkKeyExchange h b = .ok r := by
  unfold chkKeyExchange
  rw [withExt_ok _ _ h1, withExt_ok _ _ h2, withExt_ok _ _ h3]
  unfold alertIf done
  finish_chk

theorem chkKeyShare_total (h : CH) (vs : List Ver) (b : Bool) (h1 : h.supGroups.isDup = false)
    (h2 : h.keyShare.isDup = false) : ∃ r, chkKeyShare h vs b = .ok r := by
  unfold chkKeyShare
  rw [withExt_ok _ _ h1, withExt_ok _ _ h2]
  cases h.supGroups.toOption with
  | none => simp only []; finish_chk
  | some g =>
    cases h.keyShare.toOption with
    | none => simp only []; finish_chk
    | some sh =>
      cases g <;> cases sh <;> simp only [alertIf, optEmpty, done, Option.isNone] <;> finish_chk

theorem chkPsk_total (h : CH) (k : Bool → Chk) (hk : ∀ b, ∃ r, k b = .ok r)
    (h1 : h.psk.isDup = false) (h2 : h.pskModes.isDup = false) (h3 : h.keyShare.isDup = false)
    (h4 : h.supGroups.isDup = false) (h5 : h.pha.isDup = false) : ∃ r, chkPsk h k = .ok r := by
  unfold chkPsk
  rw [withExt_ok _ _ h1, withExt_ok _ _ h2, withExt_ok _ _ h3, withExt_ok _ _ h4, withExt_ok _ _ h5]
  generalize h.pha.toOption = pha
  generalize h.pskModes.toOption = modes
  generalize h.psk.toOption = psk
  generalize h.keyShare.toOption = ks
  rcases psk with _ | ⟨ids, bs, last⟩
  · rcases modes with _ | _ | m <;>
      simp only [alertIf, optEmpty] <;>
      repeat' (first | exact ⟨_, rfl⟩ | exact hk _ | split)
  · rcases modes with _ | _ | m <;> rcases ids with _ | ids <;> rcases bs with _ | bs <;>
      simp only [alertIf, optEmpty, iterOpt] <;>
      repeat' (first | exact ⟨_, rfl⟩ | exact hk _ | split)


theorem shRealVersion_total (h : SH) (hd : h.supportedVersions.isDup = false) :
    ∃ rv, shRealVersion h = .ok rv := by
  unfold shRealVersion
  split
  · cases hs : h.supportedVersions with
    | dup => rw [hs] at hd; exact Bool.noConfusion hd
    | absent => exact ⟨_, rfl⟩
    | present v => exact ⟨_, rfl⟩
  · exact ⟨_, rfl⟩


theorem chkTls13_total (h : CH) (hd : h.supportedVersions.isDup = false)
    (hn : h.supportedVersions.isPresentNone = false) (h1 : h.psk.isDup = false)
    (h2 : h.pskModes.isDup = false) (h3 : h.keyShare.isDup = false) (h4 : h.supGroups.isDup = false)
    (h5 : h.pha.isDup = false) (h6 : h.sigAlgs.isDup = false) (h7 : h.earlyData.isDup = false) :
    ∃ r, chkTls13 h = .ok r := by
  unfold chkTls13
  rcases offers13_total h hd hn with ho | ⟨vs, hs, ho⟩
  · rw [ho]; exact ⟨_, rfl⟩
  · rw [ho, hs]
    simp only
    apply chkPsk_total h _ _ h1 h2 h3 h4 h5
    intro b
    obtain ⟨r1, e1⟩ := chkKeyShare_total h vs b h4 h3
    rw [e1]
    cases r1 with
    | some a => exact ⟨_, rfl⟩
    | none =>
      obtain ⟨r2, e2⟩ := chkKeyExchange_total h b h6 h1 h2
      simp only
      rw [e2]
      cases r2 with
      | some a => exact ⟨_, rfl⟩
      | none => exact chkEarlyData_total h h7 h1


theorem shkTls13_total (c : CliState) (h : SH) (hd : h.supportedVersions.isDup = false)
    (h1 : h.keyShare.isDup = false) (h2 : h.psk.isDup = false) :
    ∃ r, shkTls13 c h = .ok r := by
  unfold shkTls13
  obtain ⟨rv, hr⟩ := shRealVersion_total h hd
  rw [hr]
  simp only
  split
  · exact ⟨_, rfl⟩
  · rw [withExt_ok _ _ h1, withExt_ok _ _ h2]
    generalize h.keyShare.toOption = ks
    generalize h.psk.toOption = psk
    rcases ks with _ | _ | g <;> rcases psk with _ | _ | i <;>
      rcases hs : c.sharesSent with _ | sent <;> rcases hp : c.pskIdsSent with _ | n <;>
      simp only [alertIf, done, Option.isNone, Bool.and_true, Bool.and_false, Bool.and_self] <;>
      repeat' (first | exact ⟨_, rfl⟩ | contradiction | (cases hc : sent.contains g <;> simp only [Bool.not_false, Bool.not_true]) | split)

/-- a passing run answered `none` in every block -/
theorem runBlocks_pass_inv (bs : List (Unit → Chk)) (h : runBlocks bs = .ok .pass) :
    ∀ b ∈ bs, b () = .ok none := by
  induction bs with
  | nil => intro b hb; cases hb
  | cons b0 tl ih =>
    intro b hb
    unfold runBlocks at h
    cases hb0 : b0 () with
    | error e => rw [hb0] at h; cases h
    | ok r =>
      rw [hb0] at h
      cases r with
      | some p => obtain ⟨d, m⟩ := p; simp only at h; cases h
      | none =>
        simp only at h
        cases hb with
        | head => exact hb0
        | tail _ hmem => exact ih h b hmem

end Tls.ErrPath
