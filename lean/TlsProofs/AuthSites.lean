import TlsProofs.AuthSig
/-
  C05 helper lemmas, part 2: what an accepting verification site has established.

  `EncFn C f`  : `f` is a public encoding built from hashing, constant prefixes, truncation and the
                 legacy MD5‖SHA-1 pair — the only things the code does to a message before the key
                 operation sees it.
  `Proved C key msg sig` : some algorithm of `key` verified `sig` on `f msg` for such an `f`.
-/
namespace Tls.Auth
open Gen

inductive EncFn (C : Crypto) : (Bytes → Bytes) → Prop
  | id : EncFn C (fun m => m)
  | hash (h : HashName) {f : Bytes → Bytes} : EncFn C f → EncFn C (fun m => C.hash h (f m))
  | pref (p : Bytes) {f : Bytes → Bytes} : EncFn C f → EncFn C (fun m => p ++ f m)
  | take (n : Nat) {f : Bytes → Bytes} : EncFn C f → EncFn C (fun m => (f m).take n)
  | legacy {f : Bytes → Bytes} : EncFn C f → EncFn C (fun m => C.hash .md5 (f m) ++ C.hash .sha1 (f m))

theorem EncFn.comp {C : Crypto} {g : Bytes → Bytes} (hg : EncFn C g) :
    ∀ {f : Bytes → Bytes}, EncFn C f → EncFn C (fun m => g (f m)) := by
  induction hg with
  | id => intro f hf; exact hf
  | hash h _ ih => intro f hf; exact EncFn.hash h (ih hf)
  | pref p _ ih => intro f hf; exact EncFn.pref p (ih hf)
  | take n _ ih => intro f hf; exact EncFn.take n (ih hf)
  | legacy _ ih => intro f hf; exact EncFn.legacy (ih hf)

/-- the key `key` verified `sig` on a public encoding of `msg` -/
def Proved (C : Crypto) (key : Nat) (msg sig : Bytes) : Prop :=
  ∃ (alg : SigAlg) (f : Bytes → Bytes), EncFn C f ∧ C.verify key alg (f msg) sig = true

theorem Proved.of_enc {C : Crypto} {key : Nat} {msg sig : Bytes} {g : Bytes → Bytes} (hg : EncFn C g)
    (h : Proved C key (g msg) sig) : Proved C key msg sig := by
  obtain ⟨alg, f, hf, hv⟩ := h
  exact ⟨alg, fun m => f (g m), hf.comp hg, hv⟩

/-! ### key objects -/

theorem rsaVerify_true (C : Crypto) (c : Cert) (sig data : Bytes) (a : VArgs)
    (h : rsaVerify C c sig data a = .ok true) : Proved C c.key data sig := by
  unfold rsaVerify at h
  split at h
  · split at h
    · cases h
    · split at h
      · simp only [Except.ok.injEq, Bool.or_eq_true] at h
        rcases h with h | h
        · exact ⟨_, _, EncFn.pref _ EncFn.id, h⟩
        · exact ⟨_, _, EncFn.pref _ EncFn.id, h⟩
      · simp only [Except.ok.injEq] at h
        exact ⟨_, _, EncFn.pref _ EncFn.id, h⟩
      · simp only [Except.ok.injEq] at h
        exact ⟨_, _, EncFn.id, h⟩
  · split at h
    · simp only [Except.ok.injEq] at h
      exact ⟨_, _, EncFn.id, h⟩
    · cases h
  · cases h

theorem keyVerify_true (C : Crypto) (c : Cert) (m : Method) (sig data : Bytes) (a : VArgs)
    (h : keyVerify C c m sig data a = .ok true) : Proved C c.key data sig := by
  unfold keyVerify at h
  split at h
  · exact rsaVerify_true C c sig data a h
  · exact rsaVerify_true C c sig data a h
  · split at h
    · split at h
      · exact Proved.of_enc (EncFn.hash _ EncFn.id) (rsaVerify_true C c sig _ a h)
      · cases h
    · cases h
  · split at h
    · split at h
      · exact Proved.of_enc (EncFn.hash _ EncFn.id) (rsaVerify_true C c sig _ a h)
      · cases h
    · cases h
  · unfold ecdsaVerify at h
    split at h
    · simp at h
    · simp only [Except.ok.injEq] at h
      exact ⟨_, _, EncFn.id, h⟩
  · split at h
    · split at h
      · unfold ecdsaVerify at h
        split at h
        · simp at h
        · simp only [Except.ok.injEq] at h
          exact ⟨_, _, EncFn.hash _ EncFn.id, h⟩
      · cases h
    · cases h
  · cases h
  · cases h
  · simp only [Except.ok.injEq] at h
    exact ⟨_, _, EncFn.id, h⟩
  · simp only [Except.ok.injEq] at h
    exact ⟨_, _, EncFn.id, h⟩
  · split at h
    · simp at h
    · split at h
      · simp at h
      · simp only [Except.ok.injEq] at h
        exact ⟨_, _, EncFn.id, h⟩
  · cases h

/-! ### TLS 1.3 signed bytes -/

theorem calcVerifyBytes13 (C : Crypto) (t : Transcript) (sid : SchemeId) (prf : HashName) (tag : Bytes)
    (b : Bool) (vb : Bytes) (h : calcVerifyBytes C 4 t (some sid) prf tag b = .ok vb) :
    ∃ f, EncFn C f ∧ vb = f (tbs13 tag (digest C prf t)) := by
  unfold calcVerifyBytes at h
  simp only [show ¬ ((4 : Nat) = 1 ∨ (4 : Nat) = 2) by omega, show ¬ ((4 : Nat) = 3) by omega, if_false, if_true] at h
  split at h
  · simp only [Except.ok.injEq] at h
    exact ⟨_, EncFn.id, h.symm⟩
  · split at h
    · simp only [Except.ok.injEq] at h
      exact ⟨_, EncFn.hash _ EncFn.id, h.symm⟩
    · cases h
  · cases h

theorem cv13Call_true (C : Crypto) (pk : Cert) (sid : SchemeId) (sig ctx : Bytes) (cc : Bool)
    (bp : Option SchemeId) (h : cv13Call C pk sid sig ctx cc bp = .ok true) : Proved C pk.key ctx sig := by
  unfold cv13Call at h
  split at h
  · exact keyVerify_true _ _ _ _ _ _ h
  · split at h
    · split at h
      · cases h
      · split at h
        · split at h
          · cases h
          · split at h
            · cases h
            · split at h
              · cases h
              · exact keyVerify_true _ _ _ _ _ _ h
        · exact keyVerify_true _ _ _ _ _ _ h
    · split at h
      · split at h
        · cases h
        · split at h
          · exact keyVerify_true _ _ _ _ _ _ h
          · cases h
      · split at h
        · cases h
        · split at h
          · cases h
          · exact keyVerify_true _ _ _ _ _ _ h


/-! ### TLS 1.3 server: client CertificateVerify -/

theorem verifyCV13Server_ok (C : Crypto) (s : Settings) (offered : List SchemeId) (chain : Chain)
    (t : Transcript) (prf : HashName) (own : Option SchemeId) (cv : CertVerify) (ch : Chain)
    (h : verifyCV13Server C s offered chain t prf own cv = .ok ch) :
    ch = chain ∧ (chain = [] ∨ ∃ c rest sid, chain = c :: rest ∧ cv.scheme = some sid ∧ sid ∈ offered ∧
      compatible c 4 sid = true ∧ Proved C c.key (tbs13 tagClient (digest C prf t)) cv.signature) := by
  unfold verifyCV13Server at h
  cases chain with
  | nil => simp [pure, Except.pure] at h; exact ⟨h, Or.inl rfl⟩
  | cons c rest =>
    simp only [bind, Except.bind, pure, Except.pure] at h
    cases hsch : cv.scheme with
    | none => simp [hsch, throw, throwThe, MonadExceptOf.throw] at h
    | some sid =>
      simp only [hsch] at h
      cases hv : sigHashesToList s false (c :: rest) 4 with
      | error e => simp [hv] at h
      | ok valid =>
        simp only [hv] at h
        by_cases hmem : ¬ sid ∈ valid ∨ ¬ sid ∈ offered
        · simp [hmem, throw, throwThe, MonadExceptOf.throw] at h
        · simp only [hmem, if_false] at h
          have hmem' : sid ∈ valid ∧ sid ∈ offered := by
            constructor
            · exact Classical.not_not.mp (fun x => hmem (Or.inl x))
            · exact Classical.not_not.mp (fun x => hmem (Or.inr x))
          cases hvb : calcVerifyBytes C 4 t (some sid) prf tagClient false with
          | error e => simp [hvb] at h
          | ok ctx =>
            simp only [hvb] at h
            cases hcall : cv13Call C c sid cv.signature ctx false own with
            | error e => simp [hcall] at h
            | ok b =>
              simp only [hcall] at h
              cases b with
              | false => simp [throw, throwThe, MonadExceptOf.throw] at h
              | true =>
                simp at h
                refine ⟨h.symm, Or.inr ⟨c, rest, sid, rfl, rfl, hmem'.2, ?_, ?_⟩⟩
                · exact sigHashes_cert_compatible s false c rest 4 valid hv sid hmem'.1
                · obtain ⟨f, hf, hctx⟩ := calcVerifyBytes13 C t sid prf tagClient false ctx hvb
                  have := cv13Call_true C c sid cv.signature ctx false own hcall
                  rw [hctx] at this
                  exact Proved.of_enc hf this

theorem verifyCV13Server_unoffered (C : Crypto) (s : Settings) (offered : List SchemeId) (c : Cert)
    (rest : Chain) (t : Transcript) (prf : HashName) (own : Option SchemeId) (cv : CertVerify)
    (hno : ∀ sid, cv.scheme = some sid → ¬ sid ∈ offered) :
    ∃ e, verifyCV13Server C s offered (c :: rest) t prf own cv = .error e := by
  cases hr : verifyCV13Server C s offered (c :: rest) t prf own cv with
  | error e => exact ⟨e, rfl⟩
  | ok ch =>
    obtain ⟨_, h2⟩ := verifyCV13Server_ok C s offered _ t prf own cv ch hr
    rcases h2 with h2 | ⟨c', rest', sid, _, hs, hoff, _⟩
    · cases h2
    · exact absurd hoff (hno sid hs)

theorem verifyCV13Server_wrongtype (C : Crypto) (s : Settings) (offered : List SchemeId) (c : Cert)
    (rest : Chain) (t : Transcript) (prf : HashName) (own : Option SchemeId) (cv : CertVerify)
    (hno : ∀ sid, cv.scheme = some sid → compatible c 4 sid = false) :
    ∃ e, verifyCV13Server C s offered (c :: rest) t prf own cv = .error e := by
  cases hr : verifyCV13Server C s offered (c :: rest) t prf own cv with
  | error e => exact ⟨e, rfl⟩
  | ok ch =>
    obtain ⟨_, h2⟩ := verifyCV13Server_ok C s offered _ t prf own cv ch hr
    rcases h2 with h2 | ⟨c', rest', sid, hc, hs, _, hcomp, _⟩
    · cases h2
    · simp only [List.cons.injEq] at hc
      rw [← hc.1, hno sid hs] at hcomp
      cases hcomp


/-! ### certificate checks return the end-entity certificate -/

theorem checkCertChain_ok (s : Settings) (ver : Nat) (chain : Chain) (c : Cert)
    (h : checkCertChain s ver chain = .ok c) : ∃ rest, chain = c :: rest := by
  unfold checkCertChain at h
  cases chain with
  | nil => cases h
  | cons c0 rest =>
    refine ⟨rest, ?_⟩
    simp only at h
    have : c0 = c := by
      repeat' (split at h)
      all_goals first
        | (cases h; done)
        | (simp only [Except.ok.injEq] at h; exact h)
    rw [this]

theorem clientGetKeyFromChain_ok (s : Settings) (ver : Nat) (chain : Chain) (c : Cert)
    (h : clientGetKeyFromChain s ver chain = .ok c) : ∃ rest, chain = c :: rest := by
  unfold clientGetKeyFromChain at h
  cases chain with
  | nil => cases h
  | cons c0 rest => exact checkCertChain_ok s ver _ c h

/-! ### TLS 1.3 client: server CertificateVerify without delegated credential -/

theorem liftExc13_ok {α : Type} (r : Except Reject α) (x : α) (h : liftExc13 r = .ok x) : r = .ok x := by
  unfold liftExc13 at h
  split at h
  · simp only [Except.ok.injEq] at h; subst h; rfl
  · cases h

theorem verifyCV13Client_ok (C : Crypto) (s : Settings) (chSig : List SchemeId) (chain : Chain)
    (certBytes : Bytes) (t : Transcript) (prf : HashName) (cv : CertVerify) (ch : Chain)
    (h : verifyCV13Client C s chSig chain certBytes [] t prf cv = .ok ch) :
    ch = chain ∧ ∃ c rest sid, chain = c :: rest ∧ cv.scheme = some sid ∧ sid ∈ chSig ∧
      compatible c 4 sid = true ∧ Proved C c.key (tbs13 tagServer (digest C prf t)) cv.signature := by
  unfold verifyCV13Client at h
  have h := liftExc13_ok _ _ h
  unfold verifyCV13ClientRaw at h
  simp only [bind, Except.bind, pure, Except.pure] at h
  cases hsch : cv.scheme with
  | none => simp [hsch, throw, throwThe, MonadExceptOf.throw] at h
  | some sid =>
    simp only [hsch] at h
    by_cases hadv : sid ∈ chSig ++ s.dcSigAlgs
    case neg => simp [hadv, throw, throwThe, MonadExceptOf.throw] at h
    simp only [hadv, not_true_eq_false, if_false] at h
    cases hvb : calcVerifyBytes C 4 t (some sid) prf tagServer false with
    | error e => simp [hvb] at h
    | ok ctx =>
      simp only [hvb] at h
      cases hpk : clientGetKeyFromChain s 4 chain with
      | error e => simp [hpk] at h
      | ok pk =>
        simp only [hpk, List.length_nil, show ¬ (0 > 1) by omega, if_false] at h
        obtain ⟨rest, hchain⟩ := clientGetKeyFromChain_ok s 4 chain pk hpk
        cases hv : sigHashesToList s false chain 4 with
        | error e => simp [hv] at h
        | ok valid =>
          simp only [hv] at h
          by_cases hmem : ¬ sid ∈ chSig ∨ ¬ sid ∈ valid
          · simp [hmem, throw, throwThe, MonadExceptOf.throw] at h
          · simp only [hmem, if_false] at h
            have h1 : sid ∈ chSig := Classical.not_not.mp (fun x => hmem (Or.inl x))
            have h2 : sid ∈ valid := Classical.not_not.mp (fun x => hmem (Or.inr x))
            cases hcall : cv13Call C pk sid cv.signature ctx true (some sid) with
            | error e => simp [hcall] at h
            | ok b =>
              simp only [hcall] at h
              cases b with
              | false => simp [throw, throwThe, MonadExceptOf.throw] at h
              | true =>
                simp at h
                refine ⟨h.symm, pk, rest, sid, hchain, rfl, h1, ?_, ?_⟩
                · rw [hchain] at hv
                  exact sigHashes_cert_compatible s false pk rest 4 valid hv sid h2
                · obtain ⟨f, hf, hctx⟩ := calcVerifyBytes13 C t sid prf tagServer false ctx hvb
                  have := cv13Call_true C pk sid cv.signature ctx true (some sid) hcall
                  rw [hctx] at this
                  exact Proved.of_enc hf this

/-! ### delegated credential -/

theorem dcCall_true (C : Crypto) (cert : Cert) (sid : SchemeId) (sig ctx : Bytes)
    (hcall : dcCall C cert sid sig ctx = .ok true) : Proved C cert.key ctx sig := by
  unfold dcCall at hcall
  split at hcall
  · exact keyVerify_true _ _ _ _ _ _ hcall
  · split at hcall
    · split at hcall
      · cases hcall
      · split at hcall
        · cases hcall
        · split at hcall
          · cases hcall
          · split at hcall
            · cases hcall
            · exact keyVerify_true _ _ _ _ _ _ hcall
    · split at hcall
      · split at hcall
        · exact keyVerify_true _ _ _ _ _ _ hcall
        · cases hcall
      · split at hcall
        · cases hcall
        · split at hcall
          · cases hcall
          · exact keyVerify_true _ _ _ _ _ _ hcall

theorem verifyDC_ok (C : Crypto) (cert : Cert) (certBytes : Bytes) (chSig chDc : List SchemeId)
    (dc : DelegatedCred) (cvScheme : SchemeId)
    (h : verifyDC C cert certBytes chSig chDc dc cvScheme = .ok ()) :
    dc.dcScheme ∈ chDc ∧ dc.algorithm ∈ chSig ∧ dc.dcScheme = cvScheme ∧
      Proved C cert.key (dcContext certBytes dc.credBytes dc.algorithm) dc.signature := by
  unfold verifyDC at h
  simp only [bind, Except.bind, pure, Except.pure] at h
  by_cases h1 : dc.dcScheme ∈ chDc
  · by_cases h2 : dc.algorithm ∈ chSig
    · by_cases h3 : dc.dcScheme = cvScheme
      · subst h3
        simp only [h1, h2, not_true_eq_false, if_false, ne_eq] at h
        refine ⟨h1, h2, rfl, ?_⟩
        cases hcall : dcCall C cert dc.algorithm dc.signature (dcContext certBytes dc.credBytes dc.algorithm) with
        | error e => simp [hcall] at h
        | ok b =>
          cases b with
          | false => simp [hcall, throw, throwThe, MonadExceptOf.throw] at h
          | true => exact dcCall_true _ _ _ _ _ hcall
      · simp [h1, h2, h3, throw, throwThe, MonadExceptOf.throw] at h
    · simp [h1, h2, throw, throwThe, MonadExceptOf.throw] at h
  · simp [h1, throw, throwThe, MonadExceptOf.throw] at h

/-- with a delegated credential: the credential's key is used only after the delegation
    signature verified under the CERTIFICATE key, and the scheme was offered in the
    delegated_credential extension -/
theorem verifyCV13Client_dc_ok (C : Crypto) (s : Settings) (chSig : List SchemeId) (chain : Chain)
    (certBytes : Bytes) (dc : DelegatedCred) (t : Transcript) (prf : HashName) (cv : CertVerify) (ch : Chain)
    (h : verifyCV13Client C s chSig chain certBytes [dc] t prf cv = .ok ch) :
    ch = chain ∧ ∃ c rest, chain = c :: rest ∧ cv.scheme = some dc.dcScheme ∧ dc.dcScheme ∈ s.dcSigAlgs ∧
      dc.algorithm ∈ chSig ∧
      Proved C c.key (dcContext certBytes dc.credBytes dc.algorithm) dc.signature ∧
      Proved C dc.dcKey.key (tbs13 tagServer (digest C prf t)) cv.signature := by
  unfold verifyCV13Client at h
  have h := liftExc13_ok _ _ h
  unfold verifyCV13ClientRaw at h
  simp only [bind, Except.bind, pure, Except.pure] at h
  cases hsch : cv.scheme with
  | none => simp [hsch, throw, throwThe, MonadExceptOf.throw] at h
  | some sid =>
    simp only [hsch] at h
    by_cases hadv : sid ∈ chSig ++ s.dcSigAlgs
    case neg => simp [hadv, throw, throwThe, MonadExceptOf.throw] at h
    simp only [hadv, not_true_eq_false, if_false] at h
    cases hvb : calcVerifyBytes C 4 t (some sid) prf tagServer false with
    | error e => simp [hvb] at h
    | ok ctx =>
      simp only [hvb] at h
      cases hpk : clientGetKeyFromChain s 4 chain with
      | error e => simp [hpk] at h
      | ok pk =>
        simp only [hpk, List.length_cons, List.length_nil, show ¬ (0 + 1 > 1) by omega, if_false] at h
        obtain ⟨rest, hchain⟩ := clientGetKeyFromChain_ok s 4 chain pk hpk
        by_cases hdcs : s.dcSigAlgs = []
        · simp [hdcs, throw, throwThe, MonadExceptOf.throw] at h
        · simp only [hdcs, if_false] at h
          cases hdc : verifyDC C pk certBytes chSig s.dcSigAlgs dc sid with
          | error e => simp [hdc] at h
          | ok u =>
            simp only [hdc] at h
            obtain ⟨d1, d2, d3, d4⟩ := verifyDC_ok C pk certBytes chSig s.dcSigAlgs dc sid hdc
            cases hcall : cv13Call C dc.dcKey dc.dcScheme cv.signature ctx true (some dc.dcScheme) with
            | error e => simp [hcall] at h
            | ok b =>
              simp only [hcall] at h
              cases b with
              | false => simp [throw, throwThe, MonadExceptOf.throw] at h
              | true =>
                simp at h
                refine ⟨h.symm, pk, rest, hchain, by rw [d3], d1, d2, d4, ?_⟩
                obtain ⟨f, hf, hctx⟩ := calcVerifyBytes13 C t sid prf tagServer false ctx hvb
                have := cv13Call_true C _ _ cv.signature ctx true _ hcall
                rw [hctx] at this
                exact Proved.of_enc hf this

end Tls.Auth
