import TlsModel.Fmt
/- Big-endian integer lemmas and list helpers used by the codec proofs (core Lean only). -/
namespace Tls

theorem beEncode_length (n x : Nat) : (beEncode n x).length = n := by
  induction n with
  | zero => simp [beEncode]
  | succ n ih => simp [beEncode, ih]

theorem beDecode_foldl (b : Bytes) (acc : Nat) :
    b.foldl (fun acc x => acc * 256 + x.toNat) acc = acc * 256 ^ b.length + beDecode b := by
  induction b generalizing acc with
  | nil => simp [beDecode]
  | cons h t ih =>
    simp only [List.foldl_cons, List.length_cons, beDecode]
    rw [ih, ih (0 * 256 + h.toNat)]
    simp [Nat.pow_succ, Nat.add_mul, Nat.mul_assoc, Nat.add_assoc, Nat.mul_comm 256, beDecode]

theorem beDecode_nil : beDecode [] = 0 := rfl

theorem beDecode_cons (h : UInt8) (t : Bytes) :
    beDecode (h :: t) = h.toNat * 256 ^ t.length + beDecode t := by
  simp only [beDecode, List.foldl_cons]
  rw [beDecode_foldl]; simp [beDecode]

/-- a `k`-byte field holds a value below `256^k`: `Parser.get` cannot produce more -/
theorem beDecode_lt (b : Bytes) : beDecode b < 256 ^ b.length := by
  induction b with
  | nil => simp [beDecode]
  | cons h t ih =>
    rw [beDecode_cons, List.length_cons, Nat.pow_succ]
    have := h.toNat_lt
    have h2 : h.toNat * 256 ^ t.length ≤ 255 * 256 ^ t.length := Nat.mul_le_mul_right _ (by omega)
    omega

/-- `beEncode` alone truncates (`x mod 256^n`); the Writer model guards it with `x < 256^n` -/
theorem beDecode_beEncode_mod (n x : Nat) : beDecode (beEncode n x) = x % 256 ^ n := by
  induction n with
  | zero => simp [beEncode, beDecode, Nat.mod_one]
  | succ n ih =>
    simp only [beEncode]
    rw [beDecode_cons, beEncode_length, ih]
    have : (UInt8.ofNat (x / 256 ^ n % 256)).toNat = x / 256 ^ n % 256 := by
      simp
    rw [this, Nat.pow_succ, Nat.mod_mul]
    rw [Nat.mul_comm]; omega

theorem beDecode_beEncode (n x : Nat) (h : x < 256 ^ n) : beDecode (beEncode n x) = x := by
  rw [beDecode_beEncode_mod, Nat.mod_eq_of_lt h]

theorem beEncode_add_mul (n a y : Nat) : beEncode n (a * 256 ^ n + y) = beEncode n y := by
  induction n generalizing a with
  | zero => simp [beEncode]
  | succ n ih =>
    simp only [beEncode]
    have e : a * 256 ^ (n + 1) = (a * 256) * 256 ^ n := by
      rw [Nat.pow_succ, Nat.mul_assoc, Nat.mul_comm 256]
    rw [e, ih]
    have hp : 0 < 256 ^ n := Nat.pow_pos (by omega)
    have : (a * 256 * 256 ^ n + y) / 256 ^ n = a * 256 + y / 256 ^ n := by
      rw [Nat.add_comm, Nat.add_mul_div_right _ _ hp, Nat.add_comm]
    rw [this, Nat.add_comm, Nat.add_mul_mod_self_right]

theorem beEncode_beDecode (b : Bytes) : beEncode b.length (beDecode b) = b := by
  induction b with
  | nil => simp [beEncode]
  | cons h t ih =>
    simp only [List.length_cons, beEncode]
    rw [beDecode_cons, beEncode_add_mul, ih]
    have hp : 0 < 256 ^ t.length := Nat.pow_pos (by omega)
    have hd := beDecode_lt t
    have : (h.toNat * 256 ^ t.length + beDecode t) / 256 ^ t.length = h.toNat := by
      rw [Nat.add_comm, Nat.add_mul_div_right _ _ hp, Nat.div_eq_of_lt hd]; simp
    rw [this]
    have := h.toNat_lt
    simp [Nat.mod_eq_of_lt this]

/-- two different values that fit never share an encoding: no wrap-around -/
theorem beEncode_inj (n x y : Nat) (hx : x < 256 ^ n) (hy : y < 256 ^ n)
    (h : beEncode n x = beEncode n y) : x = y := by
  have := congrArg beDecode h
  rwa [beDecode_beEncode n x hx, beDecode_beEncode n y hy] at this

theorem Fmt.shorter_eq (b : Bytes) (n : Nat) : Fmt.shorter b n = decide (b.length < n) := by
  induction b generalizing n with
  | nil => cases n <;> simp [Fmt.shorter]
  | cons h t ih => cases n <;> simp [Fmt.shorter, ih]

theorem take_append_len {α} (a b : List α) (n : Nat) (h : a.length = n) : (a ++ b).take n = a := by
  subst h; simp

theorem drop_append_len {α} (a b : List α) (n : Nat) (h : a.length = n) : (a ++ b).drop n = b := by
  subst h; simp

end Tls
