import TlsModel.ConnFrag
import TlsProofs.Conn
/-
  Reassembly is the inverse of fragmentation, and the key / delivery invariants of the message
  level carry over to every fragmentation of the channel contents.
-/
namespace Tls.Conn

theorem fragRec_parts (nf : Msg → Nat) (r : Rec) (h1 : r.msg.ct = 22) (h2 : 2 ≤ nf r.msg) :
    fragRec nf r = partsFrom r.gen r.msg (nf r.msg) (nf r.msg) 0 := by
  simp [fragRec, h1, h2]

theorem fragRec_whole (nf : Msg → Nat) (r : Rec) (h : ¬ (r.msg.ct = 22 ∧ 2 ≤ nf r.msg)) :
    fragRec nf r = [⟨r.gen, .whole r.msg⟩] := by
  simp only [fragRec]
  split
  · rename_i hc; simp at hc; exact absurd hc h
  · rfl

/-- feeding the remaining pieces of a message that is being collected -/
theorem reasm_partsFrom (v : Bool) (g : Nat) (m : Msg) (n : Nat) (hm : m.ct = 22) (rest : List Frag)
    (k i : Nat) (hk : 0 < k) (hi : 0 < i) (hn : i + k = n) :
    reasm v (some (m, i)) (partsFrom g m n k i ++ rest) =
      (match reasm v none rest with
       | .error d => .error d
       | .ok (rs, pf) => .ok (⟨g, m⟩ :: rs, pf)) := by
  induction k generalizing i with
  | zero => omega
  | succ k ih =>
    simp only [partsFrom, List.cons_append, reasm, feed, hm]
    by_cases hlast : k = 0
    · subst hlast
      have : i + 1 = n := by omega
      simp [this, partsFrom]
      cases reasm v none rest with
      | error d => rfl
      | ok x => rfl
    · have hne : ¬ (i + 1 = n) := by omega
      simp [hne]
      rw [ih (i + 1) (by omega) (by omega) (by omega)]
      cases reasm v none rest with
      | error d => rfl
      | ok x => rfl

/-- Reassembly inverts fragmentation: whatever number of pieces each handshake message is cut into,
    the receiver gets exactly the messages that were sent, in order, each with the generation it
    was sent under, and ends with an empty defragmenter. -/
theorem reasm_fragRec (v : Bool) (nf : Msg → Nat) (recs : List Rec) :
    reasm v none (recs.flatMap (fragRec nf)) = .ok (recs, none) := by
  induction recs with
  | nil => rfl
  | cons r rest ih =>
    simp only [List.flatMap_cons]
    by_cases hc : r.msg.ct = 22 ∧ 2 ≤ nf r.msg
    · obtain ⟨hct, hn⟩ := hc
      rw [fragRec_parts nf r hct hn]
      -- first piece, then the others
      have h2 : nf r.msg = (nf r.msg - 1) + 1 := by omega
      rw [h2, partsFrom]
      simp only [List.cons_append, reasm, feed, hct]
      have hn' : 2 ≤ nf r.msg - 1 + 1 := by omega
      simp [hn']
      rw [reasm_partsFrom v r.gen r.msg (nf r.msg - 1 + 1) hct _ (nf r.msg - 1) 1 (by omega) (by omega) (by omega)]
      rw [ih]
    · rw [fragRec_whole nf r hc]
      simp [reasm, feed, ih]

/-- keys in step at fragment level: every record carries the generation the reader holds on
    reaching it; the generation moves only once a KeyUpdate is complete -/
def FlightF : Nat → List Frag → Prop
  | _, [] => True
  | g, f :: rest =>
    f.gen = g ∧
    FlightF (match f.piece with
             | .whole m => g + bump m
             | .part m i n => if i + 1 == n then g + bump m else g) rest

theorem flightF_partsFrom (g : Nat) (m : Msg) (n k i : Nat) (rest : List Frag) (hn : i + k = n) :
    FlightF g (partsFrom g m n k i ++ rest) ↔ (if k = 0 then FlightF g rest else FlightF (g + bump m) rest) := by
  induction k generalizing i with
  | zero => simp [partsFrom]
  | succ k ih =>
    simp only [partsFrom, List.cons_append, FlightF, true_and]
    by_cases hk : k = 0
    · subst hk
      have : i + 1 = n := by omega
      simp [this, partsFrom]
    · have hne : ¬ (i + 1 = n) := by omega
      simp [hne]
      rw [ih (i + 1) (by omega)]
      simp [hk]

/-- the message-level invariant implies the fragment-level one, for every fragmentation -/
theorem flight_fragments (nf : Msg → Nat) (g : Nat) (recs : List Rec) (h : Flight g recs) :
    FlightF g (recs.flatMap (fragRec nf)) := by
  induction recs generalizing g with
  | nil => trivial
  | cons r rest ih =>
    obtain ⟨hg, hrest⟩ := h
    simp only [List.flatMap_cons]
    by_cases hc : r.msg.ct = 22 ∧ 2 ≤ nf r.msg
    · rw [fragRec_parts nf r hc.1 hc.2, hg, flightF_partsFrom g r.msg (nf r.msg) (nf r.msg) 0 _ (by omega)]
      have : nf r.msg ≠ 0 := by omega
      simp [this]
      exact ih _ hrest
    · rw [fragRec_whole nf r hc]
      simp only [List.cons_append, List.nil_append, FlightF]
      exact ⟨hg, ih _ hrest⟩

/-- application bytes carried by a fragment sequence -/
def appBytesF : List Frag → Bytes
  | [] => []
  | f :: rest => (match f.piece with | .whole m => payload m | .part .. => []) ++ appBytesF rest

theorem appBytesF_partsFrom (g : Nat) (m : Msg) (n k i : Nat) (rest : List Frag) :
    appBytesF (partsFrom g m n k i ++ rest) = appBytesF rest := by
  induction k generalizing i with
  | zero => simp [partsFrom]
  | succ k ih => simp [partsFrom, appBytesF, ih]

theorem appBytes_fragments (nf : Msg → Nat) (recs : List Rec) :
    appBytesF (recs.flatMap (fragRec nf)) = appBytes recs := by
  induction recs with
  | nil => rfl
  | cons r rest ih =>
    simp only [List.flatMap_cons, appBytes]
    by_cases hc : r.msg.ct = 22 ∧ 2 ≤ nf r.msg
    · rw [fragRec_parts nf r hc.1 hc.2, appBytesF_partsFrom, ih, payload_of_ct22 hc.1]; simp
    · rw [fragRec_whole nf r hc]
      simp [appBytesF, ih]

end Tls.Conn
