import TlsModel.OrderGenEval
import TlsProofs.OrderCfg
/-
  C06, tie by regeneration: the flow transcripts regenerated from the tree under check
  (TlsModel/Gen/Order.lean), run by the hand-written evaluator (TlsModel/OrderGenEval.lean), agree
  with the grammar for every valid configuration.  One kernel evaluation per role × version family.
-/
namespace Tls.Order.Gen

def genOk (c : Cfg) : Bool :=
  matchesGrammar c && noExtraType c && keyChangesGuarded c && postDispatchMatches c

theorem genCheck_client_tls13 : (cfgsOf .client .tls13).all genOk = true := by decide +kernel
theorem genCheck_server_tls13 : (cfgsOf .server .tls13).all genOk = true := by decide +kernel
theorem genCheck_client_tls : (cfgsOf .client .tls).all genOk = true := by decide +kernel
theorem genCheck_server_tls : (cfgsOf .server .tls).all genOk = true := by decide +kernel
theorem genCheck_client_ssl3 : (cfgsOf .client .ssl3).all genOk = true := by decide +kernel
theorem genCheck_server_ssl3 : (cfgsOf .server .ssl3).all genOk = true := by decide +kernel

theorem genOk_of_valid (c : Cfg) (h : c.valid = true) : genOk c = true := by
  have hm := mem_cfgsOf c h
  have key : ∀ (l : List Cfg), l.all genOk = true → c ∈ l → genOk c = true :=
    fun l hl hc => List.all_eq_true.mp hl c hc
  cases hr : c.role <;> cases hv : c.ver <;> rw [hr, hv] at hm
  · exact key _ genCheck_client_ssl3 hm
  · exact key _ genCheck_client_tls hm
  · exact key _ genCheck_client_tls13 hm
  · exact key _ genCheck_server_ssl3 hm
  · exact key _ genCheck_server_tls hm
  · exact key _ genCheck_server_tls13 hm

end Tls.Order.Gen
