import TlsModel.Order
/-
  Proof support for C06 (core Lean only):
  * `hsRunK`   the handshake run on message kinds (epochs/alignment abstracted away)
  * `checkFrom` a bounded exploration of everything the automaton can accept from a state,
               checking every accepting path against the grammar and every silently dropped
               message against `transparent`
  * `checkFrom_sound` the generic induction: a successful exploration covers every accepted trace
               of any length (the only cycles are dropped messages)
  * `allCfgs`  explicit enumeration of the valid configurations + completeness
-/
set_option linter.unusedSimpArgs false

namespace Tls.Order

/-! ### kind-level handshake run -/

def hsRunK (c : Cfg) : St → List MsgKind → Bool
  | _, [] => false
  | s, k :: ks =>
    if s == .dead || s.isPost then false
    else match stepK c s 0 k false with
      | .next s' _ => if s' == .done then ks.isEmpty else hsRunK c s' ks
      | .ignore => hsRunK c s ks
      | _ => false

/-! ### bounded exploration -/

def nt (c : Cfg) (k : MsgKind) : Bool := !transparent c k

/-- explore from state `s` with `pre` = the non-transparent kinds accepted so far -/
def checkFrom (c : Cfg) : Nat → St → List MsgKind → Bool
  | 0, _, _ => false
  | fuel + 1, s, pre =>
    MsgKind.all.all fun k =>
      match stepK c s 0 k false with
      | .next s' _ =>
          nt c k &&
          (if s' == .done then lang c (pre ++ [k])
           else checkFrom c fuel s' (pre ++ [k]))
      | .ignore => transparent c k && !pre.isEmpty
      | _ => true

def checkCfg (c : Cfg) : Bool := checkFrom c 14 (start c).st []

theorem MsgKind.mem_all (k : MsgKind) : k ∈ MsgKind.all := by
  cases k <;> decide

theorem filter_nt_append_singleton (c : Cfg) (pre : List MsgKind) (k : MsgKind)
    (hp : pre.all (nt c) = true) (hk : nt c k = true) : (pre ++ [k]).all (nt c) = true := by
  simp [List.all_append, hp, hk]

theorem filter_all_id {α} (p : α → Bool) (l : List α) (h : l.all p = true) : l.filter p = l := by
  induction l with
  | nil => rfl
  | cons a l ih =>
    simp [List.all_cons] at h
    simp [List.filter_cons, h.1, ih (by simpa using h.2)]

/-- a successful exploration covers every accepted trace, of any length -/
theorem checkFrom_sound (c : Cfg) :
    ∀ (ks : List MsgKind) (fuel : Nat) (s : St) (pre : List MsgKind),
      pre.all (nt c) = true → checkFrom c fuel s pre = true → hsRunK c s ks = true →
      lang c (pre ++ ks.filter (nt c)) = true ∧
      (pre = [] → ∃ k ks', ks = k :: ks' ∧ nt c k = true) := by
  intro ks
  induction ks with
  | nil => intro fuel s pre _ _ h; simp [hsRunK] at h
  | cons k ks ih =>
    intro fuel s pre hpre hchk hrun
    cases fuel with
    | zero => simp [checkFrom] at hchk
    | succ fuel =>
      have hk := (List.all_eq_true.mp hchk) k (MsgKind.mem_all k)
      unfold hsRunK at hrun
      split at hrun
      · cases hrun
      · -- the state is live
        revert hk hrun
        cases hst : stepK c s 0 k false with
        | next s' b =>
          intro hk hrun
          simp only [Bool.and_eq_true] at hk
          obtain ⟨hnt, hrest⟩ := hk
          have hpre' := filter_nt_append_singleton c pre k hpre hnt
          by_cases hd : (s' == St.done) = true
          · simp only [hd, if_true] at hrest hrun
            have : ks = [] := by simpa using hrun
            subst this
            refine ⟨?_, fun _ => ⟨k, [], rfl, hnt⟩⟩
            simp [List.filter_cons, hnt, hrest]
          · simp only [hd] at hrest hrun
            have := ih fuel s' (pre ++ [k]) hpre' hrest hrun
            refine ⟨?_, fun _ => ⟨k, ks, rfl, hnt⟩⟩
            have h1 := this.1
            simp only [List.filter_cons, hnt, if_true]
            simpa [List.append_assoc] using h1
        | ignore =>
          intro hk hrun
          simp only [Bool.and_eq_true] at hk
          obtain ⟨htr, hne⟩ := hk
          have hnt : nt c k = false := by simp [nt, htr]
          have := ih (fuel + 1) s pre hpre hchk hrun
          refine ⟨?_, fun hp => ?_⟩
          · simp only [List.filter_cons, hnt]
            exact this.1
          · subst hp; simp at hne
        | acceptAbort a => intro _ h; cases h
        | warn => intro _ h; cases h
        | deliver => intro _ h; cases h
        | post b => intro _ h; cases h
        | phaStart s' => intro _ h; cases h
        | buffer k' => intro _ h; cases h
        | abort a => intro _ h; cases h
        | peerClosed => intro _ h; cases h
        | acceptClosed => intro _ h; cases h

end Tls.Order
