import TlsModel.Auth
import Mathlib.Data.ZMod.Basic
import Mathlib.Tactic.Ring
/-
  C05 helper lemmas, part 5: SRP.
    * `powMod` (square-and-multiply, as executed) equals `b ^ e % n`;
    * both sides' premaster secrets coincide when the server's verifier is `g^x mod N` for the
      client's `x` (RFC 5054 §2.6 equations as written in keyexchange.py).
-/
namespace Tls.Auth

theorem powModAux_modEq (n : Nat) : ∀ (f b e acc : Nat), e < 2 ^ f →
    Nat.ModEq n (powModAux n f b e acc) (acc * b ^ e)
  | 0, b, e, acc, h => by
    have : e = 0 := by simpa using h
    subst this
    simp [powModAux, Nat.ModEq]
  | f + 1, b, e, acc, h => by
    unfold powModAux
    by_cases he0 : e = 0
    · subst he0; simp [Nat.ModEq]
    · simp only [he0, if_false]
      have he : e / 2 < 2 ^ f := by
        rw [Nat.pow_succ] at h
        omega
      refine (powModAux_modEq n f (b * b % n) (e / 2) _ he).trans ?_
      have hb : Nat.ModEq n ((b * b % n) ^ (e / 2)) ((b * b) ^ (e / 2)) := (Nat.mod_modEq _ _).pow _
      have hsplit : b ^ e = b ^ (e % 2) * (b * b) ^ (e / 2) := by
        rw [← pow_two, ← pow_mul, ← pow_add, Nat.mod_add_div]
      rw [hsplit]
      by_cases h1 : e % 2 = 1
      · simp only [h1, if_true, pow_one]
        have : Nat.ModEq n (acc * b % n) (acc * b) := Nat.mod_modEq _ _
        calc acc * b % n * (b * b % n) ^ (e / 2) ≡ acc * b * (b * b) ^ (e / 2) [MOD n] := this.mul hb
          _ = acc * (b * (b * b) ^ (e / 2)) := by rw [Nat.mul_assoc]
      · have h0 : e % 2 = 0 := by omega
        rw [if_neg h1, h0, pow_zero, one_mul]
        exact (Nat.ModEq.refl acc).mul hb

theorem powModAux_lt (n : Nat) (hn : 0 < n) : ∀ (f b e acc : Nat), acc < n → powModAux n f b e acc < n
  | 0, _, _, acc, h => by simpa [powModAux] using h
  | f + 1, b, e, acc, h => by
    unfold powModAux
    by_cases he0 : e = 0
    · simpa [he0] using h
    · simp only [he0, if_false]
      apply powModAux_lt n hn
      by_cases h1 : e % 2 = 1
      · simp only [h1, if_true]; exact Nat.mod_lt _ hn
      · simpa [h1] using h

theorem powMod_eq (b e n : Nat) : powMod b e n = b ^ e % n := by
  unfold powMod
  have hm := powModAux_modEq n (e + 1) (b % n) e (1 % n) (Nat.lt_of_lt_of_le (Nat.lt_two_pow_self) (Nat.pow_le_pow_right (by omega) (Nat.le_succ e)))
  have hm2 : Nat.ModEq n (powModAux n (e + 1) (b % n) e (1 % n)) (b ^ e) := by
    refine hm.trans ?_
    have h1 : Nat.ModEq n (1 % n) 1 := Nat.mod_modEq _ _
    have h2 : Nat.ModEq n ((b % n) ^ e) (b ^ e) := (Nat.mod_modEq _ _).pow _
    simpa using h1.mul h2
  rcases Nat.eq_zero_or_pos n with hn | hn
  · subst hn
    simpa [Nat.ModEq] using hm2
  · have hlt := powModAux_lt n hn (e + 1) (b % n) e (1 % n) (Nat.mod_lt _ hn)
    have := hm2
    unfold Nat.ModEq at this
    rw [Nat.mod_eq_of_lt hlt] at this
    exact this


/-- the base the client exponentiates, `(B - k*v) % N` with Python's non-negative remainder, is
    `g^b` in `ZMod N` when `B = (g^b + k*v) % N` -/
theorem srp_client_base (N g k v b : Nat) (hN : 0 < N) :
    (((((srpServerB N g k v b : Nat) : Int) - ((k * v : Nat) : Int)) % (N : Int)).toNat : ZMod N) = (g : ZMod N) ^ b := by
  have hnn : 0 ≤ (((srpServerB N g k v b : Nat) : Int) - ((k * v : Nat) : Int)) % (N : Int) :=
    Int.emod_nonneg _ (by omega)
  have h1 : ((((((srpServerB N g k v b : Nat) : Int) - ((k * v : Nat) : Int)) % (N : Int)).toNat : Nat) : ZMod N)
      = (((((srpServerB N g k v b : Nat) : Int) - ((k * v : Nat) : Int)) % (N : Int) : Int) : ZMod N) := by
    rw [← Int.cast_natCast, Int.toNat_of_nonneg hnn]
  rw [h1, ZMod.intCast_mod]
  unfold srpServerB
  rw [powMod_eq]
  push_cast
  ring

/-- **SRP agreement**: with `v = g^x mod N` on the server for the client's `x`, honest `A` and `B`,
    both premaster formulas of keyexchange.py give the same value (`u` is whatever both sides
    derive from `A` and `B`). -/
theorem srp_agreement_aux (N g k x a b u : Nat) (hN : 0 < N)
    (hA : srpClientA N g a % N ≠ 0) (hB : srpServerB N g k (powMod g x N) b % N ≠ 0) :
    ∃ S, srpClientPremaster N g k x a (srpServerB N g k (powMod g x N) b) u = .ok S ∧
      srpServerPremaster N (powMod g x N) b (srpClientA N g a) u = .ok S := by
  unfold srpClientPremaster srpServerPremaster
  simp only [hA, hB, if_false]
  refine ⟨_, rfl, ?_⟩
  congr 1
  symm
  have hbase := srp_client_base N g k (powMod g x N) b hN
  unfold srpClientA
  simp only [powMod_eq] at hbase ⊢
  apply (ZMod.natCast_eq_natCast_iff' _ _ N).mp
  rw [Nat.cast_pow, Nat.cast_pow, hbase]
  simp only [ZMod.natCast_mod, Nat.cast_mul, Nat.cast_pow]
  ring

end Tls.Auth
