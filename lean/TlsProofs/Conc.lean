import TlsModel.Conc
/-
  C18 — proof that the lock discipline gives atomicity: a simulation between the interleaving
  semantics and the serial execution in lock-acquisition order.  Core Lean only.
-/
namespace Tls.Conc

variable {σ ρ : Type}

/-- effect of the thread-local actions of a list on the thread's own state -/
def runLoc : List (Act σ ρ) → ρ → ρ
  | [], l => l
  | .loc f :: r, l => runLoc r (f l)
  | .sh _ :: r, l => runLoc r l
  | .acq :: r, l => runLoc r l
  | .rel :: r, l => runLoc r l

def AllLoc (as : List (Act σ ρ)) : Prop := ∀ a ∈ as, Act.kind a = Kind.loc

theorem runActs_append (a b : List (Act σ ρ)) (x : σ × ρ) :
    runActs (a ++ b) x = runActs b (runActs a x) := by
  simp [runActs, List.foldl_append]

theorem runActs_cons (a : Act σ ρ) (b : List (Act σ ρ)) (x : σ × ρ) :
    runActs (a :: b) x = runActs b (runAct a x) := rfl

theorem runActs_allLoc (as : List (Act σ ρ)) (h : AllLoc as) (s : σ) (l : ρ) :
    runActs as (s, l) = (s, runLoc as l) := by
  induction as generalizing l with
  | nil => rfl
  | cons a as ih =>
    have ha : Act.kind a = Kind.loc := h a (by simp)
    have hr : AllLoc as := fun b hb => h b (by simp [hb])
    cases a with
    | loc f => rw [runActs_cons]; simp only [runAct, runLoc]; exact ih hr _
    | sh f => simp [Act.kind] at ha
    | acq => simp [Act.kind] at ha
    | rel => simp [Act.kind] at ha

theorem runLoc_append_loc (as : List (Act σ ρ)) (f : ρ → ρ) (l : ρ) :
    runLoc (as ++ [Act.loc f]) l = f (runLoc as l) := by
  induction as generalizing l with
  | nil => rfl
  | cons a as ih => cases a <;> simp [runLoc, ih]

theorem allLoc_append_loc (as : List (Act σ ρ)) (f : ρ → ρ) (h : AllLoc as) :
    AllLoc (as ++ [Act.loc f]) := by
  intro a ha
  rw [List.mem_append] at ha
  rcases ha with ha | ha
  · exact h a ha
  · simp at ha; subst ha; rfl

theorem shape2_allLoc (as : List (Act σ ρ)) (h : shapeOK 2 (kinds as) = true) : AllLoc as := by
  induction as with
  | nil => intro a ha; simp at ha
  | cons a as ih =>
    cases a with
    | loc f =>
      simp only [kinds, List.map_cons, Act.kind, shapeOK] at h
      intro b hb
      simp only [List.mem_cons] at hb
      rcases hb with hb | hb
      · subst hb; rfl
      · exact ih h b hb
    | sh f => simp [kinds, Act.kind, shapeOK] at h
    | acq => simp [kinds, Act.kind, shapeOK] at h
    | rel => simp [kinds, Act.kind, shapeOK] at h

def WFops (r : List (List (Act σ ρ))) : Prop := ∀ op ∈ r, shapeOK 0 (kinds op) = true

/-- thread `t` in the interleaved run (`ct`) against the serial run (`st`) -/
inductive TRel (lock : Option Nat) (t : Nat) (csh ssh : σ) (ct st : Thread σ ρ) : Prop
  | idle : ct.ops = [] → st.ops = [] → ct.loc = st.loc → lock ≠ some t → TRel lock t csh ssh ct st
  | before (done cur : List (Act σ ρ)) (r : List (List (Act σ ρ))) :
      st.ops = (done ++ cur) :: r → ct.ops = cur :: r → AllLoc done →
      shapeOK 0 (kinds cur) = true → ct.loc = runLoc done st.loc → lock ≠ some t → WFops r →
      TRel lock t csh ssh ct st
  | inside (done cur : List (Act σ ρ)) (r : List (List (Act σ ρ))) :
      st.ops = (done ++ cur) :: r → ct.ops = cur :: r →
      shapeOK 1 (kinds cur) = true → lock = some t → (csh, ct.loc) = runActs done (ssh, st.loc) →
      WFops r → TRel lock t csh ssh ct st
  | after (cur : List (Act σ ρ)) (r : List (List (Act σ ρ))) :
      st.ops = r → ct.ops = cur :: r → shapeOK 2 (kinds cur) = true →
      st.loc = runLoc cur ct.loc → lock ≠ some t → WFops r → TRel lock t csh ssh ct st

structure Rel (c : Cfg σ ρ) (s : SCfg σ ρ) : Prop where
  sh : c.lock = none → c.sh = s.sh
  th : ∀ t, TRel c.lock t c.sh s.sh (c.th t) (s.th t)

/-- a thread that does not hold the lock is unaffected by changes of the shared state and of the
    lock holder (as long as it is not made the holder) -/
theorem TRel.change {lock lock' : Option Nat} {u : Nat} {csh ssh csh' ssh' : σ} {ct st : Thread σ ρ}
    (h : TRel lock u csh ssh ct st) (hl : lock ≠ some u) (hl' : lock' ≠ some u) :
    TRel lock' u csh' ssh' ct st := by
  cases h with
  | idle h1 h2 h3 _ => exact .idle h1 h2 h3 hl'
  | before done cur r h1 h2 h3 h4 h5 _ h7 => exact .before done cur r h1 h2 h3 h4 h5 hl' h7
  | inside done cur r h1 h2 h3 h4 h5 h6 => exact absurd h4 hl
  | after cur r h1 h2 h3 h4 _ h6 => exact .after cur r h1 h2 h3 h4 hl' h6

theorem setTh_same (th : Nat → Thread σ ρ) (t : Nat) (x : Thread σ ρ) : setTh th t x t = x := by
  simp [setTh]

theorem setTh_other (th : Nat → Thread σ ρ) (t u : Nat) (x : Thread σ ρ) (h : u ≠ t) :
    setTh th t x u = th u := by
  simp [setTh, h]

/-- what a thread looks like when it starts on its remaining operations `r` -/
theorem TRel.start {lock : Option Nat} {t : Nat} {csh ssh : σ} (l : ρ) (r : List (List (Act σ ρ)))
    (hl : lock ≠ some t) (hw : WFops r) : TRel lock t csh ssh ⟨l, r⟩ ⟨l, r⟩ := by
  cases r with
  | nil => exact .idle rfl rfl rfl hl
  | cons op r' =>
    exact .before [] op r' rfl rfl (fun a ha => by simp at ha) (hw op (by simp)) rfl hl
      (fun o ho => hw o (by simp [ho]))

theorem step_sim (c c' : Cfg σ ρ) (s : SCfg σ ρ) (hrel : Rel c s) (hstep : Step c c') :
    ∃ s', (s' = s ∨ ∃ t, s' = serialStep s t) ∧ Rel c' s' := by
  cases hstep with
  | loc t f as r hops =>
    refine ⟨s, Or.inl rfl, ⟨hrel.sh, ?_⟩⟩
    intro u
    by_cases hu : u = t
    · subst hu
      simp only [setTh_same]
      have ht := hrel.th u
      cases ht with
      | idle h1 _ _ _ => rw [hops] at h1; cases h1
      | before done cur r' h1 h2 h3 h4 h5 h6 h7 =>
        rw [hops] at h2
        simp only [List.cons.injEq] at h2
        obtain ⟨hc, hr⟩ := h2
        subst hc; subst hr
        refine .before (done ++ [Act.loc f]) as r (by simpa using h1) rfl
          (allLoc_append_loc done f h3) ?_ ?_ h6 h7
        · simpa [kinds, Act.kind, shapeOK] using h4
        · simp only [runLoc_append_loc, h5]
      | inside done cur r' h1 h2 h3 h4 h5 h6 =>
        rw [hops] at h2
        simp only [List.cons.injEq] at h2
        obtain ⟨hc, hr⟩ := h2
        subst hc; subst hr
        refine .inside (done ++ [Act.loc f]) as r (by simpa using h1) rfl ?_ h4 ?_ h6
        · simpa [kinds, Act.kind, shapeOK] using h3
        · rw [runActs_append, ← h5]; rfl
      | after cur r' h1 h2 h3 h4 h5 h6 =>
        rw [hops] at h2
        simp only [List.cons.injEq] at h2
        obtain ⟨hc, hr⟩ := h2
        subst hc; subst hr
        refine .after as r h1 rfl ?_ ?_ h5 h6
        · simpa [kinds, Act.kind, shapeOK] using h3
        · simpa [runLoc] using h4
    · simp only [setTh_other _ _ _ _ hu]
      exact hrel.th u
  | sh t f as r hops =>
    have ht := hrel.th t
    cases ht with
    | idle h1 _ _ _ => rw [hops] at h1; cases h1
    | before done cur r' h1 h2 h3 h4 h5 h6 h7 =>
      rw [hops] at h2
      simp only [List.cons.injEq] at h2
      obtain ⟨hc, hr⟩ := h2
      subst hc
      simp [kinds, Act.kind, shapeOK] at h4
    | after cur r' h1 h2 h3 h4 h5 h6 =>
      rw [hops] at h2
      simp only [List.cons.injEq] at h2
      obtain ⟨hc, hr⟩ := h2
      subst hc
      simp [kinds, Act.kind, shapeOK] at h3
    | inside done cur r' h1 h2 h3 h4 h5 h6 =>
      rw [hops] at h2
      simp only [List.cons.injEq] at h2
      obtain ⟨hc, hr⟩ := h2
      subst hc; subst hr
      refine ⟨s, Or.inl rfl, ⟨?_, ?_⟩⟩
      · intro hn; simp only at hn; rw [h4] at hn; cases hn
      · intro u
        by_cases hu : u = t
        · subst hu
          simp only [setTh_same]
          refine .inside (done ++ [Act.sh f]) as r (by simpa using h1) rfl ?_ h4 ?_ h6
          · simpa [kinds, Act.kind, shapeOK] using h3
          · rw [runActs_append, ← h5]; rfl
        · simp only [setTh_other _ _ _ _ hu]
          have hne : c.lock ≠ some u := by rw [h4]; intro h; cases h; exact hu rfl
          exact (hrel.th u).change hne hne
  | acq t as r hops hfree =>
    have ht := hrel.th t
    have hsh := hrel.sh hfree
    cases ht with
    | idle h1 _ _ _ => rw [hops] at h1; cases h1
    | inside done cur r' h1 h2 h3 h4 h5 h6 => rw [hfree] at h4; cases h4
    | after cur r' h1 h2 h3 h4 h5 h6 =>
      rw [hops] at h2
      simp only [List.cons.injEq] at h2
      obtain ⟨hc, hr⟩ := h2
      subst hc
      simp [kinds, Act.kind, shapeOK] at h3
    | before done cur r' h1 h2 h3 h4 h5 h6 h7 =>
      rw [hops] at h2
      simp only [List.cons.injEq] at h2
      obtain ⟨hc, hr⟩ := h2
      subst hc; subst hr
      refine ⟨s, Or.inl rfl, ⟨?_, ?_⟩⟩
      · intro hn; cases hn
      · intro u
        by_cases hu : u = t
        · subst hu
          simp only [setTh_same]
          refine .inside (done ++ [Act.acq]) as r (by simpa using h1) rfl ?_ rfl ?_ h7
          · simpa [kinds, Act.kind, shapeOK] using h4
          · rw [runActs_append, runActs_allLoc done h3, hsh, h5]; rfl
        · simp only [setTh_other _ _ _ _ hu]
          have hne : c.lock ≠ some u := by rw [hfree]; intro h; cases h
          have hne' : (some t : Option Nat) ≠ some u := by intro h; cases h; exact hu rfl
          exact (hrel.th u).change hne hne'
  | rel t as r hops hheld =>
    have ht := hrel.th t
    cases ht with
    | idle h1 _ _ _ => rw [hops] at h1; cases h1
    | before done cur r' h1 h2 h3 h4 h5 h6 h7 => exact absurd hheld h6
    | after cur r' h1 h2 h3 h4 h5 h6 => exact absurd hheld h5
    | inside done cur r' h1 h2 h3 h4 h5 h6 =>
      rw [hops] at h2
      simp only [List.cons.injEq] at h2
      obtain ⟨hc, hr⟩ := h2
      subst hc; subst hr
      have hshape : shapeOK 2 (kinds as) = true := by
        simpa [kinds, Act.kind, shapeOK] using h3
      have hall := shape2_allLoc as hshape
      have hrun : runActs (done ++ Act.rel :: as) (s.sh, (s.th t).loc) = (c.sh, runLoc as (c.th t).loc) := by
        rw [runActs_append, ← h5, runActs_cons]
        simp only [runAct]
        exact runActs_allLoc as hall _ _
      refine ⟨serialStep s t, Or.inr ⟨t, rfl⟩, ⟨?_, ?_⟩⟩
      · intro _
        simp only [serialStep, h1, hrun]
      · intro u
        by_cases hu : u = t
        · subst hu
          simp only [setTh_same, serialStep, h1, hrun]
          exact .after as r rfl rfl hshape rfl (by intro h; cases h) h6
        · simp only [setTh_other _ _ _ _ hu, serialStep, h1, hrun]
          have hne : c.lock ≠ some u := by rw [hheld]; intro h; cases h; exact hu rfl
          exact (hrel.th u).change hne (by intro h; cases h)
  | endOp t r hops =>
    have ht := hrel.th t
    cases ht with
    | idle h1 _ _ _ => rw [hops] at h1; cases h1
    | inside done cur r' h1 h2 h3 h4 h5 h6 =>
      rw [hops] at h2
      simp only [List.cons.injEq] at h2
      obtain ⟨hc, hr⟩ := h2
      subst hc
      simp [kinds, shapeOK] at h3
    | after cur r' h1 h2 h3 h4 h5 h6 =>
      rw [hops] at h2
      simp only [List.cons.injEq] at h2
      obtain ⟨hc, hr⟩ := h2
      subst hc; subst hr
      refine ⟨s, Or.inl rfl, ⟨hrel.sh, ?_⟩⟩
      intro u
      by_cases hu : u = t
      · subst hu
        simp only [setTh_same]
        have hloc : (s.th u).loc = (c.th u).loc := by simpa [runLoc] using h4
        have : s.th u = ⟨(c.th u).loc, r⟩ := by
          cases hs : s.th u with
          | mk l o => rw [hs] at h1 hloc; simp only at h1 hloc; rw [h1, hloc]
        rw [this]
        exact TRel.start _ _ h5 h6
      · simp only [setTh_other _ _ _ _ hu]
        exact hrel.th u
    | before done cur r' h1 h2 h3 h4 h5 h6 h7 =>
      rw [hops] at h2
      simp only [List.cons.injEq] at h2
      obtain ⟨hc, hr⟩ := h2
      subst hc; subst hr
      -- an operation without a critical section: it is serialised where it ends
      have hrun : runActs (done ++ []) (s.sh, (s.th t).loc) = (s.sh, (c.th t).loc) := by
        rw [List.append_nil, runActs_allLoc done h3, h5]
      refine ⟨serialStep s t, Or.inr ⟨t, rfl⟩, ⟨?_, ?_⟩⟩
      · intro hn
        simp only [serialStep, h1, hrun]
        exact hrel.sh hn
      · intro u
        by_cases hu : u = t
        · subst hu
          simp only [setTh_same, serialStep, h1, hrun]
          exact TRel.start _ _ h6 h7
        · simp only [setTh_other _ _ _ _ hu, serialStep, h1, hrun]
          exact hrel.th u

theorem rel_init (P : Nat → List (List (Act σ ρ))) (hwf : AllSharedAccessInsideLock P) (s0 : σ)
    (l0 : Nat → ρ) : Rel (initCfg P s0 l0) (initSCfg P s0 l0) := by
  refine ⟨fun _ => rfl, ?_⟩
  intro t
  exact TRel.start _ _ (by intro h; cases h) (hwf t)

theorem serialRun_snoc (order : List Nat) (t : Nat) (s : SCfg σ ρ) :
    serialRun (order ++ [t]) s = serialStep (serialRun order s) t := by
  simp [serialRun, List.foldl_append]

theorem steps_sim (c0 c : Cfg σ ρ) (s0 : SCfg σ ρ) (h0 : Rel c0 s0) (hs : Steps c0 c) :
    ∃ order, Rel c (serialRun order s0) := by
  induction hs with
  | refl => exact ⟨[], h0⟩
  | tail _ hstep ih =>
    obtain ⟨order, hrel⟩ := ih
    obtain ⟨s', hs', hrel'⟩ := step_sim _ _ _ hrel hstep
    rcases hs' with hs' | ⟨t, hs'⟩
    · exact ⟨order, hs' ▸ hrel'⟩
    · exact ⟨order ++ [t], by rw [serialRun_snoc]; exact hs' ▸ hrel'⟩

theorem rel_final (c : Cfg σ ρ) (s : SCfg σ ρ) (h : Rel c s) (hf : Final c) :
    s.sh = c.sh ∧ (∀ t, (s.th t).loc = (c.th t).loc) ∧ ∀ t, (s.th t).ops = [] := by
  have hth : ∀ t, (s.th t).loc = (c.th t).loc ∧ (s.th t).ops = [] ∧ c.lock ≠ some t := by
    intro t
    have := h.th t
    cases this with
    | idle h1 h2 h3 h4 => exact ⟨h3.symm, h2, h4⟩
    | before done cur r h1 h2 _ _ _ _ _ => rw [hf t] at h2; cases h2
    | inside done cur r h1 h2 _ _ _ _ => rw [hf t] at h2; cases h2
    | after cur r h1 h2 _ _ _ _ => rw [hf t] at h2; cases h2
  have hlock : c.lock = none := by
    cases hl : c.lock with
    | none => rfl
    | some t => exact absurd hl (hth t).2.2
  exact ⟨(h.sh hlock).symm, fun t => (hth t).1, fun t => (hth t).2.1⟩

end Tls.Conc
