import TlsModel.CT
/- Specifications of the constant-time helpers (kernel-only proofs, no bv_decide). -/
namespace Tls.CT

theorem ushiftRight31 (x : BitVec 32) : (x >>> 31).toNat = if x.msb then 1 else 0 := by
  have h := BitVec.msb_eq_decide x
  simp only [BitVec.toNat_ushiftRight, Nat.shiftRight_eq_div_pow]
  have := x.isLt
  by_cases hm : x.msb
  · simp [hm] at h ⊢; omega
  · simp [hm] at h ⊢; omega

theorem ctLtU32_spec (a b : Nat) :
    ctLtU32 a b = if a % 2^32 < b % 2^32 then 1 else 0 := by
  unfold ctLtU32
  simp only [ushiftRight31]
  generalize hx : BitVec.ofNat 32 a = x
  generalize hy : BitVec.ofNat 32 b = y
  have hxa : x.toNat = a % 2^32 := by rw [← hx]; simp
  have hyb : y.toNat = b % 2^32 := by rw [← hy]; simp
  rw [← hxa, ← hyb]
  simp only [BitVec.msb_xor, BitVec.msb_or]
  have hsub := BitVec.toNat_sub x y
  have mx := BitVec.msb_eq_decide x
  have my := BitVec.msb_eq_decide y
  have ms := BitVec.msb_eq_decide (x - y)
  have := x.isLt
  have := y.isLt
  by_cases h1 : x.msb <;> by_cases h2 : y.msb <;> by_cases h3 : (x - y).msb <;>
    simp [h1, h2, h3] at mx my ms ⊢ <;> omega

theorem ctLeU32_spec (a b : Nat) :
    ctLeU32 a b = if a % 2^32 ≤ b % 2^32 then 1 else 0 := by
  unfold ctLeU32 ctGtU32
  rw [ctLtU32_spec]
  by_cases h : b % 2^32 < a % 2^32
  · have : ¬ a % 2^32 ≤ b % 2^32 := by omega
    simp [h, this]
  · have : a % 2^32 ≤ b % 2^32 := by omega
    simp [h, this]

theorem ctNeqU32_spec (a b : Nat) :
    ctNeqU32 a b = if a % 2^32 = b % 2^32 then 0 else 1 := by
  unfold ctNeqU32
  simp only [ushiftRight31]
  generalize hx : BitVec.ofNat 32 a = x
  generalize hy : BitVec.ofNat 32 b = y
  have hxa : x.toNat = a % 2^32 := by rw [← hx]; simp
  have hyb : y.toNat = b % 2^32 := by rw [← hy]; simp
  rw [← hxa, ← hyb]
  simp only [BitVec.msb_or]
  have hs1 := BitVec.toNat_sub x y
  have hs2 := BitVec.toNat_sub y x
  have m1 := BitVec.msb_eq_decide (x - y)
  have m2 := BitVec.msb_eq_decide (y - x)
  have := x.isLt
  have := y.isLt
  by_cases h1 : (x - y).msb <;> by_cases h2 : (y - x).msb <;>
    simp [h1, h2] at m1 m2 ⊢ <;> omega

theorem ctEqU32_spec (a b : Nat) :
    ctEqU32 a b = if a % 2^32 = b % 2^32 then 1 else 0 := by
  unfold ctEqU32
  rw [ctNeqU32_spec]
  by_cases h : a % 2^32 = b % 2^32 <;> simp [h]

theorem ctIsNonZeroU32_spec (v : Nat) :
    ctIsNonZeroU32 v = if v % 2^32 = 0 then 0 else 1 := by
  unfold ctIsNonZeroU32
  simp only [ushiftRight31]
  generalize hx : BitVec.ofNat 32 v = x
  have hxa : x.toNat = v % 2^32 := by rw [← hx]; simp
  rw [← hxa]
  have e : (0 : BitVec 32) - x = -x := by simp
  rw [e]
  simp only [BitVec.msb_or]
  have hs := BitVec.toNat_neg x
  have m1 := BitVec.msb_eq_decide x
  have m2 := BitVec.msb_eq_decide (-x)
  have := x.isLt
  by_cases h1 : x.msb <;> by_cases h2 : (-x).msb <;>
    simp [h1, h2] at m1 m2 ⊢ <;> omega

theorem ctLsbPropU8_spec (v : Nat) : ctLsbPropU8 v = if v % 2 = 1 then 255 else 0 := by
  unfold ctLsbPropU8
  have h : v &&& 1 = v % 2 := Nat.and_one_is_mod v
  rw [h]
  rcases Nat.mod_two_eq_zero_or_one v with h0 | h1
  · rw [h0]; decide
  · rw [h1]; decide

theorem ctLsbPropU16_spec (v : Nat) : ctLsbPropU16 v = if v % 2 = 1 then 65535 else 0 := by
  unfold ctLsbPropU16
  have h : v &&& 1 = v % 2 := Nat.and_one_is_mod v
  rw [h]
  rcases Nat.mod_two_eq_zero_or_one v with h0 | h1
  · rw [h0]; decide
  · rw [h1]; decide

end Tls.CT
