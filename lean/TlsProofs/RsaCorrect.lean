import TlsProofs.RsaNT
/-
  Correctness of `Python_RSAKey._rawPrivateKeyOp` (CRT + blinding) and of the blinding update.
-/
namespace Tls.Rsa
open Nat

/-- what a well-formed private key satisfies (`Python_RSAKey.__init__` / `generate` establish it:
    see `ValidKey.of_lcm`) -/
structure ValidKey (k : PrivKey) : Prop where
  hp : k.p.Prime
  hq : k.q.Prime
  hne : k.p ≠ k.q
  hp2 : 2 < k.p
  hq2 : 2 < k.q
  hn : k.pub.n = k.p * k.q
  hd_p : k.pub.e * k.d ≡ 1 [MOD k.p - 1]
  hd_q : k.pub.e * k.d ≡ 1 [MOD k.q - 1]
  hdP : k.pub.e * k.dP ≡ 1 [MOD k.p - 1]
  hdQ : k.pub.e * k.dQ ≡ 1 [MOD k.q - 1]
  hqInv : k.qInv * k.q ≡ 1 [MOD k.p]

/-- the way `Python_RSAKey.__init__`/`generate` derive the private values:
    `d = invMod(e, lcm(p-1, q-1))`, `dP = d % (p-1)`, `dQ = d % (q-1)`, `qInv = invMod(q, p)` -/
theorem ValidKey.of_lcm (k : PrivKey) (hp : k.p.Prime) (hq : k.q.Prime) (hne : k.p ≠ k.q)
    (hp2 : 2 < k.p) (hq2 : 2 < k.q) (hn : k.pub.n = k.p * k.q)
    (hd : k.pub.e * k.d ≡ 1 [MOD Nat.lcm (k.p - 1) (k.q - 1)])
    (hdP : k.dP = k.d % (k.p - 1)) (hdQ : k.dQ = k.d % (k.q - 1))
    (hqInv : k.qInv * k.q % k.p = 1) : ValidKey k := by
  have h1 : k.pub.e * k.d ≡ 1 [MOD k.p - 1] := hd.of_dvd (Nat.dvd_lcm_left _ _)
  have h2 : k.pub.e * k.d ≡ 1 [MOD k.q - 1] := hd.of_dvd (Nat.dvd_lcm_right _ _)
  refine ⟨hp, hq, hne, hp2, hq2, hn, h1, h2, ?_, ?_, ?_⟩
  · rw [hdP]
    exact ((Nat.mod_modEq _ _).mul_left _).trans h1
  · rw [hdQ]
    exact ((Nat.mod_modEq _ _).mul_left _).trans h2
  · show k.qInv * k.q % k.p = 1 % k.p
    rw [hqInv, Nat.mod_eq_of_lt (by omega)]

theorem ValidKey.n_gt_one {k : PrivKey} (vk : ValidKey k) : 1 < k.pub.n := by
  rw [vk.hn]
  have := vk.hp2; have := vk.hq2
  nlinarith

/-- `x ↦ x ^ (e*d)` is the identity modulo `n` -/
theorem ValidKey.pow_ed {k : PrivKey} (vk : ValidKey k) (x : ℕ) :
    x ^ (k.pub.e * k.d) ≡ x [MOD k.pub.n] := by
  rw [vk.hn]
  have h1 : 1 ≤ k.pub.e * k.d :=
    one_le_of_modEq_one (by have := vk.hp2; omega) vk.hd_p
  exact pow_modEq_self_mul vk.hp vk.hq vk.hne vk.hd_p vk.hd_q h1 x

/-- the CRT helper returns a non-negative value below `n` that is an `e`-th root of its input -/
theorem helper_spec {k : PrivKey} (vk : ValidKey k) (x : ℕ) :
    0 ≤ rawPrivateKeyOpHelper k x ∧ (rawPrivateKeyOpHelper k x).toNat < k.pub.n ∧
    (rawPrivateKeyOpHelper k x).toNat ^ k.pub.e ≡ x [MOD k.pub.n] := by
  have hp0 : 0 < k.p := by have := vk.hp2; omega
  have hq0 : 0 < k.q := by have := vk.hq2; omega
  have hs2 : powMod x k.dQ k.q < k.q := powMod_lt _ _ _ hq0
  obtain ⟨c0, cn, cp, cq⟩ :=
    crt_recombine hp0 hq0 (powMod x k.dP k.p) (powMod x k.dQ k.q) k.qInv hs2 vk.hqInv
  refine ⟨c0, ?_, ?_⟩
  · rw [vk.hn]; exact cn
  · rw [vk.hn]
    refine (Nat.modEq_and_modEq_iff_modEq_mul ((Nat.coprime_primes vk.hp vk.hq).mpr vk.hne)).mp ⟨?_, ?_⟩
    · have h1 : 1 ≤ k.dP * k.pub.e := by
        have := one_le_of_modEq_one (by have := vk.hp2; omega) vk.hdP
        rwa [Nat.mul_comm] at this
      have hk : k.dP * k.pub.e ≡ 1 [MOD k.p - 1] := by rw [Nat.mul_comm]; exact vk.hdP
      have e1 : (powMod x k.dP k.p) ^ k.pub.e ≡ x [MOD k.p] := by
        rw [powMod_eq]
        have : (x ^ k.dP % k.p) ^ k.pub.e ≡ (x ^ k.dP) ^ k.pub.e [MOD k.p] :=
          (Nat.mod_modEq _ _).pow _
        refine this.trans ?_
        rw [← pow_mul]
        exact pow_modEq_self_prime vk.hp hk h1 x
      exact (cp.pow _).trans e1
    · have h1 : 1 ≤ k.dQ * k.pub.e := by
        have := one_le_of_modEq_one (by have := vk.hq2; omega) vk.hdQ
        rwa [Nat.mul_comm] at this
      have hk : k.dQ * k.pub.e ≡ 1 [MOD k.q - 1] := by rw [Nat.mul_comm]; exact vk.hdQ
      have e1 : (powMod x k.dQ k.q) ^ k.pub.e ≡ x [MOD k.q] := by
        rw [powMod_eq]
        have : (x ^ k.dQ % k.q) ^ k.pub.e ≡ (x ^ k.dQ) ^ k.pub.e [MOD k.q] :=
          (Nat.mod_modEq _ _).pow _
        refine this.trans ?_
        rw [← pow_mul]
        exact pow_modEq_self_prime vk.hq hk h1 x
      exact (cq.pow _).trans e1

/-- `x ↦ x ^ e mod n` is injective on `[0, n)` -/
theorem ValidKey.pow_e_inj {k : PrivKey} (vk : ValidKey k) {a b : ℕ} (ha : a < k.pub.n)
    (hb : b < k.pub.n) (h : a ^ k.pub.e ≡ b ^ k.pub.e [MOD k.pub.n]) : a = b := by
  have h2 : a ^ (k.pub.e * k.d) ≡ b ^ (k.pub.e * k.d) [MOD k.pub.n] := by
    rw [pow_mul, pow_mul]; exact h.pow _
  have h3 : a ≡ b [MOD k.pub.n] := ((vk.pow_ed a).symm.trans h2).trans (vk.pow_ed b)
  have : a % k.pub.n = b % k.pub.n := h3
  rwa [Nat.mod_eq_of_lt ha, Nat.mod_eq_of_lt hb] at this

/-- an `e`-th root of `m` below `n` is `m ^ d mod n` -/
theorem ValidKey.root_unique {k : PrivKey} (vk : ValidKey k) {r m : ℕ} (hr : r < k.pub.n)
    (h : r ^ k.pub.e ≡ m [MOD k.pub.n]) : r = m ^ k.d % k.pub.n := by
  have hn0 : 0 < k.pub.n := by have := vk.n_gt_one; omega
  apply vk.pow_e_inj hr (Nat.mod_lt _ hn0)
  refine h.trans ?_
  have h1 : (m ^ k.d % k.pub.n) ^ k.pub.e ≡ (m ^ k.d) ^ k.pub.e [MOD k.pub.n] :=
    (Nat.mod_modEq _ _).pow _
  refine (Nat.ModEq.trans ?_ h1.symm)
  rw [← pow_mul, Nat.mul_comm]
  exact (vk.pow_ed m).symm

/-! ### blinding -/

/-- the pair handed out blinds and unblinds consistently: `blinder · unblinder^e ≡ 1 (mod n)` -/
def PairOk (k : PrivKey) (b u : ℕ) : Prop := b * u ^ k.pub.e ≡ 1 [MOD k.pub.n]

/-- state invariant of `self.blinder`/`self.unblinder`: fresh (`blinder = 0`) or consistent -/
def BlindOk (k : PrivKey) (st : Blind) : Prop := st.blinder = 0 ∨ PairOk k st.blinder st.unblinder

theorem PairOk.square {k : PrivKey} {b u : ℕ} (h : PairOk k b u) :
    PairOk k (b * b % k.pub.n) (u * u % k.pub.n) := by
  unfold PairOk at *
  have h1 : b * b % k.pub.n * (u * u % k.pub.n) ^ k.pub.e ≡ b * b * (u * u) ^ k.pub.e [MOD k.pub.n] :=
    (Nat.mod_modEq _ _).mul ((Nat.mod_modEq _ _).pow _)
  refine h1.trans ?_
  have : b * b * (u * u) ^ k.pub.e = (b * u ^ k.pub.e) * (b * u ^ k.pub.e) := by
    rw [mul_pow]; ring
  rw [this]
  simpa using h.mul h

theorem PairOk.init {k : PrivKey} {rnd : ℕ} (hn : 1 < k.pub.n)
    (hinv : invMod rnd k.pub.n * rnd % k.pub.n = 1) :
    PairOk k (powMod (invMod rnd k.pub.n) k.pub.e k.pub.n) rnd := by
  unfold PairOk
  rw [powMod_eq]
  have h1 : (invMod rnd k.pub.n) ^ k.pub.e % k.pub.n * rnd ^ k.pub.e
      ≡ (invMod rnd k.pub.n) ^ k.pub.e * rnd ^ k.pub.e [MOD k.pub.n] :=
    (Nat.mod_modEq _ _).mul_right _
  refine h1.trans ?_
  rw [← mul_pow]
  have h2 : invMod rnd k.pub.n * rnd ≡ 1 [MOD k.pub.n] := by
    show invMod rnd k.pub.n * rnd % k.pub.n = 1 % k.pub.n
    rw [hinv, Nat.mod_eq_of_lt hn]
  simpa using h2.pow k.pub.e

/-- the locked section: the pair handed out is consistent and so is the stored, squared pair -/
theorem blindStep_spec {k : PrivKey} {st : Blind} {rnd : ℕ} (hn : 1 < k.pub.n) (hst : BlindOk k st)
    (hrnd : st.blinder = 0 → invMod rnd k.pub.n * rnd % k.pub.n = 1) :
    PairOk k (blindStep k st rnd).1.1 (blindStep k st rnd).1.2 ∧
    PairOk k (blindStep k st rnd).2.blinder (blindStep k st rnd).2.unblinder := by
  unfold blindStep
  by_cases h0 : st.blinder = 0
  · simp only [h0, if_true]
    have := PairOk.init (k := k) hn (hrnd h0)
    exact ⟨this, this.square⟩
  · simp only [h0, if_false]
    rcases hst with h | h
    · exact absurd h h0
    · exact ⟨h, h.square⟩

/-- with a consistent pair the blinded CRT operation returns an `e`-th root of `m` below `n` -/
theorem rawPrivateKeyOp_root {k : PrivKey} (vk : ValidKey k) {st : Blind} {rnd : ℕ}
    (hst : BlindOk k st) (hrnd : st.blinder = 0 → invMod rnd k.pub.n * rnd % k.pub.n = 1) (m : ℕ) :
    (rawPrivateKeyOp k st rnd m).1 < k.pub.n ∧
    (rawPrivateKeyOp k st rnd m).1 ^ k.pub.e ≡ m [MOD k.pub.n] := by
  have hn0 : 0 < k.pub.n := by have := vk.n_gt_one; omega
  obtain ⟨hpair, _⟩ := blindStep_spec vk.n_gt_one hst hrnd
  unfold rawPrivateKeyOp rawPrivateKeyOpWith
  generalize hb : (blindStep k st rnd).1.1 = b at hpair
  generalize hu : (blindStep k st rnd).1.2 = u at hpair
  have hbs : blindStep k st rnd = ((b, u), (blindStep k st rnd).2) := by
    rw [← hb, ← hu]
  rw [hbs]
  simp only
  obtain ⟨c0, cn, cr⟩ := helper_spec vk (m * b % k.pub.n)
  generalize rawPrivateKeyOpHelper k (m * b % k.pub.n) = c at c0 cn cr
  obtain ⟨a, rfl⟩ := Int.eq_ofNat_of_zero_le c0
  rw [Int.toNat_natCast] at cn cr
  have e1 : (((a : ℕ) : ℤ) * (u : ℤ) % (k.pub.n : ℤ)).toNat = a * u % k.pub.n := by
    have : ((a : ℕ) : ℤ) * (u : ℤ) % (k.pub.n : ℤ) = ((a * u % k.pub.n : ℕ) : ℤ) := by
      push_cast; rfl
    rw [this, Int.toNat_natCast]
  rw [e1]
  refine ⟨Nat.mod_lt _ hn0, ?_⟩
  have h1 : (a * u % k.pub.n) ^ k.pub.e ≡ (a * u) ^ k.pub.e [MOD k.pub.n] :=
    (Nat.mod_modEq _ _).pow _
  refine h1.trans ?_
  rw [mul_pow]
  have h2 : a ^ k.pub.e * u ^ k.pub.e ≡ (m * b) * u ^ k.pub.e [MOD k.pub.n] :=
    (cr.trans (Nat.mod_modEq _ _)).mul_right _
  refine h2.trans ?_
  rw [mul_assoc]
  simpa using (Nat.ModEq.refl m).mul hpair

theorem blindStep_state (k : PrivKey) (st : Blind) (rnd m : ℕ) :
    (rawPrivateKeyOp k st rnd m).2 = (blindStep k st rnd).2 := by
  unfold rawPrivateKeyOp rawPrivateKeyOpWith
  rfl

end Tls.Rsa
