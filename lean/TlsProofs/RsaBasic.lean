import TlsModel.Rsa
/-
  Core-Lean lemmas about the RSA model: square-and-multiply = `b ^ e % m`, big-endian
  encode/decode, bit/byte lengths.  (No Mathlib here.)
-/
namespace Tls.Rsa
open Tls

/-! ### powMod -/

theorem powModFuel_eq (f b e m : Nat) (h : e < 2 ^ f) : powModFuel f b e m = b ^ e % m := by
  induction f generalizing e with
  | zero =>
    have : e = 0 := by simpa using h
    subst this; simp [powModFuel]
  | succ f ih =>
    unfold powModFuel
    by_cases he : e = 0
    · subst he; simp
    · simp only [he, if_false]
      have h2 : e / 2 < 2 ^ f := by
        rw [Nat.pow_succ] at h; omega
      rw [ih _ h2]
      have hsq : b ^ (e / 2) % m * (b ^ (e / 2) % m) % m = b ^ (2 * (e / 2)) % m := by
        rw [← Nat.mul_mod, ← Nat.pow_add]; congr 2; omega
      rw [hsq]
      by_cases ho : e % 2 = 1
      · simp only [ho, if_true]
        rw [Nat.mod_mul_mod, ← Nat.pow_succ]; congr 2; omega
      · simp only [ho, if_false]
        congr 2; omega

theorem lt_two_pow_numBits (n : Nat) : n < 2 ^ numBits n := by
  unfold numBits
  by_cases h : n = 0
  · subst h; simp
  · simp only [h, if_false]; exact Nat.lt_log2_self

theorem powMod_eq (b e m : Nat) : powMod b e m = b ^ e % m :=
  powModFuel_eq _ _ _ _ (lt_two_pow_numBits e)

theorem powMod_lt (b e m : Nat) (hm : 0 < m) : powMod b e m < m := by
  rw [powMod_eq]; exact Nat.mod_lt _ hm

/-! ### bit / byte lengths -/

theorem two_pow_numBits_le (n : Nat) (h : n ≠ 0) : 2 ^ (numBits n - 1) ≤ n := by
  unfold numBits
  simp only [h, if_false, Nat.add_sub_cancel]
  exact Nat.log2_self_le h

theorem numBits_pos (n : Nat) (h : n ≠ 0) : 0 < numBits n := by
  unfold numBits; simp [h]

theorem pow256 (k : Nat) : 256 ^ k = 2 ^ (8 * k) := by
  rw [Nat.pow_mul]

theorem lt_pow_numBytes (n : Nat) : n < 256 ^ numBytes n := by
  rw [pow256]
  have h1 := lt_two_pow_numBits n
  have h2 : numBits n ≤ 8 * numBytes n := by unfold numBytes; omega
  exact Nat.lt_of_lt_of_le h1 (Nat.pow_le_pow_right (by omega) h2)

theorem pow_numBytes_pred_le (n : Nat) (h : n ≠ 0) : 256 ^ (numBytes n - 1) ≤ n := by
  rw [pow256]
  have h1 := two_pow_numBits_le n h
  have h0 := numBits_pos n h
  have h2 : 8 * (numBytes n - 1) ≤ numBits n - 1 := by unfold numBytes; omega
  exact Nat.le_trans (Nat.pow_le_pow_right (by omega) h2) h1

/-! ### big-endian bytes -/

theorem beEncode_length (n x : Nat) : (beEncode n x).length = n := by
  induction n with
  | zero => simp [beEncode]
  | succ n ih => simp [beEncode, ih]

theorem beDecode_foldl (b : Bytes) (acc : Nat) :
    b.foldl (fun acc x => acc * 256 + x.toNat) acc = acc * 256 ^ b.length + beDecode b := by
  induction b generalizing acc with
  | nil => simp [beDecode]
  | cons h t ih =>
    simp only [List.foldl_cons, List.length_cons, beDecode]
    rw [ih, ih (0 * 256 + h.toNat)]
    simp [Nat.pow_succ, Nat.add_mul, Nat.mul_assoc, Nat.add_assoc, Nat.mul_comm 256]

theorem beDecode_cons (h : UInt8) (t : Bytes) :
    beDecode (h :: t) = h.toNat * 256 ^ t.length + beDecode t := by
  simp only [beDecode, List.foldl_cons]
  rw [beDecode_foldl]; simp [beDecode]

theorem beDecode_lt (b : Bytes) : beDecode b < 256 ^ b.length := by
  induction b with
  | nil => simp [beDecode]
  | cons h t ih =>
    rw [beDecode_cons, List.length_cons, Nat.pow_succ]
    have := h.toNat_lt
    have h2 : h.toNat * 256 ^ t.length ≤ 255 * 256 ^ t.length := Nat.mul_le_mul_right _ (by omega)
    omega

theorem beDecode_beEncode_mod (n x : Nat) : beDecode (beEncode n x) = x % 256 ^ n := by
  induction n with
  | zero => simp [beEncode, beDecode, Nat.mod_one]
  | succ n ih =>
    simp only [beEncode]
    rw [beDecode_cons, beEncode_length, ih]
    have : (UInt8.ofNat (x / 256 ^ n % 256)).toNat = x / 256 ^ n % 256 := by
      simp
    rw [this, Nat.pow_succ, Nat.mod_mul]
    rw [Nat.mul_comm]; omega

theorem beDecode_beEncode (n x : Nat) (h : x < 256 ^ n) : beDecode (beEncode n x) = x := by
  rw [beDecode_beEncode_mod, Nat.mod_eq_of_lt h]

theorem beEncode_add_mul (n a y : Nat) : beEncode n (a * 256 ^ n + y) = beEncode n y := by
  induction n generalizing a with
  | zero => simp [beEncode]
  | succ n ih =>
    simp only [beEncode]
    have e : a * 256 ^ (n + 1) = (a * 256) * 256 ^ n := by
      rw [Nat.pow_succ, Nat.mul_assoc, Nat.mul_comm 256]
    rw [e, ih]
    have hp : 0 < 256 ^ n := Nat.pow_pos (by omega)
    have : (a * 256 * 256 ^ n + y) / 256 ^ n = a * 256 + y / 256 ^ n := by
      rw [Nat.add_comm, Nat.add_mul_div_right _ _ hp, Nat.add_comm]
    rw [this, Nat.add_comm, Nat.add_mul_mod_self_right]

theorem beEncode_beDecode (b : Bytes) : beEncode b.length (beDecode b) = b := by
  induction b with
  | nil => simp [beEncode]
  | cons h t ih =>
    simp only [List.length_cons, beEncode]
    rw [beDecode_cons, beEncode_add_mul, ih]
    have hp : 0 < 256 ^ t.length := Nat.pow_pos (by omega)
    have hd := beDecode_lt t
    have : (h.toNat * 256 ^ t.length + beDecode t) / 256 ^ t.length = h.toNat := by
      rw [Nat.add_comm, Nat.add_mul_div_right _ _ hp, Nat.div_eq_of_lt hd]; simp
    rw [this]
    have := h.toNat_lt
    simp [Nat.mod_eq_of_lt this]

/-- equal-length byte strings with the same value are equal -/
theorem beDecode_inj (a b : Bytes) (hl : a.length = b.length) (h : beDecode a = beDecode b) : a = b := by
  rw [← beEncode_beDecode a, ← beEncode_beDecode b, hl, h]

theorem beDecode_replicate_zero (k : Nat) (t : Bytes) :
    beDecode (List.replicate k (0 : UInt8) ++ t) = beDecode t := by
  induction k with
  | zero => simp
  | succ k ih =>
    rw [List.replicate_succ, List.cons_append, beDecode_cons, ih]; simp

end Tls.Rsa
