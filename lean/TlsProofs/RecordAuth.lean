import TlsProofs.RecordSend
/- What is authenticated: injectivity of the MAC input / additional data / nonce encodings, the
   sender's trace, and the per-path "accepted ⇒ next record or forgery" lemmas (property C02). -/
namespace Tls.Rec
open Tls.CT

/-! ### encodings are injective on the real domains -/

theorem macHeader_length (seq : Bytes) (t : UInt8) (vmaj vmin len : Nat) :
    (macHeader seq t vmaj vmin len).length = seq.length + 1 + (if isSsl3 vmaj vmin then 0 else 2) + 2 := by
  unfold macHeader
  cases isSsl3 vmaj vmin <;> simp

theorem macInput_inj (c : Cfg) (s1 s2 : Nat) (t1 t2 : UInt8) (d1 d2 : Bytes)
    (h1 : s1 < 2 ^ 64) (h2 : s2 < 2 ^ 64)
    (h : macInput s1 t1 c d1 = macInput s2 t2 c d2) : s1 = s2 ∧ t1 = t2 ∧ d1 = d2 := by
  unfold macInput at h
  have hl : (macHeader (seqBytes s1) t1 c.vmaj c.vmin d1.length).length =
      (macHeader (seqBytes s2) t2 c.vmaj c.vmin d2.length).length := by
    rw [macHeader_length, macHeader_length, seqBytes_length, seqBytes_length]
  obtain ⟨hh, hd⟩ := List.append_inj h hl
  refine ⟨?_, ?_, hd⟩
  · unfold macHeader at hh
    simp only [List.append_assoc] at hh
    have := (List.append_inj hh (by rw [seqBytes_length, seqBytes_length])).1
    exact seqBytes_inj s1 s2 h1 h2 this
  · unfold macHeader at hh
    simp only [List.append_assoc] at hh
    have := (List.append_inj hh (by rw [seqBytes_length, seqBytes_length])).2
    simp at this
    exact this.1

theorem aad12_inj (vmaj vmin : Nat) (s1 s2 : Nat) (t1 t2 : UInt8) (l1 l2 : Nat)
    (h1 : s1 < 2 ^ 64) (h2 : s2 < 2 ^ 64) (hl1 : l1 < 2 ^ 16) (hl2 : l2 < 2 ^ 16)
    (h : aad12 s1 t1 vmaj vmin l1 = aad12 s2 t2 vmaj vmin l2) : s1 = s2 ∧ t1 = t2 ∧ l1 = l2 := by
  unfold aad12 at h
  obtain ⟨hs, hr⟩ := List.append_inj h (by rw [seqBytes_length, seqBytes_length])
  refine ⟨seqBytes_inj s1 s2 h1 h2 hs, ?_, ?_⟩
  · simp at hr; exact hr.1
  · have : be16 l1 = be16 l2 := by
      have := (List.append_inj hr (by simp)).2
      exact this
    exact be16_inj l1 l2 hl1 hl2 this

theorem aad13_inj (vmaj vmin : Nat) (t1 t2 : UInt8) (l1 l2 : Nat) (hl1 : l1 < 2 ^ 16) (hl2 : l2 < 2 ^ 16)
    (h : aad13 t1 vmaj vmin l1 = aad13 t2 vmaj vmin l2) : t1 = t2 ∧ l1 = l2 := by
  unfold aad13 at h
  have h2 := (List.append_inj h (by simp))
  refine ⟨?_, be16_inj l1 l2 hl1 hl2 h2.2⟩
  have := h2.1
  simp at this
  exact this

theorem xor_cancel (a b f : UInt8) (h : a ^^^ f = b ^^^ f) : a = b := by
  have : (a ^^^ f) ^^^ f = (b ^^^ f) ^^^ f := by rw [h]
  simpa [UInt8.xor_assoc] using this

theorem xorBytes_inj : ∀ (a b f : Bytes), a.length = b.length → a.length ≤ f.length →
    xorBytes a f = xorBytes b f → a = b
  | [], [], _, _, _, _ => rfl
  | [], _ :: _, _, h, _, _ => by simp at h
  | _ :: _, [], _, h, _, _ => by simp at h
  | _ :: _, _ :: _, [], _, h, _ => by simp at h
  | x :: xs, y :: ys, z :: zs, hl, hf, h => by
    unfold xorBytes at h
    simp only [List.zipWith_cons_cons, List.cons.injEq] at h
    have := xorBytes_inj xs ys zs (by simpa using hl) (by simpa using hf) h.2
    rw [xor_cancel x y z h.1, this]

/-- the nonce is an injective function of the sequence number (both constructions) -/
theorem nonce_inj (c : Cfg) (hfn : c.xorNonce = true → 8 ≤ c.fixedNonce.length) (s1 s2 : Nat)
    (h1 : s1 < 2 ^ 64) (h2 : s2 < 2 ^ 64) (h : nonce c s1 = nonce c s2) : s1 = s2 := by
  unfold nonce at h
  cases hx : c.xorNonce
  · simp only [hx, Bool.false_eq_true, if_false] at h
    exact seqBytes_inj s1 s2 h1 h2 (List.append_cancel_left h)
  · simp only [hx, if_true] at h
    have h8 := hfn hx
    have := xorBytes_inj _ _ _ (by simp [zeros, seqBytes_length]) (by simp [zeros, seqBytes_length]; omega) h
    exact seqBytes_inj s1 s2 h1 h2 (List.append_cancel_left this)

/-! ### the sender's trace -/

/-- what the sender did: for each record, (write state before, type, plaintext) -/
def trace {S} (send : St S → UInt8 → Bytes → St S × Bytes) : St S → List (UInt8 × Bytes) → List (St S × UInt8 × Bytes)
  | _, [] => []
  | s, (t, p) :: rest => (s, t, p) :: trace send (send s t p).1 rest

/-- the sender's write state after protecting a list of records -/
def runState {S} (send : St S → UInt8 → Bytes → St S × Bytes) (s0 : St S) (l : List (UInt8 × Bytes)) : St S :=
  l.foldl (fun s x => (send s x.1 x.2).1) s0

theorem runState_seq {S} (send : St S → UInt8 → Bytes → St S × Bytes)
    (hseq : ∀ s t p, (send s t p).1.seq = s.seq + 1) (l : List (UInt8 × Bytes)) (s0 : St S) :
    (runState send s0 l).seq = s0.seq + l.length := by
  induction l generalizing s0 with
  | nil => simp [runState]
  | cons x xs ih =>
    unfold runState at ih ⊢
    simp only [List.foldl_cons, List.length_cons]
    rw [ih, hseq]; omega

theorem mem_trace {S} (send : St S → UInt8 → Bytes → St S × Bytes) :
    ∀ (sent : List (UInt8 × Bytes)) (s0 : St S) (x : St S × UInt8 × Bytes), x ∈ trace send s0 sent →
      ∃ j, ∃ h : j < sent.length, x = (runState send s0 (sent.take j), sent[j].1, sent[j].2)
  | [], _, _, h => by simp [trace] at h
  | (t, p) :: rest, s0, x, h => by
    simp only [trace, List.mem_cons] at h
    rcases h with h | h
    · exact ⟨0, by simp, by simp [h, runState]⟩
    · obtain ⟨j, hj, hx⟩ := mem_trace send rest _ x h
      refine ⟨j + 1, by simp; omega, ?_⟩
      simp only [List.take_succ_cons, List.getElem_cons_succ]
      rw [hx]
      simp [runState]

theorem trace_mem {S} (send : St S → UInt8 → Bytes → St S × Bytes) :
    ∀ (sent : List (UInt8 × Bytes)) (s0 : St S) (j : Nat) (h : j < sent.length),
      (runState send s0 (sent.take j), sent[j].1, sent[j].2) ∈ trace send s0 sent
  | [], _, _, h => by simp at h
  | (t, p) :: rest, s0, 0, _ => by simp [trace, runState]
  | (t, p) :: rest, s0, j + 1, h => by
    simp only [trace, List.mem_cons, List.take_succ_cons, List.getElem_cons_succ]
    right
    have := trace_mem send rest (send s0 t p).1 j (by simpa using h)
    simpa [runState] using this

/-! ### forgery events -/

/-- a MAC forgery: `tag` verifies on `x` although the sender never authenticated `x` -/
def MacForgery {S} (P : Prims S) (log : List Bytes) (x tag : Bytes) : Prop :=
  P.mac.digest x = tag ∧ x ∉ log

/-- an AEAD forgery: (nonce, aad, ciphertext) opens although the sender never produced it -/
def AeadForgery {S} (P : Prims S) (log : List (Bytes × Bytes × Bytes)) (n a ct : Bytes) : Prop :=
  (P.aeadOpen n ct a).isSome = true ∧ (n, a, ct) ∉ log

/-- MAC inputs of a MAC-then-encrypt sender -/
def logMte {S} (c : Cfg) (tr : List (St S × UInt8 × Bytes)) : List Bytes :=
  tr.map fun x => macInput x.1.seq x.2.1 c x.2.2

/-- MAC inputs of an encrypt-then-MAC sender (the MAC covers the ciphertext) -/
def logEtm {S} (P : Prims S) (c : Cfg) (tr : List (St S × UInt8 × Bytes)) : List Bytes :=
  tr.map fun x => macInput x.1.seq x.2.1 c (P.enc x.1.cs (etmPlain P c x.2.2)).2

/-- (nonce, aad, sealed) triples of a TLS 1.2 AEAD sender -/
def logAead12 {S} (P : Prims S) (c : Cfg) (tr : List (St S × UInt8 × Bytes)) : List (Bytes × Bytes × Bytes) :=
  tr.map fun x =>
    (nonce c x.1.seq, aad12 x.1.seq x.2.1 c.vmaj c.vmin x.2.2.length,
     P.aeadSeal (nonce c x.1.seq) x.2.2 (aad12 x.1.seq x.2.1 c.vmaj c.vmin x.2.2.length))

/-- (nonce, aad, sealed) triples of a TLS 1.3 sender; the trace holds the inner plaintexts -/
def logAead13 {S} (P : Prims S) (c : Cfg) (tr : List (St S × UInt8 × Bytes)) : List (Bytes × Bytes × Bytes) :=
  tr.map fun x =>
    (nonce c x.1.seq, aad13 23 3 3 (x.2.2.length + P.tagLen),
     P.aeadSeal (nonce c x.1.seq) x.2.2 (aad13 23 3 3 (x.2.2.length + P.tagLen)))

theorem seq_mteStream {S} (P : Prims S) (c : Cfg) (hmac : c.hasMac = true) (u : Bool) (s : St S) (t : UInt8) (p : Bytes) :
    (protMteStream P c u s t p).1.seq = s.seq + 1 := by
  unfold protMteStream; cases u <;> simp [hmac]

theorem seq_mteCbc {S} (P : Prims S) (c : Cfg) (hmac : c.hasMac = true) (s : St S) (t : UInt8) (p : Bytes) :
    (protMteCbc P c s t p).1.seq = s.seq + 1 := by
  unfold protMteCbc; simp [hmac]

theorem seq_etm {S} (P : Prims S) (c : Cfg) (hmac : c.hasMac = true) (u : Bool) (s : St S) (t : UInt8) (p : Bytes) :
    (protEtm P c u s t p).1.seq = s.seq + 1 := by
  unfold protEtm; simp [hmac]

theorem seq_aead {S} (P : Prims S) (c : Cfg) (s : St S) (t : UInt8) (p : Bytes) :
    (protAead P c s t p).1.seq = s.seq + 1 := by
  unfold protAead; simp

/-- generic step: an authenticated item that is in the log of a sender whose sequence numbers are
    `s0.seq + j` pins the index when the item determines the sequence number -/
theorem log_index {S} (send : St S → UInt8 → Bytes → St S × Bytes)
    (hseq : ∀ s t p, (send s t p).1.seq = s.seq + 1) {α} (item : St S × UInt8 × Bytes → α)
    (s0 : St S) (sent : List (UInt8 × Bytes)) (a : α) (h : a ∈ (trace send s0 sent).map item) :
    ∃ j, ∃ hj : j < sent.length,
      a = item (runState send s0 (sent.take j), sent[j].1, sent[j].2) ∧
      (runState send s0 (sent.take j)).seq = s0.seq + j := by
  obtain ⟨x, hx, rfl⟩ := List.mem_map.mp h
  obtain ⟨j, hj, rfl⟩ := mem_trace send sent s0 x hx
  refine ⟨j, hj, rfl, ?_⟩
  rw [runState_seq send hseq]
  simp; omega

end Tls.Rec
