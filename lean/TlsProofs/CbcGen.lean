import TlsProofs.PyInt
/-
  What one iteration of the two loops of ct_check_cbc_mac_and_pad does to its (mask, result) state,
  written over Python ints, and the folds of these steps expressed through the hand model's `orFold`.
  Nothing here depends on the generated module: Props/C12.lean shows that the loop bodies of
  `Gen.ct_check_cbc_mac_and_pad` compute exactly these steps.
-/
namespace Tls.CT
open Tls Tls.Py

/-- `x.bind f = r` from the value of `x` -/
theorem bind_eq_of {α β : Type} {x : Option α} {f : α → Option β} {r : Option β} (a : α)
    (hx : x = some a) (hf : f a = r) : x.bind f = r := by
  rw [hx]; exact hf

/-- padding loop body: `mask = lsb_prop(pad_start <= i); result |= (data[i] ^ pad_length) & mask` -/
def padStep (data : Bytes) (p ps : Nat) (k : Nat) (s : Int × Int) : Int × Int :=
  ((ctLsbPropU8 (ctLeU32 ps k) : Int),
    Py.bor s.2 (((byteAt data k ^^^ p) &&& ctLsbPropU8 (ctLeU32 ps k) : Nat) : Int))

theorem foldl_padStep (data : Bytes) (p ps : Nat) (l : List Nat) (m0 : Int) (r0 : Nat) :
    (l.foldl (fun st k => padStep data p ps k st) (m0, (r0 : Int))).2
      = ((r0 ||| orFold l fun i => (byteAt data i ^^^ p) &&& ctLsbPropU8 (ctLeU32 ps i) : Nat) : Int) :=
  foldl_pair_bor l (fun k => (ctLsbPropU8 (ctLeU32 ps k) : Int))
    (fun i => (byteAt data i ^^^ p) &&& ctLsbPropU8 (ctLeU32 ps i)) m0 r0

/-- MAC loop body: digest of the prefix ending at `k`, `mask = lsb_prop(k == mac_start)`, inner loop
    `result |= (data[k+j] ^ mac_compare[j]) & mask` -/
def macStep (m : MacAlg) (data acc : Bytes) (ms sp : Nat) (k : Nat) (s : Int × Int) : Int × Int :=
  ((ctLsbPropU8 (ctEqU32 k ms) : Int),
    (List.range m.dlen).foldl (fun (r : Int) j =>
      Py.bor r (((byteAt data (k + j) ^^^ byteAt (m.digest (acc ++ (data.drop sp).take (k - sp))) j)
        &&& ctLsbPropU8 (ctEqU32 k ms) : Nat) : Int)) s.2)

theorem foldl_macStep (m : MacAlg) (data acc : Bytes) (ms sp : Nat) (l : List Nat) (m0 : Int) (r0 : Nat) :
    (l.foldl (fun st k => macStep m data acc ms sp k st) (m0, (r0 : Int))).2
      = ((r0 ||| orFold l fun i => orFold (List.range m.dlen) fun j =>
          (byteAt data (i + j) ^^^ byteAt (m.digest (acc ++ (data.drop sp).take (i - sp))) j)
            &&& ctLsbPropU8 (ctEqU32 i ms) : Nat) : Int) :=
  foldl_pair_fold_bor l (List.range m.dlen) (fun k => (ctLsbPropU8 (ctEqU32 k ms) : Int))
    (fun i j => (byteAt data (i + j) ^^^ byteAt (m.digest (acc ++ (data.drop sp).take (i - sp))) j)
      &&& ctLsbPropU8 (ctEqU32 i ms)) m0 r0

/-- the bytes fed to the MAC before the data: `macHeader` of the hand model -/
theorem header_eq (seq : Bytes) (ct : UInt8) (vmaj vmin n : Nat) :
    seq ++ [ct] ++ (if isSsl3 vmaj vmin = true then [] else [UInt8.ofNat vmaj] ++ [UInt8.ofNat vmin])
      ++ [UInt8.ofNat (n >>> 8)] ++ [UInt8.ofNat (n &&& 255)] = macHeader seq ct vmaj vmin n := by
  unfold macHeader
  cases isSsl3 vmaj vmin <;> simp

/-- the public facts about the version argument that the generated function tests -/
theorem ver_facts (vmaj vmin : Nat) (hv : (vmaj, vmin) ∈ [(3, 0), (3, 1), (3, 2), (3, 3)]) :
    Py.guard (List.contains [((3 : Int), (0 : Int)), ((3 : Int), (1 : Int)), ((3 : Int), (2 : Int)),
        ((3 : Int), (3 : Int))] ((vmaj : Int), (vmin : Int))) = some ()
    ∧ decide (((vmaj : Int), (vmin : Int)) = ((3 : Int), (0 : Int))) = isSsl3 vmaj vmin
    ∧ decide (((vmaj : Int), (vmin : Int)) ≠ ((3 : Int), (0 : Int))) = !isSsl3 vmaj vmin
    ∧ vmaj < 256 ∧ vmin < 256 := by
  simp only [List.mem_cons, Prod.mk.injEq, List.mem_nil_iff, or_false] at hv
  rcases hv with ⟨rfl, rfl⟩ | ⟨rfl, rfl⟩ | ⟨rfl, rfl⟩ | ⟨rfl, rfl⟩ <;> decide

end Tls.CT

namespace Tls.CT

theorem ctGtU32_spec (a b : Nat) :
    ctGtU32 a b = if a % 2^32 > b % 2^32 then 1 else 0 := by
  unfold ctGtU32
  rw [ctLtU32_spec]

/-- a Python int reduced mod 2^32, as the 32-bit pattern the hand model works on -/
theorem ofNat_emod32 (a : Int) : BitVec.ofNat 32 (a % 4294967296).toNat = BitVec.ofInt 32 a := by
  apply BitVec.eq_of_toNat_eq
  rw [BitVec.toNat_ofNat, BitVec.toNat_ofInt]
  omega

end Tls.CT
