import TlsModel.Settings
/-
  C19 — lemmas about the value-level model of `validate()`.
-/
namespace Tls.Settings

theorem chk_eq_none (b : Bool) (m : String) : chk b m = none ↔ b = false := by
  cases b <;> simp [chk]

theorem firstSome_nil : firstSome [] = none := rfl

theorem firstSome_cons (x : Option String) (r : List (Option String)) :
    firstSome (x :: r) = none ↔ x = none ∧ firstSome r = none := by
  cases x <;> simp [firstSome]

theorem filterImpls_impls (env : Env) (s : Settings) :
    (filterImpls env s).cipherImplementations = loadedImpls env s.cipherImplementations := by
  simp only [filterImpls]

theorem validateD_ok_iff (env : Env) (s2 o : Settings) :
    validateD env s2 = .ok o ↔
      (loadedImpls env s2.cipherImplementations).isEmpty = false ∧
      (filter3des env (filterImpls env s2)).cipherNames.isEmpty = false ∧
      o = filter3des env (filterImpls env s2) := by
  simp only [validateD, filterImpls_impls]
  cases h1 : (loadedImpls env s2.cipherImplementations).isEmpty with
  | true => simp
  | false =>
    cases h2 : (filter3des env (filterImpls env s2)).cipherNames.isEmpty with
    | true => simp
    | false =>
      simp only [cond_false, true_and, Except.ok.injEq]
      exact eq_comm

theorem validateC_ok_iff (env : Env) (s1 o : Settings) :
    validateC env s1 = .ok o ↔
      firstSome (stageC env (filterMacs s1)) = none ∧ validateD env (filterMacs s1) = .ok o := by
  simp only [validateC]
  cases h : firstSome (stageC env (filterMacs s1)) with
  | some e => simp
  | none => simp

theorem validateB_ok_iff (env : Env) (s o : Settings) :
    validateB env s = .ok o ↔
      firstSome (stageB env (filterVersions s)) = none ∧ validateC env (filterVersions s) = .ok o := by
  simp only [validateB]
  cases h : firstSome (stageB env (filterVersions s)) with
  | some e => simp
  | none => simp

/-- what `validate` computes when it succeeds -/
theorem validate_ok_iff (env : Env) (s o : Settings) :
    validate env s = .ok o ↔
      firstSome (stageA env s) = none ∧
      firstSome (stageB env (filterVersions s)) = none ∧
      firstSome (stageC env (filterMacs (filterVersions s))) = none ∧
      (loadedImpls env s.cipherImplementations).isEmpty = false ∧
      (normalize env s).cipherNames.isEmpty = false ∧
      o = normalize env s := by
  have hv : validate env s = .ok o ↔ firstSome (stageA env s) = none ∧ validateB env s = .ok o := by
    simp only [validate]
    cases h : firstSome (stageA env s) with
    | some e => simp
    | none => simp
  rw [hv, validateB_ok_iff, validateC_ok_iff, validateD_ok_iff]
  exact Iff.rfl

/-- failure = some check fired -/
theorem validate_error_or_ok (env : Env) (s : Settings) :
    (∃ e, validate env s = .error e) ∨ validate env s = .ok (normalize env s) := by
  cases h : validate env s with
  | error e => exact Or.inl ⟨e, rfl⟩
  | ok o => exact Or.inr (by rw [((validate_ok_iff env s o).mp h).2.2.2.2.2])

/-! ### the filters -/

theorem stageB_filterVersions (env : Env) (s : Settings) : stageB env (filterVersions s) = stageB env s := by
  simp only [stageB, filterVersions]

theorem stageC_filters (env : Env) (s : Settings) :
    stageC env (filterMacs (filterVersions s)) = stageC env s := by
  simp only [stageC, filterMacs, filterVersions]

theorem stageB_normalize (env : Env) (s : Settings) : stageB env (normalize env s) = stageB env s := by
  simp only [stageB, normalize, filter3des, filterImpls, filterMacs, filterVersions]

theorem stageC_normalize (env : Env) (s : Settings) : stageC env (normalize env s) = stageC env s := by
  simp only [stageC, normalize, filter3des, filterImpls, filterMacs, filterVersions]

theorem normalize_cipherNames (env : Env) (s : Settings) :
    (normalize env s).cipherNames =
      bif env.tripleDES then s.cipherNames else s.cipherNames.filter fun c => c != "3des" := by
  simp only [normalize, filter3des, filterImpls, filterMacs, filterVersions]

theorem normalize_macNames (env : Env) (s : Settings) :
    (normalize env s).macNames =
      bif verLt s.maxVersion (3, 3) then s.macNames.filter (fun e => e == "sha" || e == "md5") else s.macNames := by
  simp only [normalize, filter3des, filterImpls, filterMacs, filterVersions]

theorem normalize_impls (env : Env) (s : Settings) :
    (normalize env s).cipherImplementations = loadedImpls env s.cipherImplementations := by
  simp only [normalize, filter3des, filterImpls, filterMacs, filterVersions]

theorem normalize_versions (env : Env) (s : Settings) :
    (normalize env s).versions =
      bif verLt s.maxVersion (3, 4) then s.versions.filter (fun v => verLt v (3, 4)) else s.versions := by
  simp only [normalize, filter3des, filterImpls, filterMacs, filterVersions]

theorem loadedImpls_eq_filter (env : Env) (l : List String) :
    loadedImpls env l =
      l.filter fun i => (env.m2crypto || i != "openssl") && (env.pycrypto || i != "pycrypto") := by
  simp only [loadedImpls, List.filter_filter]
  congr 1
  funext i
  exact Bool.and_comm _ _

theorem filter_idem (p : String → Bool) (l : List String) : (l.filter p).filter p = l.filter p := by
  simp [List.filter_filter]

theorem loadedImpls_idem (env : Env) (l : List String) :
    loadedImpls env (loadedImpls env l) = loadedImpls env l := by
  simp only [loadedImpls_eq_filter]
  exact filter_idem _ _

theorem mem_loadedImpls (env : Env) (l : List String) (i : String) :
    i ∈ loadedImpls env l ↔
      i ∈ l ∧ (i = "openssl" → env.m2crypto = true) ∧ (i = "pycrypto" → env.pycrypto = true) := by
  rw [loadedImpls_eq_filter, List.mem_filter]
  constructor
  · rintro ⟨hm, hp⟩
    simp only [Bool.and_eq_true, Bool.or_eq_true, bne_iff_ne, ne_eq] at hp
    refine ⟨hm, fun h => ?_, fun h => ?_⟩
    · rcases hp.1 with h1 | h1
      · exact h1
      · exact absurd h h1
    · rcases hp.2 with h1 | h1
      · exact h1
      · exact absurd h h1
  · rintro ⟨hm, h1, h2⟩
    refine ⟨hm, ?_⟩
    simp only [Bool.and_eq_true, Bool.or_eq_true, bne_iff_ne, ne_eq]
    constructor
    · by_cases h : i = "openssl"
      · exact Or.inl (h1 h)
      · exact Or.inr h
    · by_cases h : i = "pycrypto"
      · exact Or.inl (h2 h)
      · exact Or.inr h

theorem normalize_idem (env : Env) (s : Settings) : normalize env (normalize env s) = normalize env s := by
  simp only [normalize, filter3des, filterImpls, filterMacs, filterVersions, Settings.mk.injEq, true_and,
    and_true, loadedImpls_idem]
  refine ⟨?_, ?_, ?_⟩
  · cases verLt s.maxVersion (3, 4) <;> simp [List.filter_filter]
  · cases env.tripleDES <;> simp [List.filter_filter]
  · cases verLt s.maxVersion (3, 3) <;> simp [List.filter_filter]

/-! ### names stay known under filtering -/

theorem notMatching_subset (l l' S : List String) (hsub : ∀ a, a ∈ l' → a ∈ l)
    (h : (!(notMatching l S).isEmpty) = false) : (!(notMatching l' S).isEmpty) = false := by
  simp only [Bool.not_eq_false', List.isEmpty_iff, notMatching, List.filter_eq_nil_iff] at h ⊢
  intro a ha
  exact h a (hsub a ha)

theorem mem_of_notMatching_empty (l S : List String) (h : (!(notMatching l S).isEmpty) = false)
    (a : String) (ha : a ∈ l) : a ∈ S := by
  simp only [Bool.not_eq_false', List.isEmpty_iff, notMatching, List.filter_eq_nil_iff] at h
  have := h a ha
  simpa using this

theorem mem_cond_filter_r (c : Bool) (p : String → Bool) (l : List String) (a : String)
    (h : a ∈ (bif c then l else l.filter p)) : a ∈ l := by
  cases c
  · exact (List.mem_filter.mp h).1
  · exact h

theorem mem_cond_filter_l (c : Bool) (p : String → Bool) (l : List String) (a : String)
    (h : a ∈ (bif c then l.filter p else l)) : a ∈ l := by
  cases c
  · exact h
  · exact (List.mem_filter.mp h).1

theorem mem_normalize_cipherNames (env : Env) (s : Settings) (a : String)
    (h : a ∈ (normalize env s).cipherNames) : a ∈ s.cipherNames := by
  rw [normalize_cipherNames] at h
  exact mem_cond_filter_r _ _ _ _ h

theorem mem_normalize_macNames (env : Env) (s : Settings) (a : String)
    (h : a ∈ (normalize env s).macNames) : a ∈ s.macNames := by
  rw [normalize_macNames] at h
  exact mem_cond_filter_l _ _ _ _ h

theorem mem_normalize_impls (env : Env) (s : Settings) (a : String)
    (h : a ∈ (normalize env s).cipherImplementations) : a ∈ s.cipherImplementations := by
  rw [normalize_impls] at h
  exact ((mem_loadedImpls env _ a).mp h).1

theorem versions_tls13_filtered (c : Bool) (vs : List Ver) (b : Bool)
    (h : (!vs.contains (3, 3) && vs.contains (3, 4) && b) = false) :
    (!(bif c then vs.filter (fun v => verLt v (3, 4)) else vs).contains (3, 3) &&
      (bif c then vs.filter (fun v => verLt v (3, 4)) else vs).contains (3, 4) && b) = false := by
  cases c
  · exact h
  · have : (vs.filter (fun v => verLt v (3, 4))).contains ((3, 4) : Ver) = false := by
      rw [Bool.eq_false_iff]
      intro hc
      have hm := List.contains_iff_mem.mp hc
      have := (List.mem_filter.mp hm).2
      simp [verLt] at this
    simp only [cond_true, this, Bool.and_false, Bool.false_and]

/-- the checks before the version filter still pass on the normalised object -/
theorem stageA_normalize (env : Env) (s : Settings) (h : firstSome (stageA env s) = none) :
    firstSome (stageA env (normalize env s)) = none := by
  simp only [stageA, firstSome_cons, firstSome_nil, chk_eq_none, and_true] at h
  obtain ⟨h1, h2, h3, h4, h5, h6, h7, h8, h9, h10, h11, h12, h13, h14, h15, h16, h17, h18, h19, h20,
    h21, h22, h23, h24, h25, h26, h27, h28⟩ := h
  simp only [stageA, firstSome_cons, firstSome_nil, chk_eq_none, and_true, normalize, filter3des,
    filterImpls, filterMacs, filterVersions]
  refine ⟨h1, h2, h3, h4, h5, h6, h7, ?_, ?_, h10, ?_, h12, h13, h14, h15, h16, h17, ?_, h19, h20,
    h21, h22, h23, h24, h25, h26, h27, h28⟩
  · exact notMatching_subset _ _ _ (mem_cond_filter_r _ _ _) h8
  · exact notMatching_subset _ _ _ (mem_cond_filter_l _ _ _) h9
  · exact notMatching_subset _ _ _ (fun a ha => ((mem_loadedImpls env _ a).mp ha).1) h11
  · exact versions_tls13_filtered _ _ _ h18

/-- idempotence of the model -/
theorem validate_idem (env : Env) (s o : Settings) (h : validate env s = .ok o) : validate env o = .ok o := by
  obtain ⟨hA, hB, hC, hI, hN, rfl⟩ := (validate_ok_iff env s o).mp h
  rw [validate_ok_iff]
  refine ⟨stageA_normalize env s hA, ?_, ?_, ?_, ?_, (normalize_idem env s).symm⟩
  · rw [stageB_filterVersions, stageB_normalize]; rw [stageB_filterVersions] at hB; exact hB
  · rw [stageC_filters, stageC_normalize]; rw [stageC_filters] at hC; exact hC
  · rw [normalize_impls, loadedImpls_idem]; exact hI
  · rw [normalize_idem]; exact hN

end Tls.Settings
