import TlsModel.CacheConc
import TlsProofs.Cache
import TlsProofs.Conc
/-
  C18 — serial executions of cache calls are histories of the sequential model.
-/
namespace Tls.CacheConc
open Tls.Cache Tls.Conc

theorem runImplFrom_append (st : ImplState) (a b : List Op) :
    runImplFrom st (a ++ b) =
      ((runImplFrom (runImplFrom st a).1 b).1, (runImplFrom st a).2 ++ (runImplFrom (runImplFrom st a).1 b).2) := by
  induction a generalizing st with
  | nil => simp [runImplFrom]
  | cons op a ih =>
    simp only [List.cons_append, runImplFrom]
    rw [ih]

theorem opTimes_append (a b : List Op) : opTimes (a ++ b) = opTimes a ++ opTimes b := by
  induction a with
  | nil => rfl
  | cons op a ih => cases op <;> simp [opTimes, ih]

theorem opTimes_toOp (o : COp) (now : Int) : opTimes [o.toOp now] = [now] := by
  cases o <;> rfl

variable {ρ : Type}

/-- invariant of a serial run: it is a history of the sequential model -/
structure Hist (res : ρ → List Out) (sem : COp → List (Act Shared ρ)) (T : Nat → List COp)
    (st0 : ImplState) (s : SCfg Shared ρ) (hist : List Event) : Prop where
  rem : ∃ rem : Nat → List COp, (∀ t, (s.th t).ops = (rem t).map sem) ∧
          ∀ t, (ofThread t hist).map (·.call) ++ rem t = T t
  outs : ∀ t, res (s.th t).loc = (ofThread t hist).map (·.out)
  run : runImplFrom st0 (hist.map Event.op) = (s.sh.st, hist.map (·.out))
  mono : (opTimes (hist.map Event.op)).Pairwise (· ≤ ·)
  bound : ∀ x ∈ opTimes (hist.map Event.op), x ≤ s.sh.clock

theorem ofThread_snoc_same (t : Nat) (hist : List Event) (e : Event) (h : e.thread = t) :
    ofThread t (hist ++ [e]) = ofThread t hist ++ [e] := by
  simp [ofThread, List.filter_append, h]

theorem ofThread_snoc_other (t : Nat) (hist : List Event) (e : Event) (h : e.thread ≠ t) :
    ofThread t (hist ++ [e]) = ofThread t hist := by
  simp [ofThread, List.filter_append, h]

theorem hist_step (res : ρ → List Out) (sem : COp → List (Act Shared ρ)) (T : Nat → List COp)
    (st0 : ImplState)
    (hseq : ∀ o x l, (runActs (sem o) (x, l)).1 = (stepD o x).1 ∧
                     res (runActs (sem o) (x, l)).2 = res l ++ [(stepD o x).2])
    (s : SCfg Shared ρ) (hist : List Event) (h : Hist res sem T st0 s hist) (t : Nat) :
    ∃ hist', Hist res sem T st0 (serialStep s t) hist' := by
  obtain ⟨rem, hrem, hT⟩ := h.rem
  cases hr : rem t with
  | nil =>
    have : (s.th t).ops = [] := by rw [hrem t, hr]; rfl
    refine ⟨hist, ?_⟩
    have hs : serialStep s t = s := by simp [serialStep, this]
    rw [hs]; exact h
  | cons o rest =>
    have hops : (s.th t).ops = sem o :: rest.map sem := by rw [hrem t, hr]; rfl
    obtain ⟨hsh, hres⟩ := hseq o s.sh (s.th t).loc
    let e : Event := ⟨t, o, s.sh.clock + (o.dt : Int), (stepD o s.sh).2⟩
    refine ⟨hist ++ [e], ?_⟩
    have hstep : serialStep s t =
        { sh := (runActs (sem o) (s.sh, (s.th t).loc)).1,
          th := setTh s.th t ⟨(runActs (sem o) (s.sh, (s.th t).loc)).2, rest.map sem⟩ } := by
      simp [serialStep, hops]
    rw [hstep]
    constructor
    · refine ⟨fun u => if u = t then rest else rem u, ?_, ?_⟩
      · intro u
        by_cases hu : u = t
        · subst hu; simp [setTh]
        · simp [setTh, hu, hrem u]
      · intro u
        by_cases hu : u = t
        · subst hu
          rw [ofThread_snoc_same u hist e rfl]
          simp only [if_true, List.map_append, List.map_cons, List.map_nil, List.append_assoc,
            List.cons_append, List.nil_append]
          rw [← hT u, hr]
        · have hne : e.thread ≠ u := fun x => hu x.symm
          rw [ofThread_snoc_other u hist e hne]
          simp only [hu, if_false]
          exact hT u
    · intro u
      by_cases hu : u = t
      · subst hu
        rw [ofThread_snoc_same u hist e rfl]
        simp only [setTh, if_true, List.map_append, List.map_cons, List.map_nil]
        rw [hres, h.outs u]
      · have hne : e.thread ≠ u := fun x => hu x.symm
        rw [ofThread_snoc_other u hist e hne]
        simp only [setTh, hu, if_false]
        exact h.outs u
    · simp only [List.map_append, List.map_cons, List.map_nil]
      rw [runImplFrom_append, h.run]
      simp only [hsh]
      show ((runImplFrom s.sh.st [e.op]).1, hist.map (·.out) ++ (runImplFrom s.sh.st [e.op]).2) = _
      simp [runImplFrom, stepD, Event.op, e]
    · simp only [List.map_append, List.map_cons, List.map_nil, opTimes_append]
      rw [List.pairwise_append]
      refine ⟨h.mono, ?_, ?_⟩
      · simp only [Event.op, opTimes_toOp]; simp
      · intro a ha b hb
        simp only [Event.op, opTimes_toOp, List.mem_singleton] at hb
        have := h.bound a ha
        subst hb
        show a ≤ s.sh.clock + (o.dt : Int)
        omega
    · intro x hx
      simp only [List.map_append, List.map_cons, List.map_nil, opTimes_append, List.mem_append] at hx
      simp only [hsh, stepD]
      rcases hx with hx | hx
      · have := h.bound x hx; omega
      · simp only [Event.op, opTimes_toOp, List.mem_singleton] at hx
        subst hx
        show s.sh.clock + (o.dt : Int) ≤ s.sh.clock + (o.dt : Int)
        omega

theorem hist_run (res : ρ → List Out) (sem : COp → List (Act Shared ρ)) (T : Nat → List COp)
    (st0 : ImplState)
    (hseq : ∀ o x l, (runActs (sem o) (x, l)).1 = (stepD o x).1 ∧
                     res (runActs (sem o) (x, l)).2 = res l ++ [(stepD o x).2])
    (order : List Nat) : ∀ (s : SCfg Shared ρ) (hist : List Event), Hist res sem T st0 s hist →
    ∃ hist', Hist res sem T st0 (serialRun order s) hist' := by
  induction order with
  | nil => intro s hist h; exact ⟨hist, h⟩
  | cons t order ih =>
    intro s hist h
    obtain ⟨hist1, h1⟩ := hist_step res sem T st0 hseq s hist h t
    exact ih (serialStep s t) hist1 h1

end Tls.CacheConc
