import TlsProofs.RsaBasic
/-
  EMSA-PSS (rsakey.py `EMSA_PSS_encode` / `EMSA_PSS_verify`): what the encoder produces is
  accepted by the verifier, shape and numeric bound of the encoded message, and the exact
  acceptance condition of the verifier.  Core Lean only.
-/
namespace Tls.Rsa
open Tls

/-- the only thing assumed about the hash: fixed, non-zero output length -/
structure HashOk (H : HashAlg) : Prop where
  pos : 0 < H.hLen
  len : ∀ x, (H.hash x).length = H.hLen

/-! ### small facts -/

theorem divceil8_ge (b : Nat) : b ≤ 8 * divceil b 8 := by
  unfold divceil; split <;> omega

theorem divceil8_lt (b : Nat) : 8 * divceil b 8 - b < 8 := by
  unfold divceil; split <;> omega

theorem divceil_mul_ge (a h : Nat) (hh : 0 < h) : a ≤ divceil a h * h := by
  unfold divceil
  have := Nat.div_add_mod a h
  have hm := Nat.mod_lt a hh
  split
  · rw [Nat.add_zero, Nat.mul_comm]; omega
  · rw [Nat.add_mul, Nat.mul_comm (a / h)]; omega

theorem foldl_append_length {α β} (f : β → List α) (l : List β) (init : List α) (n : Nat)
    (hf : ∀ x, (f x).length = n) :
    (l.foldl (fun acc x => acc ++ f x) init).length = init.length + l.length * n := by
  induction l generalizing init with
  | nil => simp
  | cons a t ih =>
    simp only [List.foldl_cons, List.length_cons]
    rw [ih, List.length_append, hf, Nat.add_mul]; omega

theorem mgf1_length {H : HashAlg} (hH : HashOk H) (seed : Bytes) (L : Nat) (m : Bytes)
    (h : mgf1 H seed L = .ok m) : m.length = L := by
  unfold mgf1 at h
  have hp : ¬ H.hLen = 0 := by have := hH.pos; omega
  simp only [hp, if_false] at h
  split at h
  · cases h
  · cases h
    rw [List.length_take, foldl_append_length _ _ _ H.hLen (fun x => hH.len _)]
    simp only [List.length_nil, List.length_range, Nat.zero_add]
    exact Nat.min_eq_left (divceil_mul_ge L H.hLen hH.pos)

theorem xorBytes_length (a b : Bytes) : (xorBytes a b).length = min a.length b.length := by
  unfold xorBytes; exact List.length_zipWith

theorem xorBytes_cancel (a k : Bytes) (h : a.length ≤ k.length) : xorBytes (xorBytes a k) k = a := by
  induction a generalizing k with
  | nil => simp [xorBytes]
  | cons x xs ih =>
    cases k with
    | nil => simp at h
    | cons y ys =>
      simp only [xorBytes, List.zipWith_cons_cons] at ih ⊢
      rw [ih ys (by simpa using h), UInt8.xor_assoc, UInt8.xor_self, UInt8.xor_zero]

theorem headFix_bits : ∀ s < 8, ∀ k < 256, ∀ d < 2,
    UInt8.ofNat (((UInt8.ofNat (((UInt8.ofNat d ^^^ UInt8.ofNat k).toNat &&& ((1 <<< (s+1)) - 1))) ^^^
      UInt8.ofNat k).toNat) &&& ((1 <<< (s+1)) - 1)) = UInt8.ofNat d := by decide +kernel

theorem topBits_clear : ∀ s < 8, ∀ x < 256,
    ((x &&& ((1 <<< (8 - s)) - 1)) % 256) &&& (255 - ((1 <<< (8 - s)) - 1) % 256) = 0 := by
  decide +kernel

theorem masked_le : ∀ s < 8, ∀ x < 256, (x &&& ((1 <<< (8 - s)) - 1)) % 256 < 2 ^ (8 - s) := by
  decide +kernel

theorem uint8_toNat_ofNat (n : Nat) : (UInt8.ofNat n).toNat = n % 256 := by
  simp

theorem uint8_ofNat_toNat (x : UInt8) : UInt8.ofNat x.toNat = x := by
  cases x; simp

/-- the head byte is restored by unmasking when it was `0` or `1` -/
theorem headFix (s : Nat) (hs : s < 8) (d k : UInt8) (hd : d = 0 ∨ d = 1) :
    UInt8.ofNat (((UInt8.ofNat ((d ^^^ k).toNat &&& ((1 <<< (s+1)) - 1))) ^^^ k).toNat &&&
      ((1 <<< (s+1)) - 1)) = d := by
  have hk := headFix_bits s hs k.toNat k.toNat_lt
  rw [uint8_ofNat_toNat] at hk
  rcases hd with rfl | rfl
  · exact hk 0 (by omega)
  · exact hk 1 (by omega)

/-! ### shape of the encoder's output -/

/-- `DB = PS ++ 01 ++ salt` -/
def pssDBOf (emLen hLen : Nat) (salt : Bytes) : Bytes :=
  List.replicate (emLen - salt.length - hLen - 2) (0 : UInt8) ++ [1] ++ salt

theorem pssDBOf_length (emLen hLen : Nat) (salt : Bytes) (h : hLen + salt.length + 2 ≤ emLen) :
    (pssDBOf emLen hLen salt).length = emLen - hLen - 1 := by
  unfold pssDBOf; simp; omega

theorem pssDBOf_head (emLen hLen : Nat) (salt : Bytes) :
    ∃ d t, pssDBOf emLen hLen salt = d :: t ∧ (d = 0 ∨ d = 1) := by
  unfold pssDBOf
  cases emLen - salt.length - hLen - 2 with
  | zero => exact ⟨1, salt, by simp, Or.inr rfl⟩
  | succ a => exact ⟨0, List.replicate a 0 ++ [1] ++ salt, by simp [List.replicate_succ], Or.inl rfl⟩

/-- everything the encoder's success tells us -/
theorem emsaPssEncode_ok {H : HashAlg} (hH : HashOk H) (mHash salt : Bytes) (emBits : Nat) (em : Bytes)
    (h : emsaPssEncode H mHash emBits salt = .ok em) :
    let emLen := divceil emBits 8
    let hh := H.hash (List.replicate 8 (0 : UInt8) ++ mHash ++ salt)
    H.hLen + salt.length + 2 ≤ emLen ∧
    ∃ dbMask x xs, mgf1 H hh (emLen - H.hLen - 1) = .ok dbMask ∧
      xorBytes (pssDBOf emLen H.hLen salt) dbMask = x :: xs ∧
      em = (UInt8.ofNat (x.toNat &&& ((1 <<< (8 - (emLen * 8 - emBits))) - 1)) :: xs) ++ hh ++ [0xbc] := by
  intro emLen hh
  unfold emsaPssEncode at h
  simp only at h
  split at h
  · cases h
  · rename_i hlen
    refine ⟨by omega, ?_⟩
    split at h
    · cases h
    · rename_i dbMask hm
      split at h
      · cases h
      · rename_i masked hmk
        cases h
        unfold maskHead at hmk
        split at hmk
        · cases hmk
        · rename_i x xs hx
          cases hmk
          exact ⟨dbMask, x, xs, hm, hx, rfl⟩

theorem emsaPssEncode_length {H : HashAlg} (hH : HashOk H) (mHash salt : Bytes) (emBits : Nat) (em : Bytes)
    (h : emsaPssEncode H mHash emBits salt = .ok em) : em.length = divceil emBits 8 := by
  obtain ⟨hlen, dbMask, x, xs, hm, hx, rfl⟩ := emsaPssEncode_ok hH mHash salt emBits em h
  have h1 := mgf1_length hH _ _ _ hm
  have h2 := congrArg List.length hx
  rw [xorBytes_length, pssDBOf_length _ _ _ hlen, h1] at h2
  simp only [List.length_cons, Nat.min_self] at h2
  simp only [List.length_append, List.length_cons, List.length_nil, hH.len]
  omega

/-- the encoded message, read as a number, is below `2 ^ emBits` -/
theorem emsaPssEncode_lt {H : HashAlg} (hH : HashOk H) (mHash salt : Bytes) (emBits : Nat) (em : Bytes)
    (h : emsaPssEncode H mHash emBits salt = .ok em) : beDecode em < 2 ^ emBits := by
  have hl := emsaPssEncode_length hH mHash salt emBits em h
  obtain ⟨hlen, dbMask, x, xs, hm, hx, rfl⟩ := emsaPssEncode_ok hH mHash salt emBits em h
  simp only [List.cons_append] at hl ⊢
  rw [beDecode_cons]
  generalize hrest : xs ++ H.hash (List.replicate 8 0 ++ mHash ++ salt) ++ [0xbc] = rest at hl ⊢
  have hd := beDecode_lt rest
  have hs := divceil8_lt emBits
  have hg := divceil8_ge emBits
  have hm8 : divceil emBits 8 * 8 - emBits = 8 * divceil emBits 8 - emBits := by omega
  rw [hm8]
  generalize hsdef : 8 * divceil emBits 8 - emBits = s at hs
  have hb := masked_le s hs x.toNat x.toNat_lt
  rw [uint8_toNat_ofNat]
  simp only [List.length_cons] at hl
  have hrl : rest.length = divceil emBits 8 - 1 := by omega
  rw [hrl] at hd ⊢
  have hpow : 2 ^ emBits = 2 ^ (8 - s) * 256 ^ (divceil emBits 8 - 1) := by
    rw [pow256, ← Nat.pow_add]; congr 1; omega
  rw [hpow]
  have hle : ((x.toNat &&& ((1 <<< (8 - s)) - 1)) % 256 + 1) * 256 ^ (divceil emBits 8 - 1)
      ≤ 2 ^ (8 - s) * 256 ^ (divceil emBits 8 - 1) := Nat.mul_le_mul_right _ hb
  rw [Nat.add_mul] at hle
  omega

/-! ### encode then verify -/

theorem emsaPssVerify_encode {H : HashAlg} (hH : HashOk H) (mHash salt : Bytes) (emBits : Nat) (em : Bytes)
    (h : emsaPssEncode H mHash emBits salt = .ok em) :
    emsaPssVerify H mHash em emBits salt.length = .ok () := by
  have hl := emsaPssEncode_length hH mHash salt emBits em h
  obtain ⟨hlen, dbMask, x, xs, hm, hx, rfl⟩ := emsaPssEncode_ok hH mHash salt emBits em h
  have hml := mgf1_length hH _ _ _ hm
  have hdbl := pssDBOf_length (divceil emBits 8) H.hLen salt hlen
  have hxl : (x :: xs).length = divceil emBits 8 - H.hLen - 1 := by
    rw [← hx, xorBytes_length, hdbl, hml, Nat.min_self]
  obtain ⟨d, dt, hdb, hd01⟩ := pssDBOf_head (divceil emBits 8) H.hLen salt
  -- decompose the mask
  cases dbMask with
  | nil => rw [hdb] at hx; simp [xorBytes] at hx
  | cons k kt =>
  rw [hdb] at hx
  simp only [xorBytes, List.zipWith_cons_cons, List.cons.injEq] at hx
  obtain ⟨hx0, hxt⟩ := hx
  have hdtl : dt.length ≤ kt.length := by
    have := congrArg List.length hdb
    rw [hdbl] at this
    simp only [List.length_cons] at this hml
    omega
  have hs := divceil8_lt emBits
  have hg := divceil8_ge emBits
  have hm8 : divceil emBits 8 * 8 - emBits = 8 * divceil emBits 8 - emBits := by omega
  generalize hsdef : 8 * divceil emBits 8 - emBits = s at hs
  generalize hhdef : H.hash (List.replicate 8 0 ++ mHash ++ salt) = hh at hm ⊢
  have hhl : hh.length = H.hLen := by rw [← hhdef]; exact hH.len _
  rw [hm8, hsdef] at hl ⊢
  generalize hy : UInt8.ofNat (x.toNat &&& ((1 <<< (8 - s)) - 1)) = y at hl ⊢
  have hyxl : (y :: xs).length = divceil emBits 8 - H.hLen - 1 := by
    simpa using hxl
  -- run the verifier
  unfold emsaPssVerify
  have c1 : ¬ divceil emBits 8 < H.hLen + salt.length + 2 := by omega
  simp only [c1, if_false]
  have hlast : (y :: xs ++ hh ++ [0xbc]).getLast? = some 0xbc := List.getLast?_concat
  rw [hlast]
  simp only [ne_eq, not_true_eq_false, if_false]
  have htake : (y :: xs ++ hh ++ [0xbc]).take (divceil emBits 8 - H.hLen - 1) = y :: xs := by
    rw [List.append_assoc]; exact List.take_left' hyxl
  have hdrop : ((y :: xs ++ hh ++ [0xbc]).drop (divceil emBits 8 - H.hLen - 1)).take H.hLen = hh := by
    rw [List.append_assoc, List.drop_left' hyxl]; exact List.take_left' hhl
  rw [htake, hdrop]
  simp only [List.head?_cons]
  have htop : ¬ (y.toNat &&& pssTopMask (divceil emBits 8) emBits ≠ 0) := by
    unfold pssTopMask
    rw [hsdef, ← hy]
    rw [uint8_toNat_ofNat]
    have := topBits_clear s hs x.toNat x.toNat_lt
    omega
  simp only [htop, if_false]
  -- DB is recovered
  have hrec : pssRecoverDB H (y :: xs) hh (divceil emBits 8) emBits
      = .ok (pssDBOf (divceil emBits 8) H.hLen salt) := by
    unfold pssRecoverDB
    rw [hm]
    simp only [xorBytes, List.zipWith_cons_cons, maskHead]
    rw [hm8, hsdef, hdb]
    congr 2
    · -- head
      rw [← hy, ← hx0]
      have hs1 : 8 - s = (7 - s) + 1 := by omega
      rw [hs1]
      exact headFix (7 - s) (by omega) d k hd01
    · rw [← hxt]
      exact xorBytes_cancel dt kt hdtl
  rw [hrec]
  simp only
  -- PS, separator, salt
  have hps : (pssDBOf (divceil emBits 8) H.hLen salt).take (divceil emBits 8 - H.hLen - salt.length - 2)
      = List.replicate (divceil emBits 8 - salt.length - H.hLen - 2) 0 := by
    have ha : divceil emBits 8 - H.hLen - salt.length - 2 = divceil emBits 8 - salt.length - H.hLen - 2 := by
      omega
    rw [ha]
    unfold pssDBOf
    rw [List.append_assoc]
    apply List.take_left'
    simp
  have hany : ¬ ((List.replicate (divceil emBits 8 - salt.length - H.hLen - 2) (0 : UInt8)).any (· ≠ 0)) = true := by
    simp [List.any_replicate]
  rw [hps]
  simp only [hany, if_false]
  have hsep : (pssDBOf (divceil emBits 8) H.hLen salt)[divceil emBits 8 - H.hLen - salt.length - 2]? = some 1 := by
    have ha : divceil emBits 8 - H.hLen - salt.length - 2 = divceil emBits 8 - salt.length - H.hLen - 2 := by
      omega
    rw [ha]
    unfold pssDBOf
    rw [List.append_assoc, List.getElem?_append_right (by simp)]
    simp
  rw [hsep]
  simp only [ne_eq, not_true_eq_false, if_false]
  have hsalt : (if salt.length ≠ 0 then
        (pssDBOf (divceil emBits 8) H.hLen salt).drop ((pssDBOf (divceil emBits 8) H.hLen salt).length - salt.length)
      else []) = salt := by
    by_cases hz : salt.length = 0
    · simp only [hz, ne_eq, not_true_eq_false, if_false]
      exact (List.eq_nil_of_length_eq_zero hz).symm
    · simp only [hz, ne_eq, not_false_eq_true, if_true]
      unfold pssDBOf
      apply List.drop_left'
      simp only [List.length_append, List.length_replicate, List.length_cons, List.length_nil]
      omega
  rw [hsalt, hhdef]
  simp

/-! ### exact acceptance condition of the verifier -/

/-- `EMSA_PSS_verify` returns True exactly when every structural check of RFC 8017 §9.1.2 passes -/
theorem emsaPssVerify_ok_iff (H : HashAlg) (mHash em : Bytes) (emBits sLen : Nat) :
    emsaPssVerify H mHash em emBits sLen = .ok () ↔
      let emLen := divceil emBits 8
      let maskedDB := em.take (emLen - H.hLen - 1)
      let h := (em.drop (emLen - H.hLen - 1)).take H.hLen
      H.hLen + sLen + 2 ≤ emLen ∧
      em.getLast? = some 0xbc ∧
      (∃ b0, maskedDB.head? = some b0 ∧ b0.toNat &&& pssTopMask emLen emBits = 0) ∧
      ∃ db, pssRecoverDB H maskedDB h emLen emBits = .ok db ∧
        (∀ x ∈ db.take (emLen - H.hLen - sLen - 2), x = 0) ∧
        db[emLen - H.hLen - sLen - 2]? = some 1 ∧
        h = H.hash (List.replicate 8 (0 : UInt8) ++ mHash ++
              (if sLen ≠ 0 then db.drop (db.length - sLen) else [])) := by
  unfold emsaPssVerify
  simp only
  constructor
  · intro hv
    split at hv
    · cases hv
    rename_i c1
    split at hv
    · cases hv
    rename_i last hlast
    split at hv
    · cases hv
    rename_i c2
    split at hv
    · cases hv
    rename_i b0 hb0
    split at hv
    · cases hv
    rename_i c3
    split at hv
    · cases hv
    rename_i db hdb
    split at hv
    · cases hv
    rename_i c4
    split at hv
    · cases hv
    rename_i sep hsep
    split at hv
    · cases hv
    rename_i c5
    by_cases c6 : List.take H.hLen (List.drop (divceil emBits 8 - H.hLen - 1) em) =
        H.hash (List.replicate 8 0 ++ mHash ++ if sLen ≠ 0 then List.drop (db.length - sLen) db else [])
    · refine ⟨by omega, ?_, ⟨b0, hb0, ?_⟩, db, hdb, ?_, ?_, c6⟩
      · rw [hlast]; simp only [ne_eq, Decidable.not_not] at c2; rw [c2]
      · simpa using c3
      · intro x hx
        simp only [List.any_eq_true, ne_eq, decide_eq_true_eq, not_exists, not_and, Decidable.not_not] at c4
        exact c4 x hx
      · rw [hsep]; simp only [ne_eq, Decidable.not_not] at c5; rw [c5]
    · rw [if_neg c6] at hv; cases hv
  · intro ⟨h1, h2, ⟨b0, hb0, hb0z⟩, db, hdb, hps, hsep, hh⟩
    have c1 : ¬ divceil emBits 8 < H.hLen + sLen + 2 := by omega
    simp only [c1, if_false]
    rw [h2]
    simp only [ne_eq, not_true_eq_false, if_false]
    rw [hb0]
    simp only [hb0z, not_true_eq_false, if_false]
    rw [hdb]
    simp only
    have c4 : ¬ ((db.take (divceil emBits 8 - H.hLen - sLen - 2)).any (· ≠ 0)) = true := by
      simp only [List.any_eq_true, ne_eq, decide_eq_true_eq, not_exists, not_and, Decidable.not_not]
      exact hps
    simp only [c4, if_false]
    rw [hsep]
    simp only [not_true_eq_false, if_false]
    rw [if_pos hh]
    simp only [Bool.false_eq_true, if_false]

end Tls.Rsa
