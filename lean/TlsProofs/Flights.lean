import TlsModel.Flights
/- helper lemmas for the flight theorems of Props/C08 -/
namespace Tls.Flights
open Tls.ErrPath

def Out.noEscape : Out → Bool
  | .escape _ => false
  | _ => true

/-- what the parsers establish: an item whose extension list has a duplicated type was refused
    (`_reject_duplicate_extensions`), so it never reaches the checks with `parse = 0` -/
def Item.wf (i : Item) : Bool := !(i.e1.isDup || i.x1.isDup) || i.parse != 0

/-- a result of one `_getMsg` call on a flight: an answer that is not an escape, or an accepted
    message of the flight with the rest of the flight -/
def Got.good (P : Item → Prop) : Got → Prop
  | .out o => o.noEscape = true
  | .msg i rest => P i ∧ i.parse = 0 ∧ ∀ j ∈ rest, P j

theorem Got.good_mono {P : Item → Prop} {g : Got} (h : g.good P) : g.good P := h

theorem get13_good (P : Item → Prop) (allowed : List Nat) : ∀ fl : List Item, (∀ j ∈ fl, P j) →
    (get13 allowed fl).good P := by
  intro fl
  induction fl with
  | nil => intro _; simp [get13, Got.good, Out.noEscape]
  | cons i tl ih =>
    intro hP
    have hi := hP i List.mem_cons_self
    have htl : ∀ j ∈ tl, P j := fun j hj => hP j (List.mem_cons_of_mem _ hj)
    unfold get13
    by_cases h1 : (i.ctype == 20) = true
    · simp only [h1, if_true]
      by_cases h2 : i.ccs.isEmpty = true
      · simp [h2, Got.good, emptyRecord, Out.noEscape]
      · simp only [h2, Bool.false_eq_true, if_false]
        by_cases h3 : (i.ccs.length != 1) = true
        · simp [h3, Got.good, Out.noEscape]
        · simp only [h3, Bool.false_eq_true, if_false]
          by_cases h4 : (i.ccs.head? != some 1) = true
          · simp [h4, Got.good, Out.noEscape]
          · simp only [h4, Bool.false_eq_true, if_false]
            exact ih htl
    · simp only [h1, Bool.false_eq_true, if_false]
      by_cases h2 : (i.ctype != 22) = true
      · simp [h2, Got.good, Out.noEscape]
      · simp only [h2, Bool.false_eq_true, if_false]
        by_cases h3 : (!allowed.contains i.htype) = true
        · simp only [h3, if_true]; simp [Got.good, unexpectedHs, Out.noEscape]
        · simp only [h3, Bool.false_eq_true, if_false]
          by_cases h4 : (i.parse != 0) = true
          · simp [h4, Got.good, Out.noEscape]
          · simp only [h4, Bool.false_eq_true, if_false]
            refine ⟨hi, ?_, htl⟩
            simpa using h4

theorem get12hs_good (P : Item → Prop) (allowed : List Nat) : ∀ fl : List Item, (∀ j ∈ fl, P j) →
    (get12hs allowed fl).good P := by
  intro fl
  cases fl with
  | nil => intro _; simp [get12hs, Got.good, Out.noEscape]
  | cons i tl =>
    intro hP
    have hi := hP i List.mem_cons_self
    have htl : ∀ j ∈ tl, P j := fun j hj => hP j (List.mem_cons_of_mem _ hj)
    unfold get12hs
    by_cases h1 : (i.ctype == 20 && i.ccs.isEmpty) = true
    · simp [h1, Got.good, emptyRecord, Out.noEscape]
    · simp only [h1, Bool.false_eq_true, if_false]
      by_cases h2 : (i.ctype != 22) = true
      · simp [h2, Got.good, Out.noEscape]
      · simp only [h2, Bool.false_eq_true, if_false]
        by_cases h3 : (!allowed.contains i.htype) = true
        · simp only [h3, if_true]; simp [Got.good, unexpectedHs, Out.noEscape]
        · simp only [h3, Bool.false_eq_true, if_false]
          by_cases h4 : (i.parse != 0) = true
          · simp [h4, Got.good, Out.noEscape]
          · simp only [h4, Bool.false_eq_true, if_false]
            refine ⟨hi, ?_, htl⟩
            simpa using h4

/-- for ChangeCipherSpec the accepted item is only consumed, nothing is read from it -/
theorem get12ccs_out (fl : List Item) :
    match get12ccs fl with
    | .out o => o.noEscape = true
    | .msg _ _ => True := by
  cases fl with
  | nil => simp [get12ccs, Out.noEscape]
  | cons i tl =>
    unfold get12ccs
    by_cases h1 : (i.ctype != 20) = true
    · simp [h1, Out.noEscape]
    · simp only [h1, Bool.false_eq_true, if_false]
      cases hc : i.ccs with
      | nil => simp [emptyRecord, Out.noEscape]
      | cons b bs =>
        simp only
        by_cases h2 : (b != 1) = true
        · simp [h2, Out.noEscape]
        · simp [h2]

theorem andThen_noEscape {P : Item → Prop} {g : Got} {k : Item → List Item → Out} (hg : g.good P)
    (hk : ∀ i rest, P i → i.parse = 0 → (∀ j ∈ rest, P j) → (k i rest).noEscape = true) :
    (g.andThen k).noEscape = true := by
  cases g with
  | out o => exact hg
  | msg i rest => exact hk i rest hg.1 hg.2.1 hg.2.2

/-- the same for the items-are-unconstrained case -/
theorem andThen_noEscape' {g : Got} {k : Item → List Item → Out} (hg : g.good (fun _ => True))
    (hk : ∀ i rest, (k i rest).noEscape = true) : (g.andThen k).noEscape = true :=
  andThen_noEscape hg (fun i rest _ _ _ => hk i rest)

theorem get13_good' (allowed : List Nat) (fl : List Item) : (get13 allowed fl).good (fun _ => True) :=
  get13_good _ allowed fl (fun _ _ => trivial)

theorem get12hs_good' (allowed : List Nat) (fl : List Item) : (get12hs allowed fl).good (fun _ => True) :=
  get12hs_good _ allowed fl (fun _ _ => trivial)

theorem ccs_andThen (fl : List Item) (k : Item → List Item → Out)
    (hk : ∀ i rest, (k i rest).noEscape = true) : ((get12ccs fl).andThen k).noEscape = true := by
  have h := get12ccs_out fl
  cases hg : get12ccs fl with
  | out o => rw [hg] at h; exact h
  | msg i rest => exact hk i rest

/-- close goals `(...).noEscape = true` of the flight functions: walk through ifs, matches and the
    `_getMsg` steps -/
macro "flight_walk" : tactic =>
  `(tactic| (repeat' (first
      | rfl
      | (apply andThen_noEscape' (get13_good' _ _); intro _ _)
      | (apply andThen_noEscape' (get12hs_good' _ _); intro _ _)
      | (apply ccs_andThen; intro _ _)
      | split)))

theorem client12Finished_noEscape (fl : List Item) : (client12Finished fl).noEscape = true := by
  unfold client12Finished
  flight_walk


theorem client12AfterDone_noEscape (c : Cli12) (cert ske cr : Option Item) (fl : List Item)
    (hc : c.certSuite = true → cert.isSome = true) :
    (client12AfterDone c cert ske cr fl).noEscape = true := by
  unfold client12AfterDone
  simp only []
  have hf := client12Finished_noEscape fl
  cases cert with
  | none =>
    have : c.certSuite = false := by
      cases h : c.certSuite with
      | false => rfl
      | true => simpa using hc h
    simp only [this, Bool.false_eq_true, if_false]
    repeat' (first | exact hf | rfl | split)
  | some ct =>
    repeat' (first | exact hf | rfl | contradiction | split)


theorem wf_nodup {i : Item} (hw : i.wf = true) (hp : i.parse = 0) :
    i.e1.isDup = false ∧ i.x1.isDup = false := by
  unfold Item.wf at hw
  simp only [hp, bne_self_eq_false, Bool.or_false, Bool.not_eq_true', Bool.or_eq_false_iff] at hw
  exact hw


theorem client13Tail_noEscape (c : Cli13) (ee : Item) (cr : Option Item) (hx : ee.x1.isDup = false) :
    (client13Tail c ee cr).noEscape = true := by
  unfold client13Tail
  cases client13CrAnswer c cr with
  | some p => rfl
  | none =>
  simp only []
  cases hx1 : ee.x1 with
  | dup => rw [hx1] at hx; exact Bool.noConfusion hx
  | absent => repeat' (first | rfl | contradiction | split)
  | present names =>
    cases names with
    | nil => repeat' (first | rfl | contradiction | (simp at *; done) | split)
    | cons a tl => repeat' (first | rfl | contradiction | (simp at *; done) | split)


theorem client13WithCert_noEscape (c : Cli13) (ee : Item) (cr : Option Item) (fl : List Item)
    (hx : ee.x1.isDup = false) : (client13WithCert c ee cr fl).noEscape = true := by
  unfold client13WithCert
  repeat' (first
    | exact client13Tail_noEscape c ee cr hx
    | rfl
    | (apply andThen_noEscape' (get13_good' _ _); intro _ _)
    | split)


end Tls.Flights
