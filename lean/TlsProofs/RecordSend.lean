import TlsProofs.RecordRoundtrip
/- `recvRecord (sendRecord x) = x` through the real dispatch, and the wire length of what `sendRecord` emits. -/
namespace Tls.Rec
open Tls.CT

/-- configurations the library can be in (each clause is established by the code that fills the
    connection states, see the comments) -/
structure Cfg.WF {S} (c : Cfg) (P : Prims S) : Prop where
  /-- `TLSRecordLayer.version` setter: `tls13record` is switched on exactly for versions above 1.2 -/
  v13 : c.tls13record = c.verGt 3 3
  /-- TLS 1.3 suites are AEAD; before the keys are installed there is no cipher and no MAC -/
  c13 : c.is13 = true → (c.cipher = .null ∧ c.hasMac = false) ∨ c.cipher = .aead
  /-- `_decryptThenMAC` asserts it -/
  blockMac : c.cipher = .block → c.hasMac = true
  /-- `calcPendingStates`: `fixedIVBlock = getRandomBytes(ivLength)` with `ivLength` = block size -/
  iv : c.cipher = .block → c.verGe 3 2 = true → c.fixedIV.length = P.bs
  /-- "aes" is not a substring of "chacha20-poly1305" -/
  names : c.nameHasAes = true → c.nameIsChacha = false

/-- what the dispatcher of `sendRecord` protects: (header type, bytes) -/
def sendPlain (c : Cfg) (padCb : Option PadCb) (sendLimit : Nat) (t : UInt8) (data : Bytes) : UInt8 × Bytes :=
  if c.is13 && c.cipher != .null && t != 20 then (23, innerPlain padCb sendLimit t data) else (t, data)

theorem sendRecord_header {S} (P : Prims S) (c : Cfg) (padCb : Option PadCb) (sendLimit : Nat)
    (st st' : St S) (t : UInt8) (data : Bytes) (r : Rec)
    (h : sendRecord P c padCb sendLimit st t data = some (st', r)) :
    r.typ = (sendPlain c padCb sendLimit t data).1 ∧ (r.vmaj, r.vmin) = c.recVer := by
  unfold sendRecord at h
  unfold sendPlain
  simp only at h
  generalize (c.is13 && c.cipher != Cipher.null && t != 20) = w at h ⊢
  cases w <;> simp only [Bool.false_eq_true, if_false, if_true] at h ⊢ <;> repeat' split at h
  all_goals first
    | (simp at h; done)
    | (simp only [Option.some.injEq, Prod.mk.injEq] at h; obtain ⟨_, h⟩ := h; subst h; simp; done)

/-- the decryption dispatch of the receiver inverts the protection dispatch of the sender -/
theorem decrypt_send {S} (P : Prims S) (c : Cfg) (hc : c.WF P)
    (hm : c.hasMac = true → MacLaw P) (hs : c.cipher = .stream → StreamLaw P)
    (hb : c.cipher = .block → BlockLaw P) (ha : c.cipher = .aead → AeadLaw P)
    (padCb : Option PadCb) (sendLimit : Nat) (st st' : St S) (t : UInt8) (data : Bytes) (r : Rec)
    (rv : Recv S) (hsync : rv.st = st) (hearly : rv.earlyOk = false)
    (hlen : data.length < 2 ^ 29)
    (h : sendRecord P c padCb sendLimit st t data = some (st', r)) :
    decrypt P c rv r = .ok (st', (sendPlain c padCb sendLimit t data).2) := by
  unfold sendRecord at h
  unfold sendPlain
  unfold decrypt
  simp only [hearly, hsync]
  cases h13 : c.is13
  · -- TLS ≤ 1.2
    have hgt : c.verGt 3 3 = false := by
      cases hg : c.verGt 3 3
      · rfl
      · have := hc.v13; unfold Cfg.is13 at h13; rw [hg] at this h13; simp [this] at h13
    simp only [h13, hgt, Bool.false_and, Bool.false_eq_true, if_false] at h ⊢
    by_cases hssl : ((c.vmaj == 0 && c.vmin == 2) || (c.vmaj == 2 && c.vmin == 0)) = true
    · simp [hssl] at h
    · simp only [hssl, if_false] at h
      cases hci : c.cipher
      · -- null
        simp only [hci] at h ⊢
        cases hetm : c.etm
        · simp [hetm] at h
          obtain ⟨h1, h2⟩ := h
          subst h1; subst h2
          have := rt_mteStream P c hm false (by simp) st t data
          simp [this, hetm]
        · simp [hetm] at h
          obtain ⟨h1, h2⟩ := h
          subst h1; subst h2
          cases hmac : c.hasMac
          · have : decEtm P c false st t (protEtm P c false st t data).2 = .ok ((protEtm P c false st t data).1, data) := by
              unfold decEtm protEtm; simp [hmac]
            simp [this, hetm]
          · have := rt_etm_null P (hm hmac) c st t data
            simp [this, hetm]
      · -- stream
        simp only [hci] at h ⊢
        cases hetm : c.etm
        · simp [hetm] at h
          obtain ⟨h1, h2⟩ := h
          subst h1; subst h2
          have := rt_mteStream P c hm true (fun _ => hs hci) st t data
          simp [this, hetm]
        · simp [hetm] at h
      · -- block
        simp only [hci] at h ⊢
        have hmac := hc.blockMac hci
        cases hetm : c.etm
        · simp [hetm] at h
          obtain ⟨h1, h2⟩ := h
          subst h1; subst h2
          have := rt_mteCbc P (hm hmac) (hb hci) c hmac (hc.iv hci) st t data hlen
          simp [this, hetm]
        · simp [hetm] at h
          obtain ⟨h1, h2⟩ := h
          subst h1; subst h2
          have := rt_etm P (hm hmac) (hb hci) c (hc.iv hci) st t data
          simp [this, hetm]
      · -- aead
        simp only [hci] at h ⊢
        simp at h
        obtain ⟨h1, h2⟩ := h
        subst h1; subst h2
        have := rt_aead12 P (ha hci) c h13 hc.names st t data c.recVer
        simp [this]
  · -- TLS 1.3
    have hgt : c.verGt 3 3 = true := by unfold Cfg.is13 at h13; simp at h13; exact h13.1
    have hssl : ((c.vmaj == 0 && c.vmin == 2) || (c.vmaj == 2 && c.vmin == 0)) = false := by
      unfold Cfg.verGt at hgt
      cases h1 : (c.vmaj == 0 && c.vmin == 2) <;> cases h2 : (c.vmaj == 2 && c.vmin == 0) <;> simp_all <;> omega
    simp only [h13, hgt, hssl, Bool.true_and, Bool.false_eq_true, if_false] at h ⊢
    rcases hc.c13 h13 with ⟨hci, hmac⟩ | hci
    · -- no keys yet
      simp only [hci, hmac] at h ⊢
      simp only [bne_self_eq_false, Bool.false_and, Bool.false_eq_true, if_false] at h ⊢
      by_cases ht : t = 20
      · subst ht
        simp at h
        obtain ⟨h1, h2⟩ := h
        subst h1; subst h2
        simp
      · have ht' : (t == 20) = false := by simp [ht]
        simp only [ht', Bool.false_eq_true, if_false] at h ⊢
        have hna : (Cipher.null == Cipher.aead) = false := by decide
        simp only [hna, Bool.false_eq_true, if_false] at h ⊢
        cases hetm : c.etm
        · simp [hetm] at h
          obtain ⟨h1, h2⟩ := h
          subst h1; subst h2
          have := rt_mteStream P c hm false (by simp) st t data
          simp [this, ht]
        · simp [hetm] at h
          obtain ⟨h1, h2⟩ := h
          subst h1; subst h2
          have : decEtm P c false st t (protEtm P c false st t data).2 = .ok ((protEtm P c false st t data).1, data) := by
            unfold decEtm protEtm; simp [hmac]
          simp [this, ht]
    · -- AEAD
      have hne : (c.cipher != Cipher.null) = true := by rw [hci]; decide
      simp only [hci] at h ⊢
      have hne' : (Cipher.aead != Cipher.null) = true := by decide
      simp only [hne', Bool.true_and] at h ⊢
      by_cases ht : t = 20
      · subst ht
        simp at h
        obtain ⟨h1, h2⟩ := h
        subst h1; subst h2
        simp
      · have ht' : (t != 20) = true := by simp [ht]
        simp only [ht', if_true] at h ⊢
        have h2320 : ((23 : UInt8) == 20) = false := by decide
        have h2321 : ((23 : UInt8) == 21) = false := by decide
        simp at h
        obtain ⟨h1, h2⟩ := h
        subst h1; subst h2
        have := rt_aead13 P (ha hci) c h13 st (innerPlain padCb sendLimit t data)
        simp [this, h2321]

/-! ### wire length -/

def padOf (padCb : Option PadCb) (sendLimit : Nat) (t : UInt8) (n : Nat) : Nat :=
  match padCb with
  | none => 0
  | some cb => cb (n + 1) t ((sendLimit : Int) + 1 - ((n + 1 : Nat) : Int))

theorem innerPlain_eq (padCb : Option PadCb) (sendLimit : Nat) (t : UInt8) (data : Bytes) :
    innerPlain padCb sendLimit t data = data ++ [t] ++ zeros (padOf padCb sendLimit t data.length) := by
  unfold innerPlain padOf
  cases padCb <;> simp [zeros]

theorem innerPlain_length (padCb : Option PadCb) (sendLimit : Nat) (t : UInt8) (data : Bytes) :
    (innerPlain padCb sendLimit t data).length = data.length + 1 + padOf padCb sendLimit t data.length := by
  rw [innerPlain_eq]; simp [zeros]; omega

theorem len_mteStream {S} (P : Prims S) (c : Cfg) (hm : c.hasMac = true → MacLaw P) (useEnc : Bool)
    (hs : useEnc = true → StreamLaw P) (st : St S) (t : UInt8) (data : Bytes) :
    (protMteStream P c useEnc st t data).2.length = data.length + (if c.hasMac then P.mac.dlen else 0) := by
  unfold protMteStream
  cases hmac : c.hasMac
  · cases hu : useEnc
    · simp
    · simp [(hs hu).len]
  · cases hu : useEnc
    · simp [(hm hmac).len]
    · simp [(hs hu).len, (hm hmac).len]

theorem len_mteCbc {S} (P : Prims S) (c : Cfg) (hm : c.hasMac = true → MacLaw P) (hb : BlockLaw P)
    (st : St S) (t : UInt8) (data : Bytes) :
    (protMteCbc P c st t data).2.length =
      paddedLen P.bs ((if c.verGe 3 2 then c.fixedIV.length else 0) + data.length + (if c.hasMac then P.mac.dlen else 0)) := by
  unfold protMteCbc mteCbcPlain
  simp only [hb.len, addPadding_length]
  cases hmac : c.hasMac <;> cases hv : c.verGe 3 2 <;> simp [Nat.add_assoc]
  · rw [(hm hmac).len]
  · rw [(hm hmac).len]

theorem len_etm {S} (P : Prims S) (c : Cfg) (hm : c.hasMac = true → MacLaw P) (hb : BlockLaw P)
    (st : St S) (t : UInt8) (data : Bytes) :
    (protEtm P c true st t data).2.length =
      paddedLen P.bs ((if c.verGe 3 2 then c.fixedIV.length else 0) + data.length) + (if c.hasMac then P.mac.dlen else 0) := by
  unfold protEtm etmPlain
  cases hmac : c.hasMac <;> cases hv : c.verGe 3 2 <;> simp [hb.len, addPadding_length]
  · rw [(hm hmac).len]
  · rw [(hm hmac).len]

theorem len_etm_null {S} (P : Prims S) (c : Cfg) (hm : c.hasMac = true → MacLaw P)
    (st : St S) (t : UInt8) (data : Bytes) :
    (protEtm P c false st t data).2.length = data.length + (if c.hasMac then P.mac.dlen else 0) := by
  unfold protEtm
  cases hmac : c.hasMac <;> simp
  exact (hm hmac).len _

theorem len_aead {S} (P : Prims S) (c : Cfg) (ha : AeadLaw P) (st : St S) (t : UInt8) (data : Bytes) :
    (protAead P c st t data).2.length = (if c.explicitNonce then 8 else 0) + data.length + P.tagLen := by
  unfold protAead
  cases he : c.explicitNonce <;> simp [ha.len, seqBytes_length] <;> omega

/-- the body length `sendRecord` puts on the wire is the one `wireLen` computes from the
    plaintext length alone -/
theorem wireLen_sendRecord {S} (P : Prims S) (c : Cfg)
    (hm : c.hasMac = true → MacLaw P) (hs : c.cipher = .stream → StreamLaw P)
    (hb : c.cipher = .block → BlockLaw P) (ha : c.cipher = .aead → AeadLaw P)
    (padCb : Option PadCb) (sendLimit : Nat) (st st' : St S) (t : UInt8) (data : Bytes) (r : Rec)
    (h : sendRecord P c padCb sendLimit st t data = some (st', r)) :
    wireLen P c padCb sendLimit t data.length = some r.body.length := by
  unfold sendRecord at h
  unfold wireLen
  have hin : (innerPlain padCb sendLimit t (zeros data.length)).length = (innerPlain padCb sendLimit t data).length := by
    rw [innerPlain_length, innerPlain_length]; simp [zeros]
  simp only [hin] at h ⊢
  generalize (c.is13 && c.cipher != Cipher.null && t != 20) = w at h ⊢
  generalize hd : (if w = true then innerPlain padCb sendLimit t data else data) = d at h ⊢
  have hdl : (if w = true then (innerPlain padCb sendLimit t data).length else data.length) = d.length := by
    rw [← hd]; cases w <;> simp
  rw [hdl]
  generalize (if w = true then (23 : UInt8) else t) = t' at h ⊢
  by_cases hssl : ((c.vmaj == 0 && c.vmin == 2) || (c.vmaj == 2 && c.vmin == 0)) = true
  · simp [hssl] at h
  · simp only [hssl, if_false] at h ⊢
    by_cases hccs : (c.verGt 3 3 && t' == 20) = true
    · simp [hccs] at h ⊢
      obtain ⟨_, h2⟩ := h; subst h2; rfl
    · simp only [hccs, if_false] at h ⊢
      cases hci : c.cipher
      · simp only [hci] at h ⊢
        cases hetm : c.etm
        · simp [hetm] at h ⊢
          obtain ⟨_, h2⟩ := h; subst h2
          simp [len_mteStream P c hm false (by simp)]
        · simp [hetm] at h ⊢
          obtain ⟨_, h2⟩ := h; subst h2
          simp [len_etm_null P c hm]
      · simp only [hci] at h ⊢
        cases hetm : c.etm
        · simp [hetm] at h ⊢
          obtain ⟨_, h2⟩ := h; subst h2
          simp [len_mteStream P c hm true (fun _ => hs hci)]
        · simp [hetm] at h
      · simp only [hci] at h ⊢
        cases hetm : c.etm
        · simp [hetm] at h ⊢
          obtain ⟨_, h2⟩ := h; subst h2
          simp [len_mteCbc P c hm (hb hci)]
        · simp [hetm] at h ⊢
          obtain ⟨_, h2⟩ := h; subst h2
          simp [len_etm P c hm (hb hci)]
      · simp only [hci] at h ⊢
        simp at h ⊢
        obtain ⟨_, h2⟩ := h; subst h2
        simp [len_aead P c (ha hci)]

theorem paddedLen_le (bs n : Nat) (hbs : 0 < bs) : paddedLen bs n ≤ n + bs := by
  unfold paddedLen; omega

/-- overhead bound: what `wireLen` adds to the plaintext length (TLS ≤ 1.2) -/
theorem wireLen_le {S} (P : Prims S) (c : Cfg) (hiv : c.fixedIV.length ≤ P.bs) (hbs : c.cipher = .block → 0 < P.bs)
    (padCb : Option PadCb) (sendLimit : Nat) (t : UInt8) (n k : Nat) (h13 : c.is13 = false)
    (h : wireLen P c padCb sendLimit t n = some k) : k ≤ n + (P.mac.dlen + 2 * P.bs + P.tagLen + 8) := by
  unfold wireLen at h
  simp only [h13, Bool.false_and, Bool.false_eq_true, if_false] at h
  by_cases hssl : ((c.vmaj == 0 && c.vmin == 2) || (c.vmaj == 2 && c.vmin == 0)) = true
  · simp [hssl] at h
  · simp only [hssl, if_false] at h
    by_cases hccs : (c.verGt 3 3 && t == 20) = true
    · simp [hccs] at h; omega
    · simp only [hccs, if_false] at h
      have e1 : (if c.hasMac = true then P.mac.dlen else 0) ≤ P.mac.dlen := by split <;> omega
      have e2 : (if c.verGe 3 2 = true then c.fixedIV.length else 0) ≤ P.bs := by split <;> omega
      have e3 : (if c.explicitNonce = true then 8 else 0) ≤ 8 := by split <;> omega
      cases hci : c.cipher
      · simp only [hci] at h
        cases hetm : c.etm <;> simp [hetm] at h <;> omega
      · simp only [hci] at h
        cases hetm : c.etm <;> simp [hetm] at h <;> omega
      · simp only [hci] at h
        have hp := fun m => paddedLen_le P.bs m (hbs hci)
        cases hetm : c.etm <;> simp [hetm] at h
        · have := hp ((if c.verGe 3 2 = true then c.fixedIV.length else 0) + n + (if c.hasMac = true then P.mac.dlen else 0))
          omega
        · have := hp ((if c.verGe 3 2 = true then c.fixedIV.length else 0) + n)
          omega
      · simp only [hci] at h
        simp at h
        omega

theorem wireLen_le13 {S} (P : Prims S) (c : Cfg) (hc : c.WF P)
    (padCb : Option PadCb) (sendLimit : Nat) (t : UInt8) (data : Bytes) (k : Nat) (h13 : c.is13 = true)
    (h : wireLen P c padCb sendLimit t data.length = some k) :
    k ≤ (sendPlain c padCb sendLimit t data).2.length + P.tagLen := by
  unfold wireLen at h
  unfold sendPlain
  have hin : (innerPlain padCb sendLimit t (zeros data.length)).length = (innerPlain padCb sendLimit t data).length := by
    rw [innerPlain_length, innerPlain_length]; simp [zeros]
  have hgt : c.verGt 3 3 = true := by unfold Cfg.is13 at h13; simp at h13; exact h13.1
  have hssl : ((c.vmaj == 0 && c.vmin == 2) || (c.vmaj == 2 && c.vmin == 0)) = false := by
    unfold Cfg.verGt at hgt
    cases h1 : (c.vmaj == 0 && c.vmin == 2) <;> cases h2 : (c.vmaj == 2 && c.vmin == 0) <;> simp_all <;> omega
  have hex : c.explicitNonce = false := by unfold Cfg.explicitNonce; simp [h13]
  simp only [hin, h13, hgt, hssl, hex, Bool.true_and, Bool.false_eq_true, if_false] at h ⊢
  rcases hc.c13 h13 with ⟨hci, hmac⟩ | hci
  · simp only [hci, hmac] at h ⊢
    by_cases ht : t = 20
    · subst ht; simp at h ⊢; omega
    · cases hetm : c.etm <;> simp [hetm, ht] at h ⊢ <;> omega
  · simp only [hci] at h ⊢
    by_cases ht : t = 20
    · subst ht; simp at h ⊢; omega
    · simp [ht] at h ⊢; omega

/-- `recvRecord` inverts `sendRecord` through the real dispatch of both functions: a receiver whose
    read state equals the sender's write state, outside the early-data window, with limits that
    admit the record, recovers (type, plaintext) and ends in the sender's new state. -/
theorem recvRecord_sendRecord {S} (P : Prims S) (c : Cfg) (hc : c.WF P)
    (hm : c.hasMac = true → MacLaw P) (hs : c.cipher = .stream → StreamLaw P)
    (hb : c.cipher = .block → BlockLaw P) (ha : c.cipher = .aead → AeadLaw P)
    (padCb : Option PadCb) (sendLimit : Nat) (st st' : St S) (t : UInt8) (data : Bytes) (r : Rec)
    (rv : Recv S) (hsync : rv.st = st) (hearly : rv.earlyOk = false) (ht : t ≠ 0)
    (hlim : data.length ≤ rv.recvLimit) (hrl : rv.recvLimit ≤ 2 ^ 14)
    (hinner : (sendPlain c padCb sendLimit t data).2.length ≤ rv.recvLimit + 1)
    (hov : P.mac.dlen + 2 * P.bs + P.tagLen + 8 ≤ 2048) (htag : P.tagLen ≤ 255)
    (hivl : c.fixedIV.length ≤ P.bs)
    (h : sendRecord P c padCb sendLimit st t data = some (st', r)) :
    recvRecord P c rv r = .ok { rv with st := st', earlyOk := false, processed := 0 } t data := by
  have hwl := wireLen_sendRecord P c hm hs hb ha padCb sendLimit st st' t data r h
  have hdec := decrypt_send P c hc hm hs hb ha padCb sendLimit st st' t data r rv hsync hearly
    (by have : (2:Nat)^14 < 2^29 := by decide
        omega) h
  have hhdr := (sendRecord_header P c padCb sendLimit st st' t data r h).1
  unfold recvRecord
  cases h13 : c.is13
  · -- TLS ≤ 1.2
    have hle := wireLen_le P c hivl (fun hci => (hb hci).bs_pos) padCb sendLimit t data.length _ h13 hwl
    have hgt : c.verGt 3 3 = false := by
      cases hg : c.verGt 3 3
      · rfl
      · have := hc.v13; unfold Cfg.is13 at h13; rw [hg] at this h13; simp [this] at h13
    have h1 : ¬ r.body.length > rv.recvLimit + 1024 + 1024 := by omega
    have h2 : c.tls13record = false := by rw [hc.v13, hgt]
    unfold sendPlain at hdec hhdr
    simp only [h13, Bool.false_and, Bool.false_eq_true, if_false] at hdec hhdr
    have h3 : ¬ data.length > rv.recvLimit := by omega
    simp only [h1, if_false, h2, Bool.false_and, Bool.false_eq_true, hdec, h3, hhdr]
  · -- TLS 1.3
    have hle := wireLen_le13 P c hc padCb sendLimit t data _ h13 hwl
    have h1 : ¬ r.body.length > rv.recvLimit + 1024 + 1024 := by omega
    have h2 : ¬ r.body.length > rv.recvLimit + 256 := by omega
    have h3 : ¬ data.length > rv.recvLimit := by omega
    simp only [h1, if_false, h2, decide_false, Bool.and_false, Bool.false_eq_true, hdec, Bool.true_and]
    unfold sendPlain at hdec hhdr hinner ⊢
    simp only [h13, Bool.true_and] at hdec hhdr hinner ⊢
    by_cases hw : (c.cipher != Cipher.null && t != 20) = true
    · simp only [hw, if_true] at hhdr hinner ⊢
      have hcn : (c.cipher != Cipher.null) = true := by
        cases hh : (c.cipher != Cipher.null) <;> simp [hh] at hw ⊢
      have h4 : ¬ (innerPlain padCb sendLimit t data).length > rv.recvLimit + 1 := by omega
      have h5 : dePad (innerPlain padCb sendLimit t data) = some (data, t) := by
        rw [innerPlain_eq]; exact dePad_inner data t _ ht
      simp [hcn, hhdr, h4, h5, h3]
    · simp only [hw, Bool.false_eq_true, if_false] at hhdr hinner ⊢
      have h6 : (c.cipher != Cipher.null && t == 23) = false := by
        cases hh : (c.cipher != Cipher.null)
        · simp
        · simp [hh] at hw; subst hw; decide
      simp only [hhdr, h6, Bool.false_eq_true, if_false, h3]

end Tls.Rec
