import TlsProofs.AuthHs2
/-
  C05 helper lemmas, part 8: PSK identities that are session tickets.
-/
namespace Tls.Auth
open Gen

/-- what the loop has established about the choice it returns -/
def PskChoiceProof (C : Crypto) (configs : List PskConfig) (dec : Bytes → Option Ticket) (lifetime now ver : Nat)
    (prf : HashName) (tr : Transcript) (psks : List (Bytes × Bytes)) (c : PskChoice) : Prop :=
  ∃ binder, psks[c.index]? = some (c.identity, binder) ∧
    ((c.external = true ∧ c.resumedChain = [] ∧ ∃ cfg, cfg ∈ configs ∧ cfg.identity = c.identity ∧
        cfg.hash = prf ∧ binder = calcBinder C prf cfg.secret tr true) ∨
     (c.external = false ∧ ∃ tk, dec c.identity = some tk ∧ c.resumedChain = tk.clientChain ∧
        tk.version = ver ∧ ¬ (tk.creation + lifetime < now) ∧ tk.hash = prf ∧
        binder = calcBinder C prf tk.psk tr false))

theorem pskSelectT_ok (C : Crypto) (configs : List PskConfig) (dec : Bytes → Option Ticket)
    (lifetime now ver : Nat) (prf : HashName) (tr : Transcript) (last : Bool) :
    ∀ (offered : List (Bytes × Bytes)) (i : Nat) (c : PskChoice),
      pskSelectT C configs dec lifetime now ver prf tr last offered i = .ok (some c) →
      i ≤ c.index ∧ ∃ binder, offered[c.index - i]? = some (c.identity, binder) ∧
        ((c.external = true ∧ c.resumedChain = [] ∧ ∃ cfg, cfg ∈ configs ∧ cfg.identity = c.identity ∧
            cfg.hash = prf ∧ binder = calcBinder C prf cfg.secret tr true) ∨
         (c.external = false ∧ ∃ tk, dec c.identity = some tk ∧ c.resumedChain = tk.clientChain ∧
            tk.version = ver ∧ ¬ (tk.creation + lifetime < now) ∧ tk.hash = prf ∧
            binder = calcBinder C prf tk.psk tr false)) := by
  intro offered
  induction offered with
  | nil => intro i c h; simp [pskSelectT] at h
  | cons p rest ih =>
    intro i c h
    obtain ⟨ident, binder⟩ := p
    have step : ∀ (h' : pskSelectT C configs dec lifetime now ver prf tr last rest (i + 1) = .ok (some c)),
        i ≤ c.index ∧ ∃ b, ((ident, binder) :: rest)[c.index - i]? = some (c.identity, b) ∧
        ((c.external = true ∧ c.resumedChain = [] ∧ ∃ cfg, cfg ∈ configs ∧ cfg.identity = c.identity ∧
            cfg.hash = prf ∧ b = calcBinder C prf cfg.secret tr true) ∨
         (c.external = false ∧ ∃ tk, dec c.identity = some tk ∧ c.resumedChain = tk.clientChain ∧
            tk.version = ver ∧ ¬ (tk.creation + lifetime < now) ∧ tk.hash = prf ∧
            b = calcBinder C prf tk.psk tr false)) := by
      intro h'
      obtain ⟨h1, b, h2, h3⟩ := ih (i + 1) c h'
      refine ⟨by omega, b, ?_, h3⟩
      have : c.index - i = (c.index - (i + 1)) + 1 := by omega
      rw [this, List.getElem?_cons_succ]; exact h2
    unfold pskSelectT at h
    cases hf : configs.find? (fun c => c.identity = ident) with
    | some cfg =>
      simp only [hf] at h
      by_cases hh : cfg.hash = prf
      · simp only [hh, ne_eq, not_true_eq_false, if_false] at h
        by_cases hl : last = false
        · simp [hl] at h
        · simp only [hl, if_false] at h
          by_cases hb : calcBinder C prf cfg.secret tr true = binder
          · simp [hb] at h
            subst h
            have hmem := List.mem_of_find?_eq_some hf
            have hid := List.find?_some hf
            simp only [decide_eq_true_eq] at hid
            refine ⟨Nat.le_refl _, binder, by simp, Or.inl ⟨rfl, rfl, cfg, hmem, hid, hh, hb.symm⟩⟩
          · simp [hb] at h
      · simp only [hh, ne_eq, not_false_eq_true, if_true] at h
        exact step h
    | none =>
      simp only [hf] at h
      cases hd : dec ident with
      | none => simp only [hd] at h; exact step h
      | some tk =>
        simp only [hd] at h
        by_cases hv : ver = tk.version
        · simp only [hv, ne_eq, not_true_eq_false, if_false] at h
          by_cases hexp : tk.creation + lifetime < now
          · simp only [hexp, if_true] at h; rw [← hv] at h; exact step h
          · simp only [hexp, if_false] at h
            by_cases hh : tk.hash = prf
            · simp only [hh, ne_eq, not_true_eq_false, if_false] at h
              by_cases hl : last = false
              · simp [hl] at h
              · simp only [hl, if_false] at h
                by_cases hb : calcBinder C prf tk.psk tr false = binder
                · simp [hb] at h
                  subst h
                  refine ⟨Nat.le_refl _, binder, by simp, Or.inr ⟨rfl, tk, hd, rfl, hv.symm, hexp, hh, hb.symm⟩⟩
                · simp [hb] at h
            · simp only [hh, ne_eq, not_false_eq_true, if_true] at h
              rw [← hv] at h; exact step h
        · simp only [hv, ne_eq, not_false_eq_true, if_true] at h
          exact step h

/-- TLS 1.3 server with tickets: a recorded client chain is either the chain presented and proved in
    this handshake, or the chain stored in a ticket whose resumption binder over THIS ClientHello
    verified and which was selected as the PSK of this handshake. -/
theorem hsServer13T_ok (C : Crypto) (s : Settings) (own : Chain) (configs : List PskConfig)
    (dec : Bytes → Option Ticket) (lifetime now : Nat) (prf : HashName) (trCH : Transcript) (last : Bool)
    (psks : List (Bytes × Bytes)) (reqCert : Bool) (offered : List SchemeId) (chain : Chain) (tCV : Transcript)
    (ownScheme : Option SchemeId) (cv : CertVerify) (sec : Bytes) (tFin : Transcript) (fin : Bytes)
    (h : (hsServer13T C s own configs dec lifetime now prf trCH last psks reqCert offered chain tCV ownScheme cv sec tFin fin).completed = true) :
    ∃ sess, (hsServer13T C s own configs dec lifetime now prf trCH last psks reqCert offered chain tCV ownScheme cv sec tFin fin).session = some sess ∧
      fin = finished13 C prf sec tFin ∧
      (sess.clientCertChain ≠ [] →
        (sess.clientCertChain = chain ∧ reqCert = true ∧ ClientProof13 C offered chain tCV prf cv) ∨
        (∃ c, sess.pskIdentity = some c.identity ∧ c.external = false ∧ sess.clientCertChain = c.resumedChain ∧
          PskChoiceProof C configs dec lifetime now 4 prf trCH psks c)) ∧
      (∀ ident, sess.pskIdentity = some ident → ∃ c, c.identity = ident ∧
        PskChoiceProof C configs dec lifetime now 4 prf trCH psks c) := by
  unfold hsServer13T at h ⊢
  cases hp : pskSelectT C configs dec lifetime now 4 prf trCH last psks 0 with
  | error e => simp [hp, Outcome.fail] at h
  | ok sel =>
    simp only [hp] at h ⊢
    cases sel with
    | some c =>
      simp only at h ⊢
      by_cases hf : fin = finished13 C prf sec tFin
      · simp only [hf, ne_eq, not_true_eq_false, if_false, Outcome.done]
        obtain ⟨_, b, hb1, hb2⟩ := pskSelectT_ok C configs dec lifetime now 4 prf trCH last psks 0 c hp
        have hproof : PskChoiceProof C configs dec lifetime now 4 prf trCH psks c := ⟨b, by simpa using hb1, hb2⟩
        refine ⟨_, rfl, trivial, ?_, ?_⟩
        · intro hne
          simp only [if_true] at hne ⊢
          right
          refine ⟨c, rfl, ?_, rfl, hproof⟩
          rcases hb2 with ⟨_, hnil, _⟩ | ⟨hext, _⟩
          · exact absurd hnil hne
          · exact hext
        · intro ident hid
          simp only [Option.map_some, Option.some.injEq] at hid
          exact ⟨c, hid, hproof⟩
      · simp [hf, Outcome.fail] at h
    | none =>
      simp only at h ⊢
      by_cases hr : reqCert = true
      · simp only [hr, if_true] at h ⊢
        cases hv : verifyCV13Server C s offered chain tCV prf ownScheme cv with
        | error e => simp [hv, Outcome.fail] at h
        | ok ch =>
          simp only [hv] at h ⊢
          by_cases hf : fin = finished13 C prf sec tFin
          · obtain ⟨h1, h2⟩ := verifyCV13Server_ok C s offered chain tCV prf ownScheme cv ch hv
            simp only [hf, ne_eq, not_true_eq_false, if_false, Outcome.done]
            refine ⟨_, rfl, trivial, ?_, ?_⟩
            · intro hne
              left
              by_cases hch : ch = []
              · simp [hch] at hne
              · simp only [hch, if_false]
                exact ⟨h1, trivial, h2⟩
            · intro ident hid; simp at hid
          · simp [hf, Outcome.fail] at h
      · simp only [hr, Bool.false_eq_true, if_false] at h ⊢
        by_cases hf : fin = finished13 C prf sec tFin
        · simp only [hf, ne_eq, not_true_eq_false, if_false, Outcome.done]
          refine ⟨_, rfl, trivial, ?_, ?_⟩
          · intro hne; simp at hne
          · intro ident hid; simp at hid
        · simp [hf, Outcome.fail] at h


/-! ### resumed flag and Checker -/

theorem wrapperR_not_resumed (certFp : Cert → Bytes) (fp : Bytes) (cr isClient : Bool) (o : Outcome) :
    wrapperR certFp (some (fp, cr)) isClient false o = wrapper certFp (some fp) isClient o := by
  simp [wrapperR, checkerSkips]

theorem wrapperR_checkResumed (certFp : Cert → Bytes) (fp : Bytes) (isClient resumed : Bool) (o : Outcome) :
    wrapperR certFp (some (fp, true)) isClient resumed o = wrapper certFp (some fp) isClient o := by
  simp [wrapperR, checkerSkips]

theorem wrapper_no_chain (certFp : Cert → Bytes) (fp : Bytes) (isClient : Bool) (o : Outcome) (sess : Session)
    (hs : o.session = some sess)
    (hnone : (if isClient then sess.serverCertChain else sess.clientCertChain) = []) :
    (wrapper certFp (some fp) isClient o).completed = false := by
  have hbad : checkerOk certFp fp isClient sess = false := by
    unfold checkerOk
    simp only
    rw [hnone]
  exact (wrapper_mismatch certFp fp isClient o sess hs hbad).1

theorem resuming13_external (c : PskChoice) (h : c.external = true) : resuming13 (some c) = false := by
  simp [resuming13, h]

end Tls.Auth
