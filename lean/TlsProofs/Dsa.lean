import TlsModel.Dsa
import TlsProofs.RsaInvMod
/-
  DSA: a signature made by `sign` is accepted by `verify` (python_dsakey.py), for well-formed
  domain parameters.
-/
namespace Tls.Rsa
open Nat

theorem invModLoop_gcd (f c d : ℕ) (uc ud : ℤ) (r : ℕ × ℤ)
    (h : invModLoop f c d uc ud = some r) : r.1 = Nat.gcd c d := by
  induction f generalizing c d uc ud with
  | zero => simp [invModLoop] at h
  | succ f ih =>
    unfold invModLoop at h
    by_cases hc0 : c = 0
    · simp only [hc0, if_true, Option.some.injEq] at h
      subst h; simp [hc0]
    · simp only [hc0, if_false] at h
      rw [ih _ _ _ _ h, Nat.gcd_rec c d]

/-- `invMod` returns an inverse whenever one exists -/
theorem invMod_mul_self (a b : ℕ) (hb : 1 < b) (hc : Nat.Coprime a b) : invMod a b * a % b = 1 := by
  apply invMod_spec a b hb
  unfold invMod
  obtain ⟨⟨d, ud⟩, hr⟩ := invModLoop_fuel (a + 1) a b 1 0 (by omega)
  rw [hr]
  have hd : d = 1 := by
    have := invModLoop_gcd _ _ _ _ _ _ hr
    simpa [Nat.Coprime] using this.trans hc
  simp only [hd, if_true]
  have inv := invModLoop_inv a b (a + 1) a b 1 0 (d, ud) (by simp) (by simp [Int.ModEq]) hr
  simp only [hd] at inv
  intro h0
  have hnn : 0 ≤ ud % (b : ℤ) := Int.emod_nonneg _ (by omega)
  have hz : ud % (b : ℤ) = 0 := by
    have := Int.toNat_of_nonneg hnn
    rw [h0] at this; exact this.symm
  have hdvd : (b : ℤ) ∣ ud := Int.dvd_of_emod_eq_zero hz
  have : ud * (a : ℤ) ≡ 0 [ZMOD b] := by
    obtain ⟨t, ht⟩ := hdvd
    rw [ht, mul_assoc]
    exact (Int.modEq_zero_iff_dvd.mpr ⟨t * a, rfl⟩)
  have h10 : (1 : ℤ) ≡ 0 [ZMOD b] := by
    have := inv.symm.trans this
    simpa using this
  have := Int.modEq_zero_iff_dvd.mp h10
  have hle := Int.le_of_dvd (by norm_num) this
  omega

end Tls.Rsa

namespace Tls.Dsa
open Nat Tls.Rsa

/-- well-formed DSA key: `q` prime, `g` of order dividing `q` modulo `p`, `y = g^x mod p` -/
structure ValidKey (key : Key) : Prop where
  hq : key.q.Prime
  hp : 1 < key.p
  hg : key.g ^ key.q ≡ 1 [MOD key.p]
  hy : key.y = key.g ^ key.x % key.p

theorem pow_modEq_of_exp_modEq {p q g : ℕ} (hg : g ^ q ≡ 1 [MOD p]) {a b : ℕ} (hab : a ≡ b [MOD q]) :
    g ^ a ≡ g ^ b [MOD p] := by
  wlog hle : a ≤ b generalizing a b
  · exact (this hab.symm (by omega)).symm
  obtain ⟨t, ht⟩ := (Nat.modEq_iff_dvd' hle).mp hab
  have hb : b = a + q * t := by omega
  rw [hb, pow_add, pow_mul]
  have : g ^ a * (g ^ q) ^ t ≡ g ^ a * 1 ^ t [MOD p] := (Nat.ModEq.refl _).mul (hg.pow t)
  simpa using this.symm

theorem verify_sign {key : Key} (vk : ValidKey key) (k : ℕ) (hk0 : 0 < k) (hkq : k < key.q) (data : Bytes)
    (hr : (signRS key k data).1 ≠ 0) (hs : (signRS key k data).2 ≠ 0) :
    verifyRS key (signRS key k data).1 (signRS key k data).2 data = true := by
  have hq1 : 1 < key.q := vk.hq.one_lt
  have hq0 : 0 < key.q := by omega
  unfold signRS at hr hs ⊢
  simp only at hr hs ⊢
  generalize hz : digestOf key.q data = z at hr hs ⊢
  generalize hrdef : powMod key.g k key.p % key.q = r at hr hs ⊢
  generalize hsdef : invMod k key.q * (z + key.x * r) % key.q = s at hs ⊢
  have hrq : r < key.q := by rw [← hrdef]; exact Nat.mod_lt _ hq0
  have hsq : s < key.q := by rw [← hsdef]; exact Nat.mod_lt _ hq0
  unfold verifyRS
  simp only [hz]
  have hcond : 0 < r ∧ r < key.q ∧ 0 < s ∧ s < key.q := ⟨by omega, hrq, by omega, hsq⟩
  rw [if_pos hcond]
  simp only [beq_iff_eq]
  -- inverses
  have hkc : Nat.Coprime k key.q :=
    ((Nat.Prime.coprime_iff_not_dvd vk.hq).mpr (Nat.not_dvd_of_pos_of_lt hk0 hkq)).symm
  have hsc : Nat.Coprime s key.q :=
    ((Nat.Prime.coprime_iff_not_dvd vk.hq).mpr (Nat.not_dvd_of_pos_of_lt (by omega) hsq)).symm
  have hkinv : invMod k key.q * k ≡ 1 [MOD key.q] := by
    show _ % _ = 1 % key.q
    rw [invMod_mul_self k key.q hq1 hkc, Nat.mod_eq_of_lt hq1]
  have hwinv : invMod s key.q * s ≡ 1 [MOD key.q] := by
    show _ % _ = 1 % key.q
    rw [invMod_mul_self s key.q hq1 hsc, Nat.mod_eq_of_lt hq1]
  set w := invMod s key.q with hw
  set ki := invMod k key.q with hki
  -- s ≡ ki (z + x r), hence w (z + x r) ≡ k  (mod q)
  have hs' : s ≡ ki * (z + key.x * r) [MOD key.q] := by
    rw [← hsdef]; exact Nat.mod_modEq _ _
  have hks : k * s ≡ z + key.x * r [MOD key.q] := by
    have h1 : k * s ≡ k * (ki * (z + key.x * r)) [MOD key.q] := hs'.mul_left k
    have h2 : k * (ki * (z + key.x * r)) = (ki * k) * (z + key.x * r) := by ring
    rw [h2] at h1
    have h3 : ki * k * (z + key.x * r) ≡ 1 * (z + key.x * r) [MOD key.q] := hkinv.mul_right _
    simpa using h1.trans h3
  have hexp : z * w % key.q + key.x * (r * w % key.q) ≡ k [MOD key.q] := by
    have h1 : z * w % key.q + key.x * (r * w % key.q) ≡ z * w + key.x * (r * w) [MOD key.q] :=
      (Nat.mod_modEq _ _).add ((Nat.mod_modEq _ _).mul_left _)
    have h2 : z * w + key.x * (r * w) = w * (z + key.x * r) := by ring
    rw [h2] at h1
    have h3 : w * (z + key.x * r) ≡ w * (k * s) [MOD key.q] := hks.symm.mul_left w
    have h4 : w * (k * s) = (w * s) * k := by ring
    rw [h4] at h3
    have h5 : w * s * k ≡ 1 * k [MOD key.q] := hwinv.mul_right k
    simpa using (h1.trans h3).trans h5
  -- g^u1 y^u2 ≡ g^k (mod p)
  rw [powMod_eq, powMod_eq, vk.hy]
  have hprod : key.g ^ (z * w % key.q) % key.p * ((key.g ^ key.x % key.p) ^ (r * w % key.q) % key.p)
      ≡ key.g ^ (z * w % key.q + key.x * (r * w % key.q)) [MOD key.p] := by
    have a1 : key.g ^ (z * w % key.q) % key.p ≡ key.g ^ (z * w % key.q) [MOD key.p] := Nat.mod_modEq _ _
    have a2 : (key.g ^ key.x % key.p) ^ (r * w % key.q) % key.p ≡ key.g ^ (key.x * (r * w % key.q)) [MOD key.p] := by
      refine (Nat.mod_modEq _ _).trans ?_
      rw [pow_mul]
      exact (Nat.mod_modEq _ _).pow _
    rw [pow_add]
    exact a1.mul a2
  have hfinal := hprod.trans (pow_modEq_of_exp_modEq vk.hg hexp)
  have : key.g ^ (z * w % key.q) % key.p * ((key.g ^ key.x % key.p) ^ (r * w % key.q) % key.p) % key.p
      = key.g ^ k % key.p := hfinal
  rw [this, ← hrdef, powMod_eq]

end Tls.Dsa

namespace Tls.Dsa
open Nat Tls.Rsa

/-- what `verify` computes, in closed form: the signing equation solved for the nonce.
    For well-formed parameters, `(r, s)` is accepted iff both are in `(0, q)` and
    `r = (g^k mod p) mod q` for `k = s⁻¹·(z + x·r) mod q` — i.e. iff it is the signature the key
    would produce on this digest with that nonce. -/
theorem verifyRS_iff {key : Key} (vk : ValidKey key) (r s : ℕ) (data : Bytes) :
    verifyRS key r s data = true ↔
      0 < r ∧ r < key.q ∧ 0 < s ∧ s < key.q ∧
      r = key.g ^ (invMod s key.q * (digestOf key.q data + key.x * r) % key.q) % key.p % key.q := by
  unfold verifyRS
  simp only
  generalize digestOf key.q data = z
  by_cases hc : 0 < r ∧ r < key.q ∧ 0 < s ∧ s < key.q
  · rw [if_pos hc]
    simp only [beq_iff_eq, powMod_eq, vk.hy]
    have key_eq : (key.g ^ (z * invMod s key.q % key.q) % key.p *
          ((key.g ^ key.x % key.p) ^ (r * invMod s key.q % key.q) % key.p)) % key.p
        = key.g ^ (invMod s key.q * (z + key.x * r) % key.q) % key.p := by
      set w := invMod s key.q
      have a1 : key.g ^ (z * w % key.q) % key.p ≡ key.g ^ (z * w % key.q) [MOD key.p] := Nat.mod_modEq _ _
      have a2 : (key.g ^ key.x % key.p) ^ (r * w % key.q) % key.p ≡ key.g ^ (key.x * (r * w % key.q)) [MOD key.p] := by
        refine (Nat.mod_modEq _ _).trans ?_
        rw [pow_mul]
        exact (Nat.mod_modEq _ _).pow _
      have hprod := a1.mul a2
      rw [← pow_add] at hprod
      have hexp : z * w % key.q + key.x * (r * w % key.q) ≡ w * (z + key.x * r) % key.q [MOD key.q] := by
        have h1 : z * w % key.q + key.x * (r * w % key.q) ≡ z * w + key.x * (r * w) [MOD key.q] :=
          (Nat.mod_modEq _ _).add ((Nat.mod_modEq _ _).mul_left _)
        have h2 : z * w + key.x * (r * w) = w * (z + key.x * r) := by ring
        rw [h2] at h1
        exact h1.trans (Nat.mod_modEq _ _).symm
      exact hprod.trans (pow_modEq_of_exp_modEq vk.hg hexp)
    rw [key_eq]
    constructor
    · intro h; exact ⟨hc.1, hc.2.1, hc.2.2.1, hc.2.2.2, h⟩
    · intro h; exact h.2.2.2.2
  · rw [if_neg hc]
    simp only [Bool.false_eq_true, false_iff]
    intro h; exact hc ⟨h.1, h.2.1, h.2.2.1, h.2.2.2.1⟩

end Tls.Dsa
