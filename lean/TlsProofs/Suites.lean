import TlsModel.Suites
/- helper lemmas for Props/C20.lean -/
namespace Tls.Suites

theorem Obs.agree_iff (a b : Obs) : a.agree b = true ↔ a = b := by
  cases a; cases b
  simp [Obs.agree, and_assoc]

theorem Obs.optAgree_sound {x y : Option Obs} (h : Obs.optAgree x y = true) : y.isSome = true ∧ x = y := by
  cases x <;> cases y <;> simp [Obs.optAgree] at h ⊢
  exact (Obs.agree_iff _ _).mp h

end Tls.Suites
