import TlsModel.Suites
/- helper lemmas for Props/C20.lean -/
namespace Tls.Suites

theorem Obs.agree_iff (a b : Obs) : a.agree b = true ↔ a = b := by
  cases a; cases b
  simp [Obs.agree, and_assoc]

theorem Obs.optAgree_sound {x y : Option Obs} (h : Obs.optAgree x y = true) : y.isSome = true ∧ x = y := by
  cases x <;> cases y <;> simp [Obs.optAgree] at h ⊢
  exact (Obs.agree_iff _ _).mp h

theorem isIn_mem {s : Nat} {l : List Nat} (h : isIn s l = true) : s ∈ l := by
  induction l with
  | nil => simp [isIn] at h
  | cons x xs ih =>
    simp only [isIn, Bool.or_eq_true] at h
    rcases h with h | h
    · have : x = s := Nat.eq_of_beq_eq_true h
      simp [this]
    · exact List.mem_cons_of_mem _ (ih h)

theorem isIn_filter {s : Nat} {l : List Nat} {p : Nat → Bool} (h : isIn s (l.filter p) = true) :
    p s = true := by
  have := isIn_mem h
  exact (List.mem_filter.mp this).2

open Tls.Gen.Suites in
theorem versionIncludes_mem {mn mx : Ver} {s : Nat} (h : versionIncludes mn mx s = true) :
    s ∈ ssl3Suites ++ tls12Suites ++ tls13Suites := by
  simp only [versionIncludes, Bool.or_eq_true, Bool.and_eq_true] at h
  simp only [List.mem_append]
  rcases h with (h | h) | h
  · exact Or.inl (Or.inl (isIn_mem h.2))
  · exact Or.inl (Or.inr (isIn_mem h.2))
  · exact Or.inr (isIn_mem h.2)

theorem isIn_singleton_filter {s : Nat} {p : Nat → Bool} (h : isIn s ([s].filter p) = true) : p s = true :=
  isIn_filter h

/-- a negotiable suite passed the version filter of its version -/
theorem negotiable_versionIncludes {r : Role} {v : Ver} {s : Nat} (h : negotiable r v s = true) :
    versionIncludes v v s = true := by
  cases r <;> simp only [negotiable, clientNegotiable, serverNegotiable, Bool.and_eq_true] at h <;>
    exact isIn_filter (l := [s]) (by simpa [filterForVersion] using h.2)

/-- the shape of an element of `negotiableTriples` -/
theorem mem_negotiableTriples {t : Nat × Ver × Role} (h : t ∈ negotiableTriples) :
    ∃ r v, v ∈ allVersions ∧ (t.2.1 = v ∧ negotiable r v t.1 = true) := by
  simp only [negotiableTriples, negotiableAt, List.mem_flatMap, List.mem_map, List.mem_filter] at h
  obtain ⟨r, _, v, hv, s, ⟨_, hs⟩, rfl⟩ := h
  exact ⟨r, v, hv, rfl, hs⟩

end Tls.Suites
