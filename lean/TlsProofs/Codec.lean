import TlsModel.Codec
import TlsProofs.FmtFit
/-
  Lemmas about the `Writer` / `Parser` model of tlslite/utils/codec.py, and its link to
  the generic codec of TlsModel/Fmt.lean.
-/
set_option linter.unusedSimpArgs false
set_option linter.unusedVariables false
namespace Tls.Codec
open Tls Tls.Fmt

/-! ## Writer -/

namespace Writer

theorem add_ok_iff (w : Writer) (x n : Nat) (w' : Writer) :
    add w x n = .ok w' ↔ x < 256 ^ n ∧ w' = w ++ beEncode n x := by
  unfold add
  by_cases h : x < 256 ^ n <;> simp [h, eq_comm]

theorem add_error_iff (w : Writer) (x n : Nat) (e : WErr) :
    add w x n = .error e ↔ 256 ^ n ≤ x ∧ e = .overflow := by
  unfold add
  by_cases h : x < 256 ^ n
  · simp [h]; omega
  · simp [h, eq_comm]; omega

/-- what `add` appended reads back as `x`: nothing was masked -/
theorem add_reads_back (w : Writer) (x n : Nat) (w' : Writer) (h : add w x n = .ok w') :
    w'.length = w.length + n ∧ beDecode (w'.drop w.length) = x := by
  obtain ⟨hx, rfl⟩ := (add_ok_iff _ _ _ _).mp h
  simp [beEncode_length, beDecode_beEncode n x hx]

theorem addOne_eq_add (w : Writer) (x : Nat) : addOne w x = add w x 1 := by
  unfold addOne add
  by_cases h : x < 256
  · have : x % 256 = x := Nat.mod_eq_of_lt h
    simp [h, beEncode, this]
  · simp [h]

theorem addTwo_eq_add (w : Writer) (x : Nat) : addTwo w x = add w x 2 := by
  unfold addTwo add
  by_cases h : x ≤ 0xffff
  · have : x < 256 ^ 2 := by omega
    simp [h, this]
  · have : ¬ x < 256 ^ 2 := by omega
    simp [h, this]

theorem addThree_eq_add (w : Writer) (x : Nat) : addThree w x = add w x 3 := by
  unfold addThree add
  by_cases h : x / 65536 ≤ 0xff
  · have h3 : x < 256 ^ 3 := by omega
    simp only [h, h3, if_true, beEncode, List.append_assoc]
    have e1 : x / 65536 / 256 ^ 0 % 256 = x / 256 ^ 2 % 256 := by omega
    have e2 : x % 65536 / 256 ^ 1 % 256 = x / 256 ^ 1 % 256 := by omega
    have e3 : x % 65536 / 256 ^ 0 % 256 = x / 256 ^ 0 % 256 := by omega
    rw [e1, e2, e3]; rfl
  · have h3 : ¬ x < 256 ^ 3 := by omega
    simp [h, h3]

theorem addFour_eq_add (w : Writer) (x : Nat) : addFour w x = add w x 4 := by
  unfold addFour add
  by_cases h : x ≤ 0xffffffff
  · have : x < 256 ^ 4 := by omega
    simp [h, this]
  · have : ¬ x < 256 ^ 4 := by omega
    simp [h, this]

/-- `add_var_bytes` is the serialiser of the format `varBytes ll` -/
theorem addVarBytes_eq_encode (w : Writer) (data : Bytes) (ll : Nat) :
    addVarBytes w data ll =
      match encode (varBytes ll) 0 (.bytes data) with
      | some b => .ok (w ++ b)
      | none => .error .overflow := by
  unfold addVarBytes add
  by_cases h : data.length < 256 ^ ll
  · simp [h, encode, bind, Except.bind]
  · simp [h, encode, bind, Except.bind]

theorem addFixSeq_ok_length (seq : List Nat) (n : Nat) :
    ∀ (w w' : Writer), addFixSeq w seq n = .ok w' → w'.length = w.length + seq.length * n := by
  induction seq with
  | nil => intro w w' h; simp [addFixSeq, pure, Except.pure] at h; subst h; simp
  | cons x xs ih =>
    intro w w' h
    simp only [addFixSeq, List.foldlM_cons, bind, Except.bind] at h
    cases ha : add w x n with
    | error e => rw [ha] at h; cases h
    | ok w1 =>
      rw [ha] at h
      have := ih w1 w' h
      obtain ⟨_, rfl⟩ := (add_ok_iff _ _ _ _).mp ha
      simp [beEncode_length] at this
      simp [this, Nat.add_mul]; omega

/-- `addFixSeq` raises exactly when some element does not fit -/
theorem addFixSeq_error_iff (seq : List Nat) (n : Nat) :
    ∀ (w : Writer), (∃ e, addFixSeq w seq n = .error e) ↔ ∃ x ∈ seq, 256 ^ n ≤ x := by
  induction seq with
  | nil => intro w; simp [addFixSeq, pure, Except.pure]
  | cons x xs ih =>
    intro w
    simp only [addFixSeq, List.foldlM_cons, bind, Except.bind]
    cases ha : add w x n with
    | error e =>
      have := (add_error_iff _ _ _ _).mp ha
      simp only [List.mem_cons, exists_eq_or_imp]
      constructor
      · intro _; exact Or.inl this.1
      · intro _; exact ⟨e, rfl⟩
    | ok w1 =>
      have hx := ((add_ok_iff _ _ _ _).mp ha).1
      have := ih w1
      simp only [addFixSeq] at this
      simp only [List.mem_cons, exists_eq_or_imp]
      rw [this]
      constructor
      · intro h; exact Or.inr h
      · rintro (h | h)
        · omega
        · exact h

end Writer

/-! ## Parser -/

namespace Parser

theorem getFixBytes_ok_iff (p : Parser) (n : Nat) (b : Bytes) (p' : Parser) :
    getFixBytes p n = .ok (b, p') ↔
      p.index + n ≤ p.bytes.length ∧ b = (p.bytes.drop p.index).take n ∧
      p' = { p with index := p.index + n } := by
  unfold getFixBytes
  by_cases h : p.index + n > p.bytes.length
  · simp [h]; omega
  · simp [h, eq_comm]; omega

theorem getFixBytes_error_iff (p : Parser) (n : Nat) (e : PErr) :
    getFixBytes p n = .error e ↔ p.bytes.length < p.index + n ∧ e = .readPast := by
  unfold getFixBytes
  by_cases h : p.index + n > p.bytes.length
  · simp [h, eq_comm]
  · simp [h]

theorem get_ok_iff (p : Parser) (n : Nat) (x : Nat) (p' : Parser) :
    get p n = .ok (x, p') ↔
      p.index + n ≤ p.bytes.length ∧ x = beDecode ((p.bytes.drop p.index).take n) ∧
      p' = { p with index := p.index + n } := by
  unfold get
  simp only [bind, Except.bind]
  cases hg : getFixBytes p n with
  | error e =>
    have := (getFixBytes_error_iff _ _ _).mp hg
    simp; omega
  | ok q =>
    obtain ⟨b, p1⟩ := q
    obtain ⟨h1, rfl, rfl⟩ := (getFixBytes_ok_iff _ _ _ _).mp hg
    simp only [Except.ok.injEq, Prod.mk.injEq]
    constructor
    · rintro ⟨rfl, rfl⟩; exact ⟨h1, rfl, rfl⟩
    · rintro ⟨_, rfl, rfl⟩; exact ⟨rfl, rfl⟩

theorem get_error_iff (p : Parser) (n : Nat) (e : PErr) :
    get p n = .error e ↔ p.bytes.length < p.index + n ∧ e = .readPast := by
  unfold get
  simp only [bind, Except.bind]
  cases hg : getFixBytes p n with
  | error e' =>
    have := (getFixBytes_error_iff _ _ _).mp hg
    simp only [Except.error.injEq]
    constructor
    · rintro rfl; exact this
    · rintro ⟨_, rfl⟩; exact this.2
  | ok q =>
    obtain ⟨b, p1⟩ := q
    obtain ⟨h1, _, _⟩ := (getFixBytes_ok_iff _ _ _ _).mp hg
    simp; omega

/-- `get` never reads past the buffer: it succeeds only if the `n` bytes are there, returns
    their big-endian value (so `< 256^n`), advances by exactly `n`, leaves the buffer and the
    length-check registers alone and keeps the read position inside the buffer -/
theorem get_bounds (p : Parser) (n x : Nat) (p' : Parser) (h : get p n = .ok (x, p')) :
    p'.index = p.index + n ∧ p'.index ≤ p.bytes.length ∧ p'.bytes = p.bytes ∧
    p'.indexCheck = p.indexCheck ∧ p'.lengthCheck = p.lengthCheck ∧ x < 256 ^ n ∧ p'.inv := by
  obtain ⟨h1, rfl, rfl⟩ := (get_ok_iff _ _ _ _).mp h
  refine ⟨rfl, h1, rfl, rfl, rfl, ?_, h1⟩
  have := beDecode_lt ((p.bytes.drop p.index).take n)
  have hl : ((p.bytes.drop p.index).take n).length = n := by simp; omega
  rwa [hl] at this

/-- `get` on the parser = the generic decoder of `uint n` on the unread bytes -/
theorem get_eq_decode (p : Parser) (n : Nat) (hinv : p.inv) :
    (get p n).toOption.map (fun (x, p') => (Val.nat x, p'.remaining)) =
      (decode (.uint n) 0 p.remaining).toOption := by
  unfold inv at hinv
  cases hg : get p n with
  | error e =>
    have := (get_error_iff _ _ _).mp hg
    have hl : p.remaining.length < n := by simp [remaining]; omega
    simp [decode, shorter_eq, hl, Except.toOption]
  | ok q =>
    obtain ⟨x, p'⟩ := q
    obtain ⟨h1, rfl, rfl⟩ := (get_ok_iff _ _ _ _).mp hg
    have hl : ¬ p.bytes.length - p.index < n := by omega
    simp [decode, shorter_eq, hl, Except.toOption, remaining, Nat.add_comm]

theorem getVarBytes_ok_iff (p : Parser) (ll : Nat) (b : Bytes) (p' : Parser) :
    getVarBytes p ll = .ok (b, p') ↔
      p.index + ll ≤ p.bytes.length ∧
      p.index + ll + beDecode ((p.bytes.drop p.index).take ll) ≤ p.bytes.length ∧
      b = (p.bytes.drop (p.index + ll)).take (beDecode ((p.bytes.drop p.index).take ll)) ∧
      p' = { p with index := p.index + ll + beDecode ((p.bytes.drop p.index).take ll) } := by
  unfold getVarBytes
  simp only [bind, Except.bind]
  cases hg : get p ll with
  | error e =>
    have := (get_error_iff _ _ _).mp hg
    simp; omega
  | ok q =>
    obtain ⟨x, p1⟩ := q
    obtain ⟨h1, rfl, rfl⟩ := (get_ok_iff _ _ _ _).mp hg
    simp only [getFixBytes_ok_iff]
    constructor
    · rintro ⟨h2, rfl, rfl⟩; exact ⟨h1, h2, rfl, rfl⟩
    · rintro ⟨_, h2, rfl, rfl⟩; exact ⟨h2, rfl, rfl⟩

/-- `getVarBytes` = the generic decoder of `varBytes ll` on the unread bytes: same
    accept/reject, same value, same rest -/
theorem getVarBytes_eq_decode (p : Parser) (ll : Nat) (hinv : p.inv) :
    (getVarBytes p ll).toOption.map (fun (b, p') => (Val.bytes b, p'.remaining)) =
      (decode (varBytes ll) 0 p.remaining).toOption := by
  unfold inv at hinv
  cases hd : decode (varBytes ll) 0 p.remaining with
  | error e =>
    cases hg : getVarBytes p ll with
    | error e' => simp [Except.toOption]
    | ok q =>
      exfalso
      obtain ⟨b, p'⟩ := q
      obtain ⟨h1, h2, rfl, rfl⟩ := (getVarBytes_ok_iff _ _ _ _).mp hg
      have : decode (varBytes ll) 0 p.remaining =
          .ok (.bytes ((p.bytes.drop (p.index + ll)).take (beDecode ((p.bytes.drop p.index).take ll))),
               (p.bytes.drop (p.index + ll)).drop (beDecode ((p.bytes.drop p.index).take ll))) := by
        rw [decode_lenPref_ok]
        simp only [remaining, List.length_drop, List.drop_drop, decode_rest_ok]
        refine ⟨by omega, by omega, ?_, ?_⟩
        · simp [Nat.add_comm]
        · simp [Nat.add_comm]
      rw [this] at hd; cases hd
  | ok q =>
    obtain ⟨v, r⟩ := q
    obtain ⟨h1, h2, h3, rfl⟩ := decode_lenPref_ok.mp hd
    obtain ⟨rfl, _⟩ := decode_rest_ok.mp h3
    simp only [remaining, List.length_drop, List.drop_drop] at h1 h2
    have : getVarBytes p ll = .ok
        ((p.bytes.drop (p.index + ll)).take (beDecode ((p.bytes.drop p.index).take ll)),
         { p with index := p.index + ll + beDecode ((p.bytes.drop p.index).take ll) }) := by
      rw [getVarBytes_ok_iff]
      exact ⟨by omega, by omega, rfl, rfl⟩
    rw [this]
    simp [Except.toOption, remaining, List.drop_drop, Nat.add_comm, Nat.add_left_comm]

theorem skipBytes_bounds (p p' : Parser) (n : Nat) (h : skipBytes p n = .ok p') :
    p'.index = p.index + n ∧ p'.inv := by
  unfold skipBytes at h
  by_cases hh : p.index + n > p.bytes.length
  · simp [hh] at h
  · simp [hh] at h; subst h; exact ⟨rfl, by simp [inv]; omega⟩

/-- `getFixList` reads exactly `k * n` bytes or fails -/
theorem getFixList_bounds (n : Nat) : ∀ (k : Nat) (p : Parser) (l : List Nat) (p' : Parser),
    p.inv → getFixList p n k = .ok (l, p') →
      p'.index = p.index + k * n ∧ p'.index ≤ p.bytes.length ∧ p'.bytes = p.bytes ∧
      p'.indexCheck = p.indexCheck ∧ p'.lengthCheck = p.lengthCheck ∧
      l.length = k ∧ ∀ x ∈ l, x < 256 ^ n := by
  intro k
  induction k with
  | zero =>
    intro p l p' hinv h
    simp only [getFixList, Except.ok.injEq, Prod.mk.injEq] at h
    obtain ⟨rfl, rfl⟩ := h
    exact ⟨by simp, hinv, rfl, rfl, rfl, rfl, by simp⟩
  | succ k ih =>
    intro p l p' hinv h
    simp only [getFixList, bind, Except.bind] at h
    cases hg : get p n with
    | error e => rw [hg] at h; cases h
    | ok q =>
      obtain ⟨x, p1⟩ := q
      rw [hg] at h
      dsimp only at h
      cases hr : getFixList p1 n k with
      | error e => rw [hr] at h; cases h
      | ok q2 =>
        obtain ⟨xs, p2⟩ := q2
        rw [hr] at h
        simp only [Except.ok.injEq, Prod.mk.injEq] at h
        obtain ⟨rfl, rfl⟩ := h
        obtain ⟨a1, a2, a3, a4, a5, a6, a7⟩ := get_bounds _ _ _ _ hg
        obtain ⟨b1, b2, b3, b4, b5, b6, b7⟩ := ih _ _ _ a7 hr
        refine ⟨by rw [b1, a1, Nat.succ_mul]; omega, by rw [← a3]; exact b2, by rw [b3, a3],
          by rw [b4, a4], by rw [b5, a5], by simp [b6], ?_⟩
        intro y hy
        simp only [List.mem_cons] at hy
        rcases hy with rfl | hy
        · exact a6
        · exact b7 y hy

/-- after a successful `startLengthCheck` … reads … `stopLengthCheck`, exactly the declared
    number of bytes was consumed -/
theorem stopLengthCheck_ok_iff (p : Parser) :
    stopLengthCheck p = .ok () ↔ (p.index : Int) - p.indexCheck = p.lengthCheck := by
  unfold stopLengthCheck
  by_cases h : (p.index : Int) - p.indexCheck ≠ p.lengthCheck
  · simp [h]
  · simp only [h, if_false, true_iff]; simpa using h

theorem atLengthCheck_cases (p : Parser) :
    (atLengthCheck p = .ok false ∧ (p.index : Int) - p.indexCheck < p.lengthCheck) ∨
    (atLengthCheck p = .ok true ∧ (p.index : Int) - p.indexCheck = p.lengthCheck) ∨
    (atLengthCheck p = .error .readPast ∧ (p.index : Int) - p.indexCheck > p.lengthCheck) := by
  unfold atLengthCheck
  by_cases h1 : (p.index : Int) - p.indexCheck < p.lengthCheck
  · simp [h1]
  · by_cases h2 : (p.index : Int) - p.indexCheck = p.lengthCheck
    · simp [h1, h2]
    · simp [h1, h2]; omega

theorem getRemainingLength_eq (p : Parser) : getRemainingLength p = p.remaining.length := by
  simp [getRemainingLength, remaining]

end Parser

end Tls.Codec
